// vcheck: single driver for every property check.
//   vcheck <id> quick|thorough
//   vcheck <id> replay <path>
//   vcheck selftest [id...]
//   vcheck list
package main

import (
	"encoding/json"
	"fmt"
	"os"

	"verif/harness/core"
	_ "verif/harness/props"
)

func main() {
	if len(os.Args) < 2 {
		fmt.Println("usage: vcheck <id> quick|thorough|replay [path] | selftest [id...] | list")
		os.Exit(2)
	}
	switch os.Args[1] {
	case "list":
		for _, id := range core.IDs() {
			fmt.Println(id)
		}
		return
	case "selftest":
		ids := os.Args[2:]
		if len(ids) == 0 {
			ids = core.IDs()
		}
		rc := 0
		for _, id := range ids {
			p := core.Lookup(id)
			if p == nil || p.SelfTest == nil {
				continue
			}
			c := core.NewCtx(id, "selftest")
			c.Prop = p
			if err := p.SelfTest(c); err != nil {
				fmt.Printf("SELFTEST FAIL %s: %v\n", id, err)
				rc = 2
			} else {
				fmt.Printf("SELFTEST ok %s\n", id)
			}
		}
		os.Exit(rc)
	}
	id := os.Args[1]
	p := core.Lookup(id)
	if p == nil {
		fmt.Printf("INCONCLUSIVE: no check registered for %s\n", id)
		os.Exit(2)
	}
	tier := "quick"
	if len(os.Args) > 2 {
		tier = os.Args[2]
	}
	if tier == "sub" {
		if p.Sub == nil {
			os.Exit(2)
		}
		os.Exit(p.Sub(os.Args[3:]))
	}
	if t := os.Getenv("VERIF_TIER"); t != "" && (tier == "quick" || tier == "thorough") && len(os.Args) <= 2 {
		tier = t
	}
	c := core.NewCtx(id, tier)
	c.Prop = p
	var err error
	switch tier {
	case "quick", "thorough":
		err = safeRun(func() error { return p.Run(c) })
	case "replay":
		if len(os.Args) < 4 || p.Replay == nil {
			fmt.Println("INCONCLUSIVE: replay needs a path / is not supported for this property")
			os.Exit(2)
		}
		b, e := os.ReadFile(os.Args[3])
		if e != nil {
			fmt.Println("INCONCLUSIVE:", e)
			os.Exit(2)
		}
		var w struct {
			Case json.RawMessage `json:"case"`
		}
		if e := json.Unmarshal(b, &w); e != nil {
			fmt.Println("INCONCLUSIVE:", e)
			os.Exit(2)
		}
		err = safeRun(func() error { return p.Replay(c, w.Case) })
		if err != nil {
			fmt.Println("INCONCLUSIVE:", err)
			os.Exit(2)
		}
		if c.Violations() > 0 {
			os.Exit(1)
		}
		fmt.Println("replay: no violation")
		os.Exit(0)
	default:
		fmt.Println("INCONCLUSIVE: unknown tier", tier)
		os.Exit(2)
	}
	os.Exit(c.Finish(err))
}

func safeRun(f func() error) (err error) {
	defer func() {
		if r := recover(); r != nil {
			err = core.Infra("harness panic: %v", r)
		}
	}()
	return f()
}

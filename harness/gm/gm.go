// Package gm wraps a gomacro fast interpreter for conformance drivers: captured output,
// panic-safe evaluation, an injected event recorder callable from interpreted code, and a
// projection of Go values to comparable strings.
package gm

import (
	"bytes"
	"fmt"
	"strings"

	"github.com/cosmos72/gomacro/fast"
	xr "github.com/cosmos72/gomacro/xreflect"

	"verif/harness/show"
)

type Interp struct {
	Ir     *fast.Interp
	Out    bytes.Buffer
	Events []string
	// Hook, if set, is called at every ev() before the event is recorded (fault injection).
	Hook func(n int, event string)
	// Book appends the executor bookkeeping observed at the ev() call to every event:
	// " |isdef:<ExecFlags.IsDefer> depth:<Run.CurrEnv.CallDepth>"
	Book bool
	nEv  int
}

// New returns a fresh interpreter whose Stdout/Stderr go to a buffer and which has the compiled
// functions  ev(args ...interface{})  and  evi(id int, args ...interface{}) int  declared.
func New() *Interp {
	g := &Interp{Ir: fast.New()}
	gl := &g.Ir.Comp.Globals
	gl.Stdout = &g.Out
	gl.Stderr = &g.Out
	g.Ir.DeclFunc("ev", func(args ...interface{}) {
		g.record(args)
	})
	// evi records and returns its first argument: usable inside expressions (index operands etc.)
	g.Ir.DeclFunc("evi", func(x int, args ...interface{}) int {
		g.record(append([]interface{}{x}, args...))
		return x
	})
	return g
}

func (g *Interp) record(args []interface{}) {
	parts := make([]string, len(args))
	for i, a := range args {
		parts[i] = show.Show(a)
	}
	e := strings.Join(parts, " ")
	if g.Book {
		s := fast.VerifSnapshot(g.Ir)
		e += fmt.Sprintf(" |isdef:%v depth:%d", s.ExecFlags&2 != 0, s.CurrEnvDepth)
	}
	g.nEv++
	if g.Hook != nil {
		g.Hook(g.nEv, e)
	}
	g.Events = append(g.Events, e)
}

func (g *Interp) ResetEvents() { g.Events = nil; g.nEv = 0 }

// Result of one evaluation.
type Result struct {
	Values   []string // projected values
	Types    []string
	Panic    string // "" if none; projected panic value otherwise
	Panicked bool
	Raw      interface{} // raw recovered value
}

func (r Result) String() string {
	if r.Panicked {
		return "panic(" + r.Panic + ")"
	}
	return "[" + strings.Join(r.Values, ", ") + "]"
}

// Eval evaluates src, converting any escaping panic to Result.Panic.
func (g *Interp) Eval(src string) (res Result) {
	defer func() {
		if r := recover(); r != nil {
			res.Panicked = true
			res.Raw = r
			res.Panic = show.ShowPanic(r)
		}
	}()
	vs, ts := g.Ir.Eval(src)
	for i, v := range vs {
		res.Values = append(res.Values, ShowValue(v))
		if i < len(ts) && ts[i] != nil {
			res.Types = append(res.Types, ts[i].String())
		} else {
			res.Types = append(res.Types, "<nil>")
		}
	}
	return res
}

// ShowValue projects an interpreter value.
func ShowValue(v xr.Value) string {
	if !v.IsValid() {
		return "<invalid>"
	}
	rv := v.ReflectValue()
	return show.ShowRV(rv)
}


func Show(a interface{}) string { return show.Show(a) }

// Package c29t holds the compiled Go types behind the "go"-origin declarations of
// spec/types/Universe.tla (UDecl) and the literal types of its reflect pool (RPool).
// The C29 gate compares every attribute the specification states for them with reflect, so a
// divergence between this file and the module is reported as a specification bug.
package c29t

import "reflect"

type N1 int

func (N1) M() {}

type N2 int

type S1 struct {
	A int8
	B int64
}

func (*S1) M()   {}
func (S1) N(int) {}

type E1 interface{ M() }

type E4 interface{}

// Decls maps a declaration number of UDecl (1-based) to its compiled type; nil = none.
var Decls = []reflect.Type{
	nil,
	reflect.TypeOf(N1(0)),
	reflect.TypeOf(N2(0)),
	reflect.TypeOf(S1{}),
	reflect.TypeOf((*E1)(nil)).Elem(),
	reflect.TypeOf((*error)(nil)).Elem(),
	nil, nil, nil, nil, nil, // 6..10: declared through the universe
	reflect.TypeOf((*E4)(nil)).Elem(),
}

// Pool lists the reflect types of RPool, in the order of the module (1-based there).
var Pool = []reflect.Type{
	reflect.TypeOf(int(0)), reflect.TypeOf(int8(0)), reflect.TypeOf(int64(0)), reflect.TypeOf(""),
	reflect.TypeOf(false), reflect.TypeOf(uint8(0)), reflect.TypeOf(float64(0)), // 1..7
	Decls[1], Decls[2], Decls[3], Decls[4], Decls[5], // 8..12
	reflect.TypeOf([]int(nil)), reflect.TypeOf((*N1)(nil)), reflect.TypeOf([3]int8{}), reflect.TypeOf(map[string]int(nil)), // 13..16
	reflect.TypeOf((chan int)(nil)), reflect.TypeOf((<-chan int)(nil)), reflect.TypeOf((func(int) string)(nil)), // 17..19
	reflect.TypeOf((func(...int))(nil)), reflect.TypeOf(struct {
		A int8
		B int64
	}{}), reflect.TypeOf((*interface{})(nil)).Elem(), reflect.TypeOf((*interface{ M() })(nil)).Elem(), // 20..23
	reflect.TypeOf((*S1)(nil)), reflect.TypeOf([]N1(nil)), // 24..25
	reflect.TypeOf(struct {
		N1
		b int8
	}{}), // 26
	reflect.TypeOf(struct {
		A int8 "t"
		B int64
	}{}), // 27
	reflect.TypeOf(map[N1]*S1(nil)), reflect.TypeOf((func(N1) error)(nil)), // 28..29
	reflect.TypeOf((*interface {
		M()
		N(int)
	})(nil)).Elem(), reflect.TypeOf(struct{}{}), reflect.TypeOf([0]int{}), // 30..32
	reflect.TypeOf(struct {
		A int64
		B struct{}
	}{}), // 33
	Decls[11], // 34
}

// Embedding shapes for the corpus half (selector lookup): a diamond and two sibling embedded
// types with identical underlying structs; V is ambiguous in both, W is found once.
type DiaC struct{ V, W int }
type DiaA struct{ DiaC }
type DiaB struct {
	DiaC
	W int
}
type Dia struct {
	DiaA
	DiaB
}
type TwinP struct{ V int }
type TwinQ struct{ V int }
type Twins struct {
	TwinP
	TwinQ
	W int
}

func (DiaC) Mc()  {}
func (TwinP) Mp() {}
func (TwinQ) Mp() {}

// Shapes lists the extra compiled types whose selectors the corpus compares with reflect.
var Shapes = map[string]reflect.Type{
	"Dia": reflect.TypeOf(Dia{}), "Twins": reflect.TypeOf(Twins{}), "DiaA": reflect.TypeOf(DiaA{}), "DiaB": reflect.TypeOf(DiaB{}),
}

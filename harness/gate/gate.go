// Package gate runs rendered programs natively with the installed Go toolchain ("the Go
// gate"): the specification's expected observation must equal what compiled Go does, otherwise
// the behaviour is dropped as a specification defect instead of being judged on gomacro.
// The gate never reads /repo. Results are cached by program hash under <verif>/cache/gate.
package gate

import (
	"bytes"
	"crypto/sha1"
	_ "embed"
	"encoding/hex"
	"encoding/json"
	"fmt"
	"os"
	"os/exec"
	"path/filepath"
	"regexp"
	"strings"

	"verif/harness/show"
)

// Prog is a Go program in the common rendering: top-level declarations (they may call
// ev(args...) and evi(x, args...)), plus an entry: either an expression (possibly a
// multi-valued call) or a statement list.
type Prog struct {
	Imports []string // import paths used by Decls/Entry
	Decls   string
	Entry   string // expression; its values are the result
	Stmt    string // statements run instead of Entry when Entry == ""
}

// Out is what a native run observed.
type Out struct {
	CompileError string   `json:"compile_error,omitempty"`
	Events       []string `json:"events"`
	Result       string   `json:"result"` // "[v, ...]" or "panic(...)"
}

func (p Prog) Hash() string {
	h := sha1.Sum([]byte(strings.Join(p.Imports, ",") + "\x00" + p.Decls + "\x00" + p.Entry + "\x00" + p.Stmt))
	return hex.EncodeToString(h[:10])
}

//go:embed showsrc.txt
var showSrc string

var _ = show.Show // the embedded copy must stay in sync with the package (checked by setup)

const mainTmpl = `package main

import (
	"encoding/json"
	"os"
%s
)

type out struct {
	Key    string   ` + "`json:\"key\"`" + `
	Events []string ` + "`json:\"events\"`" + `
	Result string   ` + "`json:\"result\"`" + `
}

func main() {
	enc := json.NewEncoder(os.Stdout)
	for _, p := range progs {
		res, evs := p.run()
		enc.Encode(out{p.key, evs, res})
	}
}

type prog struct {
	key string
	run func() (string, []string)
}

var progs = []prog{
%s
}
`

const pkgTmpl = `package %s

import (
	"strings"
	"gatemod/show"
%s
)

var events []string

func ev(args ...interface{}) {
	parts := make([]string, len(args))
	for i, a := range args {
		parts[i] = show.Show(a)
	}
	events = append(events, strings.Join(parts, " "))
}

func evi(x int, args ...interface{}) int {
	ev(append([]interface{}{x}, args...)...)
	return x
}

var _ = evi

%s

func Run() (res string, evs []string) {
	events = nil
	defer func() {
		evs = events
		if r := recover(); r != nil {
			res = "panic(" + show.ShowPanic(r) + ")"
		}
	}()
	%s
}
`

var rePkgErr = regexp.MustCompile(`(?m)^(?:\./)?(p\d+)/p\.go:(\d+:\d+: .*)$`)

// Run executes the programs natively (batched into one binary), using and filling the cache.
func Run(verif string, progs []Prog) ([]Out, error) {
	outs := make([]Out, len(progs))
	cacheDir := filepath.Join(verif, "cache", "gate")
	os.MkdirAll(cacheDir, 0o755)
	var todo []int
	for i, p := range progs {
		b, err := os.ReadFile(filepath.Join(cacheDir, p.Hash()+".json"))
		if err == nil && json.Unmarshal(b, &outs[i]) == nil {
			continue
		}
		todo = append(todo, i)
	}
	const batch = 1500
	for s := 0; s < len(todo); s += batch {
		e := s + batch
		if e > len(todo) {
			e = len(todo)
		}
		if err := runBatch(progs, todo[s:e], outs); err != nil {
			return nil, err
		}
		for _, i := range todo[s:e] {
			b, _ := json.Marshal(outs[i])
			os.WriteFile(filepath.Join(cacheDir, progs[i].Hash()+".json"), b, 0o644)
		}
	}
	return outs, nil
}

func runBatch(progs []Prog, idx []int, outs []Out) error {
	dir, err := os.MkdirTemp("", "verif-gate-")
	if err != nil {
		return err
	}
	defer os.RemoveAll(dir)
	os.WriteFile(filepath.Join(dir, "go.mod"), []byte("module gatemod\n\ngo 1.21\n"), 0o644)
	os.MkdirAll(filepath.Join(dir, "show"), 0o755)
	os.WriteFile(filepath.Join(dir, "show", "show.go"), []byte(showSrc), 0o644)
	alive := map[int]bool{}
	for _, i := range idx {
		alive[i] = true
		p := progs[i]
		name := fmt.Sprintf("p%d", i)
		os.MkdirAll(filepath.Join(dir, name), 0o755)
		var imps strings.Builder
		for _, im := range p.Imports {
			fmt.Fprintf(&imps, "\t%q\n", im)
		}
		body := "return show.Vals(" + p.Entry + "), nil"
		if p.Entry == "" {
			body = p.Stmt + "\n\treturn \"[]\", nil"
		}
		src := fmt.Sprintf(pkgTmpl, name, imps.String(), p.Decls, body)
		os.WriteFile(filepath.Join(dir, name, "p.go"), []byte(src), 0o644)
	}
	env := append(os.Environ(), "GOFLAGS=-mod=mod", "GOPROXY=off", "GOSUMDB=off", "GOTOOLCHAIN=local", "GOWORK=off")
	for attempt := 0; attempt < 6; attempt++ {
		var imports, table strings.Builder
		n := 0
		for _, i := range idx {
			if !alive[i] {
				continue
			}
			n++
			fmt.Fprintf(&imports, "\t\"gatemod/p%d\"\n", i)
			fmt.Fprintf(&table, "\t{\"%d\", p%d.Run},\n", i, i)
		}
		if n == 0 {
			return nil
		}
		os.WriteFile(filepath.Join(dir, "main.go"), []byte(fmt.Sprintf(mainTmpl, imports.String(), table.String())), 0o644)
		cmd := exec.Command("go", "build", "-gcflags=-e", "-o", "gate.bin", ".")
		cmd.Dir = dir
		cmd.Env = env
		var buf bytes.Buffer
		cmd.Stdout = &buf
		cmd.Stderr = &buf
		if err := cmd.Run(); err != nil {
			ms := rePkgErr.FindAllStringSubmatch(buf.String(), -1)
			if len(ms) == 0 {
				return fmt.Errorf("gate build failed: %v\n%s", err, tailStr(buf.String(), 2000))
			}
			for _, m := range ms {
				var i int
				fmt.Sscanf(m[1], "p%d", &i)
				if alive[i] {
					alive[i] = false
					outs[i] = Out{CompileError: m[2]}
				}
			}
			continue
		}
		run := exec.Command(filepath.Join(dir, "gate.bin"))
		run.Dir = dir
		var ob, eb bytes.Buffer
		run.Stdout = &ob
		run.Stderr = &eb
		rerr := run.Run()
		dec := json.NewDecoder(&ob)
		seen := 0
		for {
			var o struct {
				Key    string
				Events []string
				Result string
			}
			if err := dec.Decode(&o); err != nil {
				break
			}
			var i int
			fmt.Sscanf(o.Key, "%d", &i)
			outs[i] = Out{Events: o.Events, Result: o.Result}
			if outs[i].Events == nil {
				outs[i].Events = []string{}
			}
			seen++
		}
		if rerr != nil || seen != n {
			return fmt.Errorf("gate run failed after %d of %d programs: %v\n%s", seen, n, rerr, tailStr(eb.String(), 2000))
		}
		return nil
	}
	return fmt.Errorf("gate: too many compile-error rounds")
}

func tailStr(s string, n int) string {
	if len(s) > n {
		return s[len(s)-n:]
	}
	return s
}

// Package core is the backbone shared by every property driver: context, verdict rule,
// known findings, evidence, replay files.
package core

import (
	"bytes"
	"crypto/sha1"
	"encoding/hex"
	"encoding/json"
	"fmt"
	"os"
	"os/exec"
	"path/filepath"
	"sort"
	"strconv"
	"strings"
	"sync"
	"time"
)

// Prop is one property's driver.
type Prop struct {
	ID    string
	Level string // evidence level, default model_checking
	Rule  string // how cases are enumerated, what makes one non-trivial
	Run   func(c *Ctx) error
	// Replay re-runs one stored case (the JSON written by Violation); nil = unsupported.
	Replay func(c *Ctx, raw json.RawMessage) error
	// SelfTest: broken-variant TLC runs must fail, corrupted records must be rejected.
	SelfTest func(c *Ctx) error
	// Sub runs a helper in a child process (`vcheck <id> sub args...`): used for drivers that
	// may crash the whole process (a Go panic in a goroutine cannot be recovered by the parent).
	Sub func(args []string) int
}

// RunSub executes this binary as `<id> sub args...` and returns stdout, the tail of stderr and
// the exit code (-1 = could not start / killed by timeout).
func RunSub(id string, timeout time.Duration, args ...string) (stdout, stderr string, code int) {
	cmd := exec.Command(os.Args[0], append([]string{id, "sub"}, args...)...)
	var ob, eb bytes.Buffer
	cmd.Stdout = &ob
	cmd.Stderr = &eb
	if err := cmd.Start(); err != nil {
		return "", err.Error(), -1
	}
	timer := time.AfterFunc(timeout, func() { cmd.Process.Kill() })
	err := cmd.Wait()
	timer.Stop()
	code = 0
	if err != nil {
		code = -1
		if ee, ok := err.(*exec.ExitError); ok {
			code = ee.ExitCode()
		}
	}
	se := eb.String()
	if len(se) > 6000 {
		se = se[:3000] + "\n...\n" + se[len(se)-3000:]
	}
	return ob.String(), se, code
}

var registry = map[string]*Prop{}

func Register(p *Prop)       { registry[p.ID] = p }
func Lookup(id string) *Prop { return registry[id] }
func IDs() []string {
	var ids []string
	for id := range registry {
		ids = append(ids, id)
	}
	sort.Strings(ids)
	return ids
}

// InfraError marks "nothing learned" (exit 2).
type InfraError struct{ Msg string }

func (e *InfraError) Error() string { return e.Msg }
func Infra(format string, a ...interface{}) error {
	return &InfraError{fmt.Sprintf(format, a...)}
}

type Finding struct {
	Property  string `json:"property"`
	Signature string `json:"signature"`
	Status    string `json:"status"` // "open" | "fixed"
	Commit    string `json:"commit,omitempty"`
	What      string `json:"what"`
}

type TLCRun struct {
	Spec      string  `json:"spec"`
	Cfg       string  `json:"cfg"`
	Mode      string  `json:"mode"`
	Generated int64   `json:"states_generated"`
	Distinct  int64   `json:"distinct_states"`
	Emitted   int     `json:"behaviours_emitted"`
	WallS     float64 `json:"wall_s"`
}

type Ctx struct {
	ID     string
	Tier   string // quick | thorough | replay | selftest
	Seed   int64
	Verif  string
	Repo   string
	Prop   *Prop
	start  time.Time
	mu     sync.Mutex
	known  []Finding
	kfSeen map[string]int

	// evidence accumulators
	Evaluations   int64
	distinct      map[[8]byte]struct{}
	TracesVsImpl  int64
	GateChecked   int64
	GateRejects   int64
	Exhaustive    bool
	samples       []interface{}
	tlcRuns       []TLCRun
	Assumptions   []string
	Extra         map[string]interface{}
	violations    []string
	sigCount      map[string]int
	nviol         int
	MaxViolations int
}

func NewCtx(id, tier string) *Ctx {
	verif := os.Getenv("VERIF")
	if verif == "" {
		verif = "/verif"
	}
	repo := os.Getenv("REPO")
	if repo == "" {
		repo = "/repo"
	}
	seed := int64(1)
	if s := os.Getenv("VERIF_SEED"); s != "" {
		if v, err := strconv.ParseInt(s, 10, 64); err == nil {
			seed = v
		}
	}
	c := &Ctx{ID: id, Tier: tier, Seed: seed, Verif: verif, Repo: repo, start: time.Now(),
		distinct: map[[8]byte]struct{}{}, kfSeen: map[string]int{}, Extra: map[string]interface{}{},
		MaxViolations: 30}
	c.loadKnown()
	return c
}

func (c *Ctx) Quick() bool    { return c.Tier != "thorough" }
func (c *Ctx) Thorough() bool { return c.Tier == "thorough" }

// Pick returns q in the quick tier and t in the thorough tier.
func (c *Ctx) Pick(q, t int) int {
	if c.Thorough() {
		return t
	}
	return q
}

func (c *Ctx) loadKnown() {
	b, err := os.ReadFile(filepath.Join(c.Verif, "known_findings.json"))
	if err != nil {
		return
	}
	var f struct {
		Findings []Finding `json:"findings"`
	}
	if json.Unmarshal(b, &f) == nil {
		c.known = f.Findings
	}
}

// Case counts one evaluated case; key identifies it for distinctness; nontrivial per the
// property's stated rule.
func (c *Ctx) Case(key string, nontrivial bool) {
	c.mu.Lock()
	c.Evaluations++
	if nontrivial {
		h := sha1.Sum([]byte(key))
		var k [8]byte
		copy(k[:], h[:8])
		c.distinct[k] = struct{}{}
	}
	c.mu.Unlock()
}

func (c *Ctx) Trace() { c.mu.Lock(); c.TracesVsImpl++; c.mu.Unlock() }

func (c *Ctx) Sample(s interface{}) {
	c.mu.Lock()
	if len(c.samples) < 5 {
		c.samples = append(c.samples, s)
	}
	c.mu.Unlock()
}

func (c *Ctx) Assume(s string) {
	c.mu.Lock()
	for _, a := range c.Assumptions {
		if a == s {
			c.mu.Unlock()
			return
		}
	}
	c.Assumptions = append(c.Assumptions, s)
	c.mu.Unlock()
}

func (c *Ctx) Gate(ok bool) {
	c.mu.Lock()
	c.GateChecked++
	if !ok {
		c.GateRejects++
	}
	c.mu.Unlock()
}

// Violation reports a confirmed disagreement between the real code and the specification.
// sig is the specific signature (predicate name + disagreement shape) matched against
// known_findings.json; replay is the case written to the replay file.
// Returns true if it was a known finding.
func (c *Ctx) Violation(sig, what string, replay interface{}) bool {
	c.mu.Lock()
	defer c.mu.Unlock()
	for _, f := range c.known {
		if f.Property == c.ID && f.Status == "open" && f.Signature == sig {
			if c.kfSeen[sig] == 0 {
				fmt.Printf("KNOWN-FINDING: property=%s %s [%s]\n", c.ID, f.What, sig)
			}
			c.kfSeen[sig]++
			return true
		}
	}
	c.nviol++
	if c.sigCount == nil {
		c.sigCount = map[string]int{}
	}
	c.sigCount[sig]++
	if c.sigCount[sig] > 2 || len(c.violations) >= c.MaxViolations {
		return false
	}
	dir := filepath.Join(c.Verif, "out", "replay", c.ID)
	os.MkdirAll(dir, 0o755)
	body, _ := json.MarshalIndent(map[string]interface{}{
		"property": c.ID, "signature": sig, "what": what, "seed": c.Seed, "tier": c.Tier, "case": replay,
	}, "", " ")
	h := sha1.Sum(body)
	path := filepath.Join(dir, hex.EncodeToString(h[:6])+".json")
	os.WriteFile(path, body, 0o644)
	fmt.Printf("VIOLATION property=%s replay=%s\n", c.ID, path)
	fmt.Printf("  signature: %s\n  what: %s\n", sig, strings.ReplaceAll(what, "\n", "\n        "))
	c.violations = append(c.violations, path)
	return false
}

func (c *Ctx) Violations() int { c.mu.Lock(); defer c.mu.Unlock(); return c.nviol }

func (c *Ctx) addTLC(r TLCRun) { c.mu.Lock(); c.tlcRuns = append(c.tlcRuns, r); c.mu.Unlock() }

// Finish writes the evidence file and returns the process exit code.
func (c *Ctx) Finish(runErr error) int {
	wall := time.Since(c.start).Seconds()
	if runErr != nil {
		if _, ok := runErr.(*InfraError); ok || c.nviol == 0 {
			fmt.Printf("INCONCLUSIVE property=%s: %v\n", c.ID, runErr)
			if c.nviol == 0 {
				return 2
			}
		}
	}
	var states, trans int64
	for _, r := range c.tlcRuns {
		states += r.Distinct
		trans += r.Generated
	}
	level := "model_checking"
	if c.Prop != nil && c.Prop.Level != "" {
		level = c.Prop.Level
	}
	rule := ""
	if c.Prop != nil {
		rule = c.Prop.Rule
	}
	cov := map[string]interface{}{
		"evaluations":                   c.Evaluations,
		"distinct_nontrivial":           len(c.distinct),
		"rule":                          rule,
		"samples":                       c.samples,
		"states":                        states,
		"transitions":                   trans,
		"traces_validated_against_impl": c.TracesVsImpl,
		"exhaustive":                    c.Exhaustive,
		"tlc_runs":                      c.tlcRuns,
		"gate_checked":                  c.GateChecked,
		"gate_rejects":                  c.GateRejects,
		"known_finding_hits":            c.kfSeen,
	}
	for k, v := range c.Extra {
		cov[k] = v
	}
	if c.samples == nil {
		cov["samples"] = []interface{}{}
	}
	tier := c.Tier
	if tier != "quick" && tier != "thorough" {
		tier = "quick"
	}
	ev := map[string]interface{}{
		"property_id": c.ID, "tier": tier, "seed": c.Seed, "level": level, "coverage": cov,
		"assumptions": c.Assumptions, "wall_s": wall, "violations": c.nviol,
	}
	if c.Assumptions == nil {
		ev["assumptions"] = []string{}
	}
	if c.Tier == "quick" || c.Tier == "thorough" {
		b, _ := json.MarshalIndent(ev, "", " ")
		os.MkdirAll(filepath.Join(c.Verif, "evidence"), 0o755)
		if err := os.WriteFile(filepath.Join(c.Verif, "evidence", c.ID+".json"), b, 0o644); err != nil {
			fmt.Printf("INCONCLUSIVE property=%s: cannot write evidence: %v\n", c.ID, err)
			return 2
		}
	}
	for sig, n := range c.sigCount {
		fmt.Printf("  violations with signature %s: %d\n", sig, n)
	}
	fmt.Printf("SUMMARY property=%s tier=%s seed=%d evaluations=%d distinct_nontrivial=%d tlc_states=%d tlc_generated=%d replayed=%d gate_rejects=%d/%d known_hits=%d violations=%d wall=%.1fs\n",
		c.ID, c.Tier, c.Seed, c.Evaluations, len(c.distinct), states, trans, c.TracesVsImpl, c.GateRejects, c.GateChecked, len(c.kfSeen), c.nviol, wall)
	if c.nviol > 0 {
		return 1
	}
	if c.GateChecked > 0 && float64(c.GateRejects) > 0.005*float64(c.GateChecked) {
		fmt.Printf("INCONCLUSIVE property=%s: %d of %d behaviours rejected by the Go gate (specification bug)\n", c.ID, c.GateRejects, c.GateChecked)
		return 2
	}
	if c.Evaluations == 0 || len(c.distinct) < 2 {
		fmt.Printf("INCONCLUSIVE property=%s: vacuous run (evaluations=%d distinct=%d)\n", c.ID, c.Evaluations, len(c.distinct))
		return 2
	}
	return 0
}

// ParDo runs fn(i) for i in [0,n) on w workers.
func ParDo(n, w int, fn func(i int)) {
	if w < 1 {
		w = 1
	}
	var wg sync.WaitGroup
	ch := make(chan int, 1024)
	for k := 0; k < w; k++ {
		wg.Add(1)
		go func() {
			defer wg.Done()
			for i := range ch {
				fn(i)
			}
		}()
	}
	for i := 0; i < n; i++ {
		ch <- i
	}
	close(ch)
	wg.Wait()
}

package core

import (
	"bufio"
	"fmt"
	"io"
	"os"
	"os/exec"
	"path/filepath"
	"regexp"
	"strconv"
	"strings"
	"syscall"
	"time"
)

const tlaJar = "/opt/veriftools/tla/tla2tools.jar:/opt/veriftools/tla/CommunityModules-deps.jar"

// TLCOpts describes one TLC run. The root module is MC (generated): it EXTENDS Spec and
// contains MCDefs (constant definitions that a cfg file cannot express, e.g. tuples).
type TLCOpts struct {
	Spec     string // module name, e.g. "Cmds" (found anywhere under /verif/spec)
	MCDefs   string // extra definitions placed in the generated MC module
	Cfg      string // cfg file text
	CfgName  string // label for evidence
	Workers  int    // default 8
	Simulate bool
	SimNum   int // behaviours per worker
	SimDepth int
	Seed     int64
	Timeout  time.Duration // default 40 min (a safety net: under heavy load TLC runs several times slower)
	HeapMB   int           // default 6000
	// OnLine receives each JSON behaviour printed by the specification (already unquoted).
	// If nil the lines are collected into TLCResult.Lines.
	OnLine func(line []byte)
	// ExpectError: the run is a broken-variant self-test; an invariant violation is the
	// expected outcome and is reported in TLCResult.Violated instead of as an error.
	ExpectError bool
	Coverage    bool
	ExtraFiles  map[string]string // additional files written to the scratch directory
	Deadlock    bool              // check deadlock (default off)
}

type TLCResult struct {
	Generated int64
	Distinct  int64
	Lines     [][]byte
	Emitted   int
	Violated  string // name of violated invariant/property, "" if none
	Output    string // tail of TLC output for diagnostics
	Wall      time.Duration
	ZeroCover []string // coverage lines with count 0 (when Coverage)
}

var reStates = regexp.MustCompile(`^(\d+) states generated, (\d+) distinct states found`)
var reSimStates = regexp.MustCompile(`^The number of states generated: (\d+)`)
var reInv = regexp.MustCompile(`^Error: Invariant (\S+) is violated`)
var rePost = regexp.MustCompile(`^Error: Postcondition (\S+)`)
var reProp =regexp.MustCompile(`^Error: (Action|Temporal) propert`)
var reZero = regexp.MustCompile(`^\s*(\|*)?line \d+, col \d+ to line \d+, col \d+ of module (\w+): 0$`)

// TLC runs the model checker in a scratch directory that is removed afterwards.
func (c *Ctx) TLC(o TLCOpts) (*TLCResult, error) {
	if o.Workers == 0 {
		o.Workers = 8
	}
	if o.Timeout == 0 {
		o.Timeout = 40 * time.Minute
	}
	if o.HeapMB == 0 {
		o.HeapMB = 6000
	}
	scratch, err := os.MkdirTemp("", "verif-tlc-")
	if err != nil {
		return nil, Infra("mktemp: %v", err)
	}
	defer os.RemoveAll(scratch)
	// copy every module of the spec tree (module names are unique across the tree)
	found := false
	filepath.Walk(filepath.Join(c.Verif, "spec"), func(p string, info os.FileInfo, err error) error {
		if err != nil || info.IsDir() || !strings.HasSuffix(p, ".tla") {
			return nil
		}
		b, e := os.ReadFile(p)
		if e == nil {
			os.WriteFile(filepath.Join(scratch, filepath.Base(p)), b, 0o644)
			if filepath.Base(p) == o.Spec+".tla" {
				found = true
			}
		}
		return nil
	})
	if !found {
		return nil, Infra("spec module %s.tla not found", o.Spec)
	}
	mc := fmt.Sprintf("---- MODULE MC ----\nEXTENDS %s\n%s\n====\n", o.Spec, o.MCDefs)
	os.WriteFile(filepath.Join(scratch, "MC.tla"), []byte(mc), 0o644)
	os.WriteFile(filepath.Join(scratch, "MC.cfg"), []byte(o.Cfg), 0o644)
	for name, body := range o.ExtraFiles {
		os.WriteFile(filepath.Join(scratch, name), []byte(body), 0o644)
	}
	args := []string{"-XX:+UseParallelGC", fmt.Sprintf("-Xmx%dm", o.HeapMB), "-Xss256m",
		"-Djava.io.tmpdir=" + scratch, "-cp", tlaJar, "tlc2.TLC",
		"-config", "MC.cfg", "-workers", strconv.Itoa(o.Workers),
		"-metadir", filepath.Join(scratch, "meta"), "-noGenerateSpecTE"}
	mode := "bfs"
	if o.Simulate {
		mode = "simulate"
		num := o.SimNum
		if num == 0 {
			num = 1000
		}
		depth := o.SimDepth
		if depth == 0 {
			depth = 100
		}
		args = append(args, "-simulate", fmt.Sprintf("num=%d", num), "-depth", strconv.Itoa(depth),
			"-seed", strconv.FormatInt(o.Seed, 10))
	}
	if !o.Deadlock {
		args = append(args, "-deadlock") // -deadlock DISABLES deadlock checking
	}
	if o.Coverage {
		args = append(args, "-coverage", "1")
	}
	args = append(args, "MC.tla")
	cmd := exec.Command("java", args...)
	cmd.Dir = scratch
	cmd.Env = append(os.Environ(), "JAVA_TOOL_OPTIONS=")
	cmd.SysProcAttr = &syscall.SysProcAttr{Setpgid: true}
	stdout, _ := cmd.StdoutPipe()
	cmd.Stderr = cmd.Stdout
	start := time.Now()
	if err := cmd.Start(); err != nil {
		return nil, Infra("cannot start TLC: %v", err)
	}
	timedOut := false
	timer := time.AfterFunc(o.Timeout, func() {
		timedOut = true
		syscall.Kill(-cmd.Process.Pid, syscall.SIGKILL)
	})
	res := &TLCResult{}
	var tail []string
	rd := bufio.NewReaderSize(stdout, 1<<20)
	for {
		line, err := rd.ReadBytes('\n')
		if len(line) > 0 {
			l := strings.TrimRight(string(line), "\r\n")
			if len(l) > 1 && l[0] == '"' && l[len(l)-1] == '"' {
				if s, e := strconv.Unquote(l); e == nil {
					res.Emitted++
					if o.OnLine != nil {
						o.OnLine([]byte(s))
					} else {
						res.Lines = append(res.Lines, []byte(s))
					}
					continue
				}
			}
			if m := reStates.FindStringSubmatch(l); m != nil {
				res.Generated, _ = strconv.ParseInt(m[1], 10, 64)
				res.Distinct, _ = strconv.ParseInt(m[2], 10, 64)
			} else if m := reSimStates.FindStringSubmatch(l); m != nil {
				res.Generated, _ = strconv.ParseInt(m[1], 10, 64)
				res.Distinct = res.Generated
			} else if m := reInv.FindStringSubmatch(l); m != nil {
				res.Violated = m[1]
			} else if m := rePost.FindStringSubmatch(l); m != nil {
				res.Violated = m[1]
			} else if reProp.MatchString(l) {
				res.Violated = "property"
			} else if o.Coverage && reZero.MatchString(l) {
				res.ZeroCover = append(res.ZeroCover, strings.TrimSpace(l))
			}
			if !strings.HasPrefix(l, "Parsing file") && !strings.HasPrefix(l, "Semantic processing") &&
				!strings.HasPrefix(l, "Linting of") && !strings.HasPrefix(l, "Progress(") {
				if len(l) > 400 {
					l = l[:400] + "…"
				}
				tail = append(tail, l)
				if len(tail) > 60 {
					tail = tail[1:]
				}
			}
		}
		if err != nil {
			if err != io.EOF {
				break
			}
			break
		}
	}
	werr := cmd.Wait()
	timer.Stop()
	res.Wall = time.Since(start)
	res.Output = strings.Join(tail, "\n")
	c.addTLC(TLCRun{Spec: o.Spec, Cfg: o.CfgName, Mode: mode, Generated: res.Generated, Distinct: res.Distinct,
		Emitted: res.Emitted, WallS: res.Wall.Seconds()})
	if timedOut {
		return res, Infra("TLC timed out after %v on %s/%s", o.Timeout, o.Spec, o.CfgName)
	}
	if res.Violated != "" {
		if o.ExpectError {
			return res, nil
		}
		return res, Infra("TLC: specification %s/%s violates %s (a defect of the model, not a verdict on the code):\n%s",
			o.Spec, o.CfgName, res.Violated, res.Output)
	}
	if werr != nil {
		return res, Infra("TLC failed on %s/%s: %v\n%s", o.Spec, o.CfgName, werr, res.Output)
	}
	if o.ExpectError {
		return res, nil
	}
	if res.Generated == 0 {
		return res, Infra("TLC reported no states on %s/%s:\n%s", o.Spec, o.CfgName, res.Output)
	}
	return res, nil
}

// TLASeq renders a Go string as a TLA+ tuple of byte codes.
func TLASeq(s string) string {
	var b strings.Builder
	b.WriteString("<<")
	for i := 0; i < len(s); i++ {
		if i > 0 {
			b.WriteByte(',')
		}
		b.WriteString(strconv.Itoa(int(s[i])))
	}
	b.WriteString(">>")
	return b.String()
}

// TLASet renders a set of byte-code tuples.
func TLASet(ss []string) string {
	parts := make([]string, len(ss))
	for i, s := range ss {
		parts[i] = TLASeq(s)
	}
	return "{" + strings.Join(parts, ", ") + "}"
}

// BytesToString converts a JSON array of byte codes back to a string.
func BytesToString(codes []int) string {
	b := make([]byte, len(codes))
	for i, c := range codes {
		b[i] = byte(c)
	}
	return string(b)
}

// Package show projects Go values to comparable strings. It has no dependency outside the
// standard library: the same file is compiled into the native Go gate programs.
package show

import (
	"fmt"
	"math"
	"reflect"
	"strings"
)

// ShowPanic projects a recovered value: runtime errors by class, errors by message,
// everything else by Show.
func ShowPanic(r interface{}) string {
	switch r := r.(type) {
	case error:
		return "error:" + PanicClass(r.Error())
	case fmt.Stringer:
		return "stringer:" + r.String()
	}
	return Show(r)
}

// PanicClass maps a runtime error message to its class; other messages are returned as is.
func PanicClass(msg string) string {
	switch {
	case strings.Contains(msg, "integer divide by zero"), strings.Contains(msg, "division by zero"):
		return "divide"
	case strings.Contains(msg, "negative shift amount"):
		return "shift"
	case strings.Contains(msg, "index out of range"):
		return "index"
	case strings.Contains(msg, "slice bounds out of range"):
		return "slice"
	case strings.Contains(msg, "assignment to entry in nil map"):
		return "nilmap"
	case strings.Contains(msg, "nil pointer dereference"), strings.Contains(msg, "invalid memory address"):
		return "nilderef"
	case strings.Contains(msg, "interface conversion"):
		return "ifaceconv"
	case strings.Contains(msg, "close of closed channel"):
		return "closeclosed"
	case strings.Contains(msg, "close of nil channel"):
		return "closenil"
	case strings.Contains(msg, "send on closed channel"):
		return "sendclosed"
	case strings.Contains(msg, "makeslice: len out of range"), strings.Contains(msg, "makeslice: cap out of range"):
		return "makeslice"
	}
	return msg
}

// Show projects a Go value to "kind:bits" form; floats by bit pattern.
func Show(a interface{}) string {
	if a == nil {
		return "nil"
	}
	return ShowRV(reflect.ValueOf(a))
}

func ShowRV(rv reflect.Value) string {
	if !rv.IsValid() {
		return "nil"
	}
	switch rv.Kind() {
	case reflect.Bool:
		return fmt.Sprintf("bool:%v", rv.Bool())
	case reflect.Int, reflect.Int8, reflect.Int16, reflect.Int32, reflect.Int64:
		return fmt.Sprintf("%s:%d", rv.Kind(), rv.Int())
	case reflect.Uint, reflect.Uint8, reflect.Uint16, reflect.Uint32, reflect.Uint64, reflect.Uintptr:
		return fmt.Sprintf("%s:%d", rv.Kind(), rv.Uint())
	case reflect.Float32:
		return fmt.Sprintf("float32:%08x", math.Float32bits(float32(rv.Float())))
	case reflect.Float64:
		return fmt.Sprintf("float64:%016x", math.Float64bits(rv.Float()))
	case reflect.Complex64, reflect.Complex128:
		c := rv.Complex()
		return fmt.Sprintf("%s:%016x,%016x", rv.Kind(), math.Float64bits(real(c)), math.Float64bits(imag(c)))
	case reflect.String:
		return fmt.Sprintf("string:%q", rv.String())
	case reflect.Interface:
		if rv.IsNil() {
			return "nil"
		}
		return ShowRV(rv.Elem())
	case reflect.Ptr:
		if rv.IsNil() {
			return "ptr:nil"
		}
		return "&" + ShowRV(rv.Elem())
	case reflect.Slice:
		if rv.IsNil() {
			return "slice:nil"
		}
		fallthrough
	case reflect.Array:
		parts := make([]string, rv.Len())
		for i := range parts {
			parts[i] = ShowRV(rv.Index(i))
		}
		return "[" + strings.Join(parts, " ") + "]"
	case reflect.Struct:
		parts := make([]string, rv.NumField())
		for i := range parts {
			parts[i] = ShowRV(rv.Field(i))
		}
		return "{" + strings.Join(parts, " ") + "}"
	case reflect.Map:
		if rv.IsNil() {
			return "map:nil"
		}
		keys := rv.MapKeys()
		parts := make([]string, len(keys))
		for i, k := range keys {
			parts[i] = ShowRV(k) + "=>" + ShowRV(rv.MapIndex(k))
		}
		sortStrings(parts)
		return "map[" + strings.Join(parts, " ") + "]"
	case reflect.Func:
		if rv.IsNil() {
			return "func:nil"
		}
		return "func"
	case reflect.Chan:
		if rv.IsNil() {
			return "chan:nil"
		}
		return "chan"
	}
	return fmt.Sprintf("%s:%v", rv.Kind(), rv)
}

func sortStrings(s []string) {
	for i := 1; i < len(s); i++ {
		for j := i; j > 0 && s[j] < s[j-1]; j-- {
			s[j], s[j-1] = s[j-1], s[j]
		}
	}
}

// Vals projects a list of values (the results of an entry expression).
func Vals(vs ...interface{}) string {
	parts := make([]string, len(vs))
	for i, v := range vs {
		parts[i] = Show(v)
	}
	return "[" + strings.Join(parts, ", ") + "]"
}

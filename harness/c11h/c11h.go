// Package c11h holds the COMPILED side of the C11 interoperability drivers: generic
// applicators that call a function value handed over by interpreted code, and compiled
// functions with several results / variadic parameters that interpreted code calls.
// The region between the SHARED markers is compiled into the harness (and offered to the
// interpreter as the importable package "c11h") AND pasted verbatim into every native gate
// program, so that both sides run the same compiled code.
package c11h

import (
	_ "embed"
	"fmt"
	"reflect"
	"strings"
	"sync"
)

//go:embed c11h.go
var source string

// GateSource returns the shared region followed by the declaration that makes the
// qualified names c11h.X resolve in a native program.
func GateSource() string {
	a := strings.Index(source, "// BEGIN"+"-SHARED")
	b := strings.Index(source, "// END"+"-SHARED")
	return source[a:b] + "\nvar c11h T\n"
}

// Binds lists the functions importable by interpreted code.
func Binds() map[string]reflect.Value {
	var t T
	return map[string]reflect.Value{
		"Apply":      reflect.ValueOf(t.Apply),
		"ApplySlice": reflect.ValueOf(t.ApplySlice),
		"ParApply":   reflect.ValueOf(t.ParApply),
		"Par":        reflect.ValueOf(t.Par),
		"Stress2":    reflect.ValueOf(t.Stress2),
		"SumN":       reflect.ValueOf(t.SumN),
		"Wsum":       reflect.ValueOf(t.Wsum),
		"DivMod":     reflect.ValueOf(t.DivMod),
		"IntErr":     reflect.ValueOf(t.IntErr),
		"Rot2":       reflect.ValueOf(t.Rot2),
		"Rot3":       reflect.ValueOf(t.Rot3),
		"Fmt":        reflect.ValueOf(t.Fmt),
		"FmtS":       reflect.ValueOf(t.FmtS),
		"FmtE":       reflect.ValueOf(t.FmtE),
	}
}

// BEGIN-SHARED
type T struct{}

func c11hIn(f reflect.Value, args []interface{}) []reflect.Value {
	in := make([]reflect.Value, len(args))
	for i, a := range args {
		if a == nil {
			in[i] = reflect.Zero(f.Type().In(i))
		} else {
			in[i] = reflect.ValueOf(a)
		}
	}
	return in
}

func c11hOut(out []reflect.Value) []interface{} {
	res := make([]interface{}, len(out))
	for i, o := range out {
		res[i] = o.Interface()
	}
	return res
}

// Apply calls the function value f with the given arguments (a variadic f receives the
// trailing arguments one by one) and returns its results.
func (T) Apply(f interface{}, args ...interface{}) []interface{} {
	fv := reflect.ValueOf(f)
	return c11hOut(fv.Call(c11hIn(fv, args)))
}

// ApplySlice calls a variadic f passing the last argument as the variadic slice itself.
func (T) ApplySlice(f interface{}, args ...interface{}) []interface{} {
	fv := reflect.ValueOf(f)
	return c11hOut(fv.CallSlice(c11hIn(fv, args)))
}

// c11hGo runs n goroutines that start together; a panic in any of them is re-raised in
// the caller once all have finished.
func c11hGo(n int, body func(g int)) {
	var wg sync.WaitGroup
	var mu sync.Mutex
	var first interface{}
	start := make(chan struct{})
	for g := 1; g <= n; g++ {
		wg.Add(1)
		go func(g int) {
			defer wg.Done()
			defer func() {
				if r := recover(); r != nil {
					mu.Lock()
					if first == nil {
						first = r
					}
					mu.Unlock()
				}
			}()
			<-start
			body(g)
		}(g)
	}
	close(start)
	wg.Wait()
	if first != nil {
		panic(first)
	}
}

// ParApply calls f(args...) from n goroutines at once; result i belongs to goroutine i+1.
func (t T) ParApply(n int, f interface{}, args ...interface{}) [][]interface{} {
	outs := make([][]interface{}, n)
	c11hGo(n, func(g int) {
		for rep := 0; rep < 20; rep++ {
			outs[g-1] = t.Apply(f, args...)
		}
	})
	return outs
}

// Par: goroutine g in 1..n calls f(10g+1) .. f(10g+k); outs[g-1] are its results.
func (T) Par(n, k int, f func(int) int) [][]int {
	outs := make([][]int, n)
	c11hGo(n, func(g int) {
		for c := 1; c <= k; c++ {
			outs[g-1] = append(outs[g-1], f(10*g+c))
		}
	})
	return outs
}

// Stress2: n goroutines call the SAME function value reps times each, every goroutine with its own
// arguments; returns how many calls came back with results that belong to another call.
// (f must compute (2a+b, b).)
func (T) Stress2(n, reps int, f func(int, int) (int, int)) int {
	var mu sync.Mutex
	bad := 0
	c11hGo(n, func(g int) {
		mine := 0
		for c := 0; c < reps; c++ {
			a, b := 100*g+c%7, g
			if x, y := f(a, b); x != 2*a+b || y != b {
				mine++
			}
		}
		mu.Lock()
		bad += mine
		mu.Unlock()
	})
	return bad
}

// SumN returns the sum and the number of its arguments, then overwrites xs[0].
func (T) SumN(xs ...int) (sum int, n int) {
	for _, x := range xs {
		sum += x
	}
	n = len(xs)
	if n > 0 {
		xs[0] = 100
	}
	return
}

func (T) Wsum(w int, xs ...int) int {
	s := 0
	for _, x := range xs {
		s += x
	}
	return w * s
}

func (T) DivMod(a, b int) (int, int) { return a / b, a % b }

func (T) IntErr(n int, err error) (int, bool) { return n, err == nil }

func (T) Rot2(a, b interface{}) (interface{}, interface{}) { return b, a }

func (T) Rot3(a, b, c interface{}) (interface{}, interface{}, interface{}) { return c, a, b }

// Fmt formats with fmt.<fn> the operands selected by sel from the typed lists:
// 'i' next int, 's' next string, 'S' next fmt.Stringer, 'E' next error.
func (T) Fmt(fn, verb, sel string, ints []int, strs []string, ss []fmt.Stringer, es []error) string {
	var ops []interface{}
	var verbs []string
	for _, c := range sel {
		switch c {
		case 'i':
			ops, ints = append(ops, ints[0]), ints[1:]
		case 's':
			ops, strs = append(ops, strs[0]), strs[1:]
		case 'S':
			ops, ss = append(ops, ss[0]), ss[1:]
		case 'E':
			ops, es = append(ops, es[0]), es[1:]
		}
		verbs = append(verbs, "%"+verb)
	}
	switch fn {
	case "Sprint":
		return fmt.Sprint(ops...)
	case "Sprintln":
		return fmt.Sprintln(ops...)
	}
	return fmt.Sprintf(strings.Join(verbs, "|"), ops...)
}

// FmtS and FmtE format a single operand received through the compiled interface.
func (t T) FmtS(fn, verb string, s fmt.Stringer) string {
	return t.Fmt(fn, verb, "S", nil, nil, []fmt.Stringer{s}, nil)
}

func (t T) FmtE(fn, verb string, e error) string {
	return t.Fmt(fn, verb, "E", nil, nil, nil, []error{e})
}

// END-SHARED

package props

import (
	"fmt"
	"math/rand"
	"os"
	"runtime"
	"strings"
	"sync"
	"sync/atomic"
	"time"

	"verif/harness/core"
	"verif/harness/gate"
	"verif/harness/gm"
)

// c05RunProgCases is RunProgCases (progs.go: gate natively, replay on the interpreter, confirm
// in a fresh interpreter, report by signature) plus a DIVERGENCE GUARD: the specification's
// programs all terminate (counted loops, guarded gotos), but a wrongly patched jump in the
// interpreter can loop forever. Every replay is bounded in events (ev() panics beyond twice
// the expected number) and in time (Interp.Interrupt after c05Timeout); a bounded-out run is
// the observation "diverged(...)", confirmed like any other disagreement.

const c05Timeout = 30 * time.Second

type c05Diverged struct{}

func (c05Diverged) Error() string { return "c05: event bound exceeded" }

// c05RunGuarded evaluates one case in g; dirty = the interpreter must not be reused.
func c05RunGuarded(g *gm.Interp, pc *ProgCase) (events []string, result string, dirty bool) {
	bound := 2*len(pc.WantEvents) + 64
	g.Hook = func(n int, e string) {
		if n > bound {
			panic(c05Diverged{})
		}
	}
	var fired int32
	timer := time.AfterFunc(c05Timeout, func() {
		atomic.StoreInt32(&fired, 1)
		g.Ir.Interrupt(os.Interrupt)
	})
	events, result = runOnGomacro(g, pc)
	timer.Stop()
	g.Hook = nil
	switch {
	case atomic.LoadInt32(&fired) == 1:
		return events, "diverged(timeout)", true
	case strings.Contains(result, "event bound exceeded"):
		if len(events) > bound {
			events = events[:bound]
		}
		return events, "diverged(events)", true
	}
	return events, result, false
}

func c05RunProgCases(c *core.Ctx, cases []*ProgCase, o ProgOpts) error {
	if o.Reuse == 0 {
		o.Reuse = 100
	}
	if o.Workers == 0 {
		o.Workers = runtime.NumCPU()
	}
	if o.GatePrelude == "" {
		o.GatePrelude = o.Prelude
	}
	// --- Go gate (as RunProgCases)
	dropped := make([]bool, len(cases))
	if o.GateFraction > 0 {
		rng := rand.New(rand.NewSource(c.Seed))
		var idx []int
		var progs []gate.Prog
		for i, pc := range cases {
			if o.GateFraction >= 1 || rng.Float64() < o.GateFraction {
				idx = append(idx, i)
				imps := append([]string{"errors", "fmt", "time"}, pc.Imports...)
				progs = append(progs, gate.Prog{Imports: imps, Decls: "var _ = errors.New\nvar _ = fmt.Sprint\n" + o.GatePrelude + "\n" + pc.Decls, Entry: pc.Entry})
			}
		}
		outs, err := gate.Run(c.Verif, progs)
		if err != nil {
			return core.Infra("go gate: %v", err)
		}
		shown := 0
		for k, i := range idx {
			ok := outs[k].CompileError == "" && progConforms(cases[i], outs[k].Events, outs[k].Result)
			c.Gate(ok)
			if !ok {
				dropped[i] = true
				if shown < 3 {
					shown++
					fmt.Printf("GATE-REJECT property=%s (specification disagrees with compiled Go; behaviour dropped): %s %s\n  program: %s\n",
						c.ID, outs[k].CompileError, describeDiff(cases[i].WantEvents, outs[k].Events, cases[i].WantResult, outs[k].Result),
						strings.ReplaceAll(cases[i].Decls, "\n", "\n    "))
				}
			}
		}
	}
	// --- replay on gomacro
	var mu sync.Mutex
	var firstErr error
	type job struct{ lo, hi int }
	chunk := 50
	var jobs []job
	for lo := 0; lo < len(cases); lo += chunk {
		hi := lo + chunk
		if hi > len(cases) {
			hi = len(cases)
		}
		jobs = append(jobs, job{lo, hi})
	}
	core.ParDo(len(jobs), o.Workers, func(j int) {
		var g *gm.Interp
		used := 0
		for i := jobs[j].lo; i < jobs[j].hi; i++ {
			if dropped[i] {
				continue
			}
			pc := cases[i]
			if g == nil || used >= o.Reuse {
				g = newProgInterp(&o)
				used = 0
			}
			used++
			events, result, dirty := c05RunGuarded(g, pc)
			c.Case(pc.Key, pc.Nontrivial)
			c.Trace()
			if dirty {
				g = nil
			}
			if progConforms(pc, events, result) {
				continue
			}
			// confirm in a fresh interpreter
			g = nil
			ev2, res2, _ := c05RunGuarded(newProgInterp(&o), pc)
			if progConforms(pc, ev2, res2) {
				mu.Lock()
				if firstErr == nil {
					firstErr = core.Infra("disagreement not reproducible in a fresh interpreter (state leaked from an earlier program?): %s", describeDiff(pc.WantEvents, events, pc.WantResult, result))
				}
				mu.Unlock()
				continue
			}
			sig := "mismatch"
			if o.Sig != nil {
				sig = o.Sig(pc, ev2, res2)
			}
			if len(ev2) > len(pc.WantEvents)+8 {
				ev2 = ev2[:len(pc.WantEvents)+8]
			}
			what := describeDiff(pc.WantEvents, ev2, pc.WantResult, res2) + "\nprogram:\n" + pc.Decls + "\nentry: " + pc.Entry
			c.Violation(sig, what, map[string]interface{}{"record": pc.Raw, "decls": pc.Decls, "entry": pc.Entry,
				"want_events": pc.WantEvents, "want_result": pc.WantResult, "got_events": ev2, "got_result": res2})
		}
	})
	return firstErr
}

package props

import (
	"bytes"
	"encoding/json"
	"fmt"
	"go/ast"
	"reflect"
	"sort"
	"strings"
	"sync"
	"time"

	"github.com/cosmos72/gomacro/ast2"
	"github.com/cosmos72/gomacro/classic"
	"github.com/cosmos72/gomacro/fast"

	"verif/harness/core"
)

// C20: macro expansion rewrites exactly the macro calls and leaves other code unchanged.
// Spec: spec/front/Macro.tla (+ Forms.tla).
// (M) TLC checks the laws of the meaning (identity on macro-free code modulo trivial wrappers,
// consumption, splicing, quote opacity / quasiquote depth, termination) on every generated form.
// (R) every generated (table, form) is replayed: the table's macros are declared as real
// interpreted macros in a fast and a classic interpreter, the form is rendered as source, parsed
// by gomacro's parser and given to MacroExpand1 / MacroExpand / MacroExpandCodewalk through the
// Go API and through the builtins of both interpreters; results are projected and compared with
// the specification modulo Normalize, macro-free forms additionally exactly with WalkRebuild.
// Gate: the projection of the parser's output must be the generated form (and its Go-side
// normal form the specification's) - a projection bug is a gate reject, never a verdict.

func init() {
	core.Register(&core.Prop{
		ID: "C20",
		Rule: "TLC derives every form within the node budget (BFS) and random larger ones (seeded simulation) for each macro table of Macro.tla's catalogue; " +
			"a case is one (table, form, entry point, driver) with entry point in MacroExpand1/MacroExpand/MacroExpandCodewalk and driver in fast API, fast builtin, classic API, classic builtin; " +
			"non-trivial = the form contains a declared macro name, or is a composite macro-free form",
		Run:      runC20,
		Replay:   replayC20,
		SelfTest: selfTestC20,
	})
}

type c20Macro struct {
	Name  string     `json:"name"`
	Arity int        `json:"arity"`
	Mode  string     `json:"mode"`
	Tmpl  []*c20Node `json:"tmpl"`
}

type c20Outcome struct {
	E1 *c20Node `json:"e1"`
	X1 bool     `json:"x1"`
	Ex *c20Node `json:"ex"`
	Cw *c20Node `json:"cw"`
}

type c20Dev struct {
	Name string     `json:"name"`
	O    c20Outcome `json:"o"`
}

type c20Case struct {
	T    string     `json:"t"`
	Tb   int        `json:"tb"`
	In   *c20Node   `json:"in"`
	Nin  *c20Node   `json:"nin"`
	Free bool       `json:"free"`
	Wr   *c20Node   `json:"wr"`
	Spec c20Outcome `json:"spec"`
	Devs []c20Dev   `json:"devs"`
	Sel  []c20Macro `json:"sel"` // table records; copied into replay cases
}

var c20Apis = []string{"expand1", "expand", "codewalk"}

func (o *c20Outcome) get(api string) *c20Node {
	switch api {
	case "expand1":
		return o.E1
	case "expand":
		return o.Ex
	}
	return o.Cw
}

// ---------------------------------------------------------------------------------------
// TLC configuration

var c20AllKinds = []string{"bin", "unary", "paren", "call", "q", "qq", "uq", "uqs", "block", "if", "for", "for3", "ret", "assign", "define"}

type c20Table struct{ sel, calls []string }

var c20Tables = []c20Table{
	{nil, nil},
	{[]string{"P1", "S2"}, []string{"P1", "S2"}},
	{[]string{"Z0", "L2"}, []string{"Z0", "L2"}},
	{[]string{"Q0", "B2"}, []string{"Q0", "B2"}},
	{[]string{"N1", "P1"}, []string{"N1"}},
	{[]string{"W2", "T3"}, []string{"W2", "T3"}},
	{[]string{"D1", "R1"}, []string{"D1", "R1"}},
	{[]string{"K0", "Z0"}, []string{"K0"}},
	{[]string{"P1"}, []string{"P1", "U1"}},
}

func c20TLAStrs(ss []string, open, close string) string {
	q := make([]string, len(ss))
	for i, s := range ss {
		q[i] = `"` + s + `"`
	}
	return open + strings.Join(q, ", ") + close
}

func c20MC(tables []c20Table, kinds []string) string {
	var ts []string
	for _, t := range tables {
		ts = append(ts, fmt.Sprintf("[sel |-> %s, calls |-> %s]", c20TLAStrs(t.sel, "<<", ">>"), c20TLAStrs(t.calls, "<<", ">>")))
	}
	return fmt.Sprintf("c_Tables == <<%s>>\nc_Kinds == %s\n", strings.Join(ts, ",\n  "), c20TLAStrs(kinds, "{", "}"))
}

func c20Cfg(maxNodes int, broken string, emit bool, invs string) string {
	return fmt.Sprintf("SPECIFICATION Spec\nCONSTANTS\n MaxNodes = %d\n Mode = \"macro\"\n Kinds <- c_Kinds\n EnvT = {}\n EnvTL = {}\n EnvL = {}\n"+
		" Tables <- c_Tables\n Broken = %s\n EmitOn = %s\n Fuel = 8\nINVARIANTS %s\n",
		maxNodes, broken, strings.ToUpper(fmt.Sprint(emit)), invs)
}

const c20Laws = "TypeOK IdentityLaw NormalizeLaw ConsumptionLaw SplicingLaw OpaqueLaw TerminationLaw"

// ---------------------------------------------------------------------------------------
// rendering the table as real macro declarations

func c20RenderTmpl(b *strings.Builder, n *c20Node) {
	if n.K == "param" {
		b.WriteString("~unquote{p" + n.A + "}")
		return
	}
	// same as c20render, with parameters as unquotes
	var walk func(n *c20Node) *c20Node
	walk = func(n *c20Node) *c20Node {
		if n.K == "param" {
			return c20N("uq", "", c20N("block", "", c20N("id", "p"+n.A)))
		}
		m := c20N(n.K, n.A)
		for _, c := range n.C {
			m.C = append(m.C, walk(c))
		}
		return m
	}
	c20render(b, walk(n))
}

func c20MacroDecl(m c20Macro) string {
	var ps []string
	for i := 1; i <= m.Arity; i++ {
		ps = append(ps, fmt.Sprintf("p%d", i))
	}
	params := ""
	if len(ps) > 0 {
		params = strings.Join(ps, ", ") + " ast.Node"
	}
	var b strings.Builder
	switch m.Mode {
	case "nil":
		return fmt.Sprintf("macro %s(%s) ast.Node { return nil }", m.Name, params)
	case "vals":
		rts := make([]string, len(m.Tmpl))
		for i, t := range m.Tmpl {
			rts[i] = "ast.Node"
			if i > 0 {
				b.WriteString(", ")
			}
			if t.K == "param" {
				b.WriteString("p" + t.A)
			} else {
				b.WriteString("~quote{" + c20Render(t) + "}")
			}
		}
		rt := "ast.Node"
		if len(rts) > 1 {
			rt = "(" + strings.Join(rts, ", ") + ")"
		}
		return fmt.Sprintf("macro %s(%s) %s { return %s }", m.Name, params, rt, b.String())
	default: // "qq"
		for i, t := range m.Tmpl {
			if i > 0 {
				b.WriteString("; ")
			}
			c20RenderTmpl(&b, t)
		}
		return fmt.Sprintf("macro %s(%s) ast.Node { return ~quasiquote{%s} }", m.Name, params, b.String())
	}
}

// ---------------------------------------------------------------------------------------
// the real-code side: one fast and one classic interpreter per table

type c20Env struct {
	sel  []c20Macro
	ir   *fast.Interp
	cl   *classic.Interp
	out  bytes.Buffer
	decl []string
}

func c20Recover(f func()) (p string) {
	defer func() {
		if r := recover(); r != nil {
			p = fmt.Sprint(r)
			if p == "" {
				p = "panic"
			}
		}
	}()
	f()
	return ""
}

func newC20Env(sel []c20Macro) (*c20Env, error) {
	e := &c20Env{sel: sel}
	e.ir = fast.New()
	g := &e.ir.Comp.Globals
	g.Stdout = &e.out
	g.Stderr = &e.out
	e.cl = classic.New()
	e.cl.Stdout = &e.out
	e.cl.Stderr = &e.out
	e.decl = append(e.decl, `import "go/ast"`)
	for _, m := range sel {
		e.decl = append(e.decl, c20MacroDecl(m))
	}
	for _, d := range e.decl {
		if p := c20Recover(func() { e.ir.Eval(d) }); p != "" {
			return nil, core.Infra("fast interpreter rejects the macro declaration %q: %s", d, p)
		}
		if p := c20Recover(func() { e.cl.Eval(d) }); p != "" {
			return nil, core.Infra("classic interpreter rejects the macro declaration %q: %s", d, p)
		}
	}
	return e, nil
}

// real outcome: a normalized projected tree, or K="panic" with A=class
func c20PanicNode(msg string) *c20Node {
	cls := "other"
	if strings.Contains(msg, "not enough arguments for macroexpansion") {
		cls = "not-enough-arguments"
	}
	if len(msg) > 160 {
		msg = msg[:160]
	}
	return &c20Node{K: "panic", A: cls, C: []*c20Node{c20N("id", msg)}}
}

type c20Real struct {
	raw  *c20Node // exact projection (nil if panic / projection failure)
	norm *c20Node // normalized, or the panic node
	exp  bool
	perr error // projection error (infrastructure)
}

func c20MakeReal(x interface{}, exp bool) c20Real {
	if n, ok := x.(ast.Node); ok && (n == nil || reflect.ValueOf(n).IsNil()) {
		x = nil
	}
	n, err := c20Project(x)
	if err != nil {
		return c20Real{perr: err}
	}
	return c20Real{raw: n, norm: c20Normalize(n), exp: exp}
}

var c20Drivers = []string{"fast-api", "fast-builtin", "classic-api", "classic-builtin"}

// builtinSrc renders the form as the argument of a MacroExpand* builtin: ~quote{form}.
// ~quote of a single form is that form, so a root block is written as a block inside the quote.
func c20BuiltinSrc(fn string, in *c20Node) string {
	return fn + "(~quote{" + c20Render(in) + "})"
}

func (e *c20Env) run(driver, api string, in *c20Node) (res c20Real) {
	src := c20Render(in)
	p := c20Recover(func() {
		switch driver {
		case "fast-api":
			nodes := e.ir.Comp.ParseBytes([]byte(src))
			if len(nodes) != 1 {
				res = c20Real{perr: fmt.Errorf("parser returned %d nodes for %q", len(nodes), src)}
				return
			}
			form := ast2.ToAst(nodes[0])
			var o ast2.Ast
			var ex bool
			switch api {
			case "expand1":
				o, ex = e.ir.Comp.MacroExpand1(form)
			case "expand":
				o, ex = e.ir.Comp.MacroExpand(form)
			default:
				o, ex = e.ir.Comp.MacroExpandCodewalk(form)
			}
			var oi interface{}
			if o != nil {
				oi = o.Interface()
			}
			res = c20MakeReal(oi, ex)
		case "fast-builtin":
			fn := map[string]string{"expand1": "MacroExpand1", "expand": "MacroExpand", "codewalk": "MacroExpandCodeWalk"}[api]
			vs, _ := e.ir.Eval(c20BuiltinSrc(fn, in))
			if len(vs) != 2 || !vs[0].IsValid() || !vs[1].IsValid() {
				res = c20Real{perr: fmt.Errorf("builtin %s returned %d values", fn, len(vs))}
				return
			}
			res = c20MakeReal(vs[0].Interface(), vs[1].Interface() == true)
		case "classic-api":
			nodes := e.cl.ParseBytes([]byte(src))
			if len(nodes) != 1 {
				res = c20Real{perr: fmt.Errorf("parser returned %d nodes for %q", len(nodes), src)}
				return
			}
			var o ast.Node
			var ex bool
			switch api {
			case "expand1":
				o, ex = e.cl.MacroExpand1(nodes[0])
			case "expand":
				o, ex = e.cl.MacroExpand(nodes[0])
			default:
				o, ex = e.cl.MacroExpandCodewalk(nodes[0])
			}
			res = c20MakeReal(o, ex)
		case "classic-builtin":
			fn := map[string]string{"expand1": "MacroExpand1", "expand": "MacroExpand", "codewalk": "MacroExpandCodewalk"}[api]
			_, vs := e.cl.Eval(c20BuiltinSrc(fn, in))
			if len(vs) != 2 || !vs[0].IsValid() || !vs[1].IsValid() {
				res = c20Real{perr: fmt.Errorf("builtin %s returned %d values", fn, len(vs))}
				return
			}
			res = c20MakeReal(vs[0].Interface(), vs[1].Interface() == true)
		}
	})
	e.out.Reset()
	if p != "" {
		return c20Real{norm: c20PanicNode(p)}
	}
	return res
}

func c20IsDefine(n *c20Node) bool { return n.K == "assign" && n.A == ":=" }

// c20Normalize is the Go side of Macro.tla's Normalize (the projection modulo trivial wrappers);
// the gate compares it with the specification's on every generated form.
func c20Normalize(t *c20Node) *c20Node {
	switch t.K {
	case "id", "int", "nil", "error", "diverge", "param", "panic":
		return t
	case "empty":
		return c20N("block", "")
	case "paren", "xblock":
		return c20Normalize(t.C[0])
	}
	var cs []*c20Node
	for _, c := range t.C {
		if t.K == "block" && c.K == "empty" {
			continue
		}
		cs = append(cs, c20Normalize(c))
	}
	if t.K == "block" && len(cs) == 1 && !c20IsDefine(cs[0]) {
		return cs[0]
	}
	return &c20Node{K: t.K, A: t.A, C: cs}
}

// sameOutcome: does the real outcome agree with an expected outcome of the specification?
// strict: the specification's own error must be gomacro's "not enough arguments" error; a
// deviation's error outcome matches any panic.
func c20Same(real, want *c20Node, strict bool) bool {
	if want.K == "error" {
		return real.K == "panic" && (!strict || real.A == "not-enough-arguments")
	}
	return c20Equal(real, want)
}

// does the builtin of the fast interpreter see the form? it simplifies its argument
// (one-element block -> the element) before expanding
func c20FastBuiltinSees(in *c20Node) bool {
	return !(in.K == "block" && len(in.C) < 2) && in.K != "paren"
}

func c20MacrosUsed(cs *c20Case) string {
	names := map[string]bool{}
	var walk func(n *c20Node)
	walk = func(n *c20Node) {
		if n.K == "id" {
			for _, m := range cs.Sel {
				if m.Name == n.A {
					names[fmt.Sprintf("%s%d", m.Mode, m.Arity)] = true
				}
			}
		}
		for _, c := range n.C {
			walk(c)
		}
	}
	walk(cs.In)
	if len(names) == 0 {
		return "macro-free"
	}
	var l []string
	for k := range names {
		l = append(l, k)
	}
	sort.Strings(l)
	return strings.Join(l, "+")
}

var c20DevClass = map[string][2]string{
	"sole":      {"sole-form-unwrapped-before-scan", "result-differs"},
	"retsplice": {"return-result-spliced", "child-lost"},
	"emptied":   {"emptied-list", "result-differs"},
	"flaglost":  {"quote-node-forgets-own-expansion", "result-differs"},
	"asbuilt":   {"several-known-deviations", "result-differs"},
	"skip+1":    {"", "arity-consumption"},
	"skip-1":    {"", "arity-consumption"},
	"inquote":   {"", "expanded-inside-quote"},
}

// c20Classify names the disagreement: signature and explanation.
func c20Classify(cs *c20Case, api string, real *c20Node) (sig, why string) {
	shape := c20MacrosUsed(cs)
	class := "result-differs"
	for _, d := range cs.Devs {
		if c20Same(real, d.O.get(api), false) {
			dc := c20DevClass[d.Name]
			if dc[0] != "" {
				shape = dc[0]
			}
			class = dc[1]
			if real.K == "panic" {
				class = "panics"
			}
			return fmt.Sprintf("macro(%s,%s):%s", api, shape, class), "the real code behaves as the deviation \"" + d.Name + "\" of Macro.tla"
		}
	}
	want := cs.Spec.get(api)
	switch {
	case real.K == "panic":
		class = "panics"
	case want.K == "error":
		class = "arity-consumption"
		why = "the specification expects the 'not enough arguments' error"
	default:
		have := map[string]int{}
		var walk func(n *c20Node, d int)
		walk = func(n *c20Node, d int) {
			if n.K == "id" || n.K == "int" {
				have[n.A] += d
			}
			for _, c := range n.C {
				walk(c, d)
			}
		}
		walk(want, 1)
		walk(real, -1)
		for _, v := range have {
			if v > 0 {
				class = "child-lost"
			}
		}
	}
	return fmt.Sprintf("macro(%s,%s):%s", api, shape, class), why
}

type c20Mismatch struct {
	sig, what string
}

// check replays one case on the environment; count: record coverage.
func (e *c20Env) check(c *core.Ctx, cs *c20Case, count bool) (mism []c20Mismatch, err error) {
	src := c20Render(cs.In)
	// gate: the parser's output, projected, is the generated form; its Go-side normal form
	// is the specification's
	var parsed *c20Node
	var perr error
	p := c20Recover(func() {
		nodes := e.ir.Comp.ParseBytes([]byte(src))
		if len(nodes) != 1 {
			perr = fmt.Errorf("%d nodes", len(nodes))
			return
		}
		parsed, perr = c20Project(nodes[0])
	})
	gateOK := p == "" && perr == nil && c20Equal(parsed, cs.In) && c20Equal(c20Normalize(parsed), cs.Nin)
	if count {
		c.Gate(gateOK)
	}
	if !gateOK {
		if count && c.GateRejects <= 3 {
			fmt.Printf("GATE-REJECT C20: source %q parses to %v (%s %v), specification form %v / normal form %v\n", src, parsed, p, perr, cs.In, cs.Nin)
		}
		return nil, nil
	}
	nontrivial := !cs.Free || len(cs.In.C) > 0
	for _, api := range c20Apis {
		want := cs.Spec.get(api)
		reals := map[string]c20Real{}
		for _, drv := range c20Drivers {
			if drv == "fast-builtin" && !c20FastBuiltinSees(cs.In) {
				continue
			}
			r := e.run(drv, api, cs.In)
			if r.perr != nil {
				return nil, core.Infra("%s %s on %q: cannot project the result: %v", drv, api, src, r.perr)
			}
			reals[drv] = r
			if count {
				c.Case(fmt.Sprintf("%d|%s|%s|%s", cs.Tb, src, api, drv), nontrivial)
			}
			ok := c20Same(r.norm, want, true)
			what := ""
			if !ok {
				what = fmt.Sprintf("%s %s(%s) = %v, specification (modulo trivial wrappers) says %v", drv, api, src, r.norm, want)
			} else if api == "expand1" && want.K != "error" && r.exp != cs.Spec.X1 {
				ok = false
				what = fmt.Sprintf("%s %s(%s) reports expanded=%v, specification says %v", drv, api, src, r.exp, cs.Spec.X1)
			} else if api == "codewalk" && cs.Free && strings.HasSuffix(drv, "-api") && !c20Equal(r.raw, cs.Wr) {
				ok = false
				what = fmt.Sprintf("%s %s(%s) = %v exactly, the wrapper mechanism (WalkRebuild) gives %v", drv, api, src, r.raw, cs.Wr)
			}
			if !ok {
				sig, why := c20Classify(cs, api, r.norm)
				if why != "" {
					what += " [" + why + "]"
				}
				mism = append(mism, c20Mismatch{sig, what})
			}
		}
		// the two interpreters agree with each other
		for _, pair := range [][2]string{{"fast-api", "classic-api"}, {"fast-builtin", "classic-builtin"}} {
			a, aok := reals[pair[0]]
			b, bok := reals[pair[1]]
			if !aok || !bok {
				continue
			}
			same := c20Equal(a.norm, b.norm) || (a.norm.K == "panic" && b.norm.K == "panic" && a.norm.A == b.norm.A)
			if !same {
				mism = append(mism, c20Mismatch{fmt.Sprintf("macro(%s,%s):fast-classic-differ", api, c20MacrosUsed(cs)),
					fmt.Sprintf("%s(%s): %s gives %v, %s gives %v", api, src, pair[0], a.norm, pair[1], b.norm)})
			}
		}
	}
	return mism, nil
}

func c20Decls(sel []c20Macro) string {
	var ds []string
	for _, m := range sel {
		ds = append(ds, c20MacroDecl(m))
	}
	return strings.Join(ds, "\n")
}

var c20Confirmed = map[string]int{}

// verdict: replay, confirm a mismatch in fresh interpreters, report.
func c20Verdict(c *core.Ctx, env *c20Env, cs *c20Case) error {
	mism, err := env.check(c, cs, true)
	if err != nil {
		return err
	}
	c.Trace()
	if len(mism) == 0 {
		return nil
	}
	// the first three disagreements of every signature are reproduced in fresh interpreters
	// before they are reported; later ones are reported as they are
	again := mism
	need := false
	for _, m := range mism {
		if c20Confirmed[m.sig] < 3 {
			need = true
		}
	}
	if need {
		fresh, err := newC20Env(cs.Sel)
		if err != nil {
			return err
		}
		again, err = fresh.check(c, cs, false)
		if err != nil {
			return err
		}
		if len(again) == 0 {
			return core.Infra("mismatch not reproducible in fresh interpreters: %s", mism[0].what)
		}
		for _, m := range again {
			c20Confirmed[m.sig]++
		}
	}
	seen := map[string]bool{}
	for _, m := range again {
		if seen[m.sig] {
			continue
		}
		seen[m.sig] = true
		var all []string
		for _, x := range again {
			if x.sig == m.sig {
				all = append(all, x.what)
			}
		}
		c.Violation(m.sig, "macros:\n"+c20Decls(cs.Sel)+"\n"+strings.Join(all, "\n"), cs)
	}
	return nil
}

// ---------------------------------------------------------------------------------------

// c20Queue decouples TLC's output from the replay: lines are queued and replayed by one worker,
// so TLC is not blocked on its stdout while the interpreters run.
type c20Queue struct {
	ch   chan []byte
	done chan struct{}
}

func newC20Queue(handle func([]byte)) *c20Queue {
	q := &c20Queue{ch: make(chan []byte, 1<<16), done: make(chan struct{})}
	go func() {
		for l := range q.ch {
			handle(l)
		}
		close(q.done)
	}()
	return q
}
func (q *c20Queue) put(l []byte) { q.ch <- l }
func (q *c20Queue) wait()        { close(q.ch); <-q.done }

type c20Runner struct {
	c      *core.Ctx
	mu     sync.Mutex
	tables map[int][]c20Macro
	envs   map[int]*c20Env
	seen   map[string]bool
	err    error
	nSamp  int
}

func newC20Runner(c *core.Ctx) *c20Runner {
	return &c20Runner{c: c, tables: map[int][]c20Macro{}, envs: map[int]*c20Env{}, seen: map[string]bool{}}
}

func (r *c20Runner) line(line []byte) {
	if r.err != nil {
		return
	}
	var cs c20Case
	if err := json.Unmarshal(line, &cs); err != nil {
		r.err = core.Infra("bad record from TLC: %v", err)
		return
	}
	if cs.T == "table" {
		if cs.Sel == nil {
			cs.Sel = []c20Macro{}
		}
		r.tables[cs.Tb] = cs.Sel
		return
	}
	sel, ok := r.tables[cs.Tb]
	if !ok {
		r.err = core.Infra("case for table %d before its table record", cs.Tb)
		return
	}
	cs.Sel = sel
	key := fmt.Sprintf("%d|%s", cs.Tb, c20Render(cs.In))
	if r.seen[key] {
		return
	}
	r.seen[key] = true
	env := r.envs[cs.Tb]
	if env == nil {
		var err error
		if env, err = newC20Env(sel); err != nil {
			r.err = err
			return
		}
		r.envs[cs.Tb] = env
	}
	if r.nSamp < 5 && !cs.Free && len(cs.In.C) >= 3 && r.nSamp*1000 < len(r.seen) {
		r.nSamp++
		r.c.Sample(map[string]interface{}{"macros": c20Decls(sel), "input": c20Render(cs.In),
			"codewalk": cs.Spec.Cw.String(), "expand1": cs.Spec.E1.String()})
	}
	if err := c20Verdict(r.c, env, &cs); err != nil {
		r.err = err
	}
}

func runC20(c *core.Ctx) error {
	r := newC20Runner(c)
	mc := c20MC(c20Tables, c20AllKinds)
	invs := c20Laws + " Emit EmitMeta"
	// (M)+(R) bounded-exhaustive: every form within the node budget, every table
	q := newC20Queue(r.line)
	_, err := c.TLC(core.TLCOpts{Spec: "Macro", MCDefs: mc, CfgName: "forms-bfs",
		Cfg: c20Cfg(c.Pick(4, 5), "{}", true, invs), OnLine: q.put, Workers: 6, Timeout: c20Timeout(c)})
	q.wait()
	if err != nil {
		return err
	}
	if r.err != nil {
		return r.err
	}
	c.Exhaustive = true
	// (R) random larger forms
	q = newC20Queue(r.line)
	_, err = c.TLC(core.TLCOpts{Spec: "Macro", MCDefs: mc, CfgName: "forms-sim",
		Cfg:      c20Cfg(c.Pick(10, 14), "{}", true, invs),
		Simulate: true, SimNum: c.Pick(60, 700), SimDepth: 60, Seed: c.Seed, OnLine: q.put, Workers: 6, Timeout: c20Timeout(c)})
	q.wait()
	if err != nil {
		return err
	}
	// (M)+(R) deep quoting: every nest of ~quote / ~quasiquote / ~unquote with calls of the
	// identity macro within a larger budget (depth bookkeeping of the code walk up to depth 3)
	rq := newC20Runner(c)
	q = newC20Queue(rq.line)
	_, err = c.TLC(core.TLCOpts{Spec: "Macro", MCDefs: c20MC([]c20Table{{[]string{"P1"}, []string{"P1"}}}, []string{"q", "qq", "uq"}),
		CfgName: "quotes-bfs", Cfg: c20Cfg(c.Pick(8, 9), "{}", true, invs), OnLine: q.put, Workers: 6, Timeout: c20Timeout(c)})
	q.wait()
	if err != nil {
		return err
	}
	if rq.err != nil {
		return rq.err
	}
	c.Assume("results are compared modulo Macro.tla's Normalize (UnwrapTrivial at every node); macro-free forms additionally exactly with WalkRebuild")
	c.Assume("the fast MacroExpand* builtins simplify their argument first, so a root block of fewer than two forms is not given to them")
	c.Assume("macro bodies are the catalogue's templates (parameter, quoted atom, several values, quasiquote block, nested call, if / return around parameters); self-producing tables are checked by TLC only")
	return r.err
}

func c20Timeout(c *core.Ctx) time.Duration {
	if c.Thorough() {
		return 45 * time.Minute
	}
	return 30 * time.Minute
}

func replayC20(c *core.Ctx, raw json.RawMessage) error {
	var cs c20Case
	if err := json.Unmarshal(raw, &cs); err != nil {
		return err
	}
	env, err := newC20Env(cs.Sel)
	if err != nil {
		return err
	}
	return c20Verdict(c, env, &cs)
}

func selfTestC20(c *core.Ctx) error {
	tables := []c20Table{{[]string{"P1", "S2"}, []string{"P1", "S2"}}}
	mc := c20MC(tables, []string{"bin", "call", "q", "qq", "uq", "block", "if", "ret"})
	// broken variants of the meaning must be rejected by the laws
	for _, bv := range []struct{ broken, law string }{
		{`{"skip+1"}`, "ConsumptionLaw"}, {`{"skip-1"}`, "ConsumptionLaw"}, {`{"inquote"}`, "OpaqueLaw"}, {`{"retsplice"}`, "SplicingLaw"},
	} {
		kinds := mc
		if bv.broken == `{"retsplice"}` {
			kinds = c20MC([]c20Table{{[]string{"R1"}, []string{"R1"}}}, []string{"bin", "block", "ret"})
		}
		r, err := c.TLC(core.TLCOpts{Spec: "Macro", MCDefs: kinds, CfgName: "broken-" + bv.broken,
			Cfg: c20Cfg(5, bv.broken, false, bv.law), ExpectError: true, Workers: 4})
		if err != nil {
			return err
		}
		if r.Violated != bv.law {
			return fmt.Errorf("broken variant %s not rejected by %s (violated=%q)\n%s", bv.broken, bv.law, r.Violated, r.Output)
		}
	}
	// a self-producing table diverges (TerminationLaw is not vacuous)
	r, err := c.TLC(core.TLCOpts{Spec: "Macro", MCDefs: c20MC([]c20Table{{[]string{"X1"}, []string{"X1"}}}, []string{"block"}) +
		"NoDiverge == Complete => Codewalk(Form, {}).k # \"diverge\"\n", CfgName: "self-producing",
		Cfg: c20Cfg(4, "{}", false, "TerminationLaw NoDiverge"), ExpectError: true, Workers: 4})
	if err != nil {
		return err
	}
	if r.Violated != "NoDiverge" {
		return fmt.Errorf("self-producing table does not diverge in the model (violated=%q)", r.Violated)
	}
	// a correct record is accepted, a corrupted expectation and a corrupted form are rejected
	sel := []c20Macro{{Name: "S2", Arity: 2, Mode: "vals", Tmpl: []*c20Node{c20N("param", "2")}}}
	in := c20N("block", "", c20N("id", "a1"), c20N("id", "S2"), c20N("int", "2"), c20N("paren", "", c20N("id", "a3")))
	exp := c20N("block", "", c20N("id", "a1"), c20N("id", "a3"))
	cs := &c20Case{Tb: 1, In: in, Nin: c20Normalize(in), Sel: sel,
		Spec: c20Outcome{E1: exp, X1: true, Ex: exp, Cw: exp}}
	env, err := newC20Env(sel)
	if err != nil {
		return err
	}
	if m, err := env.check(c, cs, false); err != nil || len(m) != 0 {
		return fmt.Errorf("correct record rejected: %v %v", m, err)
	}
	bad := *cs
	bad.Spec.Cw = c20N("block", "", c20N("id", "a1"), c20N("int", "2"))
	if m, _ := env.check(c, &bad, false); len(m) == 0 {
		return fmt.Errorf("corrupted expectation accepted")
	}
	before := c.GateRejects
	bad = *cs
	bad.Nin = in // the specification's normal form disagrees with the Go side's
	if m, _ := env.check(c, &bad, true); len(m) != 0 || c.GateRejects != before+1 {
		return fmt.Errorf("a form whose normal form disagrees with the specification's must be a gate reject, got %v", m)
	}
	return nil
}

package props

import (
	"encoding/json"
	"fmt"
	"os"
	"runtime"
	"strings"
	"sync"
	"sync/atomic"
	"time"

	"github.com/cosmos72/gomacro/fast"
	"github.com/cosmos72/gomacro/gls"

	"verif/harness/gm"
	"verif/harness/show"
)

// c10Sub: `vcheck C10 sub <job file>` -- runs the programs of one job on a fresh interpreter.
// Protocol on stdout (the interpreter's own warnings may be interleaved, lines are matched by
// prefix):  C10START <idx>  /  C10RES <json>  /  C10HANG <idx> (then exit 3).

type c10Child struct {
	seed    uint64
	mode    int32 // 0 no yields, 1 light, 2 dense Gosched, 3 sleeps
	ctr     uint64
	mu      sync.Mutex
	log     []int
	allocs  int64
	foreign int64
	bad     int64
	first   string
	main    uintptr
}

func c10Mix(x uint64) uint64 {
	x += 0x9E3779B97F4A7C15
	x = (x ^ (x >> 30)) * 0xBF58476D1CE4E5B9
	x = (x ^ (x >> 27)) * 0x94D049BB133111EB
	return x ^ (x >> 31)
}

func (s *c10Child) yield() {
	m := atomic.LoadInt32(&s.mode)
	if m == 0 {
		return
	}
	h := c10Mix(s.seed ^ atomic.AddUint64(&s.ctr, 1))
	switch m {
	case 1:
		if h&7 == 0 {
			runtime.Gosched()
		}
	case 2:
		if h&1 == 0 {
			runtime.Gosched()
		}
	default:
		switch h & 7 {
		case 0, 1:
			runtime.Gosched()
		case 2:
			time.Sleep(time.Duration((h>>8)%30) * time.Microsecond)
		}
	}
}

func (s *c10Child) lg(v int) {
	s.yield()
	s.mu.Lock()
	if len(s.log) < 4096 { // a program that wrongly loops for ever must not exhaust memory before the deadline
		s.log = append(s.log, v)
	}
	s.mu.Unlock()
}

func (s *c10Child) fin(vals ...int) []int {
	s.mu.Lock()
	defer s.mu.Unlock()
	out := append([]int{vals[0], len(vals) - 1}, vals[1:]...)
	out = append(out, s.log...)
	s.log = nil
	return out
}

func c10Pcode(r interface{}) int {
	switch show.PanicClass(fmt.Sprint(r)) {
	case "sendclosed":
		return 1
	case "closeclosed":
		return 2
	case "closenil":
		return 3
	}
	return 9
}

func (s *c10Child) install() {
	fast.VerifHooks.Alloc = func(env *fast.Env, run *fast.Run, goid uintptr, runGoid uintptr) {
		atomic.AddInt64(&s.allocs, 1)
		cur := gls.GoID()
		if cur != s.main {
			atomic.AddInt64(&s.foreign, 1)
		}
		if runGoid != cur || (goid != 0 && goid != cur) {
			if atomic.AddInt64(&s.bad, 1) == 1 {
				s.mu.Lock()
				s.first = fmt.Sprintf("frame allocated on goroutine %#x from a run owned by %#x", cur, runGoid)
				s.mu.Unlock()
			}
		}
	}
}

func c10Sub(args []string) int {
	if len(args) < 1 {
		return 2
	}
	b, err := os.ReadFile(args[0])
	if err != nil {
		fmt.Fprintln(os.Stderr, "job file:", err)
		return 2
	}
	var job c10Job
	if err := json.Unmarshal(b, &job); err != nil {
		fmt.Fprintln(os.Stderr, "job file:", err)
		return 2
	}
	emit := func(s string) { os.Stdout.WriteString(s + "\n") }
	s := &c10Child{seed: c10Mix(uint64(job.Seed)), main: gls.GoID()}
	g := gm.New()
	g.Ir.DeclFunc("lg", s.lg)
	g.Ir.DeclFunc("yl", s.yield)
	g.Ir.DeclFunc("fin", s.fin)
	g.Ir.DeclFunc("pcode", c10Pcode)
	g.Ir.DeclFunc("yv", func(v int) int {
		runtime.Gosched()
		return v
	})
	g.Ir.DeclFunc("b2i", func(b bool) int {
		if b {
			return 1
		}
		return 0
	})
	if r := g.Eval(`import "sync"`); r.Panicked {
		fmt.Fprintln(os.Stderr, "import sync failed:", r.Panic)
		return 2
	}
	s.install()
	deadline := time.Duration(job.DeadlineMs) * time.Millisecond
	procs := []int{1, 2, 16}
	for _, p := range job.Progs {
		emit(fmt.Sprintf("C10START %d", p.Idx))
		res := c10ChildRes{Idx: p.Idx, Outcomes: map[string]int{}}
		a0, f0, b0 := atomic.LoadInt64(&s.allocs), atomic.LoadInt64(&s.foreign), atomic.LoadInt64(&s.bad)
		idx := p.Idx
		wd := time.AfterFunc(deadline, func() {
			emit(fmt.Sprintf("C10HANG %d", idx))
			os.Exit(3)
		})
		var f func() []int
		if r := g.Eval(p.Src); r.Panicked {
			res.DeclPanic = r.Panic
		} else {
			func() {
				defer func() {
					if x := recover(); x != nil {
						res.DeclPanic = "taking the function value: " + show.ShowPanic(x)
					}
				}()
				vs, _ := g.Ir.Eval(p.Name)
				fn, ok := vs[0].Interface().(func() []int)
				if !ok {
					res.DeclPanic = "entry is not a func() []int"
				}
				f = fn
			}()
		}
		for k := 0; f != nil && k < job.Runs; k++ {
			wd.Reset(deadline)
			runtime.GOMAXPROCS(procs[(k*len(procs))/job.Runs])
			atomic.StoreInt32(&s.mode, int32(k%4))
			s.mu.Lock()
			s.log = nil
			s.mu.Unlock()
			var out string
			func() {
				defer func() {
					if x := recover(); x != nil {
						out = "P:" + show.ShowPanic(x)
					}
				}()
				out = c10Ints(f())
			}()
			if len(out) > 300 {
				out = out[:300]
			}
			res.Outcomes[out]++
		}
		wd.Stop()
		res.Allocs = atomic.LoadInt64(&s.allocs) - a0
		res.Foreign = atomic.LoadInt64(&s.foreign) - f0
		res.BadAlloc = atomic.LoadInt64(&s.bad) - b0
		if res.BadAlloc > 0 {
			s.mu.Lock()
			res.FirstBad = s.first
			s.mu.Unlock()
		}
		jb, _ := json.Marshal(res)
		emit("C10RES " + strings.ReplaceAll(string(jb), "\n", " "))
	}
	fast.VerifHooks.Alloc = nil
	return 0
}

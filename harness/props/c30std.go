package props

import (
	"fmt"
	"go/token"
	"sort"
	"strconv"
	"strings"

	"go/types"
)

// C30 projection of a package of the standard go/types (the ORIGINAL side): c30fork.go with the import changed,
// plus the generic nodes (type parameters, unions, instantiated types) rendered as GENERIC;
// both produce c30Proj values in one canonical syntax, which is also the syntax
// c30TermStr gives to the terms of spec/types/Converter.tla.

type c30StdWalk struct {
	named map[string]*types.Named // key -> first *Named met
	dups  map[string]bool
	order []string
	seen  map[types.Type]bool
}

func c30StdKey(n *types.Named) string {
	o := n.Obj()
	if o.Pkg() == nil {
		return o.Name()
	}
	return o.Pkg().Path() + "." + o.Name()
}

func c30StdQual(p *types.Package) string {
	if p == nil {
		return ""
	}
	return p.Path()
}

func c30StdId(name string, p *types.Package) string {
	if token.IsExported(name) {
		return name
	}
	return name + "@" + c30StdQual(p)
}

// str renders a type canonically; named types are cut at their name and recorded.
func (w *c30StdWalk) str(t types.Type) string {
	switch t := t.(type) {
	case nil:
		return "<nil>"
	case *types.Basic:
		// by kind: byte / rune are aliases of uint8 / int32 (identical types)
		if k := t.Kind(); k > types.Invalid && int(k) < len(types.Typ) && types.Typ[k] != nil {
			return types.Typ[k].Name()
		}
		return t.Name()
	case *types.TypeParam, *types.Union:
		return "GENERIC"
	case *types.Alias:
		return w.str(types.Unalias(t))
	case *types.Named:
		if t.TypeArgs().Len() > 0 || t.TypeParams().Len() > 0 {
			return "GENERIC"
		}
		k := c30StdKey(t)
		if prev, ok := w.named[k]; !ok {
			w.named[k] = t
			w.order = append(w.order, k)
		} else if prev != t {
			w.dups[k] = true
		}
		return k
	case *types.Pointer:
		return "*" + w.str(t.Elem())
	case *types.Slice:
		return "[]" + w.str(t.Elem())
	case *types.Array:
		return fmt.Sprintf("[%d]%s", t.Len(), w.str(t.Elem()))
	case *types.Map:
		return "map[" + w.str(t.Key()) + "]" + w.str(t.Elem())
	case *types.Chan:
		return fmt.Sprintf("chan%d(%s)", int(t.Dir()), w.str(t.Elem()))
	case *types.Signature:
		return "func" + w.sig(t)
	case *types.Struct:
		var sb strings.Builder
		sb.WriteString("struct{")
		for i := 0; i < t.NumFields(); i++ {
			f := t.Field(i)
			if f.Embedded() {
				sb.WriteString("emb ")
			}
			sb.WriteString(c30StdId(f.Name(), f.Pkg()))
			sb.WriteString(" ")
			sb.WriteString(w.str(f.Type()))
			if tag := t.Tag(i); tag != "" {
				sb.WriteString(" tag=" + strconv.Quote(tag))
			}
			sb.WriteString(";")
		}
		sb.WriteString("}")
		return sb.String()
	case *types.Interface:
		var es, ms, all []string
		for i := 0; i < t.NumEmbeddeds(); i++ {
			es = append(es, "E:"+w.str(t.EmbeddedType(i)))
		}
		for i := 0; i < t.NumExplicitMethods(); i++ {
			m := t.ExplicitMethod(i)
			ms = append(ms, c30StdId(m.Name(), m.Pkg())+w.sig(m.Type().(*types.Signature)))
		}
		for i := 0; i < t.NumMethods(); i++ {
			all = append(all, c30StdId(t.Method(i).Name(), t.Method(i).Pkg()))
		}
		sort.Strings(es)
		sort.Strings(ms)
		sort.Strings(all)
		return "iface{" + strings.Join(es, ";") + "|" + strings.Join(ms, ";") + "|all:" + strings.Join(all, ",") + "}"
	case *types.Tuple:
		var ps []string
		for i := 0; i < t.Len(); i++ {
			ps = append(ps, w.str(t.At(i).Type()))
		}
		return "(" + strings.Join(ps, ",") + ")"
	}
	return fmt.Sprintf("?%T", t)
}

func (w *c30StdWalk) sig(s *types.Signature) string {
	if s.TypeParams().Len() > 0 || s.RecvTypeParams().Len() > 0 {
		return "GENERIC"
	}
	var ps, rs []string
	for i := 0; i < s.Params().Len(); i++ {
		ps = append(ps, w.str(s.Params().At(i).Type()))
	}
	for i := 0; i < s.Results().Len(); i++ {
		rs = append(rs, w.str(s.Results().At(i).Type()))
	}
	v := ""
	if s.Variadic() {
		v = "..."
	}
	return "(" + strings.Join(ps, ",") + v + ")(" + strings.Join(rs, ",") + ")"
}

func c30StdMset(t types.Type) (out []string) {
	defer func() {
		if e := recover(); e != nil {
			out = []string{"panic:" + c28PanicText(e)}
		}
	}()
	ms := types.NewMethodSet(t)
	for i := 0; i < ms.Len(); i++ {
		o := ms.At(i).Obj()
		out = append(out, c30StdId(o.Name(), o.Pkg()))
	}
	sort.Strings(out)
	return out
}

// c30ProjStd projects a converted package: its objects, and every named type reachable
// from them (underlying structure, declared methods, method sets).
func c30ProjStd(pkg *types.Package, skip func(name string) bool) (p *c30Proj) {
	p = &c30Proj{Named: map[string]*c30NamedProj{}}
	defer func() {
		if e := recover(); e != nil {
			p.Panic = c28PanicText(e)
		}
	}()
	if pkg == nil {
		p.Panic = "nil package"
		return p
	}
	w := &c30StdWalk{named: map[string]*types.Named{}, dups: map[string]bool{}}
	for _, name := range pkg.Scope().Names() {
		if skip != nil && skip(name) {
			continue
		}
		obj := pkg.Scope().Lookup(name)
		op := c30ObjProj{Name: name}
		switch o := obj.(type) {
		case *types.Const:
			op.Kind = "const"
			if o.Val() != nil {
				op.ConstKind, op.ConstVal = o.Val().Kind().String(), o.Val().ExactString()
			}
		case *types.Var:
			op.Kind = "var"
		case *types.Func:
			op.Kind = "func"
		case *types.TypeName:
			op.Kind = "type"
		default:
			op.Kind = fmt.Sprintf("%T", obj)
		}
		op.Type = w.str(obj.Type())
		op.Printed = types.TypeString(obj.Type(), c30StdQual)
		p.Objs = append(p.Objs, op)
	}
	// (classification) the named types reachable from the objects WITHOUT going through a
	// method signature: the others are first met while methods are attached
	early := map[string]bool{}
	func() {
		defer func() { recover() }()
		w2 := &c30StdWalk{named: map[string]*types.Named{}, dups: map[string]bool{}}
		for _, name := range pkg.Scope().Names() {
			if skip != nil && skip(name) {
				continue
			}
			w2.str(pkg.Scope().Lookup(name).Type())
		}
		for i := 0; i < len(w2.order); i++ {
			if u := w2.named[w2.order[i]].Underlying(); u != nil {
				w2.str(u)
			}
		}
		for k := range w2.named {
			early[k] = true
		}
	}()
	// the named types met, and those met while describing them
	for i := 0; i < len(w.order); i++ {
		k := w.order[i]
		n := w.named[k]
		np := &c30NamedProj{Key: k, Late: !early[k]}
		p.Named[k] = np
		p.Order = append(p.Order, k)
		func() {
			defer func() {
				if e := recover(); e != nil {
					np.Panic = c28PanicText(e)
				}
			}()
			if n.Underlying() == nil {
				np.Und = "<nil>"
				return
			}
			np.Und = w.str(n.Underlying())
			for j := 0; j < n.NumMethods(); j++ {
				m := n.Method(j)
				s, _ := m.Type().(*types.Signature)
				recv := "val"
				if s != nil && s.Recv() != nil {
					if _, isPtr := s.Recv().Type().(*types.Pointer); isPtr {
						recv = "ptr"
					}
				} else {
					recv = "norecv"
				}
				sig := "<nil>"
				if s != nil {
					sig = w.sig(s)
				}
				np.Methods = append(np.Methods, c30StdId(m.Name(), m.Pkg())+" "+recv+" "+sig)
			}
			sort.Strings(np.Methods)
			np.MSet = c30StdMset(n)
			np.PMSet = c30StdMset(types.NewPointer(n))
		}()
	}
	for k := range w.dups {
		p.Dups = append(p.Dups, k)
	}
	sort.Strings(p.Dups)
	return p
}

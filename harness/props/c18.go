package props

import (
	"encoding/json"
	"fmt"
	"sort"
	"strings"
	"sync"
	"sync/atomic"

	"github.com/cosmos72/gomacro/base"
	"github.com/cosmos72/gomacro/fast"
	"github.com/cosmos72/gomacro/go/etoken"

	"verif/harness/core"
	"verif/harness/gm"
)

// C18: semantics-neutral options. Spec: spec/shell/Options.tla enumerates the configuration
// space (every subset of {Debugger, CollectDeclarations, CollectStatements, TrapPanic,
// PanicStackTrace, KeepUntyped} x the three states of the generics switch) x the corpus; the
// expected observation of a program is the one its SEMANTICS module prescribes (Defer.tla for
// defer/panic/recover programs, Calls.tla for closure histories rendered per signature cell),
// which mentions no option. Every (program, configuration) is run on the real interpreter.

func init() {
	core.Register(&core.Prop{
		ID: "C18",
		Rule: "TLC enumerates (program, option subset, generics state) over a corpus drawn from Defer.tla and Calls.tla behaviours; each is evaluated in an interpreter created with exactly those options; " +
			"non-trivial = at least one option differs from the default; distinct by (program, configuration)",
		Run:      runC18,
		SelfTest: selfTestC18,
	})
}

var c18Opts = map[string]base.Options{
	"Debugger":            base.OptDebugger,
	"CollectDeclarations": base.OptCollectDeclarations,
	"CollectStatements":   base.OptCollectStatements,
	"TrapPanic":           base.OptTrapPanic,
	"PanicStackTrace":     base.OptPanicStackTrace,
	"KeepUntyped":         base.OptKeepUntyped,
}

type c18Rec struct {
	Prog int      `json:"prog"`
	Opts []string `json:"opts"`
	Gen  int      `json:"gen"`
}

func c18Interp(opts []string, prelude string, book bool) *gm.Interp {
	g := gm.New()
	g.Book = book
	o := g.Ir.Comp.Globals.Options
	for _, bit := range c18Opts {
		o &^= bit
	}
	for _, n := range opts {
		o |= c18Opts[n]
	}
	g.Ir.Comp.Globals.Options = o
	g.Eval(`import "errors"`)
	g.Eval(`import "fmt"`)
	if r := g.Eval(prelude); r.Panicked {
		panic("prelude: " + r.Panic)
	}
	return g
}

func c18Corpus(c *core.Ctx) (cases []*ProgCase, preludes []string, err error) {
	// defer / panic / recover programs (full alphabet, simulation)
	allOps := `c_Ops == {"L","call","defer","rec","panic","deferrec","deferclo","deferloop","set","ret","spin","deferev"}`
	n := c.Pick(120, 600)
	stride := 0
	keep := func(k int) bool { stride++; return stride%7 == int(c.Seed)%7 }
	d, err := c07Collect(c, core.TLCOpts{Spec: "Defer", MCDefs: allOps, CfgName: "corpus-defer",
		Cfg: c07Cfg(4, 4, 9, "{1,2,3,4}", 0), Simulate: true, SimNum: c.Pick(120, 500), SimDepth: 100, Seed: c.Seed}, keep)
	if err != nil {
		return nil, nil, err
	}
	var dd []*ProgCase
	for _, pc := range d {
		var rec c07Rec
		json.Unmarshal(pc.Raw, &rec)
		if rec.MaxP < 2 && pc.Nontrivial { // nested panics are C07's known finding
			dd = append(dd, pc)
		}
	}
	if len(dd) > n {
		dd = dd[:n]
	}
	for _, pc := range dd {
		cases = append(cases, pc)
		preludes = append(preludes, c07Prelude)
	}
	// closure histories, one signature cell each
	var recs []c06Rec
	var raws [][]byte
	if _, err := c.TLC(core.TLCOpts{Spec: "Calls", CfgName: "corpus-calls", Cfg: c06Cfg(5, "{1,33}", "{40}"),
		Simulate: true, SimNum: c.Pick(10, 60), SimDepth: 8, Seed: c.Seed, OnLine: func(line []byte) {
			var r c06Rec
			if json.Unmarshal(line, &r) == nil {
				recs = append(recs, r)
				raws = append(raws, append([]byte(nil), line...))
			}
		}}); err != nil {
		return nil, nil, err
	}
	cells := c06Cells()
	m := c.Pick(80, 400)
	for i := range recs {
		if i >= m {
			break
		}
		cases = append(cases, c06Render(&recs[i], cells[(i*53+int(c.Seed)*7)%len(cells)], raws[i]))
		preludes = append(preludes, c06Prelude)
	}
	return cases, preludes, nil
}

func runC18(c *core.Ctx) error {
	cases, preludes, err := c18Corpus(c)
	if err != nil {
		return err
	}
	names := make([]string, 0, len(c18Opts))
	for n := range c18Opts {
		names = append(names, n)
	}
	sort.Strings(names)
	q := make([]string, len(names))
	for i, n := range names {
		q[i] = `"` + n + `"`
	}
	// TLC enumerates the configuration space; quick keeps a seeded 1/8 of the subsets per program
	var recs []c18Rec
	cnt := 0
	_, err = c.TLC(core.TLCOpts{Spec: "Options", CfgName: "configurations",
		Cfg: fmt.Sprintf("SPECIFICATION Spec\nCONSTANTS\n NProgs = %d\n OptNames = {%s}\n Generics = {0,1,2}\n EmitOn = TRUE\nINVARIANTS Neutral Emit\n", len(cases), strings.Join(q, ",")),
		OnLine: func(line []byte) {
			var r c18Rec
			if json.Unmarshal(line, &r) != nil {
				return
			}
			cnt++
			if c.Quick() && (cnt*2654435761+int(c.Seed))%8 != 0 {
				return
			}
			recs = append(recs, r)
		}})
	if err != nil {
		return err
	}
	c.Exhaustive = c.Thorough()
	// the generics switch is process-wide: run the three states one after the other
	var mu sync.Mutex
	var firstErr error
	var ran int64
	for gen := 0; gen <= 2; gen++ {
		etoken.GENERICS = etoken.Generics(gen)
		var batch []c18Rec
		for _, r := range recs {
			if r.Gen == gen {
				batch = append(batch, r)
			}
		}
		core.ParDo(len(batch), 14, func(i int) {
			r := batch[i]
			pc := cases[r.Prog-1]
			sort.Strings(r.Opts)
			g := c18Interp(r.Opts, preludes[r.Prog-1], strings.Contains(strings.Join(pc.WantEvents, ""), " |isdef"))
			// the Debugger option compiles breakpoint support: give it a debugger that continues
			g.Ir.SetDebugger(c18Debugger{})
			events, result := runOnGomacro(g, pc)
			atomic.AddInt64(&ran, 1)
			nondefault := !(len(r.Opts) == 1 && r.Opts[0] == "TrapPanic") || gen != 0
			c.Case(fmt.Sprintf("%s|%v|%d", pc.Key, r.Opts, gen), nondefault)
			c.Trace()
			if progConforms(pc, events, result) {
				return
			}
			g2 := c18Interp(r.Opts, preludes[r.Prog-1], g.Book)
			g2.Ir.SetDebugger(c18Debugger{})
			ev2, res2 := runOnGomacro(g2, pc)
			if progConforms(pc, ev2, res2) {
				mu.Lock()
				firstErr = core.Infra("disagreement not reproducible under options %v generics %d", r.Opts, gen)
				mu.Unlock()
				return
			}
			// is it option-dependent at all? compare with the default configuration
			g0 := c18Interp([]string{"TrapPanic"}, preludes[r.Prog-1], g.Book)
			ev0, res0 := runOnGomacro(g0, pc)
			sig := "options(" + strings.Join(r.Opts, "+") + fmt.Sprintf(",generics=%d)", gen) + ":result-depends-on-options"
			if !progConforms(pc, ev0, res0) {
				sig = "semantics-differs-even-with-default-options"
			}
			c.Violation(sig, describeDiff(pc.WantEvents, ev2, pc.WantResult, res2)+"\nprogram:\n"+pc.Decls,
				map[string]interface{}{"decls": pc.Decls, "entry": pc.Entry, "opts": r.Opts, "generics": gen})
		})
	}
	etoken.GENERICS = etoken.GENERICS_NONE
	if len(recs) > 0 {
		r := recs[len(recs)/2]
		c.Sample(map[string]interface{}{"program": cases[r.Prog-1].Decls, "options": r.Opts, "generics": r.Gen, "expected_events": cases[r.Prog-1].WantEvents, "expected_result": cases[r.Prog-1].WantResult})
	}
	c.Extra["corpus_programs"] = len(cases)
	c.Assume("TrapPanic and PanicStackTrace only act in the REPL path (ParseEvalPrint); through Eval they are set but must stay without effect; programs of the corpus are generic-free")
	return firstErr
}

type c18Debugger struct{}

func (c18Debugger) Breakpoint(ir *fast.Interp, env *fast.Env) fast.DebugOp {
	return fast.DebugOpContinue
}
func (c18Debugger) At(ir *fast.Interp, env *fast.Env) fast.DebugOp { return fast.DebugOpContinue }

func selfTestC18(c *core.Ctx) error {
	// a corrupted expectation must be rejected under a non-default configuration
	raw := []byte(`{"body":{"0":[{"k":"deferrec","v":7},{"k":"panic","v":1}],"1":[]},"log":[["R",0,1,1,true,0]],"outcome":["done",7]}`)
	var rec c07Rec
	json.Unmarshal(raw, &rec)
	pc := c07Render(&rec, raw)
	g := c18Interp([]string{"Debugger", "CollectStatements", "KeepUntyped"}, c07Prelude, true)
	ev, res := runOnGomacro(g, pc)
	if !progConforms(pc, ev, res) {
		return fmt.Errorf("correct record rejected under options: %v %s", ev, res)
	}
	pc.WantResult = "[int:8]"
	if progConforms(pc, ev, res) {
		return fmt.Errorf("corrupted record accepted")
	}
	return nil
}

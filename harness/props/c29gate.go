package props

import (
	"encoding/json"
	"fmt"
	"go/token"
	"go/types"
	r "reflect"
	"sort"
	"strings"
	"sync"

	"verif/harness/c29t"
	"verif/harness/core"
)

// The Go gate of C29: the observations stated by spec/types/Universe.tla are compared with
//   - reflect: the compiled types of package c29t and types made with reflect.ArrayOf, ChanOf,
//     FuncOf, MapOf, PointerTo, SliceOf, StructOf (Kind, Size, Align, String, field offsets,
//     NumMethod, AssignableTo, ConvertibleTo, Comparable, Implements), where reflect can
//     express the term (no interpreter-declared names, struct literals with exported plain
//     fields or taken from the compiled pool);
//   - the standard library's go/types on EVERY term (interpreter-declared names included):
//     Sizes of gc/amd64, TypeString, method sets, LookupFieldOrMethod, AssignableTo,
//     ConvertibleTo, Comparable, Implements, Identical.
// A disagreement is a specification bug: the behaviour is dropped and counted, never a verdict
// on gomacro. Nothing here reads /repo.

type c29StdW struct {
	w     *c28Std
	built map[string]types.Type
}

type c29Gate struct {
	meta  *c29Meta
	mu    sync.Mutex
	std   map[string]*c29StdW
	rmemo map[string]r.Type
	pool  map[string]r.Type // term key -> compiled type
	sizes types.Sizes
	memo  map[string]string // (term, nm) -> "" or reason
	pmemo map[string]string // (term x, term y, nm) -> "" or reason
}

func newC29Gate(meta *c29Meta) (*c29Gate, error) {
	g := &c29Gate{meta: meta, std: map[string]*c29StdW{}, rmemo: map[string]r.Type{}, pool: map[string]r.Type{},
		sizes: types.SizesFor("gc", "amd64"), memo: map[string]string{}, pmemo: map[string]string{}}
	if len(meta.Pool) != len(c29t.Pool) {
		return nil, core.Infra("specification bug: RPool has %d entries, package c29t %d", len(meta.Pool), len(c29t.Pool))
	}
	for i, t := range meta.Pool {
		g.pool[t.key()] = c29t.Pool[i]
	}
	exp := map[string]bool{}
	for _, n := range meta.Exported {
		exp[n] = true
	}
	for _, d := range meta.Decls {
		if d.Pkg != 0 && token.IsExported(d.Name) != exp[d.Name] {
			return nil, core.Infra("specification bug: declaration name %q exported=%v in Go, the module's Exported set says %v", d.Name, token.IsExported(d.Name), exp[d.Name])
		}
	}
	return g, nil
}

func c29NmKey(nm []int) string { return fmt.Sprint(nm) }

// stdWorld builds the declarations with the standard go/types, with the methods added so far.
func (g *c29Gate) stdWorld(nm []int) (*c29StdW, error) {
	k := c29NmKey(nm)
	if w := g.std[k]; w != nil {
		return w, nil
	}
	d := &c28Decls{Pkgs: g.meta.Pkgpaths, Exported: g.meta.Exported}
	for _, x := range g.meta.Decls {
		d.Objs = append(d.Objs, c28Obj{Name: x.Name, Pkg: x.Pkg, Und: x.Und})
	}
	w, err := newC28Std(d)
	if err != nil {
		return nil, core.Infra("gate: %v", err)
	}
	for o, x := range g.meta.Decls {
		n := w.namedOf(o+1, 1)
		for k := 0; k < nm[o+1] && k < len(x.Methods); k++ {
			m := x.Methods[k]
			var rt types.Type = n
			if m.Ptr {
				rt = types.NewPointer(n)
			}
			recv := types.NewParam(token.NoPos, w.pkg(x.Pkg), "", rt)
			sig := types.NewSignatureType(recv, nil, nil, w.tuple(m.Sig.Params, "a"), w.tuple(m.Sig.Results, "r"), m.Sig.Variadic)
			n.AddMethod(types.NewFunc(token.NoPos, w.pkg(m.Pkg), m.Name, sig))
		}
	}
	sw := &c29StdW{w: w, built: map[string]types.Type{}}
	g.std[k] = sw
	return sw, nil
}

func (sw *c29StdW) build(t *c28Term) (types.Type, error) {
	k := t.key()
	if x := sw.built[k]; x != nil {
		return x, nil
	}
	x, err := sw.w.Build(t)
	if err != nil {
		return nil, err
	}
	sw.built[k] = x
	return x, nil
}

// rbuild makes the reflect type of a term, if reflect can express it.
func (g *c29Gate) rbuild(t *c28Term) (rt r.Type, ok bool) {
	k := t.key()
	if x, hit := g.rmemo[k]; hit {
		return x, x != nil
	}
	defer func() {
		if e := recover(); e != nil {
			rt, ok = nil, false
		}
		g.rmemo[k] = rt
	}()
	if x := g.pool[k]; x != nil {
		return x, true
	}
	elem := func() r.Type {
		e, ok := g.rbuild(t.Elem)
		if !ok {
			panic("no")
		}
		return e
	}
	list := func(ts []*c28Term) []r.Type {
		out := make([]r.Type, len(ts))
		for i, x := range ts {
			e, ok := g.rbuild(x)
			if !ok {
				panic("no")
			}
			out[i] = e
		}
		return out
	}
	switch t.K {
	case "basic":
		return c29BasicR[t.Kind], c29BasicR[t.Kind] != nil
	case "named":
		if g.meta.Decls[t.Obj-1].Origin == "go" {
			return c29t.Decls[t.Obj], true
		}
		return nil, false
	case "ptr":
		return r.PointerTo(elem()), true
	case "slice":
		return r.SliceOf(elem()), true
	case "array":
		return r.ArrayOf(t.Len, elem()), true
	case "chan":
		return r.ChanOf(c29Dirs[t.Dir], elem()), true
	case "map":
		kt, ok := g.rbuild(t.Key)
		if !ok {
			return nil, false
		}
		return r.MapOf(kt, elem()), true
	case "func":
		return r.FuncOf(list(t.Params), list(t.Results), t.Variadic), true
	case "struct":
		var fs []r.StructField
		for _, f := range t.Fields {
			if f.Emb || !token.IsExported(f.Name) {
				return nil, false
			}
			ft, ok := g.rbuild(f.Typ)
			if !ok {
				return nil, false
			}
			fs = append(fs, r.StructField{Name: f.Name, Type: ft, Tag: r.StructTag(f.Tag)})
		}
		return r.StructOf(fs), true
	}
	return nil, false
}

func c29Sorted(xs []string) []string {
	out := append([]string(nil), xs...)
	sort.Strings(out)
	return out
}

func c29StdKind(t types.Type) string {
	switch u := t.Underlying().(type) {
	case *types.Basic:
		return u.Name()
	case *types.Pointer:
		return "ptr"
	case *types.Slice:
		return "slice"
	case *types.Array:
		return "array"
	case *types.Map:
		return "map"
	case *types.Chan:
		return "chan"
	case *types.Signature:
		return "func"
	case *types.Struct:
		return "struct"
	case *types.Interface:
		return "interface"
	}
	return "?"
}

func c29MsetNames(t types.Type) []string {
	ms := types.NewMethodSet(t)
	var out []string
	for i := 0; i < ms.Len(); i++ {
		out = append(out, ms.At(i).Obj().Name())
	}
	sort.Strings(out)
	return out
}

func c29SigNoRecv(f *types.Func) string {
	s := f.Type().(*types.Signature)
	return types.TypeString(types.NewSignatureType(nil, nil, nil, s.Params(), s.Results(), s.Variadic()), nil)
}

// attrs gates the attributes of one term. Returns "" or the reason of the disagreement.
func (g *c29Gate) attrs(t *c28Term, at *c29Attrs, nm []int) string {
	ab, _ := json.Marshal(at)
	key := t.key() + "|" + c29NmKey(nm) + "|" + string(ab) // the model's answer is part of the key
	if why, hit := g.memo[key]; hit {
		return why
	}
	why := g.attrs1(t, at, nm)
	g.memo[key] = why
	return why
}

func (g *c29Gate) attrs1(t *c28Term, at *c29Attrs, nm []int) (why string) {
	defer func() {
		if e := recover(); e != nil {
			why = fmt.Sprintf("gate panicked on %s: %v", at.Str, e)
		}
	}()
	var bad []string
	cmp := func(src, name string, model, native interface{}) {
		if fmt.Sprint(model) != fmt.Sprint(native) {
			bad = append(bad, fmt.Sprintf("%s %s of %s: model %v, native %v", src, name, at.Str, model, native))
		}
	}
	sw, err := g.stdWorld(nm)
	if err != nil {
		return err.Error()
	}
	T, err := sw.build(t)
	if err != nil {
		return err.Error()
	}
	// ---- go/types
	cmp("go/types", "kind", at.Kind, c29StdKind(T))
	cmp("go/types", "Sizeof", at.Size, g.sizes.Sizeof(T))
	cmp("go/types", "Alignof", at.Align, g.sizes.Alignof(T))
	cmp("go/types", "TypeString", at.Str, types.TypeString(T, nil))
	cmp("go/types", "Comparable", at.Cmp, types.Comparable(T))
	_, isNamed := T.(*types.Named)
	_, isBasic := T.(*types.Basic)
	cmp("go/types", "named", at.Named, isNamed || isBasic)
	if st, ok := T.Underlying().(*types.Struct); ok {
		cmp("go/types", "NumFields", len(at.Fields), st.NumFields())
		var vars []*types.Var
		for i := 0; i < st.NumFields(); i++ {
			vars = append(vars, st.Field(i))
		}
		offs := g.sizes.Offsetsof(vars)
		for i, f := range at.Fields {
			if i >= st.NumFields() {
				break
			}
			cmp("go/types", "field name", f.Name, st.Field(i).Name())
			cmp("go/types", "field offset", f.Off, offs[i])
			cmp("go/types", "field embedded", f.Emb, st.Field(i).Embedded())
			cmp("go/types", "field tag", f.Tag, st.Tag(i))
			cmp("go/types", "field type", f.Str, types.TypeString(st.Field(i).Type(), nil))
		}
	}
	var decl []string
	for _, m := range at.Decl {
		decl = append(decl, m.Name+" "+m.Sig)
	}
	var sdecl []string
	if it, ok := T.Underlying().(*types.Interface); ok {
		for i := 0; i < it.NumMethods(); i++ {
			sdecl = append(sdecl, it.Method(i).Name()+" "+c29SigNoRecv(it.Method(i)))
		}
	} else if n, ok := T.(*types.Named); ok {
		for i := 0; i < n.NumMethods(); i++ {
			sdecl = append(sdecl, n.Method(i).Name()+" "+c29SigNoRecv(n.Method(i)))
		}
	}
	cmp("go/types", "declared methods", c29Sorted(decl), c29Sorted(sdecl))
	cmp("go/types", "method set", c29Sorted(at.Mset), c29MsetNames(T))
	if _, isPtr := T.(*types.Pointer); !isPtr {
		cmp("go/types", "method set of pointer", c29Sorted(at.Pmset), c29MsetNames(types.NewPointer(T)))
	}
	switch u := T.Underlying().(type) {
	case *types.Pointer:
		cmp("go/types", "elem", at.Elem, types.TypeString(u.Elem(), nil))
	case *types.Slice:
		cmp("go/types", "elem", at.Elem, types.TypeString(u.Elem(), nil))
	case *types.Array:
		cmp("go/types", "elem", at.Elem, types.TypeString(u.Elem(), nil))
		cmp("go/types", "len", at.Len, u.Len())
	case *types.Chan:
		cmp("go/types", "elem", at.Elem, types.TypeString(u.Elem(), nil))
		cmp("go/types", "dir", at.Dir, int(u.Dir()))
	case *types.Map:
		cmp("go/types", "elem", at.Elem, types.TypeString(u.Elem(), nil))
		cmp("go/types", "key", at.Key, types.TypeString(u.Key(), nil))
	case *types.Signature:
		cmp("go/types", "nin", at.Nin, u.Params().Len())
		cmp("go/types", "nout", at.Nout, u.Results().Len())
		cmp("go/types", "variadic", at.Variadic, u.Variadic())
	}
	// lookups, where a selector has a single reading
	fl, ml := map[string]c29Look{}, map[string]c29Look{}
	for _, l := range at.Flook {
		fl[fmt.Sprintf("%s@%d", l.Name, l.Pkg)] = l
	}
	for _, l := range at.Mlook {
		ml[fmt.Sprintf("%s@%d", l.Name, l.Pkg)] = l
	}
	if at.Kind != "ptr" {
		for _, n := range g.meta.looknames() {
			k := fmt.Sprintf("%s@%d", n.Name, n.Pkg)
			f, m := fl[k].Count, ml[k].Count
			obj, index, _ := types.LookupFieldOrMethod(T, true, sw.w.pkg(n.Pkg), n.Name)
			switch {
			case f == 0 && m == 0:
				cmp("go/types", "lookup "+n.Name, "none", c29ObjClass(obj))
			case f == 1 && m == 0 && at.Kind == "struct":
				cmp("go/types", "lookup "+n.Name, "field", c29ObjClass(obj))
				cmp("go/types", "lookup index "+n.Name, fl[k].Path, index)
			case f == 0 && m == 1:
				cmp("go/types", "lookup "+n.Name, "method", c29ObjClass(obj))
			}
		}
	}
	// ---- reflect
	if rt, ok := g.rbuild(t); ok {
		cmp("reflect", "Kind", at.Kind, rt.Kind().String())
		cmp("reflect", "Size", at.Size, rt.Size())
		cmp("reflect", "Align", at.Align, rt.Align())
		cmp("reflect", "String", at.Rstr, rt.String())
		cmp("reflect", "Comparable", at.Cmp, rt.Comparable())
		if rt.Kind() == r.Struct {
			cmp("reflect", "NumField", len(at.Fields), rt.NumField())
			for i, f := range at.Fields {
				if i >= rt.NumField() {
					break
				}
				rf := rt.Field(i)
				cmp("reflect", "field name", f.Name, rf.Name)
				cmp("reflect", "field offset", f.Off, rf.Offset)
				cmp("reflect", "field embedded", f.Emb, rf.Anonymous)
				cmp("reflect", "field tag", f.Tag, string(rf.Tag))
			}
		}
		// reflect lists the exported methods of the method set
		var want, got []string
		for _, n := range at.Mset {
			if token.IsExported(n) {
				want = append(want, n)
			}
		}
		for i := 0; i < rt.NumMethod(); i++ {
			got = append(got, rt.Method(i).Name)
		}
		cmp("reflect", "methods", c29Sorted(want), c29Sorted(got))
		if rt.Kind() != r.Pointer && rt.Kind() != r.Interface {
			var pw, pg []string
			for _, n := range at.Pmset {
				if token.IsExported(n) {
					pw = append(pw, n)
				}
			}
			pt := r.PointerTo(rt)
			for i := 0; i < pt.NumMethod(); i++ {
				pg = append(pg, pt.Method(i).Name)
			}
			cmp("reflect", "methods of pointer", c29Sorted(pw), c29Sorted(pg))
		}
	}
	return strings.Join(bad, "; ")
}

func c29ObjClass(o types.Object) string {
	switch o.(type) {
	case nil:
		return "none"
	case *types.Var:
		return "field"
	case *types.Func:
		return "method"
	}
	return "?"
}

// pair gates the predicates between two terms.
func (g *c29Gate) pair(x, y *c28Term, nm []int, asg, cnv, ident bool, impl *bool) string {
	key := fmt.Sprintf("%s|%s|%s|%v%v%v", x.key(), y.key(), c29NmKey(nm), asg, cnv, ident)
	if impl != nil {
		key += fmt.Sprint(*impl)
	}
	if why, hit := g.pmemo[key]; hit {
		return why
	}
	why := g.pair1(x, y, nm, asg, cnv, ident, impl)
	g.pmemo[key] = why
	return why
}

func (g *c29Gate) pair1(x, y *c28Term, nm []int, asg, cnv, ident bool, impl *bool) (why string) {
	defer func() {
		if e := recover(); e != nil {
			why = fmt.Sprintf("gate panicked on the pair %s, %s: %v", x, y, e)
		}
	}()
	var bad []string
	cmp := func(src, name string, model, native bool) {
		if model != native {
			bad = append(bad, fmt.Sprintf("%s %s(%s, %s): model %v, native %v", src, name, x, y, model, native))
		}
	}
	sw, err := g.stdWorld(nm)
	if err != nil {
		return err.Error()
	}
	X, err := sw.build(x)
	if err != nil {
		return err.Error()
	}
	Y, err := sw.build(y)
	if err != nil {
		return err.Error()
	}
	cmp("go/types", "AssignableTo", asg, types.AssignableTo(X, Y))
	cmp("go/types", "ConvertibleTo", cnv, types.ConvertibleTo(X, Y))
	cmp("go/types", "Identical", ident, types.Identical(X, Y))
	if impl != nil {
		cmp("go/types", "Implements", *impl, types.Implements(X, Y.Underlying().(*types.Interface)))
	}
	rx, okx := g.rbuild(x)
	ry, oky := g.rbuild(y)
	if okx && oky {
		cmp("reflect", "AssignableTo", asg, rx.AssignableTo(ry))
		cmp("reflect", "ConvertibleTo", cnv, rx.ConvertibleTo(ry))
		cmp("reflect", "==", ident, rx == ry)
		if impl != nil {
			cmp("reflect", "Implements", *impl, rx.Implements(ry))
		}
	}
	return strings.Join(bad, "; ")
}

// history gates every observation of one history.
func (g *c29Gate) history(ops []c29Op) (ok bool, why string) {
	g.mu.Lock()
	defer g.mu.Unlock()
	nm := make([]int, len(g.meta.Decls)+1)
	terms := map[int]*c28Term{}
	for i := range ops {
		op := &ops[i]
		switch op.Op {
		case "FromReflect":
			for o, d := range g.meta.Decls {
				if d.Origin == "go" {
					nm[o+1] = len(d.Methods)
				}
			}
		case "AddMethod":
			nm[op.Extra.Decl]++
		}
		if op.New {
			terms[op.Res] = op.Term
		}
		for _, obs := range [][]c29Obs{op.Obs, op.Reobs} {
			for k := range obs {
				ob := &obs[k]
				t := terms[ob.ID]
				if t == nil {
					return false, fmt.Sprintf("observation of unknown object %d", ob.ID)
				}
				if why := g.attrs(t, &ob.Attrs, nm); why != "" {
					return false, why
				}
				p := &ob.Preds
				asgTo, asgFrom, cnvTo, cnvFrom := c29Set(p.AsgTo), c29Set(p.AsgFrom), c29Set(p.CnvTo), c29Set(p.CnvFrom)
				implTo, implFrom, ident, ifaces := c29Set(p.ImplTo), c29Set(p.ImplFrom), c29Set(p.Ident), c29Set(p.Ifaces)
				for _, j := range p.Os {
					u := terms[j]
					if u == nil {
						return false, fmt.Sprintf("observation against unknown object %d", j)
					}
					var impl *bool
					if ifaces[j] {
						b := implTo[j]
						impl = &b
					}
					if why := g.pair(t, u, nm, asgTo[j], cnvTo[j], ident[j], impl); why != "" {
						return false, why
					}
					impl = nil
					if ob.Attrs.Kind == "interface" {
						b := implFrom[j]
						impl = &b
					}
					// identity is symmetric in the model (PredLaws); the reverse direction is gated with it
					if why := g.pair(u, t, nm, asgFrom[j], cnvFrom[j], ident[j], impl); why != "" {
						return false, why
					}
				}
			}
		}
	}
	return true, ""
}

// pool gates the attributes the module states for the compiled pool against package c29t.
func (g *c29Gate) poolCheck(c *core.Ctx) error {
	g.mu.Lock()
	defer g.mu.Unlock()
	nm := make([]int, len(g.meta.Decls)+1)
	for o, d := range g.meta.Decls {
		if d.Origin == "go" {
			nm[o+1] = len(d.Methods)
		}
	}
	if len(g.meta.Pattrs) != len(g.meta.Pool) {
		return core.Infra("specification bug: %d pool attribute records for %d pool entries", len(g.meta.Pattrs), len(g.meta.Pool))
	}
	for i, t := range g.meta.Pool {
		why := g.attrs(t, &g.meta.Pattrs[i], nm)
		c.Gate(why == "")
		if why != "" {
			return core.Infra("specification bug: pool entry %d (%s) of Universe.tla disagrees with the compiled type %v: %s", i+1, g.meta.Pattrs[i].Str, c29t.Pool[i], why)
		}
	}
	return nil
}

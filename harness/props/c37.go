package props

import (
	"bytes"
	"encoding/json"
	"fmt"
	"io"
	"sort"
	"strings"

	"github.com/cosmos72/gomacro/base"
	"github.com/cosmos72/gomacro/fast"

	"verif/harness/core"
)

// C37: REPL command lookup. Spec: spec/shell/Cmds.tla.
// (M) TLC checks that the implementation-level table (binary search + prefix scan, per first
// byte vector) agrees with the linear-scan definition on every table over NameSet.
// (R) every distinct table (BFS, with the history that built it) and seeded random
// add/del/lookup histories (simulation) are replayed on the real package-level
// fast.Commands and on Interp.Cmd.

func init() {
	core.Register(&core.Prop{
		ID: "C37",
		Rule: "TLC enumerates every command table over NameSet reachable by Add/Del from the built-in table (BFS, one record per distinct table) " +
			"and seeded random add/del/lookup histories (simulation); each record is replayed on fast.Commands and Interp.Cmd; " +
			"a case is one (table or history step, probe prefix) lookup; non-trivial = the prefix matches at least one registered name or the step changes the table",
		Run:      runC37,
		Replay:   replayC37,
		SelfTest: selfTestC37,
	})
}

type c37Res struct {
	R     string  `json:"r"`
	Name  []int   `json:"name,omitempty"`
	Names [][]int `json:"names,omitempty"`
}
type c37Op struct {
	Op   string  `json:"op"`
	Name []int   `json:"name"`
	Ok   bool    `json:"ok"`
	Res  *c37Res `json:"res,omitempty"`
}
type c37Rec struct {
	Ops     []c37Op `json:"ops"`
	List    [][]int `json:"list"`
	Lookups []struct {
		P   []int  `json:"p"`
		Res c37Res `json:"res"`
	} `json:"lookups"`
}

var c37Builtins = []string{"copyright", "debug", "env", "help", "inspect", "options", "package", "quit", "unload", "write"}

func c37Names(c *core.Ctx) (names, probes []string) {
	if c.Thorough() {
		names = []string{"a", "b", "aa", "ab", "ba", "bb", "aaa", "aab", "aba", "abb", "baa", "e", "en", "envx", "envxy", "ew"}
	} else {
		names = []string{"a", "b", "aa", "ab", "ba", "aab", "abb", "e", "en", "envx", "ew"}
	}
	set := map[string]bool{"": true, "z": true, "q": true, "qu": true, "quit": true, "quitx": true, "env": true, "envxz": true, "c": true}
	for _, n := range names {
		for i := 1; i <= len(n); i++ {
			set[n[:i]] = true
		}
		set[n+"a"] = true
	}
	for p := range set {
		probes = append(probes, p)
	}
	sort.Strings(probes)
	return
}

func c37MC(names, probes []string) string {
	return fmt.Sprintf("c_NameSet == %s\nc_Probes == %s\nc_Builtins == %s\n",
		core.TLASet(names), core.TLASet(probes), core.TLASet(c37Builtins))
}

func c37Cfg(spec string, maxOps int, exactFirst bool, emitAt int, view bool, invs string) string {
	s := fmt.Sprintf("SPECIFICATION %s\nCONSTANTS\n NameSet <- c_NameSet\n Probes <- c_Probes\n Builtins <- c_Builtins\n MaxOps = %d\n ExactFirst = %s\n EmitOn = TRUE\n EmitAt = %d\nINVARIANTS %s\n",
		spec, maxOps, strings.ToUpper(fmt.Sprint(exactFirst)), emitAt, invs)
	if view {
		s += "VIEW TabView\n"
	}
	return s
}

// c37Env is the real-code side: the global table plus one interpreter for Interp.Cmd.
type c37Env struct {
	ir      *fast.Interp
	names   []string
	initial []string
	called  string // "<name>#<tag>" recorded by the last command function run
	out     bytes.Buffer
}

func newC37Env(names []string) *c37Env {
	e := &c37Env{names: names}
	e.ir = fast.New()
	g := &e.ir.Comp.Globals
	g.Stdout = &e.out
	g.Stderr = &e.out
	for _, cmd := range fast.Commands.List() {
		e.initial = append(e.initial, cmd.Name)
	}
	return e
}

func (e *c37Env) reset() error {
	for _, n := range e.names {
		fast.Commands.Del(n)
	}
	var now []string
	for _, cmd := range fast.Commands.List() {
		now = append(now, cmd.Name)
	}
	if strings.Join(now, " ") != strings.Join(e.initial, " ") {
		return core.Infra("cannot restore fast.Commands: have %v want %v", now, e.initial)
	}
	return nil
}

func (e *c37Env) add(name string, tag int) bool {
	nm := name
	return fast.Commands.Add(fast.Cmd{Name: name, Help: name, Func: func(ir *fast.Interp, arg string, opt base.CmdOpt) (string, base.CmdOpt) {
		e.called = fmt.Sprintf("%s#%d arg=%s", nm, tag, arg)
		return "", opt
	}})
}

func (r c37Res) String() string {
	switch r.R {
	case "found":
		return "found(" + core.BytesToString(r.Name) + ")"
	case "ambiguous":
		var ns []string
		for _, n := range r.Names {
			ns = append(ns, core.BytesToString(n))
		}
		return "ambiguous(" + strings.Join(ns, " ") + ")"
	}
	return r.R
}

func c37Observe(prefix string) string {
	cmd, err := fast.Commands.Lookup(prefix)
	switch {
	case err == nil:
		return "found(" + cmd.Name + ")"
	case err == io.EOF:
		return "none"
	default:
		return "ambiguous(" + err.Error() + ")"
	}
}

// lookup compares one prefix on Commands.Lookup and on Interp.Cmd with the expected result.
// tags maps a registered test name to the tag of its latest Add.
func (e *c37Env) lookup(prefix string, want c37Res, tags map[string]int) (mismatch string) {
	got := c37Observe(prefix)
	if got != want.String() {
		return fmt.Sprintf("Commands.Lookup(%q) = %s, specification says %s", prefix, got, want)
	}
	if strings.ContainsAny(prefix, " \t") {
		return ""
	}
	// dispatch through Interp.Cmd; built-in commands are not executed
	if want.R == "found" {
		if _, test := tags[core.BytesToString(want.Name)]; !test {
			return ""
		}
	}
	e.called = ""
	e.out.Reset()
	src := ":" + prefix + " 7"
	rest, opt := e.ir.Cmd(src)
	switch want.R {
	case "found":
		n := core.BytesToString(want.Name)
		exp := fmt.Sprintf("%s#%d arg=7", n, tags[n])
		if e.called != exp || rest != "" {
			return fmt.Sprintf("Interp.Cmd(%q) ran %q rest=%q, specification says it runs %q (latest registration)", src, e.called, rest, exp)
		}
	case "none":
		if e.called != "" || rest != " "+prefix+" 7" || opt&base.CmdOptForceEval == 0 {
			return fmt.Sprintf("Interp.Cmd(%q) = (%q, %v) ran %q; an unknown ':' input must be handed back to be evaluated as code", src, rest, opt, e.called)
		}
	case "ambiguous":
		if e.called != "" || rest != "" {
			return fmt.Sprintf("Interp.Cmd(%q) = (%q) ran %q; an ambiguous command must not run or be evaluated", src, rest, e.called)
		}
	}
	return ""
}

// check replays one record; returns mismatches (empty = conforms).
func (e *c37Env) check(c *core.Ctx, rec *c37Rec, count bool) ([]string, error) {
	if err := e.reset(); err != nil {
		return nil, err
	}
	var mism []string
	tags := map[string]int{}
	reg := map[string]bool{}
	for _, b := range c37Builtins {
		reg[b] = true
	}
	matches := func(p string) bool {
		if p == "" {
			return false
		}
		for n := range reg {
			if strings.HasPrefix(n, p) {
				return true
			}
		}
		return false
	}
	for i, op := range rec.Ops {
		name := core.BytesToString(op.Name)
		switch op.Op {
		case "add":
			if ok := e.add(name, i); ok != op.Ok {
				mism = append(mism, fmt.Sprintf("step %d Add(%q) returned %v, specification says %v", i, name, ok, op.Ok))
			}
			tags[name] = i
			reg[name] = true
		case "del":
			if ok := fast.Commands.Del(name); ok != op.Ok {
				mism = append(mism, fmt.Sprintf("step %d Del(%q) returned %v, specification says %v", i, name, ok, op.Ok))
			}
			delete(tags, name)
			delete(reg, name)
		case "lookup":
			if m := e.lookup(name, *op.Res, tags); m != "" {
				mism = append(mism, fmt.Sprintf("step %d: %s", i, m))
			}
			if count {
				c.Case(fmt.Sprintf("h%v|%s", rec.Ops[:i], name), matches(name))
			}
		}
	}
	// listing
	var list, want []string
	for _, cmd := range fast.Commands.List() {
		list = append(list, cmd.Name)
	}
	for _, n := range rec.List {
		want = append(want, core.BytesToString(n))
	}
	if strings.Join(list, " ") != strings.Join(want, " ") {
		mism = append(mism, fmt.Sprintf("Commands.List() = %v, specification says %v", list, want))
	}
	for _, l := range rec.Lookups {
		p := core.BytesToString(l.P)
		if m := e.lookup(p, l.Res, tags); m != "" {
			mism = append(mism, m)
		}
		if count {
			c.Case(strings.Join(want, ",")+"|"+p, matches(p))
		}
	}
	return mism, nil
}

func c37Sig(m string) string {
	// signature = shape of the disagreement, with concrete names abstracted
	switch {
	case strings.Contains(m, "Commands.Lookup") && strings.Contains(m, "= ambiguous(") && strings.Contains(m, "says found("):
		return "lookup:exact-name-reported-ambiguous"
	case strings.Contains(m, "Commands.Lookup"):
		return "lookup:" + abstractC37(m)
	case strings.Contains(m, "Interp.Cmd"):
		return "dispatch:" + abstractC37(m)
	case strings.Contains(m, "Commands.List"):
		return "list"
	}
	return "other"
}

func abstractC37(m string) string {
	i := strings.Index(m, " = ")
	if i < 0 {
		return "?"
	}
	s := m[i:]
	for _, w := range []string{"found", "ambiguous", "none"} {
		if strings.Contains(s, "= "+w) {
			s2 := "got-" + w
			for _, v := range []string{"found", "ambiguous", "none"} {
				if strings.Contains(s, "says "+v) {
					return s2 + "-want-" + v
				}
			}
			return s2
		}
	}
	return "?"
}

func (e *c37Env) verdict(c *core.Ctx, rec *c37Rec) error {
	mism, err := e.check(c, rec, true)
	if err != nil {
		return err
	}
	c.Trace()
	if len(mism) > 0 {
		// confirm on a second run from a clean table
		again, err := e.check(c, rec, false)
		if err != nil {
			return err
		}
		if len(again) == 0 {
			return core.Infra("mismatch not reproducible: %v", mism)
		}
		c.Violation(c37Sig(again[0]), strings.Join(again, "\n"), rec)
	}
	return nil
}

func runC37(c *core.Ctx) error {
	names, probes := c37Names(c)
	env := newC37Env(names)
	defer env.reset()
	mc := c37MC(names, probes)
	var firstErr error
	sampled := 0
	handle := func(line []byte) {
		if firstErr != nil {
			return
		}
		var rec c37Rec
		if err := json.Unmarshal(line, &rec); err != nil {
			firstErr = core.Infra("bad record from TLC: %v", err)
			return
		}
		if sampled < 3 && len(rec.Ops) >= 3 {
			sampled++
			c.Sample(json.RawMessage(append([]byte(nil), line...)))
		}
		if err := env.verdict(c, &rec); err != nil {
			firstErr = err
		}
	}
	// (M)+(R) exhaustive over tables
	_, err := c.TLC(core.TLCOpts{Spec: "Cmds", MCDefs: mc, CfgName: "tables-bfs",
		Cfg:    c37Cfg("Spec", len(names)+2, true, 0, true, "TypeOK Refines LookupAgrees UniqueClause Emit"),
		OnLine: handle, Coverage: c.Thorough()})
	if err != nil {
		return err
	}
	if firstErr != nil {
		return firstErr
	}
	c.Exhaustive = true
	// (R) random histories with interleaved lookups
	depth := c.Pick(14, 30)
	_, err = c.TLC(core.TLCOpts{Spec: "Cmds", MCDefs: mc, CfgName: "histories-sim",
		Cfg:      c37Cfg("SpecL", depth, true, depth, false, "TypeOK Refines Emit"),
		Simulate: true, SimNum: c.Pick(150, 1200), SimDepth: depth + 1, Seed: c.Seed, OnLine: handle})
	if err != nil {
		return err
	}
	c.Assume("fast.Commands is the only constructible table (unexported map); built-in commands are looked up but never executed")
	return firstErr
}

func replayC37(c *core.Ctx, raw json.RawMessage) error {
	var rec c37Rec
	if err := json.Unmarshal(raw, &rec); err != nil {
		return err
	}
	names, _ := c37Names(c)
	c.Tier = "thorough"
	n2, _ := c37Names(c)
	c.Tier = "replay"
	env := newC37Env(append(names, n2...))
	defer env.reset()
	return env.verdict(c, &rec)
}

func selfTestC37(c *core.Ctx) error {
	names, probes := c37Names(c)
	mc := c37MC(names, probes)
	// broken variant: the implementation model without the exact-match shortcut must
	// violate LookupAgrees
	r, err := c.TLC(core.TLCOpts{Spec: "Cmds", MCDefs: mc, CfgName: "broken-exactfirst",
		Cfg:         strings.Replace(c37Cfg("Spec", 4, false, 0, true, "LookupAgrees"), "EmitOn = TRUE", "EmitOn = FALSE", 1),
		ExpectError: true})
	if err != nil {
		return err
	}
	if r.Violated != "LookupAgrees" {
		return fmt.Errorf("broken variant ExactFirst=FALSE not detected by TLC (violated=%q)", r.Violated)
	}
	// corrupted record must be rejected by the replay
	env := newC37Env(names)
	defer env.reset()
	rec := c37Rec{Ops: []c37Op{{Op: "add", Name: []int{'a', 'b'}, Ok: true}}}
	for _, n := range append([]string{"ab"}, c37Builtins...) {
		var cs []int
		for _, ch := range []byte(n) {
			cs = append(cs, int(ch))
		}
		rec.List = append(rec.List, cs)
	}
	rec.Lookups = append(rec.Lookups, struct {
		P   []int  `json:"p"`
		Res c37Res `json:"res"`
	}{P: []int{'a'}, Res: c37Res{R: "found", Name: []int{'a', 'b'}}})
	if m, err := env.check(c, &rec, false); err != nil || len(m) != 0 {
		return fmt.Errorf("correct record rejected: %v %v", m, err)
	}
	rec.Lookups[0].Res = c37Res{R: "none"}
	if m, _ := env.check(c, &rec, false); len(m) == 0 {
		return fmt.Errorf("corrupted record accepted")
	}
	return nil
}

package props

import (
	"fmt"
	"strconv"
	"strings"
)

// C10 program records as printed by spec/sem/Chan.tla and their rendering as Go source.
// The renderer is purely syntactic: one Go statement per statement of the model's language.

type c10Val struct {
	K string `json:"k"`
	N int    `json:"n"`
}

type c10Case struct {
	Dir  string    `json:"dir"`
	Ch   int       `json:"ch"`
	Val  c10Val    `json:"val"`
	Form string    `json:"form"`
	Body []c10Stmt `json:"body"`
}

type c10Stmt struct {
	Op     string    `json:"op"`
	Ch     int       `json:"ch,omitempty"`
	Val    *c10Val   `json:"val,omitempty"`
	Form   string    `json:"form,omitempty"`
	Proc   int       `json:"proc,omitempty"`
	Pstep  int       `json:"pstep,omitempty"`
	Arg    *c10Val   `json:"arg,omitempty"`
	Mu     int       `json:"mu,omitempty"`
	Wg     int       `json:"wg,omitempty"`
	N      int       `json:"n,omitempty"`
	Var    int       `json:"var,omitempty"`
	Body   []c10Stmt `json:"body,omitempty"`
	Cases  []c10Case `json:"cases,omitempty"`
	Hasdef bool      `json:"hasdef,omitempty"`
	Def    []c10Stmt `json:"def,omitempty"`
}

type c10Proc struct {
	Body   []c10Stmt `json:"body"`
	Defers []c10Stmt `json:"defers"`
	Leaky  bool      `json:"leaky"`
}

type c10Prog struct {
	Tpl   string    `json:"tpl"`
	Par   []int     `json:"par"`
	Caps  []int     `json:"caps"`
	Nmu   int       `json:"nmu"`
	Nwg   int       `json:"nwg"`
	Nvar  int       `json:"nvar"`
	Procs []c10Proc `json:"procs"`
}

func (p *c10Prog) Key() string { return fmt.Sprintf("%s%v", p.Tpl, p.Par) }

type c10Renderer struct {
	p      *c10Prog
	b      strings.Builder
	labels int
	err    error
	// shapes records which rendering shapes (statement kinds and forms) the program uses:
	// the gate must have covered every shape natively before a mismatch is trusted
	shapes map[string]bool
}

func (r *c10Renderer) fail(format string, a ...interface{}) {
	if r.err == nil {
		r.err = fmt.Errorf(format, a...)
	}
}

func (r *c10Renderer) val(v *c10Val, inFor bool) string {
	if v == nil {
		r.fail("missing value expression")
		return "0"
	}
	off := func(name string) string {
		switch {
		case v.N == 0:
			return name
		case v.N < 0:
			return fmt.Sprintf("%s - %d", name, -v.N)
		}
		return fmt.Sprintf("%s + %d", name, v.N)
	}
	r.shapes["val:"+v.K] = true
	switch v.K {
	case "c":
		if v.N < 0 {
			return "(" + strconv.Itoa(v.N) + ")"
		}
		return strconv.Itoa(v.N)
	case "v":
		return off("v")
	case "a":
		return off("a")
	case "ay":
		return "yv(" + off("a") + ")"
	case "t":
		return off("t")
	case "i":
		if !inFor {
			r.fail("loop index used outside a counted loop")
		}
		return off("i")
	case "ok":
		return "b2i(ok)"
	}
	r.fail("unknown value kind %q", v.K)
	return "0"
}

func c10HasBrk(ss []c10Stmt) bool {
	for _, s := range ss {
		switch s.Op {
		case "brk":
			return true
		case "ifnok":
			if c10HasBrk(s.Body) {
				return true
			}
		case "select":
			for _, c := range s.Cases {
				if c10HasBrk(c.Body) {
					return true
				}
			}
			if c10HasBrk(s.Def) {
				return true
			}
		}
		// for / range / loop bind their own break
	}
	return false
}

func (r *c10Renderer) line(ind int, format string, a ...interface{}) {
	r.b.WriteString(strings.Repeat("\t", ind))
	fmt.Fprintf(&r.b, format, a...)
	r.b.WriteByte('\n')
}

// stmts renders a statement list; label is the label of the innermost enclosing loop ("" = none),
// inFor tells whether a counted loop index i is in scope.
func (r *c10Renderer) stmts(ss []c10Stmt, ind int, label string, inFor bool) {
	for i := range ss {
		r.stmt(&ss[i], ind, label, inFor)
	}
}

func (r *c10Renderer) loopLabel(body []c10Stmt, ind int) string {
	if !c10HasBrk(body) {
		return ""
	}
	r.labels++
	l := fmt.Sprintf("L%d", r.labels)
	r.line(ind-1, "%s:", l)
	return l
}

func (r *c10Renderer) stmt(s *c10Stmt, ind int, label string, inFor bool) {
	r.shapes["op:"+s.Op] = true
	simple := func(format string, a ...interface{}) {
		r.line(ind, "yl()")
		r.line(ind, format, a...)
	}
	switch s.Op {
	case "send":
		simple("c%d <- %s", s.Ch, r.val(s.Val, inFor))
	case "recv":
		r.shapes["recv:"+s.Form] = true
		switch s.Form {
		case "v":
			simple("v = <-c%d", s.Ch)
		case "vok":
			simple("v, ok = <-c%d", s.Ch)
		case "drop":
			simple("<-c%d", s.Ch)
		default:
			r.fail("unknown receive form %q", s.Form)
		}
	case "close":
		simple("close(c%d)", s.Ch)
	case "log":
		r.line(ind, "lg(%s)", r.val(s.Val, inFor))
	case "lock":
		simple("mu%d.Lock()", s.Mu)
	case "unlock":
		simple("mu%d.Unlock()", s.Mu)
	case "wgadd":
		simple("wg%d.Add(%d)", s.Wg, s.N)
	case "wgdone":
		simple("wg%d.Done()", s.Wg)
	case "wgwait":
		simple("wg%d.Wait()", s.Wg)
	case "ld":
		simple("t = x%d", s.Var)
	case "st":
		simple("x%d = %s", s.Var, r.val(s.Val, inFor))
	case "inc":
		simple("x%d++", s.Var)
	case "go":
		r.goStmt(s, ind, inFor)
	case "for":
		l := r.loopLabel(s.Body, ind)
		r.line(ind, "for i := 0; i < %d; i++ {", s.N)
		r.stmts(s.Body, ind+1, l, true)
		r.line(ind, "}")
	case "range":
		l := r.loopLabel(s.Body, ind)
		r.line(ind, "for v = range c%d {", s.Ch)
		r.stmts(s.Body, ind+1, l, inFor)
		r.line(ind, "}")
	case "loop":
		l := r.loopLabel(s.Body, ind)
		if l == "" {
			r.fail("endless loop without break")
		}
		r.line(ind, "for {")
		r.stmts(s.Body, ind+1, l, inFor)
		r.line(ind, "}")
	case "ifnok":
		r.line(ind, "if !ok {")
		r.stmts(s.Body, ind+1, label, inFor)
		r.line(ind, "}")
	case "brk":
		if label == "" {
			r.fail("break outside a loop")
		}
		r.line(ind, "break %s", label)
	case "select":
		r.line(ind, "yl()")
		r.line(ind, "select {")
		for i := range s.Cases {
			c := &s.Cases[i]
			r.shapes["case:"+c.Dir+":"+c.Form] = true
			if c.Dir == "send" && c.Form == "bya" {
				// the goroutines started by one go statement share this text: the channel is
				// chosen by the goroutine's argument (the model guarantees channel == argument)
				r.line(ind, "case cx[a] <- %s:", r.val(&c.Val, inFor))
			} else if c.Dir == "send" {
				r.line(ind, "case c%d <- %s:", c.Ch, r.val(&c.Val, inFor))
			} else {
				switch c.Form {
				case "v":
					r.line(ind, "case v = <-c%d:", c.Ch)
				case "vok":
					r.line(ind, "case v, ok = <-c%d:", c.Ch)
				case "vdef":
					r.line(ind, "case w := <-c%d:", c.Ch)
					r.line(ind+1, "v = w")
				case "vokdef":
					r.line(ind, "case w, wok := <-c%d:", c.Ch)
					r.line(ind+1, "v, ok = w, wok")
				case "drop":
					r.line(ind, "case <-c%d:", c.Ch)
				default:
					r.fail("unknown case form %q", c.Form)
				}
			}
			r.stmts(c.Body, ind+1, label, inFor)
		}
		if s.Hasdef {
			r.shapes["case:default"] = true
			r.line(ind, "default:")
			r.stmts(s.Def, ind+1, label, inFor)
		}
		r.line(ind, "}")
	default:
		r.fail("unknown statement %q", s.Op)
	}
}

// regsDecl declares the registers of one goroutine.
func (r *c10Renderer) regsDecl(ind int) {
	r.line(ind, "var v, t int")
	r.line(ind, "var ok bool")
	r.line(ind, "_, _, _, _ = v, t, ok, a")
}

// defers are written in source order at the top of the body (they run last-in first-out).
func (r *c10Renderer) defers(ds []c10Stmt, ind int) {
	for i := range ds {
		d := &ds[i]
		r.shapes["defer:"+d.Op] = true
		switch d.Op {
		case "wgdone":
			r.line(ind, "defer wg%d.Done()", d.Wg)
		case "unlock":
			r.line(ind, "defer mu%d.Unlock()", d.Mu)
		case "close":
			r.line(ind, "defer close(c%d)", d.Ch)
		case "log":
			r.line(ind, "defer lg(%s)", r.val(d.Val, false))
		default:
			r.fail("statement %q cannot be deferred", d.Op)
		}
	}
}

func (r *c10Renderer) goStmt(s *c10Stmt, ind int, inFor bool) {
	if s.Proc < 2 || s.Proc > len(r.p.Procs) {
		r.fail("go statement names goroutine %d", s.Proc)
		return
	}
	if s.Pstep != 0 && !inFor {
		r.fail("indexed go statement outside a counted loop")
	}
	pr := &r.p.Procs[s.Proc-1]
	if pr.Leaky {
		r.shapes["go:leaky"] = true
	} else {
		r.line(ind, "hw.Add(1)")
	}
	r.line(ind, "yl()")
	r.line(ind, "go func(a int) {")
	if !pr.Leaky {
		r.line(ind+1, "defer hw.Done()")
	}
	r.line(ind+1, "defer func() {")
	r.line(ind+2, "if r := recover(); r != nil {")
	r.line(ind+3, "lg(0 - pcode(r))")
	r.line(ind+2, "}")
	r.line(ind+1, "}()")
	r.regsDecl(ind + 1)
	r.defers(pr.Defers, ind+1)
	r.stmts(pr.Body, ind+1, "", false)
	r.line(ind, "}(%s)", r.val(s.Arg, inFor))
}

// c10Render returns the declaration of the entry function  <name>() []int  whose result is
// [panic class of the entry, number of shared variables, their final values..., the log...].
func c10Render(p *c10Prog, name string) (src string, shapes map[string]bool, err error) {
	r := &c10Renderer{p: p, shapes: map[string]bool{}}
	r.line(0, "func %s() []int {", name)
	for i, k := range p.Caps {
		if k < 0 {
			r.shapes["chan:nil"] = true
			r.line(1, "var c%d chan int", i+1)
		} else {
			r.line(1, "c%d := make(chan int, %d)", i+1, k)
		}
		r.line(1, "_ = c%d", i+1)
	}
	cx := "cx := []chan int{nil"
	for i := range p.Caps {
		cx += fmt.Sprintf(", c%d", i+1)
	}
	r.line(1, cx+"}")
	r.line(1, "_ = cx")
	for i := 1; i <= p.Nmu; i++ {
		r.line(1, "var mu%d sync.Mutex", i)
	}
	for i := 1; i <= p.Nwg; i++ {
		r.line(1, "var wg%d sync.WaitGroup", i)
	}
	xs := ""
	for i := 1; i <= p.Nvar; i++ {
		r.line(1, "x%d := 0", i)
		xs += fmt.Sprintf(", x%d", i)
	}
	r.line(1, "var hw sync.WaitGroup")
	r.line(1, "pan := 0")
	r.line(1, "func() {")
	r.line(2, "defer func() {")
	r.line(3, "if r := recover(); r != nil {")
	r.line(4, "pan = pcode(r)")
	r.line(3, "}")
	r.line(2, "}()")
	r.line(2, "a := 0")
	r.regsDecl(2)
	if len(p.Procs) == 0 {
		return "", nil, fmt.Errorf("program without entry")
	}
	r.defers(p.Procs[0].Defers, 2)
	r.stmts(p.Procs[0].Body, 2, "", false)
	r.line(1, "}()")
	r.line(1, "hw.Wait()")
	r.line(1, "return fin(pan%s)", xs)
	r.line(0, "}")
	return r.b.String(), r.shapes, r.err
}

// c10Canon is the canonical text of an outcome: panic class, shared variables, log.
func c10Canon(pan int, xs []int, log []int) string {
	all := append([]int{pan, len(xs)}, xs...)
	all = append(all, log...)
	return c10Ints(all)
}

func c10Ints(v []int) string {
	parts := make([]string, len(v))
	for i, x := range v {
		parts[i] = strconv.Itoa(x)
	}
	return strings.Join(parts, ",")
}

// native definitions of the helpers that the child process injects as compiled functions
const c10NativeHelpers = `
var lgmu sync.Mutex
var lglog []int
var lgctr int

func yl() {
	lgmu.Lock()
	lgctr++
	y := lgctr%3 == 0
	lgmu.Unlock()
	if y {
		runtime.Gosched()
	}
}

func lg(v int) {
	yl()
	lgmu.Lock()
	lglog = append(lglog, v)
	lgmu.Unlock()
}

func yv(v int) int {
	runtime.Gosched()
	return v
}

func b2i(b bool) int {
	if b {
		return 1
	}
	return 0
}

func pcode(r interface{}) int {
	msg := fmt.Sprint(r)
	switch {
	case strings.Contains(msg, "send on closed channel"):
		return 1
	case strings.Contains(msg, "close of closed channel"):
		return 2
	case strings.Contains(msg, "close of nil channel"):
		return 3
	}
	return 9
}

func fin(vals ...int) []int {
	lgmu.Lock()
	defer lgmu.Unlock()
	out := append([]int{vals[0], len(vals) - 1}, vals[1:]...)
	out = append(out, lglog...)
	lglog = nil
	return out
}

func c10many(f func() []int, n int) string {
	var sb strings.Builder
	for k := 0; k < n; k++ {
		if k%2 == 1 {
			runtime.GOMAXPROCS(1 + k%5)
		}
		r := f()
		for j, x := range r {
			if j > 0 {
				sb.WriteByte(',')
			}
			sb.WriteString(strconv.Itoa(x))
		}
		sb.WriteByte('|')
	}
	return sb.String()
}
`

package props

import (
	"encoding/json"
	"fmt"
	"hash/fnv"
	"os"
	"regexp"
	"sort"
	"strings"
	"sync"
	"sync/atomic"
	"time"

	"github.com/cosmos72/gomacro/fast"

	"verif/harness/core"
	"verif/harness/gate"
	"verif/harness/gm"
)

// C09: methods, embedding, interfaces, type assertions and type switches.
// Spec: spec/sem/Selector.tla. A TLC state is one hierarchy of named struct types; the spec
// computes for it every site (selector through a variable / pointer / non-addressable value,
// method value with and without a mutation between binding and call, method expression T.m and
// (*T).m, call through an interpreted or standard interface, assertion to a concrete type,
// type switch) with the outcome Go prescribes: value + event log, compile-error class, panic.
// (M) TLC checks the rules against each other (declarative Find vs level-by-level search,
//     method sets through selectors vs the inductive rule of the Go spec, ...).
// (G) seeded hierarchies are compiled natively: values and events of all their sites must
//     equal the record, every sampled compile-error site must be rejected by go build with an
//     error of the expected class. Every disagreement of gomacro that is reported is compiled
//     natively first.
// (R) every site of every hierarchy is compiled and run separately on the fast interpreter
//     (compile phase and run phase are told apart); a share of the hierarchies is additionally
//     run REPL-staged: one method is declared only after every site was evaluated once
//     (stale lookup caches), expectations being those of the final declarations.

func init() {
	core.Register(&core.Prop{
		ID: "C09",
		Rule: "TLC generates hierarchies of <= 4 named struct types (own fields, value/pointer-receiver methods, embedding by value and by pointer, names shadowed at different and equal depths, fields named like methods) by adding one member per step (BFS bounded-exhaustive + seeded simulation) and type-switch clause lists; " +
			"a case is one site of one hierarchy (selector via variable/pointer/rvalue, method value, method value with mutation, method expression, interface call incl. fmt.Stringer/error and an error used by compiled code, assertion to concrete type in both forms, type switch) evaluated on the interpreter; " +
			"non-trivial = the hierarchy has at least one embedded field or method; distinct by hierarchy + site + rendering",
		Run:      runC09,
		Replay:   replayC09,
		SelfTest: selfTestC09,
	})
}

const c09Workers = 12

var c09Serial int64

// ---------------------------------------------------------------------------
// running on gomacro

type c09Obs struct {
	Phase  string   `json:"phase"` // compile-error | panic | ok
	Events []string `json:"events"`
	Result string   `json:"result"`
}

func c09NewInterp() *gm.Interp {
	g := gm.New()
	for _, im := range []string{"fmt", "os"} {
		g.Eval(fmt.Sprintf("import %q", im))
	}
	return g
}

// c09Eval compiles and runs one expression, telling the two phases apart.
func c09Eval(g *gm.Interp, src string) (o c09Obs) {
	g.ResetEvents()
	g.Out.Reset()
	var e *fast.Expr
	func() {
		defer func() {
			if r := recover(); r != nil {
				o.Phase = "compile-error"
				o.Result = "compile-error(" + clip(fmt.Sprint(r), 200) + ")"
			}
		}()
		e = g.Ir.Compile(src)
	}()
	if o.Phase != "" {
		o.Events = []string{}
		return
	}
	func() {
		defer func() {
			if r := recover(); r != nil {
				o.Phase = "panic"
				o.Result = "panic(" + clip(fmt.Sprint(r), 200) + ")"
			}
		}()
		vs, _ := g.Ir.RunExpr(e)
		parts := make([]string, len(vs))
		for i, v := range vs {
			parts[i] = gm.ShowValue(v)
		}
		o.Phase = "ok"
		o.Result = "[" + strings.Join(parts, ", ") + "]"
	}()
	o.Events = append([]string{}, g.Events...)
	return
}

// c09Mute silences os.Stdout while interpreted code is compiled: xreflect.MissingMethod prints
// a leftover debug line ("MissingMethod: comparing ...") straight to the process's stdout.
func c09Mute() (restore func()) {
	null, err := os.OpenFile(os.DevNull, os.O_WRONLY, 0)
	if err != nil {
		return func() {}
	}
	save := os.Stdout
	os.Stdout = null
	return func() { os.Stdout = save; null.Close() }
}

func clip(s string, n int) string {
	s = strings.ReplaceAll(s, "\n", " ")
	if len(s) > n {
		return s[:n] + "..."
	}
	return s
}

type c09Item struct {
	site    *c09Site
	idx     int  // index in rec.Sites
	derived bool // std rendering of rec.Sites[idx] through compiled code
}

func c09Items(r *c09Rend) []c09Item {
	var items []c09Item
	for i := range r.rec.Sites {
		s := &r.rec.Sites[i]
		items = append(items, c09Item{site: s, idx: i})
		if d := r.derived(s); d != nil {
			items = append(items, c09Item{site: d, idx: i, derived: true})
		}
	}
	return items
}

// c09RunHier declares the hierarchy in g (REPL style, staged if the mode says so) and evaluates
// the given items; declErr != "" if a declaration was rejected.
func c09RunHier(g *gm.Interp, r *c09Rend, warm, items []c09Item) (obs []c09Obs, declErr string) {
	var staged *c09Decl
	decls := r.decls()
	for i := range decls {
		d := &decls[i]
		if r.mode.StageT >= 0 && d.N == r.mode.StageN && d.T == r.mode.StageT {
			staged = d
			continue
		}
		if res := g.Eval(d.Src); res.Panicked {
			return nil, d.Src + " => " + clip(res.Panic, 300)
		}
	}
	if staged != nil {
		// warm every lookup cache with the hierarchy lacking the method, then add it
		for _, it := range warm {
			if it.site.Lim == "" {
				src, _ := r.site(it.site)
				c09Eval(g, src)
			}
		}
		if res := g.Eval(staged.Src); res.Panicked {
			return nil, staged.Src + " => " + clip(res.Panic, 300)
		}
	}
	obs = make([]c09Obs, len(items))
	for k, it := range items {
		if it.site.Lim != "" {
			continue
		}
		src, _ := r.site(it.site)
		obs[k] = c09Eval(g, src)
	}
	return obs, ""
}

// c09Judge compares an observation with the record's expectation; "" = conforms, otherwise
// the shape of the disagreement.
func c09Judge(r *c09Rend, s *c09Site, o c09Obs) string {
	switch s.X.K {
	case "cerr":
		if o.Phase == "compile-error" {
			return ""
		}
		return "accepted-but-go-rejects"
	case "panic":
		switch o.Phase {
		case "panic":
			return ""
		case "compile-error":
			return "rejected-but-go-accepts"
		}
		return "tag-differs"
	}
	switch o.Phase {
	case "compile-error":
		return "rejected-but-go-accepts"
	case "panic":
		return "panics"
	}
	wantEv, wantRes := r.want(s)
	if o.Result != wantRes || len(o.Events) != len(wantEv) {
		return "tag-differs"
	}
	for i := range wantEv {
		if wantEv[i] != o.Events[i] {
			return "tag-differs"
		}
	}
	return ""
}

func c09Shape(s *c09Site) string {
	var str string
	if json.Unmarshal(s.Sh, &str) == nil {
		return str
	}
	var o struct {
		What string `json:"what"`
		How  string `json:"how"`
	}
	json.Unmarshal(s.Sh, &o)
	if o.How == "" {
		return o.What
	}
	return o.What + "/" + o.How
}

// c09Kind names the site kind; std = the std rendering, where a one-method interface is the
// compiled fmt.Stringer / error instead of an interpreted interface.
func c09Kind(s *c09Site, std bool) string {
	ifc := func(names []string) string {
		switch {
		case len(names) == 0:
			return ""
		case std && len(names) == 1:
			return "-std-interface"
		}
		return "-interface"
	}
	k := s.K
	switch s.K {
	case "sel":
		k += "-" + s.Via
	case "mval":
		k += "-" + s.Via
		if s.Mut {
			k += "-mutated"
		}
	case "mexpr":
		if s.Star {
			k += "-ptr"
		}
	case "iface":
		k = "call" + ifc(s.Ifc)
		if s.Dptr {
			k += "-holding-ptr"
		} else {
			k += "-holding-val"
		}
	case "iface-compiled":
		k = "compiled-call-std-interface"
		if s.Dptr {
			k += "-holding-ptr"
		} else {
			k += "-holding-val"
		}
	case "assert":
		k += "-" + s.Form
		if len(s.St) > 0 {
			k += "-from" + ifc(s.St)
		}
	case "tswitch":
		if s.Bind {
			k += "-bind"
		}
		if len(s.St) > 0 {
			k += "-on" + ifc(s.St)
		}
	}
	return k
}

// c09Sig: sel(<site kind>,<embedding shape>):<disagreement>.
// Disagreements that appear only after a method was declared late (the site agrees when
// everything is declared up front) have one cause, whatever the site kind:
// stale(<shape of the final lookup>):<disagreement>.
func c09Sig(s *c09Site, dis string, stale, std bool) string {
	shape := c09Shape(s)
	// "+shadowed-ambiguity" (a fields-only or methods-only lookup of the name would be ambiguous)
	// is part of the signature only where it can be the cause: a legal selector is rejected
	if dis != "rejected-but-go-accepts" || stale {
		shape = strings.TrimSuffix(shape, "+shadowed-ambiguity")
	}
	if stale {
		if k := strings.IndexByte(shape, '/'); k >= 0 {
			shape = shape[:k]
		}
		return fmt.Sprintf("stale(%s):%s", shape, dis)
	}
	return fmt.Sprintf("sel(%s,%s):%s", c09Kind(s, std), shape, dis)
}

// ---------------------------------------------------------------------------
// collection

type c09Mism struct {
	Rec   *c09Rec  `json:"record"` // slim: only the one site
	Mode  c09Mode  `json:"mode"`
	Deriv bool     `json:"derived"`
	Obs   c09Obs   `json:"observed"`
	Sig   string   `json:"signature"`
	Dis   string   `json:"disagreement"`
	Stale bool     `json:"stale"`
	Decl  string   `json:"decl_error,omitempty"`
	// the scenario: record.sites[0] is the site; the next NWarm sites were evaluated before the
	// staged method was declared, the NPre sites after them before the site (same interpreter)
	NWarm int      `json:"n_warm"`
	NPre  int      `json:"n_pre"`
	site  *c09Site // the (possibly derived) site
}

type c09Bucket struct {
	count int
	ex    []*c09Mism
}

type c09Sampled struct {
	rec  *c09Rec
	mode c09Mode
}

type c09State struct {
	c        *core.Ctx
	mu       sync.Mutex
	seen     map[string]bool
	buckets  map[string]*c09Bucket
	sampled  []*c09Sampled
	gateMod  uint64
	covered  map[string]bool // (site kind, outcome) pairs offered by the gate sample
	stageMod uint64
	nHier    int64
	nStaged  int64
	nLim     int64
	nSites   int64
	kinds    map[string]int64
	firstErr error
}

func c09Hash(s string, seed int64) uint64 {
	h := fnv.New64a()
	fmt.Fprintf(h, "%d|%s", seed, s)
	return h.Sum64()
}

func (rec *c09Rec) slim(idx int) *c09Rec {
	out := *rec
	out.Sites = []c09Site{rec.Sites[idx]}
	return &out
}

func (rec *c09Rec) slimDecl() *c09Rec {
	out := *rec
	out.Sites = nil
	return &out
}

type c09Worker struct {
	g    *gm.Interp
	used int
}

func (w *c09Worker) interp() *gm.Interp {
	if w.g == nil || w.used >= 20 {
		w.g = c09NewInterp()
		w.used = 0
	}
	w.used++
	return w.g
}

const c09Exemplars = 2

func (st *c09State) record(sig string, mk func() *c09Mism) {
	st.mu.Lock()
	b := st.buckets[sig]
	if b == nil {
		b = &c09Bucket{}
		st.buckets[sig] = b
	}
	b.count++
	keep := len(b.ex) < c09Exemplars
	if keep {
		b.ex = append(b.ex, nil)
	}
	k := len(b.ex) - 1
	st.mu.Unlock()
	if keep {
		m := mk()
		m.Sig = sig
		st.mu.Lock()
		b.ex[k] = m
		st.mu.Unlock()
	}
}

func (st *c09State) process(w *c09Worker, rec *c09Rec) {
	c := st.c
	key := rec.key()
	h := c09Hash(key, c.Seed)
	mode := c09Mode{Std: h%3 == 0, EmbFirst: (h>>4)&1 == 1, StageT: -1}
	nontrivial := rec.nontrivial()
	run := func(mode c09Mode, skip map[int]bool, stale bool) map[int]bool {
		mode.Sfx = fmt.Sprintf("_%d", atomic.AddInt64(&c09Serial, 1))
		r := c09NewRend(rec, mode)
		items := c09Items(r)
		obs, declErr := c09RunHier(w.interp(), r, items, items)
		if declErr != "" {
			w.g = nil
			st.record("sel(declaration,hierarchy):rejected-but-go-accepts", func() *c09Mism {
				return &c09Mism{Rec: rec.slimDecl(), Mode: mode, Dis: "rejected-but-go-accepts", Decl: declErr, Stale: stale}
			})
			return nil
		}
		bad := map[int]bool{}
		kinds := map[string]int64{}
		var nlim, nsites int64
		for k, it := range items {
			if it.site.Lim != "" {
				nlim++
				continue
			}
			nsites++
			kinds[it.site.K+"/"+it.site.X.K]++
			id := k
			c.Case(fmt.Sprintf("%s#%d#%v%v%v", key, k, mode.Std, mode.EmbFirst, stale), nontrivial)
			dis := c09Judge(r, it.site, obs[k])
			if dis == "" {
				continue
			}
			bad[id] = true
			if skip[id] {
				continue
			}
			it, ob := it, obs[k]
			st.record(c09Sig(it.site, dis, stale, mode.Std), func() *c09Mism {
				slim := rec.slim(it.idx)
				if it.derived {
					slim.Sites[0] = *it.site
				}
				m := &c09Mism{Rec: slim, Mode: mode, Deriv: it.derived, Obs: ob, Dis: dis, Stale: stale}
				// the scenario: what was evaluated in this interpreter before the site
				if stale {
					m.NWarm = len(rec.Sites)
					slim.Sites = append(slim.Sites, rec.Sites...)
				} else {
					m.NPre = it.idx
					if it.derived {
						m.NPre++
					}
					slim.Sites = append(slim.Sites, rec.Sites[:m.NPre]...)
				}
				m.site = &slim.Sites[0]
				return m
			})
		}
		st.mu.Lock()
		st.nLim += nlim
		st.nSites += nsites
		for k, v := range kinds {
			st.kinds[k] += v
		}
		st.mu.Unlock()
		c.Trace()
		return bad
	}
	bad := run(mode, nil, false)
	atomic.AddInt64(&st.nHier, 1)
	// REPL staging: withhold one method, evaluate everything, declare it, evaluate again
	if bad != nil && (h>>8)%st.stageMod == 0 {
		type tm struct {
			t int
			n string
		}
		var ms []tm
		for u, t := range rec.Types {
			for _, n := range c09MethSeq {
				if t.M[n] == "v" || t.M[n] == "p" {
					ms = append(ms, tm{u, n})
				}
			}
		}
		if len(ms) > 0 {
			pick := ms[(h>>16)%uint64(len(ms))]
			smode := mode
			smode.StageT, smode.StageN = pick.t, pick.n
			run(smode, bad, true)
			atomic.AddInt64(&st.nStaged, 1)
		}
	}
	// the Go gate's sample: a seeded share of the hierarchies, plus the first hierarchy that
	// offers a (site kind, outcome) pair the sample does not cover yet
	pick := (h>>24)%st.gateMod == 0
	rk := map[string]bool{}
	for _, it := range c09Items(c09NewRend(rec, mode)) {
		rk[it.site.K+"/"+it.site.X.K] = true
	}
	st.mu.Lock()
	for k := range rk {
		if !st.covered[k] {
			pick = true
		}
	}
	if pick {
		for k := range rk {
			st.covered[k] = true
		}
		st.sampled = append(st.sampled, &c09Sampled{rec: rec, mode: mode})
	}
	st.mu.Unlock()
}

// collect runs one TLC configuration and replays every distinct hierarchy while TLC is running.
func (st *c09State) collect(o core.TLCOpts, keep func(key string) bool) error {
	defer c09Mute()()
	jobs := make(chan *c09Rec, 64)
	var wg sync.WaitGroup
	for k := 0; k < c09Workers; k++ {
		wg.Add(1)
		go func() {
			defer wg.Done()
			w := &c09Worker{}
			for rec := range jobs {
				func() {
					defer func() {
						if r := recover(); r != nil {
							st.mu.Lock()
							if st.firstErr == nil {
								st.firstErr = core.Infra("harness panic while replaying a hierarchy: %v", r)
							}
							st.mu.Unlock()
							w.g = nil
						}
					}()
					st.process(w, rec)
				}()
			}
		}()
	}
	var perr error
	o.OnLine = func(line []byte) {
		rec := &c09Rec{}
		if err := json.Unmarshal(line, rec); err != nil {
			perr = core.Infra("bad record: %v", err)
			return
		}
		key := rec.key()
		st.mu.Lock()
		dup := st.seen[key]
		st.seen[key] = true
		st.mu.Unlock()
		if dup || (keep != nil && !keep(key)) {
			return
		}
		jobs <- rec
	}
	_, err := st.c.TLC(o)
	close(jobs)
	wg.Wait()
	if err != nil {
		return err
	}
	if perr != nil {
		return perr
	}
	return st.firstErr
}

// ---------------------------------------------------------------------------
// the Go gate

var c09CerrClass = map[string]*regexp.Regexp{
	"missing":    regexp.MustCompile(`undefined \(type .* has no (field or )?method`),
	"ambiguous":  regexp.MustCompile(`ambiguous selector`),
	"ptrmethod":  regexp.MustCompile(`cannot call pointer method|needs pointer receiver`),
	"notimpl":    regexp.MustCompile(`does not implement`),
	"impossible": regexp.MustCompile(`impossible type assertion`),
}

// c09GateSite: does compiled Go behave as the record says at this site?
func c09GateOK(r *c09Rend, s *c09Site, events []string, result string) bool {
	if s.X.K == "panic" {
		return result == "panic"
	}
	wantEv, wantRes := r.want(s)
	if result != wantRes || len(events) != len(wantEv) {
		return false
	}
	for i := range wantEv {
		if wantEv[i] != events[i] {
			return false
		}
	}
	return true
}

type c09GateJob struct {
	r     *c09Rend
	sites []*c09Site // main: all non-cerr; cerr: exactly one
	cerr  bool
	ok    []bool
	built bool // the native program compiled
}

func c09RunGate(c *core.Ctx, jobs []*c09GateJob) error {
	progs := make([]gate.Prog, len(jobs))
	for i, j := range jobs {
		if j.cerr {
			progs[i] = j.r.gateCerr(j.sites[0])
		} else {
			progs[i] = j.r.gateMain(j.sites)
		}
	}
	outs, err := gate.Run(c.Verif, progs)
	if err != nil {
		return core.Infra("go gate: %v", err)
	}
	for i, j := range jobs {
		j.ok = make([]bool, len(j.sites))
		if j.cerr {
			re := c09CerrClass[j.sites[0].X.Why]
			j.ok[0] = outs[i].CompileError != "" && re != nil && re.MatchString(outs[i].CompileError)
			continue
		}
		if outs[i].CompileError != "" {
			continue // every site of the program counts as rejected
		}
		j.built = true
		evs, res, ok := c09ParseGate(outs[i], len(j.sites))
		if !ok {
			continue
		}
		for k, s := range j.sites {
			j.ok[k] = c09GateOK(j.r, s, evs[k], res[k])
		}
	}
	return nil
}

func (st *c09State) gateSamples(cerrPer int) error {
	c := st.c
	var jobs []*c09GateJob
	for _, sm := range st.sampled {
		mode := sm.mode
		mode.Sfx = "_g"
		mode.StageT = -1
		r := c09NewRend(sm.rec, mode)
		main := &c09GateJob{r: r}
		var cerrs []*c09Site
		for _, it := range c09Items(r) {
			if it.site.X.K == "cerr" {
				cerrs = append(cerrs, it.site)
			} else {
				main.sites = append(main.sites, it.site)
			}
		}
		jobs = append(jobs, main)
		// compile-error sites: a seeded choice covering the (kind, class) pairs first
		h := c09Hash(sm.rec.key(), c.Seed)
		sort.SliceStable(cerrs, func(a, b int) bool {
			return c09Hash(fmt.Sprint(a, cerrs[a].K, cerrs[a].X.Why), int64(h)) < c09Hash(fmt.Sprint(b, cerrs[b].K, cerrs[b].X.Why), int64(h))
		})
		seenClass := map[string]bool{}
		var rest []*c09Site
		n := 0
		for _, s := range cerrs {
			cl := c09Kind(s, mode.Std) + s.X.Why
			if !seenClass[cl] && n < cerrPer {
				seenClass[cl] = true
				jobs = append(jobs, &c09GateJob{r: r, sites: []*c09Site{s}, cerr: true})
				n++
			} else {
				rest = append(rest, s)
			}
		}
		for _, s := range rest {
			if n >= cerrPer {
				break
			}
			jobs = append(jobs, &c09GateJob{r: r, sites: []*c09Site{s}, cerr: true})
			n++
		}
	}
	if err := c09RunGate(c, jobs); err != nil {
		return err
	}
	shown := 0
	cover := map[string]int{}
	for _, j := range jobs {
		for k, s := range j.sites {
			c.Gate(j.ok[k])
			cover[s.K+"/"+s.X.K]++
			if !j.ok[k] && shown < 3 {
				shown++
				src, _ := j.r.site(s)
				fmt.Printf("GATE-REJECT property=%s (specification disagrees with compiled Go; site dropped): kind=%s expected=%+v\n  declarations:\n    %s\n  site: %s\n",
					c.ID, c09Kind(s, j.r.mode.Std), s.X, strings.ReplaceAll(j.r.declText(), "\n", "\n    "), src)
			}
		}
	}
	c.Extra["gated_sites_by_kind"] = cover
	return nil
}

// ---------------------------------------------------------------------------
// verdicts

func (m *c09Mism) what(r *c09Rend) string {
	if m.site == nil {
		return "a declaration of a legal hierarchy is rejected: " + m.Decl
	}
	src, _ := r.site(m.site)
	exp := ""
	switch m.site.X.K {
	case "cerr":
		exp = "compile error (" + m.site.X.Why + ")"
	case "panic":
		exp = "run-time panic"
	default:
		ev, res := r.want(m.site)
		exp = fmt.Sprintf("%s events %v", res, ev)
	}
	stage := ""
	if m.Mode.StageT >= 0 {
		stage = fmt.Sprintf("\n(REPL order: method %s of T%d is declared last, after %d sites of the hierarchy were evaluated; then the site is evaluated)", m.Mode.StageN, m.Mode.StageT, m.NWarm)
	}
	if m.NPre > 0 {
		stage += fmt.Sprintf("\n(history-dependent: reproduced only after evaluating the %d preceding sites of the hierarchy in the same interpreter; alone the site agrees)", m.NPre)
	}
	return fmt.Sprintf("compiled Go: %s; gomacro: %s %s events %v%s\ndeclarations:\n%ssite: %s", exp, m.Obs.Phase, m.Obs.Result, m.Obs.Events, stage, r.declText(), src)
}

// confirm re-runs the mismatching site alone in a fresh interpreter.
func (m *c09Mism) confirm() (bool, c09Obs) {
	defer c09Mute()()
	mode := m.Mode
	mode.Sfx = "_c"
	r := c09NewRend(m.Rec, mode)
	g := c09NewInterp()
	if m.site == nil {
		_, declErr := c09RunHier(g, r, nil, nil)
		return declErr != "", c09Obs{Phase: "compile-error", Result: declErr}
	}
	target := c09Item{site: m.site, idx: 0, derived: m.Deriv}
	// 1. the site alone
	obs, declErr := c09RunHier(g, r, nil, []c09Item{target})
	if declErr != "" {
		return false, c09Obs{Phase: "compile-error", Result: declErr}
	}
	if c09Judge(r, m.site, obs[0]) == m.Dis {
		m.Rec.Sites = m.Rec.Sites[:1]
		m.site = &m.Rec.Sites[0]
		m.NWarm, m.NPre = 0, 0
		m.Obs = obs[0]
		return true, obs[0]
	}
	if m.NWarm+m.NPre == 0 || len(m.Rec.Sites) < 1+m.NWarm+m.NPre {
		return false, obs[0]
	}
	// 2. the whole scenario: lookups are cached, an earlier site may have filled a cache
	sub := func(lo, hi int) []c09Item {
		wr := *m.Rec
		wr.Sites = m.Rec.Sites[lo:hi]
		return c09Items(c09NewRend(&wr, mode))
	}
	warm := sub(1, 1+m.NWarm)
	items := append(sub(1+m.NWarm, 1+m.NWarm+m.NPre), target)
	obs, declErr = c09RunHier(c09NewInterp(), r, warm, items)
	if declErr != "" {
		return false, c09Obs{Phase: "compile-error", Result: declErr}
	}
	last := obs[len(obs)-1]
	if c09Judge(r, m.site, last) == m.Dis {
		m.Obs = last
		return true, last
	}
	return false, last
}

func (st *c09State) verdicts() error {
	c := st.c
	var sigs []string
	for sig := range st.buckets {
		sigs = append(sigs, sig)
	}
	sort.Strings(sigs)
	// native gate of the exemplars
	var jobs []*c09GateJob
	jobOf := map[*c09Mism]*c09GateJob{}
	for _, sig := range sigs {
		for _, m := range st.buckets[sig].ex {
			mode := m.Mode
			mode.Sfx = "_g"
			mode.StageT = -1
			r := c09NewRend(m.Rec, mode)
			j := &c09GateJob{r: r}
			if m.site == nil {
				// declarations only: the program must compile and run
				j.sites = nil
			} else {
				j.sites = []*c09Site{m.site}
				j.cerr = m.site.X.K == "cerr"
			}
			jobs = append(jobs, j)
			jobOf[m] = j
		}
	}
	if err := c09RunGate(c, jobs); err != nil {
		return err
	}
	var firstErr error
	for _, sig := range sigs {
		b := st.buckets[sig]
		gateBad := false
		confirmed := 0
		var witness *c09Mism
		for _, m := range b.ex {
			j := jobOf[m]
			ok := j.built
			if len(j.ok) > 0 {
				ok = j.ok[0]
			}
			c.Gate(ok)
			if !ok {
				gateBad = true
				r := c09NewRend(m.Rec, m.Mode)
				fmt.Printf("GATE-REJECT property=%s (specification disagrees with compiled Go; disagreement dropped) [%s]\n  %s\n", c.ID, sig,
					strings.ReplaceAll(m.what(r), "\n", "\n  "))
				continue
			}
			okc, obs := m.confirm()
			if !okc {
				if firstErr == nil {
					firstErr = core.Infra("disagreement %s not reproducible in a fresh interpreter (observed there: %s %s)", sig, obs.Phase, obs.Result)
				}
				continue
			}
			confirmed++
			if witness == nil {
				witness = m
			}
		}
		if gateBad || witness == nil {
			// the specification is in doubt for this signature: nothing is reported for it
			for k := len(b.ex); k < b.count; k++ {
				c.Gate(false)
			}
			continue
		}
		mode := witness.Mode
		mode.Sfx = ""
		r := c09NewRend(witness.Rec, mode)
		what := witness.what(r)
		if p := os.Getenv("C09_DUMP"); p != "" {
			if f, err := os.OpenFile(p, os.O_APPEND|os.O_CREATE|os.O_WRONLY, 0o644); err == nil {
				fmt.Fprintf(f, "=== %s (%d)\n%s\n", sig, b.count, what)
				f.Close()
			}
		}
		for k := 0; k < b.count; k++ {
			c.Violation(sig, what, witness)
		}
	}
	c.Extra["disagreement_signatures"] = len(sigs)
	return firstErr
}

// ---------------------------------------------------------------------------
// TLC configurations

const c09Invariants = "TypeOK DerivedOK LookupFunctional ShallowestWins MethodSetsAgree ValueInPointer PtrRecvNotInValueSet ImplementsIsInclusion AddressableCalls MonotoneEmbedding SwitchFirstMatch"

const c09AllKinds = `{"sel","mval","mexpr","iface","assert","aiface","tswitch"}`

type c09Cfg struct {
	name               string
	nt                 int
	fields             string
	maxSize, maxClause int
	emitFrom           int
	assertAll          bool
	kinds              string
	broken             string
	emit               bool
	inv                string // invariants to check ("" = all)
}

func (k c09Cfg) opts() core.TLCOpts {
	broken := k.broken
	if broken == "" {
		broken = "none"
	}
	b := func(x bool) string {
		if x {
			return "TRUE"
		}
		return "FALSE"
	}
	emit := ""
	if k.emit {
		emit = " Emit"
	}
	inv := k.inv
	if inv == "" {
		inv = c09Invariants
	}
	return core.TLCOpts{Spec: "Selector", CfgName: k.name,
		MCDefs: fmt.Sprintf("c_F == %s\nc_M == <<\"M\", \"N\">>\nc_K == %s", k.fields, k.kinds),
		Cfg: fmt.Sprintf("SPECIFICATION Spec\nCONSTANTS\n NT = %d\n FieldSeq <- c_F\n MethSeq <- c_M\n MaxFields = 2\n MaxSize = %d\n MaxClauses = %d\n Broken = %q\n EmitOn = %s\n EmitFrom = %d\n AssertAll = %s\n Kinds <- c_K\nINVARIANTS %s%s\n",
			k.nt, k.maxSize, k.maxClause, broken, b(k.emit), k.emitFrom, b(k.assertAll), inv, emit),
		Workers: 6, Timeout: 40 * time.Minute}
}

const c09AB = `<<"A", "B">>`
const c09AM = `<<"A", "M">>`

func runC09(c *core.Ctx) error {
	st := &c09State{c: c, seen: map[string]bool{}, buckets: map[string]*c09Bucket{}, kinds: map[string]int64{},
		gateMod: uint64(c.Pick(50, 60)), stageMod: 3, covered: map[string]bool{}}
	t0 := time.Now()
	stride := func(n uint64) func(string) bool {
		return func(key string) bool { return n <= 1 || c09Hash(key, c.Seed+1000)%n == 0 }
	}
	// (M)+(R) bounded-exhaustive: every hierarchy within the size bound
	bfs := []c09Cfg{
		{name: "bfs-2types-AB", nt: 2, fields: c09AB, maxSize: c.Pick(3, 4), assertAll: true, kinds: c09AllKinds, emit: true},
		{name: "bfs-clauses", nt: 2, fields: c09AB, maxSize: c.Pick(0, 1), maxClause: 2, assertAll: true, kinds: `{"tswitch"}`, emit: true},
	}
	if c.Thorough() {
		bfs = append(bfs,
			c09Cfg{name: "bfs-2types-AM", nt: 2, fields: c09AM, maxSize: 3, assertAll: true, kinds: c09AllKinds, emit: true},
			c09Cfg{name: "bfs-3types-AB", nt: 3, fields: c09AB, maxSize: 3, assertAll: true, kinds: c09AllKinds, emit: true})
	}
	only := os.Getenv("C09_ONLY") // development aid: comma-separated configuration names
	skip := func(name string) bool { return only != "" && !strings.Contains(","+only+",", ","+name+",") }
	for _, k := range bfs {
		if skip(k.name) {
			continue
		}
		if err := st.collect(k.opts(), nil); err != nil {
			return err
		}
	}
	c.Exhaustive = false
	// (R) seeded simulation: larger hierarchies, deeper embedding, fields named like methods.
	// The rules' own invariants are checked by the BFS runs; the simulations only emit.
	sims := []c09Cfg{
		{name: "sim-4types-AM", nt: 4, fields: c09AM, maxSize: 10, emitFrom: 5, kinds: c09AllKinds, emit: true, inv: "TypeOK"},
		{name: "sim-4types-AB", nt: 4, fields: c09AB, maxSize: 11, emitFrom: 5, kinds: c09AllKinds, emit: true, inv: "TypeOK"},
	}
	if c.Thorough() {
		sims = append(sims, c09Cfg{name: "sim-3types-AM", nt: 3, fields: c09AM, maxSize: 9, emitFrom: 4, assertAll: true, kinds: c09AllKinds, emit: true, inv: "TypeOK"})
	}
	for _, k := range sims {
		if skip(k.name) {
			continue
		}
		o := k.opts()
		o.Simulate = true
		o.SimNum = c.Pick(1, 2)
		if k.nt == 3 {
			o.SimNum = 1
		}
		o.SimDepth = k.maxSize + 1
		o.Seed = c.Seed
		if err := st.collect(o, stride(uint64(c.Pick(2, 1)))); err != nil {
			return err
		}
	}
	c.Extra["replay_s"] = time.Since(t0).Seconds()
	c.Extra["hierarchies"] = st.nHier
	c.Extra["hierarchies_staged"] = st.nStaged
	c.Extra["sites_replayed"] = st.nSites
	c.Extra["sites_by_kind_and_outcome"] = st.kinds
	c.Extra["sites_excluded_documented_limitation"] = st.nLim
	c.Assume("method names are M and N (rendered String / Error in the std rendering); embedding graphs are acyclic (recursive types are a documented weak spot of gomacro)")
	c.Assume("excluded as documented limitations (doc/features-and-limitations.md): interface -> interface assertions and type-switch cases on interpreted types/interfaces (generated and gated, not replayed); interpreted named types handed to reflection-based compiled code (fmt.Sprint etc.); the compiled-code use of an interpreted error goes through os.PathError.Error()")
	c.Assume("a run-time panic expected by the specification is matched by any run-time panic of the interpreter (gomacro raises reflect errors, not runtime.TypeAssertionError)")
	if err := st.gateSamples(c.Pick(6, 10)); err != nil {
		return err
	}
	bySize := append([]*c09Sampled(nil), st.sampled...)
	sort.SliceStable(bySize, func(a, b int) bool { return bySize[a].rec.Size > bySize[b].rec.Size })
	for i, sm := range bySize {
		if i < 3 {
			r := c09NewRend(sm.rec, c09Mode{StageT: -1, Std: sm.mode.Std})
			var ex []string
			for k := 0; k < len(sm.rec.Sites); k += len(sm.rec.Sites)/4 + 1 {
				src, _ := r.site(&sm.rec.Sites[k])
				ex = append(ex, src+fmt.Sprintf("  // expected %+v", sm.rec.Sites[k].X))
			}
			c.Sample(map[string]interface{}{"declarations": r.declText(), "sites": len(sm.rec.Sites), "some_sites": ex})
		}
	}
	// every kind of site must have been compared with compiled Go at least once
	cover, _ := c.Extra["gated_sites_by_kind"].(map[string]int)
	for _, need := range []string{"sel/ok", "sel/cerr", "mval/ok", "mexpr/ok", "mexpr/cerr", "iface/ok", "iface/cerr", "iface-compiled/ok", "assert/ok", "assert/panic", "aiface/ok", "tswitch/ok"} {
		if cover[need] == 0 {
			return core.Infra("no %s site was gated against compiled Go in this run", need)
		}
	}
	return st.verdicts()
}

// ---------------------------------------------------------------------------
// replay and self-test

func replayC09(c *core.Ctx, raw json.RawMessage) error {
	var m c09Mism
	if err := json.Unmarshal(raw, &m); err != nil {
		return err
	}
	if m.Rec == nil {
		return fmt.Errorf("no record in the replay case")
	}
	if len(m.Rec.Sites) > 0 && m.Decl == "" {
		m.site = &m.Rec.Sites[0]
	}
	st := &c09State{c: c, buckets: map[string]*c09Bucket{}}
	st.buckets[m.Sig] = &c09Bucket{count: 1, ex: []*c09Mism{&m}}
	return st.verdicts()
}

func selfTestC09(c *core.Ctx) error {
	defer c09Mute()()
	// the broken variants of the rules must be rejected by TLC
	for _, bv := range []struct{ broken, inv string }{{"deeper", "LookupFunctional ShallowestWins"}, {"ptr-in-valset", "MethodSetsAgree PtrRecvNotInValueSet"}} {
		k := c09Cfg{name: "broken-" + bv.broken, nt: 2, fields: c09AB, maxSize: 3, assertAll: true, kinds: "{}", broken: bv.broken}
		o := k.opts()
		o.ExpectError = true
		res, err := c.TLC(o)
		if err != nil {
			return err
		}
		if res.Violated == "" || !strings.Contains(bv.inv, res.Violated) {
			return fmt.Errorf("broken variant %q: expected a violation of %s, TLC reported %q", bv.broken, bv.inv, res.Violated)
		}
	}
	// a correct record conforms on the interpreter and natively; a corrupted one is rejected by both
	raw := `{"nt":2,"size":3,"types":[{"f":["A"],"m":{"M":"v","N":"-"},"e":["-","-"],"rf":"A","mt":{"M":10001,"N":10002}},
	 {"f":[],"m":{"M":"-","N":"-"},"e":["v","-"],"rf":"A","mt":{"M":10011,"N":10012}}],
	 "tags":[{"f":"A","p":[0],"v":9},{"f":"A","p":[1,0],"v":89}],"cl":[],
	 "sites":[{"k":"sel","via":"val","r":1,"n":"M","nk":"method","sh":{"what":"vmeth","how":"promoted-val","depth":1},
	           "x":{"k":"ok","why":"","ev":[{"t":0,"n":"M","v":89}],"val":10001}},
	          {"k":"sel","via":"val","r":1,"n":"B","nk":"none","sh":{"what":"missing","how":"","depth":0},
	           "x":{"k":"cerr","why":"missing","ev":[],"val":0}}]}`
	for _, std := range []bool{false, true} {
		var rec c09Rec
		if err := json.Unmarshal([]byte(raw), &rec); err != nil {
			return err
		}
		r := c09NewRend(&rec, c09Mode{Sfx: "_t", Std: std, StageT: -1})
		items := c09Items(r)
		obs, declErr := c09RunHier(c09NewInterp(), r, nil, items)
		if declErr != "" {
			return fmt.Errorf("declarations rejected: %s", declErr)
		}
		for k, it := range items {
			if d := c09Judge(r, it.site, obs[k]); d != "" {
				return fmt.Errorf("correct record rejected at site %d: %s (%+v)", k, d, obs[k])
			}
		}
		good := &c09GateJob{r: r, sites: []*c09Site{&rec.Sites[0]}}
		goodC := &c09GateJob{r: r, sites: []*c09Site{&rec.Sites[1]}, cerr: true}
		bad := rec.Sites[0]
		bad.X.Ev = []c09Ev{{T: 0, N: "M", V: 9}} // wrong embedded receiver
		badC := rec.Sites[0]
		badC.X = c09Out{K: "cerr", Why: "ambiguous"}
		jb := &c09GateJob{r: r, sites: []*c09Site{&bad}}
		jbc := &c09GateJob{r: r, sites: []*c09Site{&badC}, cerr: true}
		if err := c09RunGate(c, []*c09GateJob{good, goodC, jb, jbc}); err != nil {
			return err
		}
		if !good.ok[0] || !goodC.ok[0] {
			return fmt.Errorf("correct record rejected by the Go gate (std=%v)", std)
		}
		if jb.ok[0] || jbc.ok[0] {
			return fmt.Errorf("corrupted record accepted by the Go gate (std=%v)", std)
		}
		if c09Judge(r, &bad, obs[0]) == "" || c09Judge(r, &badC, obs[0]) == "" {
			return fmt.Errorf("corrupted record accepted by the replay (std=%v)", std)
		}
	}
	return nil
}

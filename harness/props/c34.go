package props

import (
	"encoding/json"
	"fmt"
	"hash/fnv"
	"math"
	"reflect"
	"runtime"
	"sort"
	"strconv"
	"strings"
	"sync"
	"sync/atomic"
	"time"

	"github.com/cosmos72/gomacro/fast"
	"github.com/cosmos72/gomacro/go/etoken"

	"verif/harness/core"
	"verif/harness/gm"
)

// C34: the contract methods that gomacro's generics flavour CTI adds to unnamed basic types,
// arrays, slices, maps and channels agree with the Go operator / builtin they stand for.
//
// Spec: spec/sem/Cti.tla (EXTENDS Expr -> Values -> BitVec, FloatD): the table
// method |-> (operator, argument convention), the meaning of a call through Values (the
// operator semantics C01 pins to compiled Go), a small state model of the containers, and the
// enumeration BY CELL = (method, kind | container family) over C01's boundary values.
//
// Files: c34.go (records, cells of the basic kinds, rendering shapes, verdict, run),
// c34box.go (containers: rendering, native builtins, verdict), c34native.go (Go gate of the
// basic kinds: the operator itself, generic helpers).
//
// The generics switch etoken.GENERICS is process-wide: Run sets it to GENERICS_V2_CTI before
// the first interpreter is created and restores the previous value when it returns.

func init() {
	core.Register(&core.Prop{
		ID: "C34",
		Rule: "TLC (Cti.tla) enumerates cells = (contract method, basic kind | container family) over C01's boundary values of the kind " +
			"(BFS, bounded-exhaustive over the lists; simulation with seeded random bit patterns) and over every small container state " +
			"(slice windows of a 3/4-element backing array, arrays, maps, channels) x every call with in-range and out-of-range arguments, " +
			"each with the result of the corresponding Go operator / builtin from Values.tla; every cell is rendered as a method call in a shape " +
			"(variables, typed constants, method expression T.M(recv, args), method value, parameters of a function; quick: one shape per cell chosen by seed, thorough: all) " +
			"with the generics switch on CTI and evaluated on the fast interpreter; an evaluation is one (cell, operands, shape); " +
			"non-trivial = every one (each runs one generated method body or one reflective container method); distinct by (method, kind, shape, operand bits)",
		Run:      runC34,
		Replay:   replayC34,
		SelfTest: selfTestC34,
	})
}

// c34WithCTI runs f with the process-wide generics switch set to CTI.
func c34WithCTI(f func() error) error {
	old := etoken.GENERICS
	etoken.GENERICS = etoken.GENERICS_V2_CTI
	defer func() { etoken.GENERICS = old }()
	return f()
}

// ---------------------------------------------------------------------------------------
// values and results

var c34ComplexPart = map[string]string{"complex64": "float32", "complex128": "float64"}

func c34IsComplex(kind string) bool { return c34ComplexPart[kind] != "" }

// c34Val is a value of a basic kind; for complex kinds V is the real and Im the imaginary part.
type c34Val struct {
	Kind string `json:"kind"`
	V    c01Val `json:"v"`
	Im   c01Val `json:"im"`
}

func (v c34Val) Equal(w c34Val) bool {
	if v.Kind != w.Kind {
		return false
	}
	if c34IsComplex(v.Kind) {
		return v.V.Equal(w.V) && v.Im.Equal(w.Im)
	}
	return v.V.Equal(w.V)
}

func (v c34Val) Text() string {
	if c34IsComplex(v.Kind) {
		return "(" + v.V.Text() + "," + v.Im.Text() + "i)"
	}
	return v.V.Text()
}

func (v c34Val) Complex() complex128 { return complex(v.V.Float(), v.Im.Float()) }

func c34Basic(kind string, v c01Val) c34Val { v.Kind = kind; return c34Val{Kind: kind, V: v} }

func c34Int(kind string, x int64) c34Val {
	return c34Val{Kind: kind, V: c01Val{Kind: kind, Bits: uint64(x) & c01Mask(kind)}}
}

func c34Decode(kind string, raw json.RawMessage) (c34Val, error) {
	if part := c34ComplexPart[kind]; part != "" {
		var parts []json.RawMessage
		if err := json.Unmarshal(raw, &parts); err != nil || len(parts) != 2 {
			return c34Val{}, fmt.Errorf("complex value %s", raw)
		}
		re, err := c01Decode(part, parts[0])
		if err != nil {
			return c34Val{}, err
		}
		im, err := c01Decode(part, parts[1])
		if err != nil {
			return c34Val{}, err
		}
		return c34Val{Kind: kind, V: re, Im: im}, nil
	}
	v, err := c01Decode(kind, raw)
	return c34Val{Kind: kind, V: v}, err
}

// c34Res is one expected (or observed) result: value + static type | panic class | rejection.
type c34Res struct {
	T   string `json:"t"` // "v" value, "p" panic, "c" does not compile, "s" not generated
	Ty  string `json:"ty,omitempty"`
	V   c34Val `json:"v"`
	Cls string `json:"cls,omitempty"`
	Msg string `json:"msg,omitempty"`
}

func (r c34Res) String() string {
	switch r.T {
	case "v":
		return fmt.Sprintf("%s(%s)", r.Ty, r.V.Text())
	case "p":
		if r.Msg != "" && r.Msg != r.Cls {
			return "run-time panic(" + r.Cls + ": " + r.Msg + ")"
		}
		return "run-time panic(" + r.Cls + ")"
	case "c":
		return "does not compile(" + r.Msg + ")"
	}
	return "not generated"
}

func c34Agree(want, got c34Res) bool {
	if want.T != got.T {
		return false
	}
	switch want.T {
	case "v":
		return want.Ty == got.Ty && want.V.Equal(got.V)
	case "p":
		return want.Cls == got.Cls
	}
	return true
}

func c34Diff(want, got c34Res) string {
	switch {
	case got.T == "c":
		return "does-not-compile"
	case got.T == "p":
		return "panics"
	case want.T == "p":
		return "panic-missing"
	case want.Ty != got.Ty:
		return "type-differs"
	}
	return "value-differs"
}

// c34ParseRes decodes a result tuple of Values.tla; a static type equal to the record's
// representative kind stands for the kind the record is instantiated at.
func c34ParseRes(raw json.RawMessage, rep, kind string) (c34Res, error) {
	var parts []json.RawMessage
	if err := json.Unmarshal(raw, &parts); err != nil || len(parts) == 0 {
		return c34Res{}, fmt.Errorf("bad result %s", raw)
	}
	var tag string
	json.Unmarshal(parts[0], &tag)
	r := c34Res{T: tag}
	switch tag {
	case "v":
		if len(parts) != 3 {
			return r, fmt.Errorf("bad result %s", raw)
		}
		json.Unmarshal(parts[1], &r.Ty)
		if r.Ty == rep {
			r.Ty = kind
		}
		v, err := c34Decode(r.Ty, parts[2])
		if err != nil {
			return r, err
		}
		r.V = v
	case "p":
		if len(parts) != 2 {
			return r, fmt.Errorf("bad result %s", raw)
		}
		json.Unmarshal(parts[1], &r.Cls)
	case "s":
	default:
		return r, fmt.Errorf("bad result tag %s", raw)
	}
	return r, nil
}

// ---------------------------------------------------------------------------------------
// records printed by Cti.tla

type c34Row struct {
	B json.RawMessage `json:"b"`
	I json.RawMessage `json:"i"`
	J json.RawMessage `json:"j"`
	R json.RawMessage `json:"r"`
}

type c34TableKind struct {
	K  string            `json:"k"`
	Ks []string          `json:"ks"`
	Ms map[string]string `json:"ms"`
}
type c34TableFam struct {
	Fam string            `json:"fam"`
	Ms  map[string]string `json:"ms"`
}

type c34Rec struct {
	G string `json:"g"` // "table" | "basic" | "box"
	// basic
	K    string                     `json:"k"`
	Ks   []string                   `json:"ks"`
	A    json.RawMessage            `json:"a"`
	Un   map[string]json.RawMessage `json:"un"`
	Rows []c34Row                   `json:"rows"`
	Sh   json.RawMessage            `json:"sh"`
	Ix   json.RawMessage            `json:"ix"`
	Sl   json.RawMessage            `json:"sl"`
	// box
	Fam   string          `json:"fam"`
	St    json.RawMessage `json:"st"`
	Calls []c34BoxCall    `json:"calls"`
	// table
	Basic []c34TableKind `json:"basic"`
	Box   []c34TableFam  `json:"box"`
}

// the argument convention of every method of the basic kinds, as read from the table record
// (filled before the first cell is built; the fallback is only used by replay / self-test)
var c34Conv = map[string]string{"Add": "zab", "Sub": "zab", "Mul": "zab", "Quo": "zab", "Rem": "zab", "And": "zab", "AndNot": "zab",
	"Or": "zab", "Xor": "zab", "Neg": "za", "Not": "za", "Lsh": "zan", "Rsh": "zan", "Cmp": "rb", "Equal": "rb", "Less": "rb",
	"Real": "r", "Imag": "r", "Len": "r", "Index": "ri", "Slice": "rij"}

// ---------------------------------------------------------------------------------------
// cells

// rendering shapes of a call
var c34Shapes = []string{"var", "lit", "mexpr", "mval", "local"}

// c34Cell is one method call: method, kind, operands, rendering shape and expected result.
type c34Cell struct {
	Method string `json:"method"`
	Kind   string `json:"kind"`
	Conv   string `json:"conv"`
	Shape  string `json:"shape"`
	Z      c34Val `json:"z"` // receiver of the conventions that ignore it
	A      c34Val `json:"a"`
	B      c34Val `json:"b"` // second operand: kind | uint8 (zan) | int (ri, rij)
	C      c34Val `json:"c"` // third operand (rij)
	Want   c34Res `json:"want"`
}

func (c *c34Cell) Key() string {
	return fmt.Sprintf("%s|%s|%s|%s|%s|%s", c.Method, c.Kind, c.Shape, c.A.Text(), c.B.Text(), c.C.Text())
}

// resultType is the static type the table's signature gives the call.
func (c *c34Cell) resultType() string {
	switch c.Method {
	case "Cmp", "Len":
		return "int"
	case "Equal", "Less":
		return "bool"
	case "Index":
		return "uint8"
	case "Real", "Imag":
		return c34ComplexPart[c.Kind]
	}
	return c.Kind
}

// operands: the receiver and the arguments in call order, each with the variable that holds
// it in the prepared interpreter.
type c34Operand struct {
	Var string
	Val c34Val
}

func (c *c34Cell) operands() (recv c34Operand, args []c34Operand) {
	z := c34Operand{"c34z_" + c.Kind, c.Z}
	a := c34Operand{"c34a_" + c.Kind, c.A}
	b := c34Operand{"c34b_" + c.Kind, c.B}
	switch c.Conv {
	case "zab":
		return z, []c34Operand{a, b}
	case "za":
		return z, []c34Operand{a}
	case "zan":
		return z, []c34Operand{a, {"c34n", c.B}}
	case "rb":
		return a, []c34Operand{b}
	case "r":
		return a, nil
	case "ri":
		return a, []c34Operand{{"c34i", c.B}}
	case "rij":
		return a, []c34Operand{{"c34i", c.B}, {"c34j", c.C}}
	}
	return a, nil
}

// c34Lit renders a typed constant; ok = false when the value cannot be written as one.
func c34Lit(v c34Val) (string, bool) {
	if c34IsComplex(v.Kind) {
		for _, p := range []c01Val{v.V, v.Im} {
			if !c01FloatConstable(p) {
				return "", false
			}
		}
		return fmt.Sprintf("%s(complex(%s, %s))", v.Kind, strconv.FormatFloat(v.V.Float(), 'g', -1, 64), strconv.FormatFloat(v.Im.Float(), 'g', -1, 64)), true
	}
	if c01IsFloat(v.Kind) && !c01FloatConstable(v.V) {
		return "", false
	}
	x := v.V
	x.Kind = v.Kind
	return c01Lit(x), true
}

// Source renders the call in the cell's shape.
func (c *c34Cell) Source() string {
	recv, args := c.operands()
	names := func(ops []c34Operand) []string {
		out := make([]string, len(ops))
		for i, o := range ops {
			out[i] = o.Var
		}
		return out
	}
	switch c.Shape {
	case "lit":
		r, ok := c34Lit(recv.Val)
		as := make([]string, len(args))
		for i, o := range args {
			var ok2 bool
			as[i], ok2 = c34Lit(o.Val)
			ok = ok && ok2
		}
		if ok {
			return fmt.Sprintf("%s.%s(%s)", r, c.Method, strings.Join(as, ", "))
		}
		// not writable as constants: variables
	case "mexpr":
		return fmt.Sprintf("%s.%s(%s)", c.Kind, c.Method, strings.Join(append([]string{recv.Var}, names(args)...), ", "))
	case "mval":
		return fmt.Sprintf("(%s.%s)(%s)", recv.Var, c.Method, strings.Join(names(args), ", "))
	case "local":
		all := append([]c34Operand{recv}, args...)
		ps := make([]string, len(all))
		pn := make([]string, len(all))
		for i, o := range all {
			pn[i] = fmt.Sprintf("p%d", i)
			ps[i] = pn[i] + " " + o.Val.Kind
		}
		return fmt.Sprintf("(func(%s) %s { return %s.%s(%s) })(%s)", strings.Join(ps, ", "), c.resultType(), pn[0], c.Method,
			strings.Join(pn[1:], ", "), strings.Join(names(all), ", "))
	}
	return fmt.Sprintf("%s.%s(%s)", recv.Var, c.Method, strings.Join(names(args), ", "))
}

func (c *c34Cell) Operands() string {
	recv, args := c.operands()
	parts := []string{fmt.Sprintf("%s=%s(%s)", recv.Var, recv.Val.Kind, recv.Val.Text())}
	for _, o := range args {
		parts = append(parts, fmt.Sprintf("%s=%s(%s)", o.Var, o.Val.Kind, o.Val.Text()))
	}
	return strings.Join(parts, " ")
}

// c34Sig: narrow signature = (method, kind) cell + shape of the disagreement.
func c34Sig(c *c34Cell, got c34Res) string {
	return fmt.Sprintf("cti(%s,%s):%s", c.Method, c.Kind, c34Diff(c.Want, got))
}

// ---------------------------------------------------------------------------------------
// the prepared interpreter

var c34Kinds = append(append([]string{}, c01Kinds...), "complex64", "complex128")

type c34Env struct {
	g   *gm.Interp
	ptr map[string]reflect.Value
}

func newC34Env() (*c34Env, error) {
	if !etoken.GENERICS.V2_CTI() {
		return nil, core.Infra("C34 environment: the generics switch is not on CTI")
	}
	e := &c34Env{g: gm.New(), ptr: map[string]reflect.Value{}}
	var names []string
	for _, k := range c34Kinds {
		if r := e.g.Eval(fmt.Sprintf("var c34z_%s, c34a_%s, c34b_%s %s", k, k, k, k)); r.Panicked {
			return nil, core.Infra("C34 environment: %s", r.Panic)
		}
		names = append(names, "c34z_"+k, "c34a_"+k, "c34b_"+k)
	}
	if r := e.g.Eval("var c34n uint8; var c34i, c34j int"); r.Panicked {
		return nil, core.Infra("C34 environment: %s", r.Panic)
	}
	names = append(names, "c34n", "c34i", "c34j")
	for _, n := range names {
		v := e.g.Ir.AddressOfVar(n)
		if !v.IsValid() {
			return nil, core.Infra("C34 environment: no address for %s", n)
		}
		e.ptr[n] = v.ReflectValue()
	}
	e.g.Out.Reset()
	return e, nil
}

func (e *c34Env) set(name string, v c34Val) {
	p := e.ptr[name].Elem()
	x := v.V
	x.Kind = v.Kind
	switch {
	case c34IsComplex(v.Kind):
		if v.Kind == "complex64" {
			p.Set(reflect.ValueOf(complex(math.Float32frombits(uint32(v.V.Bits)), math.Float32frombits(uint32(v.Im.Bits)))))
		} else {
			p.Set(reflect.ValueOf(complex(math.Float64frombits(v.V.Bits), math.Float64frombits(v.Im.Bits))))
		}
	case v.Kind == "string":
		p.SetString(x.Str)
	case v.Kind == "bool":
		p.SetBool(x.Bits != 0)
	case v.Kind == "float32":
		p.Set(reflect.ValueOf(math.Float32frombits(uint32(x.Bits))))
	case v.Kind == "float64":
		p.SetFloat(math.Float64frombits(x.Bits))
	case c01IsSigned(v.Kind):
		p.SetInt(x.Signed())
	default:
		p.SetUint(x.Bits)
	}
}

func c34FromReflect(rv reflect.Value) c34Val {
	switch rv.Kind() {
	case reflect.Complex64:
		c := rv.Complex()
		return c34Val{Kind: "complex64", V: c01Val{Kind: "float32", Bits: uint64(math.Float32bits(float32(real(c))))},
			Im: c01Val{Kind: "float32", Bits: uint64(math.Float32bits(float32(imag(c))))}}
	case reflect.Complex128:
		c := rv.Complex()
		return c34Val{Kind: "complex128", V: c01Val{Kind: "float64", Bits: math.Float64bits(real(c))},
			Im: c01Val{Kind: "float64", Bits: math.Float64bits(imag(c))}}
	}
	v := c01FromReflect(rv)
	return c34Val{Kind: v.Kind, V: v}
}

// eval assigns the operands, compiles and runs the cell's snippet and projects the observation.
func (e *c34Env) eval(c *c34Cell) (res c34Res) {
	recv, args := c.operands()
	e.set(recv.Var, recv.Val)
	for _, o := range args {
		e.set(o.Var, o.Val)
	}
	src := c.Source()
	ir := e.g.Ir
	var expr *fast.Expr
	func() {
		defer func() {
			if r := recover(); r != nil {
				res = c34Res{T: "c", Cls: "rejected", Msg: c01Trunc(fmt.Sprint(r))}
			}
		}()
		expr = ir.Compile(src)
	}()
	if res.T != "" {
		e.g.Out.Reset()
		return res
	}
	func() {
		defer func() {
			if r := recover(); r != nil {
				msg := fmt.Sprint(r)
				if err, ok := r.(error); ok {
					msg = err.Error()
				}
				res = c34Res{T: "p", Cls: c34PanicClass(msg), Msg: c01Trunc(msg)}
			}
		}()
		vs, ts := ir.RunExpr(expr)
		if len(vs) != 1 || len(ts) != 1 || ts[0] == nil || !vs[0].IsValid() {
			res = c34Res{T: "v", Ty: fmt.Sprintf("<%d values>", len(vs))}
			return
		}
		res = c34Res{T: "v", Ty: ts[0].String(), V: c34FromReflect(vs[0].ReflectValue())}
	}()
	e.g.Out.Reset()
	return res
}

// ---------------------------------------------------------------------------------------
// the method lists of the code, read through xreflect

// c34CodeMethods returns the names of the methods the interpreter's universe declares on the
// type of the expression src.
func c34CodeMethods(g *gm.Interp, decl, name string) ([]string, error) {
	if r := g.Eval(decl); r.Panicked {
		return nil, core.Infra("C34: %s: %s", decl, r.Panic)
	}
	sym := g.Ir.Comp.TryResolve(name)
	if sym == nil || sym.Type == nil {
		return nil, core.Infra("C34: %s not declared", name)
	}
	t := sym.Type
	var ms []string
	for i, n := 0, t.NumMethod(); i < n; i++ {
		ms = append(ms, t.Method(i).Name)
	}
	sort.Strings(ms)
	return ms, nil
}

func c34SameSet(table map[string]string, code []string) (missingInTable, missingInCode []string) {
	in := map[string]bool{}
	for _, m := range code {
		in[m] = true
		if _, ok := table[m]; !ok {
			missingInTable = append(missingInTable, m)
		}
	}
	for m := range table {
		if !in[m] {
			missingInCode = append(missingInCode, m)
		}
	}
	sort.Strings(missingInCode)
	return
}

// the concrete types at which the method list of a container family is read
var c34FamTypes = map[string][]string{
	"slice": {"[]int", "[]string", "[]float64", "[]int8", "[][]int"},
	"array": {"[3]int", "[0]string", "[4]float64"},
	"bytes": {"[]uint8", "[]byte"},
	"map":   {"map[int]string", "map[string]int"},
	"chan":  {"chan int", "chan string"},
}

// c34CheckTable compares the specification's table with the method lists of the code: a
// method the code declares and the table lacks is an incompleteness of the specification.
func c34CheckTable(c *core.Ctx, rec *c34Rec) error {
	g := gm.New()
	n := 0
	check := func(what, typ string, table map[string]string) error {
		n++
		name := fmt.Sprintf("c34t%d", n)
		code, err := c34CodeMethods(g, fmt.Sprintf("var %s %s", name, typ), name)
		if err != nil {
			return err
		}
		mt, mc := c34SameSet(table, code)
		if len(mt) > 0 {
			return core.Infra("specification incomplete: the code declares method(s) %v on %s (%s) that the table of Cti.tla lacks", mt, typ, what)
		}
		if len(mc) > 0 {
			return core.Infra("specification's table lists method(s) %v on %s (%s) that the code does not declare", mc, typ, what)
		}
		return nil
	}
	kinds := 0
	for _, tk := range rec.Basic {
		for _, k := range tk.Ks {
			kinds++
			if err := check("basic kind", k, tk.Ms); err != nil {
				return err
			}
		}
		for m, conv := range tk.Ms {
			if old, ok := c34Conv[m]; ok && old != conv {
				return core.Infra("convention of %s changed in the table (%s, harness knows %s)", m, conv, old)
			}
			c34Conv[m] = conv
		}
	}
	if kinds != len(c34Kinds) {
		return core.Infra("the table covers %d basic kinds, the harness knows %d", kinds, len(c34Kinds))
	}
	for _, tf := range rec.Box {
		for _, typ := range c34FamTypes[tf.Fam] {
			if err := check("container family "+tf.Fam, typ, tf.Ms); err != nil {
				return err
			}
		}
	}
	// directional channels: the receive-only / send-only subsets of the chan family
	for typ, drop := range map[string][]string{"<-chan int": {"Send", "TrySend"}, "chan<- int": {"Recv", "TryRecv"}} {
		for _, tf := range rec.Box {
			if tf.Fam != "chan" {
				continue
			}
			sub := map[string]string{}
			for m, v := range tf.Ms {
				sub[m] = v
			}
			for _, m := range drop {
				delete(sub, m)
			}
			if err := check("directional channel", typ, sub); err != nil {
				return err
			}
		}
	}
	c.Extra["method_lists_checked"] = n
	return nil
}

// ---------------------------------------------------------------------------------------
// record -> cells

type c34Opts struct {
	allShapes bool
	seed      int64
}

func c34Hash(seed int64, key string) uint64 {
	h := fnv.New64a()
	fmt.Fprintf(h, "%d|%s", seed, key)
	return h.Sum64()
}

// c34Poison picks the value of the ignored receiver: a value of the kind different from the
// operands where the kind has one.
func c34Poison(kind string, a, b c34Val, h uint64) c34Val {
	switch {
	case kind == "bool":
		return c34Val{Kind: kind, V: c01Val{Kind: kind, Bits: h & 1}}
	case kind == "string":
		return c34Val{Kind: kind, V: c01Val{Kind: kind, Str: []string{"zz", "q", "", "recv"}[h%4]}}
	case c34IsComplex(kind):
		p := c34ComplexPart[kind]
		f := func(x float64) c01Val {
			if p == "float32" {
				return c01Val{Kind: p, Bits: uint64(math.Float32bits(float32(x)))}
			}
			return c01Val{Kind: p, Bits: math.Float64bits(x)}
		}
		return c34Val{Kind: kind, V: f(float64(h%7) + 11), Im: f(-float64(h%5) - 13)}
	case kind == "float32":
		return c34Val{Kind: kind, V: c01Val{Kind: kind, Bits: uint64(math.Float32bits(float32(h%9) + 17.25))}}
	case kind == "float64":
		return c34Val{Kind: kind, V: c01Val{Kind: kind, Bits: math.Float64bits(float64(h%9) + 17.25)}}
	}
	// integers: a bit pattern that is neither operand
	cands := []uint64{0x5a5a5a5a5a5a5a5a, 0x33, 0xffffffffffffff9c, 0x17}
	for i := range cands {
		x := cands[(int(h%4)+i)%4] & c01Mask(kind)
		if x != a.V.Bits && x != b.V.Bits {
			return c34Val{Kind: kind, V: c01Val{Kind: kind, Bits: x}}
		}
	}
	return c34Val{Kind: kind, V: c01Val{Kind: kind, Bits: 0x5a & c01Mask(kind)}}
}

func c34Rows(raw json.RawMessage) ([]c34Row, error) {
	var rows []c34Row
	if len(raw) == 0 {
		return nil, nil
	}
	err := json.Unmarshal(raw, &rows)
	return rows, err
}

func c34SortedKeys(m map[string]json.RawMessage) []string {
	ks := make([]string, 0, len(m))
	for k := range m {
		ks = append(ks, k)
	}
	sort.Strings(ks)
	return ks
}

// c34Expand calls f for every cell of a basic record with the shapes to evaluate it in.
func c34Expand(rec *c34Rec, o c34Opts, f func(c *c34Cell, shapes []string)) error {
	ks := rec.Ks
	if len(ks) == 0 {
		ks = []string{rec.K}
	}
	sh, err := c34Rows(rec.Sh)
	if err != nil {
		return err
	}
	ix, err := c34Rows(rec.Ix)
	if err != nil {
		return err
	}
	sl, err := c34Rows(rec.Sl)
	if err != nil {
		return err
	}
	for _, kind := range ks {
		a, err := c34Decode(kind, rec.A)
		if err != nil {
			return err
		}
		emit := func(method string, b, c c34Val, rraw json.RawMessage, idx int) error {
			want, err := c34ParseRes(rraw, rec.K, kind)
			if err != nil {
				return err
			}
			if want.T == "s" {
				f(&c34Cell{Method: method, Kind: kind, Want: want}, nil)
				return nil
			}
			conv := c34Conv[method]
			if conv == "" {
				return fmt.Errorf("method %s has no convention", method)
			}
			key := fmt.Sprintf("%s|%s|%s|%s|%s|%d", method, kind, a.Text(), b.Text(), c.Text(), idx)
			h := c34Hash(o.seed, key)
			cell := c34Cell{Method: method, Kind: kind, Conv: conv, A: a, B: b, C: c, Want: want}
			if conv[0] == 'z' {
				cell.Z = c34Poison(kind, a, b, h)
			}
			if o.allShapes {
				f(&cell, c34Shapes)
			} else {
				f(&cell, []string{c34Shapes[(h>>8)%uint64(len(c34Shapes))]})
			}
			return nil
		}
		none := c34Val{}
		for _, m := range c34SortedKeys(rec.Un) {
			if err := emit(m, none, none, rec.Un[m], 0); err != nil {
				return err
			}
		}
		for ri, row := range rec.Rows {
			b, err := c34Decode(kind, row.B)
			if err != nil {
				return err
			}
			var rs map[string]json.RawMessage
			if err := json.Unmarshal(row.R, &rs); err != nil {
				return err
			}
			for _, m := range c34SortedKeys(rs) {
				if err := emit(m, b, none, rs[m], ri); err != nil {
					return err
				}
			}
		}
		for ri, row := range sh {
			n, err := c34Decode("uint8", row.B)
			if err != nil {
				return err
			}
			var rs map[string]json.RawMessage
			if err := json.Unmarshal(row.R, &rs); err != nil {
				return err
			}
			for _, m := range c34SortedKeys(rs) {
				if err := emit(m, n, none, rs[m], ri); err != nil {
					return err
				}
			}
		}
		for ri, row := range ix {
			i, err := c34Decode("int", row.I)
			if err != nil {
				return err
			}
			if err := emit("Index", i, none, row.R, ri); err != nil {
				return err
			}
		}
		for ri, row := range sl {
			i, err := c34Decode("int", row.I)
			if err != nil {
				return err
			}
			j, err := c34Decode("int", row.J)
			if err != nil {
				return err
			}
			if err := emit("Slice", i, j, row.R, ri); err != nil {
				return err
			}
		}
	}
	return nil
}

// ---------------------------------------------------------------------------------------
// run

type c34Stats struct {
	cells     map[string]bool // (method, kind) cells reached
	byShape   map[string]int64
	byClass   map[string]int64
	boxCells  map[string]bool // (family, elem, method) cells reached
	boxCalls  int64
	notInSpec int64 // cells the model leaves out (inexact floating point)
}

func newC34Stats() *c34Stats {
	return &c34Stats{cells: map[string]bool{}, byShape: map[string]int64{}, byClass: map[string]int64{}, boxCells: map[string]bool{}}
}

func (s *c34Stats) merge(o *c34Stats) {
	for k := range o.cells {
		s.cells[k] = true
	}
	for k := range o.boxCells {
		s.boxCells[k] = true
	}
	for k, v := range o.byShape {
		s.byShape[k] += v
	}
	for k, v := range o.byClass {
		s.byClass[k] += v
	}
	s.boxCalls += o.boxCalls
	s.notInSpec += o.notInSpec
}

type c34Runner struct {
	c                                *core.Ctx
	env                              *c34Env
	boxG                             *gm.Interp
	boxUsed                          int
	opts                             c34Opts
	stats                            *c34Stats
	used                             int
	confirms                         map[string]int
	nconfirm                         int
	err                              error
	gateChecked, gateRejects, traces int64
}

const c34Reuse = 40000

func (r *c34Runner) interp() (*c34Env, error) {
	if r.env == nil || r.used >= c34Reuse {
		e, err := newC34Env()
		if err != nil {
			return nil, err
		}
		r.env, r.used = e, 0
	}
	return r.env, nil
}

var c34GateShown int64

func (r *c34Runner) record(rec *c34Rec) {
	if r.err != nil {
		return
	}
	switch rec.G {
	case "box":
		r.boxRecord(rec)
		return
	case "table":
		return
	}
	err := c34Expand(rec, r.opts, func(cell *c34Cell, shapes []string) {
		if r.err != nil {
			return
		}
		if cell.Want.T == "s" {
			r.stats.notInSpec++
			return
		}
		// Go gate: the operator itself, natively
		nat := c34Native(cell)
		r.gateChecked++
		if !c34Agree(cell.Want, nat) {
			r.gateRejects++
			if n := atomic.AddInt64(&c34GateShown, 1); n <= 5 {
				cell.Shape = "var"
				fmt.Printf("GATE-REJECT property=C34 (specification disagrees with native Go; cell dropped): %s with %s: specification %s, Go %s\n",
					cell.Source(), cell.Operands(), cell.Want, nat)
			}
			return
		}
		for _, sh := range shapes {
			cell.Shape = sh
			r.eval(cell)
			if r.err != nil {
				return
			}
		}
	})
	if err != nil && r.err == nil {
		r.err = core.Infra("bad record from TLC: %v", err)
	}
}

func (r *c34Runner) eval(cell *c34Cell) {
	env, err := r.interp()
	if err != nil {
		r.err = err
		return
	}
	r.used++
	got := env.eval(cell)
	r.c.Case(cell.Key(), true)
	r.traces++
	r.stats.cells[cell.Method+"|"+cell.Kind] = true
	r.stats.byShape[cell.Shape]++
	r.stats.byClass[map[string]string{"v": "value", "p": "panic:" + cell.Want.Cls}[cell.Want.T]]++
	if c34Agree(cell.Want, got) {
		return
	}
	sig := c34Sig(cell, got)
	if r.confirms[sig] < 2 && r.nconfirm < 30 {
		r.confirms[sig]++
		r.nconfirm++
		fresh, err := newC34Env()
		if err != nil {
			r.err = err
			return
		}
		got2 := fresh.eval(cell)
		if c34Agree(cell.Want, got2) {
			r.err = core.Infra("disagreement not reproducible in a fresh interpreter: %s with %s: specification %s, first observed %s",
				cell.Source(), cell.Operands(), cell.Want, got)
			return
		}
		got = got2
		sig = c34Sig(cell, got)
	}
	what := fmt.Sprintf("%s   with %s\n  specification (= Go operator): %s\n  gomacro: %s", cell.Source(), cell.Operands(), cell.Want, got)
	r.c.Violation(sig, what, c34ReplayCase{Cell: cell, Source: cell.Source(), Expected: cell.Want.String(), Observed: got.String()})
}

type c34ReplayCase struct {
	Cell     *c34Cell    `json:"cell,omitempty"`
	Box      *c34BoxCase `json:"box,omitempty"`
	Source   string      `json:"source"`
	Expected string      `json:"expected"`
	Observed string      `json:"observed"`
}

func c34Cfg(mode string, level int, subswap bool, boxn int, invs string) string {
	return fmt.Sprintf("SPECIFICATION CtiSpec\nCONSTANTS\n Mode = %q\n Level = %d\n CKRot = 0\n QuoFix = TRUE\n NRows = 4\n SubSwap = %s\n BoxN = %d\nINVARIANTS %s\n",
		mode, level, strings.ToUpper(strconv.FormatBool(subswap)), boxn, invs)
}

func runC34(c *core.Ctx) error { return c34WithCTI(func() error { return runC34CTI(c) }) }

func runC34CTI(c *core.Ctx) error {
	level := c.Pick(1, 2)
	boxn := c.Pick(3, 4)
	c.MaxViolations = 40
	nw := runtime.NumCPU()
	if nw > c.Pick(6, 12) {
		nw = c.Pick(6, 12)
	}
	// touch the lazily built method lists of the (process-wide) basic types once, before any
	// parallel use
	if _, err := newC34Env(); err != nil {
		return err
	}
	stats := newC34Stats()
	recs := make(chan []byte, 1<<14)
	var wg sync.WaitGroup
	var emu sync.Mutex
	var firstErr error
	setErr := func(err error) {
		emu.Lock()
		if firstErr == nil && err != nil {
			firstErr = err
		}
		emu.Unlock()
	}
	var tableSeen int64
	var nrec int64
	for w := 0; w < nw; w++ {
		wg.Add(1)
		go func() {
			defer wg.Done()
			r := &c34Runner{c: c, opts: c34Opts{allShapes: c.Thorough(), seed: c.Seed}, stats: newC34Stats(), confirms: map[string]int{}}
			for line := range recs {
				if r.err != nil {
					continue
				}
				var rec c34Rec
				if err := json.Unmarshal(line, &rec); err != nil {
					r.err = core.Infra("bad record from TLC: %v", err)
					continue
				}
				if n := atomic.AddInt64(&nrec, 1); n%41 == 1 {
					c.Sample(c34SampleOf(&rec, r.opts))
				}
				r.record(&rec)
			}
			emu.Lock()
			stats.merge(r.stats)
			c.GateChecked += r.gateChecked
			c.GateRejects += r.gateRejects
			c.TracesVsImpl += r.traces
			emu.Unlock()
			setErr(r.err)
		}()
	}
	// the table record comes first (initial state): it is checked against the code's own method
	// lists before any cell is replayed; records arriving earlier are held back
	var pending [][]byte
	var pmu sync.Mutex
	feed := func(line []byte) {
		cp := append([]byte(nil), line...)
		if atomic.LoadInt64(&tableSeen) != 0 {
			recs <- cp
			return
		}
		pmu.Lock()
		defer pmu.Unlock()
		if atomic.LoadInt64(&tableSeen) != 0 {
			recs <- cp
			return
		}
		if strings.Contains(string(cp), `"table"`) {
			var rec c34Rec
			if err := json.Unmarshal(cp, &rec); err != nil {
				setErr(core.Infra("bad table record: %v", err))
			} else if rec.G == "table" {
				if err := c34CheckTable(c, &rec); err != nil {
					setErr(err)
				}
				atomic.StoreInt64(&tableSeen, 1)
				for _, p := range pending {
					recs <- p
				}
				pending = nil
				return
			}
		}
		pending = append(pending, cp)
	}
	var mwg sync.WaitGroup
	mwg.Add(2)
	// (M) the laws of the table and of the container model
	go func() {
		defer mwg.Done()
		_, err := c.TLC(core.TLCOpts{Spec: "Cti", CfgName: "laws-m", Cfg: c34Cfg("m", 1, false, boxn, "CtiTypeOK CtiLaws BoxLaws"),
			Workers: c.Pick(3, 4), Timeout: 12 * time.Minute})
		setErr(err)
	}()
	// (R) seeded random operands
	go func() {
		defer mwg.Done()
		_, err := c.TLC(core.TLCOpts{Spec: "Cti", CfgName: "cells-sim", Cfg: c34Cfg("sim", level, false, boxn, "CtiTypeOK CtiEmit"),
			Simulate: true, SimNum: c.Pick(1, 4), SimDepth: 14 + 2, Seed: c.Seed, Workers: c.Pick(1, 3),
			Timeout: 12 * time.Minute, OnLine: feed})
		setErr(err)
	}()
	// (R) bounded-exhaustive enumeration by cell
	_, err := c.TLC(core.TLCOpts{Spec: "Cti", CfgName: "cells-bfs", Cfg: c34Cfg("bfs", level, false, boxn, "CtiTypeOK CtiEmit"),
		Workers: c.Pick(4, 6), Timeout: 14 * time.Minute, OnLine: feed})
	setErr(err)
	mwg.Wait()
	if atomic.LoadInt64(&tableSeen) == 0 {
		setErr(core.Infra("TLC printed no table record"))
	}
	close(recs)
	wg.Wait()
	if firstErr != nil {
		return firstErr
	}
	c.Exhaustive = false // exhaustive over the boundary lists and the container states, not over the operand space
	c.Extra["basic_cells_method_x_kind"] = len(stats.cells)
	c.Extra["container_cells_family_x_elem_x_method"] = len(stats.boxCells)
	c.Extra["container_calls"] = stats.boxCalls
	c.Extra["evaluations_by_shape"] = stats.byShape
	c.Extra["evaluations_by_expected_class"] = stats.byClass
	c.Extra["cells_outside_the_float_domain"] = stats.notInSpec
	c.Assume("platform pinned to amd64 (int, uint, uintptr are 64-bit)")
	c.Assume("floating point and complex operands on the exact sub-domain of FloatD.tla; complex division only for finite operands and a non-zero divisor (the runtime's Inf/NaN recovery is not modelled); NaN payloads not compared")
	c.Assume("methods of NAMED types wrapping a basic type (xreflect addBasicTypeReflectMethodsCTI) are outside the property (its statement says unnamed types) and are not generated")
	c.Assume("channel calls that would block (Send on a full or nil channel, Recv on an open empty or nil channel) are not generated; capacity of a reallocating Append is only required to be >= the length")
	return nil
}

func minInt(a, b int) int {
	if a < b {
		return a
	}
	return b
}

func c34SampleOf(rec *c34Rec, o c34Opts) interface{} {
	if rec.G == "box" {
		return c34BoxSample(rec)
	}
	var out []map[string]string
	n := 0
	c34Expand(rec, o, func(c *c34Cell, shapes []string) {
		if len(shapes) == 0 {
			return
		}
		n++
		if len(out) < 3 && n%37 == 5 {
			c.Shape = shapes[n%len(shapes)]
			out = append(out, map[string]string{"snippet": c.Source(), "operands": c.Operands(), "expected": c.Want.String()})
		}
	})
	return map[string]interface{}{"group": rec.G, "kinds": rec.Ks, "cells_in_record": n, "cells": out}
}

func replayC34(c *core.Ctx, raw json.RawMessage) error {
	return c34WithCTI(func() error {
		var rp c34ReplayCase
		if err := json.Unmarshal(raw, &rp); err != nil {
			return err
		}
		if rp.Box != nil {
			return c34ReplayBox(c, rp.Box)
		}
		if rp.Cell == nil {
			return core.Infra("replay file has no cell")
		}
		cell := rp.Cell
		if nat := c34Native(cell); !c34Agree(cell.Want, nat) {
			return core.Infra("stored expectation %s disagrees with native Go %s", cell.Want, nat)
		}
		env, err := newC34Env()
		if err != nil {
			return err
		}
		got := env.eval(cell)
		fmt.Printf("replay: %s   with %s\n  specification (= Go operator): %s\n  gomacro: %s\n", cell.Source(), cell.Operands(), cell.Want, got)
		if !c34Agree(cell.Want, got) {
			c.Violation(c34Sig(cell, got), "replayed cell disagrees", rp)
		}
		return nil
	})
}

func selfTestC34(c *core.Ctx) error {
	return c34WithCTI(func() error {
		// 1. the broken variant (Sub with swapped operands) is rejected by the (M) laws
		r, err := c.TLC(core.TLCOpts{Spec: "Cti", CfgName: "broken-sub-swapped", Cfg: c34Cfg("m", 1, true, 3, "CtiLaws"),
			Workers: 4, ExpectError: true})
		if err != nil {
			return err
		}
		if r.Violated != "CtiLaws" {
			return fmt.Errorf("broken variant SubSwap=TRUE not detected by TLC (violated=%q)\n%s", r.Violated, r.Output)
		}
		// 2. a table lacking a method of the code is an incompleteness (exit 2), an exact one passes
		full := map[string]string{}
		for _, m := range []string{"Add", "Sub", "Mul", "Quo", "Neg", "Cmp", "Equal", "Less"} {
			full[m] = c34Conv[m]
		}
		g := gm.New()
		code, err := c34CodeMethods(g, "var c34st float64", "c34st")
		if err != nil {
			return err
		}
		if mt, mc := c34SameSet(full, code); len(mt)+len(mc) != 0 {
			return fmt.Errorf("exact table of float64 rejected: %v %v (code: %v)", mt, mc, code)
		}
		delete(full, "Neg")
		if mt, _ := c34SameSet(full, code); len(mt) != 1 || mt[0] != "Neg" {
			return fmt.Errorf("table lacking Neg accepted")
		}
		// 3. a correct cell is accepted in every shape, corrupted ones are rejected by the replay
		// and by the native gate
		env, err := newC34Env()
		if err != nil {
			return err
		}
		mk := func(shape string, want int64) *c34Cell {
			return &c34Cell{Method: "Sub", Kind: "int16", Conv: "zab", Shape: shape, Z: c34Int("int16", 0x33), A: c34Int("int16", 5), B: c34Int("int16", 7),
				Want: c34Res{T: "v", Ty: "int16", V: c34Int("int16", want)}}
		}
		for _, sh := range c34Shapes {
			good := mk(sh, -2)
			if got := env.eval(good); !c34Agree(good.Want, got) {
				return fmt.Errorf("correct cell rejected (%s): %s gives %s, expected %s", sh, good.Source(), got, good.Want)
			}
			bad := mk(sh, 2) // swapped operands
			if got := env.eval(bad); c34Agree(bad.Want, got) {
				return fmt.Errorf("corrupted cell accepted (%s)", sh)
			}
			if c34Agree(bad.Want, c34Native(bad)) {
				return fmt.Errorf("corrupted cell accepted by the native gate")
			}
			recvUsed := mk(sh, 0x33-7) // a body using the receiver instead of the first argument
			if c34Agree(recvUsed.Want, env.eval(recvUsed)) {
				return fmt.Errorf("cell computed from the ignored receiver accepted (%s)", sh)
			}
		}
		tc := mk("var", -2)
		tc.Want.Ty = "int"
		tc.Want.V = c34Int("int", -2)
		if c34Agree(tc.Want, env.eval(tc)) {
			return fmt.Errorf("corrupted static type accepted")
		}
		pc := &c34Cell{Method: "Rem", Kind: "uint8", Conv: "zab", Shape: "mexpr", Z: c34Int("uint8", 3), A: c34Int("uint8", 9), B: c34Int("uint8", 0),
			Want: c34Res{T: "p", Cls: "divide"}}
		if got := env.eval(pc); !c34Agree(pc.Want, got) {
			return fmt.Errorf("remainder by zero: expected the divide panic, got %s", got)
		}
		pc.Want.Cls = "index"
		if c34Agree(pc.Want, env.eval(pc)) {
			return fmt.Errorf("corrupted panic class accepted")
		}
		return c34BoxSelfTest()
	})
}

package props

import (
	"encoding/json"
	"fmt"
	"hash/fnv"
	"math/rand"
	"os"
	"regexp"
	"sort"
	"strings"
	"time"

	"verif/harness/core"
	"verif/harness/show"
)

// C08: composite data types and builtins behave as in Go.
// (M) spec/sem/Heap.tla: Go-level memory model (backing arrays as heap cells, slice headers,
//     arrays as values, map / struct cells, pointers). Every operation re-evaluates the
//     value-level statement of the Go specification from the state before and after (ChkOK):
//     append = old ++ new, shares the array iff the capacity suffices, otherwise no existing
//     array changes; copy = simultaneous assignment although the mechanism is a directed element
//     loop; s[lo:hi:max] has cap max-lo; element writes are seen exactly through overlapping
//     windows. Three broken mechanisms are rejected by TLC (selftest).
// (R) histories (BFS after aliasing prefixes, balanced two-stage simulation, fixed scripts)
//     with the logged observation of every operation and the final dump are rendered as one Go
//     function (c08render.go), gated natively and replayed on the interpreter. The capacity after
//     a growing append is only validated against the model's lower bound (V).
//     Specialisation cells: container {slice, array, *array, string, map} x element / key kind
//     (17 basic + struct + array) x use {value, comma-ok, place, address} x index {constant,
//     variable, converted}: one script per container shape, re-rendered for every cell.

func init() {
	core.Register(&core.Prop{
		ID: "C08",
		Rule: "TLC enumerates straight-line histories of composite-type operations (make, literals, index read/write/address, 2- and 3-index slicing, append with values and with a spread slice, copy, range, array assignment / passing, pointers to arrays, elements and structs, map set/get/comma-ok/delete/alias, struct literals / assignment / nested fields, string index/slice/concat/range) with indices and bounds from {-1, 0, len-1, len, cap, cap+1}: " +
			"exhaustively for a few operations after aliasing prefixes, by balanced simulation for long histories, and fixed scripts re-rendered for every (container, kind, use, index form) cell; each history is rendered for an element kind and a variant of syntactic forms; " +
			"non-trivial = at least two operations; distinct by (history, element kind, key kind, forms)",
		Run:      runC08,
		Replay:   replayC08,
		SelfTest: selfTestC08,
	})
}

// ---------------------------------------------------------------------------------------------
// TLC configurations

type c08Family struct {
	Name                 string
	NS, NA, NM, NT, NStr int
	Ops                  []string
	Scripts              [][]c08Op // prefixes (or complete scripts when MaxOps = 0)
	Free                 bool
	MaxOps               int
	LitNs                string
	Mk                   string
	Polite               bool
	NoPanic              bool // with Polite: no panicking operation at all
}

func c08TLARef(r c08Ref) string { return fmt.Sprintf(`[t |-> "%s", n |-> %d]`, r.T, r.N) }

func c08TLAOp(o c08Op) string {
	return fmt.Sprintf(`[op |-> "%s", c |-> %s, d |-> %s, i |-> %d, j |-> %d, k |-> %d, f |-> "%s", vs |-> <<>>, r |-> <<>>, p |-> "", w |-> [s |-> <<>>, a |-> <<>>]]`,
		o.Op, c08TLARef(o.C), c08TLARef(o.D), o.I, o.J, o.K, o.F)
}

// record renders the family as one element of the model's Configs sequence.
func (f *c08Family) record() string {
	b := func(x bool) string { return strings.ToUpper(fmt.Sprint(x)) }
	var scs []string
	for _, sc := range f.Scripts {
		var ops []string
		for _, o := range sc {
			ops = append(ops, c08TLAOp(o))
		}
		scs = append(scs, "<<"+strings.Join(ops, ",\n    ")+">>")
	}
	mk := f.Mk
	if mk == "" {
		mk = "{<<0, 0>>, <<0, 3>>, <<1, 2>>, <<2, 2>>, <<2, 4>>, <<3, 3>>, <<-1, 2>>, <<3, 2>>}"
	}
	lit := f.LitNs
	if lit == "" {
		lit = "{0, 1, 2, 3}"
	}
	quoted := make([]string, len(f.Ops))
	for i, o := range f.Ops {
		quoted[i] = `"` + o + `"`
	}
	return fmt.Sprintf("[name |-> \"%s\", NS |-> %d, NA |-> %d, NM |-> %d, NT |-> %d, NStr |-> %d, Ops |-> {%s}, MaxOps |-> %d, Polite |-> %s, PanicLast |-> %s,\n  Scripts |-> <<%s>>,\n  Free |-> %s, LitNs |-> %s, MkShapes |-> %s]",
		f.Name, f.NS, f.NA, f.NM, f.NT, f.NStr, strings.Join(quoted, ", "), f.MaxOps, b(f.Polite), b(!f.NoPanic), strings.Join(scs, ",\n  "), b(f.Free), lit, mk)
}

// c08Run is one TLC run over several configurations.
type c08Run struct {
	Name     string
	Fams     []*c08Family
	TwoStage bool
	Broken   string
	Emit     bool
}

func (r *c08Run) mcdefs() string {
	recs := make([]string, len(r.Fams))
	for i, f := range r.Fams {
		recs[i] = f.record()
	}
	return "c_Configs == <<\n " + strings.Join(recs, ",\n ") + ">>\n"
}

func (r *c08Run) cfg() string {
	b := func(x bool) string { return strings.ToUpper(fmt.Sprint(x)) }
	broken := r.Broken
	if broken == "" {
		broken = "none"
	}
	inv := "ChkOK TypeOK"
	if r.Emit {
		inv += " Emit"
	}
	return fmt.Sprintf("SPECIFICATION Spec\nCONSTANTS\n Configs <- c_Configs\n AL = 3\n MaxLen = 6\n TwoStage = %s\n Broken = \"%s\"\n EmitOn = %s\nINVARIANTS %s\n",
		b(r.TwoStage), broken, b(r.Emit), inv)
}

func c08S(n int) c08Ref { return c08Ref{"s", n} }
func c08A(n int) c08Ref { return c08Ref{"a", n} }
func c08M(n int) c08Ref { return c08Ref{"m", n} }
func c08T(n int) c08Ref { return c08Ref{"t", n} }

var c08Pa = c08Ref{"pa", 0}

var c08SliceOps = []string{"mk", "lit", "nil", "idxr", "idxw", "addr", "per", "pew", "sl2", "sl3", "app", "apps", "copy", "range", "pass"}
var c08ArrayOps = []string{"alit", "aasg", "pstore", "pass", "paset", "idxr", "idxw", "addr", "pew", "per", "sl2", "sl3", "app", "range", "copy"}
var c08MapOps = []string{"mmake", "mlit", "mnil", "malias", "mset", "mget", "mdel"}
var c08StructOps = []string{"stlit", "stasg", "ptstore", "fldw", "fldr", "ptset", "passt"}
var c08StrOps = []string{"strlit", "stridx", "strsl", "strcat", "strrange"}

func c08AllOps() []string {
	seen := map[string]bool{}
	var all []string
	for _, l := range [][]string{c08SliceOps, c08ArrayOps, c08MapOps, c08StructOps, c08StrOps, {"penil"}} {
		for _, o := range l {
			if !seen[o] {
				seen[o] = true
				all = append(all, o)
			}
		}
	}
	sort.Strings(all)
	return all
}

// aliasing prefixes of the slice family
func c08SlicePrefixes() [][]c08Op {
	return [][]c08Op{
		// s1 shares s0's array and has one spare element of capacity
		{{Op: "lit", D: c08S(0), I: 3, F: "full"}, {Op: "sl2", C: c08S(0), D: c08S(1), I: 0, J: 2}},
		// 3-index slice in the middle of a larger array: its capacity ends before the array does
		{{Op: "mk", D: c08S(0), I: 2, J: 4}, {Op: "sl3", C: c08S(0), D: c08S(1), I: 1, J: 2, K: 2}},
		// overlapping windows [0:2] and [1:3] of one array (copy with overlap in both directions)
		{{Op: "lit", D: c08S(0), I: 3, F: "full"}, {Op: "sl2", C: c08S(0), D: c08S(0), I: 0, J: 2}, {Op: "sl2", C: c08S(0), D: c08S(1), I: 1, J: 3}},
		// a grown slice (capacity unknown) next to its source
		{{Op: "lit", D: c08S(0), I: 3, F: "full"}, {Op: "app", C: c08S(0), D: c08S(1), K: 1}},
		// an empty window with spare capacity lying over the tail of another window: appending
		// the other window to it in place moves elements onto themselves
		{{Op: "lit", D: c08S(0), I: 3, F: "full"}, {Op: "sl2", C: c08S(0), D: c08S(0), I: 0, J: 2}, {Op: "sl3", C: c08S(0), D: c08S(1), I: 1, J: 1, K: 3}},
	}
}

func c08ArrayPrefixes() [][]c08Op {
	return [][]c08Op{
		{{Op: "alit", D: c08A(0), F: "full"}, {Op: "paset", C: c08A(0), F: "addr"}},
		{{Op: "alit", D: c08A(0), F: "full"}, {Op: "sl2", C: c08A(0), D: c08S(0), I: 0, J: 2}},
		{{Op: "alit", D: c08A(0), F: "full"}, {Op: "aasg", C: c08A(0), D: c08A(1)}, {Op: "addr", C: c08A(1), I: 2}},
	}
}

func c08MapPrefixes() [][]c08Op {
	return [][]c08Op{{{Op: "mlit", D: c08M(0), I: 2}, {Op: "malias", C: c08M(0), D: c08M(1)}}}
}

func c08StrPrefixes() [][]c08Op {
	str := func(n int) c08Ref { return c08Ref{"str", n} }
	return [][]c08Op{{{Op: "strlit", D: str(0), I: 3}, {Op: "strsl", C: str(0), D: str(1), I: 0, J: 2}}}
}

func c08StructPrefixes() [][]c08Op {
	return [][]c08Op{
		{{Op: "stlit", D: c08T(0), F: "keyed"}, {Op: "ptset", C: c08T(0), F: "addr"}},
		{{Op: "stlit", D: c08T(0), F: "pos"}, {Op: "stasg", C: c08T(0), D: c08T(1)}, {Op: "ptset", F: "lit"}},
	}
}

// c08Families: the bounded-exhaustive configurations. Slicing operands dominate the branching,
// so the quick tier explores slicing one operation deep after each aliasing prefix and the
// non-slicing operations two deep; the thorough tier explores everything two or three deep.
func c08Families(c *core.Ctx) []*c08Family {
	mk3 := "{<<2, 4>>, <<-1, 2>>, <<3, 2>>}"
	afterAlias := []string{"idxr", "idxw", "sl2", "sl3", "app", "apps", "copy", "range", "pass", "addr", "pew"}
	var fams []*c08Family
	if !c.Thorough() {
		fams = []*c08Family{
			{Name: "bfs-slices", NS: 2, Ops: c08SliceOps, Free: true, MaxOps: 2, LitNs: "{3}", Mk: mk3},
			{Name: "bfs-slices-after-alias-1", NS: 2, Ops: afterAlias, Scripts: c08SlicePrefixes(), MaxOps: 1, LitNs: "{3}"},
			{Name: "bfs-slices-after-alias-2", NS: 2, Ops: []string{"idxw", "app", "apps", "copy", "pass", "pew"}, Scripts: c08SlicePrefixes(), MaxOps: 2, LitNs: "{3}"},
			{Name: "bfs-arrays-1", NS: 1, NA: 2, Ops: c08ArrayOps, Scripts: c08ArrayPrefixes(), MaxOps: 1, LitNs: "{2}", Mk: mk3},
			{Name: "bfs-arrays-2", NS: 1, NA: 2, Ops: []string{"alit", "aasg", "pstore", "pass", "paset", "idxw", "range", "pew"}, Scripts: c08ArrayPrefixes(), MaxOps: 2, LitNs: "{2}", Mk: mk3},
			{Name: "bfs-maps", NM: 2, Ops: c08MapOps, Scripts: c08MapPrefixes(), Free: true, MaxOps: 2},
			{Name: "bfs-structs", NT: 2, Ops: c08StructOps, Scripts: c08StructPrefixes(), Free: true, MaxOps: 2},
			{Name: "bfs-strings", NStr: 2, Ops: c08StrOps, Free: true, MaxOps: 2},
		}
	} else {
		fams = []*c08Family{
			{Name: "bfs-slices", NS: 2, Ops: c08SliceOps, Free: true, MaxOps: 2, LitNs: "{0, 3}"},
			{Name: "bfs-slices-after-alias-1", NS: 2, Ops: afterAlias, Scripts: c08SlicePrefixes(), MaxOps: 1, LitNs: "{3}"},
			{Name: "bfs-slices-after-alias-2", NS: 2, Ops: []string{"idxw", "sl3", "app", "apps", "copy", "pew"}, Scripts: c08SlicePrefixes(), MaxOps: 2, LitNs: "{3}", NoPanic: true},
			{Name: "bfs-arrays", NS: 1, NA: 2, Ops: []string{"alit", "aasg", "pstore", "pass", "paset", "idxr", "idxw", "sl2", "range", "addr", "pew"},
				Scripts: c08ArrayPrefixes(), MaxOps: 2, LitNs: "{2}", Mk: mk3, NoPanic: true},
			{Name: "bfs-arrays-1", NS: 1, NA: 2, Ops: c08ArrayOps, Scripts: c08ArrayPrefixes(), Free: true, MaxOps: 1, LitNs: "{2}", Mk: mk3},
			{Name: "bfs-maps", NM: 2, Ops: c08MapOps, Free: true, MaxOps: 3},
			{Name: "bfs-maps-after-alias", NM: 2, Ops: c08MapOps, Scripts: c08MapPrefixes(), MaxOps: 2},
			{Name: "bfs-structs", NT: 2, Ops: []string{"stlit", "stasg", "ptstore", "fldw", "ptset", "passt"}, Free: true, MaxOps: 3},
			{Name: "bfs-structs-after-alias", NT: 2, Ops: c08StructOps, Scripts: c08StructPrefixes(), MaxOps: 2},
			{Name: "bfs-strings", NStr: 2, Ops: c08StrOps, Scripts: c08StrPrefixes(), Free: true, MaxOps: 2},
		}
	}
	for _, f := range fams {
		f.Polite = true
	}
	return fams
}

// fixed scripts: one small behaviour per container shape, re-rendered for every cell
func c08CellScripts() (scripts [][]c08Op, shapes []string) {
	add := func(shape string, ops ...c08Op) {
		scripts = append(scripts, ops)
		shapes = append(shapes, shape)
	}
	add("slice", c08Op{Op: "lit", D: c08S(0), I: 3, F: "full"}, c08Op{Op: "idxr", C: c08S(0), I: 2}, c08Op{Op: "idxw", C: c08S(0), I: 2},
		c08Op{Op: "idxr", C: c08S(0), I: 2}, c08Op{Op: "addr", C: c08S(0), I: 0}, c08Op{Op: "pew"}, c08Op{Op: "idxr", C: c08S(0), I: 0},
		c08Op{Op: "per"}, c08Op{Op: "idxw", C: c08S(0), I: 3})
	add("array", c08Op{Op: "alit", D: c08A(0), F: "full"}, c08Op{Op: "idxr", C: c08A(0), I: 2}, c08Op{Op: "idxw", C: c08A(0), I: 2},
		c08Op{Op: "idxr", C: c08A(0), I: 2}, c08Op{Op: "aasg", C: c08A(0), D: c08A(1)}, c08Op{Op: "addr", C: c08A(1), I: 0}, c08Op{Op: "pew"},
		c08Op{Op: "idxr", C: c08A(0), I: 0}, c08Op{Op: "idxr", C: c08A(1), I: 0}, c08Op{Op: "idxr", C: c08A(0), I: 3})
	add("ptr-array", c08Op{Op: "alit", D: c08A(0), F: "full"}, c08Op{Op: "paset", C: c08A(0), F: "addr"}, c08Op{Op: "idxr", C: c08Pa, I: 2},
		c08Op{Op: "idxw", C: c08Pa, I: 2}, c08Op{Op: "idxr", C: c08A(0), I: 2}, c08Op{Op: "addr", C: c08Pa, I: 0}, c08Op{Op: "pew"},
		c08Op{Op: "idxr", C: c08Pa, I: 0}, c08Op{Op: "idxw", C: c08Pa, I: 3})
	add("string", c08Op{Op: "strlit", D: c08Ref{"str", 0}, I: 3}, c08Op{Op: "stridx", C: c08Ref{"str", 0}, I: 0},
		c08Op{Op: "stridx", C: c08Ref{"str", 0}, I: 2}, c08Op{Op: "stridx", C: c08Ref{"str", 0}, I: 3})
	add("map", c08Op{Op: "mlit", D: c08M(0), I: 1}, c08Op{Op: "mget", C: c08M(0), I: 0, F: "v"}, c08Op{Op: "mget", C: c08M(0), I: 0, F: "ok"},
		c08Op{Op: "mget", C: c08M(0), I: 1, F: "v"}, c08Op{Op: "mget", C: c08M(0), I: 1, F: "ok"}, c08Op{Op: "mset", C: c08M(0), I: 1},
		c08Op{Op: "mget", C: c08M(0), I: 1, F: "ok"}, c08Op{Op: "mset", C: c08M(0), I: 0}, c08Op{Op: "mget", C: c08M(0), I: 0, F: "v"},
		c08Op{Op: "mdel", C: c08M(0), I: 0}, c08Op{Op: "mget", C: c08M(0), I: 0, F: "ok"}, c08Op{Op: "mnil", D: c08M(0)},
		c08Op{Op: "mget", C: c08M(0), I: 1, F: "v"}, c08Op{Op: "mset", C: c08M(0), I: 1})
	return
}

// ---------------------------------------------------------------------------------------------

type c08Job struct {
	rec   *c08Rec
	raw   []byte
	fam   string
	shape string // cell scripts only
}

func c08RunTLC(c *core.Ctx, run *c08Run, sim bool, num, depth, workers int, out *[]c08Job) error {
	byName := map[string]*c08Family{}
	for _, f := range run.Fams {
		byName[f.Name] = f
	}
	n0 := len(*out)
	collect := func(line []byte) {
		var r c08Rec
		if err := json.Unmarshal(line, &r); err == nil && len(r.Hist) > 0 {
			*out = append(*out, c08Job{rec: &r, raw: append([]byte(nil), line...), fam: r.Fam})
		}
	}
	res, err := c.TLC(core.TLCOpts{Spec: "Heap", CfgName: run.Name, MCDefs: run.mcdefs(), Cfg: run.cfg(), Workers: workers,
		Simulate: sim, SimNum: num, SimDepth: depth, Seed: c.Seed, OnLine: collect, Timeout: 25 * time.Minute})
	if err == nil && run.Emit {
		// every script must have been accepted by the model up to its last operation
		done := map[string]bool{}
		count := map[string]int{}
		for _, j := range (*out)[n0:] {
			f := byName[j.fam]
			if f == nil {
				return core.Infra("%s: record of unknown configuration %q", run.Name, j.fam)
			}
			count[j.fam]++
			if j.rec.Sc >= 1 && j.rec.Sc <= len(f.Scripts) && len(j.rec.Hist) >= len(f.Scripts[j.rec.Sc-1]) {
				done[fmt.Sprint(j.fam, "/", j.rec.Sc)] = true
			}
		}
		for _, f := range run.Fams {
			for k := 1; k <= len(f.Scripts); k++ {
				if !done[fmt.Sprint(f.Name, "/", k)] {
					err = core.Infra("%s: script %d is not accepted by the model (an operand outside the candidate sets?)", f.Name, k)
				}
			}
			c.Extra["histories:"+f.Name] = count[f.Name]
		}
	}
	if res != nil {
		fmt.Printf("C08: TLC %-14s %8d states %7d histories %6.1fs\n", run.Name, res.Distinct, len(*out)-n0, res.Wall.Seconds())
	}
	return err
}

func runC08(c *core.Ctx) error {
	// (R) fixed scripts for the specialisation cells (the model supplies results and dump),
	// (M)+(R) bounded-exhaustive families: one BFS run over all configurations;
	// long histories by balanced simulation: two runs. The three runs are concurrent.
	scripts, shapes := c08CellScripts()
	cellFam := &c08Family{Name: "cell-scripts", NS: 1, NA: 2, NM: 1, NStr: 1, Ops: c08AllOps(), Scripts: scripts}
	bfs := &c08Run{Name: "bfs", Fams: append([]*c08Family{cellFam}, c08Families(c)...), Emit: true}
	simOps := c.Pick(10, 20)
	simAll := &c08Run{Name: "sim-all-ops", TwoStage: true, Emit: true, Fams: []*c08Family{
		{Name: "sim-all-ops", NS: 3, NA: 2, NM: 2, NT: 2, NStr: 1, Ops: c08AllOps(), Free: true, MaxOps: simOps, Polite: true}}}
	simSl := &c08Run{Name: "sim-slices", TwoStage: true, Emit: true, Fams: []*c08Family{
		{Name: "sim-slices", NS: 3, NA: 1, Ops: append(append([]string{}, c08SliceOps...), "alit", "paset", "aasg"), Free: true, MaxOps: c.Pick(8, 14), Polite: true}}}
	runs := []*c08Run{bfs, simAll, simSl}
	outs := make([][]c08Job, len(runs))
	errs := make([]error, len(runs))
	core.ParDo(len(runs), len(runs), func(i int) {
		if i == 0 {
			errs[i] = c08RunTLC(c, runs[i], false, 0, 0, 4, &outs[i])
		} else {
			errs[i] = c08RunTLC(c, runs[i], true, c.Pick(20, 100), 2*runs[i].Fams[0].MaxOps+2, 2, &outs[i])
		}
	})
	for _, e := range errs {
		if e != nil {
			return e
		}
	}
	var cellJobs, jobs []c08Job
	for _, j := range outs[0] {
		if j.fam == "cell-scripts" {
			if j.rec.Sc < 1 || j.rec.Sc > len(shapes) || len(j.rec.Hist) != len(scripts[j.rec.Sc-1]) || j.rec.Pan == "" {
				return core.Infra("cell script %d: the model stopped after %d operations (panic %q)", j.rec.Sc, len(j.rec.Hist), j.rec.Pan)
			}
			j.shape = shapes[j.rec.Sc-1]
			cellJobs = append(cellJobs, j)
		} else {
			jobs = append(jobs, j)
		}
	}
	if len(cellJobs) != len(scripts) {
		return core.Infra("cell scripts: %d behaviours for %d scripts", len(cellJobs), len(scripts))
	}
	nbfs := len(jobs)
	jobs = append(append(jobs, outs[1]...), outs[2]...)
	// native gate of the model: every record is executed with compiled Go's own operators
	shownRejects := 0
	modelGate := func(in []c08Job) (out []c08Job) {
		for _, j := range in {
			why := c08NativeCheck(j.rec)
			c.Gate(why == "")
			if why == "" {
				out = append(out, j)
			} else if shownRejects < 3 {
				shownRejects++
				fmt.Printf("GATE-REJECT property=%s (Heap.tla disagrees with compiled Go; behaviour dropped): %s\n  record: %s\n", c.ID, why, j.raw)
			}
		}
		return
	}
	cellJobs = modelGate(cellJobs)
	bfsJobs, simJobs := modelGate(jobs[:nbfs]), modelGate(jobs[nbfs:])
	nbfsKept := len(bfsJobs)
	jobs = append(bfsJobs, simJobs...)
	if v := os.Getenv("C08_MAXVIOL"); v != "" { // development aid: show more disagreements
		fmt.Sscan(v, &c.MaxViolations)
	}
	if os.Getenv("C08_TLCONLY") != "" {
		return core.Infra("C08_TLCONLY set: stopping after the TLC runs")
	}
	c.Extra["bfs_histories"] = nbfs
	c.Extra["simulated_histories"] = len(jobs) - nbfs

	var forced, rest []*ProgCase
	seen := map[string]bool{}
	tags := map[string]bool{}
	add := func(pc *ProgCase, rt *c08Rendered, force bool) {
		if pc == nil || seen[pc.Key] {
			return
		}
		seen[pc.Key] = true
		// a case showing a rendering shape for the first time is always gated natively
		for _, t := range rt.Tags {
			if c.Thorough() {
				t += "/" + rt.Elem
			}
			if !tags[t] {
				tags[t] = true
				force = true
			}
		}
		if force {
			forced = append(forced, pc)
		} else {
			rest = append(rest, pc)
		}
	}
	// cells
	cells := c08Cells()
	ncell := 0
	for _, j := range cellJobs {
		for ci, cell := range cells {
			if cell.Shape != j.shape {
				continue
			}
			pc, rt := c08Render(j.rec, j.raw, cell.Elem, cell.Key, c08Forms{Idx: cell.Idx, Use: cell.Use}, "cell:"+cell.Name)
			ncell++
			// quick: every cell is replayed; a seeded third of them (plus every first shape) is gated
			add(pc, rt, c.Thorough() || (ci+int(c.Seed))%3 == 0)
		}
	}
	c.Extra["cells"] = ncell
	// histories
	rng := rand.New(rand.NewSource(c.Seed*7919 + 17))
	per := 1
	opsSeen := map[string]int{}
	for i := range jobs {
		j := &jobs[i]
		for _, o := range j.rec.Hist {
			opsSeen[o.Op]++
		}
		if i >= nbfsKept {
			per = c.Pick(1, 2) // simulated histories: two renderings in the thorough tier
		}
		for k := 0; k < per; k++ {
			elem := c08ElemKinds[rng.Intn(len(c08ElemKinds))]
			key := c08KeyKinds[rng.Intn(len(c08KeyKinds))]
			pc, rt := c08Render(j.rec, j.raw, elem, key, c08Forms{Idx: "mix", Use: "mix", Seed: rng.Int63()}, j.fam)
			add(pc, rt, false)
		}
	}
	for _, o := range c08AllOps() {
		if opsSeen[o] == 0 {
			return core.Infra("operation kind %s never occurred in a generated history", o)
		}
	}
	c.Extra["rendering_shapes"] = len(tags)
	for i, pc := range rest {
		if i%(len(rest)/3+1) == 0 {
			c.Sample(map[string]interface{}{"program": pc.Decls, "expected_events": pc.WantEvents, "expected_result": pc.WantResult})
		}
	}
	c.Assume("run-time panics are compared by class (index, slice bounds, nil map, nil dereference, makeslice) and by the point where they occur; the panic VALUE (gomacro raises reflect's messages, not runtime.Error values) is not compared")
	c.Assume("the capacity after a growing append is unspecified: the model offers no operation whose outcome depends on it, the observed capacity is only checked against the needed length")
	fmt.Printf("C08: %d cell programs, %d histories (%d exhaustive); %d programs gated for their rendering shape, %d gated by sampling\n",
		ncell, len(jobs), nbfs, len(forced), len(rest))
	// native gate: every first rendering shape, plus a seeded sample of the rest
	frac := 0.01
	if c.Thorough() {
		frac = 0.02
	}
	gated := forced
	var ungated []*ProgCase
	for _, pc := range rest {
		if rng.Float64() < frac {
			gated = append(gated, pc)
		} else {
			ungated = append(ungated, pc)
		}
	}
	return c08GateAndReplay(c, gated, ungated)
}

// c08GateAndReplay gates the first list natively (rejected behaviours are dropped) and replays
// everything that remains on the interpreter.
func c08GateAndReplay(c *core.Ctx, gated, ungated []*ProgCase) error {
	t0 := time.Now()
	kept, err := c08GatePacked(c, gated, 40)
	if err != nil {
		return err
	}
	t1 := time.Now()
	err = RunProgCases(c, append(kept, ungated...), ProgOpts{Prelude: c08Prelude, Sig: c08Sig, Reuse: 60})
	if len(gated)+len(ungated) > 10 {
		fmt.Printf("C08: native gate %d programs %.1fs, interpreter %d programs %.1fs\n", len(gated), t1.Sub(t0).Seconds(), len(kept)+len(ungated), time.Since(t1).Seconds())
	}
	return err
}

func replayC08(c *core.Ctx, raw json.RawMessage) error {
	var w struct {
		Record json.RawMessage `json:"record"`
		Decls  string          `json:"decls"`
		Entry  string          `json:"entry"`
	}
	if err := json.Unmarshal(raw, &w); err != nil {
		return err
	}
	var meta struct {
		Rec   c08Rec   `json:"rec"`
		Elem  string   `json:"elem"`
		Key   string   `json:"key"`
		Forms c08Forms `json:"forms"`
		Fam   string   `json:"fam"`
		Raw   string   `json:"raw"`
	}
	if err := json.Unmarshal(w.Record, &meta); err != nil {
		return err
	}
	pc, _ := c08Render(&meta.Rec, []byte(meta.Raw), meta.Elem, meta.Key, meta.Forms, meta.Fam)
	if pc.Decls != w.Decls {
		return core.Infra("replay: the stored record no longer renders to the stored program")
	}
	return c08GateAndReplay(c, []*ProgCase{pc}, nil)
}

func selfTestC08(c *core.Ctx) error {
	// broken mechanisms must violate the value-level statements of the Go specification
	fam := func() *c08Family {
		return &c08Family{Name: "after-alias", NS: 2, Ops: []string{"idxw", "sl3", "app", "copy"}, Scripts: c08SlicePrefixes()[:3],
			MaxOps: 2, LitNs: "{3}", Polite: true, NoPanic: true}
	}
	for _, v := range []string{"append-ignores-cap", "copy-forward", "slice3-ignores-max"} {
		run := &c08Run{Name: "broken-" + v, Fams: []*c08Family{fam()}, Broken: v}
		r, err := c.TLC(core.TLCOpts{Spec: "Heap", CfgName: run.Name, MCDefs: run.mcdefs(), Cfg: run.cfg(), Workers: 4, ExpectError: true})
		if err != nil {
			return err
		}
		if r.Violated != "ChkOK" {
			return fmt.Errorf("broken variant %s not caught (violated=%q)", v, r.Violated)
		}
	}
	// the same configuration without a defect holds; the cell scripts are accepted
	scripts, shapes := c08CellScripts()
	cellFam := &c08Family{Name: "cell-scripts", NS: 1, NA: 2, NM: 1, NStr: 1, Ops: c08AllOps(), Scripts: scripts}
	var out []c08Job
	unbroken := &c08Run{Name: "unbroken", Fams: []*c08Family{fam()}}
	if _, err := c.TLC(core.TLCOpts{Spec: "Heap", CfgName: unbroken.Name, MCDefs: unbroken.mcdefs(), Cfg: unbroken.cfg(), Workers: 4}); err != nil {
		return err
	}
	if err := c08RunTLC(c, &c08Run{Name: "cell-scripts", Fams: []*c08Family{cellFam}, Emit: true}, false, 0, 0, 2, &out); err != nil {
		return err
	}
	// a corrupted record (one logged value changed) must be rejected by the native gate of the
	// model and by the compiled gate of the rendered program
	for _, j := range out {
		if j.fam != "cell-scripts" || shapes[j.rec.Sc-1] != "slice" {
			continue
		}
		if why := c08NativeCheck(j.rec); why != "" {
			return fmt.Errorf("the slice script is rejected by the native gate: %s", why)
		}
		good, _ := c08Render(j.rec, j.raw, "int", "int", c08Forms{Idx: "var", Use: "direct"}, "selftest")
		bad := *j.rec
		bad.Hist = append([]c08Op(nil), j.rec.Hist...)
		for i := range bad.Hist {
			if bad.Hist[i].Op == "idxr" {
				bad.Hist[i].R = []int{bad.Hist[i].R[0] + 1}
				break
			}
		}
		if c08NativeCheck(&bad) == "" {
			return fmt.Errorf("a corrupted record was not rejected by the native gate of the model")
		}
		badpc, _ := c08Render(&bad, j.raw, "int", "int", c08Forms{Idx: "var", Use: "direct"}, "selftest")
		cs := core.NewCtx("C08", "selftest")
		if err := c08GateAndReplay(cs, []*ProgCase{good}, nil); err != nil {
			return err
		}
		if cs.GateRejects != 0 || cs.Violations() != 0 {
			return fmt.Errorf("the uncorrupted slice script is rejected (gate rejects %d, violations %d)", cs.GateRejects, cs.Violations())
		}
		cb := core.NewCtx("C08", "selftest")
		if err := c08GateAndReplay(cb, []*ProgCase{badpc}, nil); err != nil {
			return err
		}
		if cb.GateRejects != 1 {
			return fmt.Errorf("a corrupted record was not rejected by the compiled gate")
		}
		return nil
	}
	return fmt.Errorf("slice script missing")
}

// ---------------------------------------------------------------------------------------------
// conformance relation and signatures

// c08Class projects a result to what the property compares: the values, or the class of panic.
func c08Class(result string) string {
	if !strings.HasPrefix(result, "panic(") && !strings.HasPrefix(result, "declpanic(") {
		return result
	}
	if strings.HasPrefix(result, "declpanic(") {
		return "compile-error"
	}
	inner := strings.TrimSuffix(strings.TrimPrefix(result, "panic("), ")")
	inner = strings.TrimPrefix(inner, "error:")
	switch {
	case inner == "index" || strings.Contains(inner, "index out of range"):
		return "panic(index)"
	case inner == "slice" || strings.Contains(inner, "slice bounds out of range") || strings.Contains(inner, "slice index out of bounds"):
		return "panic(slice)"
	case inner == "makeslice" || strings.Contains(inner, "reflect.MakeSlice: negative len") || strings.Contains(inner, "reflect.MakeSlice: negative cap") ||
		strings.Contains(inner, "reflect.MakeSlice: len > cap"):
		// make with a bad length / capacity: the interpreter builds the slice by slicing, so the
		// bounds classes "slice" and "makeslice" are one class for this property
		return "panic(slice)"
	case inner == "nilmap" || strings.Contains(inner, "assignment to entry in nil map"):
		return "panic(nilmap)"
	case inner == "nilderef" || strings.Contains(inner, "nil pointer dereference") || strings.Contains(inner, "on zero Value"):
		return "panic(nilderef)"
	}
	return "panic(other:" + inner + ")"
}

func c08Admissible(pc *ProgCase) func(events []string, result string) bool {
	return func(events []string, result string) bool {
		if c08Class(result) != pc.WantResult || len(events) != len(pc.WantEvents) {
			return false
		}
		for i := range events {
			if events[i] != pc.WantEvents[i] {
				return false
			}
		}
		return true
	}
}

// c08Sig: heap(<op>,<container>,<element kind>):<shape of the disagreement>
func c08Sig(pc *ProgCase, events []string, result string) string {
	var meta struct {
		Rec      c08Rec   `json:"rec"`
		Elem     string   `json:"elem"`
		Key      string   `json:"key"`
		EvOp     []int    `json:"ev_op"`
		EvKind   []string `json:"ev_kind"`
		BodyLine int      `json:"body_line"`
		LineOp   []int    `json:"line_op"`
	}
	json.Unmarshal(pc.Raw, &meta)
	opName := func(i int) (string, string) {
		if i < 0 || i >= len(meta.Rec.Hist) {
			return "dump", "all"
		}
		o := meta.Rec.Hist[i]
		cont := o.C.T
		if cont == "" {
			cont = o.D.T
		}
		if cont == "" {
			cont = map[string]string{"per": "pe", "pew": "pe", "penil": "pe", "paset": "pa", "ptset": "pt"}[o.Op]
		}
		return o.Op, cont
	}
	kindOf := func(cont string) string {
		if cont == "m" {
			return meta.Key + "->" + meta.Elem
		}
		if cont == "str" {
			return "byte"
		}
		return meta.Elem
	}
	got := c08Class(result)
	if got == "compile-error" {
		// the interpreter's message names a line of the program: the operation rendered there
		op, cont, kind := "unknown", "unknown", meta.Elem
		if m := c08RePos.FindStringSubmatch(result); m != nil {
			var line int
			fmt.Sscan(m[1], &line)
			if k := line - meta.BodyLine; k >= 0 && k < len(meta.LineOp) {
				op, cont = opName(meta.LineOp[k])
				kind = kindOf(cont)
			}
		}
		if (strings.Contains(result, "non-integer") && strings.Contains(result, "index")) ||
			strings.Contains(result, "invalid slice index: expecting integer, found: ") ||
			(strings.Contains(result, "cannot use") && strings.Contains(result, "as int in builtin make()")) {
			// a type-check of the index operand: independent of the element kind
			return fmt.Sprintf("heap(%s,%s,any):compile-differs[index-of-non-int-integer-type]", op, cont)
		}
		return fmt.Sprintf("heap(%s,%s,%s):compile-differs", op, cont, kind)
	}
	// first differing event
	n := len(events)
	if len(pc.WantEvents) < n {
		n = len(pc.WantEvents)
	}
	d := 0
	for d < n && events[d] == pc.WantEvents[d] {
		d++
	}
	last := len(meta.Rec.Hist) - 1
	evOwner := func(d int) (string, string) {
		if d < len(meta.EvOp) && meta.EvKind[d] != "dump" {
			return opName(meta.EvOp[d])
		}
		return opName(last)
	}
	if got != pc.WantResult {
		// the history ends differently: a panic is missing, unexpected or of another class
		op, cont := opName(last)
		if meta.Rec.Pan == "" {
			// the specification does not panic: the operation owning the first event that is
			// missing or different is the one that panicked on the interpreter
			op, cont = evOwner(d)
		}
		return fmt.Sprintf("heap(%s,%s,%s):panic-differs", op, cont, kindOf(cont))
	}
	if d < len(pc.WantEvents) || d < len(events) {
		op, cont := evOwner(d)
		shape := "value-differs"
		if d < len(meta.EvKind) {
			switch meta.EvKind[d] {
			case "hdr":
				shape = "len-cap-differs"
			case "seen":
				// the operation's effect as seen through the slice and array variables
				shape = "alias-differs"
			case "dump":
				// the final state differs although every logged observation agreed: an effect
				// became visible (or failed to) through another container
				shape = "alias-differs"
			}
		}
		return fmt.Sprintf("heap(%s,%s,%s):%s", op, cont, kindOf(cont), shape)
	}
	return "heap(unknown,unknown," + meta.Elem + "):value-differs"
}

var c08RePos = regexp.MustCompile(`:(\d+):(\d+):`)

func c08Hash(s string) string {
	h := fnv.New64a()
	h.Write([]byte(s))
	return fmt.Sprintf("%x", h.Sum64())
}

var _ = show.Show

package props

import (
	"bufio"
	"bytes"
	"encoding/json"
	"fmt"
	"go/token"
	"os"
	"path/filepath"
	"regexp"
	"strconv"
	"strings"
	"sync"
	"sync/atomic"
	"time"

	"github.com/cosmos72/gomacro/fast"
	"github.com/cosmos72/gomacro/go/etoken"

	"verif/harness/core"
)

// C27: reported source positions. Spec: spec/front/Positions.tla.
// Part 1: TLC enumerates texts (sequences of chunk shapes) with every placement of one
// offending token in the last chunk and the position the property demands (its position in the
// original text); the harness renders the text, locates the token natively (gate), evaluates
// the text through Interp.Eval (one string), Interp.EvalFile/EvalReader (file mode) and
// Interp.Repl (reader) and compares the position in the error text / breakpoint.
// Part 2: TLC enumerates file sets; each is built in etoken.FileSet and in the standard
// token.FileSet (gate) and Position / PositionFor / Source are compared for every offset.

func init() {
	core.Register(&core.Prop{
		ID: "C27",
		Rule: "TLC enumerates sequences of chunk shapes (leading blank/comment lines, a general comment ending on the first code line, 1..3 code lines, indentation) x entry point (Eval of a string, EvalFile, Repl on a reader) " +
			"with every placement (kind in undefined identifier / syntax error / type mismatch / misplaced break / breakpoint, code line, optional two-byte character before it) of one offending token in the last chunk (BFS bounded-exhaustive + seeded simulation of longer texts), " +
			"and file sets (base, size, line table, line offset) with the position of every offset; a case is one evaluated (text, entry, placement) or one (file, offset) lookup; " +
			"non-trivial = the offending token is not on the first line of the text or not at the first column / the offset is not 0; distinct by text+entry / file geometry+offset",
		Run:      runC27,
		Replay:   replayC27,
		SelfTest: selfTestC27,
	})
}

type c27Shape struct {
	Lead int `json:"lead"`
	Pre  int `json:"pre"`
	Body int `json:"body"`
	Ind  int `json:"ind"`
}
type c27Report struct {
	K     string `json:"k"`
	L     int    `json:"l"`
	W     int    `json:"w"`
	Line  int    `json:"line"`
	Col   int    `json:"col"`
	ILine int    `json:"iline"`
	ICol  int    `json:"icol"`
	Dup   bool   `json:"dup"`
	Cut   bool   `json:"cut"`
}
type c27Rec struct {
	Entry   string      `json:"entry"`
	Chunks  []c27Shape  `json:"chunks"`
	Reports []c27Report `json:"reports"`
}

func c27SetInts(xs []int) string {
	var p []string
	for _, x := range xs {
		p = append(p, fmt.Sprint(x))
	}
	return "{" + strings.Join(p, ", ") + "}"
}

type c27Bounds struct {
	Leads, Pres, Bodies, Indents []int
	MaxChunks                    int
	FsSizes, FsGaps, FsLineOffs  []int
	MaxFiles                     int
}

func c27Cfg(spec string, b c27Bounds, afterEval, readCounts, cutAtToken, emit bool, emitAt int, invs string, view bool) string {
	up := func(x bool) string { return strings.ToUpper(fmt.Sprint(x)) }
	s := fmt.Sprintf("SPECIFICATION %s\nCONSTANTS\n Entries = {\"eval\", \"file\", \"repl\"}\n Leads = %s\n Pres = %s\n Bodies = %s\n Indents = %s\n MaxChunks = %d\n"+
		" AfterEvalCounts = %s\n ReadCountsLead = %s\n CutAtToken = %s\n FsSizes = %s\n FsGaps = %s\n FsLineOffs = %s\n MaxFiles = %d\n EmitOn = %s\n EmitAt = %d\nINVARIANTS %s\n",
		spec, c27SetInts(b.Leads), c27SetInts(b.Pres), c27SetInts(b.Bodies), c27SetInts(b.Indents), b.MaxChunks,
		up(afterEval), up(readCounts), up(cutAtToken), c27SetInts(b.FsSizes), c27SetInts(b.FsGaps), c27SetInts(b.FsLineOffs), b.MaxFiles, up(emit), emitAt, invs)
	if view {
		s += "VIEW PosView\n"
	}
	return s
}

// ---------------------------------------------------------------------------
// rendering (widths are fixed by the specification: see TrueCol in Positions.tla)

const c27Wide = "/*é*/ "

func c27Marker(k string) string {
	switch k {
	case "undef":
		return "undefQ"
	case "syntax":
		return ")"
	case "mismatch":
		return `w%d = "mm"`
	case "break":
		return "break"
	case "bp":
		return `"break"`
	}
	return "?"
}

// c27Render returns the text and the byte offset of the offending token (-1 if rep is nil)
func c27Render(chunks []c27Shape, rep *c27Report) (string, int) {
	var b strings.Builder
	at := -1
	for ci, ch := range chunks {
		id := ci + 1
		switch ch.Lead {
		case 1:
			b.WriteString("\n")
		case 2:
			fmt.Fprintf(&b, "// note %d\n\n", id)
		}
		switch ch.Pre {
		case 1:
			b.WriteString("/* c */ ")
		case 2:
			b.WriteString("/* a\n b */ ")
		case 3:
			b.WriteString("/* a\n b\n c */ ")
		}
		b.WriteString(strings.Repeat(" ", ch.Ind))
		off := ci == len(chunks)-1 && rep != nil
		k, l, wide := "", 0, ""
		if off {
			k, l = rep.K, rep.L
			if rep.W == 1 {
				wide = c27Wide
			}
		}
		put := func(tok string) {
			b.WriteString(wide)
			at = b.Len()
			b.WriteString(tok)
		}
		for li := 1; li <= ch.Body; li++ {
			last := li == ch.Body
			cont := ""
			if !last {
				cont = " +"
			}
			if li > 1 {
				b.WriteString("    ")
			}
			switch {
			case off && (k == "undef" || k == "syntax") && li == l:
				if li == 1 {
					fmt.Fprintf(&b, "v%d := ", id)
				}
				put(c27Marker(k))
				b.WriteString(cont)
			case off && k == "mismatch" && li == 1:
				fmt.Fprintf(&b, "var w%d int; ", id)
				put(fmt.Sprintf(c27Marker(k), id))
				b.WriteString(cont)
			case off && k == "mismatch":
				fmt.Fprintf(&b, "%q%s", "s", cont)
			case off && k == "bp":
				switch {
				case li == 1:
					fmt.Fprintf(&b, "func f%d() {", id)
				case li == 2 && last:
					put(c27Marker(k))
					fmt.Fprintf(&b, "; }; f%d()", id)
				case li == 2:
					put(c27Marker(k))
				default:
					fmt.Fprintf(&b, "}; f%d()", id)
				}
			case off && k == "break" && last:
				if li == 1 {
					fmt.Fprintf(&b, "v%d := 1; ", id)
				} else {
					b.WriteString("2; ")
				}
				put(c27Marker(k))
			default:
				if li == 1 {
					fmt.Fprintf(&b, "v%d := %d%s", id, li, cont)
				} else {
					fmt.Fprintf(&b, "%d%s", li, cont)
				}
			}
			b.WriteString("\n")
		}
	}
	return b.String(), at
}

// native location of an offset: line and byte column, both 1-based (gate)
func c27Locate(text string, off int) (int, int) {
	line := 1 + strings.Count(text[:off], "\n")
	col := off - (strings.LastIndexByte(text[:off], '\n') + 1) + 1
	return line, col
}

// ---------------------------------------------------------------------------
// evaluation

var c27PosRe = regexp.MustCompile(`(?m)^([^\s:][^:\n]*):(\d+):(\d+): (.*)$`)

type c27Obs struct {
	File      string
	Line, Col int
	Msg       string
	Raw       string
}

type c27Dbg struct{ pos []token.Position }

func (d *c27Dbg) Breakpoint(ir *fast.Interp, env *fast.Env) fast.DebugOp {
	if env.IP < len(env.DebugPos) {
		d.pos = append(d.pos, ir.Comp.Fileset.Position(env.DebugPos[env.IP]))
	} else {
		d.pos = append(d.pos, token.Position{})
	}
	return fast.DebugOpContinue
}
func (d *c27Dbg) At(ir *fast.Interp, env *fast.Env) fast.DebugOp { return fast.DebugOpContinue }

type c27Interp struct {
	ir   *fast.Interp
	out  bytes.Buffer
	dbg  *c27Dbg
	used int
	dir  string
	n    int
}

func newC27Interp(dir string, n int) *c27Interp {
	g := &c27Interp{ir: fast.New(), dbg: &c27Dbg{}, dir: dir, n: n}
	gl := &g.ir.Comp.Globals
	gl.Stdout = &g.out
	gl.Stderr = &g.out
	g.ir.SetDebugger(g.dbg)
	return g
}

var c27Expect = map[string]string{
	"undef":    "undefined identifier: undefQ",
	"syntax":   "expected operand, found ')'",
	"mismatch": "error compiling assignment",
	"break":    "break outside for/switch",
}

// run evaluates text through the entry point and returns the observed position of the
// offending token of kind k
func (g *c27Interp) run(entry, k, text string) (obs c27Obs, fileName string) {
	g.out.Reset()
	g.dbg.pos = nil
	g.used++
	gl := &g.ir.Comp.Globals
	gl.Line = 0 // what a fresh interpreter has (EvalReader and the interactive REPL reset it themselves)
	fileName = gl.Filepath
	var panicText string
	func() {
		defer func() {
			if r := recover(); r != nil {
				panicText = fmt.Sprint(r)
			}
		}()
		switch entry {
		case "eval":
			g.ir.Eval(text)
		case "repl":
			g.ir.Repl(bufio.NewReader(strings.NewReader(text)))
		case "file":
			fileName = filepath.Join(g.dir, fmt.Sprintf("w%d.gomacro", g.n))
			if err := os.WriteFile(fileName, []byte(text), 0o644); err != nil {
				panic(err)
			}
			if _, err := g.ir.EvalFile(fileName); err != nil {
				panicText = err.Error()
			}
		}
	}()
	raw := g.out.String() + panicText
	obs.Raw = raw
	if k == "bp" {
		if len(g.dbg.pos) == 1 {
			p := g.dbg.pos[0]
			obs.File, obs.Line, obs.Col, obs.Msg = p.Filename, p.Line, p.Column, "breakpoint"
		}
		return
	}
	want := c27Expect[k]
	for _, m := range c27PosRe.FindAllStringSubmatch(raw, -1) {
		if strings.Contains(m[4], want) {
			obs.File = m[1]
			obs.Line, _ = strconv.Atoi(m[2])
			obs.Col, _ = strconv.Atoi(m[3])
			obs.Msg = m[4]
			return
		}
	}
	return
}

type c27Case struct {
	Entry  string     `json:"entry"`
	Chunks []c27Shape `json:"chunks"`
	Report c27Report  `json:"report"`
	Text   string     `json:"text"`
}

type c27Finding struct{ Sig, What string }

func c27Judge(cs *c27Case, obs c27Obs, fileName string) *c27Finding {
	r := cs.Report
	head := fmt.Sprintf("entry %s, text %q, offending %s token on code line %d of the last chunk: true position %s:%d:%d, reported ",
		cs.Entry, cs.Text, r.K, r.L, filepath.Base(fileName), r.Line, r.Col)
	if obs.Msg == "" {
		return &c27Finding{"no-position-reported:" + r.K, head + fmt.Sprintf("nothing recognisable (output %q)", obs.Raw)}
	}
	head += fmt.Sprintf("%s:%d:%d (%s)", filepath.Base(obs.File), obs.Line, obs.Col, obs.Msg)
	if obs.Line == r.Line && obs.Col == r.Col && obs.File == fileName {
		return nil
	}
	if obs.File != fileName {
		return &c27Finding{"file-name-differs", head + fmt.Sprintf("; expected file name %q, got %q", fileName, obs.File)}
	}
	// the two mechanisms the specification names; any other difference is reported as such
	implExact := obs.Line == r.ILine && obs.Col == r.ICol
	switch {
	case implExact && r.Dup && !r.Cut && obs.Col == r.Col && obs.Line > r.Line:
		return &c27Finding{"SigCommentLinesCountedTwice:line-too-large-by-the-counted-comment-lines", head}
	case implExact && r.Cut && !r.Dup && obs.Line == r.Line && obs.Col < r.Col:
		return &c27Finding{"SigFirstChunkCutAtToken:column-too-small-by-the-cut-prefix", head}
	}
	return &c27Finding{fmt.Sprintf("position-differs(dline=%+d,dcol=%+d):%s", obs.Line-r.Line, obs.Col-r.Col, cs.Entry), head}
}

var (
	c27ConfMu sync.Mutex
	c27Conf   = map[string]int{}
)

func c27Confirmed(sig string) int {
	c27ConfMu.Lock()
	defer c27ConfMu.Unlock()
	c27Conf[sig]++
	return c27Conf[sig]
}

type c27Worker struct {
	g   *c27Interp
	dir string
	id  int
}

func (w *c27Worker) interp() *c27Interp {
	if w.g == nil || w.g.used >= 300 {
		w.g = newC27Interp(w.dir, w.id)
	}
	return w.g
}

func c27Nontrivial(r c27Report) bool { return r.Line > 1 || r.Col > 1 }

// one record: every placement
func c27Record(c *core.Ctx, w *c27Worker, rec *c27Rec, kinds map[string]bool) error {
	for i := range rec.Reports {
		r := rec.Reports[i]
		{
			k := r.K
			rr := r
			if !kinds[k] {
				continue
			}
			text, at := c27Render(rec.Chunks, &rr)
			if at < 0 {
				return core.Infra("renderer did not place the token: %+v", rr)
			}
			// gate: native location of the token in the rendered text
			gl, gc := c27Locate(text, at)
			ok := gl == rr.Line && gc == rr.Col
			c.Gate(ok)
			if !ok {
				if c.GateRejects <= 3 {
					fmt.Printf("  gate reject: %q token at %d:%d, specification says %d:%d\n", text, gl, gc, rr.Line, rr.Col)
				}
				continue
			}
			cs := &c27Case{Entry: rec.Entry, Chunks: rec.Chunks, Report: rr, Text: text}
			c.Case(rec.Entry+"|"+text, c27Nontrivial(rr))
			c.Trace()
			obs, fn := w.interp().run(rec.Entry, k, text)
			if f := c27Judge(cs, obs, fn); f != nil {
				// confirm: the first occurrences of a signature in a fresh interpreter, later
				// ones by a second recording on a renewed worker interpreter
				fresh := w.g
				if c27Confirmed(f.Sig) <= 3 {
					fresh = newC27Interp(w.dir, w.id)
				}
				obs2, fn2 := fresh.run(rec.Entry, k, text)
				f2 := c27Judge(cs, obs2, fn2)
				if f2 == nil || f2.Sig != f.Sig {
					return core.Infra("mismatch not reproducible in a fresh interpreter: %s", f.What)
				}
				c.Violation(f2.Sig, f2.What, cs)
			}
		}
	}
	return nil
}

// ---------------------------------------------------------------------------
// file sets

type c27File struct {
	Base    int   `json:"base"`
	Size    int   `json:"size"`
	Starts  []int `json:"starts"`
	LineOff int   `json:"lineoff"`
	Gap     int   `json:"gap"`
	Pos     []struct {
		Line    int `json:"line"`
		Col     int `json:"col"`
		SrcLine int `json:"srcline"`
	} `json:"pos"`
}
type c27FsRec struct {
	Files []c27File `json:"files"`
}

func c27CheckFs(c *core.Ctx, rec *c27FsRec, count bool) []string {
	var mism []string
	efs := etoken.NewFileSet()
	sfs := token.NewFileSet()
	for fi, f := range rec.Files {
		name := fmt.Sprintf("f%d.go", fi)
		base := f.Base
		if f.Gap == 0 {
			base = -1 // "use the next free base": both sets must agree with the specification's base
		}
		ef := efs.AddFile(name, base, f.Size, f.LineOff)
		sf := sfs.AddFile(name, base, f.Size)
		if ef.Base() != f.Base || sf.Base() != f.Base {
			mism = append(mism, fmt.Sprintf("file %d: base etoken=%d go/token=%d specification=%d", fi, ef.Base(), sf.Base(), f.Base))
			continue
		}
		if len(f.Starts) > 1 {
			if !ef.SetLines(f.Starts) || !sf.SetLines(f.Starts) {
				mism = append(mism, fmt.Sprintf("file %d: SetLines(%v) refused", fi, f.Starts))
				continue
			}
		}
		// source lines: line i is "L<i>" padded to the line's width
		content := make([]byte, f.Size)
		var srcLines []string
		for i := range f.Starts {
			end := f.Size
			if i+1 < len(f.Starts) {
				end = f.Starts[i+1]
			}
			seg := content[f.Starts[i]:end]
			for j := range seg {
				seg[j] = byte('a' + i)
			}
			if i+1 < len(f.Starts) {
				seg[len(seg)-1] = '\n'
				srcLines = append(srcLines, string(seg[:len(seg)-1]))
			} else if len(seg) > 0 {
				srcLines = append(srcLines, string(seg))
			}
		}
		ef.SetSourceForContent(content)
		for off := 0; off <= f.Size; off++ {
			want := f.Pos[off]
			p := token.Pos(f.Base + off)
			std := sfs.Position(p)
			// gate: the specification against the standard library, shifted by the offset
			ok := std.Line+f.LineOff == want.Line && std.Column == want.Col && std.Offset == off && std.Filename == name
			if count {
				c.Gate(ok)
				c.Case(fmt.Sprintf("fs|%d|%d|%v|%d|%d", f.Base, f.Size, f.Starts, f.LineOff, off), off > 0)
			}
			if !ok {
				continue
			}
			for _, got := range []struct {
				what string
				pos  token.Position
			}{
				{"FileSet.Position", efs.Position(p)},
				{"FileSet.PositionFor(adjusted=false)", efs.PositionFor(p, false)},
				{"File.Position", ef.Position(p)},
				{"FileSet.File(p).PositionFor(adjusted=true)", efs.File(p).PositionFor(p, true)},
			} {
				g := got.pos
				if g.Line != want.Line || g.Column != want.Col || g.Offset != off || g.Filename != name {
					mism = append(mism, fmt.Sprintf("file %d (base %d size %d lines %v line offset %d) offset %d: %s = %s:%d:%d (offset %d), specification %s:%d:%d",
						fi, f.Base, f.Size, f.Starts, f.LineOff, off, got.what, g.Filename, g.Line, g.Column, g.Offset, name, want.Line, want.Col))
				}
			}
			line, pos := efs.Source(p)
			wantSrc := ""
			if want.SrcLine >= 1 && want.SrcLine <= len(srcLines) {
				wantSrc = srcLines[want.SrcLine-1]
			}
			if line != wantSrc || pos.Line != want.Line || pos.Column != want.Col {
				mism = append(mism, fmt.Sprintf("file %d (lines %v line offset %d) offset %d: FileSet.Source = (%q, %d:%d), specification (%q, %d:%d)",
					fi, f.Starts, f.LineOff, off, line, pos.Line, pos.Column, wantSrc, want.Line, want.Col))
			}
		}
	}
	// positions outside every file are invalid in both
	if p := efs.Position(token.NoPos); p.IsValid() {
		mism = append(mism, "Position(NoPos) is valid")
	}
	return mism
}

// ---------------------------------------------------------------------------

func c27Stream(c *core.Ctx, o core.TLCOpts, workers int, handle func(w *c27Worker, line []byte) error) error {
	dir, err := os.MkdirTemp("", "verif-c27-")
	if err != nil {
		return core.Infra("mktemp: %v", err)
	}
	defer os.RemoveAll(dir)
	var mu sync.Mutex
	var firstErr error
	ch := make(chan []byte, 1024)
	var wg sync.WaitGroup
	for i := 0; i < workers; i++ {
		wg.Add(1)
		go func(id int) {
			defer wg.Done()
			w := &c27Worker{dir: dir, id: id}
			for line := range ch {
				var err error
				func() {
					defer func() {
						if r := recover(); r != nil {
							err = core.Infra("harness panic: %v", r)
						}
					}()
					err = handle(w, line)
				}()
				if err != nil {
					mu.Lock()
					if firstErr == nil {
						firstErr = err
					}
					mu.Unlock()
				}
			}
		}(i)
	}
	o.OnLine = func(line []byte) { ch <- append([]byte(nil), line...) }
	_, err = c.TLC(o)
	close(ch)
	wg.Wait()
	if err != nil {
		return err
	}
	return firstErr
}

const c27InvM = "ImplExactModuloKnown ExactWhenRepaired SurplusOrigin"

var c27AllKinds = map[string]bool{"undef": true, "syntax": true, "mismatch": true, "break": true, "bp": true}

func c27Full() c27Bounds {
	return c27Bounds{Leads: []int{0, 1, 2}, Pres: []int{0, 1, 2, 3}, Bodies: []int{1, 2, 3}, Indents: []int{0, 2},
		MaxChunks: 2, FsSizes: []int{0, 1, 2, 3, 4, 5}, FsGaps: []int{0, 2}, FsLineOffs: []int{0, 1, 7}, MaxFiles: 2}
}

func runC27(c *core.Ctx) error {
	full := c27Full()
	timeout := 4 * time.Minute
	if c.Thorough() {
		timeout = 14 * time.Minute
	}
	runM := func() error {
		// (M) the mechanism against the truth on every sequence of <= 4 chunks x <= 3 code lines
		// (a VIEW keeps only what the invariants read: TLC explores one history per abstract state)
		deep := full
		deep.MaxChunks = 4
		rep := deep
		if !c.Thorough() {
			// columns do not depend on the history and a 2-line body adds no new arithmetic:
			// the thorough tier keeps the full alphabets
			deep.Indents, deep.Bodies = []int{0}, []int{1, 3}
			rep = deep
			rep.MaxChunks = 2
		}
		if _, err := c.TLC(core.TLCOpts{Spec: "Positions", CfgName: "M-4-chunks",
			Cfg: c27Cfg("Spec", deep, true, true, true, false, 0, c27InvM, true), Workers: 2, Timeout: timeout}); err != nil {
			return err
		}
		// (M) the repaired mechanism is exact
		if _, err := c.TLC(core.TLCOpts{Spec: "Positions", CfgName: "M-repaired",
			Cfg: c27Cfg("Spec", rep, true, false, false, false, 0, c27InvM, true), Workers: 2, Timeout: timeout}); err != nil {
			return err
		}
		return nil
	}
	runR := func() error {
		// (R) bounded-exhaustive texts
		rb := full
		if !c.Thorough() {
			rb.Leads, rb.Bodies = []int{0, 2}, []int{1, 3}
		}
		var sampled int32
		handle := func(w *c27Worker, line []byte) error {
			var rec c27Rec
			if err := json.Unmarshal(line, &rec); err != nil {
				return core.Infra("bad record from TLC: %v", err)
			}
			if len(rec.Chunks) >= 2 && rec.Chunks[1].Pre >= 2 && atomic.AddInt32(&sampled, 1) <= 2 {
				t, _ := c27Render(rec.Chunks, &rec.Reports[0])
				c.Sample(map[string]interface{}{"record": json.RawMessage(line), "text_for_first_report": t})
			}
			return c27Record(c, w, &rec, c27AllKinds)
		}
		if err := c27Stream(c, core.TLCOpts{Spec: "Positions", CfgName: "R-bfs-2-chunks",
			Cfg: c27Cfg("Spec", rb, true, true, true, true, 0, c27InvM+" Emit", false), Workers: 4, Timeout: timeout}, 6, handle); err != nil {
			return err
		}
		c.Exhaustive = true
		// (R) longer texts, sampled
		sim := full
		sim.MaxChunks = 4
		if err := c27Stream(c, core.TLCOpts{Spec: "Positions", CfgName: "R-sim-4-chunks",
			Cfg:      c27Cfg("Spec", sim, true, true, true, true, 4, c27InvM+" Emit", false),
			Simulate: true, SimNum: c.Pick(60, 1500), SimDepth: 5, Seed: c.Seed, Workers: 4, Timeout: timeout}, 6, handle); err != nil {
			return err
		}
		return nil
	}
	runF := func() error {
		// (M)+(R) file sets
		fb := full
		if c.Thorough() {
			fb.FsSizes = []int{0, 1, 2, 3, 4, 5, 6}
		} else {
			fb.FsSizes = []int{0, 1, 3, 4}
			fb.FsLineOffs = []int{0, 7}
		}
		var fsSampled int32
		fsHandle := func(w *c27Worker, line []byte) error {
			var rec c27FsRec
			if err := json.Unmarshal(line, &rec); err != nil {
				return core.Infra("bad record from TLC: %v", err)
			}
			if len(rec.Files) == 2 && len(rec.Files[1].Starts) >= 2 && atomic.AddInt32(&fsSampled, 1) <= 1 {
				c.Sample(json.RawMessage(line))
			}
			c.Trace()
			if m := c27CheckFs(c, &rec, true); len(m) > 0 {
				if m2 := c27CheckFs(c, &rec, false); len(m2) == 0 {
					return core.Infra("file-set mismatch not reproducible: %v", m)
				}
				c.Violation("fileset-position-differs", strings.Join(m, "\n"), &rec)
			}
			return nil
		}
		if err := c27Stream(c, core.TLCOpts{Spec: "Positions", CfgName: "FS-bfs-2-files",
			Cfg: c27Cfg("SpecFS", fb, true, true, true, true, 0, "FsOK EmitFS", false), Workers: 2, Timeout: timeout}, 4, fsHandle); err != nil {
			return err
		}
		big := full
		big.FsSizes, big.FsLineOffs, big.MaxFiles = []int{0, 3, 8}, []int{0, 7}, 4
		if !c.Thorough() {
			big.FsSizes, big.MaxFiles = []int{0, 3, 6}, 3
		}
		if err := c27Stream(c, core.TLCOpts{Spec: "Positions", CfgName: "FS-sim",
			Cfg:      c27Cfg("SpecFS", big, true, true, true, true, big.MaxFiles, "FsOK EmitFS", false),
			Simulate: true, SimNum: c.Pick(1, 8), SimDepth: big.MaxFiles + 1, Seed: c.Seed, Workers: 2, Timeout: timeout}, 4, fsHandle); err != nil {
			return err
		}
		return nil
	}
	// the three groups are independent: run them side by side (8 TLC workers in total)
	errs := make([]error, 3)
	var wg sync.WaitGroup
	for i, f := range []func() error{runM, runR, runF} {
		wg.Add(1)
		go func(i int, f func() error) {
			defer wg.Done()
			defer func() {
				if r := recover(); r != nil {
					errs[i] = core.Infra("harness panic: %v", r)
				}
			}()
			errs[i] = f()
		}(i, f)
	}
	wg.Wait()
	for _, e := range errs {
		if e != nil {
			return e
		}
	}
	c.Assume("Interp.Eval(string) is specified on an interpreter whose line counter is 0 (fresh, or as the interactive REPL resets it before every input); after EvalReader/Repl the counter keeps the lines consumed and a later Eval reports positions shifted by it - that combination is not specified and not checked")
	c.Assume("a type mismatch in an assignment is reported at the start of the assignment statement (the error text names the assignment); a run-time panic carries no source position in its text, so panic locations are only observed through breakpoints")
	c.Assume("columns are byte columns (go/token); //line directives and File.AddLineInfo are not used; File.Line (promoted from go/token, unshifted) is not part of the property")
	return nil
}

func replayC27(c *core.Ctx, raw json.RawMessage) error {
	var probe struct {
		Files []c27File `json:"files"`
	}
	if json.Unmarshal(raw, &probe) == nil && len(probe.Files) > 0 {
		rec := c27FsRec{Files: probe.Files}
		if m := c27CheckFs(c, &rec, false); len(m) > 0 {
			c.Violation("fileset-position-differs", strings.Join(m, "\n"), &rec)
		}
		return nil
	}
	var cs c27Case
	if err := json.Unmarshal(raw, &cs); err != nil {
		return err
	}
	text, _ := c27Render(cs.Chunks, &cs.Report)
	if text != cs.Text {
		return core.Infra("the stored text %q is not what the shapes render now (%q)", cs.Text, text)
	}
	dir, err := os.MkdirTemp("", "verif-c27-")
	if err != nil {
		return core.Infra("mktemp: %v", err)
	}
	defer os.RemoveAll(dir)
	obs, fn := newC27Interp(dir, 0).run(cs.Entry, cs.Report.K, cs.Text)
	if f := c27Judge(&cs, obs, fn); f != nil {
		c.Violation(f.Sig, f.What, &cs)
	}
	return nil
}

func selfTestC27(c *core.Ctx) error {
	b := c27Full()
	// broken variant: afterEval does not advance the line counter
	r, err := c.TLC(core.TLCOpts{Spec: "Positions", CfgName: "broken-afterEval",
		Cfg: c27Cfg("Spec", b, false, true, true, false, 0, "ImplExactModuloKnown", true), ExpectError: true, Workers: 2})
	if err != nil {
		return err
	}
	if r.Violated != "ImplExactModuloKnown" {
		return fmt.Errorf("broken variant AfterEvalCounts=FALSE not detected by TLC (violated=%q)", r.Violated)
	}
	dir, err := os.MkdirTemp("", "verif-c27-")
	if err != nil {
		return err
	}
	defer os.RemoveAll(dir)
	// a correct record is accepted, a corrupted one (line off by one) rejected
	chunks := []c27Shape{{Lead: 2, Pre: 0, Body: 2, Ind: 0}, {Lead: 1, Pre: 0, Body: 2, Ind: 2}}
	rep := c27Report{K: "undef", L: 2, W: 1, Line: 7, Col: 12, ILine: 7, ICol: 12}
	text, at := c27Render(chunks, &rep)
	if l, col := c27Locate(text, at); l != rep.Line || col != rep.Col {
		return fmt.Errorf("renderer/locator disagree with the hand-computed position: %d:%d in %q", l, col, text)
	}
	for _, entry := range []string{"eval", "file", "repl"} {
		cs := &c27Case{Entry: entry, Chunks: chunks, Report: rep, Text: text}
		obs, fn := newC27Interp(dir, 0).run(entry, rep.K, text)
		if f := c27Judge(cs, obs, fn); f != nil {
			return fmt.Errorf("correct record rejected: %s", f.What)
		}
		bad := *cs
		bad.Report.Line++
		bad.Report.ILine++
		if f := c27Judge(&bad, obs, fn); f == nil {
			return fmt.Errorf("corrupted record accepted (%s)", entry)
		}
	}
	// file set: corrupted expectation rejected
	var fr c27FsRec
	js := `{"files":[{"base":1,"size":3,"starts":[0,2],"lineoff":5,"gap":0,"pos":[{"line":6,"col":1,"srcline":1},{"line":6,"col":2,"srcline":1},{"line":7,"col":1,"srcline":2},{"line":7,"col":2,"srcline":2}]}]}`
	if err := json.Unmarshal([]byte(js), &fr); err != nil {
		return err
	}
	if m := c27CheckFs(c, &fr, false); len(m) != 0 {
		return fmt.Errorf("correct file-set record rejected: %v", m)
	}
	fr.Files[0].LineOff = 4 // the specification's positions now disagree with offset+standard: gate must notice
	before := c.GateRejects
	c27CheckFs(c, &fr, true)
	if c.GateRejects == before {
		return fmt.Errorf("corrupted file-set record passed the gate")
	}
	return nil
}

package props

import (
	"encoding/json"
	"fmt"
	"math/rand"
	"runtime"
	"strings"
	"sync"

	"verif/harness/core"
	"verif/harness/gate"
	"verif/harness/gm"
)

// ProgCase is one rendered behaviour of a program-level specification module: Go source in
// the common rendering (declarations + entry expression, events through ev()/evi()), and the
// observation the specification expects.
type ProgCase struct {
	Key        string // distinctness key
	Nontrivial bool
	Imports    []string
	Decls      string
	Entry      string // expression evaluated after the declarations
	WantEvents []string
	WantResult string // "[v, ...]" or "panic(...)"
	Raw        json.RawMessage
	// Admissible, when set, replaces equality with WantEvents/WantResult
	// (nondeterministic specifications).
	Admissible func(events []string, result string) bool
}

type ProgOpts struct {
	GateFraction float64 // fraction of cases compiled natively (1 = all)
	Reuse        int     // programs per interpreter before it is replaced (default 100)
	Sig          func(pc *ProgCase, events []string, result string) string
	Prelude      string // evaluated once in every fresh interpreter (type declarations etc.)
	GatePrelude  string // same declarations for the native package (default = Prelude)
	Workers      int
	Book         bool // events carry the executor bookkeeping suffix
	// After, if set, runs after each case in the same interpreter (battery, snapshots);
	// a non-empty return value is a disagreement to confirm and report.
	After func(g *gm.Interp, pc *ProgCase) string
}

func describeDiff(want, got []string, wantRes, gotRes string) string {
	var b strings.Builder
	n := len(want)
	if len(got) < n {
		n = len(got)
	}
	i := 0
	for i < n && eventEq(want[i], got[i]) {
		i++
	}
	if i < len(want) || i < len(got) {
		w, g := "<end>", "<end>"
		if i < len(want) {
			w = want[i]
		}
		if i < len(got) {
			g = got[i]
		}
		fmt.Fprintf(&b, "event %d: specification %s, observed %s; ", i, w, g)
	}
	if wantRes != gotRes {
		fmt.Fprintf(&b, "result: specification %s, observed %s", wantRes, gotRes)
	}
	return b.String()
}

// stripBook removes the bookkeeping suffix (" |isdef:.. depth:..") that only the interpreter
// side can observe.
func stripBook(ev []string) []string {
	out := make([]string, len(ev))
	for i, e := range ev {
		if k := strings.Index(e, " |"); k >= 0 {
			e = e[:k]
		}
		out[i] = e
	}
	return out
}

func progConforms(pc *ProgCase, events []string, result string) bool {
	if pc.Admissible != nil {
		return pc.Admissible(events, result)
	}
	if result != pc.WantResult || len(events) != len(pc.WantEvents) {
		return false
	}
	for i := range events {
		if !eventEq(pc.WantEvents[i], events[i]) {
			return false
		}
	}
	return true
}

// eventEq compares an expected with an observed event; an expected "depth:0" means the
// specification does not predict the call depth at that point.
func eventEq(want, got string) bool {
	if want == got {
		return true
	}
	if strings.HasSuffix(want, " depth:0") {
		if k := strings.LastIndex(got, " depth:"); k >= 0 {
			return want[:len(want)-len(" depth:0")] == got[:k]
		}
	}
	return false
}

// runOnGomacro evaluates one case in interpreter g.
func runOnGomacro(g *gm.Interp, pc *ProgCase) (events []string, result string) {
	g.ResetEvents()
	g.Out.Reset()
	if pc.Decls != "" {
		r := g.Eval(pc.Decls)
		if r.Panicked {
			return append([]string(nil), g.Events...), "declpanic(" + r.Panic + ")"
		}
	}
	r := g.Eval(pc.Entry)
	return append([]string(nil), g.Events...), r.String()
}

func newProgInterp(o *ProgOpts) *gm.Interp {
	g := gm.New()
	g.Book = o.Book
	for _, im := range []string{"errors", "fmt"} {
		g.Eval(fmt.Sprintf("import %q", im))
	}
	if o.Prelude != "" {
		if r := g.Eval(o.Prelude); r.Panicked {
			panic("prelude failed: " + r.Panic)
		}
	}
	return g
}

// RunProgCases gates (a fraction of) the cases natively, replays all of them on gomacro and
// reports confirmed disagreements.
func RunProgCases(c *core.Ctx, cases []*ProgCase, o ProgOpts) error {
	if o.Reuse == 0 {
		o.Reuse = 100
	}
	if o.Workers == 0 {
		o.Workers = runtime.NumCPU()
	}
	if o.GatePrelude == "" {
		o.GatePrelude = o.Prelude
	}
	// --- Go gate
	dropped := make([]bool, len(cases))
	gated := make([]bool, len(cases))
	var gateMu sync.Mutex
	ondemand := 0
	if o.GateFraction > 0 {
		rng := rand.New(rand.NewSource(c.Seed))
		var idx []int
		var progs []gate.Prog
		for i, pc := range cases {
			if o.GateFraction >= 1 || rng.Float64() < o.GateFraction {
				idx = append(idx, i)
				imps := append([]string{"errors", "fmt"}, pc.Imports...)
				progs = append(progs, gate.Prog{Imports: imps, Decls: "var _ = errors.New\nvar _ = fmt.Sprint\n" + o.GatePrelude + "\n" + pc.Decls, Entry: pc.Entry})
			}
		}
		outs, err := gate.Run(c.Verif, progs)
		if err != nil {
			return core.Infra("go gate: %v", err)
		}
		shown := 0
		for k, i := range idx {
			gc := *cases[i]
			gc.WantEvents = stripBook(gc.WantEvents)
			ok := outs[k].CompileError == "" && progConforms(&gc, outs[k].Events, outs[k].Result)
			c.Gate(ok)
			gated[i] = true
			if !ok {
				dropped[i] = true
				if shown < 3 {
					shown++
					fmt.Printf("GATE-REJECT property=%s (specification disagrees with compiled Go; behaviour dropped): %s %s\n  program: %s\n",
						c.ID, outs[k].CompileError, describeDiff(cases[i].WantEvents, outs[k].Events, cases[i].WantResult, outs[k].Result),
						strings.ReplaceAll(cases[i].Decls, "\n", "\n    "))
				}
			}
		}
	}
	// --- replay on gomacro
	var mu sync.Mutex
	var firstErr error
	type job struct{ lo, hi int }
	chunk := 50
	var jobs []job
	for lo := 0; lo < len(cases); lo += chunk {
		hi := lo + chunk
		if hi > len(cases) {
			hi = len(cases)
		}
		jobs = append(jobs, job{lo, hi})
	}
	core.ParDo(len(jobs), o.Workers, func(j int) {
		var g *gm.Interp
		used := 0
		for i := jobs[j].lo; i < jobs[j].hi; i++ {
			if dropped[i] {
				continue
			}
			pc := cases[i]
			if g == nil || used >= o.Reuse {
				g = newProgInterp(&o)
				used = 0
			}
			used++
			events, result := runOnGomacro(g, pc)
			c.Case(pc.Key, pc.Nontrivial)
			c.Trace()
			if progConforms(pc, events, result) {
				continue
			}
			// confirm in a fresh interpreter
			g = nil
			fresh := newProgInterp(&o)
			ev2, res2 := runOnGomacro(fresh, pc)
			if progConforms(pc, ev2, res2) {
				mu.Lock()
				if firstErr == nil {
					firstErr = core.Infra("disagreement not reproducible in a fresh interpreter (state leaked from an earlier program?): %s", describeDiff(pc.WantEvents, events, pc.WantResult, result))
				}
				mu.Unlock()
				continue
			}
			// a verdict is only taken on a program the Go gate has seen: gate it now if the
			// sampled gate did not (the first few per run; a specification bug is dropped)
			if o.GateFraction > 0 && !gated[i] {
				gateMu.Lock()
				try := ondemand < 40
				ondemand++
				gateMu.Unlock()
				if try {
					imps := append([]string{"errors", "fmt"}, pc.Imports...)
					outs, err := gate.Run(c.Verif, []gate.Prog{{Imports: imps, Decls: "var _ = errors.New\nvar _ = fmt.Sprint\n" + o.GatePrelude + "\n" + pc.Decls, Entry: pc.Entry}})
					if err == nil && len(outs) == 1 {
						gc := *pc
						gc.WantEvents = stripBook(gc.WantEvents)
						ok := outs[0].CompileError == "" && progConforms(&gc, outs[0].Events, outs[0].Result)
						c.Gate(ok)
						if !ok {
							fmt.Printf("GATE-REJECT property=%s (specification disagrees with compiled Go; behaviour dropped): %s %s\n  program: %s\n",
								c.ID, outs[0].CompileError, describeDiff(pc.WantEvents, outs[0].Events, pc.WantResult, outs[0].Result),
								strings.ReplaceAll(pc.Decls, "\n", "\n    "))
							continue
						}
					}
				}
			}
			sig := "mismatch"
			if o.Sig != nil {
				sig = o.Sig(pc, ev2, res2)
			}
			what := describeDiff(pc.WantEvents, ev2, pc.WantResult, res2) + "\nprogram:\n" + pc.Decls + "\nentry: " + pc.Entry
			c.Violation(sig, what, map[string]interface{}{"record": pc.Raw, "decls": pc.Decls, "entry": pc.Entry,
				"want_events": pc.WantEvents, "want_result": pc.WantResult, "got_events": ev2, "got_result": res2})
		}
	})
	return firstErr
}

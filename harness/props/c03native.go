package props

// C03 gate, native half: the conversions performed by the Go compiler itself for non-constant
// operands. One generic helper per conversion family, instantiated for every ordered pair of
// types of the universe (basic kinds, named variants, byte/rune slices), registered in a table
// keyed by the canonical type names. Never reads /repo.

import (
	"reflect"
	"strings"
)

type (
	c03Mybool       bool
	c03Myint        int
	c03Myint8       int8
	c03Myint16      int16
	c03Myint32      int32
	c03Myint64      int64
	c03Myuint       uint
	c03Myuint8      uint8
	c03Myuint16     uint16
	c03Myuint32     uint32
	c03Myuint64     uint64
	c03Myuintptr    uintptr
	c03Myfloat32    float32
	c03Myfloat64    float64
	c03Mycomplex64  complex64
	c03Mycomplex128 complex128
	c03Mystring     string
	c03Mybytes      []byte
	c03Myrunes      []rune
)

type c03Integer interface {
	~int | ~int8 | ~int16 | ~int32 | ~int64 | ~uint | ~uint8 | ~uint16 | ~uint32 | ~uint64 | ~uintptr
}
type c03Real interface {
	c03Integer | ~float32 | ~float64
}
type c03Cplx interface{ ~complex64 | ~complex128 }
type c03Str interface{ ~string }
type c03BytesLike interface{ ~[]byte | ~[]c03Myuint8 }
type c03RunesLike interface{ ~[]rune | ~[]c03Myint32 }

// c03NativeTab: "src->dst" (canonical names) -> compiled conversion
var c03NativeTab = map[string]func(interface{}) interface{}{}

// c03NativeTypes: canonical name -> reflect.Type of the harness's own copy of the type
var c03NativeTypes = map[string]reflect.Type{}

// c03CanonRT turns a reflect type string of the harness ("props.c03Myint8", "[]uint8") into the
// canonical name used in signatures and comparisons ("Myint8", "[]uint8").
func c03CanonRT(t reflect.Type) string {
	return strings.ReplaceAll(t.String(), "props.c03", "")
}

func c03Reg[S, D any](f func(S) D) {
	var s S
	var d D
	ts, td := reflect.TypeOf(s), reflect.TypeOf(d)
	c03NativeTypes[c03CanonRT(ts)] = ts
	c03NativeTypes[c03CanonRT(td)] = td
	c03NativeTab[c03CanonRT(ts)+"->"+c03CanonRT(td)] = func(x interface{}) interface{} { return f(x.(S)) }
}

func c03RR[S, D c03Real]()                  { c03Reg(func(s S) D { return D(s) }) }
func c03CC[S, D c03Cplx]()                  { c03Reg(func(s S) D { return D(s) }) }
func c03IS[S c03Integer, D c03Str]()        { c03Reg(func(s S) D { return D(s) }) }
func c03SS[S, D c03Str]()                   { c03Reg(func(s S) D { return D(s) }) }
func c03SB[S c03Str, D c03BytesLike]()      { c03Reg(func(s S) D { return D(s) }) }
func c03BS[S c03BytesLike, D c03Str]()      { c03Reg(func(s S) D { return D(s) }) }
func c03SR[S c03Str, D c03RunesLike]()      { c03Reg(func(s S) D { return D(s) }) }
func c03RS[S c03RunesLike, D c03Str]()      { c03Reg(func(s S) D { return D(s) }) }
func c03BoolBool[S, D interface{ ~bool }]() { c03Reg(func(s S) D { return D(s) }) }
func c03SameB[S, D interface{ ~[]byte }]()  { c03Reg(func(s S) D { return D(s) }) }
func c03SameR[S, D interface{ ~[]rune }]()  { c03Reg(func(s S) D { return D(s) }) }

func c03FromReal[S c03Real]() {
	c03RR[S, int]()
	c03RR[S, int8]()
	c03RR[S, int16]()
	c03RR[S, int32]()
	c03RR[S, int64]()
	c03RR[S, uint]()
	c03RR[S, uint8]()
	c03RR[S, uint16]()
	c03RR[S, uint32]()
	c03RR[S, uint64]()
	c03RR[S, uintptr]()
	c03RR[S, float32]()
	c03RR[S, float64]()
	c03RR[S, c03Myint]()
	c03RR[S, c03Myint8]()
	c03RR[S, c03Myint16]()
	c03RR[S, c03Myint32]()
	c03RR[S, c03Myint64]()
	c03RR[S, c03Myuint]()
	c03RR[S, c03Myuint8]()
	c03RR[S, c03Myuint16]()
	c03RR[S, c03Myuint32]()
	c03RR[S, c03Myuint64]()
	c03RR[S, c03Myuintptr]()
	c03RR[S, c03Myfloat32]()
	c03RR[S, c03Myfloat64]()
}

func c03FromInt[S c03Integer]() {
	c03FromReal[S]()
	c03IS[S, string]()
	c03IS[S, c03Mystring]()
}

func c03FromCplx[S c03Cplx]() {
	c03CC[S, complex64]()
	c03CC[S, complex128]()
	c03CC[S, c03Mycomplex64]()
	c03CC[S, c03Mycomplex128]()
}

func c03FromStr[S c03Str]() {
	c03SS[S, string]()
	c03SS[S, c03Mystring]()
	c03SB[S, []byte]()
	c03SB[S, c03Mybytes]()
	c03SB[S, []c03Myuint8]()
	c03SR[S, []rune]()
	c03SR[S, c03Myrunes]()
	c03SR[S, []c03Myint32]()
}

func c03FromBytes[S c03BytesLike]() {
	c03BS[S, string]()
	c03BS[S, c03Mystring]()
}

func c03FromRunes[S c03RunesLike]() {
	c03RS[S, string]()
	c03RS[S, c03Mystring]()
}

func init() {
	c03FromInt[int]()
	c03FromInt[int8]()
	c03FromInt[int16]()
	c03FromInt[int32]()
	c03FromInt[int64]()
	c03FromInt[uint]()
	c03FromInt[uint8]()
	c03FromInt[uint16]()
	c03FromInt[uint32]()
	c03FromInt[uint64]()
	c03FromInt[uintptr]()
	c03FromInt[c03Myint]()
	c03FromInt[c03Myint8]()
	c03FromInt[c03Myint16]()
	c03FromInt[c03Myint32]()
	c03FromInt[c03Myint64]()
	c03FromInt[c03Myuint]()
	c03FromInt[c03Myuint8]()
	c03FromInt[c03Myuint16]()
	c03FromInt[c03Myuint32]()
	c03FromInt[c03Myuint64]()
	c03FromInt[c03Myuintptr]()
	c03FromReal[float32]()
	c03FromReal[float64]()
	c03FromReal[c03Myfloat32]()
	c03FromReal[c03Myfloat64]()
	c03FromCplx[complex64]()
	c03FromCplx[complex128]()
	c03FromCplx[c03Mycomplex64]()
	c03FromCplx[c03Mycomplex128]()
	c03FromStr[string]()
	c03FromStr[c03Mystring]()
	c03FromBytes[[]byte]()
	c03FromBytes[c03Mybytes]()
	c03FromBytes[[]c03Myuint8]()
	c03FromRunes[[]rune]()
	c03FromRunes[c03Myrunes]()
	c03FromRunes[[]c03Myint32]()
	c03BoolBool[bool, bool]()
	c03BoolBool[bool, c03Mybool]()
	c03BoolBool[c03Mybool, bool]()
	c03BoolBool[c03Mybool, c03Mybool]()
	c03SameB[[]byte, []byte]()
	c03SameB[[]byte, c03Mybytes]()
	c03SameB[c03Mybytes, []byte]()
	c03SameB[c03Mybytes, c03Mybytes]()
	c03SameR[[]rune, []rune]()
	c03SameR[[]rune, c03Myrunes]()
	c03SameR[c03Myrunes, []rune]()
	c03SameR[c03Myrunes, c03Myrunes]()
	c03Reg(func(s []c03Myuint8) []c03Myuint8 { return []c03Myuint8(s) })
	c03Reg(func(s []c03Myint32) []c03Myint32 { return []c03Myint32(s) })
}

package props

import (
	"bytes"
	"encoding/json"
	"fmt"
	"go/ast"
	"go/parser"
	"go/printer"
	"go/token"
	"os"
	"path/filepath"
	"sort"
	"strings"
	"sync"
	"time"

	"github.com/cosmos72/gomacro/ast2"
	"github.com/cosmos72/gomacro/go/etoken"
	mp "github.com/cosmos72/gomacro/go/parser"

	"verif/harness/core"
)

// C22: the uniform syntax-tree wrapper (package ast2) round-trips every node losslessly.
// Spec: spec/front/AstNode.tla (signature table + generator + Wrap/New/Get/Set/Unwrap stack
// machine), spec/front/AstNodeTrace.tla (validation of node events recorded on parsed corpora).
// (M) TLC: Size = number of slots, slot types respected, generic rebuild = identity; broken
//     variants (New drops an attribute, Size off by one, Set into the wrong slot) rejected.
// (R) every TLC tree (BFS: all trees within a small budget, every kind at the root and below;
//     simulation: deep mixed trees) is built as a real go/ast tree by the harness's own
//     constructors, wrapped with ast2.ToAst and rebuilt through the real New/Get/Set/Append;
//     Size, Get(i), New, Set, ToNode are compared node by node, the projection of the rebuilt
//     tree with the model's result.
// (V) every node of the parsed corpus goes through the same rebuild; one event per node is
//     validated against the signature table printed by TLC, the distinct event shapes by TLC.
// (G) the table is cross-checked against go/ast by reflection; constructor and projection are
//     gated against each other on every tree (project(build(t)) = t).

func init() {
	core.Register(&core.Prop{
		ID: "C22",
		Rule: "TLC enumerates abstract syntax trees over the wrapper's signature table (BFS: every tree within the node budget, every kind at the root; simulation: seeded deep trees) together with the result of the generic rebuild; " +
			"each tree is built as a real go/ast tree, wrapped and rebuilt through ast2's New/Get/Set; every node of the parsed corpus (repository, *.gomacro sources through gomacro's parser, standard library in the thorough tier) goes through the same rebuild; " +
			"a case is one TLC tree or one corpus node; non-trivial = the node has at least one present child or a non-zero scalar attribute; distinct by tree / by node shape (kind, attributes present, child kinds)",
		Run:      runC22,
		Replay:   replayC22,
		SelfTest: selfTestC22,
	})
}

// ---------------------------------------------------------------------------
// the signature table as printed by TLC

type c22Slot struct {
	Name string `json:"name"`
	Ty   string `json:"ty"`
}
type c22Drop struct {
	Name string `json:"name"`
	Why  string `json:"why"`
}
type c22Sig struct {
	Cls    string    `json:"cls"`
	Var    bool      `json:"var"`
	Size   int       `json:"size"`
	Slots  []c22Slot `json:"slots"`
	Elem   string    `json:"elem"`
	Lfield string    `json:"lfield"`
	Pos    []string  `json:"pos"`
	Sc     []string  `json:"sc"`
	Drop   []c22Drop `json:"drop"`
}
type c22Meta struct {
	Meta      bool                `json:"meta"`
	Sig       map[string]*c22Sig  `json:"sig"`
	Kinds     []string            `json:"kinds"`
	Adm       map[string][]string `json:"adm"`
	Unwrapped []string            `json:"unwrapped"`
	adm       map[string]map[string]bool
}

func (m *c22Meta) prepare() {
	m.adm = map[string]map[string]bool{}
	for ty, ks := range m.Adm {
		s := map[string]bool{}
		for _, k := range ks {
			s[k] = true
		}
		m.adm[ty] = s
	}
}

func (m *c22Meta) slotTy(kind string, i int) string {
	s := m.Sig[kind]
	if s.Var {
		return s.Elem
	}
	if i < len(s.Slots) {
		return s.Slots[i].Ty
	}
	return "none"
}

type c22Rec struct {
	T   *c22Tree `json:"t"`
	R   *c22Tree `json:"r"`
	Ops []string `json:"ops"`
	Src string   `json:"src,omitempty"` // corpus cases: where the node comes from
}

// ---------------------------------------------------------------------------
// the walker: generic rebuild through the real wrapper, compared node by node

type c22Problem struct {
	Sig   string
	What  string
	Count int
	Case  *c22Rec
	size  int
}

type c22Walker struct {
	meta      *c22Meta
	strictNil bool     // store nil for an absent child instead of handing the wrapper's value back
	ops       []string // expected Op() in preorder ("" = not checked); nil = no check
	opi       int
	src       string // label of the tree under test
	nodes     int64
	incompl   string // table incompleteness (exit 2)
	onNode    func(sh *c22Sh, present, size int, ok bool)
	mu        *sync.Mutex
	probs     map[string]*c22Problem
}

func (w *c22Walker) problem(kind, shape, what string, x interface{}) {
	sig := "ast(" + kind + "):" + shape
	w.mu.Lock()
	defer w.mu.Unlock()
	p := w.probs[sig]
	if p == nil {
		p = &c22Problem{Sig: sig, size: 1 << 30}
		w.probs[sig] = p
	}
	p.Count++
	if (p.Count > 40 && p.size < 30) || p.Count > 300 {
		return
	}
	t := c22Deep(x)
	if n := t.nodes(); n < p.size {
		p.size = n
		p.What = what + "\n  node: " + c22Render(x) + "\n  from: " + w.src
		p.Case = &c22Rec{T: t, R: t, Src: w.src}
	}
}

func c22Render(x interface{}) string {
	defer func() { recover() }()
	var buf bytes.Buffer
	if err := printer.Fprint(&buf, token.NewFileSet(), x); err != nil || buf.Len() == 0 {
		return c22Deep(x).String()
	}
	s := buf.String()
	if len(s) > 300 {
		s = s[:300] + "…"
	}
	return strings.ReplaceAll(s, "\n", "\n        ")
}

func c22Absent(a ast2.Ast) bool { return a == nil || a.Interface() == nil }

func c22Try(f func()) (msg string) {
	defer func() {
		if r := recover(); r != nil {
			msg = fmt.Sprint(r)
			if msg == "" {
				msg = "panic"
			}
		}
	}()
	f()
	return ""
}

func c22KindOf(x interface{}) string {
	if x == nil {
		return "Nil"
	}
	if tn, ok := x.(c22TypedNil); ok {
		return "TypedNil:" + tn.T
	}
	if sh, ok := c22Shallow(x); ok {
		return sh.Kind
	}
	if n, ok := x.(ast.Node); ok {
		return strings.TrimPrefix(fmt.Sprintf("%T", n), "*ast.")
	}
	return fmt.Sprintf("%T", x)
}

// rebuild checks the wrapper a of the real value and returns the rebuilt wrapper.
func (w *c22Walker) rebuild(a ast2.Ast) ast2.Ast {
	x := a.Interface()
	sh, ok := c22Shallow(x)
	if !ok {
		if w.incompl == "" {
			w.incompl = fmt.Sprintf("value of type %T has no projection", x)
		}
		return a
	}
	kind := sh.Kind
	sig := w.meta.Sig[kind]
	if sig == nil {
		if w.incompl == "" {
			w.incompl = fmt.Sprintf("kind %s is not in the signature table", kind)
		}
		return a
	}
	w.nodes++
	// the node against the table: number of slots, admissible child kinds
	if !sig.Var && len(sh.Kids) != len(sig.Slots) {
		w.incompl = fmt.Sprintf("projection of %s has %d children, the table %d slots", kind, len(sh.Kids), len(sig.Slots))
		return a
	}
	present := 0
	for i, k := range sh.Kids {
		if k == nil {
			continue
		}
		present++
		ck := c22KindOf(k)
		if !w.meta.adm[w.meta.slotTy(kind, i)][ck] {
			if w.incompl == "" {
				w.incompl = fmt.Sprintf("%s: child %d has kind %s, not admissible for slot type %q of the table (%s)", kind, i, ck, w.meta.slotTy(kind, i), w.src)
			}
			return a
		}
	}
	bad, n := false, -1
	prob := func(shape, what string) { bad = true; w.problem(kind, shape, what, x) }
	if w.onNode != nil {
		defer func() { w.onNode(&sh, present, n, !bad) }()
	}
	// Op()
	if w.ops != nil {
		if w.opi < len(w.ops) {
			if want := w.ops[w.opi]; want != "" {
				var got string
				if m := c22Try(func() { got = c22OpName(a.Op()) }); m != "" {
					prob("panics", "Op() panics: "+m)
				} else if got != want {
					prob("attr-lost(Op)", fmt.Sprintf("Op() = %s, specification says %s", got, want))
				}
			}
		}
		w.opi++
	}
	// Unwrap
	if node, isNode := x.(ast.Node); isNode {
		var back ast.Node
		var again interface{}
		if m := c22Try(func() { back = ast2.ToNode(a); again = ast2.ToAst(node).Interface() }); m != "" {
			prob("panics", "ToNode/ToAst panics: "+m)
		} else if back != node || again != x {
			prob("unwrap-differs", fmt.Sprintf("ToNode(ToAst(n)) = %p %T, n = %p", back, back, node))
		}
	}
	// Size
	if m := c22Try(func() { n = a.Size() }); m != "" {
		prob("panics", "Size() panics: "+m)
		return a
	}
	if n != len(sh.Kids) {
		prob("size-differs", fmt.Sprintf("Size() = %d, the node has %d child slots", n, len(sh.Kids)))
		if n > len(sh.Kids) {
			n = len(sh.Kids)
		}
	}
	// New
	var out ast2.Ast
	if m := c22Try(func() { out = a.New() }); m != "" || out == nil {
		prob("panics", "New() panics or returns nil: "+m)
		return a
	}
	if sh0, ok := c22Shallow(out.Interface()); out.Interface() != nil && (!ok || sh0.Kind != kind) {
		prob("unwrap-differs", fmt.Sprintf("New() returns a %s", c22KindOf(out.Interface())))
		return a
	} else if ok {
		for i, k := range sh0.Kids {
			if k != nil {
				prob("child-spurious", fmt.Sprintf("New() already has child %d", i))
			}
		}
	}
	if outS, isSlice := out.(ast2.AstWithSlice); isSlice {
		if m := c22Try(func() {
			for outS.Size() < n {
				outS = outS.Append(nil)
			}
		}); m != "" {
			prob("panics", "Append(nil) panics: "+m)
			return a
		}
		out = outS
	}
	// Get / Set
	rebuilt := make([]interface{}, len(sh.Kids))
	for i := 0; i < n; i++ {
		var child ast2.Ast
		if m := c22Try(func() { child = a.Get(i) }); m != "" {
			prob("panics", fmt.Sprintf("Get(%d) panics: %s", i, m))
			continue
		}
		want := sh.Kids[i]
		absent := c22Absent(child)
		switch {
		case absent && want != nil:
			prob("child-lost", fmt.Sprintf("Get(%d) returns nothing, the node has a %s there", i, c22KindOf(want)))
		case !absent && want == nil:
			prob("child-spurious", fmt.Sprintf("Get(%d) returns a %s, the node has no child there", i, c22KindOf(child.Interface())))
		case !absent && !c22Same(child.Interface(), want):
			shape := "child-lost"
			for j, other := range sh.Kids {
				if j != i && c22Same(child.Interface(), other) {
					shape = "child-reordered"
				}
			}
			prob(shape, fmt.Sprintf("Get(%d) returns a different child (%s) than slot %d of the node (%s)", i, c22KindOf(child.Interface()), i, c22KindOf(want)))
		}
		store := child
		if absent {
			if w.strictNil {
				store = nil
			}
		} else {
			store = w.rebuild(child)
			rebuilt[i] = store.Interface()
		}
		if m := c22Try(func() { out.Set(i, store) }); m != "" {
			prob("panics", fmt.Sprintf("Set(%d, %s) panics: %s", i, c22KindOf(rebuilt[i]), m))
		}
	}
	// the rebuilt node against the original: kind, attributes, children in their slots
	sh2, ok := c22Shallow(out.Interface())
	if !ok {
		if len(sh.Kids) == 0 && sig.Cls == "slice" && out.Interface() == nil {
			return out // an empty slice is rebuilt as a nil slice
		}
		prob("unwrap-differs", fmt.Sprintf("rebuilt value is a %T", out.Interface()))
		return out
	}
	for i, kv := range sh.A {
		if i < len(sh2.A) && !c22Same(kv.V, sh2.A[i].V) {
			prob("attr-lost("+kv.K+")", fmt.Sprintf("attribute %s is %v after New() and Set of every child, was %v", kv.K, c22Abs(sh2.A[i].V), c22Abs(kv.V)))
		}
	}
	if len(sh2.Kids) != len(sh.Kids) {
		prob("size-differs", fmt.Sprintf("the rebuilt node has %d child slots, the original %d", len(sh2.Kids), len(sh.Kids)))
		return out
	}
	for i := range sh.Kids {
		if sh.Kids[i] == nil && sh2.Kids[i] == nil {
			continue
		}
		if i >= n || c22Same(sh2.Kids[i], rebuilt[i]) {
			if i >= n && sh.Kids[i] != nil {
				prob("child-lost", fmt.Sprintf("slot %d is beyond Size() = %d and is lost by the rebuild", i, n))
			}
			continue
		}
		shape := "child-lost"
		if sh2.Kids[i] != nil {
			shape = "child-spurious"
			for j := range rebuilt {
				if j != i && c22Same(sh2.Kids[i], rebuilt[j]) {
					shape = "child-reordered"
				}
			}
		} else {
			for j := range sh2.Kids {
				if j != i && c22Same(sh2.Kids[j], rebuilt[i]) {
					shape = "child-reordered"
				}
			}
		}
		prob(shape, fmt.Sprintf("after Set(%d, %s) slot %d of the rebuilt node holds %s", i, c22KindOf(rebuilt[i]), i, c22KindOf(sh2.Kids[i])))
	}
	return out
}

func c22OpName(t token.Token) string {
	if t == etoken.E_ALIASTYPE {
		return "E_ALIASTYPE"
	}
	return c22TokName(t)
}

// ---------------------------------------------------------------------------
// (R) one TLC record

type c22Env struct {
	c       *core.Ctx
	meta    *c22Meta
	mu      sync.Mutex
	probs   map[string]*c22Problem
	shapes  map[string]*c22Event
	kinds   map[string]int64 // corpus nodes per kind
	kindsR  map[string]int64 // model-tree nodes per kind
	nodesR  int64
	nodesV  int64
	skipped map[string]int
}

func newC22Env(c *core.Ctx) *c22Env {
	return &c22Env{c: c, probs: map[string]*c22Problem{}, shapes: map[string]*c22Event{}, kinds: map[string]int64{}, kindsR: map[string]int64{}, skipped: map[string]int{}}
}

func (e *c22Env) walker(src string) *c22Walker {
	return &c22Walker{meta: e.meta, src: src, mu: &e.mu, probs: e.probs}
}

// checkRec replays one model record; gateErr = the harness (constructor/projection) or the
// model is wrong, never a verdict on gomacro.
func (e *c22Env) checkRec(rec *c22Rec, count bool) (gateErr error) {
	if rec.T == nil || rec.R == nil {
		return core.Infra("record without tree")
	}
	want := rec.R.String()
	for _, strict := range []bool{false, true} {
		b := &c22Builder{}
		x := b.build(rec.T)
		if b.err != nil {
			return core.Infra("cannot build %s: %v", rec.T, b.err)
		}
		// gate: constructor and projection are inverse on this tree
		ok := c22Deep(x).String() == rec.T.String()
		if count && !strict {
			e.c.Gate(ok)
		}
		if !ok {
			return core.Infra("constructor/projection disagree (harness bug):\n tree  %s\n built %s", rec.T, c22Deep(x))
		}
		w := e.walker(rec.Src)
		if w.src == "" {
			w.src = "model tree " + rec.T.String()
		}
		w.strictNil = strict
		if rec.Ops != nil {
			w.ops = rec.Ops
		}
		var out ast2.Ast
		if m := c22Try(func() { out = w.rebuild(c22Wrap(x)) }); m != "" {
			w.problem(rec.T.K, "panics", "rebuild panics: "+m, x)
			continue
		}
		if w.incompl != "" {
			return core.Infra("model tree outside the table: %s", w.incompl)
		}
		if count && !strict {
			c22CountKinds(rec.T, e.kindsR)
			e.mu.Lock()
			e.nodesR += w.nodes
			e.mu.Unlock()
		}
		// end to end: the projection of the rebuilt tree is the model's result
		var got string
		if out != nil {
			got = c22Deep(out.Interface()).String()
		}
		if got == "_" && len(rec.R.C) == 0 && e.meta.Sig[rec.R.K] != nil && e.meta.Sig[rec.R.K].Cls == "slice" {
			got = want
		}
		if got != want {
			k, shape, what := c22Diff(rec.R, c22Deep(out.Interface()))
			w.problem(k, shape, "rebuilt tree differs from the specification's result: "+what+"\n  expected "+want+"\n  observed "+got, x)
		}
	}
	return nil
}

// c22Diff finds the first node where the rebuilt tree differs from the expected one.
func c22Diff(want, got *c22Tree) (kind, shape, what string) {
	if want.isNil() || got.isNil() {
		if want.isNil() && got.isNil() {
			return "", "", ""
		}
		if got.isNil() {
			return want.K, "child-lost", "a " + want.K + " is missing"
		}
		return got.K, "child-spurious", "a " + got.K + " appears"
	}
	if want.K != got.K {
		return want.K, "unwrap-differs", "kind " + want.K + " became " + got.K
	}
	for i, kv := range want.A {
		if i >= len(got.A) || got.A[i] != kv {
			return want.K, "attr-lost(" + kv.K + ")", fmt.Sprintf("attribute %s of %s", kv.K, want.K)
		}
	}
	if len(want.C) != len(got.C) {
		return want.K, "size-differs", fmt.Sprintf("%s has %d children instead of %d", want.K, len(got.C), len(want.C))
	}
	for i := range want.C {
		if want.C[i].String() != got.C[i].String() {
			for j := range got.C {
				if j != i && !want.C[i].isNil() && got.C[j].String() == want.C[i].String() && got.C[i].String() != want.C[i].String() && want.C[j].String() != want.C[i].String() {
					return want.K, "child-reordered", fmt.Sprintf("child %d of %s is found in slot %d", i, want.K, j)
				}
			}
			if k, s, wh := c22Diff(want.C[i], got.C[i]); s != "" {
				if want.C[i].isNil() || got.C[i].isNil() {
					return want.K, s, fmt.Sprintf("slot %d of %s: %s", i, want.K, wh)
				}
				return k, s, wh
			}
		}
	}
	return "", "", ""
}

// ---------------------------------------------------------------------------
// (V) corpus

// c22Event is one distinct node shape recorded on the corpus, validated by AstNodeTrace.tla.
type c22Event struct {
	Kind  string   `json:"kind"`
	Size  int      `json:"size"`
	Attrs []string `json:"attrs"`
	Kids  []string `json:"kids"`
	S3    bool     `json:"s3"` // SliceExpr.Slice3
	Rt    bool     `json:"rt"` // the node came back unchanged from New + Set of every child
	N     int64    `json:"-"`
}

func (e *c22Env) noteNode(sh *c22Sh, present, size int, ok bool) {
	var b strings.Builder
	b.WriteString(sh.Kind)
	nz := false
	for _, kv := range sh.A {
		switch v := c22Abs(kv.V).(type) {
		case int:
			nz = nz || v != 0
		case bool:
			nz = nz || v
		case string:
			nz = nz || v != ""
		}
	}
	kids := make([]string, len(sh.Kids))
	for i, k := range sh.Kids {
		kids[i] = c22KindOf(k)
		b.WriteByte(' ')
		b.WriteString(kids[i])
	}
	s3 := false
	if sh.Kind == "SliceExpr" {
		for _, kv := range sh.A {
			if kv.K == "Slice3" {
				s3, _ = kv.V.(bool)
			}
		}
	}
	fmt.Fprintf(&b, " %d %v %v", size, s3, ok)
	key := b.String()
	e.c.Case(key, present > 0 || nz)
	e.mu.Lock()
	e.kinds[sh.Kind]++
	ev := e.shapes[key]
	if ev == nil {
		ev = &c22Event{Kind: sh.Kind, Size: size, Kids: kids, Attrs: []string{}, S3: s3, Rt: ok}
		for _, kv := range sh.A {
			ev.Attrs = append(ev.Attrs, kv.K)
		}
		e.shapes[key] = ev
	}
	ev.N++
	e.mu.Unlock()
}

func c22HasGenerics(n ast.Node) bool {
	found := false
	ast.Inspect(n, func(x ast.Node) bool {
		switch x := x.(type) {
		case *ast.IndexListExpr:
			found = true
		case *ast.FuncType:
			found = found || x.TypeParams != nil
		case *ast.TypeSpec:
			found = found || x.TypeParams != nil
		}
		return !found
	})
	return found
}

func c22GoFiles(root string, ext string) []string {
	var out []string
	filepath.Walk(root, func(p string, info os.FileInfo, err error) error {
		if err != nil {
			return nil
		}
		if info.IsDir() {
			if n := info.Name(); n == ".git" || n == "vendor" {
				return filepath.SkipDir
			}
			return nil
		}
		if strings.HasSuffix(p, ext) {
			out = append(out, p)
		}
		return nil
	})
	sort.Strings(out)
	return out
}

// corpusNode rebuilds one parsed tree through the wrapper.
func (e *c22Env) corpusNode(node ast.Node, src string) error {
	w := e.walker(src)
	w.onNode = e.noteNode
	if m := c22Try(func() { w.rebuild(ast2.ToAst(node)) }); m != "" {
		w.problem(c22KindOf(node), "panics", "rebuild panics: "+m, node)
	}
	if w.incompl != "" {
		return core.Infra("the signature table of AstNode.tla is incomplete: %s", w.incompl)
	}
	e.mu.Lock()
	e.nodesV += w.nodes
	e.mu.Unlock()
	return nil
}

func (e *c22Env) corpusGo(files []string, label string) error {
	var firstErr error
	var emu sync.Mutex
	core.ParDo(len(files), 4, func(i int) {
		fset := token.NewFileSet()
		f, err := parser.ParseFile(fset, files[i], nil, parser.ParseComments)
		if err != nil || f == nil {
			e.mu.Lock()
			e.skipped[label+": files with syntax errors"]++
			e.mu.Unlock()
			return
		}
		// Go 1.18 type-parameter syntax is outside the wrapper's domain (gomacro has its own
		// generics syntax and parser): declarations using it are left out
		g := *f
		g.Decls = nil
		for _, d := range f.Decls {
			if c22HasGenerics(d) {
				e.mu.Lock()
				e.skipped[label+": declarations with Go 1.18 type parameters"]++
				e.mu.Unlock()
				continue
			}
			g.Decls = append(g.Decls, d)
		}
		if err := e.corpusNode(&g, files[i]); err != nil {
			emu.Lock()
			if firstErr == nil {
				firstErr = err
			}
			emu.Unlock()
		}
	})
	return firstErr
}

// c22ExtSnippets: gomacro extension syntax, parsed by gomacro's own parser.
var c22ExtSnippets = []string{
	"~quote{x + 1}",
	"~quasiquote{f(~unquote{a}, ~unquote_splice{b})}",
	"~quasiquote{~quasiquote{1; ~unquote{2}; ~unquote{~unquote_splice{x}}}}",
	"macro second(a, b, c interface{}) interface{} { return b }",
	"func f() { second; 1; 2; 3 }",
	"~func g(a int) int { return a }",
	"var h = ~lambda(a, b int) int { return a + b }",
	"~quote{case 1, 2: x++; default: break}",
	"~quote{for i := range v { select { case <-c: continue; default: } } }",
	"~quote{type T = struct { A, B int `tag`; C chan<- int }; var a [3]T; b := a[1:2:3]}",
	"~quote{switch x := y.(type) { case int: fallthrough; case nil: goto L }; L: return a, b}",
	"~'x; ~`{y; ~,z}",
}

func (e *c22Env) corpusGomacro(files []string) error {
	parse := func(name string, src []byte) error {
		var nodes []ast.Node
		var perr error
		if m := c22Try(func() {
			var p mp.Parser
			p.Configure(mp.ParseComments, '~')
			p.Init(etoken.NewFileSet(), name, 0, src)
			nodes, perr = p.Parse()
		}); m != "" || perr != nil {
			e.skipped["gomacro parser: sources with syntax errors"]++
			if strings.HasPrefix(name, "extension-snippet") {
				e.skipped["gomacro parser: rejected "+name]++
			}
			return nil
		}
		for _, n := range nodes {
			if n == nil {
				continue
			}
			if err := e.corpusNode(n, name); err != nil {
				return err
			}
		}
		return nil
	}
	for i, s := range c22ExtSnippets {
		if err := parse(fmt.Sprintf("extension-snippet-%d: %s", i, s), []byte(s)); err != nil {
			return err
		}
	}
	for _, f := range files {
		src, err := os.ReadFile(f)
		if err != nil {
			continue
		}
		// REPL commands (":package fast", ":import (...)") are handled by the REPL before the
		// parser sees the input: drop the colon
		lines := strings.Split(string(src), "\n")
		for i, l := range lines {
			if strings.HasPrefix(l, ":") {
				lines[i] = " " + l[1:]
			}
		}
		src = []byte(strings.Join(lines, "\n"))
		if err := parse(f, src); err != nil {
			return err
		}
	}
	return nil
}

func c22Goroot() string {
	for _, g := range []string{os.Getenv("GOROOT"), "/usr/lib/go-1.23", "/usr/local/go", "/usr/lib/go"} {
		if g != "" {
			if _, err := os.Stat(filepath.Join(g, "src/go/ast/ast.go")); err == nil {
				return g
			}
		}
	}
	return ""
}

// ---------------------------------------------------------------------------
// TLC configurations

func c22Cfg(maxNodes, maxDepth, maxList int, rich bool, pos string, roots []string, broken string, emit bool, invs string) string {
	return c22CfgS(maxNodes, maxDepth, maxList, rich, pos, roots, broken, emit, invs, false)
}

func c22CfgS(maxNodes, maxDepth, maxList int, rich bool, pos string, roots []string, broken string, emit bool, invs string, staged bool) string {
	return c22CfgX(maxNodes, maxDepth, maxList, rich, pos, roots, broken, emit, invs, staged, true)
}

func c22CfgX(maxNodes, maxDepth, maxList int, rich bool, pos string, roots []string, broken string, emit bool, invs string, staged, stepwise bool) string {
	rs := make([]string, len(roots))
	for i, r := range roots {
		rs[i] = fmt.Sprintf("%q", r)
	}
	return fmt.Sprintf("SPECIFICATION Spec\nCONSTANTS\n MaxNodes = %d\n MaxDepth = %d\n MaxList = %d\n Rich = %s\n PosChoices = %s\n Roots = {%s}\n Staged = %s\n Stepwise = %s\n Broken = %q\n EmitOn = %s\nINVARIANTS %s\n",
		maxNodes, maxDepth, maxList, strings.ToUpper(fmt.Sprint(rich)), pos, strings.Join(rs, ", "), strings.ToUpper(fmt.Sprint(staged)), strings.ToUpper(fmt.Sprint(stepwise)), broken, strings.ToUpper(fmt.Sprint(emit)), invs)
}

const c22Invs = "TreeOK SlotTypesOK RebuildIdentity Emit"

func c22CountKinds(t *c22Tree, m map[string]int64) {
	if t.isNil() {
		return
	}
	m[t.K]++
	for _, c := range t.C {
		c22CountKinds(c, m)
	}
}

func c22NonZero(t *c22Tree) bool {
	for _, kv := range t.A {
		switch v := kv.V.(type) {
		case int:
			if v != 0 {
				return true
			}
		case bool:
			if v {
				return true
			}
		case string:
			if v != "" {
				return true
			}
		}
	}
	return false
}

func runC22(c *core.Ctx) error {
	e := newC22Env(c)
	var hmu sync.Mutex
	var firstErr error
	metaReady := make(chan struct{})
	sampled := 0
	handle := func(line []byte) {
		hmu.Lock()
		defer hmu.Unlock()
		if firstErr != nil {
			return
		}
		if bytes.Contains(line, []byte(`"meta":true`)) {
			if e.meta == nil {
				var m c22Meta
				if err := json.Unmarshal(line, &m); err != nil {
					firstErr = core.Infra("bad table record from TLC: %v", err)
					return
				}
				m.prepare()
				if firstErr = c22Gate(c, &m); firstErr == nil {
					e.meta = &m
					e.probes()
					close(metaReady)
				}
			}
			return
		}
		if e.meta == nil {
			firstErr = core.Infra("tree record before the table record")
			return
		}
		var rec c22Rec
		if err := json.Unmarshal(line, &rec); err != nil {
			firstErr = core.Infra("bad record from TLC: %v", err)
			return
		}
		n := rec.T.nodes()
		if sampled < 3 && n >= 2+sampled*4 {
			sampled++
			c.Sample(json.RawMessage(append([]byte(nil), line...)))
		}
		c.Case(rec.T.String(), n > 1 || c22NonZero(rec.T))
		c.Trace()
		if err := e.checkRec(&rec, true); err != nil {
			firstErr = err
		}
	}
	var wg sync.WaitGroup
	errs := make([]error, 3)
	tlcDone := make(chan struct{})
	// (M)+(R) every tree within the budget: every kind at the root and in every slot.
	// quick: rebuild in one step (operator Rebuild); thorough: also the stack machine
	type bfs struct {
		name            string
		nodes, depth, l int
		rich            bool
		pos             string
		stepwise        bool
	}
	runs := []bfs{{"trees-bfs-2", 2, 3, 1, false, "{1}", false}}
	if c.Thorough() {
		runs = []bfs{{"trees-bfs-2-stepwise", 2, 3, 1, false, "{1}", true},
			{"trees-bfs-2-rich", 2, 3, 1, true, "{0, 1}", false},
			{"trees-bfs-3", 3, 3, 1, false, "{1}", false}}
	}
	wg.Add(2)
	go func() {
		defer wg.Done()
		for _, r := range runs {
			_, err := c.TLC(core.TLCOpts{Spec: "AstNode", CfgName: r.name, Workers: c.Pick(4, 5), Timeout: 40 * time.Minute,
				Cfg:    c22CfgX(r.nodes, r.depth, r.l, r.rich, r.pos, nil, "none", true, "SizeOK "+c22Invs, false, r.stepwise),
				OnLine: handle})
			if err != nil {
				errs[0] = err
				return
			}
		}
	}()
	// (R) deep mixed trees, rebuilt by the stack machine
	go func() {
		defer wg.Done()
		_, errs[1] = c.TLC(core.TLCOpts{Spec: "AstNode", CfgName: "trees-sim", Workers: 3, Timeout: 40 * time.Minute,
			Cfg:      c22CfgS(c.Pick(10, 16), 6, 3, true, "{0, 1, 2}", nil, "none", true, "SlotTypesOK RebuildIdentity Emit", true),
			Simulate: true, SimNum: c.Pick(20, 200), SimDepth: 800, Seed: c.Seed, OnLine: handle})
	}()
	go func() { wg.Wait(); close(tlcDone) }()
	// (V) corpus, as soon as the table is known
	tCorpus := time.Now()
	select {
	case <-metaReady:
		errs[2] = e.corpus()
		c.Extra["corpus_wall_s"] = time.Since(tCorpus).Seconds()
	case <-tlcDone:
	}
	<-tlcDone
	for _, err := range errs {
		if err != nil {
			return err
		}
	}
	if firstErr != nil {
		return firstErr
	}
	if e.meta == nil {
		return core.Infra("TLC printed no signature table")
	}
	c.Exhaustive = true
	// every kind of the table must have been exercised by the model trees
	var missing []string
	for _, k := range e.meta.Kinds {
		if e.kindsR[k] == 0 {
			missing = append(missing, k)
		}
	}
	c.Extra["nodes_rebuilt_model_trees"] = e.nodesR
	c.Extra["nodes_rebuilt_corpus"] = e.nodesV
	c.Extra["corpus_distinct_node_shapes_validated_by_tlc"] = len(e.shapes)
	c.Extra["corpus_left_out"] = e.skipped
	c.Extra["corpus_nodes_per_kind"] = e.kinds
	c.Extra["model_nodes_per_kind"] = e.kindsR
	c.Assume("Go 1.18 type-parameter syntax (TypeParams, IndexListExpr) is outside the wrapper's domain: gomacro has its own generics syntax and parser; corpus declarations using it are left out and counted")
	c.Assume("fields added to go/ast after the Go version gomacro targets (RangeStmt.Range, File.FileStart/FileEnd/GoVersion), resolver artefacts (Ident.Obj, File.Unresolved) and ReturnStmt.Return (documented in ast_slice.go) are not compared; ast.Package is a documented TODO stub (two empty slots)")
	c.Assume("a list slot holding an empty slice is the same as an absent one; well-formed trees have SliceExpr.Slice3 = (Max present), as go/parser guarantees; an absent child is one whose wrapper is nil or wraps a nil pointer (Interface() == nil)")
	if len(missing) > 0 {
		return core.Infra("kinds of the table never generated by the model trees: %v", missing)
	}
	return e.report()
}

// corpus: (V) every node of the parsed sources, then the distinct shapes through TLC.
func (e *c22Env) corpus() error {
	c := e.c
	if err := e.corpusGomacro(c22GoFiles(c.Repo, ".gomacro")); err != nil {
		return err
	}
	if err := e.corpusGo(c22GoFiles(c.Repo, ".go"), "repository"); err != nil {
		return err
	}
	if c.Thorough() {
		root := c22Goroot()
		if root == "" {
			return core.Infra("GOROOT sources not found")
		}
		for _, d := range []string{"go", "fmt", "strings", "sort", "net/http"} {
			if err := e.corpusGo(c22GoFiles(filepath.Join(root, "src", d), ".go"), "GOROOT/src/"+d); err != nil {
				return err
			}
		}
	}
	return e.validateEvents()
}

// report turns the collected problems into confirmed violations.
func (e *c22Env) report() error {
	var sigs []string
	for s := range e.probs {
		sigs = append(sigs, s)
	}
	sort.Strings(sigs)
	for _, s := range sigs {
		p := e.probs[s]
		// confirm on a freshly built tree
		e2 := newC22Env(e.c)
		e2.meta = e.meta
		if strings.HasPrefix(p.Case.Src, "probe of") {
			e2.probes()
		} else if err := e2.checkRec(p.Case, false); err != nil {
			return core.Infra("cannot re-run the case of %s: %v", s, err)
		}
		if e2.probs[s] == nil {
			var others []string
			for o := range e2.probs {
				others = append(others, o)
			}
			return core.Infra("mismatch %s not reproducible from its stored case (re-run gives %v): %s", s, others, p.What)
		}
		e.c.Violation(s, fmt.Sprintf("%s\n  occurrences in this run: %d", p.What, p.Count), p.Case)
	}
	return nil
}

// probes: Get/Set beyond Size() must fail for every fixed kind (Size is the bound of Get/Set).
func (e *c22Env) probes() {
	var kinds []string
	for k := range e.meta.Sig {
		kinds = append(kinds, k)
	}
	sort.Strings(kinds)
	for _, k := range kinds {
		sig := e.meta.Sig[k]
		if sig.Var || k == "Package" {
			continue
		}
		t := &c22Tree{K: k}
		for _, f := range sig.Pos {
			t.A = append(t.A, c22KV{f, 0})
		}
		for _, f := range sig.Sc {
			t.A = append(t.A, c22KV{f, c22ZeroAttr(k, f)})
		}
		sort.Slice(t.A, func(i, j int) bool { return t.A[i].K < t.A[j].K })
		for range sig.Slots {
			t.C = append(t.C, c22NilTree)
		}
		b := &c22Builder{}
		x := b.build(t)
		if b.err != nil {
			continue
		}
		a := c22Wrap(x)
		w := e.walker("probe of an empty " + k)
		n := a.Size()
		var got ast2.Ast
		if m := c22Try(func() { got = a.Get(n) }); m == "" {
			w.problem(k, "size-differs", fmt.Sprintf("Size() = %d but Get(%d) does not fail (returns %s): Size() is not the bound of Get", n, n, c22KindOf(c22IfaceOf(got))), x)
		}
		if m := c22Try(func() { a.New().Set(n, nil) }); m == "" {
			w.problem(k, "size-differs", fmt.Sprintf("Size() = %d but Set(%d, nil) does not fail: Size() is not the bound of Set", n, n), x)
		}
	}
}

func c22IfaceOf(a ast2.Ast) interface{} {
	if a == nil {
		return nil
	}
	var v interface{}
	c22Try(func() { v = a.Interface() })
	return v
}

func c22ZeroAttr(kind, f string) interface{} {
	switch f {
	case "Tok":
		switch kind {
		case "AssignStmt":
			return "="
		case "BranchStmt":
			return "break"
		case "IncDecStmt":
			return "++"
		case "RangeStmt":
			return "ILLEGAL"
		}
		return "var"
	case "Op":
		return "-"
	case "Kind":
		return "INT"
	case "Value":
		return "1"
	case "Name":
		return "a"
	case "Implicit", "Incomplete", "Slice3":
		return false
	}
	return 0
}

// validateEvents: the distinct node shapes recorded on the corpus are validated by TLC
// against the signature table (AstNodeTrace.tla).
func (e *c22Env) validateEvents() error {
	var keys []string
	for k := range e.shapes {
		keys = append(keys, k)
	}
	sort.Strings(keys)
	if len(keys) == 0 {
		return core.Infra("no corpus node was recorded")
	}
	var nd strings.Builder
	for _, k := range keys {
		b, _ := json.Marshal(e.shapes[k])
		nd.Write(b)
		nd.WriteByte('\n')
	}
	res, err := e.c.TLC(core.TLCOpts{Spec: "AstNodeTrace", CfgName: "corpus-events", Workers: 1,
		Cfg:        strings.Replace(c22Cfg(1, 1, 1, false, "{0}", nil, "none", false, "EmitRejected"), "SPECIFICATION Spec", "SPECIFICATION TraceSpec", 1),
		ExtraFiles: map[string]string{"astnode_events.ndjson": nd.String()}})
	if err != nil {
		return err
	}
	if res.Distinct != int64(len(keys))+1 {
		return core.Infra("AstNodeTrace consumed %d of %d events", res.Distinct-1, len(keys))
	}
	var rej struct {
		Rejected []int `json:"rejected"`
	}
	found := false
	for _, l := range res.Lines {
		if json.Unmarshal(l, &rej) == nil && bytes.Contains(l, []byte("rejected")) {
			found = true
		}
	}
	if !found {
		return core.Infra("AstNodeTrace printed no verdict")
	}
	rejected := map[int]bool{}
	for _, i := range rej.Rejected {
		rejected[i-1] = true
	}
	for i, k := range keys {
		ev := e.shapes[k]
		if rejected[i] == ev.Rt {
			// TLC and the driver disagree on this event
			if !rejected[i] {
				return core.Infra("event %s: the driver saw a mismatch, AstNodeTrace accepts it", k)
			}
			// rejected by the table although the round trip succeeded: Size / child kinds / attributes
			found := false
			e.mu.Lock()
			for s := range e.probs {
				if strings.HasPrefix(s, "ast("+ev.Kind+"):") {
					found = true
				}
			}
			e.mu.Unlock()
			if !found {
				return core.Infra("event %s is rejected by AstNodeTrace but the driver found nothing wrong with it", k)
			}
		}
	}
	e.c.Extra["corpus_event_shapes_rejected_by_tlc"] = len(rej.Rejected)
	return nil
}

func replayC22(c *core.Ctx, raw json.RawMessage) error {
	var rec c22Rec
	if err := json.Unmarshal(raw, &rec); err != nil {
		return err
	}
	e := newC22Env(c)
	meta, err := c22LoadMeta(c)
	if err != nil {
		return err
	}
	e.meta = meta
	if rec.T == nil {
		return core.Infra("replay case without tree")
	}
	if strings.HasPrefix(rec.Src, "probe of") {
		e.probes()
	} else if err := e.checkRec(&rec, false); err != nil {
		return err
	}
	return e.report()
}

// c22LoadMeta asks TLC for the signature table only.
func c22LoadMeta(c *core.Ctx) (*c22Meta, error) {
	var meta *c22Meta
	_, err := c.TLC(core.TLCOpts{Spec: "AstNode", CfgName: "table", Workers: 1,
		Cfg: c22Cfg(1, 1, 1, false, "{0}", []string{"Ident"}, "none", true, c22Invs),
		OnLine: func(line []byte) {
			if meta == nil && bytes.Contains(line, []byte(`"meta":true`)) {
				var m c22Meta
				if json.Unmarshal(line, &m) == nil {
					m.prepare()
					meta = &m
				}
			}
		}})
	if err != nil {
		return nil, err
	}
	if meta == nil {
		return nil, core.Infra("TLC printed no signature table")
	}
	return meta, nil
}

// mutants of the wrapper used by the self-test: the walker must notice them
type c22MutDropDir struct{ ast2.ChanType }

func (x c22MutDropDir) New() ast2.Ast {
	n := x.ChanType.New().(ast2.ChanType)
	n.X.Dir = 0
	return n
}

type c22MutSwap struct{ ast2.BinaryExpr }

func (x c22MutSwap) New() ast2.Ast         { return c22MutSwap{x.BinaryExpr.New().(ast2.BinaryExpr)} }
func (x c22MutSwap) Set(i int, c ast2.Ast) { x.BinaryExpr.Set(1-i, c) }

type c22MutSize struct{ ast2.IfStmt }

func (x c22MutSize) Size() int { return 3 }

func selfTestC22(c *core.Ctx) error {
	// broken variants of the specification must be rejected by TLC
	for _, v := range []struct{ broken, root, inv string }{
		{"new-drops-attr", "ChanType", "RebuildIdentity"},
		{"size-off", "FuncDecl", "SizeOK"},
		{"set-swap", "BinaryExpr", "SlotTypesOK"}, // stored into a slot the walk has not reached yet
	} {
		r, err := c.TLC(core.TLCOpts{Spec: "AstNode", CfgName: "broken-" + v.broken, Workers: 2,
			Cfg:         c22Cfg(2, 2, 1, false, "{1}", []string{v.root}, v.broken, false, "SizeOK "+c22Invs),
			ExpectError: true})
		if err != nil {
			return err
		}
		if r.Violated != v.inv {
			return fmt.Errorf("broken variant %s not detected by TLC (violated=%q, expected %s)", v.broken, r.Violated, v.inv)
		}
	}
	meta, err := c22LoadMeta(c)
	if err != nil {
		return err
	}
	if err := c22Gate(c, meta); err != nil {
		return fmt.Errorf("gate: %v", err)
	}
	// a corrupted table must be rejected by the gate
	bad := *meta
	bad.Sig = map[string]*c22Sig{}
	for k, v := range meta.Sig {
		bad.Sig[k] = v
	}
	sw := *meta.Sig["SwitchStmt"]
	sw.Slots = []c22Slot{sw.Slots[1], sw.Slots[0], sw.Slots[2]}
	bad.Sig["SwitchStmt"] = &sw
	if err := c22Gate(core.NewCtx("C22", "selftest"), &bad); err == nil {
		return fmt.Errorf("gate accepts a table with swapped SwitchStmt slots")
	}
	// correct and corrupted records
	mk := func(src string) *c22Rec {
		var rec c22Rec
		if err := json.Unmarshal([]byte(src), &rec); err != nil {
			panic(err)
		}
		return &rec
	}
	good := `{"t":{"k":"ChanType","a":{"Arrow":102,"Begin":101,"Dir":2},"c":[{"k":"Ident","a":{"Name":"a","NamePos":101},"c":[]}]},
	          "r":{"k":"ChanType","a":{"Arrow":102,"Begin":101,"Dir":2},"c":[{"k":"Ident","a":{"Name":"a","NamePos":101},"c":[]}]},"ops":["",""]}`
	e := newC22Env(c)
	e.meta = meta
	if err := e.checkRec(mk(good), false); err != nil || len(e.probs) != 0 {
		return fmt.Errorf("correct record rejected: %v %v", err, e.probs)
	}
	e = newC22Env(c)
	e.meta = meta
	if err := e.checkRec(mk(strings.Replace(good, `"Dir":2},"c":[{"k":"Ident","a":{"Name":"a","NamePos":101},"c":[]}]},"ops"`, `"Dir":1},"c":[{"k":"Ident","a":{"Name":"a","NamePos":101},"c":[]}]},"ops"`, 1)), false); err != nil || e.probs["ast(ChanType):attr-lost(Dir)"] == nil {
		return fmt.Errorf("record with a corrupted result accepted: %v %v", err, e.probs)
	}
	// mutant wrappers
	muts := []struct {
		name, sig string
		a         ast2.Ast
	}{
		{"New drops Dir", "ast(ChanType):attr-lost(Dir)", c22MutDropDir{ast2.ChanType{X: &ast.ChanType{Dir: ast.RECV, Value: &ast.Ident{Name: "a"}}}}},
		{"Set swaps slots", "ast(BinaryExpr):child-reordered", c22MutSwap{ast2.BinaryExpr{X: &ast.BinaryExpr{Op: token.ADD, X: &ast.Ident{Name: "a"}, Y: &ast.Ident{Name: "b"}}}}},
		{"Size one short", "ast(IfStmt):size-differs", c22MutSize{ast2.IfStmt{X: &ast.IfStmt{Cond: &ast.Ident{Name: "a"}, Else: &ast.EmptyStmt{}}}}},
	}
	for _, m := range muts {
		e = newC22Env(c)
		e.meta = meta
		w := e.walker("mutant: " + m.name)
		w.rebuild(m.a)
		if e.probs[m.sig] == nil {
			var got []string
			for s := range e.probs {
				got = append(got, s)
			}
			return fmt.Errorf("mutant wrapper %q not detected as %s (got %v)", m.name, m.sig, got)
		}
	}
	// a corrupted event must be rejected by AstNodeTrace
	e = newC22Env(c)
	e.meta = meta
	e.shapes["ok"] = &c22Event{Kind: "IfStmt", Size: 4, Attrs: []string{"If"}, Kids: []string{"Nil", "Ident", "BlockStmt", "Nil"}, Rt: true}
	if err := e.validateEvents(); err != nil {
		return fmt.Errorf("correct event rejected: %v", err)
	}
	e.shapes["bad"] = &c22Event{Kind: "IfStmt", Size: 3, Attrs: []string{"If"}, Kids: []string{"Nil", "Ident", "BlockStmt", "Nil"}, Rt: true}
	if err := e.validateEvents(); err == nil {
		return fmt.Errorf("event with a wrong Size accepted by AstNodeTrace")
	}
	return nil
}

package props

import (
	"fmt"
	"math"
	"sort"
	"strconv"
	"strings"
	"sync"

	"verif/harness/core"
	"verif/harness/gate"
)

// The Go gate of C02. It never reads /repo.
//
// Part 1 (every cell): the REAL Go assignment statement is executed on a native place of the
// same shape (c02natgen.go: generic functions with one literal statement per operator x place
// shape, instantiated at every kind and, for shifts, every count kind); the value of the place
// afterwards, the number of evaluations of the index operand, the panic class and the other
// elements of the containers must be what the specification says. The two compile-time rules
// (a constant integer divisor must not be zero, a constant shift count must not be negative)
// are stated here from the Go specification.
// Part 2 (seeded sample): rendered cells and sequences are really compiled and run with the
// Go toolchain (harness/gate), at least one of every rendering shape.

type c02NatRes struct {
	Known   bool
	Panic   string
	New     c02Val
	Present bool
	NEvi    int
	Stray   bool
}

func c02NatConv[T comparable](kind string, o c02NatOut[T], conv func(T) c02Val) c02NatRes {
	return c02NatRes{Known: o.Panic != "?", Panic: o.Panic, New: conv(o.New), Present: o.Present, NEvi: o.NEvi, Stray: o.Stray}
}

func c02NatIntK[T c01Integer](c *c02Cell, place string, miss bool) c02NatRes {
	conv := func(x T) c02Val { return c02V(c.Kind, uint64(x)&c01Mask(c.Kind)) }
	a := T(c.A.Bits)
	if c.CK == "" {
		return c02NatConv(c.Kind, c02NatInt(place, c.Op, a, T(c.B.Bits), c.Idx, miss), conv)
	}
	n := c.B.Bits
	switch c.CK {
	case "int8":
		return c02NatConv(c.Kind, c02NatShift(place, c.Op, a, int8(n), c.Idx, miss), conv)
	case "int16":
		return c02NatConv(c.Kind, c02NatShift(place, c.Op, a, int16(n), c.Idx, miss), conv)
	case "int32":
		return c02NatConv(c.Kind, c02NatShift(place, c.Op, a, int32(n), c.Idx, miss), conv)
	case "int64":
		return c02NatConv(c.Kind, c02NatShift(place, c.Op, a, int64(n), c.Idx, miss), conv)
	case "int":
		return c02NatConv(c.Kind, c02NatShift(place, c.Op, a, int(n), c.Idx, miss), conv)
	case "uint8":
		return c02NatConv(c.Kind, c02NatShift(place, c.Op, a, uint8(n), c.Idx, miss), conv)
	case "uint16":
		return c02NatConv(c.Kind, c02NatShift(place, c.Op, a, uint16(n), c.Idx, miss), conv)
	case "uint32":
		return c02NatConv(c.Kind, c02NatShift(place, c.Op, a, uint32(n), c.Idx, miss), conv)
	case "uint64":
		return c02NatConv(c.Kind, c02NatShift(place, c.Op, a, uint64(n), c.Idx, miss), conv)
	case "uint":
		return c02NatConv(c.Kind, c02NatShift(place, c.Op, a, uint(n), c.Idx, miss), conv)
	case "uintptr":
		return c02NatConv(c.Kind, c02NatShift(place, c.Op, a, uintptr(n), c.Idx, miss), conv)
	}
	return c02NatRes{}
}

// c02Native executes the cell's assignment natively.
func c02Native(c *c02Cell) c02NatRes {
	place, miss := c.Place, false
	if place == "mapmiss" {
		place, miss = "map", true
	}
	switch c.Kind {
	case "int8":
		return c02NatIntK[int8](c, place, miss)
	case "int16":
		return c02NatIntK[int16](c, place, miss)
	case "int32":
		return c02NatIntK[int32](c, place, miss)
	case "int64":
		return c02NatIntK[int64](c, place, miss)
	case "int":
		return c02NatIntK[int](c, place, miss)
	case "uint8":
		return c02NatIntK[uint8](c, place, miss)
	case "uint16":
		return c02NatIntK[uint16](c, place, miss)
	case "uint32":
		return c02NatIntK[uint32](c, place, miss)
	case "uint64":
		return c02NatIntK[uint64](c, place, miss)
	case "uint":
		return c02NatIntK[uint](c, place, miss)
	case "uintptr":
		return c02NatIntK[uintptr](c, place, miss)
	case "float32":
		return c02NatConv(c.Kind, c02NatFloat(place, c.Op, math.Float32frombits(uint32(c.A.Bits)), math.Float32frombits(uint32(c.B.Bits)), c.Idx, miss),
			func(x float32) c02Val { return c02V("float32", uint64(math.Float32bits(x))) })
	case "float64":
		return c02NatConv(c.Kind, c02NatFloat(place, c.Op, math.Float64frombits(c.A.Bits), math.Float64frombits(c.B.Bits), c.Idx, miss),
			func(x float64) c02Val { return c02V("float64", math.Float64bits(x)) })
	case "complex64":
		return c02NatConv(c.Kind, c02NatCplx(place, c.Op, complex64(c.A.Complex()), complex64(c.B.Complex()), c.Idx, miss),
			func(x complex64) c02Val {
				return c02Val{c01Val: c01Val{Kind: "complex64", Bits: math.Float64bits(float64(real(x)))}, Im: math.Float64bits(float64(imag(x)))}
			})
	case "complex128":
		return c02NatConv(c.Kind, c02NatCplx(place, c.Op, c.A.Complex(), c.B.Complex(), c.Idx, miss),
			func(x complex128) c02Val {
				return c02Val{c01Val: c01Val{Kind: "complex128", Bits: math.Float64bits(real(x))}, Im: math.Float64bits(imag(x))}
			})
	case "string":
		return c02NatConv(c.Kind, c02NatString(place, c.Op, c.A.Str, c.B.Str, c.Idx, miss),
			func(x string) c02Val { return c02Val{c01Val: c01Val{Kind: "string", Str: x}} })
	case "bool":
		return c02NatConv(c.Kind, c02NatBool(place, c.Op, c.A.Bits != 0, c.B.Bits != 0, c.Idx, miss),
			func(x bool) c02Val {
				if x {
					return c02V("bool", 1)
				}
				return c02V("bool", 0)
			})
	}
	return c02NatRes{}
}

// c02GateCheck compares the specification's expectation with native Go; "" = agreement.
func c02GateCheck(c *c02Cell, nat c02NatRes) string {
	if !nat.Known {
		return "no native statement for this operator / place / kind"
	}
	// the compile-time rules for a constant right-hand side
	if c.Rhs == "c" || c.Rhs == "u" {
		rule := ""
		switch {
		case (c.Op == "quo" || c.Op == "rem") && c01IsInt(c.Kind) && c.B.Bits == 0:
			rule = "divzero"
		case (c.Op == "shl" || c.Op == "shr") && c01IsSigned(c.CK) && c.B.Signed() < 0:
			rule = "negshift"
		}
		if rule != "" || c.Want.T == "c" {
			if c.Want.T == "c" && c.Want.Cls == rule {
				return ""
			}
			return fmt.Sprintf("the Go specification prescribes %q for the constant, the model says %s", rule, c.Want)
		}
	}
	expEvi := 0
	if c.indexed() {
		expEvi = 1 // the native statement always uses evi(idx)
	}
	if nat.NEvi != expEvi {
		return fmt.Sprintf("native Go evaluates the index operand %d times", nat.NEvi)
	}
	if nat.Stray {
		return "native Go changed another element"
	}
	switch c.Want.T {
	case "p":
		if nat.Panic != c.Want.Cls {
			return fmt.Sprintf("native Go: panic %q", nat.Panic)
		}
		if c.Place == "mapmiss" {
			if nat.Present {
				return "native Go creates the missing key although the statement panics"
			}
		} else if !nat.New.Equal(c.A) {
			return "native Go changes the place although the statement panics"
		}
	case "v":
		if nat.Panic != "" {
			return fmt.Sprintf("native Go: panic %q", nat.Panic)
		}
		want := c.Want.V
		if c.Place == "blank" {
			want = c.A
		}
		if !nat.New.Equal(want) || ((c.Place == "map" || c.Place == "mapmiss") && !nat.Present) {
			return fmt.Sprintf("native Go: %s(%s) present=%v", nat.New.Kind, nat.New.Text(), nat.Present)
		}
	default:
		return "unexpected expectation " + c.Want.T
	}
	return ""
}

// --- part 2: compile a seeded sample with the Go toolchain -------------------------------

type c02GateSampler struct {
	c            *core.Ctx
	mu           sync.Mutex
	perShape     int
	cellShapes   map[string]int
	seqShapes    map[string]int
	cells        []*c02Cell // expected to compile
	rejected     []*c02Cell // expected to be rejected by the compiler
	seqs         []*c02Seq
	modCell      uint64
	modSeq       uint64
	maxCells     int
	maxRej       int
	maxSeqs      int
	cellsChecked int
	seqsChecked  int
}

func newC02GateSampler(c *core.Ctx) *c02GateSampler {
	return &c02GateSampler{c: c, perShape: 1, cellShapes: map[string]int{}, seqShapes: map[string]int{},
		modCell: uint64(c.Pick(400, 8000)), modSeq: uint64(c.Pick(300, 4000)), maxCells: c.Pick(3000, 8000), maxRej: c.Pick(40, 120), maxSeqs: c.Pick(800, 2400)}
}

func (s *c02GateSampler) shapes() int {
	s.mu.Lock()
	defer s.mu.Unlock()
	return len(s.cellShapes) + len(s.seqShapes)
}

func c02OpClass(op string) string {
	switch op {
	case "set", "inc", "dec", "shl", "shr":
		return op
	}
	return "op"
}

func c02KindClass(k string) string {
	switch {
	case c01IsInt(k):
		return "int"
	case c01IsFloat(k):
		return "float"
	case c02IsCplx(k):
		return "complex"
	}
	return k
}

// rendering shapes of a cell: the combinations the renderer and the projection branch on
// (snippet layout; literal / operator text; expected-result layout)
func c02CellShapes(c *c02Cell) []string {
	return []string{
		"layout|" + c.Place + "|" + c.Storage + "|" + c.Rhs + "|" + c.IdxForm,
		"literal|" + c.Kind + "|" + c.CK + "|" + c.Rhs,
		"operator|" + c.Op + "|" + c02KindClass(c.Kind),
		"result|" + c.Place + "|" + c.retShape() + "|" + c.Want.T + "|" + c02KindClass(c.Kind),
	}
}

func (s *c02GateSampler) offerCell(c *c02Cell) {
	shapes := c02CellShapes(c)
	hv := c02Hash("gate", s.c.Seed, c.Key())
	s.mu.Lock()
	defer s.mu.Unlock()
	newShape := false
	for _, sh := range shapes {
		if s.cellShapes[sh] < s.perShape {
			newShape = true
		}
	}
	if !newShape && hv%s.modCell != 0 {
		return
	}
	cp := *c
	if c.Want.T == "c" {
		if len(s.rejected) >= s.maxRej {
			return
		}
		s.rejected = append(s.rejected, &cp)
	} else {
		if len(s.cells) >= s.maxCells {
			return
		}
		s.cells = append(s.cells, &cp)
	}
	for _, sh := range shapes {
		s.cellShapes[sh]++
	}
}

func (s *c02GateSampler) offerSeq(q *c02Seq) {
	var shapes []string
	// rendering shapes of a sequence: per world, the statement forms, the place texts, the
	// right-hand side texts (literals per kind)
	w := q.World + "|"
	for j, st := range q.Rec.Prog {
		shapes = append(shapes, fmt.Sprintf("stmt|%s%s|%s|%d|%s", w, st.T, st.O, len(st.Ps), c02KindClass(q.Kind)))
		for _, p := range st.Ps {
			shapes = append(shapes, "place|"+w+p.Sh+"|"+p.N+"|"+p.F)
		}
		for i, r := range st.Rs {
			target := ""
			if r.F == "const" { // the text of a constant depends on the kind, on typed / untyped and on what it is assigned to
				target = fmt.Sprintf("%s|%v|%s", q.Kind, q.untyped(st, j, i), st.Ps[min(i, len(st.Ps)-1)].Sh)
			}
			shapes = append(shapes, "rhs|"+w+r.F+"|"+r.P.Sh+"|"+r.P.N+"|"+r.P.F+"|"+c02KindClass(q.Kind)+"|"+target)
		}
	}
	shapes = append(shapes, "outcome|"+w+q.Rec.Pan+"|"+q.Kind)
	hv := c02Hash("gate", s.c.Seed, q.Key())
	s.mu.Lock()
	defer s.mu.Unlock()
	newShape := false
	for _, sh := range shapes {
		if s.seqShapes[sh] < s.perShape {
			newShape = true
		}
	}
	if !newShape && hv%s.modSeq != 0 {
		return
	}
	if len(s.seqs) >= s.maxSeqs {
		return
	}
	s.seqs = append(s.seqs, q)
	for _, sh := range shapes {
		s.seqShapes[sh]++
	}
}

// --- native programs ---

func c02NativeLit(v c02Val) string {
	switch {
	case v.Kind == "float32":
		return fmt.Sprintf("math.Float32frombits(0x%x)", uint32(v.Bits))
	case v.Kind == "float64":
		return fmt.Sprintf("math.Float64frombits(0x%x)", v.Bits)
	case v.Kind == "complex128":
		return fmt.Sprintf("complex(math.Float64frombits(0x%x), math.Float64frombits(0x%x))", v.Bits, v.Im)
	case v.Kind == "complex64":
		return fmt.Sprintf("complex(math.Float32frombits(0x%x), math.Float32frombits(0x%x))",
			math.Float32bits(float32(math.Float64frombits(v.Bits))), math.Float32bits(float32(math.Float64frombits(v.Im))))
	case v.Kind == "string":
		return strconv.Quote(v.Str)
	case v.Kind == "bool":
		return strconv.FormatBool(v.Bits != 0)
	}
	return v.Kind + "(" + v.c01Val.Text() + ")"
}

const c02GateDecls = `
var _ = math.Float32frombits
`

// c02NativeCellFunc renders the cell as a compiled-Go function: the "globals" of the kind are
// locals of the function (for compiled Go the difference is invisible), armed like the
// interpreter's, then the VERBATIM snippet, then the projected state.
func c02NativeCellFunc(name string, c *c02Cell) string {
	k, rk := c.Kind, c.rk()
	st := c.armed()
	var b strings.Builder
	fmt.Fprintf(&b, "func %s() (res string) {\n", name)
	fmt.Fprintf(&b, "\ttype c02T_%s struct { F %s; H %s }\n", k, k, k)
	fmt.Fprintf(&b, "\tvar c02x_%s, c02bx_%s, c02t_%s %s = %s, %s, %s\n", k, k, k, k, c02NativeLit(st.X), c02NativeLit(st.BX), c02NativeLit(st.T))
	fmt.Fprintf(&b, "\tvar c02r_%s, c02br_%s %s = %s, %s\n", rk, rk, rk, c02NativeLit(st.R), c02NativeLit(st.BR))
	fmt.Fprintf(&b, "\tc02p_%s := &c02t_%s\n", k, k)
	fmt.Fprintf(&b, "\tc02a_%s := [3]%s{%s, %s, %s}\n", k, k, c02NativeLit(st.A[0]), c02NativeLit(st.A[1]), c02NativeLit(st.A[2]))
	fmt.Fprintf(&b, "\tc02s_%s := []%s{%s, %s, %s}\n", k, k, c02NativeLit(st.S[0]), c02NativeLit(st.S[1]), c02NativeLit(st.S[2]))
	fmt.Fprintf(&b, "\tc02m_%s := map[int]%s{", k, k)
	keys := make([]int, 0, len(st.M))
	for key := range st.M {
		keys = append(keys, key)
	}
	sort.Ints(keys)
	for i, key := range keys {
		if i > 0 {
			b.WriteString(", ")
		}
		fmt.Fprintf(&b, "%d: %s", key, c02NativeLit(st.M[key]))
	}
	b.WriteString("}\n")
	fmt.Fprintf(&b, "\tc02st_%s := c02T_%s{F: %s, H: %s}\n", k, k, c02NativeLit(st.F), c02NativeLit(st.H))
	fmt.Fprintf(&b, "\tc02pa_%s, c02ps_%s := &c02a_%s, &c02st_%s\n", k, k, k, k)
	fmt.Fprintf(&b, "\t_, _, _, _, _, _ = c02x_%s, c02bx_%s, c02r_%s, c02br_%s, c02p_%s, c02pa_%s\n\t_ = c02ps_%s\n", k, k, rk, rk, k, k, k)
	b.WriteString("\tn0 := len(events)\n\tret := \"\"\n")
	fmt.Fprintf(&b, "\tstate := func() string { return ret + \" # \" + show.Vals(c02x_%s, c02bx_%s, c02t_%s, c02r_%s, c02br_%s, c02a_%s, c02s_%s, c02m_%s, c02st_%s) + \" # \" + strings.Join(events[n0:], \",\") }\n",
		k, k, k, rk, rk, k, k, k, k)
	b.WriteString("\tdefer func() {\n\t\tif e := recover(); e != nil {\n\t\t\tres = \"panic(\" + show.ShowPanic(e) + \") \" + state()\n\t\t}\n\t}()\n")
	if c.retShape() != "" {
		fmt.Fprintf(&b, "\tret = show.Vals(%s)\n", c.Source())
	} else {
		fmt.Fprintf(&b, "\t%s\n", c.Source())
	}
	b.WriteString("\treturn \"ok \" + state()\n}\n")
	return b.String()
}

func c02ShowState(st c02State) string {
	arr := func(a [3]c02Val) string { return "[" + c02Show(a[0]) + " " + c02Show(a[1]) + " " + c02Show(a[2]) + "]" }
	var m []string
	for k, v := range st.M {
		m = append(m, fmt.Sprintf("int:%d=>%s", k, c02Show(v)))
	}
	sort.Strings(m)
	return "[" + strings.Join([]string{c02Show(st.X), c02Show(st.BX), c02Show(st.T), c02Show(st.R), c02Show(st.BR), arr(st.A), arr(st.S),
		"map[" + strings.Join(m, " ") + "]", "{" + c02Show(st.F) + " " + c02Show(st.H) + "}"}, ", ") + "]"
}

// c02NativeCellWant: the string the compiled function must return.
func c02NativeCellWant(c *c02Cell) string {
	o := c.expected()
	head := "ok "
	if o.T == "p" {
		head = "panic(error:" + o.Cls + ") "
	}
	ret := ""
	if o.T == "ok" {
		switch c.retShape() {
		case "val":
			ret = "[" + c02Show(o.Ret[0]) + "]"
		case "arr":
			ret = "[[" + c02Show(o.Ret[0]) + " " + c02Show(o.Ret[1]) + " " + c02Show(o.Ret[2]) + "]]"
		case "st":
			ret = "[{" + c02Show(o.Ret[0]) + " " + c02Show(o.Ret[1]) + "}]"
		}
	}
	return head + ret + " # " + c02ShowState(o.State) + " # " + strings.Join(o.Events, ",")
}

// c02NativeSeqFunc renders a sequence as a compiled-Go function returning "<events> # <panic>".
func c02NativeSeqFunc(name string, q *c02Seq) (string, error) {
	p, err := q.render()
	if err != nil {
		return "", err
	}
	k := q.Kind
	var b strings.Builder
	fmt.Fprintf(&b, "func %s() (res string) {\n\tevents = nil\n", name)
	fmt.Fprintf(&b, "\tc02g_%s, c02gb_%s = %s, %s\n", k, k, c02NativeLit(q.init["g"]), c02NativeLit(q.init["gb"]))
	b.WriteString("\tdefer func() {\n\t\tpan := \"\"\n\t\tif e := recover(); e != nil {\n\t\t\tpan = show.ShowPanic(e)\n\t\t}\n\t\tres = strings.Join(events, \"|\") + \" # \" + pan\n\t}()\n")
	if q.World == "top" {
		fmt.Fprintf(&b, "\t%s\n\tdefer func() { %s }()\n", p.Arm, p.Final)
	}
	fmt.Fprintf(&b, "\t%s\n\treturn\n}\n", p.Body)
	return b.String(), nil
}

// c02NativeSeqDecls: the file-level variables of a kind (the "top" world and g / gb).
func c02NativeSeqDecls(k string) string {
	var b strings.Builder
	b.WriteString(c02TypeDecl(k) + "\n")
	fmt.Fprintf(&b, "var c02g_%s, c02gb_%s, c02w0_%s, c02w1_%s, c02w2_%s, c02w3_%s, c02wt_%s %s\n", k, k, k, k, k, k, k, k)
	for _, d := range c02ContainerDecls(k) {
		if strings.HasPrefix(d, "var c02w") {
			b.WriteString(d + "\n")
		}
	}
	fmt.Fprintf(&b, "var _ = c02wp_%s\n", k)
	return b.String()
}

func c02Unquote(res string) (string, error) {
	res = strings.TrimSuffix(strings.TrimPrefix(res, "[string:"), "]")
	return strconv.Unquote(res)
}

func (s *c02GateSampler) runGate() error {
	const per = 40
	var progs []gate.Prog
	type group struct {
		cells []*c02Cell
		seqs  []*c02Seq
	}
	var groups []group
	for lo := 0; lo < len(s.cells); lo += per {
		hi := min(lo+per, len(s.cells))
		var decls strings.Builder
		decls.WriteString(c02GateDecls)
		var calls []string
		for i, c := range s.cells[lo:hi] {
			name := fmt.Sprintf("c02f%d", i)
			decls.WriteString(c02NativeCellFunc(name, c))
			calls = append(calls, name+"()")
		}
		progs = append(progs, gate.Prog{Imports: []string{"math"}, Decls: decls.String(),
			Entry: "strings.Join([]string{" + strings.Join(calls, ", ") + "}, \"\\x1f\")"})
		groups = append(groups, group{cells: s.cells[lo:hi]})
	}
	sort.Slice(s.seqs, func(i, j int) bool { return s.seqs[i].Kind < s.seqs[j].Kind })
	for lo := 0; lo < len(s.seqs); lo += per {
		hi := min(lo+per, len(s.seqs))
		var decls strings.Builder
		decls.WriteString(c02GateDecls + "var c02wix int\n" + c02KeyDecl + "\n")
		kinds := map[string]bool{}
		var calls []string
		for i, q := range s.seqs[lo:hi] {
			if !kinds[q.Kind] {
				kinds[q.Kind] = true
				decls.WriteString(c02NativeSeqDecls(q.Kind))
			}
			name := fmt.Sprintf("c02q%d", i)
			f, err := c02NativeSeqFunc(name, q)
			if err != nil {
				return core.Infra("go gate: %v", err)
			}
			decls.WriteString(f)
			calls = append(calls, name+"()")
		}
		progs = append(progs, gate.Prog{Imports: []string{"math"}, Decls: decls.String(),
			Entry: "strings.Join([]string{" + strings.Join(calls, ", ") + "}, \"\\x1f\")"})
		groups = append(groups, group{seqs: s.seqs[lo:hi]})
	}
	nrun := len(progs)
	for _, c := range s.rejected {
		progs = append(progs, gate.Prog{Imports: []string{"math"}, Decls: c02GateDecls + c02NativeCellFunc("c02f0", c), Entry: "c02f0()"})
	}
	if len(progs) == 0 {
		return nil
	}
	outs, err := gate.Run(s.c.Verif, progs)
	if err != nil {
		return core.Infra("go gate: %v", err)
	}
	shown := 0
	reject := func(what, src, want, got string) {
		s.c.Gate(false)
		if shown < 6 {
			shown++
			fmt.Printf("GATE-REJECT property=C02 (specification / rendering disagrees with COMPILED Go): %s\n%s\n  expected %s\n  compiled Go %s\n", what, src, want, got)
		}
	}
	for gi, g := range groups {
		o := outs[gi]
		n := len(g.cells) + len(g.seqs)
		if o.CompileError != "" {
			for i := 0; i < n; i++ {
				reject("compile error in a batch", progs[gi].Decls[:min(len(progs[gi].Decls), 600)], "-", o.CompileError)
			}
			continue
		}
		joined, err := c02Unquote(o.Result)
		if err != nil {
			return core.Infra("go gate: cannot parse result %q", c01Trunc(o.Result))
		}
		parts := strings.Split(joined, "\x1f")
		if len(parts) != n {
			return core.Infra("go gate: %d results for %d programs", len(parts), n)
		}
		for i, c := range g.cells {
			s.cellsChecked++
			want := c02NativeCellWant(c)
			if got := c02NormEvent(parts[i]); got == want {
				s.c.Gate(true)
			} else {
				reject(c.CellName()+" "+c02Operands(c), c02NativeCellFunc("f", c), want, got)
			}
		}
		for i, q := range g.seqs {
			s.seqsChecked++
			want := strings.Join(q.expectedEvents(), "|") + " # " + q.expectedPanic()
			if got := c02NormEvent(parts[i]); got == want {
				s.c.Gate(true)
			} else {
				f, _ := c02NativeSeqFunc("f", q)
				reject("sequence", f, want, got)
			}
		}
	}
	for i, c := range s.rejected {
		o := outs[nrun+i]
		s.cellsChecked++
		if o.CompileError != "" {
			s.c.Gate(true)
		} else {
			reject(c.CellName()+" "+c02Operands(c), c02NativeCellFunc("f", c), "rejected by the compiler", "compiles; result "+o.Result)
		}
	}
	return nil
}

package props

import (
	"encoding/json"
	"fmt"
	"go/ast"
	"go/token"
	"reflect"
	"sort"
	"strconv"
	"strings"

	"github.com/cosmos72/gomacro/ast2"
	"github.com/cosmos72/gomacro/go/etoken"
)

// C22 helpers: abstract trees (the JSON form of spec/front/AstNode.tla), the harness's own
// constructor and projection per go/ast node kind (independent of package ast2).

// c22Tree is an abstract tree [k, a, c]; K == "Nil" is an absent child.
type c22Tree struct {
	K string
	A []c22KV // sorted by name; values are string, int or bool
	C []*c22Tree
}

type c22KV struct {
	K string
	V interface{}
}

var c22NilTree = &c22Tree{K: "Nil"}

func (t *c22Tree) isNil() bool { return t == nil || t.K == "Nil" }

func (t *c22Tree) UnmarshalJSON(b []byte) error {
	var raw struct {
		K string          `json:"k"`
		A json.RawMessage `json:"a"`
		C []*c22Tree      `json:"c"`
	}
	if err := json.Unmarshal(b, &raw); err != nil {
		return err
	}
	t.K, t.C, t.A = raw.K, raw.C, nil
	if len(raw.A) > 0 && raw.A[0] == '{' {
		var m map[string]interface{}
		if err := json.Unmarshal(raw.A, &m); err != nil {
			return err
		}
		for k, v := range m {
			if f, ok := v.(float64); ok {
				v = int(f)
			}
			t.A = append(t.A, c22KV{k, v})
		}
		sort.Slice(t.A, func(i, j int) bool { return t.A[i].K < t.A[j].K })
	}
	return nil
}

func (t *c22Tree) MarshalJSON() ([]byte, error) {
	if t.isNil() {
		return []byte(`{"k":"Nil"}`), nil
	}
	m := map[string]interface{}{}
	for _, kv := range t.A {
		m[kv.K] = kv.V
	}
	c := t.C
	if c == nil {
		c = []*c22Tree{}
	}
	return json.Marshal(map[string]interface{}{"k": t.K, "a": m, "c": c})
}

// String is the canonical form used for comparisons.
func (t *c22Tree) String() string {
	var b strings.Builder
	t.write(&b)
	return b.String()
}

func (t *c22Tree) write(b *strings.Builder) {
	if t.isNil() {
		b.WriteByte('_')
		return
	}
	b.WriteString(t.K)
	if len(t.A) > 0 {
		b.WriteByte('{')
		for i, kv := range t.A {
			if i > 0 {
				b.WriteByte(',')
			}
			b.WriteString(kv.K)
			b.WriteByte('=')
			b.WriteString(c22ValString(kv.V))
		}
		b.WriteByte('}')
	}
	b.WriteByte('(')
	for i, c := range t.C {
		if i > 0 {
			b.WriteByte(',')
		}
		c.write(b)
	}
	b.WriteByte(')')
}

func c22ValString(v interface{}) string {
	switch v := v.(type) {
	case string:
		return strconv.Quote(v)
	case int:
		return strconv.Itoa(v)
	case bool:
		return strconv.FormatBool(v)
	}
	return fmt.Sprintf("?%T:%v", v, v)
}

func (t *c22Tree) nodes() int {
	if t.isNil() {
		return 0
	}
	n := 1
	for _, c := range t.C {
		n += c.nodes()
	}
	return n
}

func (t *c22Tree) attr(name string) interface{} {
	for _, kv := range t.A {
		if kv.K == name {
			return kv.V
		}
	}
	return nil
}

// ---------------------------------------------------------------------------
// tokens

var c22TokByName = func() map[string]token.Token {
	m := map[string]token.Token{}
	for i := 0; i < 120; i++ {
		m[c22TokName(token.Token(i))] = token.Token(i)
	}
	for t := etoken.QUOTE; t <= etoken.HASH; t++ {
		m[c22TokName(t)] = t
	}
	return m
}()

func c22TokName(t token.Token) string { return etoken.String(t) }

// ---------------------------------------------------------------------------
// shallow projection: kind, attributes (raw values, sorted by name), children (raw values)

type c22Sh struct {
	Kind string
	A    []c22KV
	Kids []interface{} // nil = absent; ast.Node pointer; non-empty slice; c22TypedNil
}

// c22TypedNil marks a nil pointer stored in an interface-typed field.
type c22TypedNil struct{ T string }

func c22I(e interface{}) interface{} { // interface-typed field (ast.Expr, ast.Stmt, ast.Decl, ast.Spec, ast.Node)
	if e == nil {
		return nil
	}
	if rv := reflect.ValueOf(e); rv.Kind() == reflect.Ptr && rv.IsNil() {
		return c22TypedNil{rv.Type().String()}
	}
	return e
}

func c22P[T any](p *T) interface{} { // pointer-typed field
	if p == nil {
		return nil
	}
	return p
}

func c22L[T any](s []T) interface{} { // list slot
	if len(s) == 0 {
		return nil
	}
	return s
}

func c22Elems[T any](s []T) []interface{} {
	out := make([]interface{}, len(s))
	for i, e := range s {
		out[i] = c22I(e)
	}
	return out
}

func c22Shallow(x interface{}) (c22Sh, bool) {
	type kv = c22KV
	type ks = []interface{}
	switch n := x.(type) {
	case *ast.ArrayType:
		return c22Sh{"ArrayType", []kv{{"Lbrack", n.Lbrack}}, ks{c22I(n.Len), c22I(n.Elt)}}, true
	case *ast.AssignStmt:
		return c22Sh{"AssignStmt", []kv{{"Tok", n.Tok}, {"TokPos", n.TokPos}}, ks{c22L(n.Lhs), c22L(n.Rhs)}}, true
	case *ast.BadDecl:
		return c22Sh{"BadDecl", []kv{{"From", n.From}, {"To", n.To}}, ks{}}, true
	case *ast.BadExpr:
		return c22Sh{"BadExpr", []kv{{"From", n.From}, {"To", n.To}}, ks{}}, true
	case *ast.BadStmt:
		return c22Sh{"BadStmt", []kv{{"From", n.From}, {"To", n.To}}, ks{}}, true
	case *ast.BasicLit:
		return c22Sh{"BasicLit", []kv{{"Kind", n.Kind}, {"Value", n.Value}, {"ValuePos", n.ValuePos}}, ks{}}, true
	case *ast.BinaryExpr:
		return c22Sh{"BinaryExpr", []kv{{"Op", n.Op}, {"OpPos", n.OpPos}}, ks{c22I(n.X), c22I(n.Y)}}, true
	case *ast.BlockStmt:
		return c22Sh{"BlockStmt", []kv{{"Lbrace", n.Lbrace}, {"Rbrace", n.Rbrace}}, c22Elems(n.List)}, true
	case *ast.BranchStmt:
		return c22Sh{"BranchStmt", []kv{{"Tok", n.Tok}, {"TokPos", n.TokPos}}, ks{c22P(n.Label)}}, true
	case *ast.CallExpr:
		return c22Sh{"CallExpr", []kv{{"Ellipsis", n.Ellipsis}, {"Lparen", n.Lparen}, {"Rparen", n.Rparen}}, ks{c22I(n.Fun), c22L(n.Args)}}, true
	case *ast.CaseClause:
		return c22Sh{"CaseClause", []kv{{"Case", n.Case}, {"Colon", n.Colon}}, ks{c22L(n.List), c22L(n.Body)}}, true
	case *ast.ChanType:
		return c22Sh{"ChanType", []kv{{"Arrow", n.Arrow}, {"Begin", n.Begin}, {"Dir", n.Dir}}, ks{c22I(n.Value)}}, true
	case *ast.CommClause:
		return c22Sh{"CommClause", []kv{{"Case", n.Case}, {"Colon", n.Colon}}, ks{c22I(n.Comm), c22L(n.Body)}}, true
	case *ast.CompositeLit:
		return c22Sh{"CompositeLit", []kv{{"Incomplete", n.Incomplete}, {"Lbrace", n.Lbrace}, {"Rbrace", n.Rbrace}}, ks{c22I(n.Type), c22L(n.Elts)}}, true
	case *ast.DeclStmt:
		return c22Sh{"DeclStmt", nil, ks{c22I(n.Decl)}}, true
	case *ast.DeferStmt:
		return c22Sh{"DeferStmt", []kv{{"Defer", n.Defer}}, ks{c22P(n.Call)}}, true
	case *ast.Ellipsis:
		return c22Sh{"Ellipsis", []kv{{"Ellipsis", n.Ellipsis}}, ks{c22I(n.Elt)}}, true
	case *ast.EmptyStmt:
		return c22Sh{"EmptyStmt", []kv{{"Implicit", n.Implicit}, {"Semicolon", n.Semicolon}}, ks{}}, true
	case *ast.ExprStmt:
		return c22Sh{"ExprStmt", nil, ks{c22I(n.X)}}, true
	case *ast.Field:
		return c22Sh{"Field", []kv{{"Comment", n.Comment}, {"Doc", n.Doc}}, ks{c22L(n.Names), c22I(n.Type), c22P(n.Tag)}}, true
	case *ast.FieldList:
		return c22Sh{"FieldList", []kv{{"Closing", n.Closing}, {"Opening", n.Opening}}, c22Elems(n.List)}, true
	case *ast.File:
		return c22Sh{"File", []kv{{"Comments", n.Comments}, {"Doc", n.Doc}, {"Imports", n.Imports}, {"Name", n.Name}, {"Package", n.Package}, {"Scope", n.Scope}}, c22Elems(n.Decls)}, true
	case *ast.ForStmt:
		return c22Sh{"ForStmt", []kv{{"For", n.For}}, ks{c22I(n.Init), c22I(n.Cond), c22I(n.Post), c22P(n.Body)}}, true
	case *ast.FuncDecl:
		return c22Sh{"FuncDecl", []kv{{"Doc", n.Doc}}, ks{c22P(n.Recv), c22P(n.Name), c22P(n.Type), c22P(n.Body)}}, true
	case *ast.FuncLit:
		return c22Sh{"FuncLit", nil, ks{c22P(n.Type), c22P(n.Body)}}, true
	case *ast.FuncType:
		return c22Sh{"FuncType", []kv{{"Func", n.Func}}, ks{c22P(n.Params), c22P(n.Results)}}, true
	case *ast.GenDecl:
		return c22Sh{"GenDecl", []kv{{"Doc", n.Doc}, {"Lparen", n.Lparen}, {"Rparen", n.Rparen}, {"Tok", n.Tok}, {"TokPos", n.TokPos}}, c22Elems(n.Specs)}, true
	case *ast.GoStmt:
		return c22Sh{"GoStmt", []kv{{"Go", n.Go}}, ks{c22P(n.Call)}}, true
	case *ast.Ident:
		return c22Sh{"Ident", []kv{{"Name", n.Name}, {"NamePos", n.NamePos}}, ks{}}, true
	case *ast.IfStmt:
		return c22Sh{"IfStmt", []kv{{"If", n.If}}, ks{c22I(n.Init), c22I(n.Cond), c22P(n.Body), c22I(n.Else)}}, true
	case *ast.ImportSpec:
		return c22Sh{"ImportSpec", []kv{{"Comment", n.Comment}, {"Doc", n.Doc}, {"EndPos", n.EndPos}}, ks{c22P(n.Name), c22P(n.Path)}}, true
	case *ast.IncDecStmt:
		return c22Sh{"IncDecStmt", []kv{{"Tok", n.Tok}, {"TokPos", n.TokPos}}, ks{c22I(n.X)}}, true
	case *ast.IndexExpr:
		return c22Sh{"IndexExpr", []kv{{"Lbrack", n.Lbrack}, {"Rbrack", n.Rbrack}}, ks{c22I(n.X), c22I(n.Index)}}, true
	case *ast.InterfaceType:
		return c22Sh{"InterfaceType", []kv{{"Incomplete", n.Incomplete}, {"Interface", n.Interface}}, ks{c22P(n.Methods)}}, true
	case *ast.KeyValueExpr:
		return c22Sh{"KeyValueExpr", []kv{{"Colon", n.Colon}}, ks{c22I(n.Key), c22I(n.Value)}}, true
	case *ast.LabeledStmt:
		return c22Sh{"LabeledStmt", []kv{{"Colon", n.Colon}}, ks{c22P(n.Label), c22I(n.Stmt)}}, true
	case *ast.MapType:
		return c22Sh{"MapType", []kv{{"Map", n.Map}}, ks{c22I(n.Key), c22I(n.Value)}}, true
	case *ast.Package:
		return c22Sh{"Package", []kv{{"Imports", n.Imports}, {"Name", n.Name}, {"Scope", n.Scope}}, ks{nil, nil}}, true
	case *ast.ParenExpr:
		return c22Sh{"ParenExpr", []kv{{"Lparen", n.Lparen}, {"Rparen", n.Rparen}}, ks{c22I(n.X)}}, true
	case *ast.RangeStmt:
		return c22Sh{"RangeStmt", []kv{{"For", n.For}, {"Tok", n.Tok}, {"TokPos", n.TokPos}}, ks{c22I(n.Key), c22I(n.Value), c22I(n.X), c22P(n.Body)}}, true
	case *ast.ReturnStmt:
		return c22Sh{"ReturnStmt", nil, c22Elems(n.Results)}, true
	case *ast.SelectStmt:
		return c22Sh{"SelectStmt", []kv{{"Select", n.Select}}, ks{c22P(n.Body)}}, true
	case *ast.SelectorExpr:
		return c22Sh{"SelectorExpr", nil, ks{c22I(n.X), c22P(n.Sel)}}, true
	case *ast.SendStmt:
		return c22Sh{"SendStmt", []kv{{"Arrow", n.Arrow}}, ks{c22I(n.Chan), c22I(n.Value)}}, true
	case *ast.SliceExpr:
		return c22Sh{"SliceExpr", []kv{{"Lbrack", n.Lbrack}, {"Rbrack", n.Rbrack}, {"Slice3", n.Slice3}}, ks{c22I(n.X), c22I(n.Low), c22I(n.High), c22I(n.Max)}}, true
	case *ast.StarExpr:
		return c22Sh{"StarExpr", []kv{{"Star", n.Star}}, ks{c22I(n.X)}}, true
	case *ast.StructType:
		return c22Sh{"StructType", []kv{{"Incomplete", n.Incomplete}, {"Struct", n.Struct}}, ks{c22P(n.Fields)}}, true
	case *ast.SwitchStmt:
		return c22Sh{"SwitchStmt", []kv{{"Switch", n.Switch}}, ks{c22I(n.Init), c22I(n.Tag), c22P(n.Body)}}, true
	case *ast.TypeAssertExpr:
		return c22Sh{"TypeAssertExpr", []kv{{"Lparen", n.Lparen}, {"Rparen", n.Rparen}}, ks{c22I(n.X), c22I(n.Type)}}, true
	case *ast.TypeSpec:
		return c22Sh{"TypeSpec", []kv{{"Assign", n.Assign}, {"Comment", n.Comment}, {"Doc", n.Doc}}, ks{c22P(n.Name), c22I(n.Type)}}, true
	case *ast.TypeSwitchStmt:
		return c22Sh{"TypeSwitchStmt", []kv{{"Switch", n.Switch}}, ks{c22I(n.Init), c22I(n.Assign), c22P(n.Body)}}, true
	case *ast.UnaryExpr:
		return c22Sh{"UnaryExpr", []kv{{"Op", n.Op}, {"OpPos", n.OpPos}}, ks{c22I(n.X)}}, true
	case *ast.ValueSpec:
		return c22Sh{"ValueSpec", []kv{{"Comment", n.Comment}, {"Doc", n.Doc}}, ks{c22L(n.Names), c22I(n.Type), c22L(n.Values)}}, true
	// slices
	case []ast.Expr:
		return c22Sh{"ExprSlice", nil, c22Elems(n)}, true
	case []ast.Stmt:
		return c22Sh{"StmtSlice", nil, c22Elems(n)}, true
	case []*ast.Ident:
		return c22Sh{"IdentSlice", nil, c22Elems(n)}, true
	case []*ast.Field:
		return c22Sh{"FieldSlice", nil, c22Elems(n)}, true
	case []ast.Decl:
		return c22Sh{"DeclSlice", nil, c22Elems(n)}, true
	case []ast.Spec:
		return c22Sh{"SpecSlice", nil, c22Elems(n)}, true
	case []ast.Node:
		return c22Sh{"NodeSlice", nil, c22Elems(n)}, true
	case []ast2.Ast:
		kids := make([]interface{}, len(n))
		for i, e := range n {
			if e != nil {
				kids[i] = e.Interface()
			}
		}
		return c22Sh{"AstSlice", nil, kids}, true
	}
	return c22Sh{}, false
}

// c22Abs maps a raw attribute value to the model's value.
func c22Abs(v interface{}) interface{} {
	switch v := v.(type) {
	case token.Pos:
		return int(v)
	case token.Token:
		return c22TokName(v)
	case ast.ChanDir:
		return int(v)
	case bool, string, int:
		return v
	case *ast.Ident:
		if v == nil {
			return ""
		}
		return v.Name
	case *ast.CommentGroup:
		return c22B2I(v != nil)
	case []*ast.CommentGroup:
		return c22B2I(len(v) > 0)
	case *ast.Scope:
		return c22B2I(v != nil)
	case []*ast.ImportSpec:
		return c22B2I(len(v) > 0)
	case map[string]*ast.Object:
		return c22B2I(len(v) > 0)
	}
	return fmt.Sprintf("?%T", v)
}

func c22B2I(b bool) int {
	if b {
		return 1
	}
	return 0
}

// c22Same: identity of raw values (pointers, slices and maps by identity, scalars by value).
func c22Same(a, b interface{}) bool {
	if a == nil || b == nil {
		return a == nil && b == nil
	}
	ta, tb := reflect.TypeOf(a), reflect.TypeOf(b)
	if ta != tb {
		return false
	}
	switch ta.Kind() {
	case reflect.Slice:
		va, vb := reflect.ValueOf(a), reflect.ValueOf(b)
		if va.Len() != vb.Len() {
			return false
		}
		return va.Len() == 0 || va.Pointer() == vb.Pointer()
	case reflect.Map:
		va, vb := reflect.ValueOf(a), reflect.ValueOf(b)
		return va.Len() == vb.Len() && (va.Len() == 0 || va.Pointer() == vb.Pointer())
	}
	return a == b
}

// c22Deep projects a real value to the abstract tree.
func c22Deep(x interface{}) *c22Tree {
	if x == nil {
		return c22NilTree
	}
	if tn, ok := x.(c22TypedNil); ok {
		return &c22Tree{K: "TypedNil:" + tn.T}
	}
	sh, ok := c22Shallow(x)
	if !ok {
		return &c22Tree{K: fmt.Sprintf("?%T", x)}
	}
	t := &c22Tree{K: sh.Kind}
	for _, kv := range sh.A {
		t.A = append(t.A, c22KV{kv.K, c22Abs(kv.V)})
	}
	t.C = make([]*c22Tree, len(sh.Kids))
	for i, k := range sh.Kids {
		t.C[i] = c22Deep(k)
	}
	return t
}

// ---------------------------------------------------------------------------
// the harness's own constructors: abstract tree -> real go/ast value

type c22Builder struct{ err error }

func (b *c22Builder) fail(format string, a ...interface{}) {
	if b.err == nil {
		b.err = fmt.Errorf(format, a...)
	}
}

func (b *c22Builder) pos(t *c22Tree, name string) token.Pos {
	v, ok := t.attr(name).(int)
	if !ok {
		b.fail("%s: attribute %s missing or not a number", t.K, name)
	}
	return token.Pos(v)
}
func (b *c22Builder) tok(t *c22Tree, name string) token.Token {
	s, _ := t.attr(name).(string)
	tk, ok := c22TokByName[s]
	if !ok {
		b.fail("%s: attribute %s: unknown token %q", t.K, name, s)
	}
	return tk
}
func (b *c22Builder) str(t *c22Tree, name string) string {
	s, ok := t.attr(name).(string)
	if !ok {
		b.fail("%s: attribute %s missing or not a string", t.K, name)
	}
	return s
}
func (b *c22Builder) flag(t *c22Tree, name string) bool {
	v, ok := t.attr(name).(bool)
	if !ok {
		b.fail("%s: attribute %s missing or not a boolean", t.K, name)
	}
	return v
}
func (b *c22Builder) doc(t *c22Tree, name string) *ast.CommentGroup {
	if b.pos(t, name) == 0 {
		return nil
	}
	return &ast.CommentGroup{List: []*ast.Comment{{Slash: 7, Text: "// c22 " + name}}}
}

func (b *c22Builder) child(t *c22Tree, i int) interface{} {
	if i >= len(t.C) {
		b.fail("%s: child %d missing", t.K, i)
		return nil
	}
	return b.build(t.C[i])
}

func c22As[T any](b *c22Builder, t *c22Tree, i int) T {
	var zero T
	v := b.child(t, i)
	if v == nil {
		return zero
	}
	r, ok := v.(T)
	if !ok {
		b.fail("%s: child %d is %T, not admissible in this slot", t.K, i, v)
		return zero
	}
	return r
}

func c22AsList[T any](b *c22Builder, t *c22Tree) []T {
	out := make([]T, len(t.C))
	for i := range t.C {
		out[i] = c22As[T](b, t, i)
	}
	return out
}

func (b *c22Builder) build(t *c22Tree) interface{} {
	if t.isNil() {
		return nil
	}
	type E = ast.Expr
	type S = ast.Stmt
	switch t.K {
	case "ArrayType":
		return &ast.ArrayType{Lbrack: b.pos(t, "Lbrack"), Len: c22As[E](b, t, 0), Elt: c22As[E](b, t, 1)}
	case "AssignStmt":
		return &ast.AssignStmt{Lhs: c22As[[]E](b, t, 0), TokPos: b.pos(t, "TokPos"), Tok: b.tok(t, "Tok"), Rhs: c22As[[]E](b, t, 1)}
	case "BadDecl":
		return &ast.BadDecl{From: b.pos(t, "From"), To: b.pos(t, "To")}
	case "BadExpr":
		return &ast.BadExpr{From: b.pos(t, "From"), To: b.pos(t, "To")}
	case "BadStmt":
		return &ast.BadStmt{From: b.pos(t, "From"), To: b.pos(t, "To")}
	case "BasicLit":
		return &ast.BasicLit{ValuePos: b.pos(t, "ValuePos"), Kind: b.tok(t, "Kind"), Value: b.str(t, "Value")}
	case "BinaryExpr":
		return &ast.BinaryExpr{X: c22As[E](b, t, 0), OpPos: b.pos(t, "OpPos"), Op: b.tok(t, "Op"), Y: c22As[E](b, t, 1)}
	case "BlockStmt":
		return &ast.BlockStmt{Lbrace: b.pos(t, "Lbrace"), List: c22AsList[S](b, t), Rbrace: b.pos(t, "Rbrace")}
	case "BranchStmt":
		return &ast.BranchStmt{TokPos: b.pos(t, "TokPos"), Tok: b.tok(t, "Tok"), Label: c22As[*ast.Ident](b, t, 0)}
	case "CallExpr":
		return &ast.CallExpr{Fun: c22As[E](b, t, 0), Lparen: b.pos(t, "Lparen"), Args: c22As[[]E](b, t, 1), Ellipsis: b.pos(t, "Ellipsis"), Rparen: b.pos(t, "Rparen")}
	case "CaseClause":
		return &ast.CaseClause{Case: b.pos(t, "Case"), List: c22As[[]E](b, t, 0), Colon: b.pos(t, "Colon"), Body: c22As[[]S](b, t, 1)}
	case "ChanType":
		return &ast.ChanType{Begin: b.pos(t, "Begin"), Arrow: b.pos(t, "Arrow"), Dir: ast.ChanDir(b.pos(t, "Dir")), Value: c22As[E](b, t, 0)}
	case "CommClause":
		return &ast.CommClause{Case: b.pos(t, "Case"), Comm: c22As[S](b, t, 0), Colon: b.pos(t, "Colon"), Body: c22As[[]S](b, t, 1)}
	case "CompositeLit":
		return &ast.CompositeLit{Type: c22As[E](b, t, 0), Lbrace: b.pos(t, "Lbrace"), Elts: c22As[[]E](b, t, 1), Rbrace: b.pos(t, "Rbrace"), Incomplete: b.flag(t, "Incomplete")}
	case "DeclStmt":
		return &ast.DeclStmt{Decl: c22As[ast.Decl](b, t, 0)}
	case "DeferStmt":
		return &ast.DeferStmt{Defer: b.pos(t, "Defer"), Call: c22As[*ast.CallExpr](b, t, 0)}
	case "Ellipsis":
		return &ast.Ellipsis{Ellipsis: b.pos(t, "Ellipsis"), Elt: c22As[E](b, t, 0)}
	case "EmptyStmt":
		return &ast.EmptyStmt{Semicolon: b.pos(t, "Semicolon"), Implicit: b.flag(t, "Implicit")}
	case "ExprStmt":
		return &ast.ExprStmt{X: c22As[E](b, t, 0)}
	case "Field":
		return &ast.Field{Doc: b.doc(t, "Doc"), Names: c22As[[]*ast.Ident](b, t, 0), Type: c22As[E](b, t, 1), Tag: c22As[*ast.BasicLit](b, t, 2), Comment: b.doc(t, "Comment")}
	case "FieldList":
		return &ast.FieldList{Opening: b.pos(t, "Opening"), List: c22AsList[*ast.Field](b, t), Closing: b.pos(t, "Closing")}
	case "File":
		f := &ast.File{Doc: b.doc(t, "Doc"), Package: b.pos(t, "Package"), Name: &ast.Ident{Name: b.str(t, "Name")}, Decls: c22AsList[ast.Decl](b, t),
			FileStart: 1, FileEnd: 99999, GoVersion: "go1.21", Unresolved: []*ast.Ident{{Name: "u"}}}
		if b.pos(t, "Scope") != 0 {
			f.Scope = ast.NewScope(nil)
		}
		if b.pos(t, "Imports") != 0 {
			f.Imports = []*ast.ImportSpec{{Path: &ast.BasicLit{Kind: token.STRING, Value: `"fmt"`}}}
		}
		if b.pos(t, "Comments") != 0 {
			f.Comments = []*ast.CommentGroup{{List: []*ast.Comment{{Text: "// c22"}}}}
		}
		return f
	case "ForStmt":
		return &ast.ForStmt{For: b.pos(t, "For"), Init: c22As[S](b, t, 0), Cond: c22As[E](b, t, 1), Post: c22As[S](b, t, 2), Body: c22As[*ast.BlockStmt](b, t, 3)}
	case "FuncDecl":
		return &ast.FuncDecl{Doc: b.doc(t, "Doc"), Recv: c22As[*ast.FieldList](b, t, 0), Name: c22As[*ast.Ident](b, t, 1), Type: c22As[*ast.FuncType](b, t, 2), Body: c22As[*ast.BlockStmt](b, t, 3)}
	case "FuncLit":
		return &ast.FuncLit{Type: c22As[*ast.FuncType](b, t, 0), Body: c22As[*ast.BlockStmt](b, t, 1)}
	case "FuncType":
		return &ast.FuncType{Func: b.pos(t, "Func"), Params: c22As[*ast.FieldList](b, t, 0), Results: c22As[*ast.FieldList](b, t, 1)}
	case "GenDecl":
		return &ast.GenDecl{Doc: b.doc(t, "Doc"), TokPos: b.pos(t, "TokPos"), Tok: b.tok(t, "Tok"), Lparen: b.pos(t, "Lparen"), Specs: c22AsList[ast.Spec](b, t), Rparen: b.pos(t, "Rparen")}
	case "GoStmt":
		return &ast.GoStmt{Go: b.pos(t, "Go"), Call: c22As[*ast.CallExpr](b, t, 0)}
	case "Ident":
		return &ast.Ident{NamePos: b.pos(t, "NamePos"), Name: b.str(t, "Name"), Obj: ast.NewObj(ast.Var, "resolver")}
	case "IfStmt":
		return &ast.IfStmt{If: b.pos(t, "If"), Init: c22As[S](b, t, 0), Cond: c22As[E](b, t, 1), Body: c22As[*ast.BlockStmt](b, t, 2), Else: c22As[S](b, t, 3)}
	case "ImportSpec":
		return &ast.ImportSpec{Doc: b.doc(t, "Doc"), Name: c22As[*ast.Ident](b, t, 0), Path: c22As[*ast.BasicLit](b, t, 1), Comment: b.doc(t, "Comment"), EndPos: b.pos(t, "EndPos")}
	case "IncDecStmt":
		return &ast.IncDecStmt{X: c22As[E](b, t, 0), TokPos: b.pos(t, "TokPos"), Tok: b.tok(t, "Tok")}
	case "IndexExpr":
		return &ast.IndexExpr{X: c22As[E](b, t, 0), Lbrack: b.pos(t, "Lbrack"), Index: c22As[E](b, t, 1), Rbrack: b.pos(t, "Rbrack")}
	case "InterfaceType":
		return &ast.InterfaceType{Interface: b.pos(t, "Interface"), Methods: c22As[*ast.FieldList](b, t, 0), Incomplete: b.flag(t, "Incomplete")}
	case "KeyValueExpr":
		return &ast.KeyValueExpr{Key: c22As[E](b, t, 0), Colon: b.pos(t, "Colon"), Value: c22As[E](b, t, 1)}
	case "LabeledStmt":
		return &ast.LabeledStmt{Label: c22As[*ast.Ident](b, t, 0), Colon: b.pos(t, "Colon"), Stmt: c22As[S](b, t, 1)}
	case "MapType":
		return &ast.MapType{Map: b.pos(t, "Map"), Key: c22As[E](b, t, 0), Value: c22As[E](b, t, 1)}
	case "Package":
		p := &ast.Package{Name: b.str(t, "Name"), Files: map[string]*ast.File{"todo.go": {Name: &ast.Ident{Name: "todo"}}}}
		if b.pos(t, "Scope") != 0 {
			p.Scope = ast.NewScope(nil)
		}
		if b.pos(t, "Imports") != 0 {
			p.Imports = map[string]*ast.Object{"fmt": ast.NewObj(ast.Pkg, "fmt")}
		}
		return p
	case "ParenExpr":
		return &ast.ParenExpr{Lparen: b.pos(t, "Lparen"), X: c22As[E](b, t, 0), Rparen: b.pos(t, "Rparen")}
	case "RangeStmt":
		return &ast.RangeStmt{For: b.pos(t, "For"), Key: c22As[E](b, t, 0), Value: c22As[E](b, t, 1), TokPos: b.pos(t, "TokPos"), Tok: b.tok(t, "Tok"), Range: 998, X: c22As[E](b, t, 2), Body: c22As[*ast.BlockStmt](b, t, 3)}
	case "ReturnStmt":
		return &ast.ReturnStmt{Return: 999, Results: c22AsList[E](b, t)}
	case "SelectStmt":
		return &ast.SelectStmt{Select: b.pos(t, "Select"), Body: c22As[*ast.BlockStmt](b, t, 0)}
	case "SelectorExpr":
		return &ast.SelectorExpr{X: c22As[E](b, t, 0), Sel: c22As[*ast.Ident](b, t, 1)}
	case "SendStmt":
		return &ast.SendStmt{Chan: c22As[E](b, t, 0), Arrow: b.pos(t, "Arrow"), Value: c22As[E](b, t, 1)}
	case "SliceExpr":
		return &ast.SliceExpr{X: c22As[E](b, t, 0), Lbrack: b.pos(t, "Lbrack"), Low: c22As[E](b, t, 1), High: c22As[E](b, t, 2), Max: c22As[E](b, t, 3), Slice3: b.flag(t, "Slice3"), Rbrack: b.pos(t, "Rbrack")}
	case "StarExpr":
		return &ast.StarExpr{Star: b.pos(t, "Star"), X: c22As[E](b, t, 0)}
	case "StructType":
		return &ast.StructType{Struct: b.pos(t, "Struct"), Fields: c22As[*ast.FieldList](b, t, 0), Incomplete: b.flag(t, "Incomplete")}
	case "SwitchStmt":
		return &ast.SwitchStmt{Switch: b.pos(t, "Switch"), Init: c22As[S](b, t, 0), Tag: c22As[E](b, t, 1), Body: c22As[*ast.BlockStmt](b, t, 2)}
	case "TypeAssertExpr":
		return &ast.TypeAssertExpr{X: c22As[E](b, t, 0), Lparen: b.pos(t, "Lparen"), Type: c22As[E](b, t, 1), Rparen: b.pos(t, "Rparen")}
	case "TypeSpec":
		return &ast.TypeSpec{Doc: b.doc(t, "Doc"), Name: c22As[*ast.Ident](b, t, 0), Assign: b.pos(t, "Assign"), Type: c22As[E](b, t, 1), Comment: b.doc(t, "Comment")}
	case "TypeSwitchStmt":
		return &ast.TypeSwitchStmt{Switch: b.pos(t, "Switch"), Init: c22As[S](b, t, 0), Assign: c22As[S](b, t, 1), Body: c22As[*ast.BlockStmt](b, t, 2)}
	case "UnaryExpr":
		return &ast.UnaryExpr{OpPos: b.pos(t, "OpPos"), Op: b.tok(t, "Op"), X: c22As[E](b, t, 0)}
	case "ValueSpec":
		return &ast.ValueSpec{Doc: b.doc(t, "Doc"), Names: c22As[[]*ast.Ident](b, t, 0), Type: c22As[E](b, t, 1), Values: c22As[[]E](b, t, 2), Comment: b.doc(t, "Comment")}
	case "ExprSlice":
		return c22AsList[E](b, t)
	case "StmtSlice":
		return c22AsList[S](b, t)
	case "IdentSlice":
		return c22AsList[*ast.Ident](b, t)
	case "FieldSlice":
		return c22AsList[*ast.Field](b, t)
	case "DeclSlice":
		return c22AsList[ast.Decl](b, t)
	case "SpecSlice":
		return c22AsList[ast.Spec](b, t)
	case "NodeSlice":
		return c22AsList[ast.Node](b, t)
	case "AstSlice":
		out := make([]ast2.Ast, len(t.C))
		for i := range t.C {
			out[i] = c22Wrap(b.child(t, i))
		}
		return out
	}
	b.fail("no constructor for kind %q", t.K)
	return nil
}

// c22Wrap wraps a real value with the wrapper under test.
func c22Wrap(x interface{}) ast2.Ast {
	switch x := x.(type) {
	case nil:
		return nil
	case ast.Node:
		return ast2.ToAst(x)
	case []ast2.Ast:
		return ast2.AstSlice{X: x}
	}
	return ast2.AnyToAst(x, "c22")
}

package props

import (
	"encoding/json"
	"fmt"
	"hash/fnv"
	"math"
	"runtime"
	"sort"
	"strconv"
	"strings"
	"sync"
	"sync/atomic"
	"time"

	"verif/harness/core"
)

// C01: typed expressions over basic types evaluate exactly as compiled Go.
//
// Spec: spec/lib/BitVec.tla (+ BitVecMC.tla), spec/lib/FloatD.tla, spec/sem/Values.tla,
// spec/sem/Expr.tla.  TLC enumerates CELLS [op, kind, (count kind), shape, a, b] with the
// result Go prescribes (value + static type | run-time panic class | compile-time rejection);
// this driver renders each cell as a gomacro snippet in one or all STORAGE variants, runs it
// on the fast interpreter and compares.  The expectations are pinned to Go by native
// evaluation inside the harness (c01native.go: every cell) and by really compiling a seeded
// sample of the snippets (harness/gate).
//
// Files: c01.go (records, rendering, verdict), c01env.go (interpreter with the storage
// variants, observation), c01native.go (Go gate: native operators + compiled sample).

func init() {
	core.Register(&core.Prop{
		ID: "C01",
		Rule: "TLC (Expr.tla) enumerates cells = (operator, operand kind [x shift-count kind], operand shape in {both variables, constant left, constant right, both constants}) " +
			"over the boundary values of each kind (bounded-exhaustive BFS) and over seeded random bit patterns (simulation), each with the result Go prescribes; " +
			"every cell is rendered in a storage variant (global, boxed global, local, captured at depth 1..4, global read from a nested function; quick: one variant per value pair chosen by seed, thorough: all) " +
			"and evaluated on the fast interpreter; an evaluation is one (cell, value pair, storage); " +
			"non-trivial = every one (each applies a real operator to operands); distinct by (op, kinds, shape, storage, operand bits)",
		Run:      runC01,
		Replay:   replayC01,
		SelfTest: selfTestC01,
	})
}

// ---------------------------------------------------------------------------------------
// records printed by Expr.tla

type c01Row struct {
	B json.RawMessage              `json:"b"`
	R map[string][]json.RawMessage `json:"r"`
}

type c01Rec struct {
	G    string          `json:"g"` // "bin" | "shift"
	K    string          `json:"k"`
	CK   string          `json:"ck"`
	Ks   []string        `json:"ks"`
	CKs  []string        `json:"cks"`
	A    json.RawMessage `json:"a"`
	Un   json.RawMessage `json:"un"`
	Rows []c01Row        `json:"rows"`
}

// c01Res is one expected (or observed) result.
type c01Res struct {
	T   string // "v" value, "p" panic, "c" compile error, "s" not generated
	Ty  string // static type (T == "v")
	V   c01Val // value (T == "v")
	Cls string // panic class (T == "p") or reason of the rejection (T == "c")
	Msg string // observed: message
}

func (r c01Res) String() string {
	switch r.T {
	case "v":
		return fmt.Sprintf("%s(%s)", r.Ty, r.V.Text())
	case "p":
		return "run-time panic(" + r.Cls + ")"
	case "c":
		if r.Msg != "" {
			return "compile-time rejection(" + r.Msg + ")"
		}
		return "compile-time rejection(" + r.Cls + ")"
	}
	return "not generated"
}

// c01Val is a value of a basic kind.
type c01Val struct {
	Kind string
	Bits uint64 // integers: bit pattern zero-extended; floats: IEEE bits; bool: 0/1
	Str  string
}

var c01Kinds = []string{"int8", "int16", "int32", "int64", "int", "uint8", "uint16", "uint32", "uint64", "uint", "uintptr",
	"float32", "float64", "string", "bool"}

func c01Width(kind string) int {
	switch kind {
	case "int8", "uint8":
		return 8
	case "int16", "uint16":
		return 16
	case "int32", "uint32", "float32":
		return 32
	}
	return 64
}
func c01IsInt(kind string) bool    { return strings.HasPrefix(kind, "int") || strings.HasPrefix(kind, "uint") }
func c01IsSigned(kind string) bool { return strings.HasPrefix(kind, "int") }
func c01IsFloat(kind string) bool  { return strings.HasPrefix(kind, "float") }
func c01Mask(kind string) uint64 {
	if w := c01Width(kind); w < 64 {
		return 1<<uint(w) - 1
	}
	return ^uint64(0)
}

// Signed returns the value of an integer kind as int64 (sign-extended).
func (v c01Val) Signed() int64 {
	w := uint(c01Width(v.Kind))
	return int64(v.Bits<<(64-w)) >> (64 - w)
}

func (v c01Val) Float() float64 {
	if v.Kind == "float32" {
		return float64(math.Float32frombits(uint32(v.Bits)))
	}
	return math.Float64frombits(v.Bits)
}

func (v c01Val) IsNaN() bool { return c01IsFloat(v.Kind) && math.IsNaN(v.Float()) }

func (v c01Val) Equal(w c01Val) bool {
	if v.Kind != w.Kind {
		return false
	}
	if v.Kind == "string" {
		return v.Str == w.Str
	}
	if v.IsNaN() || w.IsNaN() {
		return v.IsNaN() && w.IsNaN() // NaN payload bits are not part of the comparison
	}
	return v.Bits == w.Bits
}

// Text is the decimal / literal text of the value.
func (v c01Val) Text() string {
	switch {
	case v.Kind == "string":
		return strconv.Quote(v.Str)
	case v.Kind == "bool":
		return strconv.FormatBool(v.Bits != 0)
	case c01IsFloat(v.Kind):
		f := v.Float()
		if math.IsNaN(f) {
			return "NaN"
		}
		if f == 0 && math.Signbit(f) {
			return "-0"
		}
		return strconv.FormatFloat(f, 'g', -1, 64)
	case c01IsSigned(v.Kind):
		return strconv.FormatInt(v.Signed(), 10)
	}
	return strconv.FormatUint(v.Bits, 10)
}

// c01Decode converts the JSON of a specification value of the given kind.
func c01Decode(kind string, raw json.RawMessage) (c01Val, error) {
	v := c01Val{Kind: kind}
	switch {
	case kind == "bool":
		var b bool
		if err := json.Unmarshal(raw, &b); err != nil {
			return v, fmt.Errorf("bool value %s: %v", raw, err)
		}
		if b {
			v.Bits = 1
		}
	case kind == "string":
		var codes []int
		if err := json.Unmarshal(raw, &codes); err != nil {
			return v, fmt.Errorf("string value %s: %v", raw, err)
		}
		v.Str = core.BytesToString(codes)
	case c01IsFloat(kind):
		var f struct {
			C string `json:"c"`
			S int    `json:"s"`
			M int64  `json:"m"`
			E int    `json:"e"`
		}
		if err := json.Unmarshal(raw, &f); err != nil {
			return v, fmt.Errorf("float value %s: %v", raw, err)
		}
		var x float64
		switch f.C {
		case "nan":
			x = math.NaN()
		case "inf":
			x = math.Inf(1)
		case "zero":
			x = 0
		case "fin":
			x = math.Ldexp(float64(f.M), f.E) // exact: m < 2^31
		default:
			return v, fmt.Errorf("float class %q", f.C)
		}
		if f.S == 1 && f.C != "nan" {
			x = math.Copysign(x, -1)
		}
		if kind == "float32" {
			y := float32(x)
			if f.C == "fin" && (float64(y) != x || math.IsInf(float64(y), 0)) {
				return v, fmt.Errorf("specification value %s is not a float32", raw)
			}
			v.Bits = uint64(math.Float32bits(y))
		} else {
			if f.C == "fin" && (math.IsInf(x, 0) || x == 0) {
				return v, fmt.Errorf("specification value %s is not a float64", raw)
			}
			v.Bits = math.Float64bits(x)
		}
	default:
		var bytes []int
		if err := json.Unmarshal(raw, &bytes); err != nil {
			return v, fmt.Errorf("integer value %s: %v", raw, err)
		}
		if len(bytes)*8 != c01Width(kind) {
			return v, fmt.Errorf("integer value %s has the wrong width for %s", raw, kind)
		}
		for i, b := range bytes {
			v.Bits |= uint64(b&255) << (8 * uint(i))
		}
	}
	return v, nil
}

// c01ParseRes decodes a result tuple; rep is the representative kind of the record and kind
// the kind the record is instantiated at (a static type equal to rep means "the kind").
func c01ParseRes(raw json.RawMessage, vv *c01Res, rep, kind string) (c01Res, error) {
	if len(raw) > 0 && raw[0] == '"' {
		if vv == nil {
			return c01Res{}, fmt.Errorf("'=' without a reference result")
		}
		return *vv, nil
	}
	var parts []json.RawMessage
	if err := json.Unmarshal(raw, &parts); err != nil || len(parts) == 0 {
		return c01Res{}, fmt.Errorf("bad result %s", raw)
	}
	var tag string
	json.Unmarshal(parts[0], &tag)
	r := c01Res{T: tag}
	switch tag {
	case "v":
		if len(parts) != 3 {
			return r, fmt.Errorf("bad result %s", raw)
		}
		json.Unmarshal(parts[1], &r.Ty)
		if r.Ty == rep {
			r.Ty = kind
		}
		v, err := c01Decode(r.Ty, parts[2])
		if err != nil {
			return r, err
		}
		r.V = v
	case "p", "c":
		if len(parts) != 2 {
			return r, fmt.Errorf("bad result %s", raw)
		}
		json.Unmarshal(parts[1], &r.Cls)
	case "s":
	default:
		return r, fmt.Errorf("bad result tag %s", raw)
	}
	return r, nil
}

// ---------------------------------------------------------------------------------------
// cells

var c01Shapes = []string{"vv", "cL", "cR", "cc"}

// storage variants: where the variable operands live / where the expression is compiled
var c01Storages = []string{"g", "gb", "l", "c1", "c2", "c3", "c4", "gf", "gbf"}

var c01OpSym = map[string]string{"add": "+", "sub": "-", "mul": "*", "quo": "/", "rem": "%", "and": "&", "or": "|", "xor": "^",
	"andnot": "&^", "shl": "<<", "shr": ">>", "eql": "==", "neq": "!=", "lss": "<", "leq": "<=", "gtr": ">", "geq": ">=",
	"land": "&&", "lor": "||", "pos": "+", "neg": "-", "cpl": "^", "not": "!"}

func c01IsUnary(op string) bool { return op == "pos" || op == "neg" || op == "cpl" || op == "not" }

// c01File names the generated file of gomacro whose specialisation the cell reaches.
func c01File(op string) string {
	switch op {
	case "shl", "shr":
		return "fast/binary_shifts.go"
	case "lss", "leq", "gtr", "geq":
		return "fast/binary_relops.go"
	case "eql", "neq":
		return "fast/binary_eqlneq.go"
	case "land", "lor":
		return "fast/binary.go"
	case "pos", "neg", "cpl", "not":
		return "fast/unary_ops.go"
	}
	return "fast/binary_ops.go"
}

// c01Cell is one operator application in one shape and one storage variant.
type c01Cell struct {
	Op      string  `json:"op"`
	Kind    string  `json:"kind"`
	CK      string  `json:"ck,omitempty"` // kind of the shift count
	Shape   string  `json:"shape"`
	Storage string  `json:"storage"`
	A       c01Val  `json:"a"`
	B       c01Val  `json:"b"`
	Want    c01Res  `json:"want"`
	GoRT    *c01Res `json:"-"` // native run-time result (gate), computed once per (op, a, b)
}

func (c *c01Cell) KindName() string {
	if c.CK != "" {
		return c.Kind + "/" + c.CK
	}
	return c.Kind
}

func (c *c01Cell) Key() string {
	return fmt.Sprintf("%s|%s|%s|%s|%x|%s|%x|%s", c.Op, c.KindName(), c.Shape, c.Storage, c.A.Bits, c.A.Str, c.B.Bits, c.B.Str)
}

// c01Lit renders a typed constant expression T(c).
func c01Lit(v c01Val) string {
	switch {
	case v.Kind == "string":
		return "string(" + strconv.Quote(v.Str) + ")"
	case v.Kind == "bool":
		return "bool(" + strconv.FormatBool(v.Bits != 0) + ")"
	case c01IsFloat(v.Kind):
		return v.Kind + "(" + strconv.FormatFloat(v.Float(), 'g', -1, 64) + ")"
	}
	return v.Kind + "(" + v.Text() + ")"
}

// operand texts and the result type of a cell
func (c *c01Cell) resultType() string {
	switch c.Op {
	case "eql", "neq", "lss", "leq", "gtr", "geq", "land", "lor", "not":
		return "bool"
	}
	return c.Kind
}

func (c *c01Cell) bKind() string {
	if c.CK != "" {
		return c.CK
	}
	return c.Kind
}

func (c *c01Cell) constA() bool { return c.Shape == "cL" || c.Shape == "cc" }
func (c *c01Cell) constB() bool { return c.Shape == "cR" || c.Shape == "cc" }

// exprText: the operator application over the operand texts x and y.
func (c *c01Cell) exprText(x, y string) string {
	if c01IsUnary(c.Op) {
		return c01OpSym[c.Op] + x
	}
	return x + " " + c01OpSym[c.Op] + " " + y
}

// Source renders the gomacro snippet of the cell. Variables: c01ga_<kind>, c01gb_<kind>
// (globals in unboxed slots where the kind allows), c01ba_<kind>, c01bb_<kind> (globals boxed
// in reflect.Values), assigned by the driver before the evaluation.
func (c *c01Cell) Source() string {
	ga, gb := "c01ga_"+c.Kind, "c01gb_"+c.bKind()
	if c.Storage == "gb" || c.Storage == "gbf" {
		ga, gb = "c01ba_"+c.Kind, "c01bb_"+c.bKind()
	}
	unary := c01IsUnary(c.Op)
	rt := c.resultType()
	switch c.Storage {
	case "g", "gb", "gf", "gbf":
		x, y := ga, gb
		if c.constA() {
			x = c01Lit(c.A)
		}
		if c.constB() {
			y = c01Lit(c.B)
		}
		e := c.exprText(x, y)
		if c.Storage == "gf" || c.Storage == "gbf" {
			// a global read from a function nested three deep
			return fmt.Sprintf("(func() %s { return func() %s { return func() %s { return %s }() }() })()", rt, rt, rt, e)
		}
		return e
	}
	// local / captured: variable operands are parameters a, b of an outer function
	x, y := "a", "b"
	var params, args []string
	if c.constA() {
		x = c01Lit(c.A)
	} else {
		params = append(params, "a "+c.Kind)
		args = append(args, ga)
	}
	if !unary {
		if c.constB() {
			y = c01Lit(c.B)
		} else {
			params = append(params, "b "+c.bKind())
			args = append(args, gb)
		}
	}
	body := "return " + c.exprText(x, y)
	depth := 0
	if c.Storage[0] == 'c' {
		depth = int(c.Storage[1] - '0')
	}
	for i := 0; i < depth; i++ {
		body = fmt.Sprintf("return func() %s { %s }()", rt, body)
	}
	return fmt.Sprintf("(func(%s) %s { %s })(%s)", strings.Join(params, ", "), rt, body, strings.Join(args, ", "))
}

// ---------------------------------------------------------------------------------------
// comparison and signatures

func c01Agree(want, got c01Res) bool {
	if want.T != got.T {
		return false
	}
	switch want.T {
	case "v":
		return want.Ty == got.Ty && want.V.Equal(got.V)
	case "p":
		return want.Cls == got.Cls
	}
	return true // "c": any compile-time rejection
}

func c01Diff(want, got c01Res) string {
	switch {
	case want.T == "c" || got.T == "c":
		return "compile-differs"
	case want.T == "p" || got.T == "p":
		return "panic-differs"
	case want.Ty != got.Ty:
		return "type-differs"
	}
	return "value-differs"
}

// c01Sig: predicate over the specification's cell + shape of the disagreement. The named
// predicates are narrow classes found to deviate on the pinned tree; everything else is
// reported per cell.
func c01Sig(c *c01Cell, got c01Res) string {
	diff := c01Diff(c.Want, got)
	constZero := func(v c01Val) bool { return c01IsFloat(v.Kind) && v.Float() == 0 && !math.Signbit(v.Float()) }
	negZero := func(v c01Val) bool { return c01IsFloat(v.Kind) && v.Float() == 0 && math.Signbit(v.Float()) }
	deep := c.Storage == "c3" || c.Storage == "c4"
	switch {
	case deep && ((!c.constA() && c.Kind == "uint64") || (!c.constB() && !c01IsUnary(c.Op) && c.bKind() == "uint64")) &&
		(diff == "panic-differs" || diff == "value-differs"):
		// a uint64 variable captured from a function three or more levels out
		return "SigUint64CapturedDepth3(uint64-variable,captured-at-depth>=3):" + diff
	case c.Want.T == "c" && c.Want.Cls == "overflow" && got.T == "v" && c.GoRT != nil && c01Agree(*c.GoRT, got):
		// a typed constant expression whose exact value is not representable is accepted and
		// evaluates to the wrapped-around run-time value
		return "SigConstOverflow(cc,exact-result-not-representable):accepted-with-wrapped-value"
	case c01IsFloat(c.Kind) && c.Op == "mul" && ((c.Shape == "cR" && constZero(c.B)) || (c.Shape == "cL" && constZero(c.A))) && diff == "value-differs":
		return "SigFloatMulConstZero(mul,float-kind,cL|cR,constant-operand=0):" + diff
	case c01IsFloat(c.Kind) && c.Op == "add" && ((c.Shape == "cR" && constZero(c.B) && negZero(c.A)) || (c.Shape == "cL" && constZero(c.A) && negZero(c.B))) && diff == "value-differs":
		return "SigFloatAddConstZero(add,float-kind,cL|cR,constant-operand=0,variable-operand=-0):" + diff
	case c.Op == "quo" && c.Shape == "cR" && !c01IsSigned(c.Kind) && c01IsInt(c.Kind) && c01Width(c.Kind) == 64 &&
		c.B.Bits == ^uint64(0) && diff == "value-differs":
		// x / MaxUint64 with a constant divisor on a 64-bit unsigned kind
		return "SigQuoConstMaxUint64(quo,unsigned-64-bit-kind,cR,constant-divisor=MaxUint64):" + diff
	case c01IsFloat(c.Kind) && c.Op == "quo" && c.Shape == "cc" && constZero(c.B) && c.Want.T == "c" && got.T == "v":
		return "SigFloatConstDivZero(quo,float-kind,cc,constant-divisor=0):accepted"
	case c01IsFloat(c.Kind) && c.Op == "quo" && c.Shape == "cR" && constZero(c.B) && diff == "compile-differs":
		return "SigFloatQuoConstZero(quo,float-kind,cR,constant-divisor=0):" + diff
	case c01IsFloat(c.Kind) && c.Shape == "cc" && c.Want.T == "v" && got.T == "v" && c.Want.Ty == got.Ty &&
		c01IsFloat(c.Want.Ty) && c.Want.V.Float() == 0 && got.V.Float() == 0 && diff == "value-differs":
		return "SigFloatConstNegZero(cc,exact-result=0):negative-zero-constant"
	}
	return fmt.Sprintf("cell(%s,%s,%s,%s):%s", c.Op, c.KindName(), c.Shape, c.Storage, diff)
}

// ---------------------------------------------------------------------------------------
// record -> cells

type c01Opts struct {
	allStorages bool
	seed        int64
}

func c01PickStorage(seed int64, key string) string {
	h := fnv.New64a()
	fmt.Fprintf(h, "%d|%s", seed, key)
	return c01Storages[h.Sum64()%uint64(len(c01Storages))]
}

// constant expressions have no variable operand: the storage variant only moves the place
// where the expression is compiled; three places are enough
var c01StoragesCC = []string{"g", "l", "c2"}

// c01Expand calls f for every cell of the record (all kinds the record stands for) with
// the storage variants to evaluate it in.
func c01Expand(rec *c01Rec, o c01Opts, f func(c *c01Cell, storages []string)) error {
	ks := rec.Ks
	if len(ks) == 0 {
		ks = []string{rec.K}
	}
	cks := rec.CKs
	if len(cks) == 0 {
		cks = []string{""}
	}
	for _, kind := range ks {
		a, err := c01Decode(kind, rec.A)
		if err != nil {
			return err
		}
		// unary operators
		var un map[string][]json.RawMessage
		if len(rec.Un) > 0 && rec.Un[0] == '{' {
			if err := json.Unmarshal(rec.Un, &un); err != nil {
				return err
			}
		}
		emit := func(op, ck string, shape string, b c01Val, want c01Res, idx int) {
			if want.T == "s" {
				return
			}
			c := c01Cell{Op: op, Kind: kind, CK: ck, Shape: shape, A: a, B: b, Want: want}
			if o.allStorages {
				if shape == "cc" {
					f(&c, c01StoragesCC)
				} else {
					f(&c, c01Storages)
				}
			} else {
				f(&c, []string{c01PickStorage(o.seed, fmt.Sprintf("%s|%s|%s|%s|%x|%x|%d", op, kind, ck, shape, a.Bits, b.Bits, idx))})
			}
		}
		for _, op := range sortedKeys(un) {
			rs := un[op]
			if len(rs) != 2 {
				return fmt.Errorf("unary results of %s: %d", op, len(rs))
			}
			vv, err := c01ParseRes(rs[0], nil, rec.K, kind)
			if err != nil {
				return err
			}
			cc, err := c01ParseRes(rs[1], &vv, rec.K, kind)
			if err != nil {
				return err
			}
			emit(op, "", "vv", c01Val{Kind: kind}, vv, 0)
			emit(op, "", "cc", c01Val{Kind: kind}, cc, 0)
		}
		for _, ck := range cks {
			bkind := kind
			if ck != "" {
				bkind = ck
			}
			for ri, row := range rec.Rows {
				b, err := c01Decode(bkind, row.B)
				if err != nil {
					return err
				}
				for _, op := range sortedKeys(row.R) {
					rs := row.R[op]
					if len(rs) != 4 {
						return fmt.Errorf("results of %s: %d", op, len(rs))
					}
					vv, err := c01ParseRes(rs[0], nil, rec.K, kind)
					if err != nil {
						return err
					}
					emit(op, ck, "vv", b, vv, ri)
					for si := 1; si < 4; si++ {
						r, err := c01ParseRes(rs[si], &vv, rec.K, kind)
						if err != nil {
							return err
						}
						emit(op, ck, c01Shapes[si], b, r, ri)
					}
				}
			}
		}
	}
	return nil
}

func sortedKeys(m map[string][]json.RawMessage) []string {
	ks := make([]string, 0, len(m))
	for k := range m {
		ks = append(ks, k)
	}
	sort.Strings(ks)
	return ks
}

// ---------------------------------------------------------------------------------------
// run

type c01Stats struct {
	mu        sync.Mutex
	byFile    map[string]map[string]bool // file -> distinct (op, kind, shape) cells
	identCell map[string]bool            // (kind, storage) cells of identifier.go
	byShape   map[string]int64
	byStorage map[string]int64
	byClass   map[string]int64 // expected class: value / panic / compile-error
	skipped   int64
}

func newC01Stats() *c01Stats {
	return &c01Stats{byFile: map[string]map[string]bool{}, identCell: map[string]bool{}, byShape: map[string]int64{},
		byStorage: map[string]int64{}, byClass: map[string]int64{}}
}

func (s *c01Stats) merge(o *c01Stats) {
	s.mu.Lock()
	defer s.mu.Unlock()
	for f, m := range o.byFile {
		if s.byFile[f] == nil {
			s.byFile[f] = map[string]bool{}
		}
		for k := range m {
			s.byFile[f][k] = true
		}
	}
	for k := range o.identCell {
		s.identCell[k] = true
	}
	for k, v := range o.byShape {
		s.byShape[k] += v
	}
	for k, v := range o.byStorage {
		s.byStorage[k] += v
	}
	for k, v := range o.byClass {
		s.byClass[k] += v
	}
}

func (s *c01Stats) note(c *c01Cell) {
	f := c01File(c.Op)
	if s.byFile[f] == nil {
		s.byFile[f] = map[string]bool{}
	}
	s.byFile[f][c.Op+"|"+c.KindName()+"|"+c.Shape] = true
	if c.Shape != "cc" {
		s.identCell[c.Kind+"|"+c.Storage] = true
	}
	s.byShape[c.Shape]++
	s.byStorage[c.Storage]++
	switch c.Want.T {
	case "v":
		s.byClass["value"]++
	case "p":
		s.byClass["panic:"+c.Want.Cls]++
	case "c":
		s.byClass["compile-error:"+c.Want.Cls]++
	}
}

// c01Runner replays records on gomacro; one per worker goroutine.
type c01Runner struct {
	c        *core.Ctx
	env      *c01Env
	opts     c01Opts
	stats    *c01Stats
	used     int
	gate     *c01GateSampler
	confirms map[string]int
	nconfirm int
	err      error
	// the cells evaluated on the current interpreter (the most recent ones): a disagreement
	// that a fresh interpreter does not reproduce is replayed with its history
	history []c01Cell
	// counters merged into the context when the worker ends
	gateChecked, gateRejects, traces int64
}

const c01HistoryLen = 2000

const c01Reuse = 60000 // evaluations per interpreter before it is replaced

func (r *c01Runner) interp() (*c01Env, error) {
	if r.env == nil || r.used >= c01Reuse {
		e, err := newC01Env()
		if err != nil {
			return nil, err
		}
		r.env, r.used = e, 0
		r.history = r.history[:0]
	}
	return r.env, nil
}

func (r *c01Runner) record(rec *c01Rec) {
	if r.err != nil {
		return
	}
	var goRT *c01Res
	var lastKey string
	err := c01Expand(rec, r.opts, func(cell *c01Cell, storages []string) {
		if r.err != nil {
			return
		}
		// --- Go gate, part 1: native evaluation of the run-time meaning and the table of
		// compile-time rules; a disagreement is a defect of the specification
		k := cell.Op + "|" + cell.KindName() + "|" + cell.A.Text() + "|" + cell.B.Text()
		if k != lastKey {
			rt := c01Native(cell)
			goRT, lastKey = &rt, k
		}
		cell.GoRT = goRT
		goWant := c01GoExpect(cell, *goRT)
		ok := c01Agree(cell.Want, goWant) && (cell.Want.T != "c" || cell.Want.Cls == goWant.Cls)
		r.gateChecked++
		if !ok {
			r.gateRejects++
			if n := atomic.AddInt64(&c01GateShown, 1); n <= 5 {
				cell.Storage = storages[0]
				fmt.Printf("GATE-REJECT property=C01 (specification disagrees with native Go; cell dropped): %s %s: specification %s, Go %s\n",
					cell.Source(), c01Operands(cell), cell.Want, goWant)
			}
			return
		}
		for _, st := range storages {
			cell.Storage = st
			r.eval(cell)
			if r.err != nil {
				return
			}
		}
	})
	if err != nil && r.err == nil {
		r.err = core.Infra("bad record from TLC: %v", err)
	}
}

// eval replays one (cell, storage) on gomacro and judges it.
func (r *c01Runner) eval(cell *c01Cell) {
	if r.gate != nil {
		r.gate.offer(cell)
	}
	env, err := r.interp()
	if err != nil {
		r.err = err
		return
	}
	r.used++
	if len(r.history) >= c01HistoryLen {
		r.history = append(r.history[:0], r.history[c01HistoryLen/2:]...)
	}
	r.history = append(r.history, *cell)
	got := env.eval(cell)
	r.c.Case(cell.Key(), true)
	r.traces++
	r.stats.note(cell)
	if c01Agree(cell.Want, got) {
		return
	}
	sig := c01Sig(cell, got)
	// confirm in a fresh interpreter (the first few of every signature; the signature
	// identifies the cell or the named predicate)
	if r.confirms[sig] < 2 && r.nconfirm < 25 {
		r.confirms[sig]++
		r.nconfirm++
		fresh, err := newC01Env()
		if err != nil {
			r.err = err
			return
		}
		got2 := fresh.eval(cell)
		if c01Agree(cell.Want, got2) {
			// the outcome may depend on what the interpreter evaluated before (recycled frames,
			// caches): replay the recent history of this interpreter on another fresh one
			again, err := newC01Env()
			if err != nil {
				r.err = err
				return
			}
			for i := range r.history {
				got2 = again.eval(&r.history[i])
			}
			if c01Agree(cell.Want, got2) {
				r.err = core.Infra("disagreement not reproducible in a fresh interpreter, alone or after the %d evaluations that preceded it: %s %s: specification %s, first observed %s",
					len(r.history)-1, cell.Source(), c01Operands(cell), cell.Want, got)
				return
			}
			what := fmt.Sprintf("%s   with %s\n  specification (= compiled Go): %s\n  gomacro: %s\n  (only after the %d evaluations that preceded it in the same interpreter; alone in a fresh interpreter the result is right)",
				cell.Source(), c01Operands(cell), cell.Want, got2, len(r.history)-1)
			r.c.Violation("history-dependent:"+c01Sig(cell, got2), what, c01ReplayCase(cell, got2))
			return
		}
		got = got2
		sig = c01Sig(cell, got)
	}
	what := fmt.Sprintf("%s   with %s\n  specification (= compiled Go): %s\n  gomacro: %s", cell.Source(), c01Operands(cell), cell.Want, got)
	r.c.Violation(sig, what, c01ReplayCase(cell, got))
}

var c01GateShown int64

func c01Operands(c *c01Cell) string {
	if c01IsUnary(c.Op) {
		return fmt.Sprintf("a=%s(%s)", c.Kind, c.A.Text())
	}
	return fmt.Sprintf("a=%s(%s) b=%s(%s)", c.Kind, c.A.Text(), c.bKind(), c.B.Text())
}

type c01Replay struct {
	Cell     c01Cell `json:"cell"`
	Source   string  `json:"source"`
	Expected string  `json:"expected"`
	Observed string  `json:"observed"`
}

func c01ReplayCase(c *c01Cell, got c01Res) c01Replay {
	return c01Replay{Cell: *c, Source: c.Source(), Expected: c.Want.String(), Observed: got.String()}
}

func c01Cfg(mode string, level int, ckrot int64, quofix bool, invs string) string {
	return fmt.Sprintf("SPECIFICATION Spec\nCONSTANTS\n Mode = %q\n Level = %d\n CKRot = %d\n QuoFix = %s\n NRows = 3\nINVARIANTS %s\n",
		mode, level, ckrot, strings.ToUpper(strconv.FormatBool(quofix)), invs)
}

const c01BitVecCfg = "SPECIFICATION Spec\nCONSTANTS\n Trunc = %s\n W16 = TRUE\nINVARIANTS All8 All16\n"

func runC01(c *core.Ctx) error {
	level := c.Pick(1, 2)
	c.MaxViolations = 40
	tlcWorkers := c.Pick(4, 6)
	nw := runtime.NumCPU()
	if nw > c.Pick(8, 16) {
		nw = c.Pick(8, 16)
	}
	stats := newC01Stats()
	gate := newC01GateSampler(c, c.Pick(2000, 8000), c.Pick(300, 1200))
	recs := make(chan []byte, 1<<16) // TLC is never blocked by the replay
	var wg sync.WaitGroup
	var emu sync.Mutex
	var firstErr error
	setErr := func(err error) {
		emu.Lock()
		if firstErr == nil && err != nil {
			firstErr = err
		}
		emu.Unlock()
	}
	var nrec int64
	for w := 0; w < nw; w++ {
		wg.Add(1)
		go func() {
			defer wg.Done()
			r := &c01Runner{c: c, opts: c01Opts{allStorages: c.Thorough(), seed: c.Seed}, stats: newC01Stats(), gate: gate, confirms: map[string]int{}}
			for line := range recs {
				if r.err != nil {
					continue
				}
				var rec c01Rec
				if err := json.Unmarshal(line, &rec); err != nil {
					r.err = core.Infra("bad record from TLC: %v", err)
					continue
				}
				if n := atomic.AddInt64(&nrec, 1); n%97 == 1 {
					c.Sample(c01SampleOf(&rec, r.opts))
				}
				r.record(&rec)
			}
			stats.merge(r.stats)
			emu.Lock()
			c.GateChecked += r.gateChecked
			c.GateRejects += r.gateRejects
			c.TracesVsImpl += r.traces
			emu.Unlock()
			setErr(r.err)
		}()
	}
	feed := func(line []byte) { recs <- append([]byte(nil), line...) }

	// (M) runs of the specification itself, concurrently with the enumeration
	var mwg sync.WaitGroup
	mwg.Add(2)
	go func() {
		defer mwg.Done()
		_, err := c.TLC(core.TLCOpts{Spec: "BitVecMC", CfgName: "bitvec-vs-integers", Cfg: fmt.Sprintf(c01BitVecCfg, "TRUE"),
			Workers: tlcWorkers, Timeout: 40 * time.Minute})
		setErr(err)
	}()
	go func() {
		defer mwg.Done()
		_, err := c.TLC(core.TLCOpts{Spec: "Expr", CfgName: "shortcuts-m", Cfg: c01Cfg("m", 1, 0, true, "TypeOK ShortcutsOK FloatSmallOK"),
			Workers: 3, Timeout: 40 * time.Minute})
		setErr(err)
	}()
	// (R) seeded random operands, every combo once per trace
	mwg.Add(1)
	go func() {
		defer mwg.Done()
		_, err := c.TLC(core.TLCOpts{Spec: "Expr", CfgName: "cells-sim", Cfg: c01Cfg("sim", level, 0, true, "TypeOK Emit"),
			Simulate: true, SimNum: c.Pick(1, 3), SimDepth: 12 + 64 + 2, Seed: c.Seed, Workers: c.Pick(2, 4),
			Timeout: 40 * time.Minute, OnLine: feed})
		setErr(err)
	}()
	// (R) bounded-exhaustive enumeration by cell
	_, err := c.TLC(core.TLCOpts{Spec: "Expr", CfgName: "cells-bfs", Cfg: c01Cfg("bfs", level, c.Seed%8, true, "TypeOK Emit"),
		Workers: tlcWorkers, Timeout: 40 * time.Minute, OnLine: feed})
	setErr(err)
	mwg.Wait()
	close(recs)
	wg.Wait()
	if firstErr != nil {
		return firstErr
	}
	// Go gate, part 2: really compile a seeded sample of the cells
	if err := gate.runGate(); err != nil {
		return err
	}
	c.Exhaustive = false // exhaustive over the boundary lists, not over the operand space
	files := map[string]int{}
	for f, m := range stats.byFile {
		files[f] = len(m)
	}
	files["fast/identifier.go"] = len(stats.identCell)
	c.Extra["cells_by_file"] = files
	c.Extra["evaluations_by_shape"] = stats.byShape
	c.Extra["evaluations_by_storage"] = stats.byStorage
	c.Extra["evaluations_by_expected_class"] = stats.byClass
	c.Extra["compile_gate_cells"] = gate.checked
	c.Assume("platform pinned to amd64 (int, uint, uintptr are 64-bit)")
	c.Assume("floating point on the exact sub-domain of FloatD.tla only (dyadic values below 2^30 ulp-free, one round-to-nearest-even step at float32); NaN payload bits not compared; complex kinds not generated")
	c.Assume("a panic raised while gomacro compiles the snippet counts as a compile-time rejection whatever its message")
	c.Assume("constant shift counts above the compiler's implementation limit are not generated for constant left operands")
	c.Assume("the constant expression MinInt64 / -1 (int64, int) is not generated: the Go toolchain accepts it with the wrapped value although the Go specification calls it an overflow")
	return nil
}

func c01SampleOf(rec *c01Rec, o c01Opts) interface{} {
	var out []map[string]string
	n := 0
	c01Expand(rec, o, func(c *c01Cell, storages []string) {
		n += len(storages)
		c.Storage = storages[(n/7)%len(storages)]
		if len(out) < 3 && (n/len(storages))%53 == 7 {
			out = append(out, map[string]string{"snippet": c.Source(), "operands": c01Operands(c), "shape": c.Shape, "storage": c.Storage, "expected": c.Want.String()})
		}
	})
	return map[string]interface{}{"group": rec.G, "kinds": rec.Ks, "count_kinds": rec.CKs, "cells_in_record": n, "cells": out}
}

func replayC01(c *core.Ctx, raw json.RawMessage) error {
	var rp c01Replay
	if err := json.Unmarshal(raw, &rp); err != nil {
		return err
	}
	cell := rp.Cell
	rt := c01Native(&cell)
	cell.GoRT = &rt
	goWant := c01GoExpect(&cell, rt)
	if !c01Agree(cell.Want, goWant) {
		return core.Infra("stored expectation %s disagrees with native Go %s", cell.Want, goWant)
	}
	env, err := newC01Env()
	if err != nil {
		return err
	}
	got := env.eval(&cell)
	fmt.Printf("replay: %s   with %s\n  specification (= compiled Go): %s\n  gomacro: %s\n", cell.Source(), c01Operands(&cell), cell.Want, got)
	if !c01Agree(cell.Want, got) {
		c.Violation(c01Sig(&cell, got), "replayed cell disagrees", c01ReplayCase(&cell, got))
	}
	return nil
}

func selfTestC01(c *core.Ctx) error {
	// 1. broken variants of the specification must be caught by the (M) configs
	r, err := c.TLC(core.TLCOpts{Spec: "BitVecMC", CfgName: "broken-floored-division", Cfg: fmt.Sprintf(c01BitVecCfg, "FALSE"),
		Workers: 4, ExpectError: true})
	if err != nil {
		return err
	}
	if r.Violated != "All8" && r.Violated != "All16" {
		return fmt.Errorf("broken variant Trunc=FALSE (floored signed division) not detected by TLC (violated=%q)\n%s", r.Violated, r.Output)
	}
	r, err = c.TLC(core.TLCOpts{Spec: "Expr", CfgName: "broken-quopow2-fixup", Cfg: c01Cfg("m", 1, 0, false, "ShortcutsOK"),
		Workers: 4, ExpectError: true})
	if err != nil {
		return err
	}
	if r.Violated != "ShortcutsOK" {
		return fmt.Errorf("broken variant QuoFix=FALSE (signed fix-up of x / 2^k removed) not detected by TLC (violated=%q)\n%s", r.Violated, r.Output)
	}
	// 2. a correct record is accepted, a corrupted one is rejected by the replay and by the gate
	env, err := newC01Env()
	if err != nil {
		return err
	}
	mk := func(storage string, want int64) *c01Cell {
		return &c01Cell{Op: "rem", Kind: "int16", Shape: "cR", Storage: storage, A: c01Val{Kind: "int16", Bits: uint64(uint16(0x10000 - 7))},
			B: c01Val{Kind: "int16", Bits: 3}, Want: c01Res{T: "v", Ty: "int16", V: c01Val{Kind: "int16", Bits: uint64(uint16(want))}}}
	}
	for _, st := range c01Storages {
		good := mk(st, -1) // -7 % 3 == -1
		if got := env.eval(good); !c01Agree(good.Want, got) {
			return fmt.Errorf("correct cell rejected (%s): %s gives %s, expected %s", st, good.Source(), got, good.Want)
		}
		bad := mk(st, 2) // floored remainder: wrong for Go
		if got := env.eval(bad); c01Agree(bad.Want, got) {
			return fmt.Errorf("corrupted cell accepted (%s)", st)
		}
		rt := c01Native(bad)
		if c01Agree(bad.Want, c01GoExpect(bad, rt)) {
			return fmt.Errorf("corrupted cell accepted by the native gate")
		}
	}
	// a corrupted static type and a corrupted panic class are rejected too
	tc := mk("g", -1)
	tc.Want.Ty = "int32"
	tc.Want.V.Kind = "int32"
	if c01Agree(tc.Want, env.eval(tc)) {
		return fmt.Errorf("corrupted static type accepted")
	}
	pc := &c01Cell{Op: "quo", Kind: "uint8", Shape: "vv", Storage: "c2", A: c01Val{Kind: "uint8", Bits: 9}, B: c01Val{Kind: "uint8"},
		Want: c01Res{T: "p", Cls: "divide"}}
	if got := env.eval(pc); !c01Agree(pc.Want, got) {
		return fmt.Errorf("division by a zero variable: expected the divide panic, got %s", got)
	}
	pc.Want.Cls = "shift"
	if c01Agree(pc.Want, env.eval(pc)) {
		return fmt.Errorf("corrupted panic class accepted")
	}
	// the boxed variables really are boxed, the others really are in integer slots
	if err := env.checkClasses(); err != nil {
		return err
	}
	return nil
}

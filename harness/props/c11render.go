package props

import (
	"encoding/json"
	"fmt"
	"hash/fnv"
	"math"
	"strconv"
	"strings"

	"verif/harness/c11h"
	"verif/harness/show"
)

// Rendering of the behaviours of spec/sem/Interop.tla as Go source in the common rendering
// (declarations + entry expression; interpreted callbacks log through ev()).

// c11Rec is one record emitted by Interop.tla (field k names the scenario).
type c11Rec struct {
	K string `json:"k"`
	// sort
	In     []int   `json:"in"`
	Ord    string  `json:"ord"`
	Finals [][]int `json:"finals"`
	Stable []int   `json:"stable"`
	Lt     [][]int `json:"lt"`
	// map, fields
	S   []int           `json:"s"`
	F   string          `json:"f"`
	Sep int             `json:"sep"`
	Log [][]interface{} `json:"log"`
	Res json.RawMessage `json:"res"`
	// fmt
	Fn       string   `json:"fn"`
	Verb     string   `json:"verb"`
	Form     string   `json:"form"`
	Ops      []string `json:"ops"`
	PtrCalls int      `json:"ptrcalls"`
	// reader
	Via    string  `json:"via"`
	EOF    string  `json:"eof"`
	Chunks [][]int `json:"chunks"`
	Toks   [][]int `json:"toks"`
	Err    string  `json:"err"`
	// conc
	N     int     `json:"n"`
	KK    int     `json:"kk"`
	Mode  string  `json:"mode"`
	Outs  [][]int `json:"outs"`
	Total int     `json:"total"`
	// call
	C *c11Call `json:"c"`
	// apply
	A   []int `json:"a"`
	Ret bool  `json:"ret"`
	Par int   `json:"par"`
}

type c11Call struct {
	F    string          `json:"f"`
	Form string          `json:"form"`
	S    []int           `json:"s"`
	H    int             `json:"h"`
	A    int             `json:"a"`
	B    int             `json:"b"`
	W    int             `json:"w"`
	Xs   json.RawMessage `json:"xs"`
	Sep  []int           `json:"sep"`
}

// c11FmtCb names the conversion an operand kind of the fmt scenario goes through.
func c11FmtCb(kind string) string {
	switch kind {
	case "sv":
		return "fmt.Stringer<-" + c11RecvVal
	case "svp":
		return "fmt.Stringer<-" + c11RecvValPtr
	case "spp":
		return "fmt.Stringer<-" + c11RecvPtr
	case "ev", "bothe":
		return "error<-" + c11RecvVal
	case "evp":
		return "error<-" + c11RecvValPtr
	case "epp":
		return "error<-" + c11RecvPtr
	}
	return "-"
}

// c11Meta travels in ProgCase.Raw: everything needed to render the case again (replay) and to
// name a disagreement.
type c11Meta struct {
	Rec     json.RawMessage `json:"rec"`
	Variant int             `json:"variant"`
	Cell    string          `json:"cell,omitempty"`
	Entry   string          `json:"entry_point"`
	Cb      string          `json:"callback"`
	Shape   string          `json:"shape"` // rendering shape (gate coverage)
}

// ---------------------------------------------------------------------------------------
// prelude: interpreted types and helpers (the same text is compiled into the native gate)

const c11Types = `type MyInt int
type MyStr string
func b2i(b bool) int { if b { return 1 }; return 0 }
func sOf(n int) string { s := ""; for i := 0; i < n; i++ { s += "x" }; return s }
func lt(desc bool, a, b int) bool { if desc { return a > b }; return a < b }
func errs(err error) string { if err == nil { return "nil" }; return err.Error() }
func okOf(n int, err error) (int, bool) { return n, err == nil }
func first(xs []int) int { if len(xs) == 0 { return -1 }; return xs[0] }

type SV struct{ V int }
func (s SV) String() string { ev("String", s.V); return "S<" + strconv.Itoa(s.V) + ">" }
type SP struct{ V, N int }
func (s *SP) String() string { s.N++; ev("String", s.V); return "S<" + strconv.Itoa(s.V) + ">" }
type EV struct{ V int }
func (e EV) Error() string { ev("Error", e.V); return "E<" + strconv.Itoa(e.V) + ">" }
type EP struct{ V, N int }
func (e *EP) Error() string { e.N++; ev("Error", e.V); return "E<" + strconv.Itoa(e.V) + ">" }
type BE struct{ V int }
func (b BE) Error() string { ev("Error", b.V); return "E<" + strconv.Itoa(b.V) + ">" }
func (b BE) String() string { ev("String", b.V); return "S<" + strconv.Itoa(b.V) + ">" }
type RE struct{ V int }
func (e RE) Error() string { return "E" + strconv.Itoa(e.V) }

type P struct{ K, ID int }
func mk(keys ...int) []P { s := make([]P, len(keys)); for i, k := range keys { s[i] = P{k, i + 1} }; return s }
func ids(s []P) []int { r := make([]int, len(s)); for i := range s { r[i] = s[i].ID }; return r }
type PXv struct{ S []P; Desc bool }
func (x PXv) Len() int { ev("len", len(x.S)); return len(x.S) }
func (x PXv) Less(i, j int) bool { r := lt(x.Desc, x.S[i].K, x.S[j].K); ev("less", i, j, r); return r }
func (x PXv) Swap(i, j int) { ev("swap", i, j); x.S[i], x.S[j] = x.S[j], x.S[i] }
type PXp struct{ S []P; Desc bool }
func (x *PXp) Len() int { ev("len", len(x.S)); return len(x.S) }
func (x *PXp) Less(i, j int) bool { r := lt(x.Desc, x.S[i].K, x.S[j].K); ev("less", i, j, r); return r }
func (x *PXp) Swap(i, j int) { ev("swap", i, j); x.S[i], x.S[j] = x.S[j], x.S[i] }

type RD struct{ chunks []string; i int; mode int }
func (r *RD) Read(p []byte) (int, error) {
	if r.i >= len(r.chunks) {
		if r.mode == 2 { ev("read", 0, "E7"); return 0, RE{7} }
		ev("read", 0, "EOF")
		return 0, io.EOF
	}
	n := copy(p, r.chunks[r.i])
	r.i++
	if r.mode == 1 && r.i == len(r.chunks) { ev("read", n, "EOF"); return n, io.EOF }
	ev("read", n, "nil")
	return n, nil
}
type RV struct{ R *RD }
func (r RV) Read(p []byte) (int, error) { return r.R.Read(p) }
func scanAll(sc *bufio.Scanner) ([]string, string) {
	out := []string{}
	for sc.Scan() { out = append(out, sc.Text()) }
	return out, errs(sc.Err())
}
`

const c11Imports = `import ("sort"; "strings"; "io"; "bufio"; "strconv"; "math"; "c11h")
`

// imports of the native programs ("strings", "errors" and "fmt" are imported by the gate itself)
var c11GateImports = []string{"reflect", "sync", "sort", "io", "bufio", "strconv", "math"}

const c11GateUses = `var _ = sort.Sort
var _ = io.EOF
var _ = bufio.NewScanner
var _ = strconv.Itoa
var _ = math.Modf
var _ = strings.Map
var _ sync.Mutex
`

func c11Prelude(withSync bool) string {
	imp := c11Imports
	if withSync {
		imp += "import \"sync\"\n"
	}
	return imp + c11Types
}

func c11GatePrelude() string { return c11GateUses + c11h.GateSource() + c11Types }

// ---------------------------------------------------------------------------------------
// small helpers

func c11Hash(s string) uint64 {
	h := fnv.New64a()
	h.Write([]byte(s))
	return h.Sum64()
}

func c11Runes(codes []int) string {
	r := make([]rune, len(codes))
	for i, c := range codes {
		r[i] = rune(c)
	}
	return string(r)
}

func c11Bytes(codes []int) string {
	b := make([]byte, len(codes))
	for i, c := range codes {
		b[i] = byte(c)
	}
	return string(b)
}

// Go literal of a string given by bytes: every byte escaped
func c11ByteLit(codes []int) string {
	var b strings.Builder
	b.WriteByte('"')
	for _, c := range codes {
		fmt.Fprintf(&b, "\\x%02x", c)
	}
	b.WriteByte('"')
	return b.String()
}

func c11Ev(args ...interface{}) string {
	parts := make([]string, len(args))
	for i, a := range args {
		parts[i] = show.Show(a)
	}
	return strings.Join(parts, " ")
}

func c11IntList(xs []int) string {
	parts := make([]string, len(xs))
	for i, x := range xs {
		parts[i] = strconv.Itoa(x)
	}
	return strings.Join(parts, ", ")
}

func c11Strs(tt [][]int, conv func([]int) string) []string {
	out := make([]string, len(tt))
	for i, t := range tt {
		out[i] = conv(t)
	}
	return out
}

// c11Case assembles a ProgCase; the key (and the suffix of the declared names) is derived
// from the content so that native gate results are cached across runs and seeds.
func c11NewCase(rec *c11Rec, raw []byte, variant int, cell, entry, cb, shape string) (*ProgCase, string) {
	meta := c11Meta{Rec: append([]byte(nil), raw...), Variant: variant, Cell: cell, Entry: entry, Cb: cb, Shape: shape}
	mb, _ := json.Marshal(meta)
	key := fmt.Sprintf("%x", c11Hash(string(raw)+"|"+strconv.Itoa(variant)+"|"+cell))
	return &ProgCase{Key: key, Raw: mb, Imports: c11GateImports, Nontrivial: true}, "_" + key
}

// ---------------------------------------------------------------------------------------
// sort

var c11SortVariants = []string{"Sort", "SortPtr", "Stable", "Slice", "SliceStable", "SortValPtr", "SortPtrVar"}

// receiver shapes of the interpreted type converted to a compiled interface
const (
	c11RecvVal    = "T{methods on T}"
	c11RecvPtr    = "*T{methods on *T}"
	c11RecvValPtr = "*T{methods on T}"
)

func c11RenderSort(rec *c11Rec, raw []byte, variant int) *ProgCase {
	v := c11SortVariants[variant%len(c11SortVariants)]
	cb := "sort.Interface<-" + map[string]string{"Sort": c11RecvVal, "Stable": c11RecvVal, "SortPtr": c11RecvPtr, "SortValPtr": c11RecvValPtr, "SortPtrVar": c11RecvPtr}[v]
	if strings.HasPrefix(v, "Slice") {
		cb = "func(int, int) bool"
	}
	entry := map[string]string{"Sort": "sort.Sort", "SortPtr": "sort.Sort", "SortPtrVar": "sort.Sort", "SortValPtr": "sort.Sort", "Stable": "sort.Stable", "Slice": "sort.Slice", "SliceStable": "sort.SliceStable"}[v]
	pc, sfx := c11NewCase(rec, raw, variant, "", entry, cb, "sort/"+v)
	desc := rec.Ord == "desc"
	keys := c11IntList(rec.In)
	name := "sortcase" + sfx
	var d strings.Builder
	fmt.Fprintf(&d, "func %s() []int {\n", name)
	switch v {
	case "Sort", "Stable":
		fmt.Fprintf(&d, "\tx := PXv{S: mk(%s), Desc: %v}\n\tsort.%s(x)\n\treturn ids(x.S)\n", keys, desc, v)
	case "SortPtr":
		fmt.Fprintf(&d, "\tx := &PXp{S: mk(%s), Desc: %v}\n\tsort.Sort(x)\n\treturn ids(x.S)\n", keys, desc)
	case "SortPtrVar":
		// the interface value is made from a variable that is assigned another value before the
		// interface is used: the interface must still hold the first value
		fmt.Fprintf(&d, "\tx := &PXp{S: mk(%s), Desc: %v}\n\tkeep := x\n\tvar si sort.Interface = x\n\tx = &PXp{S: nil, Desc: %v}\n\tsort.Sort(si)\n\t_ = x\n\treturn ids(keep.S)\n", keys, desc, desc)
	case "SortValPtr":
		fmt.Fprintf(&d, "\tx := PXv{S: mk(%s), Desc: %v}\n\tsort.Sort(&x)\n\treturn ids(x.S)\n", keys, desc)
	default:
		fmt.Fprintf(&d, "\ts := mk(%s)\n\tsort.%s(s, func(i, j int) bool {\n\t\tr := lt(%v, s[i].K, s[j].K)\n\t\tev(\"lessS\", i, j, s[i].ID, s[j].ID, r)\n\t\treturn r\n\t})\n\treturn ids(s)\n", keys, v, desc)
	}
	d.WriteString("}\n")
	pc.Decls = d.String()
	pc.Entry = name + "()"
	pc.Nontrivial = len(rec.In) >= 2
	adm := &c11SortAdm{rec: rec, slice: strings.HasPrefix(v, "Slice"), stable: strings.Contains(v, "Stable")}
	pc.Admissible = adm.check
	c11Adms.Store(pc.Key, c11Shaper(adm.shape))
	return pc
}

// ---------------------------------------------------------------------------------------
// strings.Map, strings.FieldsFunc

func c11MapBody(f string) string {
	switch f {
	case "inc":
		return "return r + 1"
	case "dropa":
		return "if r == 'a' { return -1 }; return r"
	case "toe":
		return "if r == 'a' { return 0xe9 }; return r"
	case "toa":
		return "if r == 0xe9 { return 'a' }; return r"
	case "id":
		return "return r"
	}
	return "return -1"
}

func c11RenderMap(rec *c11Rec, raw []byte, variant int) *ProgCase {
	pc, sfx := c11NewCase(rec, raw, variant, "", "strings.Map", "func(rune) rune", fmt.Sprintf("map/%d", variant%2))
	lit := strconv.QuoteToASCII(c11Runes(rec.S))
	body := "ev(\"map\", r); " + c11MapBody(rec.F)
	if variant%2 == 0 {
		pc.Entry = fmt.Sprintf("strings.Map(func(r rune) rune { %s }, %s)", body, lit)
	} else {
		pc.Decls = fmt.Sprintf("func mf%s(r rune) rune { %s }\n", sfx, body)
		pc.Entry = fmt.Sprintf("strings.Map(mf%s, %s)", sfx, lit)
	}
	for _, e := range rec.Log {
		pc.WantEvents = append(pc.WantEvents, c11Ev("map", int32(num(e[1]))))
	}
	var res []int
	json.Unmarshal(rec.Res, &res)
	pc.WantResult = show.Vals(c11Runes(res))
	pc.Nontrivial = len(rec.S) >= 1
	return pc
}

func c11RenderFields(rec *c11Rec, raw []byte, variant int) *ProgCase {
	pc, _ := c11NewCase(rec, raw, variant, "", "strings.FieldsFunc", "func(rune) bool", "fields")
	lit := strconv.QuoteToASCII(c11Runes(rec.S))
	pc.Entry = fmt.Sprintf("strings.FieldsFunc(%s, func(r rune) bool { a := r == %d; ev(\"ff\", r, a); return a })", lit, rec.Sep)
	var res [][]int
	json.Unmarshal(rec.Res, &res)
	pc.WantResult = show.Vals(c11Strs(res, c11Runes))
	pc.Nontrivial = len(rec.S) >= 1
	adm := &c11FieldsAdm{rec: rec, want: pc.WantResult}
	pc.Admissible = adm.check
	c11Adms.Store(pc.Key, c11Shaper(adm.shape))
	return pc
}

// ---------------------------------------------------------------------------------------
// fmt

func c11RenderFmt(rec *c11Rec, raw []byte, variant int) *ProgCase {
	iface := "-"
	for _, k := range rec.Ops {
		switch k {
		case "ev", "evp", "epp", "bothe":
			iface = "error{Error() string}"
		case "sv", "svp", "spp":
			if iface == "-" {
				iface = "fmt.Stringer{String() string}"
			}
		}
	}
	single := rec.Form == "typed" && len(rec.Ops) == 1
	if rec.Form != "typed" {
		variant = 0 // plain operands: one rendering
	}
	style := variant % 2 // 0: implicit conversion at the use site, 1: through a typed variable
	shape := fmt.Sprintf("fmt/%s/%s/%d", rec.Fn, rec.Form, style)
	if single {
		shape += "/single"
	}
	for _, k := range rec.Ops {
		if k == "svp" || k == "evp" {
			shape += "/valptr"
			break
		}
	}
	pc, sfx := c11NewCase(rec, raw, variant, "", "fmt.Sprint*", iface, shape)
	var pre, plain, ints, strs, ss, es, counts []string
	sel := ""
	for i, k := range rec.Ops {
		v := i + 1
		var typ, val string
		switch k {
		case "int":
			plain = append(plain, strconv.Itoa(v))
			ints = append(ints, strconv.Itoa(v))
			sel += "i"
			continue
		case "str":
			lit := strconv.Quote(string(rune('w' + v)))
			plain = append(plain, lit)
			strs = append(strs, lit)
			sel += "s"
			continue
		case "sv":
			typ, val = "fmt.Stringer", fmt.Sprintf("SV{%d}", v)
		case "svp":
			typ, val = "fmt.Stringer", fmt.Sprintf("&SV{%d}", v)
		case "spp":
			pre = append(pre, fmt.Sprintf("p%d := &SP{V: %d}", v, v))
			counts = append(counts, fmt.Sprintf("p%d.N", v))
			typ, val = "fmt.Stringer", fmt.Sprintf("p%d", v)
		case "ev":
			typ, val = "error", fmt.Sprintf("EV{%d}", v)
		case "evp":
			typ, val = "error", fmt.Sprintf("&EV{%d}", v)
		case "epp":
			pre = append(pre, fmt.Sprintf("p%d := &EP{V: %d}", v, v))
			counts = append(counts, fmt.Sprintf("p%d.N", v))
			typ, val = "error", fmt.Sprintf("p%d", v)
		case "bothe":
			typ, val = "error", fmt.Sprintf("BE{%d}", v)
		}
		e := val
		if style == 1 {
			pre = append(pre, fmt.Sprintf("var o%d %s = %s", v, typ, val))
			e = fmt.Sprintf("o%d", v)
		}
		if typ == "error" {
			es = append(es, e)
			sel += "E"
		} else {
			ss = append(ss, e)
			sel += "S"
		}
	}
	call := ""
	switch {
	case single && len(ss) == 1:
		call = fmt.Sprintf("c11h.FmtS(%q, %q, %s)", rec.Fn, rec.Verb, ss[0])
	case single:
		call = fmt.Sprintf("c11h.FmtE(%q, %q, %s)", rec.Fn, rec.Verb, es[0])
	case rec.Form == "typed":
		call = fmt.Sprintf("c11h.Fmt(%q, %q, %q, []int{%s}, []string{%s}, []fmt.Stringer{%s}, []error{%s})", rec.Fn, rec.Verb, sel,
			strings.Join(ints, ", "), strings.Join(strs, ", "), strings.Join(ss, ", "), strings.Join(es, ", "))
	default:
		args := strings.Join(plain, ", ")
		if rec.Form == "spread" {
			pre = append(pre, fmt.Sprintf("xs := []interface{}{%s}", args))
			args = "xs..."
		}
		if rec.Fn == "Sprintf" {
			verbs := make([]string, len(rec.Ops))
			for i := range verbs {
				verbs[i] = "%" + rec.Verb
			}
			call = fmt.Sprintf("fmt.Sprintf(%q, %s)", strings.Join(verbs, "|"), args)
		} else {
			call = fmt.Sprintf("fmt.%s(%s)", rec.Fn, args)
		}
	}
	cnt := "0"
	if len(counts) > 0 {
		cnt = strings.Join(counts, " + ")
	}
	name := "fmtcase" + sfx
	pc.Decls = fmt.Sprintf("func %s() (string, int) {\n\t%s\n\tr := %s\n\treturn r, %s\n}\n", name, strings.Join(pre, "\n\t"), call, cnt)
	pc.Entry = name + "()"
	for _, e := range rec.Log {
		pc.WantEvents = append(pc.WantEvents, c11Ev(e[0], num(e[1])))
	}
	var res []int
	json.Unmarshal(rec.Res, &res)
	pc.WantResult = show.Vals(c11Runes(res), rec.PtrCalls)
	return pc
}

// ---------------------------------------------------------------------------------------
// io.Reader consumers

func c11RenderReader(rec *c11Rec, raw []byte, variant int) *ProgCase {
	entry := map[string]string{"ReadAll": "io.ReadAll", "ScanLines": "bufio.Scanner(ScanLines)", "ScanWords": "bufio.Scanner(ScanWords)"}[rec.Via]
	isplit := rec.Via != "ReadAll" && variant%2 == 1 // interpreted split function around the compiled one
	recv := []string{c11RecvPtr, c11RecvVal, c11RecvValPtr}[(variant/2)%3]
	shape := "reader/" + rec.Via + "/" + rec.EOF + "/" + recv
	if isplit {
		shape += "/isplit"
	}
	pc, sfx := c11NewCase(rec, raw, variant, "", entry, "io.Reader<-"+recv, shape)
	mode := map[string]int{"sep": 0, "with": 1, "err": 2}[rec.EOF]
	rd := fmt.Sprintf("&RD{chunks: []string{%s}, mode: %d}", strings.Join(c11Strs(rec.Chunks, c11ByteLit), ", "), mode)
	switch recv {
	case c11RecvVal:
		rd = "RV{" + rd + "}"
	case c11RecvValPtr:
		rd = "&RV{" + rd + "}"
	}
	name := "rdcase" + sfx
	if rec.Via == "ReadAll" {
		pc.Decls = fmt.Sprintf("func %s() (string, string) {\n\tb, err := io.ReadAll(%s)\n\treturn string(b), errs(err)\n}\n", name, rd)
		pc.WantResult = show.Vals(c11Bytes(mustInts(rec.Res)), rec.Err)
	} else {
		split := "bufio." + rec.Via
		if isplit {
			split = fmt.Sprintf("func(data []byte, atEOF bool) (int, []byte, error) { return bufio.%s(data, atEOF) }", rec.Via)
		}
		pc.Decls = fmt.Sprintf("func %s() ([]string, string) {\n\tsc := bufio.NewScanner(%s)\n\tsc.Split(%s)\n\treturn scanAll(sc)\n}\n", name, rd, split)
		pc.WantResult = show.Vals(c11Strs(rec.Toks, c11Bytes), rec.Err)
	}
	pc.Entry = name + "()"
	for _, e := range rec.Log {
		pc.WantEvents = append(pc.WantEvents, c11Ev("read", num(e[1]), e[2]))
	}
	return pc
}

func mustInts(raw json.RawMessage) []int {
	var xs []int
	json.Unmarshal(raw, &xs)
	return xs
}

// ---------------------------------------------------------------------------------------
// concurrent callbacks

func c11RenderConc(rec *c11Rec, raw []byte, variant int) *ProgCase {
	pc, sfx := c11NewCase(rec, raw, variant, "", "c11h.Par", "func(int) int", "conc/"+rec.Mode)
	name := "conccase" + sfx
	body := "return 2*x + 1"
	if rec.Mode == "mutex" {
		body = "mu.Lock(); total += x; mu.Unlock(); return x"
	}
	// the same scenario once more with a function value of a signature gomacro wraps generically
	// (two parameters, two results), called from the goroutines many times: no call may come back
	// with the results of another one (the count of such calls is added to total: 0 by the model)
	stress := fmt.Sprintf("total += c11h.Stress2(%d, 4000, func(a, b int) (int, int) { return a + a + b, b })", rec.N)
	pc.Decls = fmt.Sprintf("func %s() ([][]int, int) {\n\tvar mu sync.Mutex\n\ttotal := 0\n\touts := c11h.Par(%d, %d, func(x int) int { %s })\n\tmu.Lock()\n\tmu.Unlock()\n\t%s\n\treturn outs, total\n}\n", name, rec.N, rec.KK, body, stress)
	pc.Entry = name + "()"
	pc.WantResult = show.Vals(rec.Outs, rec.Total)
	return pc
}

// ---------------------------------------------------------------------------------------
// compiled functions called from interpreted code

func c11RenderCall(rec *c11Rec, raw []byte, variant int) *ProgCase {
	c := rec.C
	pc, sfx := c11NewCase(rec, raw, variant, "", "", "-", "call/"+c.F+"/"+c.Form)
	var res []interface{}
	json.Unmarshal(rec.Res, &res)
	name := "callcase" + sfx
	meta := func(entry string) {
		var m c11Meta
		json.Unmarshal(pc.Raw, &m)
		m.Entry = entry
		m.Cb = "call:" + c.Form
		pc.Raw, _ = json.Marshal(m)
	}
	seq := func(x interface{}) []int {
		var out []int
		if l, ok := x.([]interface{}); ok {
			for _, e := range l {
				out = append(out, num(e))
			}
		}
		return out
	}
	switch c.F {
	case "Atoi":
		meta("strconv.Atoi")
		call := fmt.Sprintf("strconv.Atoi(%s)", c11ByteLit(c.S))
		switch c.Form {
		case "ret":
			pc.Decls = fmt.Sprintf("func %s() (int, error) { return %s }\n", name, call)
			pc.Entry = "okOf(" + name + "())"
		case "assign":
			pc.Decls = fmt.Sprintf("func %s() (int, bool) { n, err := %s; return n, err == nil }\n", name, call)
			pc.Entry = name + "()"
		default:
			pc.Entry = "c11h.IntErr(" + call + ")"
		}
		pc.WantResult = show.Vals(num(res[0]), res[1])
	case "Cut":
		meta("strings.Cut")
		call := fmt.Sprintf("strings.Cut(%s, \"=\")", c11ByteLit(c11RunesToBytes(c.S)))
		before, after := c11Runes(seq(res[0])), c11Runes(seq(res[1]))
		switch c.Form {
		case "ret":
			pc.Decls = fmt.Sprintf("func %s() (string, string, bool) { return %s }\n", name, call)
			pc.Entry = name + "()"
			pc.WantResult = show.Vals(before, after, res[2])
		case "assign":
			pc.Decls = fmt.Sprintf("func %s() (string, string, bool) { b, a, ok := %s; return b, a, ok }\n", name, call)
			pc.Entry = name + "()"
			pc.WantResult = show.Vals(before, after, res[2])
		default:
			pc.Entry = "c11h.Rot3(" + call + ")"
			pc.WantResult = show.Vals(res[2], before, after)
		}
	case "Modf":
		meta("math.Modf")
		call := fmt.Sprintf("math.Modf(%s)", strconv.FormatFloat(float64(c.H)/2, 'f', 1, 64))
		ip, fr := float64(num(res[0])), float64(num(res[1]))/2
		switch c.Form {
		case "ret":
			pc.Decls = fmt.Sprintf("func %s() (float64, float64) { return %s }\n", name, call)
			pc.Entry = name + "()"
			pc.WantResult = show.Vals(ip, fr)
		case "assign":
			pc.Decls = fmt.Sprintf("func %s() (float64, float64) { i, f := %s; return i, f }\n", name, call)
			pc.Entry = name + "()"
			pc.WantResult = show.Vals(ip, fr)
		default:
			pc.Entry = "c11h.Rot2(" + call + ")"
			pc.WantResult = show.Vals(fr, ip)
		}
	case "DivMod":
		meta("c11h.DivMod")
		call := fmt.Sprintf("c11h.DivMod(%d, %d)", c.A, c.B)
		q, r := num(res[0]), num(res[1])
		switch c.Form {
		case "ret":
			pc.Decls = fmt.Sprintf("func %s() (int, int) { return %s }\n", name, call)
			pc.Entry = name + "()"
			pc.WantResult = show.Vals(q, r)
		case "assign":
			pc.Decls = fmt.Sprintf("func %s() (int, int) { var q, r int; q, r = %s; return q, r }\n", name, call)
			pc.Entry = name + "()"
			pc.WantResult = show.Vals(q, r)
		default:
			pc.Entry = "c11h.Rot2(" + call + ")"
			pc.WantResult = show.Vals(r, q)
		}
	case "SumN":
		meta("c11h.SumN(...int)")
		var xs []int
		json.Unmarshal(c.Xs, &xs)
		sum, n, fst := num(res[0]), num(res[1]), num(res[2])
		switch c.Form {
		case "args":
			var decl, names []string
			for i, x := range xs {
				decl = append(decl, fmt.Sprintf("a%d := %d", i, x))
				names = append(names, fmt.Sprintf("a%d", i))
			}
			ret := "-1"
			if len(xs) > 0 {
				ret = "a0"
			}
			pc.Decls = fmt.Sprintf("func %s() (int, int, int) {\n\t%s\n\ts, n := c11h.SumN(%s)\n\treturn s, n, %s\n}\n", name, strings.Join(decl, "; "), strings.Join(names, ", "), ret)
			pc.WantResult = show.Vals(sum, n, fst)
		case "spread":
			pc.Decls = fmt.Sprintf("func %s() (int, int, int) {\n\txs := []int{%s}\n\ts, n := c11h.SumN(xs...)\n\treturn s, n, first(xs)\n}\n", name, c11IntList(xs))
			pc.WantResult = show.Vals(sum, n, fst)
		case "nil":
			pc.Decls = fmt.Sprintf("func %s() (int, int, int) {\n\tvar xs []int\n\ts, n := c11h.SumN(xs...)\n\treturn s, n, first(xs)\n}\n", name)
			pc.WantResult = show.Vals(sum, n, fst)
		default: // pass: an interpreted multi-valued call as the whole variadic argument list
			if len(xs) == 0 {
				return nil
			}
			ts := make([]string, len(xs))
			for i := range ts {
				ts[i] = "int"
			}
			pc.Decls = fmt.Sprintf("func g%s() (%s) { return %s }\nfunc %s() (int, int) { return c11h.SumN(g%s()) }\n", sfx, strings.Join(ts, ", "), c11IntList(xs), name, sfx)
			pc.WantResult = show.Vals(sum, n)
		}
		pc.Entry = name + "()"
	case "Wsum":
		meta("c11h.Wsum(int, ...int)")
		var xs []int
		json.Unmarshal(c.Xs, &xs)
		if c.Form == "args" {
			pc.Entry = fmt.Sprintf("c11h.Wsum(%s)", c11IntList(append([]int{c.W}, xs...)))
		} else {
			pc.Decls = fmt.Sprintf("func %s() int { xs := []int{%s}; return c11h.Wsum(%d, xs...) }\n", name, c11IntList(xs), c.W)
			pc.Entry = name + "()"
		}
		pc.WantResult = show.Vals(num(res[0]))
	case "Join":
		meta("strings.Join")
		var xs [][]int
		json.Unmarshal(c.Xs, &xs)
		lits := make([]string, len(xs))
		for i, x := range xs {
			lits[i] = strconv.QuoteToASCII(c11Runes(x))
		}
		pc.Entry = fmt.Sprintf("strings.Join([]string{%s}, %s)", strings.Join(lits, ", "), strconv.Quote(c11Runes(c.Sep)))
		pc.WantResult = show.Vals(c11Runes(seq(res[0])))
	default:
		return nil
	}
	return pc
}

func c11RunesToBytes(codes []int) []int {
	var out []int
	for _, b := range []byte(c11Runes(codes)) {
		out = append(out, int(b))
	}
	return out
}

// ---------------------------------------------------------------------------------------
// apply: signature cells

type c11Cell struct {
	Args     []string
	Rets     []string
	Variadic bool // the last two model arguments arrive as xs ...int
	Slice    bool // called through ApplySlice
	Name     string
}

var c11Kinds = []string{"bool", "int", "int8", "int16", "int32", "int64", "uint", "uint8", "uint16", "uint32", "uint64", "uintptr", "float32", "float64", "complex64", "complex128", "string"}

func c11TypeName(k string) string {
	switch k {
	case "named":
		return "MyInt"
	case "namedstr":
		return "MyStr"
	}
	return k
}

// Go expression converting the int expression e (small, >= 0) to kind k
func c11To(k, e string) string {
	switch k {
	case "bool":
		return "(" + e + " != 0)"
	case "string":
		return "sOf(" + e + ")"
	case "namedstr":
		return "MyStr(sOf(" + e + "))"
	case "complex64":
		return "complex(float32(" + e + "), 0)"
	case "complex128":
		return "complex(float64(" + e + "), 0)"
	}
	return c11TypeName(k) + "(" + e + ")"
}

// Go expression converting expression e of kind k to int
func c11From(k, e string) string {
	switch k {
	case "bool":
		return "b2i(" + e + ")"
	case "string", "namedstr":
		return "len(" + e + ")"
	case "complex64", "complex128":
		return "int(real(" + e + "))"
	}
	return "int(" + e + ")"
}

// the Go value of kind k carrying the model's integer v, as the harness's projection shows it
func c11KindVal(k string, v int) interface{} {
	switch k {
	case "bool":
		return v != 0
	case "int", "named":
		return v
	case "int8":
		return int8(v)
	case "int16":
		return int16(v)
	case "int32":
		return int32(v)
	case "int64":
		return int64(v)
	case "uint":
		return uint(v)
	case "uint8":
		return uint8(v)
	case "uint16":
		return uint16(v)
	case "uint32":
		return uint32(v)
	case "uint64":
		return uint64(v)
	case "uintptr":
		return uintptr(v)
	case "float32":
		return float32(v)
	case "float64":
		return float64(v)
	case "complex64":
		return complex(float32(v), 0)
	case "complex128":
		return complex(float64(v), 0)
	case "string", "namedstr":
		return strings.Repeat("x", v)
	}
	return math.NaN()
}

func c11CellSig(cell c11Cell) string {
	ts := make([]string, len(cell.Args))
	for i, k := range cell.Args {
		ts[i] = c11TypeName(k)
	}
	if cell.Variadic {
		ts = append(ts[:1:1], "...int")
	}
	s := "func(" + strings.Join(ts, ", ") + ")"
	switch len(cell.Rets) {
	case 0:
	case 1:
		s += " " + c11TypeName(cell.Rets[0])
	default:
		rs := make([]string, len(cell.Rets))
		for i, k := range cell.Rets {
			rs[i] = c11TypeName(k)
		}
		s += " (" + strings.Join(rs, ", ") + ")"
	}
	return s
}

func c11Cells() (all []c11Cell) {
	add := func(c c11Cell) {
		c.Name = c11CellSig(c)
		if c.Slice {
			c.Name += "/CallSlice"
		}
		all = append(all, c)
	}
	// the optimised signatures: func{0,1,2}ret{0,1} x 17 kinds
	add(c11Cell{})
	for _, r := range c11Kinds {
		add(c11Cell{Rets: []string{r}})
	}
	for _, a := range c11Kinds {
		add(c11Cell{Args: []string{a}})
		for _, r := range c11Kinds {
			add(c11Cell{Args: []string{a}, Rets: []string{r}})
		}
	}
	for _, a := range c11Kinds {
		for _, b := range c11Kinds {
			add(c11Cell{Args: []string{a, b}})
		}
	}
	// reflect.MakeFunc path: named types, two arguments with a result, three arguments,
	// several results, variadic interpreted functions
	add(c11Cell{Args: []string{"named"}, Rets: []string{"named"}})
	add(c11Cell{Args: []string{"namedstr"}, Rets: []string{"int"}})
	add(c11Cell{Args: []string{"int", "named"}})
	add(c11Cell{Args: []string{"int", "string"}, Rets: []string{"int"}})
	add(c11Cell{Args: []string{"int8", "uint16"}, Rets: []string{"float64"}})
	add(c11Cell{Args: []string{"bool", "float32"}, Rets: []string{"string"}})
	add(c11Cell{Args: []string{"int", "int", "int"}, Rets: []string{"int"}})
	add(c11Cell{Args: []string{"uint8", "string", "float64"}})
	add(c11Cell{Args: []string{"string", "int64", "bool"}, Rets: []string{"uint32"}})
	add(c11Cell{Args: []string{"int"}, Rets: []string{"int", "int"}})
	add(c11Cell{Args: []string{"string", "int16"}, Rets: []string{"int16", "string"}})
	add(c11Cell{Args: []string{"float64", "uint8", "string"}, Rets: []string{"complex128", "float64"}})
	add(c11Cell{Args: []string{"int", "int", "int"}, Rets: []string{"int"}, Variadic: true})
	add(c11Cell{Args: []string{"int", "int", "int"}, Rets: []string{"int"}, Variadic: true, Slice: true})
	add(c11Cell{Args: []string{"int", "int", "int"}, Variadic: true})
	return
}

// c11Compatible: can the model record be carried by the cell's kinds?
func c11Compatible(rec *c11Rec, cell c11Cell) bool {
	if rec.N != len(cell.Args) || rec.Ret != (len(cell.Rets) > 0) {
		return false
	}
	for i, k := range cell.Args {
		if k == "bool" && rec.A[i] > 1 {
			return false
		}
	}
	if len(cell.Rets) > 0 && cell.Rets[0] == "bool" && num(mustIface(rec.Res)) > 1 {
		return false
	}
	if len(cell.Rets) > 1 && cell.Rets[1] == "bool" && rec.A[0] > 1 {
		return false
	}
	return true
}

func mustIface(raw json.RawMessage) interface{} {
	var x interface{}
	json.Unmarshal(raw, &x)
	return x
}

func c11RenderApply(rec *c11Rec, raw []byte, cell c11Cell, variant int) *ProgCase {
	entry := "c11h.Apply"
	if rec.Par > 0 {
		entry = "c11h.ParApply"
	} else if cell.Slice {
		entry = "c11h.ApplySlice"
	}
	shape := "apply"
	pc, sfx := c11NewCase(rec, raw, variant, cell.Name, entry, c11CellSig(cell), shape)
	name := "af" + sfx
	res := num(mustIface(rec.Res))
	// parameters and their int views
	var params, views, evargs []string
	for i, k := range cell.Args {
		if cell.Variadic && i >= 1 {
			views = append(views, fmt.Sprintf("xs[%d]", i-1))
			continue
		}
		params = append(params, fmt.Sprintf("p%d %s", i, c11TypeName(k)))
		views = append(views, c11From(k, fmt.Sprintf("p%d", i)))
		evargs = append(evargs, fmt.Sprintf("p%d", i))
	}
	if cell.Variadic {
		params = append(params, "xs ...int")
		evargs = append(evargs, "xs")
	}
	expr := "7"
	switch rec.Fn {
	case "one":
		expr = "1"
	case "arg1":
		expr = views[0]
	case "arg2":
		expr = views[1]
	case "arg3":
		expr = views[2]
	case "wsum":
		var terms []string
		w := 1
		for _, v := range views {
			terms = append(terms, fmt.Sprintf("%d*%s", w, v))
			w *= 4
		}
		expr = strings.Join(terms, " + ")
	}
	var rts, rvals []string
	for i, k := range cell.Rets {
		rts = append(rts, c11TypeName(k))
		if i == 0 {
			rvals = append(rvals, c11To(k, expr))
		} else {
			rvals = append(rvals, c11To(k, views[0])) // second result echoes the first argument
		}
	}
	rtype := ""
	if len(rts) == 1 {
		rtype = " " + rts[0]
	} else if len(rts) > 1 {
		rtype = " (" + strings.Join(rts, ", ") + ")"
	}
	body := ""
	if rec.Par == 0 {
		body = "ev(" + strings.Join(append([]string{`"f"`}, evargs...), ", ") + "); "
	}
	if len(rvals) > 0 {
		body += "return " + strings.Join(rvals, ", ")
	} else if rec.Par > 0 {
		body += "sink" + sfx + " = " + expr // keep the arguments alive without logging
	}
	sig := "(" + strings.Join(params, ", ") + ")" + rtype
	if variant%2 == 0 {
		pc.Decls = fmt.Sprintf("func %s%s { %s }\n", name, sig, body)
	} else {
		pc.Decls = fmt.Sprintf("var %s = func%s { %s }\n", name, sig, body)
	}
	if len(rvals) == 0 && rec.Par > 0 {
		pc.Decls = "var sink" + sfx + " int\n" + pc.Decls
	}
	// the call
	var cargs []string
	var shown []interface{}
	for i, k := range cell.Args {
		if cell.Variadic && i >= 1 {
			if !cell.Slice {
				cargs = append(cargs, strconv.Itoa(rec.A[i]))
			}
			continue
		}
		cargs = append(cargs, c11To(k, strconv.Itoa(rec.A[i])))
		shown = append(shown, c11KindVal(k, rec.A[i]))
	}
	if cell.Variadic {
		rest := rec.A[1:]
		if cell.Slice {
			cargs = append(cargs, "[]int{"+c11IntList(rest)+"}")
		}
		shown = append(shown, append([]int{}, rest...))
	}
	var rshown []interface{}
	for i, k := range cell.Rets {
		if i == 0 {
			rshown = append(rshown, c11KindVal(k, res))
		} else {
			rshown = append(rshown, c11KindVal(k, rec.A[0]))
		}
	}
	if rshown == nil {
		rshown = []interface{}{}
	}
	fn := map[string]string{"c11h.Apply": "c11h.Apply(", "c11h.ApplySlice": "c11h.ApplySlice(", "c11h.ParApply": fmt.Sprintf("c11h.ParApply(%d, ", rec.Par)}[entry]
	pc.Entry = fn + strings.Join(append([]string{name}, cargs...), ", ") + ")"
	if rec.Par > 0 {
		outs := make([][]interface{}, rec.Par)
		for i := range outs {
			outs[i] = rshown
		}
		pc.WantResult = show.Vals(outs)
	} else {
		pc.WantEvents = []string{c11Ev(append([]interface{}{"f"}, shown...)...)}
		pc.WantResult = show.Vals(rshown)
	}
	return pc
}

package props

import (
	"encoding/json"
	"fmt"
	"strings"

	"verif/harness/gate"
)

// C09 records emitted by spec/sem/Selector.tla and their rendering as Go source.
// The renderer only prints what the record says: type and method declarations, one constructor
// per type whose literal carries the instance tags of the record's tag table, and one closure
// expression per site. Expected values / events / compile-error classes come from the record.

type c09Ev struct {
	T int    `json:"t"`
	N string `json:"n"`
	V int    `json:"v"`
}

type c09Out struct {
	K   string  `json:"k"` // ok | cerr | panic
	Why string  `json:"why"`
	Ev  []c09Ev `json:"ev"`
	Val int     `json:"val"`
}

type c09Lbl struct {
	K string `json:"k"` // T | nil | default
	T int    `json:"t"`
	P bool   `json:"p"`
}

type c09Site struct {
	K    string          `json:"k"`
	Via  string          `json:"via,omitempty"`
	R    int             `json:"r"`
	N    string          `json:"n,omitempty"`
	Nk   string          `json:"nk,omitempty"`
	Rf   string          `json:"rf,omitempty"`
	Sh   json.RawMessage `json:"sh,omitempty"`
	Mut  bool            `json:"mut,omitempty"`
	Mp   []int           `json:"mp,omitempty"`
	Star bool            `json:"star,omitempty"`
	Dptr bool            `json:"dptr,omitempty"`
	Ifc  []string        `json:"ifc,omitempty"`
	St   []string        `json:"st,omitempty"`
	W    int             `json:"w"`
	Wp   bool            `json:"wp,omitempty"`
	Form string          `json:"form,omitempty"`
	Lim  string          `json:"lim,omitempty"`
	Dyn  *c09Lbl         `json:"dyn,omitempty"`
	Cls  [][]c09Lbl      `json:"cls,omitempty"`
	Bind bool            `json:"bind,omitempty"`
	X    c09Out          `json:"x"`
}

type c09Type struct {
	F  []string          `json:"f"`
	M  map[string]string `json:"m"`
	E  []string          `json:"e"`
	Rf string            `json:"rf"`
	Mt map[string]int    `json:"mt"`
}

type c09Tag struct {
	P []int  `json:"p"`
	F string `json:"f"`
	V int    `json:"v"`
}

type c09Rec struct {
	Nt    int        `json:"nt"`
	Size  int        `json:"size"`
	Types []c09Type  `json:"types"`
	Tags  []c09Tag   `json:"tags"`
	Cl    [][]c09Lbl `json:"cl"`
	Sites []c09Site  `json:"sites"`
}

var c09MethSeq = []string{"M", "N"}

// canonical text of the hierarchy (distinctness key)
func (rec *c09Rec) key() string {
	var b strings.Builder
	for _, t := range rec.Types {
		fmt.Fprintf(&b, "%s|%s%s|%s;", strings.Join(t.F, ""), t.M["M"], t.M["N"], strings.Join(t.E, ""))
	}
	for _, c := range rec.Cl {
		b.WriteByte('[')
		for _, l := range c09SortLbls(c) {
			fmt.Fprintf(&b, "%s%d%v,", l.K, l.T, l.P)
		}
		b.WriteByte(']')
	}
	return b.String()
}

func c09SortLbls(c []c09Lbl) []c09Lbl {
	out := append([]c09Lbl(nil), c...)
	less := func(a, b c09Lbl) bool {
		if a.K != b.K {
			return a.K < b.K
		}
		if a.T != b.T {
			return a.T < b.T
		}
		return !a.P && b.P
	}
	for i := 1; i < len(out); i++ {
		for j := i; j > 0 && less(out[j], out[j-1]); j-- {
			out[j], out[j-1] = out[j-1], out[j]
		}
	}
	return out
}

func (rec *c09Rec) nontrivial() bool {
	for _, t := range rec.Types {
		for _, e := range t.E {
			if e != "-" {
				return true
			}
		}
		for _, m := range t.M {
			if m != "-" {
				return true
			}
		}
	}
	return false
}

// c09Mode is the rendering of one hierarchy; it never changes what Go prescribes.
type c09Mode struct {
	Sfx      string `json:"sfx"`
	Std      bool   `json:"std"`       // M is String() string, N is Error() string; interfaces are fmt.Stringer / error
	EmbFirst bool   `json:"emb_first"` // embedded fields are written before the own fields
	// REPL staging (stale lookup caches): method StageN of type StageT is declared only after
	// every site has been evaluated once; -1 = everything is declared up front
	StageT int    `json:"stage_t"`
	StageN string `json:"stage_n"`
}

type c09Rend struct {
	rec  *c09Rec
	mode c09Mode
	tags map[string]int
}

func c09NewRend(rec *c09Rec, mode c09Mode) *c09Rend {
	r := &c09Rend{rec: rec, mode: mode, tags: map[string]int{}}
	for _, t := range rec.Tags {
		r.tags[fmt.Sprint(t.P)+t.F] = t.V
	}
	return r
}

func (r *c09Rend) tn(u int) string { return fmt.Sprintf("T%d%s", u, r.mode.Sfx) }

// nm renders a member name; in the std rendering M / N become String / Error everywhere
func (r *c09Rend) nm(n string) string {
	if r.mode.Std {
		switch n {
		case "M":
			return "String"
		case "N":
			return "Error"
		}
	}
	return n
}

func (r *c09Rend) selName(n string) string {
	if len(n) == 2 && n[0] == 'T' && n[1] >= '0' && n[1] <= '9' {
		return r.tn(int(n[1] - '0'))
	}
	return r.nm(n)
}

func (r *c09Rend) mret() string {
	if r.mode.Std {
		return "string"
	}
	return "int"
}

func (r *c09Rend) iface(ifc []string) string {
	if len(ifc) == 0 {
		return "interface{}"
	}
	if r.mode.Std && len(ifc) == 1 {
		if ifc[0] == "M" {
			return "fmt.Stringer"
		}
		return "error"
	}
	return "I" + strings.Join(ifc, "") + r.mode.Sfx
}

func (r *c09Rend) lit(path []int) string {
	u := path[len(path)-1]
	t := r.rec.Types[u]
	var parts []string
	for _, f := range t.F {
		parts = append(parts, fmt.Sprintf("%s: %d", r.nm(f), r.tags[fmt.Sprint(path)+f]))
	}
	for w, m := range t.E {
		if m == "-" {
			continue
		}
		sub := r.lit(append(append([]int(nil), path...), w))
		if m == "p" {
			sub = "&" + sub
		}
		parts = append(parts, r.tn(w)+": "+sub)
	}
	return r.tn(u) + "{" + strings.Join(parts, ", ") + "}"
}

type c09Decl struct {
	Src string
	T   int    // for a method declaration: its type and name
	N   string // "" for everything else
}

// decls lists the declarations one by one (they are evaluated one at a time, REPL style, so
// that gomacro's out-of-order declaration sorting is not involved).
func (r *c09Rend) decls() []c09Decl {
	var out []c09Decl
	for u, t := range r.rec.Types {
		var own, emb []string
		for _, f := range t.F {
			own = append(own, r.nm(f)+" int")
		}
		for w, m := range t.E {
			switch m {
			case "v":
				emb = append(emb, r.tn(w))
			case "p":
				emb = append(emb, "*"+r.tn(w))
			}
		}
		fs := append(own, emb...)
		if r.mode.EmbFirst {
			fs = append(emb, own...)
		}
		out = append(out, c09Decl{Src: fmt.Sprintf("type %s struct { %s }", r.tn(u), strings.Join(fs, "; "))})
	}
	for u, t := range r.rec.Types {
		for _, n := range c09MethSeq {
			m := t.M[n]
			if m == "-" || m == "" {
				continue
			}
			recv := r.tn(u)
			if m == "p" {
				recv = "*" + recv
			}
			arg := ""
			if t.Rf != "" {
				arg = ", x." + r.nm(t.Rf)
			}
			ret := fmt.Sprint(t.Mt[n])
			if r.mode.Std {
				ret = fmt.Sprintf("\"t%d\"", t.Mt[n])
			}
			out = append(out, c09Decl{T: u, N: n, Src: fmt.Sprintf("func (x %s) %s() %s { ev(\"T%d.%s\"%s); return %s }",
				recv, r.nm(n), r.mret(), u, n, arg, ret)})
		}
	}
	sig := func(n string) string { return r.nm(n) + "() " + r.mret() }
	if !r.mode.Std {
		out = append(out, c09Decl{Src: fmt.Sprintf("type IM%s interface { %s }", r.mode.Sfx, sig("M"))})
		out = append(out, c09Decl{Src: fmt.Sprintf("type IN%s interface { %s }", r.mode.Sfx, sig("N"))})
	}
	out = append(out, c09Decl{Src: fmt.Sprintf("type IMN%s interface { %s; %s }", r.mode.Sfx, sig("M"), sig("N"))})
	for u := range r.rec.Types {
		out = append(out, c09Decl{Src: fmt.Sprintf("func new%d%s() %s { return %s }", u, r.mode.Sfx, r.tn(u), r.lit([]int{u}))})
	}
	return out
}

func (r *c09Rend) typeExpr(w int, p bool) string {
	if p {
		return "*" + r.tn(w)
	}
	return r.tn(w)
}

// site renders one site as an expression; isStr tells whether its value is a method result of
// the std rendering (a string "t<tag>") instead of an int.
func (r *c09Rend) site(s *c09Site) (src string, isStr bool) {
	R := r.tn(s.R)
	newR := fmt.Sprintf("new%d%s()", s.R, r.mode.Sfx)
	newv := "v := " + newR + "; "
	ret := "int"
	body := ""
	vsrc := func(ptr bool) string {
		if ptr {
			return "&v"
		}
		return "v"
	}
	switch s.K {
	case "sel":
		recv, pre := "v", newv
		switch s.Via {
		case "ptr":
			pre += "p := &v; "
			recv = "p"
		case "rval":
			pre = ""
			recv = newR
		}
		name := r.selName(s.N)
		switch {
		case s.X.K == "cerr" && s.X.Why == "ptrmethod":
			ret = r.mret()
			body = pre + "return " + recv + "." + name + "()"
		case s.X.K == "cerr":
			body = pre + "_ = " + recv + "." + name + "; return 0"
		case s.Nk == "field":
			body = pre + "return " + recv + "." + name
		case s.Nk == "embed":
			if s.Rf != "" {
				body = pre + "return " + recv + "." + name + "." + r.nm(s.Rf)
			} else {
				body = pre + "_ = " + recv + "." + name + "; return 1"
			}
		default:
			ret = r.mret()
			body = pre + "return " + recv + "." + name + "()"
		}
	case "mval":
		ret = r.mret()
		recv, pre := "v", newv
		if s.Via == "ptr" {
			pre += "p := &v; "
			recv = "p"
		}
		body = pre + "f := " + recv + "." + r.nm(s.N) + "; "
		if s.Mut {
			lhs := "v"
			for _, u := range s.Mp[1:] {
				lhs += "." + r.tn(u)
			}
			body += lhs + "." + r.nm(s.Rf) + " = 7777; "
		}
		body += "return f()"
	case "mexpr":
		switch {
		case s.X.K == "cerr" && s.Star:
			// the method expression alone (a call could be rejected for its argument instead)
			body = "f := (*" + R + ")." + r.nm(s.N) + "; _ = f; return 0"
		case s.X.K == "cerr":
			body = "f := " + R + "." + r.nm(s.N) + "; _ = f; return 0"
		case s.Star:
			ret = r.mret()
			body = newv + "return (*" + R + ")." + r.nm(s.N) + "(&v)"
		default:
			ret = r.mret()
			body = newv + "return " + R + "." + r.nm(s.N) + "(v)"
		}
	case "iface":
		ret = r.mret()
		body = newv + "var i " + r.iface(s.Ifc) + " = " + vsrc(s.Dptr) + "; return i." + r.nm(s.N) + "()"
	case "iface-compiled":
		// the interpreted value travels as an error into compiled code, which calls Error()
		ret = "string"
		body = newv + "var i error = " + vsrc(s.Dptr) + "; return (&os.PathError{Op: \"o\", Path: \"p\", Err: i}).Error()"
	case "assert":
		X := r.typeExpr(s.W, s.Wp)
		pre := newv + "var e " + r.iface(s.St) + " = " + vsrc(s.Dptr) + "; "
		switch {
		case s.Form == "one" && s.Rf != "":
			body = pre + "return e.(" + X + ")." + r.nm(s.Rf)
		case s.Form == "one":
			body = pre + "_ = e.(" + X + "); return 1"
		case s.Rf != "":
			body = pre + "if y, ok := e.(" + X + "); ok { return y." + r.nm(s.Rf) + " }; return 0"
		default:
			body = pre + "if _, ok := e.(" + X + "); ok { return 1 }; return 0"
		}
	case "aiface":
		body = newv + "var e interface{} = " + vsrc(s.Dptr) + "; if _, ok := e.(" + r.iface(s.Ifc) + "); ok { return 1 }; return 0"
	case "tswitch":
		pre := "var e " + r.iface(s.St) + "; "
		if s.Dyn.K != "nil" {
			pre = newv + "var e " + r.iface(s.St) + " = " + vsrc(s.Dyn.P) + "; "
		}
		sw := "switch e.(type) { "
		if s.Bind {
			sw = "switch y := e.(type) { "
		}
		for b, clause := range s.Cls {
			var labels []string
			isDefault := false
			for _, l := range clause {
				switch l.K {
				case "default":
					isDefault = true
				case "nil":
					labels = append(labels, "nil")
				default:
					labels = append(labels, r.typeExpr(l.T, l.P))
				}
			}
			if isDefault {
				sw += "default: "
			} else {
				sw += "case " + strings.Join(labels, ", ") + ": "
			}
			val := (b + 1) * 100000
			switch {
			case s.Bind && len(clause) == 1 && clause[0].K == "T" && r.rec.Types[clause[0].T].Rf != "":
				sw += fmt.Sprintf("return %d + y.%s; ", val, r.nm(r.rec.Types[clause[0].T].Rf))
			case s.Bind:
				sw += fmt.Sprintf("_ = y; return %d; ", val)
			default:
				sw += fmt.Sprintf("return %d; ", val)
			}
		}
		body = pre + sw + "}; return 0"
	}
	return "(func() " + ret + " { " + body + " })()", ret == "string"
}

// want renders the observation the record expects for an "ok" site.
func (r *c09Rend) want(s *c09Site) (events []string, result string) {
	events = []string{}
	for _, e := range s.X.Ev {
		ev := fmt.Sprintf("string:\"T%d.%s\"", e.T, e.N)
		if e.V != 0 {
			ev += fmt.Sprintf(" int:%d", e.V)
		}
		events = append(events, ev)
	}
	_, isStr := r.site(s)
	switch {
	case s.K == "iface-compiled":
		result = fmt.Sprintf("[string:\"o p: t%d\"]", s.X.Val)
	case isStr:
		result = fmt.Sprintf("[string:\"t%d\"]", s.X.Val)
	default:
		result = fmt.Sprintf("[int:%d]", s.X.Val)
	}
	return
}

// derived adds the sites that are renderings of a record site in the std mode: an error value
// used by compiled code.
func (r *c09Rend) derived(s *c09Site) *c09Site {
	if r.mode.Std && s.K == "iface" && s.X.K == "ok" && len(s.Ifc) == 1 && s.Ifc[0] == "N" {
		d := *s
		d.K = "iface-compiled"
		return &d
	}
	return nil
}

const c09GateHelper = `
func c09site(i int, f func() interface{}) {
	defer func() {
		if r := recover(); r != nil {
			ev("#", i, "panic")
		}
	}()
	v := f()
	ev("#", i, v)
}
`

func (r *c09Rend) gateImports() ([]string, string) {
	if r.mode.Std {
		return []string{"fmt", "os"}, "var _ = fmt.Sprint\nvar _ os.FileMode\n"
	}
	return nil, ""
}

func (r *c09Rend) declText() string {
	var b strings.Builder
	for _, d := range r.decls() {
		b.WriteString(d.Src)
		b.WriteByte('\n')
	}
	return b.String()
}

// gateMain builds the native program that evaluates the given non-compile-error sites.
func (r *c09Rend) gateMain(sites []*c09Site) gate.Prog {
	imps, keep := r.gateImports()
	var st strings.Builder
	for i, s := range sites {
		src, _ := r.site(s)
		fmt.Fprintf(&st, "\tc09site(%d, func() interface{} { return %s })\n", i, src)
	}
	return gate.Prog{Imports: imps, Decls: keep + r.declText() + c09GateHelper, Stmt: st.String()}
}

// gateCerr builds the native program whose only questionable part is one site.
func (r *c09Rend) gateCerr(s *c09Site) gate.Prog {
	imps, keep := r.gateImports()
	src, _ := r.site(s)
	return gate.Prog{Imports: imps, Decls: keep + r.declText(), Entry: src}
}

// c09ParseGate splits the event log of a gateMain run into per-site observations.
func c09ParseGate(o gate.Out, n int) (events [][]string, results []string, ok bool) {
	events = make([][]string, n)
	results = make([]string, n)
	cur := []string{}
	seen := 0
	for _, e := range o.Events {
		if strings.HasPrefix(e, "string:\"#\" int:") {
			var i int
			rest := e[len("string:\"#\" int:"):]
			k := strings.IndexByte(rest, ' ')
			if k < 0 {
				return nil, nil, false
			}
			fmt.Sscanf(rest[:k], "%d", &i)
			if i < 0 || i >= n {
				return nil, nil, false
			}
			val := rest[k+1:]
			if val == "string:\"panic\"" {
				results[i] = "panic"
			} else {
				results[i] = "[" + val + "]"
			}
			events[i] = cur
			cur = []string{}
			seen++
			continue
		}
		cur = append(cur, e)
	}
	return events, results, seen == n
}

package props

import (
	"fmt"

	"verif/harness/show"
)

// Native gate of the MODEL for C08: every TLC record is executed operation by operation with
// compiled Go's own operators (this file is compiled Go: append, copy, slicing, indexing, map
// and struct operations below ARE the reference semantics) on element kind int, and every
// logged observation, panic class and the final dump are compared with the record. A
// disagreement is a defect of Heap.tla: the record is dropped (c.Gate(false)), never judged on
// the interpreter. The rendered programs (other element kinds, syntactic forms) are gated
// separately by compiling a covering subset (c08gate.go).

type c08NU struct {
	Y int
	Z [2]int
}
type c08NT struct {
	X  int
	In c08NU
}

type c08Native struct {
	s   [][]int
	a   [][3]int
	pa  *[3]int
	pe  *int
	m   []map[int]int
	t   []c08NT
	pt  *c08NT
	str []string
}

func c08eqInts(a, b []int) bool {
	if len(a) != len(b) {
		return false
	}
	for i := range a {
		if a[i] != b[i] {
			return false
		}
	}
	return true
}

func (n *c08Native) step(o *c08Op) (res []int, err string) {
	hdr := func(x []int, cu int) []int {
		if cu == 1 {
			// capacity unspecified: report the model's lower bound if the real one satisfies it
			if cap(x) >= o.R[1] {
				return []int{len(x), o.R[1], 1}
			}
			return []int{len(x), cap(x), 1}
		}
		return []int{len(x), cap(x), 0}
	}
	cuOf := func() int {
		if len(o.R) == 3 {
			return o.R[2]
		}
		return 0
	}
	tp := func(c c08Ref) *c08NT {
		if c.T == "pt" {
			return n.pt
		}
		return &n.t[c.N]
	}
	switch o.Op {
	case "mk":
		i, j := o.I, o.J
		n.s[o.D.N] = make([]int, i, j)
		return hdr(n.s[o.D.N], 0), ""
	case "lit":
		x := make([]int, 0, len(o.Vs))
		x = append(x, o.Vs...)
		n.s[o.D.N] = x[:len(o.Vs):len(o.Vs)]
		return hdr(n.s[o.D.N], 0), ""
	case "nil":
		n.s[o.D.N] = nil
		return hdr(n.s[o.D.N], 0), ""
	case "idxr":
		i := o.I
		switch o.C.T {
		case "s":
			return []int{n.s[o.C.N][i]}, ""
		case "a":
			return []int{n.a[o.C.N][i]}, ""
		}
		return []int{n.pa[i]}, ""
	case "idxw":
		i := o.I
		v := 0
		if len(o.Vs) > 0 {
			v = o.Vs[0]
		}
		switch o.C.T {
		case "s":
			n.s[o.C.N][i] = v
		case "a":
			n.a[o.C.N][i] = v
		default:
			n.pa[i] = v
		}
		return nil, ""
	case "addr":
		i := o.I
		switch o.C.T {
		case "s":
			n.pe = &n.s[o.C.N][i]
		case "a":
			n.pe = &n.a[o.C.N][i]
		default:
			n.pe = &n.pa[i]
		}
		return nil, ""
	case "per":
		return []int{*n.pe}, ""
	case "pew":
		v := 0
		if len(o.Vs) > 0 {
			v = o.Vs[0]
		}
		*n.pe = v
		return nil, ""
	case "penil":
		n.pe = nil
		return nil, ""
	case "sl2":
		i, j := o.I, o.J
		switch o.C.T {
		case "s":
			n.s[o.D.N] = n.s[o.C.N][i:j]
		case "a":
			n.s[o.D.N] = n.a[o.C.N][i:j]
		default:
			n.s[o.D.N] = n.pa[i:j]
		}
		return hdr(n.s[o.D.N], cuOf()), ""
	case "sl3":
		i, j, k := o.I, o.J, o.K
		switch o.C.T {
		case "s":
			n.s[o.D.N] = n.s[o.C.N][i:j:k]
		case "a":
			n.s[o.D.N] = n.a[o.C.N][i:j:k]
		default:
			n.s[o.D.N] = n.pa[i:j:k]
		}
		return hdr(n.s[o.D.N], cuOf()), ""
	case "app":
		n.s[o.D.N] = append(n.s[o.C.N], o.Vs...)
		return hdr(n.s[o.D.N], cuOf()), ""
	case "apps":
		n.s[o.D.N] = append(n.s[o.C.N], n.s[o.I]...)
		return hdr(n.s[o.D.N], cuOf()), ""
	case "copy":
		return []int{copy(n.s[o.D.N], n.s[o.C.N])}, ""
	case "range":
		wr := len(o.Vs) > 0
		switch o.C.T {
		case "s":
			x := n.s[o.C.N]
			for ii, e := range x {
				if wr && ii == 0 {
					x[len(x)-1] = o.Vs[0]
				}
				res = append(res, ii, e)
			}
		case "a":
			for ii, e := range n.a[o.C.N] {
				if wr && ii == 0 {
					n.a[o.C.N][len(n.a[o.C.N])-1] = o.Vs[0]
				}
				res = append(res, ii, e)
			}
		default:
			for ii, e := range n.pa {
				if wr && ii == 0 {
					n.pa[len(n.pa)-1] = o.Vs[0]
				}
				res = append(res, ii, e)
			}
		}
		return res, ""
	case "alit":
		var x [3]int
		copy(x[:], o.Vs)
		n.a[o.D.N] = x
		return nil, ""
	case "aasg":
		if o.C.T == "pa" {
			n.a[o.D.N] = *n.pa
		} else {
			n.a[o.D.N] = n.a[o.C.N]
		}
		return nil, ""
	case "pstore":
		*n.pa = n.a[o.C.N]
		return nil, ""
	case "pass":
		switch o.F {
		case "val":
			y := func(x [3]int, v int) int { x[0] = v; return x[0] }(n.a[o.C.N], o.Vs[0])
			return []int{y, n.a[o.C.N][0]}, ""
		case "ptr":
			y := func(x *[3]int, v int) int { x[0] = v; return x[0] }(&n.a[o.C.N], o.Vs[0])
			return []int{y, n.a[o.C.N][0]}, ""
		}
		y := func(x []int, v1, v2 int, app bool) int {
			if len(x) > 0 {
				x[0] = v1
			}
			if app {
				x = append(x, v2)
			}
			return len(x)
		}(n.s[o.C.N], o.Vs[0], o.Vs[1], o.F == "slapp")
		return []int{y}, ""
	case "paset":
		switch o.F {
		case "nil":
			n.pa = nil
		case "addr":
			n.pa = &n.a[o.C.N]
		case "new":
			n.pa = new([3]int)
		default:
			n.pa = &[3]int{o.Vs[0], o.Vs[1], o.Vs[2]}
		}
		return nil, ""
	case "mmake":
		n.m[o.D.N] = make(map[int]int)
		return []int{len(n.m[o.D.N])}, ""
	case "mlit":
		mm := map[int]int{}
		for k, v := range o.Vs {
			mm[k] = v
		}
		n.m[o.D.N] = mm
		return []int{len(mm)}, ""
	case "mnil":
		n.m[o.D.N] = nil
		return []int{len(n.m[o.D.N])}, ""
	case "malias":
		n.m[o.D.N] = n.m[o.C.N]
		return nil, ""
	case "mset":
		v := 0
		if len(o.Vs) > 0 {
			v = o.Vs[0]
		}
		n.m[o.C.N][o.I] = v
		return []int{len(n.m[o.C.N])}, ""
	case "mget":
		if o.F == "ok" {
			v, ok := n.m[o.C.N][o.I]
			b := 0
			if ok {
				b = 1
			}
			return []int{v, b}, ""
		}
		return []int{n.m[o.C.N][o.I]}, ""
	case "mdel":
		delete(n.m[o.C.N], o.I)
		return []int{len(n.m[o.C.N])}, ""
	case "stlit":
		switch o.F {
		case "partial":
			n.t[o.D.N] = c08NT{In: c08NU{Y: o.Vs[0]}}
		default:
			n.t[o.D.N] = c08NT{o.Vs[0], c08NU{o.Vs[1], [2]int{o.Vs[2], o.Vs[3]}}}
		}
		return nil, ""
	case "stasg":
		n.t[o.D.N] = *tp(o.C)
		return nil, ""
	case "ptstore":
		*n.pt = n.t[o.C.N]
		return nil, ""
	case "fldw":
		v := 0
		if len(o.Vs) > 0 {
			v = o.Vs[0]
		}
		i := o.I
		switch o.F {
		case "x":
			tp(o.C).X = v
		case "y":
			tp(o.C).In.Y = v
		default:
			tp(o.C).In.Z[i] = v
		}
		return nil, ""
	case "fldr":
		i := o.I
		switch o.F {
		case "x":
			return []int{tp(o.C).X}, ""
		case "y":
			return []int{tp(o.C).In.Y}, ""
		}
		return []int{tp(o.C).In.Z[i]}, ""
	case "ptset":
		switch o.F {
		case "nil":
			n.pt = nil
		case "addr":
			n.pt = &n.t[o.C.N]
		case "new":
			n.pt = new(c08NT)
		default:
			n.pt = &c08NT{X: o.Vs[0]}
		}
		return nil, ""
	case "passt":
		if o.F == "val" {
			y := func(x c08NT, v int) int { x.In.Y = v; return x.In.Y }(n.t[o.C.N], o.Vs[0])
			return []int{y, n.t[o.C.N].In.Y}, ""
		}
		y := func(x *c08NT, v int) int { x.In.Y = v; return x.In.Y }(&n.t[o.C.N], o.Vs[0])
		return []int{y, n.t[o.C.N].In.Y}, ""
	case "strlit":
		b := make([]byte, len(o.Vs))
		for k, v := range o.Vs {
			b[k] = byte(v)
		}
		n.str[o.D.N] = string(b)
		return []int{len(b)}, ""
	case "stridx":
		i := o.I
		return []int{int(n.str[o.C.N][i])}, ""
	case "strsl":
		i, j := o.I, o.J
		n.str[o.D.N] = n.str[o.C.N][i:j]
		return []int{len(n.str[o.D.N])}, ""
	case "strcat":
		n.str[o.D.N] = n.str[o.C.N] + n.str[o.I]
		return []int{len(n.str[o.D.N])}, ""
	case "strrange":
		for ii, ch := range n.str[o.C.N] {
			res = append(res, ii, int(ch))
		}
		return res, ""
	}
	return nil, "unknown operation " + o.Op
}

// safeStep runs one operation, converting a run-time panic to its class
func (n *c08Native) safeStep(o *c08Op) (res []int, class string, err string) {
	defer func() {
		if r := recover(); r != nil {
			if e, ok := r.(error); ok {
				class = show.PanicClass(e.Error())
			} else {
				class = fmt.Sprint(r)
			}
		}
	}()
	res, err = n.step(o)
	return
}

// checkSA compares what Go sees through every slice and array variable with the model's log
func (n *c08Native) checkSA(where string, sl []c08SliceDump, arrs [][]int) string {
	for k, sd := range sl {
		x := n.s[k]
		if (x == nil) != sd.Nil || len(x) != sd.Len {
			return fmt.Sprintf("%s s%d: Go nil=%v len=%d, model nil=%v len=%d", where, k, x == nil, len(x), sd.Nil, sd.Len)
		}
		if sd.Cu {
			if cap(x) < sd.Cap || !c08eqInts(x, sd.V) {
				return fmt.Sprintf("%s s%d: Go cap=%d %v, model cap>=%d %v", where, k, cap(x), x, sd.Cap, sd.V)
			}
		} else if cap(x) != sd.Cap || !c08eqInts(x[:cap(x)], sd.V) {
			return fmt.Sprintf("%s s%d: Go cap=%d %v, model cap=%d %v", where, k, cap(x), x[:cap(x)], sd.Cap, sd.V)
		}
	}
	for k, a := range arrs {
		if !c08eqInts(n.a[k][:], a) {
			return fmt.Sprintf("%s a%d: Go %v, model %v", where, k, n.a[k], a)
		}
	}
	return ""
}

// c08NativeCheck executes the record with compiled Go's operators and compares every logged
// observation and the final dump. It returns "" if the model agrees with Go.
func c08NativeCheck(rec *c08Rec) string {
	d := &rec.Dump
	n := &c08Native{s: make([][]int, len(d.S)), a: make([][3]int, len(d.A)), m: make([]map[int]int, len(d.M)),
		t: make([]c08NT, len(d.T)), str: make([]string, len(d.Str))}
	sameClass := func(a, b string) bool {
		return c08Class("panic("+a+")") == c08Class("panic("+b+")")
	}
	for i := range rec.Hist {
		o := &rec.Hist[i]
		res, class, err := n.safeStep(o)
		if err != "" {
			return err
		}
		if class != "" || o.P != "" {
			if class == "" || o.P == "" || !sameClass(class, o.P) {
				return fmt.Sprintf("operation %d (%s): Go panic class %q, model %q", i, o.Op, class, o.P)
			}
			if i != len(rec.Hist)-1 {
				return fmt.Sprintf("operation %d panics but the history continues", i)
			}
			break
		}
		if !c08eqInts(res, o.R) {
			return fmt.Sprintf("operation %d (%s): Go observes %v, model %v", i, o.Op, res, o.R)
		}
		if len(o.W.S)+len(o.W.A) > 0 {
			if why := n.checkSA(fmt.Sprintf("after operation %d (%s)", i, o.Op), o.W.S, o.W.A); why != "" {
				return why
			}
		}
	}
	// final dump
	if why := n.checkSA("dump", d.S, d.A); why != "" {
		return why
	}
	if len(d.A) > 0 {
		if (n.pa == nil) != (len(d.Pa) == 0) || (n.pa != nil && !c08eqInts(n.pa[:], d.Pa)) {
			return fmt.Sprintf("dump pa: Go %v, model %v", n.pa, d.Pa)
		}
	}
	if (n.pe == nil) != (len(d.Pe) == 0) || (n.pe != nil && *n.pe != d.Pe[0]) {
		return fmt.Sprintf("dump pe: Go nil=%v, model %v", n.pe == nil, d.Pe)
	}
	for k, m := range d.M {
		if (n.m[k] == nil) != d.Mnil[k] {
			return fmt.Sprintf("dump m%d: Go nil=%v, model nil=%v", k, n.m[k] == nil, d.Mnil[k])
		}
		cnt := 0
		for key, v := range m {
			if v >= 0 {
				cnt++
				if got, ok := n.m[k][key]; !ok || got != v {
					return fmt.Sprintf("dump m%d[%d]: Go %v/%v, model %d", k, key, got, ok, v)
				}
			}
		}
		if cnt != len(n.m[k]) {
			return fmt.Sprintf("dump m%d: Go has %d entries, model %d", k, len(n.m[k]), cnt)
		}
	}
	flat := func(t c08NT) []int { return []int{t.X, t.In.Y, t.In.Z[0], t.In.Z[1]} }
	for k, t := range d.T {
		if !c08eqInts(flat(n.t[k]), t) {
			return fmt.Sprintf("dump t%d: Go %v, model %v", k, n.t[k], t)
		}
	}
	if len(d.T) > 0 {
		if (n.pt == nil) != (len(d.Pt) == 0) || (n.pt != nil && !c08eqInts(flat(*n.pt), d.Pt)) {
			return fmt.Sprintf("dump pt: Go %v, model %v", n.pt, d.Pt)
		}
	}
	for k, s := range d.Str {
		b := make([]byte, len(s))
		for i, v := range s {
			b[i] = byte(v)
		}
		if n.str[k] != string(b) {
			return fmt.Sprintf("dump str%d: Go %q, model %q", k, n.str[k], string(b))
		}
	}
	return ""
}

package props

import (
	"encoding/json"
	"fmt"
	"regexp"
	"sort"
	"strconv"
	"strings"
	"sync"
	"sync/atomic"
	"time"

	"github.com/cosmos72/gomacro/fast"
	"github.com/cosmos72/gomacro/gls"
	"github.com/cosmos72/gomacro/imports"

	"verif/harness/c11h"
	"verif/harness/core"
)

// C11: interpreted functions and types interoperate with compiled code like Go values.
// (M) spec/sem/Interop.tla: contracts of the compiled entry points as small-step
//     specifications over a callback log. The sort callee is nondeterministic (any Less/Swap
//     calls in any order, stops when its answers imply sortedness): whenever it stops the
//     slice is a sorted permutation; strings.Map length law; FieldsFunc partition law;
//     reader results independent of chunking and of the way the end is reported (incremental
//     scanner refines the whole-data split); concurrent closure results independent of the
//     schedule. Broken variants (Less on stale contents, data delivered with EOF dropped,
//     counter updated without the mutex) are rejected by TLC.
// (R) every emitted (scenario, inputs, expected log/result) is rendered as Go source, gated
//     against compiled Go and run on the interpreter; the compiled side of the drivers
//     (harness/c11h: reflect-based applicators, goroutine fan-out, variadic / multi-result
//     functions) is importable by interpreted code as package "c11h" and pasted verbatim into
//     the native programs. Specialisation cells: every func{0,1,2}ret{0,1} x kind signature
//     plus the reflect.MakeFunc path is handed to the compiled applicator.
// (V) where the contract is a set (sort.*, strings.FieldsFunc) the RECORDED callback logs are
//     validated by TLC against spec/sem/InteropLaws.tla through InteropTrace.tla; the Go-side
//     admissibility test (model-supplied comparison table and set of admissible results,
//     swaps replayed) must agree with it.
// Concurrent scenarios run with the C33 ownership hook on frame allocation.

func init() {
	imports.Packages["c11h"] = imports.Package{Name: "c11h", Binds: c11h.Binds()}
	core.Register(&core.Prop{
		ID: "C11",
		Rule: "TLC enumerates scenarios over compiled entry points {sort.Sort/Stable/Slice/SliceStable on slices of <=4 keyed elements with duplicate keys, strings.Map, strings.FieldsFunc on strings over {a,b,e-acute}, fmt.Sprint/Sprintln/Sprintf(%v,%s) on operands seen through fmt.Stringer/error (value and pointer receivers), io.ReadAll / bufio.Scanner on an interpreted io.Reader (chunkings x EOF styles), N compiled goroutines calling one closure, multi-result and variadic compiled functions in every call form, a compiled applicator calling an interpreted function} " +
			"with the expected callback log and result (or the admissible set); every func{0,1,2}ret{0,1} x kind signature cell and the reflect.MakeFunc path is rendered at least once; " +
			"non-trivial = at least one interpreted callback/method is invoked by compiled code or a multi-result/variadic compiled call is made; distinct by (scenario record, rendering variant, cell)",
		Run:      runC11,
		Replay:   replayC11,
		SelfTest: selfTestC11,
	})
}

// ---------------------------------------------------------------------------------------
// admissible sets

type c11Shaper func(events []string, result string) string

var c11Adms sync.Map // case key -> c11Shaper

// recorded logs for trace validation
var c11Logs struct {
	mu    sync.Mutex
	seen  map[string]bool
	lines []string
}

func c11Record(line string) {
	c11Logs.mu.Lock()
	if c11Logs.seen == nil {
		c11Logs.seen = map[string]bool{}
	}
	if !c11Logs.seen[line] {
		c11Logs.seen[line] = true
		c11Logs.lines = append(c11Logs.lines, line)
	}
	c11Logs.mu.Unlock()
}

var reC11Int = regexp.MustCompile(`int:(-?\d+)`)

// c11ParseEvent: `string:"less" int:1 int:0 bool:true` -> ["less", 1, 0, true]
func c11ParseEvent(e string) []interface{} {
	var out []interface{}
	for _, f := range strings.Fields(e) {
		switch {
		case strings.HasPrefix(f, "string:"):
			s, err := strconv.Unquote(f[len("string:"):])
			if err != nil {
				return nil
			}
			out = append(out, s)
		case strings.HasPrefix(f, "int:"), strings.HasPrefix(f, "int32:"):
			n, err := strconv.Atoi(f[strings.Index(f, ":")+1:])
			if err != nil {
				return nil
			}
			out = append(out, n)
		case f == "bool:true":
			out = append(out, true)
		case f == "bool:false":
			out = append(out, false)
		default:
			return nil
		}
	}
	return out
}

type c11SortAdm struct {
	rec    *c11Rec
	slice  bool
	stable bool
}

func (a *c11SortAdm) lt(x, y int) bool {
	for _, p := range a.rec.Lt {
		if p[0] == x && p[1] == y {
			return true
		}
	}
	return false
}

// verdict: "" = admissible
func (a *c11SortAdm) verdict(events []string, result string) (string, string) {
	if strings.HasPrefix(result, "panic(") || strings.HasPrefix(result, "declpanic(") {
		return "panics", ""
	}
	n := len(a.rec.In)
	// result: [[int:2 int:1 ...]]
	var final []int
	for _, m := range reC11Int.FindAllStringSubmatch(result, -1) {
		v, _ := strconv.Atoi(m[1])
		final = append(final, v)
	}
	parts := make([]string, len(final))
	for i, v := range final {
		parts[i] = fmt.Sprintf("int:%d", v)
	}
	if len(final) != n || result != "[["+strings.Join(parts, " ")+"]]" {
		return "result-differs", ""
	}
	same := func(p, q []int) bool {
		if len(p) != len(q) {
			return false
		}
		for i := range p {
			if p[i] != q[i] {
				return false
			}
		}
		return true
	}
	okFinal := false
	if a.stable {
		okFinal = same(final, a.rec.Stable)
	} else {
		for _, f := range a.rec.Finals {
			if same(final, f) {
				okFinal = true
			}
		}
	}
	if !okFinal {
		return "result-differs", ""
	}
	// the log; positions become 1-based as in the specification
	cur := make([]int, n)
	for i := range cur {
		cur[i] = i + 1
	}
	var lg [][]interface{}
	inr := func(i int) bool { return i >= 0 && i < n }
	for _, e := range events {
		p := c11ParseEvent(e)
		if len(p) == 0 {
			return "callback-args-differ", ""
		}
		ints := func(k int) ([]int, bool) {
			if len(p) < 1+k {
				return nil, false
			}
			out := make([]int, k)
			for i := 0; i < k; i++ {
				v, ok := p[1+i].(int)
				if !ok {
					return nil, false
				}
				out[i] = v
			}
			return out, true
		}
		switch p[0] {
		case "len":
			v, ok := ints(1)
			if a.slice || !ok || v[0] != n {
				return "callback-args-differ", ""
			}
			lg = append(lg, []interface{}{"len", v[0]})
		case "less":
			v, ok := ints(2)
			if a.slice || !ok || len(p) != 4 || !inr(v[0]) || !inr(v[1]) {
				return "callback-args-differ", ""
			}
			ans, _ := p[3].(bool)
			if ans != a.lt(a.rec.In[cur[v[0]]-1], a.rec.In[cur[v[1]]-1]) {
				return "callback-args-differ", ""
			}
			lg = append(lg, []interface{}{"less", v[0] + 1, v[1] + 1, ans})
		case "swap":
			v, ok := ints(2)
			if a.slice || !ok || !inr(v[0]) || !inr(v[1]) {
				return "callback-args-differ", ""
			}
			cur[v[0]], cur[v[1]] = cur[v[1]], cur[v[0]]
			lg = append(lg, []interface{}{"swap", v[0] + 1, v[1] + 1})
		case "lessS":
			v, ok := ints(4)
			if !a.slice || !ok || len(p) != 6 || !inr(v[0]) || !inr(v[1]) || !inr(v[2]-1) || !inr(v[3]-1) || (v[0] == v[1]) != (v[2] == v[3]) {
				return "callback-args-differ", ""
			}
			ans, _ := p[5].(bool)
			if ans != a.lt(a.rec.In[v[2]-1], a.rec.In[v[3]-1]) {
				return "callback-args-differ", ""
			}
			lg = append(lg, []interface{}{"lessS", v[0] + 1, v[1] + 1, v[2], v[3], ans})
		default:
			return "callback-args-differ", ""
		}
	}
	if !a.slice && !same(cur, final) {
		return "callback-args-differ", ""
	}
	if n >= 2 && len(lg) == 0 {
		return "callback-count-differs", ""
	}
	k := "sort"
	if a.slice {
		k = "slice"
	}
	if lg == nil {
		lg = [][]interface{}{}
	}
	if final == nil {
		final = []int{}
	}
	in := a.rec.In
	if in == nil {
		in = []int{}
	}
	line, _ := json.Marshal(map[string]interface{}{"k": k, "in": in, "ord": a.rec.Ord, "stable": a.stable, "log": lg, "final": final})
	return "", string(line)
}

func (a *c11SortAdm) check(events []string, result string) bool {
	v, line := a.verdict(events, result)
	if v == "" {
		c11Record(line)
	}
	return v == ""
}
func (a *c11SortAdm) shape(events []string, result string) string {
	v, _ := a.verdict(events, result)
	return v
}

type c11FieldsAdm struct {
	rec  *c11Rec
	want string
}

func (a *c11FieldsAdm) verdict(events []string, result string) (string, string) {
	if strings.HasPrefix(result, "panic(") || strings.HasPrefix(result, "declpanic(") {
		return "panics", ""
	}
	if result != a.want {
		return "result-differs", ""
	}
	inS := map[int]bool{}
	for _, r := range a.rec.S {
		inS[r] = true
	}
	seen := map[int]bool{}
	lg := [][]interface{}{}
	for _, e := range events {
		p := c11ParseEvent(e)
		if len(p) != 3 || p[0] != "ff" {
			return "callback-args-differ", ""
		}
		r, ok1 := p[1].(int)
		ans, ok2 := p[2].(bool)
		if !ok1 || !ok2 || !inS[r] || ans != (r == a.rec.Sep) {
			return "callback-args-differ", ""
		}
		seen[r] = true
		lg = append(lg, []interface{}{"ff", r, ans})
	}
	if len(seen) != len(inS) {
		return "callback-count-differs", ""
	}
	s := a.rec.S
	if s == nil {
		s = []int{}
	}
	line, _ := json.Marshal(map[string]interface{}{"k": "fields", "s": s, "sep": a.rec.Sep, "log": lg})
	return "", string(line)
}
func (a *c11FieldsAdm) check(events []string, result string) bool {
	v, line := a.verdict(events, result)
	if v == "" {
		c11Record(line)
	}
	return v == ""
}
func (a *c11FieldsAdm) shape(events []string, result string) string {
	v, _ := a.verdict(events, result)
	return v
}

// ---------------------------------------------------------------------------------------
// signatures

func c11Sig(pc *ProgCase, events []string, result string) string {
	var m c11Meta
	json.Unmarshal(pc.Raw, &m)
	shape := "result-differs"
	if f, ok := c11Adms.Load(pc.Key); ok && pc.Admissible != nil {
		if s := f.(c11Shaper)(events, result); s != "" {
			shape = s
		}
	} else if strings.HasPrefix(result, "panic(") || strings.HasPrefix(result, "declpanic(") {
		shape = "panics"
	} else if len(events) != len(pc.WantEvents) {
		shape = "callback-count-differs"
	} else {
		for i := range events {
			if events[i] != pc.WantEvents[i] {
				shape = "callback-args-differ"
				break
			}
		}
	}
	cb := m.Cb
	if strings.HasPrefix(m.Shape, "fmt/") {
		// the operand whose method call is the first to be missing or different
		if rec := c11Parse(m.Rec); rec != nil {
			i := 0
			for i < len(events) && i < len(pc.WantEvents) && events[i] == pc.WantEvents[i] {
				i++
			}
			if i < len(pc.WantEvents) {
				if p := c11ParseEvent(pc.WantEvents[i]); len(p) == 2 {
					if v, ok := p[1].(int); ok && v >= 1 && v <= len(rec.Ops) {
						cb = c11FmtCb(rec.Ops[v-1])
					}
				}
			}
		}
	}
	return fmt.Sprintf("interop(%s,%s):%s", m.Entry, cb, shape)
}

// ---------------------------------------------------------------------------------------
// rendering dispatch

func c11Render(rec *c11Rec, raw []byte, variant int, cells map[string]c11Cell, cellName string) *ProgCase {
	switch rec.K {
	case "sort":
		return c11RenderSort(rec, raw, variant)
	case "map":
		return c11RenderMap(rec, raw, variant)
	case "fields":
		return c11RenderFields(rec, raw, variant)
	case "fmt":
		return c11RenderFmt(rec, raw, variant)
	case "reader":
		return c11RenderReader(rec, raw, variant)
	case "conc":
		return c11RenderConc(rec, raw, variant)
	case "call":
		return c11RenderCall(rec, raw, variant)
	case "apply":
		cell, ok := cells[cellName]
		if !ok || !c11Compatible(rec, cell) {
			return nil
		}
		return c11RenderApply(rec, raw, cell, variant)
	}
	return nil
}

func c11CellMap() map[string]c11Cell {
	m := map[string]c11Cell{}
	for _, c := range c11Cells() {
		m[c.Name] = c
	}
	return m
}

// ---------------------------------------------------------------------------------------
// TLC configurations

type c11Bounds struct {
	scen        string
	sortLens    string
	keys        string
	explore     string // lengths explored by the nondeterministic callee
	exploreKeys string
	strLens     string
	maxChunks   int
	maxOps      int
	stale, drop bool
	nomutex     bool
	emit        bool
	invs        string
}

const c11Chunks = `c_Chunks == {<<97>>, <<10>>, <<32>>, <<97, 10>>, <<195>>, <<169, 98>>, <<98, 32, 97>>, <<10, 10>>}`

func c11TLC(b c11Bounds, name string) core.TLCOpts {
	t := func(x bool) string { return strings.ToUpper(fmt.Sprint(x)) }
	if b.explore == "" {
		b.explore = "{}"
	}
	if b.exploreKeys == "" {
		b.exploreKeys = "{}"
	}
	defs := fmt.Sprintf("c_Scen == %s\nc_SortLens == %s\nc_StrLens == %s\nc_Explore == %s\n%s\n", b.scen, b.sortLens, b.strLens, b.explore, c11Chunks)
	cfg := fmt.Sprintf("SPECIFICATION Spec\nCONSTANTS\n Scen <- c_Scen\n SortLens <- c_SortLens\n Keys = %s\n SortExplore <- c_Explore\n ExploreKeys = %s\n Alpha = {97, 98, 233}\n StrLens <- c_StrLens\n ChunkSet <- c_Chunks\n MaxChunks = %d\n MaxOps = %d\n ConcN = {1, 2, 3}\n ConcK = {1, 2}\n StaleLess = %s\n DropEOFData = %s\n NoMutex = %s\n EmitOn = %s\nINVARIANTS %s\nVIEW View\n",
		b.keys, b.exploreKeys, b.maxChunks, b.maxOps, t(b.stale), t(b.drop), t(b.nomutex), t(b.emit), b.invs)
	return core.TLCOpts{Spec: "Interop", MCDefs: defs, Cfg: cfg, CfgName: name, Workers: 6, Timeout: 40 * time.Minute}
}

const c11AllScen = `{"sort", "map", "fields", "fmt", "reader", "conc", "call", "apply"}`
const c11Laws = "SortDoneSorted SortLogAdmissible SortPermutation MapLaw FieldsLaw ReaderLaw ConcLaw MutexLaw"

// ---------------------------------------------------------------------------------------
// ownership hook (as C33): every frame allocation must take its frame from a run owned by the
// allocating goroutine

type c11Own struct {
	allocs, bad int64
	mu          sync.Mutex
	first       string
}

func (o *c11Own) install() {
	fast.VerifHooks.Alloc = func(env *fast.Env, run *fast.Run, goid uintptr, runGoid uintptr) {
		atomic.AddInt64(&o.allocs, 1)
		cur := gls.GoID()
		if runGoid != cur || (goid != 0 && goid != cur) {
			if atomic.AddInt64(&o.bad, 1) == 1 {
				o.mu.Lock()
				o.first = fmt.Sprintf("frame allocated on goroutine %#x from a run owned by %#x", cur, runGoid)
				o.mu.Unlock()
			}
		}
	}
}

func (o *c11Own) uninstall() { fast.VerifHooks.Alloc = nil }

// ---------------------------------------------------------------------------------------

func c11PickS(c *core.Ctx, q, t string) string {
	if c.Thorough() {
		return t
	}
	return q
}

func c11PickF(c *core.Ctx, q, t float64) float64 {
	if c.Thorough() {
		return t
	}
	return q
}

func c11Parse(line []byte) *c11Rec {
	var r c11Rec
	if json.Unmarshal(line, &r) != nil || r.K == "" {
		return nil
	}
	return &r
}

func runC11(c *core.Ctx) error {
	// (M)+(R) all contracts, bounded-exhaustive. The nondeterministic sort callee is explored
	// on the inputs of length <= 3 (quick: over two keys); longer inputs are emitted only (the
	// real callee will choose its calls, which are then validated).
	eb := c11Bounds{scen: c11AllScen, sortLens: "0..4", keys: "{0, 1, 2}", explore: "0..3", exploreKeys: c11PickS(c, "{0, 1}", "{0, 1, 2}"),
		strLens: c11PickS(c, "0..3", "0..4"), maxChunks: c.Pick(2, 3), maxOps: c.Pick(2, 3), emit: true, invs: c11Laws + " Emit"}
	phases := map[string]float64{}
	t0 := time.Now()
	lap := func(name string) {
		phases[name] = time.Since(t0).Seconds()
		t0 = time.Now()
		c.Extra["phase_seconds"] = phases
	}
	type item struct {
		rec *c11Rec
		raw []byte
	}
	byK := map[string][]item{}
	var perr error
	o := c11TLC(eb, "contracts-bfs")
	o.OnLine = func(line []byte) {
		r := c11Parse(line)
		if r == nil {
			perr = core.Infra("bad record from Interop.tla: %.200s", line)
			return
		}
		byK[r.K] = append(byK[r.K], item{r, append([]byte(nil), line...)})
	}
	if _, err := c.TLC(o); err != nil {
		return err
	}
	if perr != nil {
		return perr
	}
	lap("tlc_contracts")
	// TLC's workers emit in a nondeterministic order: sort for reproducible selection
	for _, its := range byK {
		sort.Slice(its, func(i, j int) bool { return string(its[i].raw) < string(its[j].raw) })
	}
	seed := uint64(c.Seed)
	pick := func(raw []byte, oneIn uint64) bool {
		return oneIn <= 1 || (c11Hash(string(raw))^(seed*0x9e3779b97f4a7c15))%oneIn == 0
	}
	var must, rest, conc []*ProgCase
	seen := map[string]bool{}
	shapeSeen := map[string]bool{}
	add := func(pc *ProgCase, forceGate bool) {
		if pc == nil || seen[pc.Key] {
			return
		}
		var m c11Meta
		json.Unmarshal(pc.Raw, &m)
		// conversions of a pointer to a type with value-receiver methods (one mechanism,
		// present in a large share of the enumerated records) are sampled thinly
		if strings.Contains(m.Cb, c11RecvValPtr) || strings.Contains(m.Shape, "/valptr") {
			if !pick(pc.Raw, uint64(c.Pick(6, 4))) {
				return
			}
		}
		seen[pc.Key] = true
		first := !shapeSeen[m.Shape]
		shapeSeen[m.Shape] = true
		switch {
		case strings.HasPrefix(m.Shape, "conc/"):
			conc = append(conc, pc)
		case forceGate || first:
			must = append(must, pc) // every rendering shape is gated at least once
		default:
			rest = append(rest, pc)
		}
	}
	q := c.Quick()
	for _, it := range byK["sort"] {
		n := len(it.rec.In)
		if q && n == 4 && !pick(it.raw, 4) {
			continue
		}
		nvar := len(c11SortVariants)
		h := int((c11Hash(string(it.raw)) + seed) % uint64(nvar))
		nv := c.Pick(2, nvar)
		for k := 0; k < nv; k++ {
			add(c11RenderSort(it.rec, it.raw, (h+k*(nvar+1-nv))%nvar), false)
		}
	}
	for _, k := range []string{"map", "fields", "fmt", "reader"} {
		for _, it := range byK[k] {
			h := int((c11Hash(string(it.raw)) + seed) % 6)
			add(c11Render(it.rec, it.raw, h, nil, ""), false)
			if c.Thorough() && k == "map" {
				add(c11Render(it.rec, it.raw, (h+3)%6, nil, ""), false)
			}
		}
	}
	for _, it := range byK["call"] {
		if q && !pick(it.raw, 2) {
			continue
		}
		add(c11RenderCall(it.rec, it.raw, 0), false)
	}
	for _, it := range byK["conc"] {
		add(c11RenderConc(it.rec, it.raw, 0), false)
	}
	// apply: every cell with compatible model records
	cells := c11Cells()
	per := c.Pick(1, 4)
	applies := byK["apply"]
	for ci, cell := range cells {
		uniform := true
		for _, k := range append(append([]string{}, cell.Args...), cell.Rets...) {
			if k != append(append([]string{}, cell.Args...), cell.Rets...)[0] {
				uniform = false
			}
		}
		got, gotPar := 0, 0
		start := int((uint64(ci)*7919 + seed*104729) % uint64(len(applies)+1))
		for j := 0; j < len(applies) && (got < per || gotPar < 1); j++ {
			it := applies[(start+j)%len(applies)]
			if !c11Compatible(it.rec, cell) || (len(cell.Args) > 0 && (it.rec.Fn == "const" || it.rec.Fn == "one")) {
				continue
			}
			// arguments pairwise distinct, so that a permutation cannot go unnoticed
			distinct := true
			for x := 0; x < len(it.rec.A); x++ {
				for y := x + 1; y < len(it.rec.A); y++ {
					if it.rec.A[x] == it.rec.A[y] {
						distinct = false
					}
				}
			}
			if !distinct {
				continue
			}
			if it.rec.Par > 0 {
				// concurrent variant for a sample of the cells
				if gotPar >= 1 || (q && (ci+int(seed))%8 != 0) || cell.Slice {
					continue
				}
				gotPar++
			} else {
				if got >= per {
					continue
				}
				got++
			}
			// the native gate covers every kind in every position once (uniform cells) and
			// every reflect.MakeFunc cell
			force := it.rec.Par == 0 && got == 1 && (uniform || ci >= 613)
			add(c11RenderApply(it.rec, it.raw, cell, (ci+got)%2), force)
		}
		if got == 0 {
			return core.Infra("no model record fits signature cell %s", cell.Name)
		}
	}
	c.Extra["cells"] = len(cells)
	all := append(append(append([]*ProgCase{}, must...), rest...), conc...)
	for i, pc := range all {
		if i%(len(all)/4+1) == 0 {
			c.Sample(map[string]interface{}{"program": pc.Decls, "entry": pc.Entry, "expected_events": pc.WantEvents, "expected_result": pc.WantResult, "admissible_set": pc.Admissible != nil})
		}
	}
	c.Assume("documented limitations excluded by the generator: named types created by interpreted code are emulated, so an interpreted type reaches compiled code with its methods only through a parameter, variable or slice element typed with a compiled interface that has a proxy (fmt.Stringer, error, sort.Interface, io.Reader); passed as interface{} (fmt.Sprint(x) directly) it is the unnamed representation without methods; " +
		"a proxy offers exactly the methods of its interface, so a type with Error() and String() is passed as error, never as fmt.Stringer (compiled fmt would find Error() by type assertion); " +
		"no %d/%+v/%T on interpreted types; Stringer types are structs (a named string kind would change fmt.Sprint's spacing rule); no recover() across compiled/interpreted frames; no identity comparison of an interpreted error returned through compiled code")
	c.Assume("compiled readers' buffers (io.ReadAll 512 bytes, bufio.Scanner 4096) are larger than every chunk, so the chunk sequence is the Read log; confirmed by the native gate")
	lap("render")
	own := &c11Own{}
	own.install()
	defer own.uninstall()
	// native gate: every rendering shape, every kind in every cell position, the
	// reflect.MakeFunc cells, the concurrent scenarios and a seeded fraction of the rest
	gp := c11GatePrelude()
	gf := c11PickF(c, 0.03, 0.1)
	gated := append(append([]*ProgCase{}, must...), conc...)
	for _, pc := range rest {
		if pick(pc.Raw, uint64(1/gf)) {
			gated = append(gated, pc)
		}
	}
	dropped, err := c11GateBundles(c, gated, gp)
	if err != nil {
		return err
	}
	keep := func(in []*ProgCase) (out []*ProgCase) {
		for _, pc := range in {
			if !dropped[pc.Key] {
				out = append(out, pc)
			}
		}
		return
	}
	lap("native_gate")
	if err := RunProgCases(c, keep(append(append([]*ProgCase{}, must...), rest...)), ProgOpts{Sig: c11Sig, Prelude: c11Prelude(false), Reuse: 60}); err != nil {
		return err
	}
	lap("replay")
	// concurrent scenarios: repeated, few interpreters (each import of "sync" prints warnings)
	conc = keep(conc)
	reps := c.Pick(5, 40)
	for r := 0; r < reps; r++ {
		if err := RunProgCases(c, conc, ProgOpts{Sig: c11Sig, Prelude: c11Prelude(true), Reuse: 1000, Workers: 2}); err != nil {
			return err
		}
	}
	lap("concurrent")
	own.uninstall()
	c.Extra["frame_allocations_checked"] = atomic.LoadInt64(&own.allocs)
	if own.bad > 0 {
		c.Violation("interop(c11h.Par,func(int) int):ownership", fmt.Sprintf("%d frame allocations used a run not owned by the allocating goroutine; first: %s", own.bad, own.first), map[string]string{"what": own.first})
	}
	// (V) the recorded logs of the nondeterministic entry points
	err = c11Validate(c)
	lap("tlc_recorded_logs")
	return err
}

func c11Validate(c *core.Ctx) error {
	c11Logs.mu.Lock()
	lines := append([]string(nil), c11Logs.lines...)
	c11Logs.lines, c11Logs.seen = nil, nil
	c11Logs.mu.Unlock()
	if len(lines) == 0 {
		return nil
	}
	sort.Strings(lines)
	c.Extra["callback_logs_validated_by_tlc"] = len(lines)
	res, err := c.TLC(core.TLCOpts{Spec: "InteropTrace", CfgName: "recorded-logs", Workers: 1,
		Cfg:        "SPECIFICATION Spec\nINVARIANT Accepted\nPOSTCONDITION AllSeen\n",
		ExtraFiles: map[string]string{"c11_logs.ndjson": strings.Join(lines, "\n") + "\n"}, ExpectError: true, Timeout: 40 * time.Minute})
	if err != nil {
		return err
	}
	if res.Violated != "" || res.Distinct != int64(len(lines))+1 {
		at := ""
		if ms := regexp.MustCompile(`(?m)^l = (\d+)`).FindAllStringSubmatch(res.Output, -1); len(ms) > 0 {
			n, _ := strconv.Atoi(ms[len(ms)-1][1])
			if n >= 1 && n <= len(lines) {
				at = lines[n-1]
			}
		}
		return core.Infra("the harness accepted a callback log that InteropTrace.tla rejects (harness and specification disagree): %s\n%s", at, res.Output)
	}
	return nil
}

// ---------------------------------------------------------------------------------------

func replayC11(c *core.Ctx, raw json.RawMessage) error {
	var w struct {
		Record json.RawMessage `json:"record"`
	}
	if err := json.Unmarshal(raw, &w); err != nil {
		return err
	}
	var m c11Meta
	if err := json.Unmarshal(w.Record, &m); err != nil {
		return err
	}
	rec := c11Parse(m.Rec)
	if rec == nil {
		return core.Infra("replay file carries no model record")
	}
	pc := c11Render(rec, m.Rec, m.Variant, c11CellMap(), m.Cell)
	if pc == nil {
		return core.Infra("replay record cannot be rendered")
	}
	own := &c11Own{}
	own.install()
	defer own.uninstall()
	dropped, err := c11GateBundles(c, []*ProgCase{pc}, c11GatePrelude())
	if err != nil {
		return err
	}
	if dropped[pc.Key] {
		return nil
	}
	if err := RunProgCases(c, []*ProgCase{pc}, ProgOpts{Sig: c11Sig, Prelude: c11Prelude(rec.K == "conc")}); err != nil {
		return err
	}
	if own.bad > 0 {
		c.Violation("interop(c11h.Par,func(int) int):ownership", own.first, map[string]string{"what": own.first})
	}
	return c11Validate(c)
}

func selfTestC11(c *core.Ctx) error {
	// broken variants of the contracts must be rejected by TLC
	for _, v := range []struct {
		name string
		b    c11Bounds
		want string
	}{
		{"less-on-stale-contents", c11Bounds{scen: `{"sort"}`, sortLens: "0..3", keys: "{0, 1}", explore: "0..3", exploreKeys: "{0, 1}", strLens: "0..1", maxChunks: 1, maxOps: 1, stale: true, invs: "SortDoneSorted"}, "SortDoneSorted"},
		{"data-with-eof-dropped", c11Bounds{scen: `{"reader"}`, sortLens: "0..1", keys: "{0}", strLens: "0..1", maxChunks: 2, maxOps: 1, drop: true, invs: "ReaderLaw"}, "ReaderLaw"},
		{"counter-without-mutex", c11Bounds{scen: `{"conc"}`, sortLens: "0..1", keys: "{0}", strLens: "0..1", maxChunks: 1, maxOps: 1, nomutex: true, invs: "ConcLaw"}, "ConcLaw"},
	} {
		o := c11TLC(v.b, "broken-"+v.name)
		o.ExpectError = true
		r, err := c.TLC(o)
		if err != nil {
			return err
		}
		if r.Violated != v.want {
			return fmt.Errorf("broken variant %s not caught (violated=%q)", v.name, r.Violated)
		}
	}
	// recorded logs: a correct one is accepted, stale answers / wrong results are rejected
	good := `{"k":"sort","in":[1,0],"ord":"asc","stable":false,"log":[["len",2],["less",2,1,true],["swap",2,1],["less",2,1,false]],"final":[2,1]}`
	for i, tr := range []struct {
		lines string
		ok    bool
	}{
		{good, true},
		{`{"k":"sort","in":[1,0],"ord":"asc","stable":false,"log":[["len",2],["less",2,1,true],["swap",2,1],["less",2,1,true]],"final":[2,1]}`, false},
		{`{"k":"sort","in":[1,0],"ord":"asc","stable":false,"log":[["len",2],["less",2,1,true]],"final":[1,2]}`, false},
		{`{"k":"slice","in":[1,1],"ord":"asc","stable":true,"log":[["lessS",2,1,2,1,false]],"final":[2,1]}`, false},
		{`{"k":"fields","s":[97,98],"sep":98,"log":[["ff",97,false]]}`, false},
	} {
		r, err := c.TLC(core.TLCOpts{Spec: "InteropTrace", CfgName: fmt.Sprintf("selftest-trace-%d", i), Workers: 1,
			Cfg:        "SPECIFICATION Spec\nINVARIANT Accepted\nPOSTCONDITION AllSeen\n",
			ExtraFiles: map[string]string{"c11_logs.ndjson": tr.lines + "\n"}, ExpectError: true})
		if err != nil {
			return err
		}
		if (r.Violated == "") != tr.ok {
			return fmt.Errorf("trace %d: accepted=%v, expected %v", i, r.Violated == "", tr.ok)
		}
	}
	// replay: a correct record conforms, corrupted expectations and corrupted logs do not
	o := &ProgOpts{Prelude: c11Prelude(false)}
	g := newProgInterp(o)
	mraw := []byte(`{"k":"map","s":[97,233],"f":"dropa","log":[["map",97],["map",233]],"res":[233]}`)
	mp := c11RenderMap(c11Parse(mraw), mraw, 0)
	ev, res := runOnGomacro(g, mp)
	if !progConforms(mp, ev, res) {
		return fmt.Errorf("correct strings.Map record rejected: %v %s", ev, res)
	}
	mp.WantResult = `[string:"a"]`
	if progConforms(mp, ev, res) {
		return fmt.Errorf("corrupted strings.Map expectation accepted")
	}
	sraw := []byte(`{"k":"sort","in":[2,0,2,1],"ord":"asc","finals":[[2,4,1,3],[2,4,3,1]],"stable":[2,4,1,3],"lt":[[0,1],[0,2],[1,2]]}`)
	for v := 0; v < 5; v++ { // variant 5 (pointer to a value-receiver type) is a known defect class
		sp := c11RenderSort(c11Parse(sraw), sraw, v)
		ev, res = runOnGomacro(g, sp)
		if !progConforms(sp, ev, res) {
			return fmt.Errorf("correct sort record rejected (variant %d): %v %s", v, ev, res)
		}
		if len(ev) < 3 {
			return fmt.Errorf("sort variant %d: no callback log", v)
		}
		// a stale answer in the log
		bad := append([]string(nil), ev...)
		for i, e := range bad {
			if strings.Contains(e, "bool:true") {
				bad[i] = strings.Replace(e, "bool:true", "bool:false", 1)
				break
			}
		}
		if progConforms(sp, bad, res) {
			return fmt.Errorf("sort variant %d: log with a wrong answer accepted", v)
		}
		if progConforms(sp, ev, "[[int:1 int:2 int:3 int:4]]") {
			return fmt.Errorf("sort variant %d: unsorted result accepted", v)
		}
	}
	c11Logs.mu.Lock()
	c11Logs.lines, c11Logs.seen = nil, nil
	c11Logs.mu.Unlock()
	return nil
}

package props

import (
	"fmt"
	"regexp"
	"sort"
	"strconv"
	"strings"

	"verif/harness/core"
	"verif/harness/gate"
)

// Native gate for C11, bundled: the programs of this property share a large prelude (the
// compiled helper package, the interpreted types with their methods), so compiling one native
// package per case (RunProgCases' own gate) costs seconds per case. Here up to c11BundleSize
// cases are compiled into ONE gate program: every case becomes a function that runs its entry
// expression under recover and projects the result with the gate's own show package; the bundle's
// entry runs them one after the other, resetting the gate's event log in between, and returns
// (events, result) per case. The verdict rule is RunProgCases': a case whose specification
// expectation disagrees with compiled Go is a specification bug - counted by c.Gate(false),
// reported, and dropped from the replay.

const c11BundleSize = 60

var reC11Str = regexp.MustCompile(`string:"(?:[^"\\]|\\.)*"`)

func c11GateBundles(c *core.Ctx, cases []*ProgCase, gatePrelude string) (dropped map[string]bool, err error) {
	dropped = map[string]bool{}
	if len(cases) == 0 {
		return dropped, nil
	}
	sorted := append([]*ProgCase(nil), cases...)
	sort.Slice(sorted, func(i, j int) bool { return sorted[i].Key < sorted[j].Key })
	var progs []gate.Prog
	var groups [][]*ProgCase
	for lo := 0; lo < len(sorted); lo += c11BundleSize {
		hi := lo + c11BundleSize
		if hi > len(sorted) {
			hi = len(sorted)
		}
		grp := sorted[lo:hi]
		var d strings.Builder
		d.WriteString("var _ = errors.New\nvar _ = fmt.Sprint\n")
		d.WriteString(gatePrelude)
		d.WriteString("\n")
		var names []string
		for i, pc := range grp {
			d.WriteString(pc.Decls)
			fmt.Fprintf(&d, "\nfunc c11case%d() (res string) {\n\tdefer func() {\n\t\tif r := recover(); r != nil {\n\t\t\tres = \"panic(\" + show.ShowPanic(r) + \")\"\n\t\t}\n\t}()\n\treturn show.Vals(%s)\n}\n", i, pc.Entry)
			names = append(names, fmt.Sprintf("c11case%d", i))
		}
		fmt.Fprintf(&d, "\nfunc c11bundle() []string {\n\tvar out []string\n\tfor _, f := range []func() string{%s} {\n\t\tevents = nil\n\t\tr := f()\n\t\tout = append(out, strings.Join(events, \"\\x1f\"), r)\n\t}\n\tevents = nil\n\treturn out\n}\n", strings.Join(names, ", "))
		progs = append(progs, gate.Prog{Imports: append([]string{"errors", "fmt"}, c11GateImports...), Decls: d.String(), Entry: "c11bundle()"})
		groups = append(groups, grp)
	}
	outs, gerr := gate.Run(c.Verif, progs)
	if gerr != nil {
		return nil, core.Infra("go gate: %v", gerr)
	}
	shown := 0
	reject := func(pc *ProgCase, why string) {
		c.Gate(false)
		dropped[pc.Key] = true
		if shown < 3 {
			shown++
			fmt.Printf("GATE-REJECT property=%s (specification disagrees with compiled Go; behaviour dropped): %s\n  program: %s\n  entry: %s\n",
				c.ID, why, strings.ReplaceAll(pc.Decls, "\n", "\n    "), pc.Entry)
		}
	}
	for gi, grp := range groups {
		o := outs[gi]
		var vals []string
		ok := o.CompileError == "" && strings.HasPrefix(o.Result, "[[") && len(o.Events) == 0
		if ok {
			for _, tok := range reC11Str.FindAllString(o.Result, -1) {
				s, uerr := strconv.Unquote(tok[len("string:"):])
				if uerr != nil {
					ok = false
					break
				}
				vals = append(vals, s)
			}
		}
		if !ok || len(vals) != 2*len(grp) {
			for _, pc := range grp {
				reject(pc, fmt.Sprintf("bundle failed: %s %.300s", o.CompileError, o.Result))
			}
			continue
		}
		for i, pc := range grp {
			var events []string
			if vals[2*i] != "" {
				events = strings.Split(vals[2*i], "\x1f")
			}
			result := vals[2*i+1]
			if progConforms(pc, events, result) {
				c.Gate(true)
			} else {
				reject(pc, describeDiff(pc.WantEvents, events, pc.WantResult, result))
			}
		}
	}
	return dropped, nil
}

package props

import (
	"encoding/json"
	"fmt"
	"strings"
	"sync"

	"verif/harness/core"
	"verif/harness/gm"
)

// C15: a failed evaluation leaves earlier definitions intact; redefinitions do not disturb
// variables declared with the previous definition. Spec: spec/impl/ReplDefs.tla.
// (M) FailStutters / VersionKept on all histories of the bound; the broken variant in which
//     the valid prefix of a failing input sticks is rejected.
// (R) every history (BFS to 3-4 steps, simulation to 8) is replayed one Eval per step on a
//     fresh interpreter; after EVERY step every name is read back and compared with the model;
//     failing inputs must fail and must not run their injected ev("ran").

func init() {
	core.Register(&core.Prop{
		ID: "C15",
		Rule: "TLC enumerates REPL histories over {var v/w of type int|string|T, const c, func f, type T in three field layouts, failing inputs of eight kinds (among them redefinitions of f with another signature and of c with another type, inside an input that fails) aimed at existing or new names}; after every step all names are read back; " +
			"non-trivial = the history contains a failing input or a redefinition after at least one declaration; distinct by history",
		Run:      runC15,
		Replay:   replayC15,
		SelfTest: selfTestC15,
	})
}

type c15Bind struct {
	K       string `json:"k"`
	Typ     string `json:"typ"`
	X       int    `json:"x"`
	Tv      int    `json:"tv"`
	Variant int    `json:"variant"`
}
type c15Op struct {
	Op      string              `json:"op"`
	N       string              `json:"n"`
	Typ     string              `json:"typ"`
	X       int                 `json:"x"`
	Variant int                 `json:"variant"`
	Kind    string              `json:"kind"`
	After   map[string]c15Bind `json:"after"`
}
type c15Rec struct {
	Hist []c15Op `json:"hist"`
}

func c15Cfg(maxSteps int, sticks bool, invs string) string {
	return fmt.Sprintf("SPECIFICATION Spec\nCONSTANTS\n MaxSteps = %d\n FailKinds = {\"parse\",\"type\",\"second\",\"funcbody\",\"typedecl\",\"funcsig\",\"funcsig2\",\"constre\"}\n FailedCompileSticks = %s\n EmitOn = TRUE\n EmitAt = %d\nINVARIANTS %s\n",
		maxSteps, strings.ToUpper(fmt.Sprint(sticks)), maxSteps, invs)
}

func c15Source(op *c15Op, cur map[string]c15Bind) string {
	switch op.Op {
	case "var":
		switch op.Typ {
		case "int":
			return fmt.Sprintf("var %s int = %d", op.N, op.X)
		case "string":
			return fmt.Sprintf("var %s string = \"%d\"", op.N, op.X)
		default:
			switch cur["T"].Variant {
			case 1:
				return fmt.Sprintf("var %s = T{A: %d}", op.N, op.X)
			case 2:
				return fmt.Sprintf("var %s = T{B: \"%d\"}", op.N, op.X)
			default:
				return fmt.Sprintf("var %s = T{A: %d, C: 1}", op.N, op.X)
			}
		}
	case "const":
		return fmt.Sprintf("const c = %d", op.X)
	case "func":
		return fmt.Sprintf("func f() int { return %d }", op.X)
	case "type":
		switch op.Variant {
		case 1:
			return "type T struct{ A int }"
		case 2:
			return "type T struct{ B string }"
		default:
			return "type T struct{ A int; C int }"
		}
	case "fail":
		switch op.Kind {
		case "parse":
			return fmt.Sprintf("var %s =", op.N)
		case "type":
			return fmt.Sprintf("var %s int = \"s\"", op.N)
		case "second":
			return fmt.Sprintf("ev(\"ran\"); var %s string = \"s\"; var zz int = undefinedName", op.N)
		case "funcbody":
			return fmt.Sprintf("func %s() int { ev(\"ran\"); return undefinedName }", op.N)
		case "typedecl":
			return fmt.Sprintf("type %s struct{ A undefinedType }", op.N)
		case "funcsig":
			return fmt.Sprintf("func %s(a, b string) int { ev(\"ran\"); return undefinedName }", op.N)
		case "funcsig2":
			return fmt.Sprintf("func %s(a string) string { return a }; var zz int = undefinedName", op.N)
		case "constre":
			return fmt.Sprintf("const %s = \"s\"; var zz int = undefinedName", op.N)
		}
	}
	return ""
}

// c15Read returns the expression reading name n and the expected projection.
func c15Read(n string, b c15Bind) (expr, want string) {
	switch b.K {
	case "var":
		switch b.Typ {
		case "int":
			return n, fmt.Sprintf("[int:%d]", b.X)
		case "string":
			return n, fmt.Sprintf("[string:\"%d\"]", b.X)
		default:
			switch b.Tv {
			case 1:
				return n + ".A", fmt.Sprintf("[int:%d]", b.X)
			case 2:
				return n + ".B", fmt.Sprintf("[string:\"%d\"]", b.X)
			default:
				return n + ".A + " + n + ".C", fmt.Sprintf("[int:%d]", b.X+1)
			}
		}
	case "const":
		return n, fmt.Sprintf("[int:%d]", b.X)
	case "func":
		return n + "()", fmt.Sprintf("[int:%d]", b.X)
	case "type":
		switch b.Variant {
		case 1:
			return "T{}", "[{int:0}]"
		case 2:
			return "T{}", "[{string:\"\"}]"
		default:
			return "T{}", "[{int:0 int:0}]"
		}
	}
	if n == "T" {
		return "T{}", "undefined"
	}
	if n == "f" {
		return "f()", "undefined"
	}
	return n, "undefined"
}

var c15Names = []string{"v", "w", "c", "f", "T"}

// c15Run replays a history; returns signature and description of the first disagreement.
func c15Run(rec *c15Rec) (sig, what string) {
	g := gm.New()
	cur := map[string]c15Bind{}
	lastFail := ""
	redefinedType := false
	for i, op := range rec.Hist {
		src := c15Source(&op, cur)
		g.ResetEvents()
		r := g.Eval(src)
		if op.Op == "fail" {
			lastFail = op.Kind
			if !r.Panicked {
				return "failing-input-accepted(" + op.Kind + ")", fmt.Sprintf("step %d: %q was accepted", i+1, src)
			}
			if len(g.Events) != 0 {
				return "failing-input-ran-code(" + op.Kind + ")", fmt.Sprintf("step %d: %q failed to compile but ran %v", i+1, src, g.Events)
			}
		} else {
			if r.Panicked {
				return "valid-input-rejected(" + op.Op + ")", fmt.Sprintf("step %d: %q failed: %s", i+1, src, r.Panic)
			}
			if op.Op == "type" && cur["T"].K == "type" {
				redefinedType = true
			}
		}
		cur = op.After
		for _, n := range c15Names {
			expr, want := c15Read(n, cur[n])
			rr := g.Eval(expr)
			got := rr.String()
			if rr.Panicked {
				got = "panic"
				if strings.Contains(rr.Panic, "undefined") || strings.Contains(rr.Panic, "not defined") {
					got = "undefined"
				}
			}
			if got != want {
				ctx := "after-" + op.Op
				if op.Op == "fail" {
					ctx = "after-failing-input(" + lastFail + ")"
				} else if redefinedType && cur[n].K == "var" && cur[n].Typ == "T" && op.Op == "type" {
					ctx = "after-type-redefinition:old-variable"
				}
				detail := got
				if rr.Panicked {
					detail = "panic(" + rr.Panic + ")"
				}
				return ctx + ":" + cur[n].K + "-" + cur[n].Typ + "-differs", fmt.Sprintf("step %d %q: afterwards %s = %s, specification says %s", i+1, src, expr, detail, want)
			}
		}
	}
	return "", ""
}

func c15Key(rec *c15Rec) string {
	var b strings.Builder
	for _, op := range rec.Hist {
		fmt.Fprintf(&b, "%s.%s.%s.%d.%s;", op.Op, op.N, op.Typ, op.Variant, op.Kind)
	}
	return b.String()
}

func c15Interesting(rec *c15Rec) bool {
	decl := false
	for _, op := range rec.Hist {
		if op.Op == "fail" && decl {
			return true
		}
		if op.Op != "fail" {
			if decl && op.Op == "type" {
				return true
			}
			decl = true
		}
	}
	return false
}

func runC15(c *core.Ctx) error {
	var recs []*c15Rec
	seen := map[string]bool{}
	handle := func(line []byte) {
		var r c15Rec
		if json.Unmarshal(line, &r) != nil {
			return
		}
		k := c15Key(&r)
		if !seen[k] {
			seen[k] = true
			recs = append(recs, &r)
		}
	}
	invs := "FailStutters VersionKept Emit"
	if _, err := c.TLC(core.TLCOpts{Spec: "ReplDefs", CfgName: "histories-bfs", Cfg: c15Cfg(c.Pick(3, 4), false, invs), OnLine: handle}); err != nil {
		return err
	}
	c.Exhaustive = true
	if _, err := c.TLC(core.TLCOpts{Spec: "ReplDefs", CfgName: "histories-sim", Cfg: c15Cfg(c.Pick(7, 9), false, invs),
		Simulate: true, SimNum: c.Pick(25, 250), SimDepth: 12, Seed: c.Seed, OnLine: handle}); err != nil {
		return err
	}
	if c.Thorough() && len(recs) > 60000 {
		var keep []*c15Rec
		for i, r := range recs {
			if (i+int(c.Seed))%(len(recs)/60000+1) == 0 {
				keep = append(keep, r)
			}
		}
		recs = keep
		c.Exhaustive = false
	}
	var mu sync.Mutex
	var firstErr error
	core.ParDo(len(recs), 16, func(i int) {
		rec := recs[i]
		sig, what := c15Run(rec)
		c.Case(c15Key(rec), c15Interesting(rec))
		c.Trace()
		if sig == "" {
			return
		}
		sig2, what2 := c15Run(rec)
		if sig2 == "" {
			mu.Lock()
			firstErr = core.Infra("disagreement not reproducible: %s %s", sig, what)
			mu.Unlock()
			return
		}
		c.Violation(sig2, what2, rec)
	})
	if len(recs) > 3 {
		for _, r := range []*c15Rec{recs[len(recs)/2], recs[len(recs)-1]} {
			var steps []string
			cur := map[string]c15Bind{}
			for _, op := range r.Hist {
				steps = append(steps, c15Source(&op, cur))
				cur = op.After
			}
			c.Sample(map[string]interface{}{"evaluations": steps, "final_environment": cur})
		}
	}
	c.Assume("one fresh interpreter per history; a name the model says is unbound must be reported as undefined")
	return firstErr
}

func replayC15(c *core.Ctx, raw json.RawMessage) error {
	var rec c15Rec
	if err := json.Unmarshal(raw, &rec); err != nil {
		return err
	}
	if sig, what := c15Run(&rec); sig != "" {
		c.Violation(sig, what, &rec)
	}
	return nil
}

func selfTestC15(c *core.Ctx) error {
	r, err := c.TLC(core.TLCOpts{Spec: "ReplDefs", CfgName: "broken-failed-compile-sticks",
		Cfg: strings.Replace(c15Cfg(3, true, "FailStutters"), "EmitOn = TRUE", "EmitOn = FALSE", 1), ExpectError: true})
	if err != nil {
		return err
	}
	if r.Violated != "FailStutters" {
		return fmt.Errorf("broken variant not rejected (%q)", r.Violated)
	}
	good := c15Rec{Hist: []c15Op{{Op: "var", N: "v", Typ: "int", X: 1, After: map[string]c15Bind{"v": {K: "var", Typ: "int", X: 1}, "w": {K: "none"}, "c": {K: "none"}, "f": {K: "none"}, "T": {K: "none"}}}}}
	if sig, what := c15Run(&good); sig != "" {
		return fmt.Errorf("correct record rejected: %s %s", sig, what)
	}
	good.Hist[0].After["v"] = c15Bind{K: "var", Typ: "int", X: 2}
	if sig, _ := c15Run(&good); sig == "" {
		return fmt.Errorf("corrupted record accepted")
	}
	return nil
}

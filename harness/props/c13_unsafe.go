package props

import "unsafe"

// ptrOf lets the asynchronous sender read the interpreted counter (an int slot, 64 bit on
// amd64) with an atomic load while the interpreter is writing it.
func ptrOf(p *int) unsafe.Pointer { return unsafe.Pointer(p) }

package props

import (
	"encoding/json"
	"fmt"
	"math/rand"
	"sort"
	"strings"

	"verif/harness/show"
)

// Rendering of Heap.tla histories as Go programs. Nothing here computes an expected result:
// the values, lengths, capacities and panic classes come from the TLC record; this file only
// chooses syntactic forms, turns the model's small integers into literals of the element kind
// and projects them with the projection shared with the native gate (package show).

type c08Ref struct {
	T string `json:"t"`
	N int    `json:"n"`
}

type c08Op struct {
	Op string `json:"op"`
	C  c08Ref `json:"c"`
	D  c08Ref `json:"d"`
	I  int    `json:"i"`
	J  int    `json:"j"`
	K  int    `json:"k"`
	F  string `json:"f"`
	Vs []int  `json:"vs"`
	R  []int  `json:"r"`
	P  string `json:"p"`
	// W: what is visible through every slice and array variable after an operation that
	// writes elements (empty for the others)
	W struct {
		S []c08SliceDump `json:"s"`
		A [][]int        `json:"a"`
	} `json:"w"`
}

type c08SliceDump struct {
	Nil bool  `json:"nil"`
	Len int   `json:"len"`
	Cap int   `json:"cap"`
	Cu  bool  `json:"cu"`
	V   []int `json:"v"`
}

type c08Dump struct {
	S    []c08SliceDump `json:"s"`
	A    [][]int        `json:"a"`
	Pa   []int          `json:"pa"`
	Pe   []int          `json:"pe"`
	M    [][]int        `json:"m"`
	Mnil []bool         `json:"mnil"`
	T    [][]int        `json:"t"`
	Pt   []int          `json:"pt"`
	Str  [][]int        `json:"str"`
}

type c08Rec struct {
	Fam  string  `json:"fam"`
	Sc   int     `json:"sc"`
	Hist []c08Op `json:"hist"`
	Pan  string  `json:"pan"`
	Dump c08Dump `json:"dump"`
}

// c08Forms selects the syntactic forms used by the renderer.
type c08Forms struct {
	Idx  string `json:"idx"`  // const | var | conv | mix
	Use  string `json:"use"`  // direct | addr | mix
	Seed int64  `json:"seed"` // for mix
}

type c08Rendered struct {
	Tags []string // rendering shapes used (for gate coverage)
	Elem string
}

// element kinds of the histories; the cells use all of c08CellKinds
var c08ElemKinds = []string{"int8", "int", "string", "C08S", "[2]int"}
var c08KeyKinds = []string{"int", "string", "C08S", "uint8"}
var c08CellKinds = append(append([]string{}, c06Kinds...), "C08S", "[2]int")

const c08Prelude = `type C08S struct{ A int }
`

// c08Val returns the Go value of kind k standing for the model value n (0 = zero value).
func c08Val(k string, n int) interface{} {
	switch k {
	case "bool":
		return n%2 == 1
	case "int":
		return n
	case "int8":
		return int8(n)
	case "int16":
		return int16(n)
	case "int32":
		return int32(n)
	case "int64":
		return int64(n)
	case "uint":
		return uint(n)
	case "uint8":
		return uint8(n)
	case "uint16":
		return uint16(n)
	case "uint32":
		return uint32(n)
	case "uint64":
		return uint64(n)
	case "uintptr":
		return uintptr(n)
	case "float32":
		return float32(n)
	case "float64":
		return float64(n)
	case "complex64":
		return complex(float32(n), 0)
	case "complex128":
		return complex(float64(n), 0)
	case "string":
		if n == 0 {
			return ""
		}
		return fmt.Sprintf("s%d", n)
	case "C08S":
		return struct{ A int }{n}
	case "[2]int":
		return [2]int{n, 2 * n}
	}
	panic("c08Val: kind " + k)
}

func c08Show(k string, n int) string { return show.Show(c08Val(k, n)) }

// c08Lit renders the model value n as an expression of kind k; elide = inside a composite
// literal whose element type is k (the type of a nested composite literal may be omitted).
func c08Lit(k string, n int, elide bool) string {
	switch k {
	case "bool":
		return fmt.Sprint(n%2 == 1)
	case "string":
		if n == 0 {
			return `""`
		}
		return fmt.Sprintf(`"s%d"`, n)
	case "C08S":
		if elide {
			return fmt.Sprintf("{%d}", n)
		}
		if n%2 == 0 {
			return fmt.Sprintf("C08S{A: %d}", n)
		}
		return fmt.Sprintf("C08S{%d}", n)
	case "[2]int":
		if elide {
			return fmt.Sprintf("{%d, %d}", n, 2*n)
		}
		return fmt.Sprintf("[2]int{%d, %d}", n, 2*n)
	}
	return fmt.Sprint(n)
}

func c08ShowSeq(k string, vs []int) string {
	parts := make([]string, len(vs))
	for i, v := range vs {
		parts[i] = c08Show(k, v)
	}
	return "[" + strings.Join(parts, " ") + "]"
}

// c08Cell: one specialisation cell.
type c08Cell struct {
	Shape, Elem, Key, Idx, Use, Name string
}

func c08Cells() (cells []c08Cell) {
	for _, shape := range []string{"slice", "array", "ptr-array"} {
		for _, k := range c08CellKinds {
			for _, idx := range []string{"const", "var", "conv"} {
				for _, use := range []string{"direct", "addr"} {
					if idx == "conv" && use == "addr" {
						continue
					}
					cells = append(cells, c08Cell{shape, k, "int", idx, use, fmt.Sprintf("%s/%s/%s/%s", shape, k, idx, use)})
				}
			}
		}
	}
	for _, idx := range []string{"const", "var", "conv"} {
		cells = append(cells, c08Cell{"string", "int", "int", idx, "direct", "string/byte/" + idx})
	}
	for _, k := range c08CellKinds {
		for _, idx := range []string{"const", "var"} {
			cells = append(cells, c08Cell{"map", k, "int", idx, "direct", fmt.Sprintf("map/elem:%s/%s", k, idx)})
			if k != "int" {
				cells = append(cells, c08Cell{"map", "int", k, idx, "direct", fmt.Sprintf("map/key:%s/%s", k, idx)})
			}
		}
	}
	return
}

type c08R struct {
	rec                                    *c08Rec
	elem, key                              string
	forms                                  c08Forms
	rng                                    *rand.Rand
	sfx                                    string
	decls, body                            strings.Builder
	want                                   []string
	evOp                                   []int
	evKind                                 []string
	tags                                   map[string]bool
	opIdx                                  int
	lineOp                                 []int
	tmp                                    int
	needFv, needFp, needFs, needGv, needGp bool
}

func (r *c08R) tag(t string) { r.tags[t] = true }

func (r *c08R) tyE() string { return r.elem }
func (r *c08R) tyT() string { return "T" + r.sfx }
func (r *c08R) tyU() string { return "U" + r.sfx }

func (r *c08R) name(c c08Ref) string {
	switch c.T {
	case "pa", "pt":
		return c.T
	}
	return fmt.Sprintf("%s%d", c.T, c.N)
}

func (r *c08R) stmt(format string, a ...interface{}) {
	r.body.WriteString("\t" + fmt.Sprintf(format, a...) + "\n")
	r.lineOp = append(r.lineOp, r.opIdx) // one line per statement: compile errors name a line
}

// expect registers one expected event (the rendered ev() call must produce exactly it).
func (r *c08R) expect(kind string, parts ...string) {
	r.want = append(r.want, strings.Join(parts, " "))
	r.evOp = append(r.evOp, r.opIdx)
	r.evKind = append(r.evKind, kind)
}

func c08ShowStr(s string) string { return show.Show(s) }
func c08ShowInt(n int) string    { return show.Show(n) }
func c08ShowBool(b bool) string  { return show.Show(b) }

func (r *c08R) pick(n int) int {
	if n <= 1 {
		return 0
	}
	return r.rng.Intn(n)
}

// idx renders an index / bound operand with value n. constOK: a constant is accepted by the Go
// compiler at this place (constant indices are checked at compile time). v names the int
// variable to use.
func (r *c08R) idx(n int, constOK bool, v string) string {
	form := r.forms.Idx
	if form == "mix" {
		form = []string{"const", "const", "const", "var", "var", "var", "var", "conv"}[r.pick(8)]
	}
	if form == "const" && !constOK {
		form = "var"
	}
	if form == "conv" && n < 0 {
		form = "var"
	}
	switch form {
	case "const":
		r.tag("idx:const")
		return fmt.Sprint(n)
	case "conv":
		r.tag("idx:conv")
		r.stmt("%s = %d", v, n)
		return fmt.Sprintf([]string{"uint8(%s)", "int64(%s)", "uint(%s)"}[n%3], v)
	}
	r.tag("idx:var")
	r.stmt("%s = %d", v, n)
	return v
}

func (r *c08R) useAddr() bool {
	switch r.forms.Use {
	case "addr":
		return true
	case "mix":
		return r.pick(4) == 0
	}
	return false
}

// vec renders a vector container as an indexable expression
func (r *c08R) vec(c c08Ref) string {
	if c.T == "pa" && r.forms.Use == "mix" && r.pick(3) == 0 {
		r.tag("pa:explicit-deref")
		return "(*pa)"
	}
	return r.name(c)
}

// hdr logs len and cap of slice variable name against the model's header <<len, cap, cu>>
func (r *c08R) hdr(name string, h []int) {
	if h[2] == 0 {
		r.stmt(`ev("h", len(%s), cap(%s))`, name, name)
		r.expect("hdr", c08ShowStr("h"), c08ShowInt(h[0]), c08ShowInt(h[1]))
	} else {
		// capacity unspecified: validated against the lower bound only
		r.stmt(`ev("h", len(%s), cap(%s) >= %d)`, name, name, h[1])
		r.expect("hdr", c08ShowStr("h"), c08ShowInt(h[0]), c08ShowBool(true))
	}
}

func (r *c08R) lits(k string, vs []int, elide bool) string {
	parts := make([]string, len(vs))
	for i, v := range vs {
		parts[i] = c08Lit(k, v, elide)
	}
	return strings.Join(parts, ", ")
}

// seqLit renders a slice / array literal with the given values in one of several forms
func (r *c08R) seqLit(ty string, vs []int, sparse bool) string {
	e := r.tyE()
	composite := e == "C08S" || e == "[2]int"
	elide := composite && r.pick(2) == 0
	if composite {
		if elide {
			r.tag("lit:elided-element-type")
		} else {
			r.tag("lit:explicit-element-type")
		}
	}
	if sparse {
		r.tag("lit:sparse")
		return fmt.Sprintf("%s{%d: %s}", ty, len(vs)-1, c08Lit(e, vs[len(vs)-1], elide))
	}
	switch r.pick(4) {
	case 1:
		if len(vs) > 0 {
			r.tag("lit:keyed")
			parts := make([]string, len(vs))
			for i, v := range vs {
				parts[i] = fmt.Sprintf("%d: %s", i, c08Lit(e, v, elide))
			}
			return ty + "{" + strings.Join(parts, ", ") + "}"
		}
	case 2:
		if len(vs) >= 2 {
			// keys out of order, and an unkeyed element continuing after a key
			r.tag("lit:keyed-out-of-order")
			var parts []string
			parts = append(parts, fmt.Sprintf("%d: %s", 1, c08Lit(e, vs[1], elide)))
			for i := 2; i < len(vs); i++ {
				parts = append(parts, c08Lit(e, vs[i], elide))
			}
			parts = append(parts, fmt.Sprintf("%d: %s", 0, c08Lit(e, vs[0], elide)))
			return ty + "{" + strings.Join(parts, ", ") + "}"
		}
	}
	r.tag("lit:positional")
	return ty + "{" + r.lits(e, vs, elide) + "}"
}

func (r *c08R) structLit(form string, vs []int, addr bool) string {
	e := r.tyE()
	amp := ""
	if addr {
		amp = "&"
	}
	switch form {
	case "keyed":
		return fmt.Sprintf("%s%s{X: %s, In: %s{Y: %s, Z: [2]%s{%s}}}", amp, r.tyT(), c08Lit(e, vs[0], false), r.tyU(), c08Lit(e, vs[1], false), e, r.lits(e, vs[2:4], false))
	case "pos":
		return fmt.Sprintf("%s%s{%s, %s{%s, [2]%s{%s}}}", amp, r.tyT(), c08Lit(e, vs[0], false), r.tyU(), c08Lit(e, vs[1], false), e, r.lits(e, vs[2:4], false))
	case "partial":
		return fmt.Sprintf("%s%s{In: %s{Y: %s}}", amp, r.tyT(), r.tyU(), c08Lit(e, vs[0], false))
	}
	return fmt.Sprintf("%s%s{X: %s}", amp, r.tyT(), c08Lit(e, vs[0], false))
}

func (r *c08R) showT(v []int) string {
	e := r.tyE()
	return "{" + c08Show(e, v[0]) + " {" + c08Show(e, v[1]) + " [" + c08Show(e, v[2]) + " " + c08Show(e, v[3]) + "]}}"
}

func (r *c08R) keyExpr(n int) string {
	form := r.forms.Idx
	if form == "mix" {
		form = []string{"const", "var"}[r.pick(2)]
	}
	if form == "const" {
		r.tag("key:const")
		return c08Lit(r.key, n, false)
	}
	r.tag("key:var")
	r.stmt("kk = %s", c08Lit(r.key, n, false))
	return "kk"
}

// bounds renders lo:hi[:max] of a slice expression on a container with the given constant-index
// limit (limit < 0: any non-negative constant is accepted)
func (r *c08R) bounds(lo, hi, max int, three bool, limit int, length int) string {
	okc := func(n int) bool { return n >= 0 && (limit < 0 || n <= limit) }
	// constants must also be ordered among themselves: use constants only when all bounds are valid
	allOK := okc(lo) && okc(hi) && lo <= hi && (!three || (okc(max) && hi <= max))
	los := ""
	if lo == 0 && r.pick(2) == 0 {
		r.tag("slice:lo-omitted")
	} else {
		los = r.idx(lo, allOK, "i")
	}
	his := ""
	if !three && hi == length && r.pick(2) == 0 {
		r.tag("slice:hi-omitted")
	} else {
		his = r.idx(hi, allOK, "j")
	}
	if !three {
		return los + ":" + his
	}
	return los + ":" + his + ":" + r.idx(max, allOK, "k")
}

func (r *c08R) lenOf(c c08Ref) (length int, constLimit int) {
	// only arrays have a statically known length
	if c.T == "a" || c.T == "pa" {
		return 3, 3
	}
	return -1, -1
}

// seen renders the observation of every slice (nil-ness, len, cap, elements up to cap where the
// capacity is specified) and array variable, and registers the expected events.
func (r *c08R) seen(tagS, tagA, kind string, sl []c08SliceDump, arrs [][]int, emit func(format string, a ...interface{})) {
	e := r.elem
	for n, s := range sl {
		nm := fmt.Sprintf("s%d", n)
		if s.Cu {
			emit(`ev("%s", %d, %s == nil, len(%s), cap(%s) >= %d, %s)`, tagS, n, nm, nm, nm, s.Cap, nm)
			r.expect(kind, c08ShowStr(tagS), c08ShowInt(n), c08ShowBool(s.Nil), c08ShowInt(s.Len), c08ShowBool(true), c08ShowSeq(e, s.V))
		} else {
			emit(`ev("%s", %d, %s == nil, len(%s), cap(%s), %s[:cap(%s)])`, tagS, n, nm, nm, nm, nm, nm)
			v := c08ShowSeq(e, s.V)
			if s.Nil {
				v = "slice:nil"
			}
			r.expect(kind, c08ShowStr(tagS), c08ShowInt(n), c08ShowBool(s.Nil), c08ShowInt(s.Len), c08ShowInt(s.Cap), v)
		}
	}
	for n, a := range arrs {
		emit(`ev("%s", %d, a%d)`, tagA, n, n)
		r.expect(kind, c08ShowStr(tagA), c08ShowInt(n), c08ShowSeq(e, a))
	}
}

// c08Render renders one record for an element kind, a key kind and a choice of forms.
func c08Render(rec *c08Rec, raw []byte, elem, key string, forms c08Forms, fam string) (*ProgCase, *c08Rendered) {
	id := c08Hash(string(raw) + "|" + elem + "|" + key + "|" + fmt.Sprint(forms) + "|" + fam)
	r := &c08R{rec: rec, elem: elem, key: key, forms: forms, rng: rand.New(rand.NewSource(forms.Seed + 1)), sfx: "_" + id, tags: map[string]bool{}}
	e := elem
	ns, na, nm, nt, nstr := len(rec.Dump.S), len(rec.Dump.A), len(rec.Dump.M), len(rec.Dump.T), len(rec.Dump.Str)
	// current lengths of slices / strings are needed only to choose legal syntactic forms
	// (omitting hi when it equals len); they are read from the model's logged headers
	slen := map[string]int{}
	for i, o := range rec.Hist {
		r.opIdx = i
		c, d := r.name(o.C), r.name(o.D)
		r.tag("op:" + o.Op + ":" + o.C.T + ":" + o.D.T + ":" + o.F)
		pan := o.P != ""
		switch o.Op {
		case "mk":
			switch {
			case !pan && o.I == o.J && r.pick(2) == 0:
				r.tag("make:2-args")
				r.stmt("%s = make([]%s, %s)", d, e, r.idx(o.I, true, "i"))
			default:
				r.stmt("%s = make([]%s, %s, %s)", d, e, r.idx(o.I, !pan, "i"), r.idx(o.J, !pan, "j"))
			}
			if !pan {
				r.hdr(d, o.R)
				slen[d] = o.R[0]
			}
		case "lit":
			r.stmt("%s = %s", d, r.seqLit("[]"+e, o.Vs, o.F == "sparse"))
			r.hdr(d, o.R)
			slen[d] = o.R[0]
		case "nil":
			r.stmt("%s = nil", d)
			r.hdr(d, o.R)
			slen[d] = 0
		case "idxr", "idxw", "addr":
			_, lim := r.lenOf(o.C)
			constOK := o.I >= 0 && (lim < 0 || o.I < lim)
			ix := r.idx(o.I, constOK, "i")
			x := r.vec(o.C)
			switch o.Op {
			case "idxr":
				if r.useAddr() {
					r.tag("use:address-read")
					r.stmt(`ev("r", *(&%s[%s]))`, x, ix)
				} else {
					r.tag("use:value")
					r.stmt(`ev("r", %s[%s])`, x, ix)
				}
				if !pan {
					r.expect("val", c08ShowStr("r"), c08Show(e, o.R[0]))
				}
			case "idxw":
				v := 0
				if !pan {
					v = o.Vs[0]
				}
				if r.useAddr() {
					r.tag("use:address-write")
					r.tmp++
					r.stmt("q%d := &%s[%s]", r.tmp, x, ix)
					r.stmt("*q%d = %s", r.tmp, c08Lit(e, v, false))
				} else {
					r.tag("use:place")
					r.stmt("%s[%s] = %s", x, ix, c08Lit(e, v, false))
				}
			case "addr":
				r.tag("use:address")
				r.stmt("pe = &%s[%s]", x, ix)
			}
		case "per":
			r.stmt(`ev("r", *pe)`)
			if !pan {
				r.expect("val", c08ShowStr("r"), c08Show(e, o.R[0]))
			}
		case "pew":
			v := 0
			if !pan {
				v = o.Vs[0]
			}
			r.stmt("*pe = %s", c08Lit(e, v, false))
		case "penil":
			r.stmt("pe = nil")
		case "sl2", "sl3":
			length, lim := r.lenOf(o.C)
			if o.C.T == "s" {
				if l, ok := slen[c]; ok {
					length = l
				} else {
					length = 0
				}
			}
			b := r.bounds(o.I, o.J, o.K, o.Op == "sl3", lim, length)
			r.stmt("%s = %s[%s]", d, r.vec(o.C), b)
			if !pan {
				r.hdr(d, o.R)
				slen[d] = o.R[0]
			}
		case "app":
			r.stmt("%s = append(%s, %s)", d, c, r.lits(e, o.Vs, false))
			r.hdr(d, o.R)
			slen[d] = o.R[0]
		case "apps":
			r.stmt("%s = append(%s, s%d...)", d, c, o.I)
			r.hdr(d, o.R)
			slen[d] = o.R[0]
		case "copy":
			if r.pick(2) == 0 {
				r.tag("copy:statement")
				r.stmt(`copy(%s, %s)`, d, c)
			} else {
				r.tag("copy:result-used")
				r.stmt(`ev("n", copy(%s, %s))`, d, c)
				r.expect("val", c08ShowStr("n"), c08ShowInt(o.R[0]))
			}
		case "range":
			x := r.name(o.C)
			if len(o.Vs) > 0 {
				r.tag("range:write-in-body")
				r.stmt(`for ii, x := range %s { if ii == 0 { %s[len(%s)-1] = %s }; ev("g", ii, x) }`, x, x, x, c08Lit(e, o.Vs[0], false))
			} else {
				r.stmt(`for ii, x := range %s { ev("g", ii, x) }`, x)
			}
			for k := 0; k+1 < len(o.R); k += 2 {
				r.expect("val", c08ShowStr("g"), c08ShowInt(o.R[k]), c08Show(e, o.R[k+1]))
			}
		case "alit":
			ty := "[3]" + e
			if o.F == "full" && r.pick(3) == 0 {
				r.tag("lit:array-dots")
				ty = "[...]" + e
			}
			r.stmt("%s = %s", d, r.seqLit(ty, o.Vs, o.F == "sparse"))
		case "aasg":
			if o.C.T == "pa" {
				r.stmt("%s = *pa", d)
			} else {
				r.stmt("%s = %s", d, c)
			}
		case "pstore":
			r.stmt("*pa = %s", c)
		case "pass":
			r.tmp++
			switch o.F {
			case "val":
				r.needFv = true
				r.stmt("y%d := fv%s(%s, %s)", r.tmp, r.sfx, c, c08Lit(e, o.Vs[0], false))
				r.stmt(`ev("r", y%d, %s[0])`, r.tmp, c)
				r.expect("val", c08ShowStr("r"), c08Show(e, o.R[0]), c08Show(e, o.R[1]))
			case "ptr":
				r.needFp = true
				r.stmt("y%d := fp%s(&%s, %s)", r.tmp, r.sfx, c, c08Lit(e, o.Vs[0], false))
				r.stmt(`ev("r", y%d, %s[0])`, r.tmp, c)
				r.expect("val", c08ShowStr("r"), c08Show(e, o.R[0]), c08Show(e, o.R[1]))
			default:
				r.needFs = true
				r.stmt(`ev("r", fs%s(%s, %s, %s, %v))`, r.sfx, c, c08Lit(e, o.Vs[0], false), c08Lit(e, o.Vs[1], false), o.F == "slapp")
				r.expect("val", c08ShowStr("r"), c08ShowInt(o.R[0]))
			}
		case "paset":
			switch o.F {
			case "nil":
				r.stmt("pa = nil")
			case "addr":
				r.stmt("pa = &%s", c)
			case "new":
				r.stmt("pa = new([3]%s)", e)
			default:
				r.stmt("pa = &%s", r.seqLit("[3]"+e, o.Vs, false))
			}
		case "mmake":
			if r.pick(2) == 0 {
				r.stmt("%s = make(map[%s]%s)", d, key, e)
			} else {
				r.tag("make:map-with-size")
				r.stmt("%s = make(map[%s]%s, 4)", d, key, e)
			}
			r.stmt(`ev("l", len(%s))`, d)
			r.expect("hdr", c08ShowStr("l"), c08ShowInt(o.R[0]))
		case "mlit":
			composite := e == "C08S" || e == "[2]int"
			elide := composite && r.pick(2) == 0
			kelide := (key == "C08S" || key == "[2]int") && r.pick(2) == 0
			parts := make([]string, len(o.Vs))
			for k, v := range o.Vs {
				parts[k] = c08Lit(key, k, kelide) + ": " + c08Lit(e, v, elide)
			}
			if elide || kelide {
				r.tag("lit:map-elided-types")
			}
			r.stmt("%s = map[%s]%s{%s}", d, key, e, strings.Join(parts, ", "))
			r.stmt(`ev("l", len(%s))`, d)
			r.expect("hdr", c08ShowStr("l"), c08ShowInt(o.R[0]))
		case "mnil":
			r.stmt("%s = nil", d)
			r.stmt(`ev("l", len(%s))`, d)
			r.expect("hdr", c08ShowStr("l"), c08ShowInt(o.R[0]))
		case "malias":
			r.stmt("%s = %s", d, c)
		case "mset":
			v := 0
			if !pan {
				v = o.Vs[0]
			}
			r.tag("use:map-place")
			r.stmt("%s[%s] = %s", c, r.keyExpr(o.I), c08Lit(e, v, false))
			if !pan {
				r.stmt(`ev("l", len(%s))`, c)
				r.expect("hdr", c08ShowStr("l"), c08ShowInt(o.R[0]))
			}
		case "mget":
			kx := r.keyExpr(o.I)
			if o.F == "ok" {
				r.tmp++
				switch r.pick(3) {
				case 0:
					r.tag("use:comma-ok-define")
					r.stmt("v%d, ok%d := %s[%s]", r.tmp, r.tmp, c, kx)
					r.stmt(`ev("r", v%d, ok%d)`, r.tmp, r.tmp)
				case 1:
					r.tag("use:comma-ok-assign")
					r.stmt("var v%d %s; var ok%d bool", r.tmp, e, r.tmp)
					r.stmt("v%d, ok%d = %s[%s]", r.tmp, r.tmp, c, kx)
					r.stmt(`ev("r", v%d, ok%d)`, r.tmp, r.tmp)
				default:
					r.tag("use:comma-ok-if")
					r.stmt(`if v%d, ok%d := %s[%s]; ok%d { ev("r", v%d, true) } else { ev("r", v%d, false) }`, r.tmp, r.tmp, c, kx, r.tmp, r.tmp, r.tmp)
				}
				r.expect("val", c08ShowStr("r"), c08Show(e, o.R[0]), c08ShowBool(o.R[1] == 1))
			} else {
				r.tag("use:map-value")
				r.stmt(`ev("r", %s[%s])`, c, kx)
				r.expect("val", c08ShowStr("r"), c08Show(e, o.R[0]))
			}
		case "mdel":
			r.stmt("delete(%s, %s)", c, r.keyExpr(o.I))
			r.stmt(`ev("l", len(%s))`, c)
			r.expect("hdr", c08ShowStr("l"), c08ShowInt(o.R[0]))
		case "stlit":
			r.stmt("%s = %s", d, r.structLit(o.F, o.Vs, false))
		case "stasg":
			if o.C.T == "pt" {
				r.stmt("%s = *pt", d)
			} else {
				r.stmt("%s = %s", d, c)
			}
		case "ptstore":
			r.stmt("*pt = %s", c)
		case "fldw", "fldr":
			x := c
			if o.C.T == "pt" && r.pick(3) == 0 {
				r.tag("pt:explicit-deref")
				x = "(*pt)"
			}
			var sel string
			switch o.F {
			case "x":
				sel = x + ".X"
			case "y":
				sel = x + ".In.Y"
			default:
				sel = fmt.Sprintf("%s.In.Z[%s]", x, r.idx(o.I, o.I < 2, "i"))
			}
			if o.Op == "fldr" {
				r.stmt(`ev("r", %s)`, sel)
				if !pan {
					r.expect("val", c08ShowStr("r"), c08Show(e, o.R[0]))
				}
			} else {
				v := 0
				if !pan {
					v = o.Vs[0]
				}
				r.stmt("%s = %s", sel, c08Lit(e, v, false))
			}
		case "ptset":
			switch o.F {
			case "nil":
				r.stmt("pt = nil")
			case "addr":
				r.stmt("pt = &%s", c)
			case "new":
				r.stmt("pt = new(%s)", r.tyT())
			default:
				r.stmt("pt = %s", r.structLit("x", o.Vs, true))
			}
		case "passt":
			r.tmp++
			if o.F == "val" {
				r.needGv = true
				r.stmt("y%d := gv%s(%s, %s)", r.tmp, r.sfx, c, c08Lit(e, o.Vs[0], false))
			} else {
				r.needGp = true
				r.stmt("y%d := gp%s(&%s, %s)", r.tmp, r.sfx, c, c08Lit(e, o.Vs[0], false))
			}
			r.stmt(`ev("r", y%d, %s.In.Y)`, r.tmp, c)
			r.expect("val", c08ShowStr("r"), c08Show(e, o.R[0]), c08Show(e, o.R[1]))
		case "strlit":
			b := make([]byte, len(o.Vs))
			for k, v := range o.Vs {
				b[k] = byte(v)
			}
			r.stmt("%s = %q", d, string(b))
			r.stmt(`ev("l", len(%s))`, d)
			r.expect("hdr", c08ShowStr("l"), c08ShowInt(o.R[0]))
			slen[d] = o.R[0]
		case "stridx":
			r.stmt(`ev("r", %s[%s])`, c, r.idx(o.I, o.I >= 0, "i"))
			if !pan {
				r.expect("val", c08ShowStr("r"), show.Show(uint8(o.R[0])))
			}
		case "strsl":
			b := r.bounds(o.I, o.J, 0, false, -1, slen[c])
			r.stmt("%s = %s[%s]", d, c, b)
			if !pan {
				r.stmt(`ev("l", len(%s))`, d)
				r.expect("hdr", c08ShowStr("l"), c08ShowInt(o.R[0]))
				slen[d] = o.R[0]
			}
		case "strcat":
			r.stmt("%s = %s + str%d", d, c, o.I)
			r.stmt(`ev("l", len(%s))`, d)
			r.expect("hdr", c08ShowStr("l"), c08ShowInt(o.R[0]))
			slen[d] = o.R[0]
		case "strrange":
			r.stmt(`for ii, ch := range %s { ev("g", ii, ch) }`, c)
			for k := 0; k+1 < len(o.R); k += 2 {
				r.expect("val", c08ShowStr("g"), c08ShowInt(o.R[k]), show.Show(int32(o.R[k+1])))
			}
		default:
			panic("c08Render: unknown operation " + o.Op)
		}
		if len(o.W.S)+len(o.W.A) > 0 {
			r.seen("ws", "wa", "seen", o.W.S, o.W.A, r.stmt)
		}
	}
	// ---- final dump (deferred: it also runs when the history ends in a panic)
	r.opIdx = -1
	var dump strings.Builder
	dw := func(format string, a ...interface{}) { dump.WriteString("\t\t" + fmt.Sprintf(format, a...) + "\n") }
	r.seen("ds", "da", "dump", rec.Dump.S, rec.Dump.A, dw)
	if na > 0 {
		dw(`if pa == nil { ev("dpa", true) } else { ev("dpa", false, *pa) }`)
		if len(rec.Dump.Pa) == 0 {
			r.expect("dump", c08ShowStr("dpa"), c08ShowBool(true))
		} else {
			r.expect("dump", c08ShowStr("dpa"), c08ShowBool(false), c08ShowSeq(e, rec.Dump.Pa))
		}
	}
	if ns+na > 0 {
		dw(`if pe == nil { ev("dpe", true) } else { ev("dpe", false, *pe) }`)
		if len(rec.Dump.Pe) == 0 {
			r.expect("dump", c08ShowStr("dpe"), c08ShowBool(true))
		} else {
			r.expect("dump", c08ShowStr("dpe"), c08ShowBool(false), c08Show(e, rec.Dump.Pe[0]))
		}
	}
	for n, m := range rec.Dump.M {
		dw(`ev("dm", %d, len(m%d), m%d)`, n, n, n)
		if rec.Dump.Mnil[n] {
			r.expect("dump", c08ShowStr("dm"), c08ShowInt(n), c08ShowInt(0), "map:nil")
		} else {
			var parts []string
			for k, v := range m {
				if v >= 0 {
					parts = append(parts, c08Show(key, k)+"=>"+c08Show(e, v))
				}
			}
			sort.Strings(parts)
			r.expect("dump", c08ShowStr("dm"), c08ShowInt(n), c08ShowInt(len(parts)), "map["+strings.Join(parts, " ")+"]")
		}
	}
	for n, t := range rec.Dump.T {
		dw(`ev("dt", %d, t%d)`, n, n)
		r.expect("dump", c08ShowStr("dt"), c08ShowInt(n), r.showT(t))
	}
	if nt > 0 {
		dw(`if pt == nil { ev("dpt", true) } else { ev("dpt", false, *pt) }`)
		if len(rec.Dump.Pt) == 0 {
			r.expect("dump", c08ShowStr("dpt"), c08ShowBool(true))
		} else {
			r.expect("dump", c08ShowStr("dpt"), c08ShowBool(false), r.showT(rec.Dump.Pt))
		}
	}
	for n, s := range rec.Dump.Str {
		b := make([]byte, len(s))
		for k, v := range s {
			b[k] = byte(v)
		}
		dw(`ev("dstr", %d, str%d)`, n, n)
		r.expect("dump", c08ShowStr("dstr"), c08ShowInt(n), c08ShowStr(string(b)))
	}
	// ---- declarations
	d := &r.decls
	if nt > 0 {
		fmt.Fprintf(d, "type %s struct { Y %s; Z [2]%s }\ntype %s struct { X %s; In %s }\n", r.tyU(), e, e, r.tyT(), e, r.tyU())
	}
	if r.needFv {
		fmt.Fprintf(d, "func fv%s(x [3]%s, v %s) %s { x[0] = v; return x[0] }\n", r.sfx, e, e, e)
	}
	if r.needFp {
		fmt.Fprintf(d, "func fp%s(x *[3]%s, v %s) %s { x[0] = v; return x[0] }\n", r.sfx, e, e, e)
	}
	if r.needFs {
		fmt.Fprintf(d, "func fs%s(x []%s, v1, v2 %s, app bool) int { if len(x) > 0 { x[0] = v1 }; if app { x = append(x, v2) }; return len(x) }\n", r.sfx, e, e)
	}
	if r.needGv {
		fmt.Fprintf(d, "func gv%s(x %s, v %s) %s { x.In.Y = v; return x.In.Y }\n", r.sfx, r.tyT(), e, e)
	}
	if r.needGp {
		fmt.Fprintf(d, "func gp%s(x *%s, v %s) %s { x.In.Y = v; return x.In.Y }\n", r.sfx, r.tyT(), e, e)
	}
	fmt.Fprintf(d, "func h%s() int {\n", r.sfx)
	var names []string
	decl := func(n int, prefix, ty string) {
		for k := 0; k < n; k++ {
			fmt.Fprintf(d, "\tvar %s%d %s\n", prefix, k, ty)
			names = append(names, fmt.Sprintf("%s%d", prefix, k))
		}
	}
	decl(ns, "s", "[]"+e)
	decl(na, "a", "[3]"+e)
	if na > 0 {
		fmt.Fprintf(d, "\tvar pa *[3]%s\n", e)
	}
	if ns+na > 0 {
		fmt.Fprintf(d, "\tvar pe *%s\n", e)
	}
	decl(nm, "m", "map["+key+"]"+e)
	if nm > 0 {
		fmt.Fprintf(d, "\tvar kk %s\n\t_ = kk\n", key)
	}
	decl(nt, "t", r.tyT())
	if nt > 0 {
		fmt.Fprintf(d, "\tvar pt *%s\n", r.tyT())
	}
	decl(nstr, "str", "string")
	fmt.Fprintf(d, "\tvar i, j, k int\n\t_, _, _ = i, j, k\n")
	fmt.Fprintf(d, "\tdefer func() {\n%s\t}()\n", dump.String())
	bodyLine := strings.Count(d.String(), "\n") + 1 // line number (1-based) of the first body statement
	d.WriteString(r.body.String())
	d.WriteString("\treturn 0\n}\n")

	want := "[int:0]"
	if rec.Pan != "" {
		want = c08Class("panic(" + rec.Pan + ")")
	}
	meta, _ := json.Marshal(map[string]interface{}{"rec": rec, "raw": string(raw), "elem": elem, "key": key, "forms": forms, "fam": fam, "ev_op": r.evOp, "ev_kind": r.evKind,
		"body_line": bodyLine, "line_op": r.lineOp})
	pc := &ProgCase{Key: id, Nontrivial: len(rec.Hist) >= 2, Decls: d.String(), Entry: "h" + r.sfx + "()", WantEvents: r.want, WantResult: want, Raw: meta}
	pc.Admissible = c08Admissible(pc)
	rt := &c08Rendered{Elem: elem}
	for t := range r.tags {
		rt.Tags = append(rt.Tags, t)
	}
	sort.Strings(rt.Tags)
	return pc, rt
}

package props

import (
	"bytes"
	"encoding/json"
	"fmt"
	"go/ast"
	goprinter "go/printer"
	"go/token"
	"os"
	"reflect"
	"strconv"
	"strings"

	"github.com/cosmos72/gomacro/base/output"
	"github.com/cosmos72/gomacro/go/etoken"
	mprinter "github.com/cosmos72/gomacro/go/printer"

	"verif/harness/core"
)

// C25: printing a syntax tree and reparsing it yields the same tree.
// Spec: spec/front/GoSyntax.tla (the derivations' trees); law Parse(Print(t)) = t on trees
// without positions and Print(Parse(Print(t))) = Print(t).
// (R) every derivation's tree is built as a real go/ast tree by the harness - once without
//     positions (as trees assembled by macros), once with the positions of the derivation's text -
//     printed by gomacro's go/printer (the configuration of base/output) and by base/output's
//     Stringer ("%v"), reparsed by the standard parser and by gomacro's parser, projected
//     without positions and compared with the derivation's tree; then printed again.
// Gate: the standard go/printer + go/parser on the same go/ast tree must give the model's tree.
// A change of the tree by the printer is admitted only for the listed normal forms and only if
// the standard printer changes the tree in the same way.

func init() {
	core.Register(&core.Prop{
		ID: "C25",
		Rule: "TLC enumerates leftmost derivations of Go's grammar (spec/front/GoSyntax.tla) as for C24 (bounded-exhaustive for expressions, statements, files; seeded simulation for larger programs); " +
			"the harness builds each derivation's tree as go/ast - without positions and with the text's positions - and prints every unit (file, each top-level declaration / statement / expression, the statement list) with gomacro's printer (printer.Config of base/output, and Stringer %v); " +
			"the output is reparsed by go/parser and by gomacro's parser, the tree without positions must be the derivation's, and printing the reparsed tree must reproduce the text; " +
			"a case is one printed unit in one variant; non-trivial = the unit has at least 3 tokens; distinct by unit text and variant",
		Run:      runC25,
		Replay:   replayC25,
		SelfTest: selfTestC25,
	})
}

// ---------------------------------------------------------------- building go/ast from the abstract tree

var c25Types = map[string]reflect.Type{}

func init() {
	for _, x := range []interface{}{ast.ArrayType{}, ast.AssignStmt{}, ast.BasicLit{}, ast.BinaryExpr{}, ast.BlockStmt{}, ast.BranchStmt{},
		ast.CallExpr{}, ast.CaseClause{}, ast.ChanType{}, ast.CommClause{}, ast.CompositeLit{}, ast.DeclStmt{}, ast.DeferStmt{},
		ast.Ellipsis{}, ast.EmptyStmt{}, ast.ExprStmt{}, ast.Field{}, ast.FieldList{}, ast.File{}, ast.ForStmt{}, ast.FuncDecl{},
		ast.FuncLit{}, ast.FuncType{}, ast.GenDecl{}, ast.GoStmt{}, ast.Ident{}, ast.IfStmt{}, ast.ImportSpec{}, ast.IncDecStmt{},
		ast.IndexExpr{}, ast.InterfaceType{}, ast.KeyValueExpr{}, ast.LabeledStmt{}, ast.MapType{}, ast.ParenExpr{}, ast.RangeStmt{},
		ast.ReturnStmt{}, ast.SelectStmt{}, ast.SelectorExpr{}, ast.SendStmt{}, ast.SliceExpr{}, ast.StarExpr{}, ast.StructType{},
		ast.SwitchStmt{}, ast.TypeAssertExpr{}, ast.TypeSpec{}, ast.TypeSwitchStmt{}, ast.UnaryExpr{}, ast.ValueSpec{}} {
		t := reflect.TypeOf(x)
		c25Types[t.Name()] = t
	}
}

var c25Tokens = func() map[string]token.Token {
	m := map[string]token.Token{}
	for t := token.ILLEGAL; t <= token.TILDE; t++ {
		m[t.String()] = t
	}
	return m
}()

// position attributes whose validity carries information that has no other place in the tree;
// they stay valid in the variant without positions
var c25Presence = map[string]bool{"CallExpr.Ellipsis": true, "TypeSpec.Assign": true, "GenDecl.Lparen": true, "GenDecl.Rparen": true}

// c25Build builds the go/ast node for n. base = 0: the variant without positions.
func c25Build(n *c24Node, base int) (res reflect.Value, err error) {
	t, ok := c25Types[n.Kind]
	if !ok {
		return res, fmt.Errorf("no go/ast type for node kind %s", n.Kind)
	}
	p := reflect.New(t)
	v := p.Elem()
	for i := 0; i < v.NumField(); i++ {
		name := t.Field(i).Name
		f := v.Field(i)
		switch {
		case f.Type() == c24PosType:
			if off, ok := n.Pos[name]; ok {
				switch {
				case base != 0:
					f.SetInt(int64(base + off))
				case c25Presence[n.Kind+"."+name]:
					f.SetInt(1)
				}
			}
		case f.Type() == c24TokType:
			if s, ok := n.Val[name]; ok {
				tok, ok := c25Tokens[s]
				if !ok {
					return res, fmt.Errorf("%s.%s: unknown token %q", n.Kind, name, s)
				}
				f.SetInt(int64(tok))
			}
		case f.Type() == c24DirType:
			switch n.Val[name] {
			case "BOTH":
				f.SetInt(int64(ast.SEND | ast.RECV))
			case "SEND":
				f.SetInt(int64(ast.SEND))
			case "RECV":
				f.SetInt(int64(ast.RECV))
			}
		case f.Kind() == reflect.String:
			f.SetString(n.Val[name])
		case f.Kind() == reflect.Bool:
			f.SetBool(n.Val[name] == "true")
		case f.Kind() == reflect.Slice:
			for _, c := range n.List[name] {
				cv, err := c25Build(c, base)
				if err != nil {
					return res, err
				}
				if !cv.Type().AssignableTo(f.Type().Elem()) {
					return res, fmt.Errorf("%s.%s: a %s cannot be an element", n.Kind, name, c.Kind)
				}
				f.Set(reflect.Append(f, cv))
			}
		case f.Kind() == reflect.Interface || f.Kind() == reflect.Ptr:
			if c, ok := n.Kid[name]; ok {
				cv, err := c25Build(c, base)
				if err != nil {
					return res, err
				}
				if !cv.Type().AssignableTo(f.Type()) {
					return res, fmt.Errorf("%s.%s: a %s cannot stand here", n.Kind, name, c.Kind)
				}
				f.Set(cv)
			}
		}
	}
	for k := range n.Kid {
		if _, ok := t.FieldByName(k); !ok {
			return res, fmt.Errorf("%s has no field %s", n.Kind, k)
		}
	}
	for k := range n.List {
		if _, ok := t.FieldByName(k); !ok {
			return res, fmt.Errorf("%s has no field %s", n.Kind, k)
		}
	}
	return p, nil
}

// c25NoPos: the tree without positions; what only the validity of a position says is kept as
// an attribute.
func c25NoPos(n *c24Node) *c24Node {
	if n == nil {
		return nil
	}
	m := c24NewNode(n.Kind)
	m.S, m.E = -1, -1
	for k, v := range n.Val {
		m.Val[k] = v
	}
	for k := range n.Pos {
		if c25Presence[n.Kind+"."+k] && k != "Rparen" {
			m.Val["has"+k] = "true"
		}
	}
	for k, c := range n.Kid {
		m.Kid[k] = c25NoPos(c)
	}
	for k, l := range n.List {
		for _, c := range l {
			m.List[k] = append(m.List[k], c25NoPos(c))
		}
	}
	return m
}

// c25Norm: what is left of a tree when the changes the Go printer is known to make are taken
// out: parentheses (gofmt drops redundant ones: nested parentheses, parentheses around the
// expressions of if / for / switch / range headers), explicit empty statements in statement
// lists ("{;}" is printed "{}", "L: ;" before "}" as "L:"), an empty result list ("func f() ()"
// is printed "func f()"), the quoting of import paths (`a` is printed "a").  Equality of the
// normal forms only says "nothing but these things changed"; such a change is admitted only if
// go/printer's output for the same tree reparses to exactly the same tree as gomacro's.
func c25Norm(n *c24Node) *c24Node {
	if n == nil {
		return nil
	}
	if n.Kind == "ParenExpr" {
		if x := n.Kid["X"]; x != nil {
			return c25Norm(x)
		}
	}
	m := c24NewNode(n.Kind)
	m.S, m.E = -1, -1
	for k, v := range n.Val {
		if n.Kind == "EmptyStmt" && k == "Implicit" {
			continue // "L: ;" before "}" is printed as "L:"
		}
		m.Val[k] = v
	}
	for k, c := range n.Kid {
		if n.Kind == "FuncType" && k == "Results" && len(c.List["List"]) == 0 {
			continue // "func f() ()" is printed as "func f()"
		}
		m.Kid[k] = c25Norm(c)
	}
	if p := m.Kid["Path"]; n.Kind == "ImportSpec" && p != nil {
		// go/printer writes import paths as interpreted string literals ("sanitized")
		if s, err := strconv.Unquote(p.Val["Value"]); err == nil {
			p.Val["Value"] = strconv.Quote(s)
		}
	}
	for k, l := range n.List {
		for _, c := range l {
			if c25IsExplicitEmpty(c) && (k == "List" || k == "Body") {
				continue
			}
			m.List[k] = append(m.List[k], c25Norm(c))
		}
	}
	return m
}

func c25IsExplicitEmpty(n *c24Node) bool {
	return n.Kind == "EmptyStmt" && n.Val["Implicit"] != "true"
}

func c25Equal(a, b *c24Node) (bool, string) {
	var ds []c24Diff
	c24Compare(a, b, "("+a.Kind+")", &ds)
	if len(ds) == 0 {
		return true, ""
	}
	return false, ds[0].Key + " at " + ds[0].What
}

// ---------------------------------------------------------------- printers

type c25Printer struct {
	Name string
	Fork bool
	F    func(fs *token.FileSet, efs *etoken.FileSet, node interface{}) (string, error)
}

var c25ForkCfg = mprinter.Config{Mode: mprinter.UseSpaces | mprinter.TabIndent, Tabwidth: 8} // as base/output/output.go
var c25StdCfg = goprinter.Config{Mode: goprinter.UseSpaces | goprinter.TabIndent, Tabwidth: 8}

func c25Guard(f func() (string, error)) (s string, err error) {
	defer func() {
		if r := recover(); r != nil {
			err = fmt.Errorf("panic: %v", r)
		}
	}()
	return f()
}

var c25Printers = []c25Printer{
	{Name: "printer.Fprint", Fork: true, F: func(fs *token.FileSet, efs *etoken.FileSet, node interface{}) (string, error) {
		return c25Guard(func() (string, error) {
			var b bytes.Buffer
			err := c25ForkCfg.Fprint(&b, fs, node)
			return b.String(), err
		})
	}},
	{Name: "Stringer%v", Fork: true, F: func(fs *token.FileSet, efs *etoken.FileSet, node interface{}) (string, error) {
		if _, ok := node.(ast.Node); !ok {
			return "", nil // %v prints single nodes only
		}
		return c25Guard(func() (string, error) {
			st := output.Stringer{Fileset: efs}
			s := st.Sprintf("%v", node)
			if strings.HasPrefix(s, "error pretty-printing") {
				return "", fmt.Errorf("%.60s", s)
			}
			return s, nil
		})
	}},
}

func c25StdPrint(fs *token.FileSet, node interface{}) (string, error) {
	return c25Guard(func() (string, error) {
		var b bytes.Buffer
		err := c25StdCfg.Fprint(&b, fs, node)
		return b.String(), err
	})
}

// ---------------------------------------------------------------- units

type c25Unit struct {
	Name  string
	Kind  string   // "file" | "decl" | "stmt" | "expr" | "stmts"
	Model *c24Node // for "stmts": a Top node with field List
	NTok  int
	// Expect, if set, replaces Model as the expected tree (self-test: a corrupted record)
	Expect *c24Node
}

func c25Units(cs *c24Case) []c25Unit {
	var us []c25Unit
	ntok := func(n *c24Node) int {
		k := 0
		for _, t := range cs.Tx.Toks {
			if t.BO >= n.S && t.BE <= n.E {
				k++
			}
		}
		return k
	}
	if cs.File {
		us = append(us, c25Unit{Name: "file", Kind: "file", Model: cs.Root, NTok: len(cs.Tx.Toks)})
		for i, d := range cs.Items {
			us = append(us, c25Unit{Name: fmt.Sprintf("decl[%d]", i), Kind: "decl", Model: d, NTok: ntok(d)})
		}
		return us
	}
	onlyStmts := true
	for i, it := range cs.FItems {
		kind := "stmt"
		switch {
		case it.Kind == "GenDecl" || it.Kind == "FuncDecl":
			kind = "decl"
		case !strings.HasSuffix(it.Kind, "Stmt"):
			kind = "expr"
		}
		if cs.Items[i].Kind == "FuncDecl" || cs.Items[i].Kind == "GenDecl" {
			onlyStmts = false // import / func declarations of a mixed top level are no statements
		}
		if c25IsExplicitEmpty(it) {
			continue // nothing to print
		}
		us = append(us, c25Unit{Name: fmt.Sprintf("item[%d]", i), Kind: kind, Model: it, NTok: ntok(it)})
	}
	if onlyStmts && len(cs.Items) > 1 {
		us = append(us, c25Unit{Name: "stmts", Kind: "stmts", Model: cs.Root, NTok: len(cs.Tx.Toks)})
	}
	return us
}

// c25Ast builds the go/ast value to print for a unit.
func c25Ast(u c25Unit, base int) (interface{}, error) {
	if u.Kind == "stmts" {
		var list []ast.Stmt
		for _, s := range u.Model.List["List"] {
			v, err := c25Build(s, base)
			if err != nil {
				return nil, err
			}
			st, ok := v.Interface().(ast.Stmt)
			if !ok {
				return nil, fmt.Errorf("%s is no statement", s.Kind)
			}
			list = append(list, st)
		}
		return list, nil
	}
	v, err := c25Build(u.Model, base)
	if err != nil {
		return nil, err
	}
	return v.Interface(), nil
}

// c25Expected: the unit's tree without positions, in the shape a parser returns it.
func c25Expected(u c25Unit) []*c24Node {
	if u.Expect != nil {
		u.Model = u.Expect
	}
	switch u.Kind {
	case "stmts":
		var out []*c24Node
		for _, s := range u.Model.List["List"] {
			out = append(out, c25NoPos(s))
		}
		return out
	case "file":
		f := c25NoPos(u.Model)
		return append([]*c24Node{f.Kid["Name"]}, f.List["Decls"]...)
	}
	return []*c24Node{c25NoPos(u.Model)}
}

type c25Reparsed struct {
	Err   string
	Nodes []*c24Node // without positions
	Asts  []ast.Node // for printing again
	Fs    *token.FileSet
	Efs   *etoken.FileSet
	File  *ast.File
}

// c25ReparseStd parses printed text with go/parser in the shape of the unit.
func c25ReparseStd(u c25Unit, txt string) (r c25Reparsed) {
	src := []byte(txt)
	file := u.Kind == "file" || u.Kind == "decl"
	if u.Kind == "decl" {
		src = append([]byte("package p\n"), src...)
	}
	// (an etoken.FileSet, so that base/output's Stringer can resolve the positions)
	efs := etoken.NewFileSet()
	p := c24ParseStdIn(&efs.FileSet, src, file, false)
	if p.Failed() {
		r.Err = p.Err + p.Panic
		return
	}
	r.Fs, r.Efs = &efs.FileSet, efs
	if u.Kind == "file" {
		r.File = p.Pkg
		r.Nodes = append(r.Nodes, c25NoPos(c24FromAst(p.Pkg.Name, p.Base, true)))
	}
	for _, n := range p.Nodes {
		if u.Kind == "expr" {
			n = c24UnwrapAst(n)
		}
		r.Asts = append(r.Asts, n)
		r.Nodes = append(r.Nodes, c25NoPos(c24FromAst(n, p.Base, true)))
	}
	return
}

// c25ReparseFork parses printed text with gomacro's parser (which needs no wrapping).
func c25ReparseFork(u c25Unit, txt string) (r c25Reparsed) {
	p, efs := c24ParseForkFs([]byte(txt))
	if p.Failed() {
		r.Err = p.Err
		if p.Panic != "" {
			r.Err = "panic: " + p.Panic
		}
		return
	}
	r.Efs, r.Fs = efs, &efs.FileSet
	nodes := p.Nodes
	if u.Kind == "file" {
		if len(nodes) == 0 {
			r.Err = "no package clause returned"
			return
		}
		g, ok := nodes[0].(*ast.GenDecl)
		if !ok || g.Tok != token.PACKAGE || len(g.Specs) != 1 {
			r.Err = "the first node is not the package clause"
			return
		}
		vs, ok := g.Specs[0].(*ast.ValueSpec)
		if !ok || len(vs.Names) != 1 {
			r.Err = "the first node is not the package clause"
			return
		}
		r.Nodes = append(r.Nodes, c25NoPos(c24FromAst(vs.Names[0], p.Base, true)))
		f := &ast.File{Package: g.TokPos, Name: vs.Names[0]}
		for _, n := range nodes[1:] {
			d, ok := n.(ast.Decl)
			if !ok {
				r.Err = fmt.Sprintf("a %T among the declarations of a file", n)
				return
			}
			f.Decls = append(f.Decls, d)
		}
		r.File = f
		nodes = nodes[1:]
	}
	for _, n := range nodes {
		if n == nil || reflect.ValueOf(n).IsNil() {
			r.Err = "nil node returned"
			return
		}
		r.Asts = append(r.Asts, n)
		cn := c24FromAst(n, p.Base, true)
		if u.Kind == "stmts" || u.Kind == "stmt" {
			// gomacro returns bare expressions / declarations: the statement list has the wrapped forms
		}
		r.Nodes = append(r.Nodes, c25NoPos(cn))
	}
	return
}

func c25SameNodes(exp, got []*c24Node, unwrapExp bool) (bool, string) {
	if len(exp) != len(got) {
		return false, fmt.Sprintf("Top.List:tree-differs at expected %d nodes, got %d", len(exp), len(got))
	}
	for i := range exp {
		e := exp[i]
		if unwrapExp {
			e = c24UnwrapNode(e)
		}
		if ok, d := c25Equal(e, got[i]); !ok {
			return false, d
		}
	}
	return true, ""
}

func c25NormAll(ns []*c24Node, unwrap bool) []*c24Node {
	var out []*c24Node
	for _, n := range ns {
		if c25IsExplicitEmpty(n) {
			continue
		}
		if unwrap {
			n = c24UnwrapNode(n)
		}
		out = append(out, c25Norm(n))
	}
	return out
}

// ---------------------------------------------------------------- verdict for one unit in one variant

type c25Verdict struct {
	GateOK   bool
	GateWhat string
	Sigs     map[string]string
	Info     map[string]string
	Cases    int
	Texts    []string
}

func c25Kind(diff string) string {
	// "Kind.Field:shape at ..." -> Kind
	k := diff
	if i := strings.Index(k, ":"); i >= 0 {
		k = k[:i]
	}
	if i := strings.Index(k, "."); i >= 0 {
		k = k[:i]
	}
	return k
}

func c25JudgeUnit(cs *c24Case, u c25Unit, positioned bool, v *c25Verdict) {
	c25JudgeUnitWith(c25Printers, cs, u, positioned, v)
}

// c25JudgeUnitWith judges one unit with the given printers (the self-test passes a broken one).
func c25JudgeUnitWith(printers []c25Printer, cs *c24Case, u c25Unit, positioned bool, v *c25Verdict) {
	variant := "no-positions"
	base := 0
	fs := token.NewFileSet()
	efs := etoken.NewFileSet()
	if positioned {
		variant = "positions"
		f := efs.AddFile("x.go", efs.Base(), len(cs.Tx.Src), 0)
		f.SetLinesForContent(cs.Tx.Src)
		base = f.Base()
		fs = &efs.FileSet
	}
	exp := c25Expected(u)
	// gate: the standard printer and parser on the same tree
	gateAst, err := c25Ast(u, base)
	if err != nil {
		v.GateOK, v.GateWhat = false, "the tree cannot be built as go/ast: "+err.Error()
		return
	}
	stdTxt, err := c25StdPrint(fs, gateAst)
	var stdRe c25Reparsed
	stdChanges := false // go/printer itself changes this tree
	if err != nil {
		v.GateOK, v.GateWhat = false, "go/printer fails: "+err.Error()
		return
	}
	stdRe = c25ReparseStd(u, stdTxt)
	if stdRe.Err != "" {
		v.GateOK, v.GateWhat = false, fmt.Sprintf("go/printer's output %q does not reparse: %s", stdTxt, stdRe.Err)
		return
	}
	if ok, _ := c25SameNodes(exp, stdRe.Nodes, false); !ok {
		stdChanges = true
		if ok, d := c25SameNodes(c25NormAll(exp, false), c25NormAll(stdRe.Nodes, false), false); !ok {
			v.GateOK, v.GateWhat = false, fmt.Sprintf("go/printer's output %q reparses to another tree: %s", stdTxt, d)
			return
		}
	}
	stdIdem := true
	if again, err := c25PrintAgain(stdRe, u, func(fs *token.FileSet, efs *etoken.FileSet, n interface{}) (string, error) { return c25StdPrint(fs, n) }); err != nil || again != stdTxt {
		stdIdem = false
	}
	for _, pr := range printers {
		a, err := c25Ast(u, base)
		if err != nil {
			v.GateOK, v.GateWhat = false, err.Error()
			return
		}
		var pefs *etoken.FileSet
		if positioned {
			pefs = efs
		}
		txt, err := pr.F(fs, pefs, a)
		if err == nil && txt == "" && pr.Name == "Stringer%v" {
			continue // not a single node
		}
		v.Cases++
		v.Texts = append(v.Texts, txt)
		tag := "@" + variant
		if pr.Name == "Stringer%v" {
			// "%v" must print what printer.Fprint prints with base/output's configuration
			if err == nil && len(v.Texts) >= 2 && txt != v.Texts[len(v.Texts)-2] {
				v.Sigs["print("+u.Model.Kind+"):stringer-differs"+tag] = fmt.Sprintf("unit %s: printer.Fprint %q, Stringer %%v %q", u.Name, v.Texts[len(v.Texts)-2], txt)
			}
			if err == nil {
				continue // same text: judged already
			}
		}
		if err != nil {
			v.Sigs["print("+u.Model.Kind+"):printer-fails"+tag] = fmt.Sprintf("unit %s: %s: %v", u.Name, pr.Name, err)
			continue
		}
		// reparse with the standard parser (the reference) and with gomacro's parser
		for _, withFork := range []bool{false, true} {
			var re c25Reparsed
			ptag := tag
			if withFork {
				re = c25ReparseFork(u, txt)
				ptag = "@gomacro-parser" // what only gomacro's own parser shows is (also) a matter of the parser, cf. C24
			} else {
				re = c25ReparseStd(u, txt)
			}
			unwrap := withFork && (u.Kind == "stmts" || u.Kind == "stmt" || u.Kind == "expr" || u.Kind == "decl")
			if re.Err != "" {
				kind := c25LocaliseReparse(a, fs, pefs, withFork, strings.HasPrefix(re.Err, "panic"), u.Model.Kind)
				if withFork {
					// go/parser reads the text: a matter of gomacro's parser (cf. C24)
					ptag = "@gomacro-parser"
				}
				v.Sigs["print("+kind+"):does-not-reparse"+ptag] = fmt.Sprintf("unit %s printed as %q: %s", u.Name, txt, re.Err)
				continue
			}
			if ok, d := c25SameNodes(exp, re.Nodes, unwrap); !ok {
				okN, dN := c25SameNodes(c25NormAll(exp, unwrap), c25NormAll(re.Nodes, false), false)
				if !okN {
					d = dN // name the difference that is not one of the printer's normal forms
				}
				same, _ := c25SameNodes(c25NormAll(stdRe.Nodes, unwrap), c25NormAll(re.Nodes, false), false)
				sameRaw := false
				if !withFork {
					sameRaw, _ = c25SameNodes(stdRe.Nodes, re.Nodes, false)
				} else {
					var un []*c24Node
					for _, n := range stdRe.Nodes {
						un = append(un, n)
					}
					sameRaw, _ = c25SameNodes(un, re.Nodes, unwrap)
				}
				if okN && stdChanges && same && sameRaw {
					v.Info["normal form as go/printer: "+c25Kind(d)] = fmt.Sprintf("%q", txt)
				} else {
					v.Sigs["print("+c25Kind(d)+"):reparse-differs"+ptag] = fmt.Sprintf("unit %s printed as %q: %s", u.Name, txt, d)
				}
				continue
			}
			// idempotence: printing the reparsed tree gives the same text
			again, err := c25PrintAgain(re, u, pr.F)
			if err != nil {
				v.Sigs["print("+u.Model.Kind+"):printer-fails"+ptag] = fmt.Sprintf("unit %s, second printing: %v", u.Name, err)
			} else if again != txt {
				if !stdIdem {
					v.Info["not idempotent as go/printer: "+u.Model.Kind] = fmt.Sprintf("%q", txt)
				} else {
					v.Sigs["print("+u.Model.Kind+"):not-idempotent"+ptag] = fmt.Sprintf("unit %s: first %q, again %q", u.Name, txt, again)
				}
			}
		}
	}
}

// c25PrintAgain prints the reparsed unit.
func c25PrintAgain(re c25Reparsed, u c25Unit, pf func(fs *token.FileSet, efs *etoken.FileSet, node interface{}) (string, error)) (string, error) {
	var node interface{}
	switch u.Kind {
	case "file":
		node = re.File
	case "stmts":
		var list []ast.Stmt
		for _, n := range re.Asts {
			switch x := n.(type) {
			case ast.Stmt:
				list = append(list, x)
			case ast.Expr:
				list = append(list, &ast.ExprStmt{X: x})
			case ast.Decl:
				list = append(list, &ast.DeclStmt{Decl: x})
			}
		}
		node = list
	default:
		if len(re.Asts) != 1 {
			return "", fmt.Errorf("%d nodes", len(re.Asts))
		}
		node = re.Asts[0]
	}
	return pf(re.Fs, re.Efs, node)
}

// c25LocaliseReparse: the kind of the smallest expression / statement / declaration inside the
// unit whose printed form does not parse.
func c25LocaliseReparse(a interface{}, fs *token.FileSet, efs *etoken.FileSet, withFork, panics bool, def string) string {
	best, bestLen := def, 1<<30
	visit := func(n ast.Node) bool {
		if n == nil || reflect.ValueOf(n).IsNil() {
			return true
		}
		kind := "stmt"
		switch n.(type) {
		case ast.Expr:
			kind = "expr"
		case ast.Stmt:
		case ast.Decl:
			kind = "decl"
		default:
			return true
		}
		txt, err := c25Printers[0].F(fs, efs, n)
		if err != nil || len(txt) >= bestLen {
			return true
		}
		if kind == "expr" {
			switch n.(type) {
			case *ast.ArrayType, *ast.StructType, *ast.FuncType, *ast.InterfaceType, *ast.MapType, *ast.ChanType:
				txt = "var _ " + txt
			default:
				txt = "_ = " + txt
			}
			kind = "stmt"
		}
		u := c25Unit{Kind: kind}
		failed := false
		if withFork {
			e := c25ReparseFork(u, txt).Err
			failed = e != "" && strings.HasPrefix(e, "panic") == panics && c25ReparseStd(u, txt).Err == ""
		} else {
			failed = c25ReparseStd(u, txt).Err != ""
		}
		if failed {
			best, bestLen = reflect.TypeOf(n).Elem().Name(), len(txt)
		}
		return true
	}
	switch x := a.(type) {
	case ast.Node:
		ast.Inspect(x, visit)
	case []ast.Stmt:
		for _, s := range x {
			ast.Inspect(s, visit)
		}
	}
	return best
}

// ---------------------------------------------------------------- run

func c25JudgeRun(r *c24Runner, rec *c24Rec, cs *c24Case, count bool) {
	c := r.c
	// the derivation must be valid Go in go/parser's eyes (the gate of the grammar, as in C24)
	if _, _, _, serr := c24StdItems(cs, false); serr != "" {
		if count {
			c.Gate(false)
		}
		return
	}
	for _, u := range c25Units(cs) {
		for _, positioned := range []bool{false, true} {
			v := &c25Verdict{GateOK: true, Sigs: map[string]string{}, Info: map[string]string{}}
			c25JudgeUnit(cs, u, positioned, v)
			if count {
				c.Gate(v.GateOK)
				c.Trace()
				for i, t := range v.Texts {
					c.Case(fmt.Sprintf("%v|%d|%s", positioned, i, t), u.NTok >= 3)
				}
				r.stat("units", 1)
				r.stat("printed_texts", int64(v.Cases))
				r.mu.Lock()
				if !v.GateOK && len(r.gateBad) < 30 {
					r.gateBad = append(r.gateBad, fmt.Sprintf("%q unit %s positions=%v: %s", cs.Tx.Src, u.Name, positioned, v.GateWhat))
				}
				if r.sampled < 5 && len(v.Texts) > 0 && u.NTok >= 8 && u.NTok <= 40 {
					r.sampled++
					c.Sample(map[string]interface{}{"source": string(cs.Tx.Src), "unit": u.Name, "positions": positioned, "printed": v.Texts[0]})
				}
				r.mu.Unlock()
				for k, ex := range v.Info {
					r.info("info "+k, ex)
				}
			}
			if !v.GateOK {
				continue
			}
			for sig, what := range v.Sigs {
				v2 := &c25Verdict{GateOK: true, Sigs: map[string]string{}, Info: map[string]string{}}
				c25JudgeUnit(cs, u, positioned, v2)
				if _, ok := v2.Sigs[sig]; !ok {
					r.fail(core.Infra("mismatch not reproducible on %q: %s", cs.Tx.Src, sig))
					return
				}
				if c24Debug {
					r.info("debug_violation "+sig, fmt.Sprintf("%q: %s", cs.Tx.Src, what))
				}
				c.Violation(sig, fmt.Sprintf("tree of %q: %s", cs.Tx.Src, what), rec)
			}
		}
	}
}

func c25Plans(c *core.Ctx) []c24Plan {
	if c.Thorough() {
		return []c24Plan{
			{Name: "bfs", Starts: []c24Start{{"TopExpr", 5}, {"TopStmt", 3}, {"File", 4}}},
			{Name: "sim", Starts: []c24Start{{"File", 6}, {"File", 15}, {"File", 30}, {"File", 50}, {"Top", 5}, {"Top", 12}, {"Top", 25}, {"Top", 40},
				{"TopMixed", 8}, {"TopMixed", 20}}, Sim: true, Num: 5500, Depth: 1500},
		}
	}
	return []c24Plan{
		{Name: "bfs", Starts: []c24Start{{"TopExpr", 4}, {"TopStmt", 3}, {"File", 3}}},
		{Name: "sim", Starts: []c24Start{{"File", 5}, {"File", 12}, {"File", 25}, {"Top", 4}, {"Top", 10}, {"Top", 20}, {"Top", 35}, {"TopMixed", 8}, {"TopMixed", 18}},
			Sim: true, Num: 1500, Depth: 1200},
	}
}

func runC25(c *core.Ctx) error {
	r := newC24Runner(c, c25JudgeRun)
	plans := c25Plans(c)
	if f := os.Getenv("C24_PLANS"); f != "" { // development aid
		var sel []c24Plan
		for _, p := range plans {
			if strings.Contains(","+f+",", ","+p.Name+",") {
				sel = append(sel, p)
			}
		}
		plans = sel
		c.MaxViolations = 60
	}
	runErr := c24RunPlans(c, r, plans)
	if err := r.finish(); err != nil {
		return err
	}
	if runErr != nil {
		return runErr
	}
	c.Exhaustive = false
	for k, v := range r.stats {
		c.Extra[k] = v
	}
	if len(r.infoEx) > 0 {
		c.Extra["information_examples"] = r.infoEx
	}
	if len(r.gateBad) > 0 {
		c.Extra["gate_reject_examples"] = r.gateBad
	}
	if c24Debug {
		for _, g := range r.gateBad {
			fmt.Println("GATE-REJECT", g)
		}
		for k, v := range r.infoEx {
			fmt.Println("INFO", k, r.stats[k], v)
		}
	}
	c.Assume("the trees are those of GoSyntax derivations (the parser's output on valid Go, C24); trees built by macro expansion (C20/C21) are represented by the variant without positions")
	c.Assume("in the variant without positions the positions whose validity alone carries information stay valid: CallExpr.Ellipsis (f(x...)), TypeSpec.Assign (alias), GenDecl.Lparen/Rparen (grouping)")
	c.Assume("the reference for reparsing is go/parser (go1.23); a change of the tree by the printer is admitted only if it concerns redundant parentheses, explicit empty statements, an empty result list or the quoting of an import path AND go/printer's output for the same tree reparses to exactly the same tree; comments are not part of the trees")
	c.Assume("results obtained by reparsing with gomacro's own parser carry the signature suffix gomacro-parser (they can also be consequences of parser defects, C24)")
	return nil
}

func replayC25(c *core.Ctx, raw json.RawMessage) error {
	var rec c24Rec
	if err := json.Unmarshal(raw, &rec); err != nil {
		return err
	}
	if err := rec.decode(); err != nil {
		return core.Infra("replay record: %v", err)
	}
	r := newC24Runner(c, c25JudgeRun)
	cs, err := c24Prepare(&rec, r.spell, rec.Seed)
	if err != nil {
		return core.Infra("replay record does not render: %v", err)
	}
	r.judge(r, &rec, cs, false)
	return r.finish()
}

func selfTestC25(c *core.Ctx) error {
	return c25SelfTest(c)
}

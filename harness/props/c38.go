package props

import (
	"bytes"
	"encoding/json"
	"fmt"
	"reflect"
	"strings"
	"sync"

	"github.com/cosmos72/gomacro/classic"

	"verif/harness/core"
	"verif/harness/show"
)

// C38: the classic interpreter on its documented subset. Spec: spec/sem/ClassicSubset.tla
// (= Defer.tla restricted by the predicate InClassicSubset) and spec/sem/Calls.tla with the
// closure-signature cells over the subset's default kinds (int, float64, string, bool).
// Every behaviour is rendered exactly as for the fast interpreter (so the Go gate of C07/C06
// pins the same renderings to compiled Go; a seeded sample is gated here too) and replayed on
// classic.Interp event by event.

func init() {
	core.Register(&core.Prop{
		ID: "C38",
		Rule: "TLC enumerates Defer.tla programs inside the classic subset (BFS + simulation) and Calls.tla closure/pointer histories rendered with int/float64/string/bool closure signatures; each is run on classic.Interp and compared event by event; " +
			"non-trivial = the program defers, panics or uses an escaped closure after frame-recycling calls; distinct by program text",
		Run:      runC38,
		SelfTest: selfTestC38,
	})
}

type c38Interp struct {
	ir     *classic.Interp
	out    bytes.Buffer
	events []string
}

func newC38Interp(prelude string) *c38Interp {
	g := &c38Interp{ir: classic.New()}
	g.ir.Stdout = &g.out
	g.ir.Stderr = &g.out
	ev := func(args ...interface{}) {
		parts := make([]string, len(args))
		for i, a := range args {
			parts[i] = show.Show(a)
		}
		g.events = append(g.events, strings.Join(parts, " "))
	}
	g.ir.DefineFunc("ev", reflect.TypeOf(ev), reflect.ValueOf(ev))
	g.eval(`import "errors"`)
	if prelude != "" {
		if _, p := g.eval(prelude); p != "" {
			panic("classic prelude: " + p)
		}
	}
	return g
}

func (g *c38Interp) eval(src string) (result string, panicked string) {
	defer func() {
		if r := recover(); r != nil {
			panicked = show.ShowPanic(r)
			result = "panic(" + panicked + ")"
		}
	}()
	v, vs := g.ir.Eval(src)
	if len(vs) == 0 {
		if !v.IsValid() {
			return "[]", ""
		}
		vs = []reflect.Value{v}
	}
	parts := make([]string, len(vs))
	for i, x := range vs {
		parts[i] = show.ShowRV(x)
	}
	return "[" + strings.Join(parts, ", ") + "]", ""
}

func (g *c38Interp) run(pc *ProgCase) (events []string, result string) {
	g.events = nil
	if _, p := g.eval(pc.Decls); p != "" {
		return nil, "declpanic(" + p + ")"
	}
	res, _ := g.eval(pc.Entry)
	return append([]string(nil), g.events...), res
}

func c38Conforms(pc *ProgCase, events []string, result string) bool {
	want := stripBook(pc.WantEvents)
	if result != pc.WantResult || len(events) != len(want) {
		return false
	}
	for i := range want {
		if want[i] != events[i] {
			return false
		}
	}
	return true
}

func runC38(c *core.Ctx) error {
	ops := `c_Ops == ClassicDeferOps`
	invs := "TypeOK DoneClean InClassicSubset Emit"
	cfg := func(nf, maxOps, maxTotal int, pv string) string {
		return strings.Replace(c07Cfg(nf, maxOps, maxTotal, pv, 0), "INVARIANTS TypeOK PanicModeHasPanic RunnerValid DoneClean ImplAgrees FaultOnce Emit", "INVARIANTS "+invs, 1)
	}
	stride := c.Pick(6, 1)
	n := 0
	keep := func(k int) bool { n++; return (n+int(c.Seed))%stride == 0 }
	cases, err := c07Collect(c, core.TLCOpts{Spec: "ClassicSubset", MCDefs: ops, CfgName: "defer-bfs", Cfg: cfg(3, 3, c.Pick(4, 5), "{1,2}")}, keep)
	if err != nil {
		return err
	}
	sim, err := c07Collect(c, core.TLCOpts{Spec: "ClassicSubset", MCDefs: ops, CfgName: "defer-sim", Cfg: cfg(4, 4, 9, "{1,2,3,4}"),
		Simulate: true, SimNum: c.Pick(100, 1500), SimDepth: 100, Seed: c.Seed}, nil)
	if err != nil {
		return err
	}
	cases = append(cases, sim...)
	preludes := make([]string, len(cases))
	for i := range preludes {
		preludes[i] = c07Prelude
	}
	// closure histories with the subset's kinds
	var recs []c06Rec
	var raws [][]byte
	if _, err := c.TLC(core.TLCOpts{Spec: "Calls", CfgName: "calls-sim", Cfg: c06Cfg(c.Pick(6, 8), "{1,33}", "{40}"),
		Simulate: true, SimNum: c.Pick(25, 300), SimDepth: 10, Seed: c.Seed, OnLine: func(line []byte) {
			var r c06Rec
			if json.Unmarshal(line, &r) == nil {
				recs = append(recs, r)
				raws = append(raws, append([]byte(nil), line...))
			}
		}}); err != nil {
		return err
	}
	var cells []c06Cell
	for _, a := range []string{"int", "float64", "string", "bool"} {
		for _, r := range []string{"int", "float64", "string", ""} {
			cells = append(cells, c06Cell{Args: []string{a}, Ret: r, Name: "func1(" + a + ")ret:" + r})
		}
	}
	cells = append(cells, c06Cell{Args: nil, Ret: "int", Name: "func0ret:int"}, c06Cell{Args: []string{"int", "string"}, Ret: "int", Name: "func2"})
	for i := range recs {
		cases = append(cases, c06Render(&recs[i], cells[(i+int(c.Seed))%len(cells)], raws[i]))
		preludes = append(preludes, c06Prelude)
	}
	// nested panics: the semantics is Go's; classic has its own implementation, judge it too
	var mu sync.Mutex
	var firstErr error
	chunk := 40
	core.ParDo((len(cases)+chunk-1)/chunk, 14, func(j int) {
		var g *c38Interp
		cur := ""
		used := 0
		for i := j * chunk; i < (j+1)*chunk && i < len(cases); i++ {
			pc := cases[i]
			if g == nil || cur != preludes[i] || used > 30 {
				g = newC38Interp(preludes[i])
				cur = preludes[i]
				used = 0
			}
			used++
			ev, res := g.run(pc)
			c.Case(pc.Key, pc.Nontrivial)
			c.Trace()
			if strings.HasPrefix(res, "panic(") {
				// the property is about programs, not histories: a panic that escaped an evaluation
				// of the classic interpreter (which has no counterpart of the fast interpreter's
				// clean-up, C12) must not colour the programs that follow
				g = nil
			}
			if c38Conforms(pc, ev, res) {
				continue
			}
			g = nil
			ev2, res2 := newC38Interp(preludes[i]).run(pc)
			if c38Conforms(pc, ev2, res2) {
				mu.Lock()
				firstErr = core.Infra("disagreement not reproducible in a fresh classic interpreter: %s", describeDiff(stripBook(pc.WantEvents), ev, pc.WantResult, res))
				mu.Unlock()
				continue
			}
			sig := c38Sig(pc, ev2, res2)
			c.Violation(sig, describeDiff(stripBook(pc.WantEvents), ev2, pc.WantResult, res2)+"\nprogram:\n"+pc.Decls+"entry: "+pc.Entry,
				map[string]interface{}{"decls": pc.Decls, "entry": pc.Entry, "want_events": stripBook(pc.WantEvents), "want_result": pc.WantResult})
		}
	})
	if len(cases) > 2 {
		c.Sample(map[string]interface{}{"program": cases[len(cases)/3].Decls, "expected_events": stripBook(cases[len(cases)/3].WantEvents), "expected_result": cases[len(cases)/3].WantResult})
	}
	c.Assume("renderings are those of C07/C06, whose Go gate pins them to compiled Go; the subset excludes comparing interface values with nil (classic's interpreted interfaces are documented as not functional)")
	return firstErr
}

func c38Sig(pc *ProgCase, events []string, result string) string {
	kind := "closures"
	var rec c07Rec
	if json.Unmarshal(pc.Raw, &rec) == nil && len(rec.Body) > 0 {
		// predicates over the behaviour (computed from the specification's record)
		var preds []string
		named := false
		for _, ops := range rec.Body {
			for _, op := range ops {
				if op.K == "set" || op.K == "deferclo" {
					named = true
				}
			}
		}
		if named {
			preds = append(preds, "SigNamedResultAssigned")
		}
		for _, e := range rec.Log {
			if len(e) >= 4 && e[0] == "R" && num(e[3]) == 0 {
				preds = append(preds, "SigNilRecoverPassedToCompiled")
				break
			}
		}
		for _, e := range rec.Log {
			if len(e) >= 4 && e[0] == "R" && num(e[3]) != 0 {
				preds = append(preds, "SigRecoverInDirectlyDeferredFunction")
				break
			}
		}
		if rec.MaxP >= 2 {
			preds = append(preds, "SigNestedPanic")
		}
		// one root cause is reported per behaviour: the first predicate that holds, in the
		// order nil-recover, recover-in-deferred-function, named-result, nested-panic
		for _, p := range []string{"SigNilRecoverPassedToCompiled", "SigRecoverInDirectlyDeferredFunction", "SigNamedResultAssigned", "SigNestedPanic"} {
			for _, q := range preds {
				if p == q {
					return "classic:defer(" + p + "):differs"
				}
			}
		}
		kind = "defer()"
	}
	shape := "events-differ"
	switch {
	case strings.HasPrefix(result, "declpanic("):
		shape = "declaration-rejected"
	case strings.HasPrefix(result, "panic(") && !strings.HasPrefix(pc.WantResult, "panic("):
		shape = "unexpected-panic"
	case !strings.HasPrefix(result, "panic(") && strings.HasPrefix(pc.WantResult, "panic("):
		shape = "panic-lost"
	case len(events) == len(pc.WantEvents):
		shape = "value-differs"
	}
	return "classic:" + kind + ":" + shape
}

func selfTestC38(c *core.Ctx) error {
	raw := []byte(`{"body":{"0":[{"k":"defer","g":1},{"k":"L"}],"1":[{"k":"L"}]},"log":[["L",0,2,false,1],["L",1,1,true,2]],"outcome":["done",0]}`)
	var rec c07Rec
	json.Unmarshal(raw, &rec)
	pc := c07Render(&rec, raw)
	ev, res := newC38Interp(c07Prelude).run(pc)
	if !c38Conforms(pc, ev, res) {
		return fmt.Errorf("correct record rejected: %v %s", ev, res)
	}
	pc.WantResult = "[int:9]"
	if c38Conforms(pc, ev, res) {
		return fmt.Errorf("corrupted record accepted")
	}
	return nil
}

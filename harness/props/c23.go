package props

import (
	"bytes"
	"encoding/json"
	"fmt"
	goscanner "go/scanner"
	"go/token"
	"hash/fnv"
	"os"
	"strconv"
	"strings"
	"sync"
	"time"

	"github.com/cosmos72/gomacro/go/etoken"
	mscanner "github.com/cosmos72/gomacro/go/scanner"

	"verif/harness/core"
)

// C23: the forked scanner tokenizes extension-free input exactly like the Go scanner.
// Spec: spec/front/Lexer.tla (Go's lexical grammar as a small-step scanner over an abstract
// alphabet, with a raw bounded-exhaustive generator and a derivation generator).
// (M) TLC checks the stream invariants (offsets increase, coverage, maximal munch, the
//     "Semicolons" rule, derivation = scanner) on every generated input.
// (R) every emitted (input, tokens, error count) is rendered to bytes and scanned by
//     gomacro's go/scanner in both modes (ScanComments on/off) and compared.
// Gate: the standard library go/scanner on the same bytes must agree with the model.
// Second, model-independent oracle: fork vs standard library directly.

func init() {
	core.Register(&core.Prop{
		ID: "C23",
		Rule: "TLC enumerates (a) every string up to a length bound over several focus alphabets of the abstract lexical alphabet (numbers, strings/runes/escapes, comments/semicolons/raw strings, operators, keywords, illegal characters) and " +
			"(b) derivations: token sequences from a menu of every token form with separators of blanks, newlines and comments (seeded simulation; thorough: also every menu token in every separator context, BFS); each with the token stream (kind, literal, offset), automatic semicolons and error count the Go lexical grammar prescribes; " +
			"each input is rendered to bytes (class representatives vary with the seed) and scanned by gomacro's scanner with and without ScanComments; a case is one input; " +
			"non-trivial = the expected stream has at least two tokens or an error; distinct by abstract input",
		Run:      runC23,
		Replay:   replayC23,
		SelfTest: selfTestC23,
	})
}

// ---------------------------------------------------------------- model records

type c23Tok struct {
	K   string `json:"k"`
	O   int    `json:"o"`
	E   int    `json:"e"`
	LM  int    `json:"lm"` // 0 no literal, 1 source extent minus Dr, 2 "\n", 3 U+FFFD
	Alt int    `json:"alt"`
	AI  int    `json:"ai"`
	Adm bool   `json:"adm"`
	Dr  []int  `json:"dr,omitempty"`
}

type c23Rec struct {
	In   []int    `json:"in"`
	Toks []c23Tok `json:"toks"`
	NErr int      `json:"nerr"`
	Ext  bool     `json:"ext"`
	Src  []int    `json:"src,omitempty"` // rendered bytes (replay files)
}

// c23Decode parses one flat record printed by Lexer!Emit: "<<n, in..., nerr, ext, ntoks, tok...>>".
func c23Decode(line []byte, kinds []string) (*c23Rec, error) {
	s := strings.TrimSpace(string(line))
	if !strings.HasPrefix(s, "<<") || !strings.HasSuffix(s, ">>") {
		return nil, fmt.Errorf("not a tuple: %.60s", s)
	}
	s = s[2 : len(s)-2]
	var v []int
	if strings.TrimSpace(s) != "" {
		for _, f := range strings.Split(s, ",") {
			n, err := strconv.Atoi(strings.TrimSpace(f))
			if err != nil {
				return nil, fmt.Errorf("bad integer %q", f)
			}
			v = append(v, n)
		}
	}
	p := 0
	next := func() (int, error) {
		if p >= len(v) {
			return 0, fmt.Errorf("record too short")
		}
		p++
		return v[p-1], nil
	}
	r := &c23Rec{}
	n, err := next()
	if err != nil {
		return nil, err
	}
	for i := 0; i < n; i++ {
		x, err := next()
		if err != nil {
			return nil, err
		}
		r.In = append(r.In, x)
	}
	ne, _ := next()
	ex, _ := next()
	nt, err := next()
	if err != nil {
		return nil, err
	}
	r.NErr, r.Ext = ne, ex != 0
	for i := 0; i < nt; i++ {
		var f [8]int
		for j := range f {
			if f[j], err = next(); err != nil {
				return nil, err
			}
		}
		if f[0] < 1 || f[0] > len(kinds) {
			return nil, fmt.Errorf("bad kind index %d", f[0])
		}
		t := c23Tok{K: kinds[f[0]-1], O: f[1], E: f[2], LM: f[3], Alt: f[4], AI: f[5], Adm: f[6] != 0}
		for j := 0; j < f[7]; j++ {
			x, err := next()
			if err != nil {
				return nil, err
			}
			t.Dr = append(t.Dr, x)
		}
		r.Toks = append(r.Toks, t)
	}
	if p != len(v) {
		return nil, fmt.Errorf("trailing data in record")
	}
	return r, nil
}

// ---------------------------------------------------------------- rendering

var c23Classes = map[int][]string{
	0:   {"\x00"},
	32:  {" ", "\t", " "},
	64:  {"@", "$", "?"},
	128: {"2", "3"},
	129: {"4", "5", "6", "7"},
	130: {"8", "9"},
	131: {"A", "C", "F"},
	132: {"G", "H", "K", "M", "N", "Q", "R", "S", "T", "W", "Z"},
	133: {"\xEF\xBB\xBF"},
	134: {"é", "λ", "世", "Ж"},
	135: {"٣", "９", "५"},
	136: {"\x80", "\xFF", "\xC0", "\xBF", "\xFE"},
	137: {"€", "“", "×", "→"},
	138: {"\x01", "\x7f", "\x0c", "\x1b"},
}

// c23Render maps an abstract input to bytes; off[i] is the byte offset of code i (off[len] = len(src)).
func c23Render(in []int, seed int64) (src []byte, off []int) {
	h := fnv.New64a()
	fmt.Fprintf(h, "%d|%v", seed, in)
	x := h.Sum64()
	off = make([]int, len(in)+1)
	for i, c := range in {
		off[i] = len(src)
		if reps, ok := c23Classes[c]; ok {
			x = x*6364136223846793005 + 1442695040888963407
			src = append(src, reps[int((x>>33)%uint64(len(reps)))]...)
		} else {
			src = append(src, byte(c))
		}
	}
	off[len(in)] = len(src)
	return
}

// ---------------------------------------------------------------- concrete streams

type c23CTok struct {
	Kind string
	Lit  string
	Off  int
	Auto bool   // automatically inserted semicolon
	Pos  string // line:column (scanner oracles only)
}

func (t c23CTok) String() string {
	k := t.Kind
	if t.Auto {
		k = "auto;"
	}
	return fmt.Sprintf("%s %q @%d", k, t.Lit, t.Off)
}

type c23Stream struct {
	Toks  []c23CTok
	NErr  int
	Panic string
}

func c23ScanStd(src []byte, comments bool) (st c23Stream) {
	defer func() {
		if r := recover(); r != nil {
			st.Panic = fmt.Sprint(r)
		}
	}()
	fset := token.NewFileSet()
	f := fset.AddFile("", fset.Base(), len(src))
	var s goscanner.Scanner
	var mode goscanner.Mode
	if comments {
		mode = goscanner.ScanComments
	}
	s.Init(f, src, func(token.Position, string) { st.NErr++ }, mode)
	for n := 0; n < 4*len(src)+8; n++ {
		pos, tok, lit := s.Scan()
		if tok == token.EOF {
			break
		}
		p := f.Position(pos)
		st.Toks = append(st.Toks, c23CTok{Kind: tok.String(), Lit: lit, Off: f.Offset(pos),
			Auto: tok == token.SEMICOLON && lit == "\n", Pos: fmt.Sprintf("%d:%d", p.Line, p.Column)})
	}
	return
}

func c23ScanFork(src []byte, comments bool) (st c23Stream) {
	defer func() {
		if r := recover(); r != nil {
			st.Panic = fmt.Sprint(r)
		}
	}()
	fset := etoken.NewFileSet()
	f := fset.AddFile("", fset.Base(), len(src), 0)
	var s mscanner.Scanner
	var mode mscanner.Mode
	if comments {
		mode = mscanner.ScanComments
	}
	s.Init(f, src, func(token.Position, string) { st.NErr++ }, mode, '~')
	for n := 0; n < 4*len(src)+8; n++ {
		pos, tok, lit := s.Scan()
		if tok == token.EOF {
			break
		}
		p := f.Position(pos)
		st.Toks = append(st.Toks, c23CTok{Kind: etoken.String(tok), Lit: lit, Off: f.Offset(pos),
			Auto: tok == token.SEMICOLON && lit == "\n", Pos: fmt.Sprintf("%d:%d", p.Line, p.Column)})
	}
	return
}

// c23Expected projects the model's stream on the rendered bytes.
// variant 0: as the Go scanner orders it; 1: the admissible automatic semicolon (a comment
// ends the input) moved to its other position; 2: every automatic semicolon that follows a
// comment run moved to the start of that run (the placement of go/scanner before go1.20).
func c23Expected(r *c23Rec, src []byte, off []int, comments bool, variant int) []c23CTok {
	out := make([]c23CTok, 0, len(r.Toks))
	type mv struct {
		tok c23CTok
		ai  int
	}
	var moved []mv
	for _, t := range r.Toks {
		if t.O < 0 || t.E < t.O || t.E >= len(off) || t.Alt >= len(off) {
			// malformed record (cannot come from the model): never equal to a real stream
			out = append(out, c23CTok{Kind: "\x00malformed", Off: -1})
			continue
		}
		ct := c23CTok{Kind: t.K, Off: off[t.O], Auto: t.LM == 2}
		switch t.LM {
		case 1:
			if len(t.Dr) == 0 {
				ct.Lit = string(src[off[t.O]:off[t.E]])
			} else {
				drop := map[int]bool{}
				for _, d := range t.Dr {
					drop[d] = true
				}
				var b []byte
				for i := t.O; i < t.E; i++ {
					if !drop[i] {
						b = append(b, src[off[i]:off[i+1]]...)
					}
				}
				ct.Lit = string(b)
			}
		case 2:
			ct.Lit = "\n"
		case 3:
			ct.Lit = "�"
		}
		if t.LM == 2 && t.Alt >= 0 && (variant == 2 || variant == 1 && t.Adm) {
			ct.Off = off[t.Alt]
			moved = append(moved, mv{ct, t.AI})
			out = append(out, c23CTok{Kind: "\x00moved"})
			continue
		}
		out = append(out, ct)
	}
	if len(moved) > 0 {
		// insert each moved semicolon before the model token with index ai (1-based)
		var res []c23CTok
		for i, ct := range out {
			for _, m := range moved {
				if m.ai == i+1 {
					res = append(res, m.tok)
				}
			}
			if ct.Kind != "\x00moved" {
				res = append(res, ct)
			}
		}
		out = res
	}
	if !comments {
		res := out[:0:0]
		for _, ct := range out {
			if ct.Kind != "COMMENT" {
				res = append(res, ct)
			}
		}
		out = res
	}
	return out
}

func c23Same(a, b []c23CTok, withPos bool) bool {
	if len(a) != len(b) {
		return false
	}
	for i := range a {
		if a[i].Kind != b[i].Kind || a[i].Lit != b[i].Lit || a[i].Off != b[i].Off || withPos && a[i].Pos != b[i].Pos {
			return false
		}
	}
	return true
}

func c23Class(t c23CTok) string {
	switch {
	case t.Auto:
		return "autosemi"
	case t.Kind == "IDENT":
		return "ident"
	case t.Kind == "INT", t.Kind == "FLOAT", t.Kind == "IMAG":
		return strings.ToLower(t.Kind)
	case t.Kind == "CHAR":
		return "char"
	case t.Kind == "STRING":
		if strings.HasPrefix(t.Lit, "`") {
			return "rawstring"
		}
		return "string"
	case t.Kind == "COMMENT":
		return "comment"
	case t.Kind == "ILLEGAL":
		return "illegal"
	case t.Kind == "EOF":
		return "eof"
	case token.Lookup(t.Kind).IsKeyword():
		return "keyword"
	}
	return "operator"
}

// c23Diff classifies the first difference between the reference stream and the fork's.
func c23Diff(ref, got []c23CTok, withPos bool) (class, shape, what string) {
	eof := c23CTok{Kind: "EOF"}
	for i := 0; i < len(ref) || i < len(got); i++ {
		r, g := eof, eof
		if i < len(ref) {
			r = ref[i]
		}
		if i < len(got) {
			g = got[i]
		}
		if r.Kind == g.Kind && r.Lit == g.Lit && r.Off == g.Off && (!withPos || r.Pos == g.Pos) {
			continue
		}
		class = c23Class(r)
		switch {
		case r.Auto || g.Auto:
			shape = "semicolon-differs"
			if r.Kind == "COMMENT" || g.Kind == "COMMENT" {
				class = "autosemi-after-comment"
			} else {
				class = "autosemi"
			}
		case r.Kind != g.Kind:
			shape = "kind-differs"
		case r.Lit != g.Lit:
			shape = "literal-differs"
		default:
			shape = "offset-differs"
		}
		what = fmt.Sprintf("token %d: expected %v, gomacro scanner gives %v", i, r, g)
		return
	}
	return "", "", ""
}

// ---------------------------------------------------------------- verdict for one input

type c23Verdict struct {
	GateOK   bool
	GateWhat string
	Sig      string // "" = conforms
	What     string
}

func c23ShowStream(ts []c23CTok) string {
	var parts []string
	for _, t := range ts {
		parts = append(parts, t.String())
	}
	return "[" + strings.Join(parts, ", ") + "]"
}

// stdSemiOnly: the fork differs from the standard scanner only in where automatic
// semicolons stand, each one moved in front of the comment run that precedes it.
// endsInput reports that the only moved one belongs to a comment that ends the input.
func c23StdSemiOnly(src []byte, stdC, std, fork []c23CTok) (only, endsInput bool) {
	strip := func(ts []c23CTok) (rest, autos []c23CTok) {
		for _, t := range ts {
			if t.Auto {
				autos = append(autos, t)
			} else {
				rest = append(rest, t)
			}
		}
		return
	}
	sr, sa := strip(std)
	fr, fa := strip(fork)
	if !c23Same(sr, fr, true) || len(sa) != len(fa) {
		return false, false
	}
	ndiff, last := 0, -1
	for i := range sa {
		if sa[i].Off != fa[i].Off {
			if fa[i].Off > sa[i].Off {
				return false, false
			}
			// the fork's semicolon must stand exactly where a comment starts
			ok := false
			for _, t := range stdC {
				if t.Kind == "COMMENT" && t.Off == fa[i].Off {
					ok = true
				}
			}
			if !ok {
				return false, false
			}
			ndiff++
			last = i
		}
	}
	if ndiff == 0 {
		return false, false
	}
	only = true
	if ndiff == 1 && last == len(sa)-1 {
		// nothing but comments after the semicolon, and the last byte belongs to a comment
		var lastCmt *c23CTok
		for i := range stdC {
			t := &stdC[i]
			if t.Off > sa[last].Off && t.Kind != "COMMENT" && !t.Auto {
				return only, false
			}
			if t.Kind == "COMMENT" {
				lastCmt = t
			}
		}
		if lastCmt != nil {
			rest := src[lastCmt.Off:]
			if bytes.HasPrefix(rest, []byte("//")) {
				endsInput = !bytes.Contains(rest, []byte("\n"))
			} else if i := bytes.Index(rest[2:], []byte("*/")); i >= 0 {
				endsInput = 2+i+2 == len(rest)
			}
		}
	}
	return
}

func c23Judge(r *c23Rec, src []byte, off []int) c23Verdict {
	var v c23Verdict
	v.GateOK = true
	var modelSig, modelWhat, stdSig, stdWhat string
	stdC := c23ScanStd(src, true)
	for _, comments := range []bool{true, false} {
		std := stdC
		if !comments {
			std = c23ScanStd(src, false)
		}
		fork := c23ScanFork(src, comments)
		exp := c23Expected(r, src, off, comments, 0)
		mode := "ScanComments"
		if !comments {
			mode = "comments skipped"
		}
		// gate: the model against the standard library
		if std.Panic != "" || std.NErr != r.NErr || !c23Same(exp, std.Toks, false) {
			if v.GateOK {
				v.GateOK = false
				v.GateWhat = fmt.Sprintf("%s: model %s errors=%d, go/scanner %s errors=%d %s", mode,
					c23ShowStream(exp), r.NErr, c23ShowStream(std.Toks), std.NErr, std.Panic)
			}
		}
		if fork.Panic != "" {
			if modelSig == "" {
				modelSig, modelWhat = "scan(any):panic", mode+": gomacro scanner panics: "+fork.Panic
				stdSig, stdWhat = modelSig, modelWhat
			}
			continue
		}
		// oracle 1: the model
		if modelSig == "" {
			if r.NErr > 0 || fork.NErr > 0 {
				if (r.NErr > 0) != (fork.NErr > 0) {
					// class: an illegal character if there is one, else the last real token
					cls := "any"
					for _, t := range exp {
						if !t.Auto && cls != "illegal" {
							cls = c23Class(t)
						}
					}
					modelSig = "scan(" + cls + "):error-differs"
					modelWhat = fmt.Sprintf("%s: specification says %d error(s), gomacro scanner reports %d; expected stream %s, got %s",
						mode, r.NErr, fork.NErr, c23ShowStream(exp), c23ShowStream(fork.Toks))
				}
			} else if !c23Same(exp, fork.Toks, false) && !c23Same(c23Expected(r, src, off, comments, 1), fork.Toks, false) {
				if c23Same(c23Expected(r, src, off, comments, 2), fork.Toks, false) {
					modelSig = "scan(autosemi-after-comment):semicolon-differs"
					modelWhat = fmt.Sprintf("%s: the automatic semicolon stands at the start of the comment run instead of at the newline: expected %s, got %s",
						mode, c23ShowStream(exp), c23ShowStream(fork.Toks))
				} else {
					cls, shape, what := c23Diff(exp, fork.Toks, false)
					modelSig = "scan(" + cls + "):" + shape
					modelWhat = mode + ": " + what + "; expected " + c23ShowStream(exp) + ", got " + c23ShowStream(fork.Toks)
				}
			}
		}
		// oracle 2: the standard library directly
		if stdSig == "" && std.Panic == "" {
			if std.NErr > 0 || fork.NErr > 0 {
				if (std.NErr > 0) != (fork.NErr > 0) {
					stdSig = "scan(any):error-differs"
					if modelSig != "" {
						stdSig = modelSig
					}
					stdWhat = fmt.Sprintf("%s: go/scanner reports %d error(s), gomacro scanner %d", mode, std.NErr, fork.NErr)
				}
			} else if !c23Same(std.Toks, fork.Toks, true) {
				only, ends := c23StdSemiOnly(src, stdC.Toks, std.Toks, fork.Toks)
				switch {
				case only && ends:
				case only:
					stdSig = "scan(autosemi-after-comment):semicolon-differs"
					stdWhat = fmt.Sprintf("%s: go/scanner %s, gomacro scanner %s", mode, c23ShowStream(std.Toks), c23ShowStream(fork.Toks))
				default:
					cls, shape, what := c23Diff(std.Toks, fork.Toks, true)
					stdSig = "scan(" + cls + "):" + shape
					stdWhat = mode + " (against go/scanner): " + what
				}
			}
		}
	}
	if !v.GateOK {
		modelSig = "" // the model is wrong on this input: it cannot judge
	}
	switch {
	case modelSig != "" && stdSig != "":
		v.Sig, v.What = modelSig+"@model+std", modelWhat
		if stdSig != modelSig {
			v.What += "\n(go/scanner oracle: " + stdSig + ": " + stdWhat + ")"
		}
	case modelSig != "":
		v.Sig, v.What = modelSig+"@model", modelWhat
	case stdSig != "":
		v.Sig, v.What = stdSig+"@std", stdWhat
	}
	return v
}

// ---------------------------------------------------------------- TLC configurations

type c23Raw struct {
	Name       string
	Alpha      []int
	LenQ, LenT int
}

// focus alphabets of the raw generator (codes: see Lexer.tla)
var c23Raws = []c23Raw{
	{Name: "num-dec-hex", Alpha: []int{48, 130, 95, 46, 120, 101, 112, 105}, LenQ: 5, LenT: 6},      // 0 D89 _ . x e p i
	{Name: "num-bin-oct", Alpha: []int{48, 49, 129, 98, 111, 95, 46, 69}, LenQ: 4, LenT: 5},        // 0 1 D47 b o _ . E
	{Name: "num-exponent", Alpha: []int{48, 49, 46, 101, 112, 43, 45, 120}, LenQ: 4, LenT: 5},      // 0 1 . e p + - x
	{Name: "string-rune", Alpha: []int{34, 39, 92, 110, 120, 48, 129, 10}, LenQ: 4, LenT: 6},       // " ' \ n x 0 D47 NL
	{Name: "escapes", Alpha: []int{39, 92, 117, 100, 130, 48, 49, 34}, LenQ: 4, LenT: 6},           // ' \ u d D89 0 1 "
	{Name: "comment-semi-raw", Alpha: []int{97, 43, 10, 47, 42, 32, 13, 96}, LenQ: 5, LenT: 6},     // a + NL / * SP CR `
	{Name: "semi-tokens", Alpha: []int{41, 45, 49, 59, 10, 47, 42, 34}, LenQ: 4, LenT: 5},          // ) - 1 ; NL / * "
	{Name: "operators-1", Alpha: []int{43, 45, 61, 60, 62, 38, 94, 124}, LenQ: 4, LenT: 5},         // + - = < > & ^ |
	{Name: "operators-2", Alpha: []int{58, 61, 46, 33, 42, 47, 37, 40}, LenQ: 4, LenT: 5},          // : = . ! * / % (
	{Name: "keywords", Alpha: []int{105, 102, 111, 114, 103, 116, 95, 10}, LenQ: 4, LenT: 5},       // i f o r g t _ NL
	{Name: "illegal", Alpha: []int{133, 0, 136, 137, 134, 135, 138, 64, 92, 97, 10, 34, 47, 42, 49}, LenQ: 3, LenT: 4},
}

func c23Alphabets(raws []c23Raw, thorough bool) string {
	var p []string
	for _, r := range raws {
		n := r.LenQ
		if thorough {
			n = r.LenT
		}
		p = append(p, fmt.Sprintf("[a |-> %s, n |-> %d]", c23Set(r.Alpha), n))
	}
	return "<<" + strings.Join(p, ",\n  ") + ">>"
}

func c23Set(xs []int) string {
	var p []string
	for _, x := range xs {
		p = append(p, strconv.Itoa(x))
	}
	return "{" + strings.Join(p, ", ") + "}"
}
func c23Seq(xs []int) string {
	var p []string
	for _, x := range xs {
		p = append(p, strconv.Itoa(x))
	}
	return "<<" + strings.Join(p, ", ") + ">>"
}
func c23Codes(s string) []int {
	var out []int
	for _, r := range s {
		switch r {
		case 'é':
			out = append(out, 134)
		case '٣':
			out = append(out, 135)
		case '²', '³':
			out = append(out, 128)
		case '⁴':
			out = append(out, 129)
		case '⁸':
			out = append(out, 130)
		case 'À':
			out = append(out, 131)
		case 'Ù':
			out = append(out, 132)
		default:
			out = append(out, int(r))
		}
	}
	return out
}

type c23Entry struct {
	Sp    string // spelling; é ٣ ² ⁴ ⁸ À Ù stand for the classes NALETTER NADIGIT D23 D47 D89 HEXUP UPPER
	K     string
	Delim bool
}

func c23Menu() []c23Entry {
	var m []c23Entry
	add := func(k string, sps ...string) {
		for _, sp := range sps {
			m = append(m, c23Entry{Sp: sp, K: k})
		}
	}
	add("IDENT", "a", "_", "x1", "_x٣", "éa", "Ùz", "if_", "go1", "breaks", "macros", "amacro", "À²")
	for _, kw := range strings.Fields("break case chan const continue default defer else fallthrough for func go goto if import interface map package range return select struct switch type var") {
		add(kw, kw)
	}
	add("INT", "0", "1", "⁸⁴", "1_000", "0x1f", "0XÀ_e", "0b1_0", "0B01", "0o1⁴", "0O_²", "01⁴", "0_⁴", "00")
	add("FLOAT", "1.", ".⁸", "1.⁸", "0⁸.⁴", "1e⁸", "1E+1", "1_0.²_⁴e-1_0", "0x1p0", "0X.⁸P-1", "0x1.Àp+⁴", "0x_1p1_0", "0⁸e1", "0e0", "0.e0")
	add("IMAG", "1i", "0i", "0⁸i", ".⁴i", "1e⁴i", "0x1p0i", "0b1i", "0o⁴i", "1_0i")
	add("CHAR", `'a'`, `'é'`, `'"'`, `'\''`, `'\n'`, `'\\'`, `'\x⁸À'`, `'\1⁴²'`, `'\²⁴⁴'`, `'\ud⁴ÀÀ'`, `'\uÀ⁸00'`, `'\U0010ÀÀÀÀ'`, `'\U0000d²00'`, `'\000'`, `' '`, `'0'`)
	add("STRING", `""`, `"a"`, `"é٣"`, `"\""`, `"'"`, `"\\"`, `"\a\b\f\n\r\t\v"`, `"\x⁸⁸\1⁴⁴\u⁸⁸⁸⁸"`, `"//"`, `"/*"`, "\"`\"", `" a "`,
		"``", "`a`", "`\\`", "`\"`", "`a\nb`", "`\ra\r`", "`\r\n`", "`//`", "`é`")
	for _, op := range strings.Fields("+ - * / % & | ^ << >> &^ += -= *= /= %= &= |= ^= <<= >>= &^= && || <- ++ -- == < > = ! != <= >= := ... . :") {
		add(op, op)
	}
	for _, op := range strings.Fields("( [ { , ) ] } ;") {
		m = append(m, c23Entry{Sp: op, K: op, Delim: true})
	}
	return m
}

// separators: sequences of pieces
type c23Piece struct {
	T   string // "sp" | "nl" | "cm"
	Txt string
}

var (
	c23sp   = c23Piece{"sp", " "}
	c23cr   = c23Piece{"sp", "\r"}
	c23nl   = c23Piece{"nl", "\n"}
	c23bc   = c23Piece{"cm", "/*c*/"}
	c23bc0  = c23Piece{"cm", "/**/"}
	c23bcs  = c23Piece{"cm", "/*/*/"}
	c23bcn  = c23Piece{"cm", "/*\n*/"}
	c23bcn2 = c23Piece{"cm", "/* a\n\n b */"}
	c23bcr  = c23Piece{"cm", "/*\ra\r\n*/"}
	c23lc   = c23Piece{"cm", "//c"}
	c23lc0  = c23Piece{"cm", "//"}
	c23lcr  = c23Piece{"cm", "// c\r"}
	c23lcs  = c23Piece{"cm", "///* c */"}
)

func c23Seps() (seps, finals [][]c23Piece) {
	seps = [][]c23Piece{
		{}, {c23sp}, {c23sp, c23sp}, {c23nl}, {c23sp, c23nl, c23sp}, {c23cr, c23nl}, {c23nl, c23nl},
		{c23bc}, {c23sp, c23bc, c23sp}, {c23bc0, c23bcs}, {c23bcn}, {c23sp, c23bcn2, c23sp}, {c23bcr},
		{c23lc, c23nl}, {c23sp, c23lc0, c23nl}, {c23lcr, c23nl}, {c23lcs, c23nl, c23sp},
		{c23bc, c23nl}, {c23bc, c23sp, c23bc, c23nl}, {c23bc, c23lc, c23nl}, {c23bc, c23bcn}, {c23bcn, c23bc},
		{c23nl, c23bc}, {c23nl, c23lc, c23nl},
	}
	finals = [][]c23Piece{
		{}, {c23sp}, {c23nl}, {c23cr, c23nl}, {c23bc}, {c23sp, c23bc}, {c23bc, c23sp}, {c23bcn}, {c23bcn, c23sp}, {c23bcr},
		{c23lc}, {c23sp, c23lc0}, {c23lcr}, {c23lc, c23nl}, {c23bc, c23bc}, {c23bc, c23lc}, {c23bcn, c23bc}, {c23bc, c23nl},
		{c23nl, c23bc}, {c23nl, c23lc},
	}
	return
}

func c23SepTLA(seps [][]c23Piece) string {
	var ss []string
	for _, sep := range seps {
		var ps []string
		for _, p := range sep {
			ps = append(ps, fmt.Sprintf("[t |-> %q, txt |-> %s]", p.T, c23Seq(c23Codes(p.Txt))))
		}
		ss = append(ss, "<<"+strings.Join(ps, ", ")+">>")
	}
	return "<<" + strings.Join(ss, ",\n  ") + ">>"
}

func c23MCDefs(alphabets string, derive bool) string {
	var b strings.Builder
	if alphabets == "" {
		alphabets = "<<>>"
	}
	fmt.Fprintf(&b, "c_Alpha == %s\n", alphabets)
	if derive {
		var es []string
		for _, e := range c23Menu() {
			es = append(es, fmt.Sprintf("[sp |-> %s, k |-> %q, d |-> %s]", c23Seq(c23Codes(e.Sp)), e.K, strings.ToUpper(fmt.Sprint(e.Delim))))
		}
		seps, finals := c23Seps()
		fmt.Fprintf(&b, "c_Menu == <<%s>>\nc_Seps == %s\nc_Final == %s\n", strings.Join(es, ",\n  "), c23SepTLA(seps), c23SepTLA(finals))
	} else {
		b.WriteString("c_Menu == <<>>\nc_Seps == <<>>\nc_Final == <<>>\n")
	}
	return b.String()
}

type c23CfgOpts struct {
	Gen              string
	MinEmit          int
	RandPick, NoBom  bool
	MaxToks, MinToks int
	BigStep, Emit    bool
	Broken           string
	Invs             string
}

func c23Cfg(o c23CfgOpts) string {
	up := func(b bool) string { return strings.ToUpper(fmt.Sprint(b)) }
	if o.Invs == "" {
		o.Invs = "OffsetsIncrease Coverage MaxMunch SemiRule DerivAgree Emit"
	}
	return fmt.Sprintf("SPECIFICATION Spec\nCONSTANTS\n Gen = %q\n Alphabets <- c_Alpha\n MinEmit = %d\n Menu <- c_Menu\n Seps <- c_Seps\n FinalSeps <- c_Final\n"+
		" MaxToks = %d\n MinToks = %d\n BigStep = %s\n RandPick = %s\n BomFirst = %s\n Broken = %q\n EmitOn = %s\nINVARIANTS %s\n",
		o.Gen, o.MinEmit, o.MaxToks, o.MinToks, up(o.BigStep), up(o.RandPick), up(!o.NoBom), o.Broken, up(o.Emit), o.Invs)
}

// ---------------------------------------------------------------- run

type c23Runner struct {
	c       *core.Ctx
	kinds   []string
	mu      sync.Mutex
	err     error
	lines   chan []byte
	wg      sync.WaitGroup
	nExt    int64
	nErrIn  int64
	nSemiIn int64
	gateBad []string
	sampled int
}

func newC23Runner(c *core.Ctx) *c23Runner {
	r := &c23Runner{c: c, lines: make(chan []byte, 4096)}
	for w := 0; w < 4; w++ {
		r.wg.Add(1)
		go func() {
			defer r.wg.Done()
			for line := range r.lines {
				r.handle(line)
			}
		}()
	}
	return r
}

func (r *c23Runner) fail(err error) {
	r.mu.Lock()
	if r.err == nil {
		r.err = err
	}
	r.mu.Unlock()
}

func (r *c23Runner) onLine(line []byte) {
	if len(line) > 0 && line[0] == '{' {
		var h struct {
			Kinds []string `json:"kinds"`
		}
		if err := json.Unmarshal(line, &h); err != nil || len(h.Kinds) == 0 {
			r.fail(core.Infra("bad header from TLC: %.80s", line))
			return
		}
		r.mu.Lock()
		r.kinds = h.Kinds
		r.mu.Unlock()
		return
	}
	r.lines <- append([]byte(nil), line...)
}

func (r *c23Runner) handle(line []byte) {
	r.mu.Lock()
	kinds, failed := r.kinds, r.err != nil
	r.mu.Unlock()
	if failed {
		return
	}
	rec, err := c23Decode(line, kinds)
	if err != nil {
		r.fail(core.Infra("bad record from TLC: %v", err))
		return
	}
	r.verdict(rec, true)
}

func c23Key(in []int) string { return fmt.Sprint(in) }

func (r *c23Runner) verdict(rec *c23Rec, count bool) {
	c := r.c
	if rec.Ext {
		r.mu.Lock()
		r.nExt++
		r.mu.Unlock()
		return // the identifier `macro`: outside the property
	}
	var src []byte
	var off []int
	if len(rec.Src) > 0 {
		src = make([]byte, len(rec.Src))
		for i, b := range rec.Src {
			src[i] = byte(b)
		}
		off = c23Offsets(rec.In, src)
		if off == nil {
			r.fail(core.Infra("replay record: bytes do not match the abstract input"))
			return
		}
	} else {
		src, off = c23Render(rec.In, c.Seed)
	}
	v := c23Judge(rec, src, off)
	if count {
		c.Case(c23Key(rec.In), len(rec.Toks) >= 2 || rec.NErr > 0)
		c.Trace()
		c.Gate(v.GateOK)
		r.mu.Lock()
		if rec.NErr > 0 {
			r.nErrIn++
		}
		for _, t := range rec.Toks {
			if t.LM == 2 {
				r.nSemiIn++
				break
			}
		}
		if !v.GateOK && len(r.gateBad) < 20 {
			r.gateBad = append(r.gateBad, fmt.Sprintf("%q: %s", src, v.GateWhat))
		}
		if r.sampled < 5 && len(rec.Toks) >= 3 && (r.sampled%2 == 0) == (rec.NErr == 0) {
			r.sampled++
			var ts []string
			for _, t := range c23Expected(rec, src, off, true, 0) {
				ts = append(ts, t.String())
			}
			c.Sample(map[string]interface{}{"abstract": rec.In, "text": string(src), "expected": ts, "errors": rec.NErr})
		}
		r.mu.Unlock()
	}
	if v.Sig == "" {
		return
	}
	// confirm on a second, fresh scan
	v2 := c23Judge(rec, src, off)
	if v2.Sig != v.Sig {
		r.fail(core.Infra("mismatch not reproducible on %q: %s then %s", src, v.Sig, v2.Sig))
		return
	}
	rc := *rec
	rc.Src = make([]int, len(src))
	for i, b := range src {
		rc.Src[i] = int(b)
	}
	c.Violation(v.Sig, fmt.Sprintf("input %q: %s", src, v.What), &rc)
}

// c23Offsets recomputes the code -> byte offset table for stored bytes.
func c23Offsets(in []int, src []byte) []int {
	off := make([]int, len(in)+1)
	p := 0
	for i, c := range in {
		off[i] = p
		if reps, ok := c23Classes[c]; ok {
			w := 0
			for _, rp := range reps {
				if bytes.HasPrefix(src[p:], []byte(rp)) {
					w = len(rp)
					break
				}
			}
			if w == 0 {
				return nil
			}
			p += w
		} else {
			if p >= len(src) || src[p] != byte(c) {
				return nil
			}
			p++
		}
	}
	if p != len(src) {
		return nil
	}
	off[len(in)] = p
	return off
}

func (r *c23Runner) finish() error {
	close(r.lines)
	r.wg.Wait()
	return r.err
}

func c23Workers() int {
	if s := os.Getenv("VERIF_TLC_WORKERS"); s != "" {
		if n, err := strconv.Atoi(s); err == nil && n > 0 {
			return n
		}
	}
	return 6
}

func c23One(alpha []int, n int) string {
	return fmt.Sprintf("<<[a |-> %s, n |-> %d]>>", c23Set(alpha), n)
}

func runC23(c *core.Ctx) error {
	r := newC23Runner(c)
	workers := c23Workers()
	run := func(o core.TLCOpts) error {
		o.Spec, o.Workers, o.OnLine, o.Timeout = "Lexer", workers, r.onLine, 12*time.Minute
		_, err := c.TLC(o)
		return err
	}
	// (a) raw: every string over each focus alphabet up to its bound (one TLC run, BFS)
	runErr := run(core.TLCOpts{MCDefs: c23MCDefs(c23Alphabets(c23Raws, c.Thorough()), false), CfgName: "raw-" + c.Tier,
		Cfg: c23Cfg(c23CfgOpts{Gen: "raw", Emit: true, BigStep: !c.Thorough()})})
	if runErr == nil && c.Thorough() {
		// (b1) every menu token in every separator context, bounded-exhaustive
		runErr = run(core.TLCOpts{MCDefs: c23MCDefs("", true), CfgName: "derive-bfs-1",
			Cfg: c23Cfg(c23CfgOpts{Gen: "derive", MaxToks: 1, MinToks: 1, Emit: true, NoBom: true})})
	}
	if runErr == nil {
		// (b2) seeded random derivations
		depth := c.Pick(8, 14)
		runErr = run(core.TLCOpts{MCDefs: c23MCDefs("", true), CfgName: fmt.Sprintf("derive-sim-%d", depth),
			Cfg:      c23Cfg(c23CfgOpts{Gen: "derive", MaxToks: depth, MinToks: 2, Emit: true, BigStep: true, RandPick: true}),
			Simulate: true, SimNum: c.Pick(1000, 8000), SimDepth: 2*depth + 4, Seed: c.Seed})
	}
	if err := r.finish(); err != nil {
		return err
	}
	if runErr != nil {
		return runErr
	}
	c.Exhaustive = false
	c.Extra["inputs_excluded_word_macro"] = r.nExt
	c.Extra["inputs_with_errors"] = r.nErrIn
	c.Extra["inputs_with_automatic_semicolon"] = r.nSemiIn
	c.Extra["raw_alphabets"] = c23Raws
	if len(r.gateBad) > 0 {
		c.Extra["gate_reject_examples"] = r.gateBad
		if os.Getenv("C23_DEBUG") != "" {
			for _, g := range r.gateBad {
				fmt.Println("GATE-REJECT", g)
			}
		}
	}
	c.Assume("the reference is go/scanner of the installed toolchain (go1.23); error messages are not compared, only error presence (model vs go/scanner: error count)")
	c.Assume("inputs containing '~', '#' or the identifier `macro` are outside the property and are not generated (the word `macro` is flagged by the model and skipped)")
	c.Assume("on inputs with errors only the presence of an error is compared with gomacro's scanner, as the property states; //line directives are not generated")
	return nil
}

func replayC23(c *core.Ctx, raw json.RawMessage) error {
	var rec c23Rec
	if err := json.Unmarshal(raw, &rec); err != nil {
		return err
	}
	r := newC23Runner(c)
	r.verdict(&rec, false)
	return r.finish()
}

func selfTestC23(c *core.Ctx) error {
	// 1. broken scanner variants must be caught by TLC's own invariants
	res, err := c.TLC(core.TLCOpts{Spec: "Lexer", MCDefs: c23MCDefs(c23One([]int{97, 43, 10}, 3), false), CfgName: "broken-noincsemi-raw",
		Cfg:     c23Cfg(c23CfgOpts{Gen: "raw", Broken: "noincsemi", Invs: "SemiRule"}),
		Workers: 2, ExpectError: true})
	if err != nil {
		return err
	}
	if res.Violated != "SemiRule" {
		return fmt.Errorf("broken variant noincsemi not detected in raw mode (violated=%q)\n%s", res.Violated, res.Output)
	}
	res, err = c.TLC(core.TLCOpts{Spec: "Lexer", MCDefs: c23MCDefs("", true), CfgName: "broken-noincsemi-derive",
		Cfg:     c23Cfg(c23CfgOpts{Gen: "derive", MaxToks: 1, MinToks: 1, Broken: "noincsemi", Invs: "DerivAgree"}),
		Workers: 2, ExpectError: true})
	if err != nil {
		return err
	}
	if res.Violated != "DerivAgree" {
		return fmt.Errorf("broken variant noincsemi not detected in derive mode (violated=%q)\n%s", res.Violated, res.Output)
	}
	// a model that accepts misplaced '_' separators must be rejected by the go/scanner gate
	var bk []string
	gateBad, gateN := 0, 0
	_, err = c.TLC(core.TLCOpts{Spec: "Lexer", MCDefs: c23MCDefs(c23One([]int{49, 95, 48, 120}, 3), false), CfgName: "broken-sepok-gate",
		Cfg:     c23Cfg(c23CfgOpts{Gen: "raw", Broken: "sepok", Emit: true}),
		Workers: 2, OnLine: func(l []byte) {
			if l[0] == '{' {
				var h struct{ Kinds []string }
				json.Unmarshal(l, &h)
				bk = h.Kinds
			} else if rec, e := c23Decode(l, bk); e == nil {
				src, off := c23Render(rec.In, 1)
				gateN++
				if !c23Judge(rec, src, off).GateOK {
					gateBad++
				}
			}
		}})
	if err != nil {
		return err
	}
	if gateBad == 0 || gateN == 0 {
		return fmt.Errorf("broken model variant sepok not rejected by the go/scanner gate (%d of %d)", gateBad, gateN)
	}
	// 2. a correct record is accepted, corrupted ones are rejected
	var lines [][]byte
	var kinds []string
	_, err = c.TLC(core.TLCOpts{Spec: "Lexer", MCDefs: c23MCDefs(c23One([]int{97, 43, 10, 49}, 4), false), CfgName: "selftest-records",
		Cfg:     c23Cfg(c23CfgOpts{Gen: "raw", MinEmit: 4, Emit: true}),
		Workers: 2, OnLine: func(l []byte) {
			if l[0] == '{' {
				var h struct{ Kinds []string }
				json.Unmarshal(l, &h)
				kinds = h.Kinds
			} else {
				lines = append(lines, append([]byte(nil), l...))
			}
		}})
	if err != nil {
		return err
	}
	checked := 0
	for _, l := range lines {
		rec, err := c23Decode(l, kinds)
		if err != nil {
			return err
		}
		if rec.NErr > 0 || len(rec.Toks) < 2 {
			continue
		}
		src, off := c23Render(rec.In, 1)
		if v := c23Judge(rec, src, off); v.Sig != "" || !v.GateOK {
			return fmt.Errorf("correct record rejected on %q: %s %s", src, v.Sig, v.GateWhat)
		}
		for variant := 0; variant < 3; variant++ {
			bad := *rec
			bad.Toks = append([]c23Tok(nil), rec.Toks...)
			switch variant {
			case 0:
				if bad.Toks[0].K == "IDENT" {
					bad.Toks[0].K = "INT"
				} else {
					bad.Toks[0].K = "IDENT"
				}
			case 1:
				bad.Toks[1].O++
			case 2:
				bad.Toks = bad.Toks[:len(bad.Toks)-1]
			}
			v := c23Judge(&bad, src, off)
			if v.GateOK {
				return fmt.Errorf("corrupted record (variant %d) passed the gate on %q", variant, src)
			}
			// with the gate out of the way the model oracle itself must object
			if s := c23ModelOnly(&bad, src, off); s == "" {
				return fmt.Errorf("corrupted record (variant %d) accepted on %q", variant, src)
			}
		}
		checked++
	}
	if checked < 20 {
		return fmt.Errorf("self-test examined only %d records", checked)
	}
	return nil
}

// c23ModelOnly compares the fork with the model alone (self-test).
func c23ModelOnly(r *c23Rec, src []byte, off []int) string {
	for _, comments := range []bool{true, false} {
		fork := c23ScanFork(src, comments)
		exp := c23Expected(r, src, off, comments, 0)
		if (r.NErr > 0) != (fork.NErr > 0) {
			return "error-differs"
		}
		if r.NErr == 0 && !c23Same(exp, fork.Toks, false) && !c23Same(c23Expected(r, src, off, comments, 1), fork.Toks, false) {
			_, shape, _ := c23Diff(exp, fork.Toks, false)
			return shape
		}
	}
	return ""
}

package props

import (
	"fmt"
	"math"
	"reflect"

	"github.com/cosmos72/gomacro/fast"

	"verif/harness/core"
	"verif/harness/gm"
	"verif/harness/show"
)

// c01Env is one fast interpreter prepared for C01: per kind two globals in unboxed integer
// slots (strings: reflect.Value slots, the only storage gomacro has for them) and two globals
// that are forced into boxed reflect.Value slots (declared after the address of an integer
// slot was taken and the slot array was filled up). The driver writes operand values straight
// into the variables through their addresses; only the expression under test is compiled.
type c01Env struct {
	g   *gm.Interp
	ptr map[string]reflect.Value // variable name -> pointer to its storage
}

func c01VarName(prefix, kind string) string { return "c01" + prefix + "_" + kind }

func newC01Env() (*c01Env, error) {
	e := &c01Env{g: gm.New(), ptr: map[string]reflect.Value{}}
	ir := e.g.Ir
	ev := func(src string) error {
		if r := e.g.Eval(src); r.Panicked {
			return core.Infra("C01 environment: %s: %s", src, r.Panic)
		}
		return nil
	}
	for _, k := range c01Kinds {
		if err := ev(fmt.Sprintf("var %s, %s %s", c01VarName("ga", k), c01VarName("gb", k), k)); err != nil {
			return nil, err
		}
	}
	addr := func(name string) error {
		v := ir.AddressOfVar(name)
		if !v.IsValid() {
			return core.Infra("C01 environment: no address for %s", name)
		}
		e.ptr[name] = v.ReflectValue()
		return nil
	}
	for _, k := range c01Kinds {
		for _, p := range []string{"ga", "gb"} {
			if err := addr(c01VarName(p, k)); err != nil {
				return nil, err
			}
		}
	}
	// an address into Env.Ints was taken: after the next evaluation the interpreter stops
	// growing the slot array (IntBindMax); fill it, later numeric globals are boxed
	if err := ev("0"); err != nil {
		return nil, err
	}
	for i := 0; ir.Comp.IntBindMax == 0 || ir.Comp.IntBindNum < ir.Comp.IntBindMax; i++ {
		if ir.Comp.IntBindMax == 0 || i > 4096 {
			return nil, core.Infra("C01 environment: cannot saturate the integer slots (IntBindNum=%d IntBindMax=%d)", ir.Comp.IntBindNum, ir.Comp.IntBindMax)
		}
		if err := ev(fmt.Sprintf("var c01fill%d int", i)); err != nil {
			return nil, err
		}
	}
	for _, k := range c01Kinds {
		if err := ev(fmt.Sprintf("var %s, %s %s", c01VarName("ba", k), c01VarName("bb", k), k)); err != nil {
			return nil, err
		}
	}
	for _, k := range c01Kinds {
		for _, p := range []string{"ba", "bb"} {
			if err := addr(c01VarName(p, k)); err != nil {
				return nil, err
			}
		}
	}
	if err := e.checkClasses(); err != nil {
		return nil, err
	}
	e.g.Out.Reset()
	return e, nil
}

// checkClasses verifies the storage classes the variants rely on.
func (e *c01Env) checkClasses() error {
	for _, k := range c01Kinds {
		for _, p := range []string{"ga", "gb", "ba", "bb"} {
			name := c01VarName(p, k)
			sym := e.g.Ir.Comp.TryResolve(name)
			if sym == nil {
				return core.Infra("C01 environment: %s not declared", name)
			}
			want := fast.IntBind
			if p[0] == 'b' || k == "string" {
				want = fast.VarBind
			}
			if sym.Desc.Class() != want {
				return core.Infra("C01 environment: %s has storage class %v, want %v", name, sym.Desc.Class(), want)
			}
		}
	}
	return nil
}

func (e *c01Env) set(name string, v c01Val) {
	p := e.ptr[name].Elem()
	switch {
	case v.Kind == "string":
		p.SetString(v.Str)
	case v.Kind == "bool":
		p.SetBool(v.Bits != 0)
	case c01IsFloat(v.Kind):
		p.SetFloat(v.Float())
		// SetFloat goes through float64: restore the exact bits of a float32 NaN
		if v.Kind == "float32" && v.IsNaN() {
			p.Set(reflect.ValueOf(math.Float32frombits(uint32(v.Bits))))
		}
	case c01IsSigned(v.Kind):
		p.SetInt(v.Signed())
	default:
		p.SetUint(v.Bits)
	}
}

// eval assigns the variable operands, compiles and runs the cell's snippet and projects the
// observation: value + static type | run-time panic class | compile-time rejection.
func (e *c01Env) eval(c *c01Cell) (res c01Res) {
	if !c.constA() {
		e.set(c01VarName("ga", c.Kind), c.A)
		e.set(c01VarName("ba", c.Kind), c.A)
	}
	if !c.constB() && !c01IsUnary(c.Op) {
		e.set(c01VarName("gb", c.bKind()), c.B)
		e.set(c01VarName("bb", c.bKind()), c.B)
	}
	src := c.Source()
	ir := e.g.Ir
	var expr *fast.Expr
	// phase 1: compile (constant folding happens here)
	func() {
		defer func() {
			if r := recover(); r != nil {
				res = c01Res{T: "c", Cls: "rejected", Msg: c01Trunc(fmt.Sprint(r))}
			}
		}()
		expr = ir.Compile(src)
	}()
	if res.T != "" {
		e.g.Out.Reset()
		return res
	}
	// phase 2: run
	func() {
		defer func() {
			if r := recover(); r != nil {
				msg := fmt.Sprint(r)
				if err, ok := r.(error); ok {
					msg = err.Error()
				}
				res = c01Res{T: "p", Cls: show.PanicClass(msg), Msg: c01Trunc(msg)}
			}
		}()
		vs, ts := ir.RunExpr(expr)
		if len(vs) != 1 || len(ts) != 1 || ts[0] == nil || !vs[0].IsValid() {
			res = c01Res{T: "v", Ty: fmt.Sprintf("<%d values>", len(vs))}
			return
		}
		res = c01Res{T: "v", Ty: ts[0].String(), V: c01FromReflect(vs[0].ReflectValue())}
	}()
	e.g.Out.Reset()
	return res
}

func c01Trunc(s string) string {
	if len(s) > 200 {
		return s[:200] + "..."
	}
	return s
}

// c01FromReflect projects a Go value of a basic kind.
func c01FromReflect(rv reflect.Value) c01Val {
	k := rv.Kind().String()
	v := c01Val{Kind: k}
	switch rv.Kind() {
	case reflect.Bool:
		if rv.Bool() {
			v.Bits = 1
		}
	case reflect.Int, reflect.Int8, reflect.Int16, reflect.Int32, reflect.Int64:
		v.Bits = uint64(rv.Int()) & c01Mask(k)
	case reflect.Uint, reflect.Uint8, reflect.Uint16, reflect.Uint32, reflect.Uint64, reflect.Uintptr:
		v.Bits = rv.Uint() & c01Mask(k)
	case reflect.Float32:
		v.Bits = uint64(math.Float32bits(float32(rv.Float())))
	case reflect.Float64:
		v.Bits = math.Float64bits(rv.Float())
	case reflect.String:
		v.Str = rv.String()
	default:
		v.Kind = "<" + rv.Type().String() + ">"
	}
	return v
}

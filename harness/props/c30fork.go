package props

import (
	"fmt"
	"go/token"
	"sort"
	"strconv"
	"strings"

	"github.com/cosmos72/gomacro/go/types"
)

// C30 projection of a package of gomacro's go/types fork (the CONVERTED side).
// c30std.go is the same code over the standard library's go/types (the ORIGINAL side);
// both produce c30Proj values in one canonical syntax, which is also the syntax
// c30TermStr gives to the terms of spec/types/Converter.tla.

type c30ForkWalk struct {
	named map[string]*types.Named // key -> first *Named met
	dups  map[string]bool
	order []string
	seen  map[types.Type]bool
}

func c30ForkKey(n *types.Named) string {
	o := n.Obj()
	if o.Pkg() == nil {
		return o.Name()
	}
	return o.Pkg().Path() + "." + o.Name()
}

func c30ForkQual(p *types.Package) string {
	if p == nil {
		return ""
	}
	return p.Path()
}

func c30ForkId(name string, p *types.Package) string {
	if token.IsExported(name) {
		return name
	}
	return name + "@" + c30ForkQual(p)
}

// str renders a type canonically; named types are cut at their name and recorded.
func (w *c30ForkWalk) str(t types.Type) string {
	switch t := t.(type) {
	case nil:
		return "<nil>"
	case *types.Basic:
		// by kind: byte / rune are aliases of uint8 / int32 (identical types)
		if k := t.Kind(); k > types.Invalid && int(k) < len(types.Typ) && types.Typ[k] != nil {
			return types.Typ[k].Name()
		}
		return t.Name()
	case *types.Named:
		k := c30ForkKey(t)
		if prev, ok := w.named[k]; !ok {
			w.named[k] = t
			w.order = append(w.order, k)
		} else if prev != t {
			w.dups[k] = true
		}
		return k
	case *types.Pointer:
		return "*" + w.str(t.Elem())
	case *types.Slice:
		return "[]" + w.str(t.Elem())
	case *types.Array:
		return fmt.Sprintf("[%d]%s", t.Len(), w.str(t.Elem()))
	case *types.Map:
		return "map[" + w.str(t.Key()) + "]" + w.str(t.Elem())
	case *types.Chan:
		return fmt.Sprintf("chan%d(%s)", int(t.Dir()), w.str(t.Elem()))
	case *types.Signature:
		return "func" + w.sig(t)
	case *types.Struct:
		var sb strings.Builder
		sb.WriteString("struct{")
		for i := 0; i < t.NumFields(); i++ {
			f := t.Field(i)
			if f.Embedded() {
				sb.WriteString("emb ")
			}
			sb.WriteString(c30ForkId(f.Name(), f.Pkg()))
			sb.WriteString(" ")
			sb.WriteString(w.str(f.Type()))
			if tag := t.Tag(i); tag != "" {
				sb.WriteString(" tag=" + strconv.Quote(tag))
			}
			sb.WriteString(";")
		}
		sb.WriteString("}")
		return sb.String()
	case *types.Interface:
		var es, ms, all []string
		for i := 0; i < t.NumEmbeddeds(); i++ {
			es = append(es, "E:"+w.str(t.EmbeddedType(i)))
		}
		for i := 0; i < t.NumExplicitMethods(); i++ {
			m := t.ExplicitMethod(i)
			ms = append(ms, c30ForkId(m.Name(), m.Pkg())+w.sig(m.Type().(*types.Signature)))
		}
		for i := 0; i < t.NumMethods(); i++ {
			all = append(all, c30ForkId(t.Method(i).Name(), t.Method(i).Pkg()))
		}
		sort.Strings(es)
		sort.Strings(ms)
		sort.Strings(all)
		return "iface{" + strings.Join(es, ";") + "|" + strings.Join(ms, ";") + "|all:" + strings.Join(all, ",") + "}"
	case *types.Tuple:
		var ps []string
		for i := 0; i < t.Len(); i++ {
			ps = append(ps, w.str(t.At(i).Type()))
		}
		return "(" + strings.Join(ps, ",") + ")"
	}
	return fmt.Sprintf("?%T", t)
}

func (w *c30ForkWalk) sig(s *types.Signature) string {
	var ps, rs []string
	for i := 0; i < s.Params().Len(); i++ {
		ps = append(ps, w.str(s.Params().At(i).Type()))
	}
	for i := 0; i < s.Results().Len(); i++ {
		rs = append(rs, w.str(s.Results().At(i).Type()))
	}
	v := ""
	if s.Variadic() {
		v = "..."
	}
	return "(" + strings.Join(ps, ",") + v + ")(" + strings.Join(rs, ",") + ")"
}

func c30ForkMset(t types.Type) (out []string) {
	defer func() {
		if e := recover(); e != nil {
			out = []string{"panic:" + c28PanicText(e)}
		}
	}()
	ms := types.NewMethodSet(t)
	for i := 0; i < ms.Len(); i++ {
		o := ms.At(i).Obj()
		out = append(out, c30ForkId(o.Name(), o.Pkg()))
	}
	sort.Strings(out)
	return out
}

// c30ProjFork projects a converted package: its objects, and every named type reachable
// from them (underlying structure, declared methods, method sets).
func c30ProjFork(pkg *types.Package, skip func(name string) bool) (p *c30Proj) {
	p = &c30Proj{Named: map[string]*c30NamedProj{}}
	defer func() {
		if e := recover(); e != nil {
			p.Panic = c28PanicText(e)
		}
	}()
	if pkg == nil {
		p.Panic = "nil package"
		return p
	}
	w := &c30ForkWalk{named: map[string]*types.Named{}, dups: map[string]bool{}}
	for _, name := range pkg.Scope().Names() {
		if skip != nil && skip(name) {
			continue
		}
		obj := pkg.Scope().Lookup(name)
		op := c30ObjProj{Name: name}
		switch o := obj.(type) {
		case *types.Const:
			op.Kind = "const"
			if o.Val() != nil {
				op.ConstKind, op.ConstVal = o.Val().Kind().String(), o.Val().ExactString()
			}
		case *types.Var:
			op.Kind = "var"
		case *types.Func:
			op.Kind = "func"
		case *types.TypeName:
			op.Kind = "type"
		default:
			op.Kind = fmt.Sprintf("%T", obj)
		}
		op.Type = w.str(obj.Type())
		op.Printed = types.TypeString(obj.Type(), c30ForkQual)
		p.Objs = append(p.Objs, op)
	}
	// the named types met, and those met while describing them
	for i := 0; i < len(w.order); i++ {
		k := w.order[i]
		n := w.named[k]
		np := &c30NamedProj{Key: k}
		p.Named[k] = np
		p.Order = append(p.Order, k)
		func() {
			defer func() {
				if e := recover(); e != nil {
					np.Panic = c28PanicText(e)
				}
			}()
			if n.Underlying() == nil {
				np.Und = "<nil>"
				return
			}
			np.Und = w.str(n.Underlying())
			for j := 0; j < n.NumMethods(); j++ {
				m := n.Method(j)
				s, _ := m.Type().(*types.Signature)
				recv := "val"
				if s != nil && s.Recv() != nil {
					if _, isPtr := s.Recv().Type().(*types.Pointer); isPtr {
						recv = "ptr"
					}
				} else {
					recv = "norecv"
				}
				sig := "<nil>"
				if s != nil {
					sig = w.sig(s)
				}
				np.Methods = append(np.Methods, c30ForkId(m.Name(), m.Pkg())+" "+recv+" "+sig)
			}
			sort.Strings(np.Methods)
			np.MSet = c30ForkMset(n)
			np.PMSet = c30ForkMset(types.NewPointer(n))
		}()
	}
	for k := range w.dups {
		p.Dups = append(p.Dups, k)
	}
	sort.Strings(p.Dups)
	return p
}

package props

import (
	"encoding/json"
	"fmt"
	"strconv"
	"strings"
	"sync/atomic"

	"verif/harness/core"
	"verif/harness/gm"
	"verif/harness/show"
)

// C34, containers: the records of Cti.tla's container model (family, state, calls with the
// expected outputs and the expected state afterwards) are instantiated at concrete element
// types, rendered as one function literal per call
//
//	func() (results..., state afterwards) { build the state; call the method; observe }()
//
// evaluated on gomacro, and gated natively: the Go operator / builtin itself applied to the
// same state (generic helpers below).  Observations are show.Show strings on both sides.

// ---------------------------------------------------------------------------------------
// records

type c34BoxCall struct {
	M    string          `json:"m"`  // rendering (pseudo-method: CopySelf, AppendSpread)
	Of   string          `json:"of"` // the method called
	Args []int           `json:"args"`
	R    json.RawMessage `json:"r"`
	Post json.RawMessage `json:"post"`
}

type c34BoxOut struct {
	T   string          `json:"t"`
	V   json.RawMessage `json:"v"`
	Cap int             `json:"cap"`
	Nil bool            `json:"nil"`
}

type c34BoxState struct {
	// slice, array, bytes
	Arr []int `json:"arr"`
	Off int   `json:"off"`
	Len int   `json:"len"`
	Cap int   `json:"cap"`
	Nil bool  `json:"nil"`
	// map
	KV [][]int `json:"kv"`
	// chan
	Buf    []int `json:"buf"`
	Closed bool  `json:"closed"`
}

// c34BoxCase is one call on one state at one element type.
type c34BoxCase struct {
	Fam   string      `json:"fam"`
	Elem  string      `json:"elem"` // element type; maps: "key,elem"; channels may carry a direction suffix
	State c34BoxState `json:"state"`
	Call  c34BoxCall  `json:"call"`
	Want  []string    `json:"want"`       // expected observation (results, then the state afterwards)
	WantP string      `json:"want_panic"` // or the expected panic class
}

func (b *c34BoxCase) Key() string {
	return fmt.Sprintf("box|%s|%s|%s|%v|%d.%d.%d.%v|%v|%v|%v", b.Fam, b.Elem, b.Call.M, b.Call.Args, b.State.Off, b.State.Len, b.State.Cap,
		b.State.Nil, b.State.KV, b.State.Buf, b.State.Closed)
}

// element types each family is instantiated at
var c34FamElems = map[string][]string{
	"slice": {"int", "string", "float64", "int8"},
	"array": {"int", "string"},
	"bytes": {"uint8"},
	"map":   {"int,string", "string,int"},
	"chan":  {"int", "string", "int<-", "string->"}, // "<-": through a receive-only view, "->": send-only
}

// ---------------------------------------------------------------------------------------
// abstract element values -> Go source and projections

// c34ElemSrc renders abstract value v at element type t as a Go expression.
func c34ElemSrc(t string, v int) string {
	switch t {
	case "int":
		if v == 0 {
			return "0"
		}
		return strconv.Itoa(10*v + 1)
	case "int8":
		return strconv.Itoa(-v)
	case "uint8":
		if v == 0 {
			return "0"
		}
		return strconv.Itoa(96 + v)
	case "float64":
		if v == 0 {
			return "0.0"
		}
		return strconv.Itoa(v) + ".5"
	case "string":
		if v == 0 {
			return `""`
		}
		return strconv.Quote("s" + strconv.Itoa(v))
	}
	panic("c34: element type " + t)
}

func c34ElemInt(v int) int {
	if v == 0 {
		return 0
	}
	return 10*v + 1
}
func c34ElemInt8(v int) int8 { return int8(-v) }
func c34ElemUint8(v int) uint8 {
	if v == 0 {
		return 0
	}
	return uint8(96 + v)
}
func c34ElemFloat64(v int) float64 {
	if v == 0 {
		return 0
	}
	return float64(v) + 0.5
}
func c34ElemString(v int) string {
	if v == 0 {
		return ""
	}
	return "s" + strconv.Itoa(v)
}

// c34ElemShow is the projection of abstract value v at element type t.
func c34ElemShow(t string, v int) string {
	switch t {
	case "int":
		return show.Show(c34ElemInt(v))
	case "int8":
		return show.Show(c34ElemInt8(v))
	case "uint8":
		return show.Show(c34ElemUint8(v))
	case "float64":
		return show.Show(c34ElemFloat64(v))
	case "string":
		return show.Show(c34ElemString(v))
	}
	panic("c34: element type " + t)
}

func c34SeqShow(t string, vs []int) string {
	parts := make([]string, len(vs))
	for i, v := range vs {
		parts[i] = c34ElemShow(t, v)
	}
	return "[" + strings.Join(parts, " ") + "]"
}

func c34SeqSrc(t string, vs []int) string {
	parts := make([]string, len(vs))
	for i, v := range vs {
		parts[i] = c34ElemSrc(t, v)
	}
	return strings.Join(parts, ", ")
}

// bytes of a string argument (AppendString, CopyString)
func c34StrArg(vs []int) string {
	b := make([]byte, len(vs))
	for i, v := range vs {
		b[i] = c34ElemUint8(v)
	}
	return string(b)
}

func c34ElemOf(b *c34BoxCase) (key, elem, dir string) {
	e := b.Elem
	if strings.HasSuffix(e, "<-") || strings.HasSuffix(e, "->") {
		dir, e = e[len(e)-2:], e[:len(e)-2]
	}
	if i := strings.Index(e, ","); i >= 0 {
		return e[:i], e[i+1:], dir
	}
	return "int", e, dir
}

// ---------------------------------------------------------------------------------------
// expected observation from the model's record

func c34BoxWant(fam, elemSpec string, call *c34BoxCall) (want []string, wantPanic string, err error) {
	bc := &c34BoxCase{Fam: fam, Elem: elemSpec}
	key, elem, _ := c34ElemOf(bc)
	var parts []json.RawMessage
	if err := json.Unmarshal(call.R, &parts); err != nil || len(parts) != 2 {
		return nil, "", fmt.Errorf("bad container result %s", call.R)
	}
	var tag string
	json.Unmarshal(parts[0], &tag)
	if tag == "p" {
		json.Unmarshal(parts[1], &wantPanic)
		return nil, wantPanic, nil
	}
	var outs []c34BoxOut
	if err := json.Unmarshal(parts[1], &outs); err != nil {
		return nil, "", fmt.Errorf("bad container outputs %s: %v", parts[1], err)
	}
	for _, o := range outs {
		switch o.T {
		case "i":
			var n int
			json.Unmarshal(o.V, &n)
			want = append(want, show.Show(n))
		case "b":
			var x bool
			json.Unmarshal(o.V, &x)
			want = append(want, show.Show(x))
		case "e":
			var v int
			json.Unmarshal(o.V, &v)
			want = append(want, c34ElemShow(elem, v))
		case "s":
			var vs []int
			json.Unmarshal(o.V, &vs)
			if o.Nil {
				want = append(want, "slice:nil")
			} else {
				want = append(want, c34SeqShow(elem, vs))
			}
			if o.Cap < 0 {
				want = append(want, fmt.Sprintf(">=%d", len(vs)))
			} else {
				want = append(want, show.Show(o.Cap))
			}
		default:
			return nil, "", fmt.Errorf("bad container output %q", o.T)
		}
	}
	// the state afterwards
	switch fam {
	case "map":
		var kv [][]int
		if err := json.Unmarshal(call.Post, &kv); err != nil {
			return nil, "", err
		}
		var st c34BoxState
		_ = st
		ps := make([]string, len(kv))
		for i, p := range kv {
			ps[i] = c34ElemShow(key, p[0]) + "=>" + c34ElemShow(elem, p[1])
		}
		c34SortStrings(ps)
		want = append(want, "map["+strings.Join(ps, " ")+"]")
	case "chan":
		var post struct {
			Buf    []int `json:"buf"`
			Closed bool  `json:"closed"`
		}
		if err := json.Unmarshal(call.Post, &post); err != nil {
			return nil, "", err
		}
		want = append(want, c34SeqShow(elem, post.Buf), show.Show(post.Closed))
	default:
		var arr []int
		if err := json.Unmarshal(call.Post, &arr); err != nil {
			return nil, "", err
		}
		want = append(want, c34SeqShow(elem, arr))
	}
	return want, "", nil
}

func c34SortStrings(s []string) {
	for i := 1; i < len(s); i++ {
		for j := i; j > 0 && s[j] < s[j-1]; j-- {
			s[j], s[j-1] = s[j-1], s[j]
		}
	}
}

// a nil map stays nil whatever the model's (empty) pair list says
func c34FixNilMap(b *c34BoxCase) {
	if b.Fam == "map" && b.State.Nil && b.WantP == "" && len(b.Want) > 0 {
		b.Want[len(b.Want)-1] = "map:nil"
	}
}

// c34BoxAgree compares an expected with an observed observation; ">=n" accepts any "int:m", m >= n.
func c34BoxAgree(b *c34BoxCase, got c34BoxObs) bool {
	if b.WantP != "" {
		return got.Panic == b.WantP
	}
	if got.Panic != "" || got.Compile != "" || len(got.Vals) != len(b.Want) {
		return false
	}
	for i, w := range b.Want {
		if strings.HasPrefix(w, ">=") {
			n, _ := strconv.Atoi(w[2:])
			m, err := strconv.Atoi(strings.TrimPrefix(got.Vals[i], "int:"))
			if err != nil || !strings.HasPrefix(got.Vals[i], "int:") || m < n {
				return false
			}
			continue
		}
		if w != got.Vals[i] {
			return false
		}
	}
	return true
}

// c34BoxObs is what one side observed.
type c34BoxObs struct {
	Vals    []string
	Panic   string // class
	Msg     string
	Compile string
}

func (o c34BoxObs) String() string {
	switch {
	case o.Compile != "":
		return "does not compile(" + o.Compile + ")"
	case o.Panic != "":
		if o.Msg != "" && o.Msg != o.Panic {
			return "panic(" + o.Panic + ": " + o.Msg + ")"
		}
		return "panic(" + o.Panic + ")"
	}
	return "[" + strings.Join(o.Vals, ", ") + "]"
}

func (b *c34BoxCase) wantString() string {
	if b.WantP != "" {
		return "panic(" + b.WantP + ")"
	}
	return "[" + strings.Join(b.Want, ", ") + "]"
}

func c34BoxDiff(b *c34BoxCase, got c34BoxObs) string {
	switch {
	case got.Compile != "":
		return "does-not-compile"
	case got.Panic != "" && b.WantP == "":
		return "panics"
	case got.Panic != "":
		return "panic-differs"
	case b.WantP != "":
		return "panic-missing"
	}
	return "value-differs"
}

func c34BoxSig(b *c34BoxCase, got c34BoxObs) string {
	return fmt.Sprintf("cti(%s,%s):%s", b.Call.Of, b.Fam, c34BoxDiff(b, got))
}

// ---------------------------------------------------------------------------------------
// rendering for gomacro

// c34BoxSource renders the call as a function literal returning results and the state afterwards.
func c34BoxSource(b *c34BoxCase) string {
	key, t, dir := c34ElemOf(b)
	st, call := &b.State, &b.Call
	a := call.Args
	arg := func(i int) string { return strconv.Itoa(a[i]) }
	var setup, body, results, ret string
	switch b.Fam {
	case "slice", "bytes":
		n := len(st.Arr)
		setup = fmt.Sprintf("b := [%d]%s{%s}; ", n, t, c34SeqSrc(t, st.Arr))
		if st.Nil {
			setup += fmt.Sprintf("var x []%s; ", t)
		} else {
			setup += fmt.Sprintf("x := b[%d:%d:%d]; ", st.Off, st.Off+st.Len, st.Off+st.Cap)
		}
		ret, results = "b", fmt.Sprintf("[%d]%s", n, t)
	case "array":
		n := len(st.Arr)
		setup = fmt.Sprintf("x := [%d]%s{%s}; ", n, t, c34SeqSrc(t, st.Arr))
		ret, results = "x", fmt.Sprintf("[%d]%s", n, t)
	case "map":
		if st.Nil {
			setup = fmt.Sprintf("var x map[%s]%s; ", key, t)
		} else {
			ps := make([]string, len(st.KV))
			for i, p := range st.KV {
				ps[i] = c34ElemSrc(key, p[0]) + ": " + c34ElemSrc(t, p[1])
			}
			setup = fmt.Sprintf("x := map[%s]%s{%s}; ", key, t, strings.Join(ps, ", "))
		}
		ret, results = "x", fmt.Sprintf("map[%s]%s", key, t)
	case "chan":
		if st.Nil {
			setup = fmt.Sprintf("var c chan %s; ", t)
		} else {
			setup = fmt.Sprintf("c := make(chan %s, %d); ", t, st.Cap)
			for _, v := range st.Buf {
				setup += fmt.Sprintf("c <- %s; ", c34ElemSrc(t, v))
			}
			if st.Closed {
				setup += "close(c); "
			}
		}
		switch dir {
		case "<-":
			setup += fmt.Sprintf("var x <-chan %s = c; ", t)
		case "->":
			setup += fmt.Sprintf("var x chan<- %s = c; ", t)
		default:
			setup += "x := c; "
		}
		ret, results = "q, closed", fmt.Sprintf("[]%s, bool", t)
	}
	pre := ""  // result types before the state
	vals := "" // returned before the state
	switch call.M {
	case "Len", "Cap":
		body = fmt.Sprintf("r := x.%s(); ", call.M)
		pre, vals = "int", "r"
	case "Index":
		if b.Fam == "map" {
			body = fmt.Sprintf("r := x.Index(%s); ", c34ElemSrc(key, a[0]))
		} else {
			body = fmt.Sprintf("r := x.Index(%s); ", arg(0))
		}
		pre, vals = t, "r"
	case "TryIndex":
		body = fmt.Sprintf("r, ok := x.TryIndex(%s); ", c34ElemSrc(key, a[0]))
		pre, vals = t+", bool", "r, ok"
	case "SetIndex":
		if b.Fam == "map" {
			body = fmt.Sprintf("x.SetIndex(%s, %s); ", c34ElemSrc(key, a[0]), c34ElemSrc(t, a[1]))
		} else {
			body = fmt.Sprintf("x.SetIndex(%s, %s); ", arg(0), c34ElemSrc(t, a[1]))
		}
	case "DelIndex":
		body = fmt.Sprintf("x.DelIndex(%s); ", c34ElemSrc(key, a[0]))
	case "AddrIndex":
		body = fmt.Sprintf("p := x.AddrIndex(%s); r := *p; *p = %s; ", arg(0), c34ElemSrc(t, a[1]))
		pre, vals = t, "r"
	case "Slice":
		body = fmt.Sprintf("r := x.Slice(%s, %s); ", arg(0), arg(1))
		pre, vals = "[]"+t+", int", "r, cap(r)"
	case "Slice3":
		body = fmt.Sprintf("r := x.Slice3(%s, %s, %s); ", arg(0), arg(1), arg(2))
		pre, vals = "[]"+t+", int", "r, cap(r)"
	case "Append":
		body = fmt.Sprintf("r := x.Append(%s); ", c34SeqSrc(t, a))
		pre, vals = "[]"+t+", int", "r, cap(r)"
	case "AppendSpread":
		body = fmt.Sprintf("r := x.Append([]%s{%s}...); ", t, c34SeqSrc(t, a))
		pre, vals = "[]"+t+", int", "r, cap(r)"
	case "AppendString":
		body = fmt.Sprintf("r := x.AppendString(%s); ", strconv.Quote(c34StrArg(a)))
		pre, vals = "[]"+t+", int", "r, cap(r)"
	case "Copy":
		body = fmt.Sprintf("x.Copy([]%s{%s}); ", t, c34SeqSrc(t, a))
	case "CopySelf":
		src := "b"
		if b.Fam == "array" {
			src = "x"
		}
		body = fmt.Sprintf("x.Copy(%s[%d:%d]); ", src, a[0], a[0]+a[1])
	case "CopyString":
		body = fmt.Sprintf("x.CopyString(%s); ", strconv.Quote(c34StrArg(a)))
	case "Recv", "TryRecv":
		body = fmt.Sprintf("r, ok := x.%s(); ", call.M)
		pre, vals = t+", bool", "r, ok"
	case "Send":
		body = fmt.Sprintf("x.Send(%s); ", c34ElemSrc(t, a[0]))
	case "TrySend":
		body = fmt.Sprintf("r := x.TrySend(%s); ", c34ElemSrc(t, a[0]))
		pre, vals = "bool", "r"
	case "Close":
		body = "x.Close(); "
	default:
		panic("c34: container call " + call.M)
	}
	if b.Fam == "chan" {
		// the queue is drained; closedness is observed by closing (a closed channel panics).
		// NOT by `select { case _, ok := <-c: ... default: }`: gomacro reports ok = true for a
		// closed channel there (a defect of its select statement, outside this property)
		body += fmt.Sprintf("q := make([]%s, 0); for len(c) > 0 { q = append(q, <-c) }; closed := c != nil && (func() (p bool) { defer func() { if recover() != nil { p = true } }(); close(c); return false })(); ", t)
	}
	if pre != "" {
		results = pre + ", " + results
		ret = vals + ", " + ret
	}
	return fmt.Sprintf("(func() (%s) { %s%sreturn %s })()", results, setup, body, ret)
}

// c34BoxEval evaluates the rendered call on gomacro.
func c34BoxEval(g *gm.Interp, b *c34BoxCase) (obs c34BoxObs) {
	src := c34BoxSource(b)
	ir := g.Ir
	compiled := false
	func() {
		defer func() {
			if r := recover(); r != nil {
				msg := fmt.Sprint(r)
				if err, ok := r.(error); ok {
					msg = err.Error()
				}
				if !compiled {
					obs = c34BoxObs{Compile: c01Trunc(msg)}
				} else {
					obs = c34BoxObs{Panic: c34PanicClass(msg), Msg: c01Trunc(msg)}
				}
			}
		}()
		expr := ir.Compile(src)
		compiled = true
		vs, _ := ir.RunExpr(expr)
		for _, v := range vs {
			obs.Vals = append(obs.Vals, gm.ShowValue(v))
		}
	}()
	g.Out.Reset()
	return obs
}

// ---------------------------------------------------------------------------------------
// native Go: the operator / builtin itself

func c34Catch(obs *c34BoxObs) {
	if r := recover(); r != nil {
		msg := fmt.Sprint(r)
		if err, ok := r.(error); ok {
			msg = err.Error()
		}
		*obs = c34BoxObs{Panic: c34PanicClass(msg), Msg: msg}
	}
}

// c34NatSliceOps applies the call to slice s (a window of back) with the Go builtins.
func c34NatSliceOps[T any](s, back []T, call *c34BoxCall, mk func(int) T) (vals []string) {
	a := call.Args
	out := func(x interface{}) { vals = append(vals, show.Show(x)) }
	switch call.M {
	case "Len":
		out(len(s))
	case "Cap":
		out(cap(s))
	case "Index":
		out(s[a[0]])
	case "SetIndex":
		s[a[0]] = mk(a[1])
	case "AddrIndex":
		p := &s[a[0]]
		r := *p
		*p = mk(a[1])
		out(r)
	case "Slice":
		r := s[a[0]:a[1]]
		out(r)
		out(cap(r))
	case "Slice3":
		r := s[a[0]:a[1]:a[2]]
		out(r)
		out(cap(r))
	case "Append":
		var r []T
		switch len(a) {
		case 0:
			r = append(s)
		case 1:
			r = append(s, mk(a[0]))
		case 2:
			r = append(s, mk(a[0]), mk(a[1]))
		default:
			r = append(s, mk(a[0]), mk(a[1]), mk(a[2]))
		}
		out(r)
		out(cap(r))
	case "AppendSpread":
		src := make([]T, len(a))
		for i, v := range a {
			src[i] = mk(v)
		}
		r := append(s, src...)
		out(r)
		out(cap(r))
	case "Copy":
		src := make([]T, len(a))
		for i, v := range a {
			src[i] = mk(v)
		}
		copy(s, src)
	case "CopySelf":
		copy(s, back[a[0]:a[0]+a[1]])
	default:
		panic("c34 native: slice call " + call.M)
	}
	return vals
}

func c34NatSlice[T any](st *c34BoxState, call *c34BoxCall, mk func(int) T) (obs c34BoxObs) {
	defer c34Catch(&obs)
	back := make([]T, len(st.Arr))
	for i, v := range st.Arr {
		back[i] = mk(v)
	}
	var s []T
	if !st.Nil {
		s = back[st.Off : st.Off+st.Len : st.Off+st.Cap]
	}
	obs.Vals = c34NatSliceOps(s, back, call, mk)
	obs.Vals = append(obs.Vals, show.Show(back))
	return obs
}

func c34NatBytes(st *c34BoxState, call *c34BoxCall) (obs c34BoxObs) {
	defer c34Catch(&obs)
	back := make([]uint8, len(st.Arr))
	for i, v := range st.Arr {
		back[i] = c34ElemUint8(v)
	}
	var s []uint8
	if !st.Nil {
		s = back[st.Off : st.Off+st.Len : st.Off+st.Cap]
	}
	switch call.M {
	case "AppendString":
		r := append(s, c34StrArg(call.Args)...)
		obs.Vals = []string{show.Show(r), show.Show(cap(r))}
	case "CopyString":
		copy(s, c34StrArg(call.Args))
	default:
		obs.Vals = c34NatSliceOps(s, back, call, c34ElemUint8)
	}
	obs.Vals = append(obs.Vals, show.Show(back))
	return obs
}

// arrays: the operators on real array variables of each generated length
type c34ArrOps[T any] struct {
	idx  func(int) T
	set  func(int, T)
	addr func(int) *T
	sl   func(i, j int) []T
	sl3  func(i, j, k int) []T
	ln   func() int
	cp   func() int
	cpy  func([]T)
	self func(o, l int) []T
	snap func() string
}

func c34ArrayOps[T any](vals []T) *c34ArrOps[T] {
	switch len(vals) {
	case 0:
		var x [0]T
		return &c34ArrOps[T]{func(i int) T { return x[i] }, func(i int, v T) { x[i] = v }, func(i int) *T { return &x[i] },
			func(i, j int) []T { return x[i:j] }, func(i, j, k int) []T { return x[i:j:k] }, func() int { return len(x) }, func() int { return cap(x) },
			func(src []T) { copy(x[:], src) }, func(o, l int) []T { return x[o : o+l] }, func() string { return show.Show(x) }}
	case 1:
		var x [1]T
		copy(x[:], vals)
		return &c34ArrOps[T]{func(i int) T { return x[i] }, func(i int, v T) { x[i] = v }, func(i int) *T { return &x[i] },
			func(i, j int) []T { return x[i:j] }, func(i, j, k int) []T { return x[i:j:k] }, func() int { return len(x) }, func() int { return cap(x) },
			func(src []T) { copy(x[:], src) }, func(o, l int) []T { return x[o : o+l] }, func() string { return show.Show(x) }}
	case 3:
		var x [3]T
		copy(x[:], vals)
		return &c34ArrOps[T]{func(i int) T { return x[i] }, func(i int, v T) { x[i] = v }, func(i int) *T { return &x[i] },
			func(i, j int) []T { return x[i:j] }, func(i, j, k int) []T { return x[i:j:k] }, func() int { return len(x) }, func() int { return cap(x) },
			func(src []T) { copy(x[:], src) }, func(o, l int) []T { return x[o : o+l] }, func() string { return show.Show(x) }}
	case 4:
		var x [4]T
		copy(x[:], vals)
		return &c34ArrOps[T]{func(i int) T { return x[i] }, func(i int, v T) { x[i] = v }, func(i int) *T { return &x[i] },
			func(i, j int) []T { return x[i:j] }, func(i, j, k int) []T { return x[i:j:k] }, func() int { return len(x) }, func() int { return cap(x) },
			func(src []T) { copy(x[:], src) }, func(o, l int) []T { return x[o : o+l] }, func() string { return show.Show(x) }}
	}
	panic("c34 native: array length")
}

func c34NatArray[T any](st *c34BoxState, call *c34BoxCall, mk func(int) T) (obs c34BoxObs) {
	defer c34Catch(&obs)
	vals := make([]T, len(st.Arr))
	for i, v := range st.Arr {
		vals[i] = mk(v)
	}
	x := c34ArrayOps(vals)
	a := call.Args
	out := func(v interface{}) { obs.Vals = append(obs.Vals, show.Show(v)) }
	switch call.M {
	case "Len":
		out(x.ln())
	case "Cap":
		out(x.cp())
	case "Index":
		out(x.idx(a[0]))
	case "SetIndex":
		x.set(a[0], mk(a[1]))
	case "AddrIndex":
		p := x.addr(a[0])
		r := *p
		*p = mk(a[1])
		out(r)
	case "Slice":
		r := x.sl(a[0], a[1])
		out(r)
		out(cap(r))
	case "Slice3":
		r := x.sl3(a[0], a[1], a[2])
		out(r)
		out(cap(r))
	case "Copy":
		src := make([]T, len(a))
		for i, v := range a {
			src[i] = mk(v)
		}
		x.cpy(src)
	case "CopySelf":
		x.cpy(x.self(a[0], a[1]))
	default:
		panic("c34 native: array call " + call.M)
	}
	obs.Vals = append(obs.Vals, x.snap())
	return obs
}

func c34NatMap[K comparable, V any](st *c34BoxState, call *c34BoxCall, mkK func(int) K, mkV func(int) V) (obs c34BoxObs) {
	defer c34Catch(&obs)
	var m map[K]V
	if !st.Nil {
		m = map[K]V{}
		for _, p := range st.KV {
			m[mkK(p[0])] = mkV(p[1])
		}
	}
	a := call.Args
	out := func(v interface{}) { obs.Vals = append(obs.Vals, show.Show(v)) }
	switch call.M {
	case "Len":
		out(len(m))
	case "Index":
		out(m[mkK(a[0])])
	case "TryIndex":
		v, ok := m[mkK(a[0])]
		out(v)
		out(ok)
	case "SetIndex":
		m[mkK(a[0])] = mkV(a[1])
	case "DelIndex":
		delete(m, mkK(a[0]))
	default:
		panic("c34 native: map call " + call.M)
	}
	out(m)
	return obs
}

func c34NatChan[T any](st *c34BoxState, call *c34BoxCall, dir string, mk func(int) T) (obs c34BoxObs) {
	defer c34Catch(&obs)
	var c chan T
	if !st.Nil {
		c = make(chan T, st.Cap)
		for _, v := range st.Buf {
			c <- mk(v)
		}
		if st.Closed {
			close(c)
		}
	}
	var rx <-chan T = c
	var tx chan<- T = c
	a := call.Args
	out := func(v interface{}) { obs.Vals = append(obs.Vals, show.Show(v)) }
	switch call.M {
	case "Len":
		switch dir {
		case "<-":
			out(len(rx))
		case "->":
			out(len(tx))
		default:
			out(len(c))
		}
	case "Cap":
		switch dir {
		case "<-":
			out(cap(rx))
		case "->":
			out(cap(tx))
		default:
			out(cap(c))
		}
	case "Send":
		tx <- mk(a[0])
	case "TrySend":
		select {
		case tx <- mk(a[0]):
			out(true)
		default:
			out(false)
		}
	case "Recv":
		v, ok := <-rx
		out(v)
		out(ok)
	case "TryRecv":
		var v T
		var ok bool
		select {
		case v, ok = <-rx:
		default:
		}
		out(v)
		out(ok)
	case "Close":
		close(c)
	default:
		panic("c34 native: chan call " + call.M)
	}
	q := make([]T, 0)
	for len(c) > 0 {
		q = append(q, <-c)
	}
	closed := false
	select {
	case _, ok := <-c:
		closed = !ok
	default:
	}
	out(q)
	out(closed)
	return obs
}

// c34BoxNative dispatches on family and element type.
func c34BoxNative(b *c34BoxCase) c34BoxObs {
	key, t, dir := c34ElemOf(b)
	st, call := &b.State, &b.Call
	switch b.Fam {
	case "bytes":
		return c34NatBytes(st, call)
	case "slice":
		switch t {
		case "int":
			return c34NatSlice(st, call, c34ElemInt)
		case "int8":
			return c34NatSlice(st, call, c34ElemInt8)
		case "float64":
			return c34NatSlice(st, call, c34ElemFloat64)
		case "string":
			return c34NatSlice(st, call, c34ElemString)
		}
	case "array":
		switch t {
		case "int":
			return c34NatArray(st, call, c34ElemInt)
		case "string":
			return c34NatArray(st, call, c34ElemString)
		}
	case "map":
		switch key + "," + t {
		case "int,string":
			return c34NatMap(st, call, c34ElemInt, c34ElemString)
		case "string,int":
			return c34NatMap(st, call, c34ElemString, c34ElemInt)
		}
	case "chan":
		switch t {
		case "int":
			return c34NatChan(st, call, dir, c34ElemInt)
		case "string":
			return c34NatChan(st, call, dir, c34ElemString)
		}
	}
	return c34BoxObs{Compile: "native side does not know " + b.Fam + " of " + b.Elem}
}

// ---------------------------------------------------------------------------------------
// record -> cases, verdict

// c34DirAllows: the calls generated through a directional view of a channel.
func c34DirAllows(dir, m string) bool {
	switch dir {
	case "<-":
		return m == "Len" || m == "Cap" || m == "Recv" || m == "TryRecv"
	case "->":
		return m == "Len" || m == "Cap" || m == "Send" || m == "TrySend"
	}
	return true
}

func c34BoxExpand(rec *c34Rec, f func(b *c34BoxCase)) error {
	var st c34BoxState
	if err := json.Unmarshal(rec.St, &st); err != nil {
		return fmt.Errorf("container state %s: %v", rec.St, err)
	}
	for _, es := range c34FamElems[rec.Fam] {
		for i := range rec.Calls {
			call := rec.Calls[i]
			b := &c34BoxCase{Fam: rec.Fam, Elem: es, State: st, Call: call}
			if _, _, dir := c34ElemOf(b); !c34DirAllows(dir, call.M) {
				continue
			}
			want, wp, err := c34BoxWant(rec.Fam, es, &call)
			if err != nil {
				return err
			}
			b.Want, b.WantP = want, wp
			c34FixNilMap(b)
			f(b)
		}
	}
	return nil
}

const c34BoxReuse = 4000

func (r *c34Runner) boxInterp() *gm.Interp {
	if r.boxG == nil || r.boxUsed >= c34BoxReuse {
		r.boxG, r.boxUsed = gm.New(), 0
	}
	r.boxUsed++
	return r.boxG
}

func (r *c34Runner) boxRecord(rec *c34Rec) {
	err := c34BoxExpand(rec, func(b *c34BoxCase) {
		if r.err != nil {
			return
		}
		// Go gate: the builtin itself
		nat := c34BoxNative(b)
		r.gateChecked++
		if !c34BoxAgree(b, nat) {
			r.gateRejects++
			if n := atomic.AddInt64(&c34GateShown, 1); n <= 5 {
				fmt.Printf("GATE-REJECT property=C34 (specification disagrees with native Go; call dropped): %s: specification %s, Go %s\n",
					c34BoxSource(b), b.wantString(), nat)
			}
			return
		}
		got := c34BoxEval(r.boxInterp(), b)
		r.c.Case(b.Key(), true)
		r.traces++
		r.stats.boxCalls++
		r.stats.boxCells[b.Fam+"|"+b.Elem+"|"+b.Call.Of] = true
		if c34BoxAgree(b, got) {
			return
		}
		sig := c34BoxSig(b, got)
		if r.confirms[sig] < 2 && r.nconfirm < 30 {
			r.confirms[sig]++
			r.nconfirm++
			got2 := c34BoxEval(gm.New(), b)
			if c34BoxAgree(b, got2) {
				r.err = core.Infra("disagreement not reproducible in a fresh interpreter: %s: specification %s, first observed %s", c34BoxSource(b), b.wantString(), got)
				return
			}
			got = got2
			sig = c34BoxSig(b, got)
		}
		what := fmt.Sprintf("%s\n  specification (= Go builtin %s): %s\n  gomacro: %s", c34BoxSource(b), b.Call.Of, b.wantString(), got)
		r.c.Violation(sig, what, c34ReplayCase{Box: b, Source: c34BoxSource(b), Expected: b.wantString(), Observed: got.String()})
	})
	if err != nil && r.err == nil {
		r.err = core.Infra("bad record from TLC: %v", err)
	}
}

func c34BoxSample(rec *c34Rec) interface{} {
	var out []map[string]string
	n := 0
	c34BoxExpand(rec, func(b *c34BoxCase) {
		n++
		if len(out) < 3 && n%29 == 3 {
			out = append(out, map[string]string{"snippet": c34BoxSource(b), "expected": b.wantString()})
		}
	})
	return map[string]interface{}{"group": "box", "family": rec.Fam, "calls_in_record": n, "calls": out}
}

func c34ReplayBox(c *core.Ctx, b *c34BoxCase) error {
	if nat := c34BoxNative(b); !c34BoxAgree(b, nat) {
		return core.Infra("stored expectation %s disagrees with native Go %s", b.wantString(), nat)
	}
	got := c34BoxEval(gm.New(), b)
	fmt.Printf("replay: %s\n  specification (= Go builtin %s): %s\n  gomacro: %s\n", c34BoxSource(b), b.Call.Of, b.wantString(), got)
	if !c34BoxAgree(b, got) {
		c.Violation(c34BoxSig(b, got), "replayed container call disagrees", c34ReplayCase{Box: b, Source: c34BoxSource(b), Expected: b.wantString(), Observed: got.String()})
	}
	return nil
}

// c34BoxSelfTest: correct container cases are accepted by gomacro and by the native side,
// corrupted ones rejected by both.
func c34BoxSelfTest() error {
	g := gm.New()
	st := c34BoxState{Arr: []int{1, 2, 3}, Off: 1, Len: 1, Cap: 2}
	mk := func(m string, args []int, want []string, wp string) *c34BoxCase {
		return &c34BoxCase{Fam: "slice", Elem: "int", State: st, Call: c34BoxCall{M: m, Of: m, Args: args}, Want: want, WantP: wp}
	}
	good := []*c34BoxCase{
		mk("Index", []int{0}, []string{"int:21", "[int:11 int:21 int:31]"}, ""),
		mk("Index", []int{1}, nil, "index"),
		mk("Append", []int{7}, []string{"[int:21 int:71]", "int:2", "[int:11 int:21 int:71]"}, ""),
		mk("Append", []int{7, 8}, []string{"[int:21 int:71 int:81]", ">=3", "[int:11 int:21 int:31]"}, ""),
		mk("Slice", []int{1, 2}, []string{"[int:31]", "int:1", "[int:11 int:21 int:31]"}, ""),
	}
	for _, b := range good {
		if got := c34BoxEval(g, b); !c34BoxAgree(b, got) {
			return fmt.Errorf("correct container case rejected: %s gives %s, expected %s", c34BoxSource(b), got, b.wantString())
		}
		if nat := c34BoxNative(b); !c34BoxAgree(b, nat) {
			return fmt.Errorf("correct container case rejected by the native side: %s gives %s, expected %s", c34BoxSource(b), nat, b.wantString())
		}
	}
	bad := []*c34BoxCase{
		mk("Index", []int{0}, []string{"int:31", "[int:11 int:21 int:31]"}, ""),                     // indexing from the wrong end
		mk("Index", []int{1}, []string{"int:31", "[int:11 int:21 int:31]"}, ""),                     // reading beyond len
		mk("Append", []int{7}, []string{"[int:21 int:71]", "int:2", "[int:11 int:21 int:31]"}, ""),  // append not in place
		mk("Slice", []int{1, 2}, []string{"[int:31]", "int:2", "[int:11 int:21 int:31]"}, ""),       // wrong capacity
		mk("Slice", []int{1, 3}, []string{"[int:31 int:0]", "int:1", "[int:11 int:21 int:31]"}, ""), // beyond cap
	}
	for _, b := range bad {
		if got := c34BoxEval(g, b); c34BoxAgree(b, got) {
			return fmt.Errorf("corrupted container case accepted: %s", c34BoxSource(b))
		}
		if nat := c34BoxNative(b); c34BoxAgree(b, nat) {
			return fmt.Errorf("corrupted container case accepted by the native side: %s", c34BoxSource(b))
		}
	}
	return nil
}

// c34PanicClass: the class of a run-time panic.  The container methods are implemented with
// package reflect, whose bounds panics carry reflect's own messages; they denote the same
// classes as the run-time errors of the operators (panic MESSAGES are not part of the property).
func c34PanicClass(msg string) string {
	switch {
	case strings.Contains(msg, "slice index out of bounds"): // reflect.Value.Slice, Slice3
		return "slice"
	case strings.Contains(msg, "reflect: slice index out of range"), strings.Contains(msg, "reflect: array index out of range"),
		strings.Contains(msg, "reflect: string index out of range"):
		return "index"
	}
	return show.PanicClass(msg)
}

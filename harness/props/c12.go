package props

import (
	"encoding/json"
	"fmt"
	"runtime"
	"strings"
	"sync"
	"time"

	"github.com/cosmos72/gomacro/fast"

	"verif/harness/core"
	"verif/harness/gm"
)

// C12: a panic escaping an evaluation at any point leaves later evaluations unaffected.
// Spec: spec/sem/Defer.tla with the environment action "the injected hook panics at its k-th
// call" (constant MaxFault, variable faultAt). TLC enumerates (program, fault point k) pairs
// with the outcome Go prescribes. Each is run on the interpreter with the hook armed; then,
// in the SAME interpreter, the executor bookkeeping is read (fast.VerifSnapshot) and a battery
// of fault-free behaviours of the same specification is replayed event by event, including the
// bookkeeping observations (IsDefer flag, call depth) that a stale state would change.

func init() {
	core.Register(&core.Prop{
		ID:    "C12",
		Level: "model_checking",
		Rule: "TLC enumerates (program, k) with the injected hook panicking at its k-th call (k = 1..MaxFault; inside interpreted code, while a deferred call runs, while another panic is handled) and the outcome Go prescribes; " +
			"each is run with the hook armed, then the executor bookkeeping is read and a battery of fault-free behaviours is replayed in the same interpreter; " +
			"non-trivial = the hook actually fired; distinct by (program, k)",
		Run:      runC12,
		Replay:   replayC12,
		SelfTest: selfTestC12,
	})
}

type c12Case struct {
	pc    *ProgCase
	rec   c07Rec
	fault int
	fired bool
}

func c12Quiescent(s fast.VerifRunState) string {
	var bad []string
	if s.ExecFlags != 0 {
		bad = append(bad, fmt.Sprintf("ExecFlags=%d (defer/debug flags not restored)", s.ExecFlags))
	}
	if !s.CurrEnvIsTop {
		bad = append(bad, fmt.Sprintf("Run.CurrEnv is a stale frame at call depth %d (call stack not restored)", s.CurrEnvDepth))
	}
	if s.SigDebug != 0 {
		bad = append(bad, "Signals.Debug set (debugger mode not restored)")
	}
	if !s.InstallDeferNil {
		bad = append(bad, "Run.InstallDefer pending")
	}
	return strings.Join(bad, "; ")
}

// c12Run runs one faulted case followed by the battery in interpreter g.
// It returns a description of the first disagreement ("" if none) and its signature.
func c12Run(g *gm.Interp, cs *c12Case, battery []*ProgCase) (sig, what string) {
	k := cs.fault
	g.Hook = func(n int, e string) {
		if k > 0 && n == k {
			panic("fault")
		}
	}
	events, result := runOnGomacro(g, cs.pc)
	g.Hook = nil
	if !progConforms(cs.pc, events, result) {
		if cs.rec.MaxP >= 2 {
			// nested panics: C07's known finding decides the faulted evaluation itself;
			// the state afterwards is still checked below
		} else {
			return "faulted-evaluation-differs", "evaluation with the hook panicking at call " + fmt.Sprint(k) + ": " +
				describeDiff(cs.pc.WantEvents, events, cs.pc.WantResult, result)
		}
	}
	if q := c12Quiescent(fast.VerifSnapshot(g.Ir)); q != "" {
		return "bookkeeping-not-restored", "after the aborted evaluation: " + q
	}
	for bi, b := range battery {
		ev, res := runOnGomacro(g, b)
		if !progConforms(b, ev, res) {
			return fmt.Sprintf("battery-%d-differs-after-aborted-evaluation", bi), fmt.Sprintf("battery program %d after the aborted evaluation: %s\nbattery program:\n%s", bi,
				describeDiff(b.WantEvents, ev, b.WantResult, res), b.Decls)
		}
		if q := c12Quiescent(fast.VerifSnapshot(g.Ir)); q != "" {
			return "bookkeeping-not-restored", fmt.Sprintf("after battery program %d: %s", bi, q)
		}
	}
	return "", ""
}

// c12RunDebug: the same fault, but the aborted evaluation runs in single-step debug mode
// (Interp.Debug with a debugger that always answers `step`). Afterwards the battery is run
// with plain Eval while a counting debugger is installed: it must never be entered (debugger
// mode is part of the state the property wants restored), and must give the specified results.
func c12RunDebug(g *gm.Interp, cs *c12Case, battery []*ProgCase) (sig, what string) {
	k := cs.fault
	g.Hook = func(n int, e string) {
		if k > 0 && n == k {
			panic("fault")
		}
	}
	if r := g.Eval(cs.pc.Decls); r.Panicked {
		g.Hook = nil
		return "declaration-failed", r.Panic
	}
	events, result := c19Debug(g, cs.pc.Entry, &c19Debugger{all: true})
	g.Hook = nil
	if cs.rec.MaxP < 2 && (result != cs.pc.WantResult || strings.Join(stripBook(events), "|") != strings.Join(stripBook(cs.pc.WantEvents), "|")) {
		return "faulted-evaluation-differs-under-single-step", "single-stepped evaluation with the hook panicking at call " + fmt.Sprint(k) + ": " +
			describeDiff(stripBook(cs.pc.WantEvents), stripBook(events), cs.pc.WantResult, result)
	}
	watch := &c19Debugger{all: true}
	g.Ir.SetDebugger(watch)
	for bi, b := range battery {
		ev, res := runOnGomacro(g, b)
		if len(watch.calls) != 0 {
			return "debug-mode-leaks-into-later-evaluation", fmt.Sprintf("after a single-stepped evaluation was aborted by a panic, battery program %d (plain Eval) entered the debugger %d times", bi, len(watch.calls))
		}
		if res != b.WantResult || strings.Join(stripBook(ev), "|") != strings.Join(stripBook(b.WantEvents), "|") {
			return fmt.Sprintf("battery-%d-differs-after-aborted-evaluation", bi), fmt.Sprintf("battery program %d after the aborted single-stepped evaluation: %s", bi,
				describeDiff(stripBook(b.WantEvents), stripBook(ev), b.WantResult, res))
		}
	}
	return "", ""
}

func c12Load(c *core.Ctx, maxFault int, stride uint64) (cases []*c12Case, battery []*ProgCase, err error) {
	coreOps := `c_Ops == {"L","call","defer","rec","panic","deferrec","deferclo","deferev"}`
	seed := uint64(c.Seed)
	n := uint64(0)
	var perr error
	var batteryCand []*ProgCase
	handle := func(line []byte) {
		n++
		var rec c07Rec
		if e := json.Unmarshal(line, &rec); e != nil {
			perr = core.Infra("bad record: %v", e)
			return
		}
		if rec.Fault == 0 {
			// candidates for the battery: fault-free, one panic recovered, several events
			if len(batteryCand) < 400 && rec.MaxP == 1 && len(rec.Log) >= 3 && len(rec.Outcome) == 2 && rec.Outcome[0] == "done" {
				batteryCand = append(batteryCand, c07Render(&rec, line))
			}
			return
		}
		fired := rec.Nev >= rec.Fault
		if !fired {
			return // the hook never reached call k: same as the fault-free behaviour (C07)
		}
		if stride > 1 && (n*2654435761+seed)%stride != 0 {
			return
		}
		pc := c07Render(&rec, line)
		pc.Key = fmt.Sprintf("%s@%d", pc.Key, rec.Fault)
		cases = append(cases, &c12Case{pc: pc, rec: rec, fault: rec.Fault, fired: fired})
	}
	_, err = c.TLC(core.TLCOpts{Spec: "Defer", MCDefs: coreOps, CfgName: "bfs-faults",
		Cfg: c07Cfg(3, 3, c.Pick(4, 5), "{1,2}", maxFault), OnLine: handle, Timeout: 40 * time.Minute})
	if err != nil {
		return nil, nil, err
	}
	if perr != nil {
		return nil, nil, perr
	}
	// simulation: deeper programs, all operations, faults
	allOps := `c_Ops == {"L","call","defer","rec","panic","deferrec","deferclo","deferloop","set","ret","spin","deferev"}`
	stride = 1
	_, err = c.TLC(core.TLCOpts{Spec: "Defer", MCDefs: allOps, CfgName: "sim-faults",
		Cfg:      c07Cfg(4, 4, 10, "{1,2,3,4}", maxFault+2),
		Simulate: true, SimNum: c.Pick(150, 3000), SimDepth: 120, Seed: c.Seed, OnLine: handle})
	if err != nil {
		return nil, nil, err
	}
	if perr != nil {
		return nil, nil, perr
	}
	// battery: three behaviours with different shapes, chosen deterministically
	pick := func(pred func(p *ProgCase) bool) {
		for _, b := range batteryCand {
			if pred(b) {
				for _, x := range battery {
					if x == b {
						return
					}
				}
				battery = append(battery, b)
				return
			}
		}
	}
	pick(func(p *ProgCase) bool { return strings.Contains(p.Decls, "r := recover()") && strings.Contains(p.Decls, `ev("ret"`) })
	pick(func(p *ProgCase) bool {
		return strings.Contains(p.Decls, `, recover())`) && strings.Contains(p.Decls, "defer f") && !strings.Contains(p.Decls, "r := recover()")
	})
	pick(func(p *ProgCase) bool { return strings.Contains(p.Decls, "res += 10") })
	if len(battery) < 2 {
		return nil, nil, core.Infra("could not select a battery from %d candidates", len(batteryCand))
	}
	return cases, battery, nil
}

func runC12(c *core.Ctx) error {
	cases, battery, err := c12Load(c, c.Pick(4, 7), uint64(c.Pick(1, 2)))
	if err != nil {
		return err
	}
	for i, b := range battery {
		c.Sample(map[string]interface{}{"battery_program": i, "decls": b.Decls, "expected_events": b.WantEvents, "expected_result": b.WantResult})
	}
	if len(cases) > 0 {
		cs := cases[len(cases)/2]
		c.Sample(map[string]interface{}{"faulted_program": cs.pc.Decls, "hook_panics_at_call": cs.fault, "expected_events": cs.pc.WantEvents, "expected_result": cs.pc.WantResult})
	}
	opts := &ProgOpts{Prelude: c07Prelude, Book: true}
	var mu sync.Mutex
	var firstErr error
	chunk := 40
	njobs := (len(cases) + chunk - 1) / chunk
	core.ParDo(njobs, runtime.NumCPU(), func(j int) {
		g := newProgInterp(opts)
		used := 0
		for i := j * chunk; i < (j+1)*chunk && i < len(cases); i++ {
			cs := cases[i]
			if used >= 25 {
				g = newProgInterp(opts)
				used = 0
			}
			used++
			sig, what := c12Run(g, cs, battery)
			c.Case(cs.pc.Key, true)
			c.Trace()
			if sig == "" {
				continue
			}
			// confirm: same sequence in a fresh interpreter
			g = newProgInterp(opts)
			used = 0
			sig2, what2 := c12Run(g, cs, battery)
			g = newProgInterp(opts)
			if sig2 == "" {
				mu.Lock()
				if firstErr == nil {
					firstErr = core.Infra("disagreement (%s) not reproducible in a fresh interpreter: %s", sig, what)
				}
				mu.Unlock()
				continue
			}
			c.Violation(sig2, what2+"\nfaulted program (hook panics at call "+fmt.Sprint(cs.fault)+"):\n"+cs.pc.Decls,
				map[string]interface{}{"record": cs.pc.Raw, "fault": cs.fault})
		}
	})
	// the same faults with the aborted evaluation in single-step debug mode (every 4th case)
	var dcases []*c12Case
	for i, cs := range cases {
		if (i+int(c.Seed))%c.Pick(6, 3) == 0 {
			dcases = append(dcases, cs)
		}
	}
	core.ParDo((len(dcases)+chunk-1)/chunk, runtime.NumCPU(), func(j int) {
		var g *gm.Interp
		used := 0
		for i := j * chunk; i < (j+1)*chunk && i < len(dcases); i++ {
			cs := dcases[i]
			if g == nil || used >= 25 {
				g = c19Interp()
				used = 0
			}
			used++
			sig, what := c12RunDebug(g, cs, battery)
			c.Case(cs.pc.Key+"|single-step", true)
			c.Trace()
			if sig == "" {
				continue
			}
			sig2, what2 := c12RunDebug(c19Interp(), cs, battery)
			g = nil
			if sig2 == "" {
				mu.Lock()
				if firstErr == nil {
					firstErr = core.Infra("disagreement (%s) not reproducible in a fresh interpreter: %s", sig, what)
				}
				mu.Unlock()
				continue
			}
			c.Violation(sig2, what2+"\nfaulted program (hook panics at call "+fmt.Sprint(cs.fault)+"):\n"+cs.pc.Decls,
				map[string]interface{}{"record": cs.pc.Raw, "fault": cs.fault, "single_step": true})
		}
	})
	c.Assume("the battery programs are themselves behaviours of Defer.tla (expected logs from TLC); bookkeeping is read through the verif-tagged fast.VerifSnapshot")
	c.Assume("behaviours with two panics in flight (C07 known finding) are still run and their after-state checked, but their own event log is not judged here")
	return firstErr
}

func replayC12(c *core.Ctx, raw json.RawMessage) error {
	var w struct {
		Record json.RawMessage `json:"record"`
		Fault  int             `json:"fault"`
	}
	if err := json.Unmarshal(raw, &w); err != nil {
		return err
	}
	var rec c07Rec
	if err := json.Unmarshal(w.Record, &rec); err != nil {
		return err
	}
	_, battery, err := c12Load(c, 1, 1000000)
	if err != nil {
		return err
	}
	cs := &c12Case{pc: c07Render(&rec, w.Record), rec: rec, fault: w.Fault}
	g := newProgInterp(&ProgOpts{Prelude: c07Prelude, Book: true})
	if sig, what := c12Run(g, cs, battery); sig != "" {
		c.Violation(sig, what, raw)
	}
	return nil
}

func selfTestC12(c *core.Ctx) error {
	// a stale bookkeeping state must be rejected by the quiescence predicate
	if c12Quiescent(fast.VerifRunState{ExecFlags: 2, CurrEnvIsTop: true, InstallDeferNil: true}) == "" {
		return fmt.Errorf("stale ExecFlags accepted")
	}
	if c12Quiescent(fast.VerifRunState{CurrEnvIsTop: false, CurrEnvDepth: 3, InstallDeferNil: true}) == "" {
		return fmt.Errorf("stale CurrEnv accepted")
	}
	// broken variant of the implementation-level annotation must be caught by TLC
	r, err := c.TLC(core.TLCOpts{Spec: "Defer", MCDefs: `c_Ops == {"L","call","defer","rec","panic","deferrec"}`, CfgName: "broken-no-deferof-check",
		Cfg:         strings.Replace(strings.Replace(c07Cfg(3, 3, 5, "{1,2}", 0), "ImplChecksDeferOf = TRUE", "ImplChecksDeferOf = FALSE", 1), "EmitOn = TRUE", "EmitOn = FALSE", 1),
		ExpectError: true})
	if err != nil {
		return err
	}
	if r.Violated != "ImplAgrees" {
		return fmt.Errorf("broken variant (recover without the DeferOfFun = PanicFun test) not caught: violated=%q", r.Violated)
	}
	return nil
}

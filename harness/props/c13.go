package props

import (
	"encoding/json"
	"fmt"
	"math/rand"
	"os"
	"strings"
	"sync/atomic"
	"time"

	"github.com/cosmos72/gomacro/base"
	"github.com/cosmos72/gomacro/fast"

	"verif/harness/core"
	"verif/harness/gm"
)

// C13: interrupts. Spec: spec/impl/Exec.tla — the executor's two polling phases with the
// code's constants (5 groups of 14 statements, then blocks of 15), the flag test at activation
// entry and exit, and the environment action "the k-th hook call raises the interrupt".
// (M) TLC: once the flag is set at most Bound = 14 further statements run (Prompt), no new
// activation runs a statement (NoNewFrame), and under fairness the interrupt is serviced (Live);
// broken variants (no poll in phase 2, no entry test) are caught.
// (R) every (shape, k) of the model is rendered and run with the hook raising the interrupt
// at its k-th call: the evaluation must end with the interrupt panic after at most Bound
// further hook calls; afterwards bookkeeping is quiescent, a battery of Defer.tla behaviours
// gives the specified results and the program's definitions are intact.
// (V) asynchronous delivery from another goroutine into call-free loops of several shapes.

func init() {
	core.Register(&core.Prop{
		ID: "C13",
		Rule: "TLC enumerates (loop shape, k): the k-th call of the injected hook raises Interp.Interrupt, for shapes {call-free loop, many hooks per iteration, nested interpreted call, deferred call, long callee reaching the spin phase} and k = 1..MaxK (both executor phases); " +
			"plus asynchronous interrupts from another goroutine at seeded delays; non-trivial = the interrupt was raised while the loop was running; distinct by (shape, k) / (async shape, delay)",
		Run:      runC13,
		Replay:   replayC13,
		SelfTest: selfTestC13,
	})
}

type c13Shape struct {
	Loop []string `json:"loop"`
	Fn   []string `json:"fn"`
	Dfn  []string `json:"dfn"`
	Ufn  []string `json:"ufn"` // body of a function that has a deferred cleanup closure pending while it runs
}

func c13Shapes() []c13Shape {
	rep := func(s string, n int) []string {
		out := make([]string, n)
		for i := range out {
			out[i] = s
		}
		return out
	}
	long := append(rep("p", 37), "h")
	long = append(long, rep("p", 45)...)
	long = append(long, "h", "p", "h")
	return []c13Shape{
		{Loop: []string{"p", "h", "p"}},
		{Loop: []string{"p", "h", "h", "h", "h", "h", "h", "h", "p"}},
		{Loop: []string{"p", "c", "p"}, Fn: []string{"h", "p", "h"}},
		{Loop: []string{"p", "h", "c", "h", "p"}, Fn: []string{"p", "h"}},
		{Loop: []string{"p", "d", "p"}, Dfn: []string{"h", "h", "p", "h"}},
		{Loop: []string{"p", "c", "d", "h", "p"}, Fn: []string{"h"}, Dfn: []string{"h", "h"}},
		{Loop: append(append([]string{"p"}, rep("h", 20)...), "p")},
		{Loop: []string{"p", "c", "h", "p"}, Fn: long},
		// dense hooks on both sides of a call: without the flag test at activation entry the
		// callee would add its own statements to the caller's
		{Loop: append(append([]string{"p"}, rep("h", 11)...), "c", "p"), Fn: rep("h", 13)},
		{Loop: append(append([]string{"p"}, rep("h", 9)...), "d", "h", "p"), Dfn: rep("h", 13)},
		// the interrupt arrives while functions with a pending deferred cleanup are active:
		// being a panic, it must run those deferred closures while unwinding
		{Loop: []string{"p", "u", "p"}, Ufn: []string{"h", "p", "h", "h"}},
		{Loop: []string{"p", "h", "u", "p"}, Ufn: []string{"p", "c", "h"}, Fn: []string{"h", "h"}},
		{Loop: []string{"p", "u", "h", "p"}, Ufn: []string{"c", "h"}, Fn: []string{"h"}},
	}
}

func tlaStrSeq(ss []string) string {
	q := make([]string, len(ss))
	for i, s := range ss {
		q[i] = `"` + s + `"`
	}
	return "<<" + strings.Join(q, ", ") + ">>"
}

func c13MC() string {
	var parts []string
	for _, s := range c13Shapes() {
		parts = append(parts, fmt.Sprintf("[loop |-> %s, fn |-> %s, dfn |-> %s, ufn |-> %s]", tlaStrSeq(s.Loop), tlaStrSeq(s.Fn), tlaStrSeq(s.Dfn), tlaStrSeq(s.Ufn)))
	}
	return "c_Shapes == {" + strings.Join(parts, ",\n  ") + "}\n"
}

func c13Cfg(spec string, maxK int, poll2, entry bool, emit bool, props string) string {
	b := func(x bool) string { return strings.ToUpper(fmt.Sprint(x)) }
	return fmt.Sprintf("SPECIFICATION %s\nCONSTANTS\n Shapes <- c_Shapes\n MaxK = %d\n Unroll = 5\n Group = 14\n Block = 15\n PollPhase2 = %s\n EntryCheck = %s\n MaxSteps = 4000\n EmitOn = %s\n%s\n",
		spec, maxK, b(poll2), b(entry), b(emit), props)
}

type c13Rec struct {
	Shape      c13Shape `json:"shape"`
	K          int      `json:"k"`
	HooksAfter int      `json:"hooksAfter"`
	Since      int      `json:"since"`
	Bound      int      `json:"bound"`
	Cleanups   int      `json:"cleanups"`
}

var c13Serial int64

func c13Render(s c13Shape) (decls, entry, sfx string) {
	sfx = fmt.Sprintf("_%d", atomic.AddInt64(&c13Serial, 1))
	stmts := func(ks []string, indent string) string {
		var b strings.Builder
		for _, k := range ks {
			switch k {
			case "h":
				b.WriteString(indent + "ev(\"h\")\n")
			case "p":
				b.WriteString(indent + "sink++\n")
			case "c":
				b.WriteString(indent + "fn" + sfx + "()\n")
			case "d":
				b.WriteString(indent + "dw" + sfx + "()\n")
			case "u":
				b.WriteString(indent + "uf" + sfx + "()\n")
			}
		}
		return b.String()
	}
	var b strings.Builder
	fmt.Fprintf(&b, "func fn%s() {\n%s}\n", sfx, stmts(s.Fn, "\t"))
	fmt.Fprintf(&b, "func dw%s() {\n\tdefer func() {\n%s\t}()\n}\n", sfx, stmts(s.Dfn, "\t\t"))
	fmt.Fprintf(&b, "var entered%s, cleaned%s int\nfunc uf%s() {\n\tentered%s++\n\tdefer func() {\n\t\tcleaned%s++\n\t}()\n%s}\n", sfx, sfx, sfx, sfx, sfx, stmts(s.Ufn, "\t"))
	// the loop condition and post statement are the two "p" at the ends of the model's loop body
	inner := s.Loop
	if len(inner) >= 2 {
		inner = inner[1 : len(inner)-1]
	}
	fmt.Fprintf(&b, "func m%s(n int) int {\n\tfor it := 0; it < n; it++ {\n%s\t}\n\treturn n\n}\n", sfx, stmts(inner, "\t\t"))
	return b.String(), "m" + sfx, sfx
}

const c13Limit = 300

// c13RunOne runs one (shape, k) on interpreter g; returns signature+description of a disagreement.
func c13RunOne(g *gm.Interp, rec *c13Rec, battery []*ProgCase) (sig, what string, after int) {
	decls, entry, sfx := c13Render(rec.Shape)
	g.ResetEvents()
	if r := g.Eval(decls); r.Panicked {
		return "declaration-failed", r.Panic, 0
	}
	// the entry function as a Go value: called directly from compiled code after the interrupt
	var direct func(int) int
	if fv := g.Ir.ValueOf(entry); fv.IsValid() {
		direct, _ = fv.Interface().(func(int) int)
	}
	after = 0
	raised := false
	k := rec.K
	g.Hook = func(n int, e string) {
		if n == k {
			raised = true
			g.Ir.Interrupt(os.Interrupt)
			return
		}
		if n > k {
			after++
			if after > c13Limit {
				panic("hook-limit")
			}
		}
	}
	r := g.Eval(entry + "(1000000)")
	g.Hook = nil
	if !raised {
		return "", "", after // loop too short to reach call k: nothing to judge
	}
	switch {
	case !r.Panicked:
		return "interrupt-lost", fmt.Sprintf("interrupt raised at hook call %d was never serviced: the loop ran to completion (%d further hook calls)\n%s", k, after, decls), after
	case r.Raw != base.SigInterrupt:
		if s, ok := r.Raw.(string); ok && s == "hook-limit" {
			return "interrupt-not-prompt", fmt.Sprintf("interrupt raised at hook call %d still not serviced after %d further hook calls (specification bound %d)\n%s", k, after, rec.Bound, decls), after
		}
		return "wrong-panic-value", fmt.Sprintf("evaluation ended with panic %s instead of the interrupt signal\n%s", r.Panic, decls), after
	case after > rec.Bound:
		return "interrupt-not-prompt", fmt.Sprintf("interrupt raised at hook call %d serviced only after %d further hook calls; the specification allows at most %d further statements\n%s", k, after, rec.Bound, decls), after
	}
	if q := c12Quiescent(fast.VerifSnapshot(g.Ir)); q != "" {
		return "bookkeeping-not-restored", "after the interrupted evaluation: " + q, after
	}
	// the interrupt is a panic: every function that was active with a pending deferred closure
	// has run it while unwinding (the model says how many such activations there were)
	if r := g.Eval(fmt.Sprintf("entered%s - cleaned%s", sfx, sfx)); r.String() != "[int:0]" {
		return "deferred-cleanup-skipped-by-interrupt", fmt.Sprintf("after the interrupt %s function activation(s) with a pending deferred closure did not run it (specification: %d such activation(s) were unwound)\n%s", r.String(), rec.Cleanups, decls), after
	}
	// compiled code calling the interpreted function directly (no PrepareEnv in between) must not
	// meet a left-over interrupt
	if direct != nil {
		g.ResetEvents()
		msg := func() (m string) {
			defer func() {
				if x := recover(); x != nil {
					m = fmt.Sprintf("panicked with %v", x)
				}
			}()
			if v := direct(2); v != 2 {
				return fmt.Sprintf("returned %d", v)
			}
			return ""
		}()
		if msg != "" {
			return "interrupt-left-pending", fmt.Sprintf("after the interrupt, calling %s(2) directly from compiled code %s\n%s", entry, msg, decls), after
		}
	}
	// definitions intact: the same function runs to completion with the specified result
	g.ResetEvents()
	r2 := g.Eval(entry + "(3)")
	nh := 0
	for _, s := range rec.Shape.Loop {
		switch s {
		case "h":
			nh++
		case "c":
			nh += count(rec.Shape.Fn, "h")
		case "d":
			nh += count(rec.Shape.Dfn, "h")
		case "u":
			nh += count(rec.Shape.Ufn, "h") + count(rec.Shape.Ufn, "c")*count(rec.Shape.Fn, "h")
		}
	}
	if r2.Panicked || r2.String() != "[int:3]" || len(g.Events) != 3*nh {
		return "later-evaluation-differs", fmt.Sprintf("after the interrupt, %s(3) gave %s with %d hook calls; expected [int:3] with %d\n%s", entry, r2.String(), len(g.Events), 3*nh, decls), after
	}
	for bi, b := range battery {
		ev, res := runOnGomacro(g, b)
		if !progConforms(b, ev, res) {
			return fmt.Sprintf("battery-%d-differs-after-interrupt", bi), describeDiff(b.WantEvents, ev, b.WantResult, res) + "\nbattery program:\n" + b.Decls, after
		}
	}
	return "", "", after
}

func count(ss []string, x string) int {
	n := 0
	for _, s := range ss {
		if s == x {
			n++
		}
	}
	return n
}

func c13Battery(c *core.Ctx) ([]*ProgCase, error) {
	var cand []*ProgCase
	_, err := c.TLC(core.TLCOpts{Spec: "Defer", MCDefs: `c_Ops == {"L","call","defer","rec","panic","deferrec"}`, CfgName: "battery",
		Cfg: c07Cfg(3, 3, 4, "{1}", 0), OnLine: func(line []byte) {
			var rec c07Rec
			if json.Unmarshal(line, &rec) == nil && rec.MaxP == 1 && len(rec.Log) >= 3 && len(rec.Outcome) == 2 && rec.Outcome[0] == "done" && len(cand) < 200 {
				cand = append(cand, c07Render(&rec, line))
			}
		}})
	if err != nil {
		return nil, err
	}
	var out []*ProgCase
	for _, p := range cand {
		if strings.Contains(p.Decls, "r := recover()") && strings.Contains(p.Decls, `ev("ret"`) {
			out = append(out, p)
			break
		}
	}
	for _, p := range cand {
		if strings.Contains(p.Decls, ", recover())") && strings.Contains(p.Decls, "defer f") && (len(out) == 0 || p != out[0]) {
			out = append(out, p)
			break
		}
	}
	if len(out) == 0 {
		return nil, core.Infra("no battery program selected from %d candidates", len(cand))
	}
	return out, nil
}

func runC13(c *core.Ctx) error {
	maxK := c.Pick(60, 130)
	// (M) safety + liveness of the polling protocol with the code's constants
	if _, err := c.TLC(core.TLCOpts{Spec: "Exec", MCDefs: c13MC(), CfgName: "liveness",
		Cfg: c13Cfg("FairSpec", c.Pick(30, 90), true, true, false, "INVARIANTS Prompt NoNewFrame Outcome\nPROPERTIES Live"), Workers: 4}); err != nil {
		return err
	}
	var recs []c13Rec
	if _, err := c.TLC(core.TLCOpts{Spec: "Exec", MCDefs: c13MC(), CfgName: "shapes-bfs",
		Cfg: c13Cfg("Spec", maxK, true, true, true, "INVARIANTS Prompt NoNewFrame Outcome Emit"),
		OnLine: func(line []byte) {
			var r c13Rec
			if json.Unmarshal(line, &r) == nil {
				recs = append(recs, r)
			}
		}}); err != nil {
		return err
	}
	c.Exhaustive = true
	battery, err := c13Battery(c)
	if err != nil {
		return err
	}
	opts := &ProgOpts{Prelude: c07Prelude, Book: true}
	var firstErr error
	exact := int64(0)
	chunk := 20
	core.ParDo((len(recs)+chunk-1)/chunk, 12, func(j int) {
		g := newProgInterp(opts)
		for i := j * chunk; i < (j+1)*chunk && i < len(recs); i++ {
			rec := &recs[i]
			sig, what, after := c13RunOne(g, rec, battery)
			c.Case(fmt.Sprintf("%v|%d", rec.Shape, rec.K), true)
			c.Trace()
			if sig == "" {
				if after == rec.HooksAfter {
					atomic.AddInt64(&exact, 1)
				}
				continue
			}
			g = newProgInterp(opts)
			sig2, what2, _ := c13RunOne(g, rec, battery)
			g = newProgInterp(opts)
			if sig2 == "" {
				firstErr = core.Infra("disagreement (%s) not reproducible: %s", sig, what)
				continue
			}
			c.Violation(sig2, what2, map[string]interface{}{"record": rec, "mode": "sync"})
		}
	})
	if firstErr != nil {
		return firstErr
	}
	c.Extra["exact_hook_count_agreements"] = exact
	if len(recs) > 0 {
		c.Sample(recs[len(recs)/3])
		c.Sample(recs[2*len(recs)/3])
	}
	// (V) asynchronous delivery
	if err := c13Async(c, c.Pick(24, 200)); err != nil {
		return err
	}
	c.Assume("one hook call is at least one interpreted statement, so the model's statement bound (14) bounds the hook calls after the interrupt; the exact count predicted by the model is reported as evidence only")
	c.Assume("asynchronous delivery: the counter is read after Interp.Interrupt returned; the final counter may exceed it by at most 200000 iterations (store visibility + one polling block); the verdict never depends on a timeout")
	return nil
}

var c13AsyncShapes = []struct{ name, decl string }{
	{"call-free", "var ctr%[1]s int\nfunc a%[1]s(n int) int {\n\tfor ctr%[1]s = 0; ctr%[1]s < n; ctr%[1]s++ {\n\t}\n\treturn ctr%[1]s\n}\n"},
	{"nested-call", "var ctr%[1]s int\nfunc nop%[1]s() {}\nfunc a%[1]s(n int) int {\n\tfor ctr%[1]s = 0; ctr%[1]s < n; ctr%[1]s++ {\n\t\tnop%[1]s()\n\t}\n\treturn ctr%[1]s\n}\n"},
	{"in-deferred-call", "var ctr%[1]s int\nfunc a%[1]s(n int) (res int) {\n\tdefer func() {\n\t\tfor ctr%[1]s = 0; ctr%[1]s < n; ctr%[1]s++ {\n\t\t}\n\t\tres = ctr%[1]s\n\t}()\n\treturn 0\n}\n"},
	{"block-scope", "var ctr%[1]s int\nfunc a%[1]s(n int) int {\n\tfor ctr%[1]s = 0; ctr%[1]s < n; ctr%[1]s++ {\n\t\tx := ctr%[1]s\n\t\tsink += x & 1\n\t}\n\treturn ctr%[1]s\n}\n"},
	{"top-level-loop", "var ctr%[1]s int\nfunc a%[1]s(n int) int { return n }\n"},
}

const c13AsyncN = 40000000
const c13AsyncSlack = 200000

func c13AsyncOne(g *gm.Interp, shape int, delay time.Duration) (sig, what string) {
	sfx := fmt.Sprintf("_%d", atomic.AddInt64(&c13Serial, 1))
	sh := c13AsyncShapes[shape]
	if r := g.Eval(fmt.Sprintf(sh.decl, sfx)); r.Panicked {
		return "declaration-failed", r.Panic
	}
	addr := g.Ir.AddressOfVar("ctr" + sfx)
	if !addr.IsValid() {
		return "", ""
	}
	p := addr.Interface().(*int)
	var i1 int64 = -1
	done := make(chan struct{})
	go func() {
		defer close(done)
		// wait until the loop is well inside the executor's second phase
		for spins := 0; atomic.LoadInt64((*int64)(ptrOf(p))) < 2000; spins++ {
			if spins > 50000000 {
				return
			}
		}
		time.Sleep(delay)
		g.Ir.Interrupt(os.Interrupt)
		atomic.StoreInt64(&i1, atomic.LoadInt64((*int64)(ptrOf(p))))
	}()
	src := fmt.Sprintf("a%s(%d)", sfx, c13AsyncN)
	if sh.name == "top-level-loop" {
		src = fmt.Sprintf("for ctr%[1]s = 0; ctr%[1]s < %[2]d; ctr%[1]s++ {\n}", sfx, c13AsyncN)
	}
	r := g.Eval(src)
	<-done
	final := int64(*p)
	at := atomic.LoadInt64(&i1)
	if at < 0 {
		return "", "" // the sender never saw the loop start: nothing to judge
	}
	if at >= c13AsyncN-1 {
		return "", "" // the loop was over before the interrupt was raised
	}
	switch {
	case !r.Panicked:
		return "async-interrupt-lost", fmt.Sprintf("shape %s: interrupt raised at counter %d was never serviced; the loop ran to %d", sh.name, at, final)
	case r.Raw != base.SigInterrupt:
		return "wrong-panic-value", fmt.Sprintf("shape %s: panic %s instead of the interrupt signal", sh.name, r.Panic)
	case final-at > c13AsyncSlack:
		return "async-interrupt-not-prompt", fmt.Sprintf("shape %s: interrupt raised at counter %d serviced at counter %d", sh.name, at, final)
	}
	if q := c12Quiescent(fast.VerifSnapshot(g.Ir)); q != "" {
		return "bookkeeping-not-restored", "after the asynchronously interrupted evaluation: " + q
	}
	if sh.name != "top-level-loop" {
		if r2 := g.Eval(fmt.Sprintf("a%s(5)", sfx)); r2.String() != "[int:5]" {
			return "later-evaluation-differs", fmt.Sprintf("shape %s: after the interrupt a%s(5) = %s", sh.name, sfx, r2.String())
		}
	}
	return "", ""
}

func c13Async(c *core.Ctx, n int) error {
	rng := rand.New(rand.NewSource(c.Seed))
	type trial struct {
		shape int
		delay time.Duration
	}
	var trials []trial
	for i := 0; i < n; i++ {
		trials = append(trials, trial{i % len(c13AsyncShapes), time.Duration(rng.Intn(400)) * time.Microsecond})
	}
	var firstErr error
	core.ParDo(len(trials), 4, func(i int) {
		g := newProgInterp(&ProgOpts{Prelude: c07Prelude})
		t := trials[i]
		sig, what := c13AsyncOne(g, t.shape, t.delay)
		c.Case(fmt.Sprintf("async|%d|%v", t.shape, t.delay), true)
		c.Trace()
		if sig == "" {
			return
		}
		g = newProgInterp(&ProgOpts{Prelude: c07Prelude})
		sig2, what2 := c13AsyncOne(g, t.shape, t.delay)
		if sig2 == "" {
			// asynchronous runs are not bit-reproducible: try twice more before giving up
			for k := 0; k < 2 && sig2 == ""; k++ {
				sig2, what2 = c13AsyncOne(newProgInterp(&ProgOpts{Prelude: c07Prelude}), t.shape, t.delay)
			}
			if sig2 == "" {
				firstErr = core.Infra("asynchronous disagreement (%s: %s) not reproducible in 3 further runs", sig, what)
				return
			}
		}
		c.Violation(sig2, what2, map[string]interface{}{"mode": "async", "shape": t.shape, "delay_us": int(t.delay / time.Microsecond)})
	})
	return firstErr
}

func replayC13(c *core.Ctx, raw json.RawMessage) error {
	var w struct {
		Mode   string  `json:"mode"`
		Record *c13Rec `json:"record"`
		Shape  int     `json:"shape"`
		Delay  int     `json:"delay_us"`
	}
	if err := json.Unmarshal(raw, &w); err != nil {
		return err
	}
	g := newProgInterp(&ProgOpts{Prelude: c07Prelude, Book: true})
	if w.Mode == "async" {
		if sig, what := c13AsyncOne(g, w.Shape, time.Duration(w.Delay)*time.Microsecond); sig != "" {
			c.Violation(sig, what, raw)
		}
		return nil
	}
	if w.Record == nil {
		return core.Infra("no record")
	}
	if sig, what, _ := c13RunOne(g, w.Record, nil); sig != "" {
		c.Violation(sig, what, raw)
	}
	return nil
}

func selfTestC13(c *core.Ctx) error {
	for _, v := range []struct {
		name         string
		poll2, entry bool
		want         string
	}{{"no-poll-in-spin-phase", false, true, ""}, {"no-entry-test", true, false, ""}} {
		r, err := c.TLC(core.TLCOpts{Spec: "Exec", MCDefs: c13MC(), CfgName: "broken-" + v.name,
			Cfg: c13Cfg("Spec", 100, v.poll2, v.entry, false, "INVARIANTS Prompt NoNewFrame"), ExpectError: true})
		if err != nil {
			return err
		}
		if r.Violated == "" {
			return fmt.Errorf("broken variant %s not caught by TLC", v.name)
		}
	}
	return nil
}

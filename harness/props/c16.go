package props

import (
	"encoding/json"
	"fmt"
	"math/rand"
	"strings"
	"sync"
	"sync/atomic"
	"time"

	"github.com/cosmos72/gomacro/base/dep"

	"verif/harness/core"
	"verif/harness/gate"
	"verif/harness/gm"
)

// C16: package-level declarations of ONE evaluation may be written in any order.
// Spec: spec/front/DepSort.tla (the declaration graph, Go validity, and the value of every
// declared name). Each graph is rendered as for C17 and evaluated by one Interp.Eval under
// permutations of the textual order of its declarations (all when n <= 4, 24 seeded otherwise);
// every name is then read back and compared with the specification's value. Sets that Go rejects
// and no sort can order must be rejected. Gates: go/types (validity, cycle reporting) on every
// case; a seeded sample is also compiled and run natively (values).

func init() {
	core.Register(&core.Prop{
		ID: "C16",
		Rule: "TLC enumerates declaration graphs as for C17 (kinds const/var/func/type, references as Go's typing allows, shadowed references; all graphs on <= 3 declarations, graphs on 4 with a bounded number of references, 5 by seeded simulation) together with Go validity and the value of every name; " +
			"each graph is rendered (seeded placement of references, extra shadowed references, grouping, iota) and evaluated in one Interp.Eval under every permutation of the declaration order (n <= 4) or 24 seeded permutations; " +
			"a case = one rendered graph (all its permutations); non-trivial = at least one reference and at least two declarations; distinct by source text",
		Run:      runC16,
		Replay:   replayC16,
		SelfTest: selfTestC16,
		Sub:      func(args []string) int { return c17SubMain("C16", args) },
	})
}

func c16Configs(c *core.Ctx) []c17Cfg {
	if c.Thorough() {
		return []c17Cfg{
			{Name: "n<=3-all-graphs", MaxN: 3, MinN: 1, MaxE: 9, Renderings: 2, ExtraShPct: 50, Stride: 1},
			{Name: "n<=3-shadowed-refs", MaxN: 3, MinN: 2, MaxE: 3, MaxSh: 1, Renderings: 1, Stride: 2},
			{Name: "n=4-upto-5-refs", MaxN: 4, MinN: 4, MaxE: 5, Renderings: 1, ExtraShPct: 40, Stride: 6},
			{Name: "n=5-simulation", MaxN: 5, MinN: 5, MaxE: 9, MaxSh: 2, Sim: true, SimNum: 700, Renderings: 1, ExtraShPct: 30, Stride: 1},
		}
	}
	return []c17Cfg{
		{Name: "n<=3-all-graphs", MaxN: 3, MinN: 1, MaxE: 9, Renderings: 1, ExtraShPct: 50, Stride: 1},
		{Name: "n<=3-shadowed-refs", MaxN: 3, MinN: 2, MaxE: 2, MaxSh: 1, Renderings: 1, Stride: 8},
		{Name: "n=4-upto-2-refs", MaxN: 4, MinN: 4, MaxE: 2, Renderings: 1, ExtraShPct: 40, Stride: 8},
		{Name: "n=5-simulation", MaxN: 5, MinN: 5, MaxE: 9, MaxSh: 2, Sim: true, SimNum: 40, Renderings: 1, ExtraShPct: 30, Stride: 1},
	}
}

// ---------------------------------------------------------------- observation

type c16Job struct {
	Srcs  []string `json:"srcs"`  // one declaration source per permutation
	Reads []string `json:"reads"` // expression reading every name back
}

type c16PermObs struct {
	Rejected  bool   `json:"rejected,omitempty"`
	Panic     string `json:"panic,omitempty"`
	Values    string `json:"values,omitempty"`
	ReadPanic string `json:"read_panic,omitempty"`
}

type c16Obs struct {
	Hang  bool         `json:"hang,omitempty"`
	Perms []c16PermObs `json:"perms"`
}

var c16DiagMu sync.Mutex
var c16Diag *gm.Interp

// c16ScopeDeps extracts the references as Interp.Eval sees them: Comp.Parse (parser plus
// macro expansion, which also unwraps trivial blocks) followed by dep.Scope.
func c16ScopeDeps(src string) (deps map[string][]string) {
	c16DiagMu.Lock()
	defer c16DiagMu.Unlock()
	defer func() {
		if r := recover(); r != nil {
			deps = nil
			c16Diag = nil
		}
	}()
	if c16Diag == nil {
		c16Diag = gm.New()
	}
	form := c16Diag.Ir.Comp.Parse(src)
	sc := dep.NewScope(nil)
	sc.Ast(form)
	deps = map[string][]string{}
	for name, list := range sc.Decls {
		for _, d := range list {
			deps[name] = append(deps[name], d.Deps...)
		}
	}
	return deps
}

type c16State struct {
	g    *gm.Interp
	used int
}

func c16EvalPerm(g *gm.Interp, src, read string) c16PermObs {
	g.Out.Reset()
	r := g.Eval(src)
	if r.Panicked {
		p := r.Panic
		if len(p) > 300 {
			p = p[:300]
		}
		return c16PermObs{Rejected: true, Panic: p}
	}
	v := g.Eval(read)
	if v.Panicked {
		return c16PermObs{ReadPanic: v.Panic}
	}
	if len(v.Values) != 1 {
		return c16PermObs{ReadPanic: fmt.Sprintf("%d values", len(v.Values))}
	}
	return c16PermObs{Values: v.Values[0]}
}

func c16ObserveJob(j *c16Job, st *c16State) *c16Obs {
	o := &c16Obs{}
	for k := range j.Srcs {
		if st.g == nil || st.used > 400 {
			st.g = gm.New()
			st.used = 0
		}
		st.used++
		// the interpreter is kept after a rejected input: every name is unique to its evaluation,
		// and any disagreement is re-examined in a fresh interpreter before it is reported
		p := c16EvalPerm(st.g, j.Srcs[k], j.Reads[k])
		o.Perms = append(o.Perms, p)
	}
	return o
}

func c16ChildObserve(raw json.RawMessage, st interface{}) (interface{}, interface{}) {
	s, _ := st.(*c16State)
	if s == nil {
		s = &c16State{}
	}
	var j c16Job
	if err := json.Unmarshal(raw, &j); err != nil {
		return &c16Obs{}, s
	}
	return c16ObserveJob(&j, s), s
}

// ---------------------------------------------------------------- cases

type c16Case struct {
	Cfg    string    `json:"config"`
	Rec    *c17Rec   `json:"record"`
	Choice c17Choice `json:"choice"`
	Perms  [][]int   `json:"perms"`
	// filled for reporting
	FailPerm []int  `json:"failing_perm,omitempty"`
	Source   string `json:"source,omitempty"`
	Read     string `json:"read,omitempty"`
}

var c16Serial int64

// CPU-time limit of one evaluation job (all permutations of one case: ~50 ms) in a child
const c16ChildCPU = 1500 * time.Millisecond

func c16AllPerms(n int) [][]int {
	var res [][]int
	p := make([]int, n)
	for i := range p {
		p[i] = i + 1
	}
	var rec func(k int)
	rec = func(k int) {
		if k == n {
			res = append(res, append([]int(nil), p...))
			return
		}
		for i := k; i < n; i++ {
			p[k], p[i] = p[i], p[k]
			rec(k + 1)
			p[k], p[i] = p[i], p[k]
		}
	}
	rec(0)
	return res
}

func c16Perms(n int, seed int64) [][]int {
	if n <= 4 {
		return c16AllPerms(n)
	}
	rng := rand.New(rand.NewSource(seed))
	res := [][]int{}
	id := make([]int, n)
	rev := make([]int, n)
	for i := range id {
		id[i] = i + 1
		rev[i] = n - i
	}
	res = append(res, id, rev)
	for len(res) < 24 {
		p := rng.Perm(n)
		for i := range p {
			p[i]++
		}
		res = append(res, p)
	}
	return res
}

type c16Rendered struct {
	srcs  []*c17Src
	job   c16Job
	wants []string // per permutation (the extra observations follow the textual order)
}

func c16ReadExpr(rec *c17Rec, src *c17Src) (expr string, want string) {
	var es, ws []string
	for i := 1; i <= rec.N; i++ {
		es = append(es, src.Read[i])
		if i-1 < len(rec.Vals) {
			ws = append(ws, fmt.Sprintf("int:%d", rec.Vals[i-1]))
		}
	}
	for _, x := range src.Extra {
		es = append(es, x.Expr)
		if x.Of-1 < len(rec.Vals) {
			ws = append(ws, fmt.Sprintf("int:%d", rec.Vals[x.Of-1]))
		}
	}
	return "[]int{" + strings.Join(es, ", ") + "}", "[" + strings.Join(ws, " ") + "]"
}

func c16RenderCase(cs *c16Case) *c16Rendered {
	rd := &c16Rendered{}
	for _, perm := range cs.Perms {
		ch := cs.Choice
		ch.Perm = perm
		ch.Sfx = fmt.Sprintf("_%d", atomic.AddInt64(&c16Serial, 1))
		src := c17Render(cs.Rec, &ch)
		rd.srcs = append(rd.srcs, src)
		expr, want := c16ReadExpr(cs.Rec, src)
		rd.job.Srcs = append(rd.job.Srcs, src.DeclText)
		rd.job.Reads = append(rd.job.Reads, expr)
		rd.wants = append(rd.wants, want)
	}
	return rd
}

// c16Verdict of one permutation: "" = conforms.
func c16Verdict(rec *c17Rec, want string, p *c16PermObs) (shape string) {
	switch {
	case rec.GoValid == "yes":
		switch {
		case p.Rejected:
			return "valid-set-rejected"
		case p.ReadPanic != "":
			return "name-cannot-be-read-back"
		case p.Values != want:
			return "wrong-value"
		}
	case rec.GoValid == "no" && rec.allErr():
		// Go rejects the set and no sort can order it
		if !p.Rejected {
			return "cyclic-set-accepted"
		}
	}
	return ""
}

func c16Signature(cs *c16Case, src *c17Src, shape string, p *c16PermObs, reeval func(*c17Src) *c16PermObs) string {
	rec := cs.Rec
	var labels []string
	switch {
	case shape == "evaluation-does-not-terminate":
		if rec.Mixed {
			labels = []string{"SigMixedCycle(type+nontype)"}
		}
	case rec.FuncCycle && rec.GoValid == "yes":
		labels = []string{"SigFuncCycle(mutual-recursion)"}
	default:
		obs := &c17Obs{Deps: c16ScopeDeps(src.DeclText)}
		missing, phantom := c17DepDiff(rec, src, obs)
		loop := p != nil && p.Rejected && strings.Contains(p.Panic, "declaration loop")
		if loop || len(missing) == 0 {
			for _, e := range phantom {
				labels = append(labels, c17PhantomLabel(rec, src, e))
			}
			if len(phantom) > 1 && reeval != nil {
				for si, s := range src.Shadows {
					hit := false
					for _, e := range phantom {
						if e == [2]int{s.From, s.To} {
							hit = true
						}
					}
					if !hit {
						continue
					}
					ch := cs.Choice
					only := si
					ch.OnlySh = &only
					ch.Perm = cs.FailPerm
					ch.Sfx = fmt.Sprintf("_%d", atomic.AddInt64(&c16Serial, 1))
					src1 := c17Render(rec, &ch)
					_, want := c16ReadExpr(rec, src1)
					if p1 := reeval(src1); p1 != nil && c16Verdict(rec, want, p1) == shape {
						labels = []string{src1.ShLabel[si]}
						break
					}
				}
			}
		}
		if !loop || len(labels) == 0 {
			for _, e := range missing {
				labels = append(labels, c17MissingLabel(rec, src, e))
			}
		}
	}
	return c17Join(labels) + ":" + shape
}

func c16Describe(cs *c16Case, src *c17Src, read, want, shape string, p *c16PermObs) string {
	rec := cs.Rec
	var b strings.Builder
	switch {
	case rec.GoValid == "yes":
		fmt.Fprintf(&b, "specification (valid Go): %s = %s", read, want)
	case rec.GoValid == "no" && rec.allErr():
		b.WriteString("specification: Go rejects this set (cycle through a variable or constant) and no order exists: it must be rejected")
	default:
		b.WriteString("specification: Go rejects this set; only termination is required")
	}
	b.WriteString("\nobserved (one Interp.Eval of the source below, textual order " + fmt.Sprint(cs.FailPerm) + "): ")
	switch {
	case p == nil:
		b.WriteString("the evaluation did not return")
	case p.Rejected:
		b.WriteString("rejected: " + p.Panic)
	case p.ReadPanic != "":
		b.WriteString("accepted, but reading back fails: " + p.ReadPanic)
	default:
		b.WriteString("accepted, " + read + " = " + p.Values)
	}
	obs := &c17Obs{Deps: c16ScopeDeps(src.DeclText)}
	missing, phantom := c17DepDiff(rec, src, obs)
	for _, e := range missing {
		fmt.Fprintf(&b, "\n  dep.Scope misses the free reference %s -> %s (%s)", src.Names[e[0]], src.Names[e[1]], src.Place[e])
	}
	for _, e := range phantom {
		fmt.Fprintf(&b, "\n  dep.Scope counts the shadowed reference %s -> %s [%s]", src.Names[e[0]], src.Names[e[1]], c17PhantomLabel(rec, src, e))
	}
	b.WriteString("\nsource:\n" + src.DeclText)
	return b.String()
}

// ---------------------------------------------------------------- the run

type c16Runner struct {
	c        *core.Ctx
	mu       sync.Mutex
	err      error
	risky    []*c16Case
	hangs    int64
	abort    int32
	gateShow int32
	native   []*c16Case // candidates for the native value gate
}

func (rn *c16Runner) fail(err error) {
	rn.mu.Lock()
	if rn.err == nil {
		rn.err = err
	}
	rn.mu.Unlock()
}

// confirmation interpreters: the first c16StrictConfirms confirmations of a run use a brand-new
// interpreter each; later ones share an interpreter that has only ever seen confirmations and
// is renewed every 25 (creating an interpreter costs ~50 ms; the unchanged tree has thousands
// of disagreeing cases).
const c16StrictConfirms = 150

var c16ConfirmMu sync.Mutex
var c16ConfirmN int
var c16ConfirmG *gm.Interp
var c16ConfirmUsed int

func c16ConfirmInterp() (g *gm.Interp, release func(), pooled bool) {
	c16ConfirmMu.Lock()
	c16ConfirmN++
	if c16ConfirmN <= c16StrictConfirms {
		c16ConfirmMu.Unlock()
		return gm.New(), func() {}, false
	}
	if c16ConfirmG == nil || c16ConfirmUsed >= 25 {
		c16ConfirmG = gm.New()
		c16ConfirmUsed = 0
	}
	c16ConfirmUsed++
	return c16ConfirmG, func() { c16ConfirmMu.Unlock() }, true
}

func c16FreshEval(src *c17Src, rec *c17Rec) *c16PermObs {
	expr, _ := c16ReadExpr(rec, src)
	g, release, pooled := c16ConfirmInterp() // (creating the interpreter is not timed)
	ch := make(chan c16PermObs, 1)
	go func() {
		p := c16EvalPerm(g, src.DeclText, expr)
		if pooled && (p.Rejected && !strings.Contains(p.Panic, "declaration loop") || p.ReadPanic != "") {
			c16ConfirmG = nil
		}
		release()
		ch <- p
	}()
	select {
	case p := <-ch:
		return &p
	case <-time.After(3 * time.Minute):
		return nil
	}
}

// judge compares the observation of a case with the specification; fresh re-evaluates one
// rendered source in a new interpreter (confirmation and minimisation).
func (rn *c16Runner) judge(cs *c16Case, rd *c16Rendered, obs *c16Obs, fresh func(*c17Src) *c16PermObs) {
	c := rn.c
	rec := cs.Rec
	if obs.Hang {
		cs.FailPerm = cs.Perms[len(obs.Perms)%len(cs.Perms)]
		k := len(obs.Perms) % len(cs.Perms)
		src := rd.srcs[k]
		cs.Source, cs.Read = src.DeclText, rd.job.Reads[k]
		shape := "evaluation-does-not-terminate"
		c17Report(c, c16Signature(cs, src, shape, nil, nil), c16Describe(cs, src, rd.job.Reads[k], rd.wants[k], shape, nil), cs)
		return
	}
	for k := range obs.Perms {
		p := &obs.Perms[k]
		shape := c16Verdict(rec, rd.wants[k], p)
		if shape == "" {
			continue
		}
		src := rd.srcs[k]
		cs.FailPerm = cs.Perms[k]
		// confirm in a fresh interpreter
		p2 := fresh(src)
		if p2 == nil {
			rn.fail(core.Infra("re-evaluation in a fresh interpreter did not return:\n%s", src.DeclText))
			return
		}
		shape2 := c16Verdict(rec, rd.wants[k], p2)
		if shape2 == "" {
			rn.fail(core.Infra("disagreement not reproducible in a fresh interpreter (%s): %s", shape, c16Describe(cs, src, rd.job.Reads[k], rd.wants[k], shape, p)))
			return
		}
		cs.Source, cs.Read = src.DeclText, rd.job.Reads[k]
		sig := c16Signature(cs, src, shape2, p2, fresh)
		c17Report(c, sig, c16Describe(cs, src, rd.job.Reads[k], rd.wants[k], shape2, p2), cs)
		return // one report per case
	}
}

func (rn *c16Runner) one(cs *c16Case, st *c16State) {
	c := rn.c
	rec := cs.Rec
	ch0 := cs.Choice
	src0 := c17Render(rec, &ch0)
	hasRef := len(src0.Shadows) > 0
	for _, d := range rec.Decls {
		if len(d.Deps) > 0 {
			hasRef = true
		}
	}
	c.Case(src0.DeclText, hasRef && rec.N >= 2)
	ok, why := c17Gate(rec, src0)
	c.Gate(ok)
	if !ok {
		if atomic.AddInt32(&rn.gateShow, 1) <= 3 {
			fmt.Printf("GATE-REJECT property=%s (specification disagrees with go/types; case dropped): %s\n  source:\n    %s\n", c.ID, why, strings.ReplaceAll(src0.DeclText, "\n", "\n    "))
		}
		return
	}
	if rec.Mixed {
		rn.mu.Lock()
		rn.risky = append(rn.risky, cs)
		rn.mu.Unlock()
		return
	}
	if rec.GoValid == "yes" {
		rn.mu.Lock()
		if len(rn.native) < 20000 {
			rn.native = append(rn.native, cs)
		}
		rn.mu.Unlock()
	}
	rd := c16RenderCase(cs)
	c.Trace()
	if st.g == nil || st.used > 400 {
		// (not timed: the first interpreter of a process runs `go list` and may take minutes on
		// an oversubscribed machine)
		st.g = gm.New()
		st.used = 0
	}
	done := make(chan *c16Obs, 1)
	go func() { done <- c16ObserveJob(&rd.job, st) }()
	var obs *c16Obs
	select {
	case obs = <-done:
	case <-time.After(5 * time.Minute):
		// The goroutine cannot be stopped: the run ends here. A violation is reported only if a
		// child process under the CPU-time watchdog reproduces the non-termination.
		atomic.StoreInt32(&rn.abort, 1)
		var pj []interface{}
		for pk := range rd.job.Srcs {
			pj = append(pj, c16Job{Srcs: rd.job.Srcs[pk : pk+1], Reads: rd.job.Reads[pk : pk+1]})
		}
		hang := &c16Obs{}
		if r1, err := c17ChildrenUntilHang("C16", pj, 2*c16ChildCPU); err == nil {
			for _, r := range r1 {
				if r.Hang {
					hang.Hang = true
					break
				}
				var o1 c16Obs
				if r.Obs == nil || json.Unmarshal(r.Obs, &o1) != nil || len(o1.Perms) != 1 {
					break
				}
				hang.Perms = append(hang.Perms, o1.Perms[0])
			}
		}
		if hang.Hang {
			rn.judge(cs, rd, hang, nil)
			rn.fail(core.Infra("run ended early: Interp.Eval did not return on an input outside the hang-prone class"))
		} else {
			rn.fail(core.Infra("an evaluation exceeded 5 minutes in-process but returns in a child process (machine overloaded?)"))
		}
		return
	}
	rn.judge(cs, rd, obs, func(s *c17Src) *c16PermObs { return c16FreshEval(s, rec) })
}

func (rn *c16Runner) riskyPhase() {
	c := rn.c
	cases := rn.risky
	maxHangs := int64(c.Pick(3, 12))
	skipped := int64(0)
	childFresh := func(rec *c17Rec) func(*c17Src) *c16PermObs {
		return func(s *c17Src) *c16PermObs {
			expr, _ := c16ReadExpr(rec, s)
			r, err := c17Children("C16", []interface{}{c16Job{Srcs: []string{s.DeclText}, Reads: []string{expr}}}, 2*c16ChildCPU)
			if err != nil || len(r) != 1 || r[0].Hang {
				return nil
			}
			var o c16Obs
			if json.Unmarshal(r[0].Obs, &o) != nil || len(o.Perms) != 1 {
				return nil
			}
			return &o.Perms[0]
		}
	}
	// rounds of up to four children; the batch handed to one child grows while nothing hangs
	// (a child that hangs is lost with its start-up cost) and the class is abandoned at maxHangs
	processed := 0
	size := 1 // (a child that starts an interpreter costs ~10 CPU-seconds on this platform)
	for processed < len(cases) && atomic.LoadInt64(&rn.hangs) < maxHangs && rn.err == nil {
		n := 4 * size
		if n > len(cases)-processed {
			n = len(cases) - processed
		}
		var jobs [][]*c16Case
		for lo := processed; lo < processed+n; lo += size {
			hi := lo + size
			if hi > processed+n {
				hi = processed + n
			}
			jobs = append(jobs, cases[lo:hi])
		}
		before := atomic.LoadInt64(&rn.hangs)
		core.ParDo(len(jobs), 4, func(b int) {
			if atomic.LoadInt64(&rn.hangs) >= maxHangs {
				atomic.AddInt64(&skipped, int64(len(jobs[b])))
				return
			}
			var js []interface{}
			var rds []*c16Rendered
			for _, cs := range jobs[b] {
				// the first permutation that does not return ends the case: two are enough here
				if len(cs.Perms) > 6 {
					cs.Perms = cs.Perms[:6]
				}
				rd := c16RenderCase(cs)
				rds = append(rds, rd)
				js = append(js, rd.job)
			}
			res, err := c17Children("C16", js, c16ChildCPU)
			if err != nil {
				rn.fail(err)
				return
			}
			for k, cs := range jobs[b] {
				c.Trace()
				var obs c16Obs
				if res[k].Hang {
					atomic.AddInt64(&rn.hangs, 1)
					// confirm in another process, one permutation per job: the first one that
					// does not return is the reported one
					obs = c16Obs{Hang: true}
					var pj []interface{}
					for pk := range rds[k].job.Srcs {
						pj = append(pj, c16Job{Srcs: rds[k].job.Srcs[pk : pk+1], Reads: rds[k].job.Reads[pk : pk+1]})
					}
					r1, err := c17ChildrenUntilHang("C16", pj, 2*c16ChildCPU)
					if err != nil {
						rn.fail(err)
						return
					}
					for _, r := range r1 {
						if r.Hang || r.Obs == nil {
							break
						}
						var o1 c16Obs
						if json.Unmarshal(r.Obs, &o1) == nil && len(o1.Perms) == 1 {
							obs.Perms = append(obs.Perms, o1.Perms[0])
						}
					}
					if len(obs.Perms) == len(rds[k].job.Srcs) {
						obs.Hang = false // not reproduced with the generous limit
						atomic.AddInt64(&rn.hangs, -1)
					}
				} else if err := json.Unmarshal(res[k].Obs, &obs); err != nil {
					rn.fail(core.Infra("bad child observation: %v", err))
					return
				}
				rn.judge(cs, rds[k], &obs, childFresh(cs.Rec))
			}
		})
		processed += n
		if atomic.LoadInt64(&rn.hangs) == before && size < 64 {
			size *= 2
		}
	}
	skipped += int64(len(cases) - processed)
	if skipped > 0 {
		c.Extra["hang_prone_cases_skipped"] = skipped
		c.Assume(fmt.Sprintf("after %d confirmed non-terminating evaluations the remaining cases of the hang-prone class (cycle through a type and a non-type) are not executed", maxHangs))
	}
	c.Extra["hang_prone_cases"] = len(cases)
	c.Extra["evaluation_hangs"] = atomic.LoadInt64(&rn.hangs)
}

// nativeGate compiles a seeded sample of the valid cases and compares the values with the
// specification's (a disagreement is a specification defect).
func (rn *c16Runner) nativeGate() error {
	c := rn.c
	want := c.Pick(40, 400)
	rng := rand.New(rand.NewSource(c.Seed))
	rng.Shuffle(len(rn.native), func(i, j int) { rn.native[i], rn.native[j] = rn.native[j], rn.native[i] })
	if len(rn.native) > want {
		rn.native = rn.native[:want]
	}
	var progs []gate.Prog
	var wants []string
	for _, cs := range rn.native {
		ch := cs.Choice
		src := c17Render(cs.Rec, &ch)
		expr, w := c16ReadExpr(cs.Rec, src)
		progs = append(progs, gate.Prog{Decls: src.DeclText, Entry: expr})
		wants = append(wants, "["+w+"]")
	}
	if len(progs) == 0 {
		return nil
	}
	outs, err := gate.Run(c.Verif, progs)
	if err != nil {
		return core.Infra("go gate: %v", err)
	}
	shown := 0
	for k := range progs {
		ok := outs[k].CompileError == "" && outs[k].Result == wants[k]
		c.Gate(ok)
		if !ok && shown < 3 {
			shown++
			fmt.Printf("GATE-REJECT property=%s (specification's values disagree with compiled Go): %s got %s want %s\n  source:\n    %s\n", c.ID,
				outs[k].CompileError, outs[k].Result, wants[k], strings.ReplaceAll(progs[k].Decls, "\n", "\n    "))
		}
	}
	c.Extra["native_value_gate"] = len(progs)
	return nil
}

func runC16(c *core.Ctx) error {
	rank := c17NameRank(c.Seed)
	rn := &c16Runner{c: c}
	exhaustive := true
	for _, cf := range c16Configs(c) {
		cf := cf
		lines := make(chan []byte, 4096)
		var wg sync.WaitGroup
		var sampled int32
		for w := 0; w < 12; w++ {
			wg.Add(1)
			go func() {
				defer wg.Done()
				st := &c16State{}
				for line := range lines {
					if atomic.LoadInt32(&rn.abort) != 0 {
						continue
					}
					var rec c17Rec
					if err := json.Unmarshal(line, &rec); err != nil {
						rn.fail(core.Infra("bad record from TLC: %v: %.200s", err, line))
						continue
					}
					key := string(line)
					if cf.Stride > 1 && c17Pick(c.Seed, key, cf.Stride) != 0 {
						continue
					}
					for k := 0; k < cf.Renderings; k++ {
						ch := c17MakeChoice(&rec, &cf, rank, c.Seed, key, k)
						cs := &c16Case{Cfg: cf.Name, Rec: &rec, Choice: ch, Perms: c16Perms(rec.N, ch.Seed)}
						if rec.N == cf.MaxN && c17RefCount(&rec) >= 2 && atomic.CompareAndSwapInt32(&sampled, 0, 1) {
							src := c17Render(&rec, &ch)
							_, want := c16ReadExpr(&rec, src)
							c.Sample(map[string]interface{}{"config": cf.Name, "record": json.RawMessage(line), "source": src.DeclText,
								"permutations": len(cs.Perms), "expected_values": want})
						}
						rn.one(cs, st)
					}
				}
			}()
		}
		o := c17TLCOpts(cf, rank, c.Seed)
		o.OnLine = func(line []byte) { lines <- append([]byte(nil), line...) }
		_, err := c.TLC(o)
		close(lines)
		wg.Wait()
		if err != nil {
			return err
		}
		if rn.err != nil {
			return rn.err
		}
		if cf.Stride > 1 {
			exhaustive = false
		}
	}
	rn.riskyPhase()
	if rn.err != nil {
		return rn.err
	}
	if err := rn.nativeGate(); err != nil {
		return err
	}
	c.Exhaustive = exhaustive
	c.Assume("a set that Go rejects but a sort with forward type declarations can order may be accepted or rejected (the property only forbids rejecting valid Go); it must terminate")
	c.Assume("dep.Scope's extracted references are read only to name a disagreement (signature)")
	c.Assume("methods, multi-value var declarations, labels and composite-literal keys (documented limitation) are not generated")
	return nil
}

func replayC16(c *core.Ctx, raw json.RawMessage) error {
	var cs c16Case
	if err := json.Unmarshal(raw, &cs); err != nil || cs.Rec == nil {
		return core.Infra("bad replay case: %v", err)
	}
	if len(cs.FailPerm) == cs.Rec.N {
		cs.Perms = [][]int{cs.FailPerm}
	}
	rd := c16RenderCase(&cs)
	fmt.Printf("source:\n%s\nread back: %s\n", rd.job.Srcs[0], rd.job.Reads[0])
	var js []interface{}
	for k := range rd.job.Srcs {
		js = append(js, c16Job{Srcs: rd.job.Srcs[k : k+1], Reads: rd.job.Reads[k : k+1]})
	}
	res, err := c17Children("C16", js, 2*c16ChildCPU)
	if err != nil {
		return err
	}
	obs := c16Obs{}
	for k := range res {
		if res[k].Hang {
			obs.Hang = true
			break
		}
		var o1 c16Obs
		if err := json.Unmarshal(res[k].Obs, &o1); err != nil || len(o1.Perms) != 1 {
			return core.Infra("bad child observation")
		}
		obs.Perms = append(obs.Perms, o1.Perms[0])
	}
	rn := &c16Runner{c: c}
	rec := cs.Rec
	rn.judge(&cs, rd, &obs, func(s *c17Src) *c16PermObs {
		expr, _ := c16ReadExpr(rec, s)
		r, err := c17Children("C16", []interface{}{c16Job{Srcs: []string{s.DeclText}, Reads: []string{expr}}}, 2*c16ChildCPU)
		if err != nil || len(r) != 1 || r[0].Hang {
			return nil
		}
		var o c16Obs
		if json.Unmarshal(r[0].Obs, &o) != nil || len(o.Perms) != 1 {
			return nil
		}
		return &o.Perms[0]
	})
	return rn.err
}

func selfTestC16(c *core.Ctx) error {
	// the value semantics of the module: a corrupted expectation must be rejected by the
	// replay and by the native gate; a correct one accepted by both
	raw := `{"n":3,"decls":[{"kind":"var","deps":[2,3],"k":1,"cyc":[]},{"kind":"func","deps":[3],"k":2,"cyc":[]},{"kind":"type","deps":[],"k":4,"cyc":[]}],"sh":[],"lay":{"pkg":false,"imp":false,"cut":0,"sep":"none","tail":false},"outcomes":[{"err":false,"out":[["d",3],["d",2],["d",1]]}],"govalid":"yes","vals":[11,6,4],"mixed":false,"funccycle":false,"acyclic":true}`
	var rec c17Rec
	if err := json.Unmarshal([]byte(raw), &rec); err != nil {
		return err
	}
	cs := &c16Case{Rec: &rec, Choice: c17Choice{Seed: 11, NameRank: c17NameRank(c.Seed)}, Perms: c16Perms(3, 1)}
	rd := c16RenderCase(cs)
	obs := c16ObserveJob(&rd.job, &c16State{})
	for k := range obs.Perms {
		if sh := c16Verdict(&rec, rd.wants[k], &obs.Perms[k]); sh != "" {
			return fmt.Errorf("correct record rejected (%s) under order %v: %+v\n%s", sh, cs.Perms[k], obs.Perms[k], rd.job.Srcs[k])
		}
	}
	bad := rec
	bad.Vals = []int{11, 7, 4}
	_, badWant := c16ReadExpr(&bad, rd.srcs[0])
	if c16Verdict(&bad, badWant, &obs.Perms[0]) == "" {
		return fmt.Errorf("corrupted record (wrong value) accepted")
	}
	ch := cs.Choice
	src := c17Render(&rec, &ch)
	expr, want := c16ReadExpr(&rec, src)
	outs, err := gate.Run(c.Verif, []gate.Prog{{Decls: src.DeclText, Entry: expr}})
	if err != nil {
		return err
	}
	if outs[0].CompileError != "" || outs[0].Result != "["+want+"]" {
		return fmt.Errorf("native gate rejects a correct record: %s %s want [%s]", outs[0].CompileError, outs[0].Result, want)
	}
	if outs[0].Result == "["+badWant+"]" {
		return fmt.Errorf("native gate accepts a corrupted record")
	}
	// a cyclic set must be recognised as such by both
	cyc := `{"n":2,"decls":[{"kind":"var","deps":[2],"k":1,"cyc":[2]},{"kind":"var","deps":[1],"k":2,"cyc":[1]}],"sh":[],"lay":{"pkg":false,"imp":false,"cut":0,"sep":"none","tail":false},"outcomes":[{"err":true,"out":[]}],"govalid":"no","vals":[],"mixed":false,"funccycle":false,"acyclic":false}`
	var rc c17Rec
	if err := json.Unmarshal([]byte(cyc), &rc); err != nil {
		return err
	}
	cs2 := &c16Case{Rec: &rc, Choice: c17Choice{Seed: 3, NameRank: c17NameRank(c.Seed)}, Perms: c16Perms(2, 1)}
	rd2 := c16RenderCase(cs2)
	obs2 := c16ObserveJob(&rd2.job, &c16State{})
	for k := range obs2.Perms {
		if sh := c16Verdict(&rc, rd2.wants[k], &obs2.Perms[k]); sh != "" {
			return fmt.Errorf("cyclic set: %s", sh)
		}
	}
	if ok, why := c17Gate(&rc, rd2.srcs[0]); !ok {
		return fmt.Errorf("go/types gate on a cyclic set: %s", why)
	}
	return nil
}

package props

import (
	"encoding/json"
	"fmt"
	"go/constant"
	"go/token"
	stdtypes "go/types"
	"io"
	"os"
	"regexp"
	"sort"
	"strconv"
	"strings"
	"sync"
	"time"

	gtypes "github.com/cosmos72/gomacro/go/types"

	"verif/harness/core"
)

// C30: converting standard-library type information preserves every exported object.
// Spec: spec/types/Converter.tla (EXTENDS TypeId).
// (M) TLC checks on every generated world (declarations with cycles, methods, objects, call
//     sequences) that the conversion machine terminates, that the copy is isomorphic to the
//     original, that every named type is copied once and that nothing is left queued when a
//     call returns; broken variants "memo-after" and "drop-variadic".
// (R) every world is built with the STANDARD go/types constructors, converted with gomacro's
//     types.Converter (one Converter, the calls of the world in order), both sides are
//     projected (c30std.go, c30fork.go) and compared with the model's world after every call.
// (G) the projection of the standard-library side must equal the model's rendering of the
//     world: otherwise the world was not built as the specification says (dropped).
// (V) corpus: the same projections over standard-library packages loaded offline with the
//     source importer, see c30corpus.go.

func init() {
	core.Register(&core.Prop{
		ID: "C30",
		Rule: "TLC generates worlds (three declarations over two packages with underlying types, methods, constants / variables / functions and a sequence of Converter.Package calls) and proves the conversion machine isomorphic on each; " +
			"a case is one object or one reachable named type of one call of one world (kind, constant kind and exact value, canonical type structure, printed type, declared methods, method sets), or, in the corpus, one object / named type of one standard-library package; " +
			"non-trivial = the type of the object is not a basic type or the constant is not a small integer; distinct by (canonical type structure, object kind, constant value, call sequence) resp. (package path, object name)",
		Run:      runC30,
		Replay:   replayC30,
		SelfTest: selfTestC30,
	})
}

type c30DeclMethod struct {
	Name string   `json:"name"`
	Pkg  int      `json:"pkg"`
	Ptr  bool     `json:"ptr"`
	Sig  *c28Term `json:"sig"`
}
type c30Decl struct {
	Name    string          `json:"name"`
	Pkg     int             `json:"pkg"`
	Und     *c28Term        `json:"und"`
	Methods []c30DeclMethod `json:"methods"`
}
type c30WObj struct {
	Pkg   int      `json:"pkg"`
	Name  string   `json:"name"`
	Kind  string   `json:"kind"`
	Typ   *c28Term `json:"typ"`
	Ckind string   `json:"ckind"`
	Cval  string   `json:"cval"`
}
type c30World struct {
	T        string    `json:"t,omitempty"`
	Kind     string    `json:"kind,omitempty"` // "world" in replay files
	Decls    []c30Decl `json:"decls"`
	Objs     []c30WObj `json:"objs"`
	Calls    []int     `json:"calls"`
	Pkgs     []string  `json:"pkgs"`
	Exported []string  `json:"exported"`
	Ready    [][]int   `json:"ready"`
	Lates    [][]int   `json:"lates,omitempty"` // per call: named types first met while attaching methods (classification)
	Steps    int       `json:"steps,omitempty"`
	Copies   int       `json:"copies,omitempty"`
}

func c30Cfg(broken string, emit bool, menu, invs string) string {
	return fmt.Sprintf("SPECIFICATION SpecConverter\nCONSTANTS\n Level = 1\n Broken = %q\n EmitOn = %s\n Blocks = 1\n MaxOps = 0\n EmitAt = 0\n Insts = {1}\n NKeys = 4\n WMenu = %q\nINVARIANTS %s\n",
		broken, strings.ToUpper(fmt.Sprint(emit)), menu, invs)
}

const c30Invs = "CTypeOK Terminates ConvertedOnce Isomorphic EmitWorld"

// ---------------------------------------------------------------------------------------
// the model's rendering of the world, in the syntax of the projections

func (w *c30World) path(p int) string {
	if p >= 1 && p <= len(w.Pkgs) {
		return w.Pkgs[p-1]
	}
	return ""
}

func (w *c30World) key(o int) string {
	d := w.Decls[o-1]
	return w.path(d.Pkg) + "." + d.Name
}

func (w *c30World) id(name string, pkg int) string {
	if token.IsExported(name) {
		return name
	}
	return name + "@" + w.path(pkg)
}

func (w *c30World) sigStr(t *c28Term) string {
	var ps, rs []string
	for _, p := range t.Params {
		ps = append(ps, w.termStr(p))
	}
	for _, p := range t.Results {
		rs = append(rs, w.termStr(p))
	}
	v := ""
	if t.Variadic {
		v = "..."
	}
	return "(" + strings.Join(ps, ",") + v + ")(" + strings.Join(rs, ",") + ")"
}

// allMethods flattens the method names of an interface term (explicit + embedded declarations).
func (w *c30World) allMethods(t *c28Term) []string {
	var all []string
	for _, m := range t.Methods {
		all = append(all, w.id(m.Name, m.Pkg))
	}
	for _, e := range t.Embeds {
		all = append(all, w.allMethods(w.Decls[e-1].Und)...)
	}
	return all
}

func (w *c30World) termStr(t *c28Term) string {
	switch t.K {
	case "basic":
		return t.Kind
	case "named":
		return w.key(t.Obj)
	case "ptr":
		return "*" + w.termStr(t.Elem)
	case "slice":
		return "[]" + w.termStr(t.Elem)
	case "array":
		return fmt.Sprintf("[%d]%s", t.Len, w.termStr(t.Elem))
	case "map":
		return "map[" + w.termStr(t.Key) + "]" + w.termStr(t.Elem)
	case "chan":
		return fmt.Sprintf("chan%d(%s)", t.Dir, w.termStr(t.Elem))
	case "func":
		return "func" + w.sigStr(t)
	case "struct":
		var sb strings.Builder
		sb.WriteString("struct{")
		for _, f := range t.Fields {
			if f.Emb {
				sb.WriteString("emb ")
			}
			sb.WriteString(w.id(f.Name, f.Pkg) + " " + w.termStr(f.Typ))
			if f.Tag != "" {
				sb.WriteString(" tag=" + strconv.Quote(f.Tag))
			}
			sb.WriteString(";")
		}
		sb.WriteString("}")
		return sb.String()
	case "iface":
		var es, ms []string
		for _, e := range t.Embeds {
			es = append(es, "E:"+w.key(e))
		}
		for _, m := range t.Methods {
			ms = append(ms, w.id(m.Name, m.Pkg)+w.sigStr(m.Sig))
		}
		all := w.allMethods(t)
		sort.Strings(es)
		sort.Strings(ms)
		sort.Strings(all)
		return "iface{" + strings.Join(es, ";") + "|" + strings.Join(ms, ";") + "|all:" + strings.Join(all, ",") + "}"
	}
	return "?" + t.K
}

// expect renders what call j of the world must produce: the objects of the package and the
// named types that must be fully converted.
func (w *c30World) expect(j int) (objs map[string]c30ObjProj, named map[string]*c30NamedProj, shapes map[string]string) {
	p := w.Calls[j]
	objs = map[string]c30ObjProj{}
	named = map[string]*c30NamedProj{}
	shapes = map[string]string{}
	for o, d := range w.Decls {
		if d.Pkg == p {
			objs[d.Name] = c30ObjProj{Name: d.Name, Kind: "type", Type: w.key(o + 1)}
			shapes[d.Name] = "named:" + d.Und.shape()
		}
	}
	for _, ob := range w.Objs {
		if ob.Pkg == p {
			op := c30ObjProj{Name: ob.Name, Kind: ob.Kind, Type: w.termStr(ob.Typ)}
			if ob.Kind == "const" {
				op.ConstKind, op.ConstVal = c30ConstKind(ob.Ckind), ob.Cval
				if ob.Ckind == "string" {
					op.ConstVal = strconv.Quote(ob.Cval)
				}
			}
			objs[ob.Name] = op
			shapes[ob.Name] = ob.Typ.shape()
		}
	}
	if j < len(w.Ready) {
		for _, o := range w.Ready[j] {
			d := w.Decls[o-1]
			np := &c30NamedProj{Key: w.key(o), Und: w.termStr(d.Und)}
			for _, m := range d.Methods {
				recv := "val"
				if m.Ptr {
					recv = "ptr"
				}
				np.Methods = append(np.Methods, w.id(m.Name, m.Pkg)+" "+recv+" "+w.sigStr(m.Sig))
			}
			sort.Strings(np.Methods)
			named[np.Key] = np
			shapes["named "+np.Key] = d.Und.shape()
			if j < len(w.Lates) {
				for _, l := range w.Lates[j] {
					if l == o {
						shapes["named "+np.Key] = "met-in-method-signature"
					}
				}
			}
		}
	}
	return objs, named, shapes
}

func c30ConstKind(k string) string {
	switch k {
	case "int":
		return "Int"
	case "float":
		return "Float"
	case "string":
		return "String"
	case "bool":
		return "Bool"
	}
	return k
}

// ---------------------------------------------------------------------------------------
// building the world with the standard go/types

var c30StdUntyped = map[string]stdtypes.BasicKind{
	"untyped int": stdtypes.UntypedInt, "untyped float": stdtypes.UntypedFloat, "untyped bool": stdtypes.UntypedBool,
	"untyped string": stdtypes.UntypedString, "untyped rune": stdtypes.UntypedRune,
}

func c30ConstVal(ckind, text string) (v constant.Value, err error) {
	switch ckind {
	case "int":
		neg := strings.HasPrefix(text, "-")
		v = constant.MakeFromLiteral(strings.TrimPrefix(text, "-"), token.INT, 0)
		if neg {
			v = constant.UnaryOp(token.SUB, v, 0)
		}
	case "float":
		parts := strings.Split(text, "/")
		v = constant.ToFloat(constant.MakeFromLiteral(parts[0], token.INT, 0))
		if len(parts) == 2 {
			v = constant.BinaryOp(v, token.QUO, constant.ToFloat(constant.MakeFromLiteral(parts[1], token.INT, 0)))
		}
	case "string":
		v = constant.MakeString(text)
	case "bool":
		v = constant.MakeBool(text == "true")
	default:
		return nil, fmt.Errorf("unknown constant kind %q", ckind)
	}
	if v.Kind() == constant.Unknown {
		return nil, fmt.Errorf("cannot make the %s constant %q", ckind, text)
	}
	return v, nil
}

// c30BuildStd builds the packages of the world; pkgs is indexed by package number.
func c30BuildStd(w *c30World) (pkgs map[int]*stdtypes.Package, err error) {
	defer func() {
		if e := recover(); e != nil {
			err = fmt.Errorf("cannot build the world: %v", e)
		}
	}()
	d := &c28Decls{Pkgs: w.Pkgs, Exported: w.Exported}
	for _, x := range w.Decls {
		d.Objs = append(d.Objs, c28Obj{Name: x.Name, Pkg: x.Pkg, Und: x.Und})
	}
	sw, err := newC28Std(d)
	if err != nil {
		return nil, err
	}
	pkgs = map[int]*stdtypes.Package{}
	for i := range w.Pkgs {
		pkgs[i+1] = sw.pkg(i + 1)
	}
	for o, x := range w.Decls {
		n := sw.namedOf(o+1, 1)
		for _, m := range x.Methods {
			var rt stdtypes.Type = n
			if m.Ptr {
				rt = stdtypes.NewPointer(n)
			}
			recv := stdtypes.NewParam(token.NoPos, sw.pkg(x.Pkg), "", rt)
			sig := stdtypes.NewSignatureType(recv, nil, nil, sw.tuple(m.Sig.Params, "a"), sw.tuple(m.Sig.Results, "r"), m.Sig.Variadic)
			n.AddMethod(stdtypes.NewFunc(token.NoPos, sw.pkg(m.Pkg), m.Name, sig))
		}
		sw.pkg(x.Pkg).Scope().Insert(sw.objs[o])
	}
	for _, ob := range w.Objs {
		pkg := sw.pkg(ob.Pkg)
		var typ stdtypes.Type
		if k, ok := c30StdUntyped[ob.Typ.Kind]; ok && ob.Typ.K == "basic" {
			typ = stdtypes.Typ[k]
		} else if typ, err = sw.Build(ob.Typ); err != nil {
			return nil, err
		}
		var obj stdtypes.Object
		switch ob.Kind {
		case "const":
			v, err := c30ConstVal(ob.Ckind, ob.Cval)
			if err != nil {
				return nil, err
			}
			obj = stdtypes.NewConst(token.NoPos, pkg, ob.Name, typ, v)
		case "var":
			obj = stdtypes.NewVar(token.NoPos, pkg, ob.Name, typ)
		case "func":
			obj = stdtypes.NewFunc(token.NoPos, pkg, ob.Name, typ.(*stdtypes.Signature))
		default:
			return nil, fmt.Errorf("unknown object kind %q", ob.Kind)
		}
		pkg.Scope().Insert(obj)
	}
	for _, p := range pkgs {
		p.MarkComplete()
	}
	return pkgs, nil
}

// ---------------------------------------------------------------------------------------
// running the real converter quietly

var c30OutMu sync.Mutex

// c30Capture runs f with os.Stdout redirected and returns what was printed (the converter
// reports the objects it skips after a recovered panic with fmt.Printf).
func c30Capture(f func()) (out string) {
	c30OutMu.Lock()
	defer c30OutMu.Unlock()
	old := os.Stdout
	rd, wr, err := os.Pipe()
	if err != nil {
		f()
		return ""
	}
	done := make(chan string)
	go func() {
		b, _ := io.ReadAll(rd)
		done <- string(b)
	}()
	os.Stdout = wr
	func() {
		defer func() {
			os.Stdout = old
			wr.Close()
		}()
		f()
	}()
	out = <-done
	rd.Close()
	return out
}

type c30Diff struct {
	Sig  string
	What string
}

// c30Compare compares the projection of a converted package with the expectation.
func c30Compare(where string, objs map[string]c30ObjProj, named map[string]*c30NamedProj, shapes map[string]string,
	ref *c30Proj, got *c30Proj, printed bool) (diffs []c30Diff) {
	add := func(kind, shape, what, msg string) {
		diffs = append(diffs, c30Diff{Sig: fmt.Sprintf("convert(%s,%s):%s", kind, shape, what), What: where + ": " + msg})
	}
	if got.Panic != "" {
		add("package", "-", "panics", "projecting the converted package panics: "+got.Panic)
		return diffs
	}
	gobjs := map[string]c30ObjProj{}
	for _, o := range got.Objs {
		gobjs[o.Name] = o
	}
	robjs := map[string]c30ObjProj{}
	if ref != nil {
		for _, o := range ref.Objs {
			robjs[o.Name] = o
		}
	}
	names := make([]string, 0, len(objs))
	for n := range objs {
		names = append(names, n)
	}
	sort.Strings(names)
	for _, n := range names {
		want := objs[n]
		shape := shapes[n]
		g, ok := gobjs[n]
		if !ok {
			add(want.Kind, shape, "missing-object", fmt.Sprintf("object %s (%s %s) is not in the converted package", n, want.Kind, want.Type))
			continue
		}
		if g.Kind != want.Kind {
			add(want.Kind, shape, "kind-differs", fmt.Sprintf("object %s is a %s, converted to a %s", n, want.Kind, g.Kind))
			continue
		}
		if want.Kind == "const" && (g.ConstKind != want.ConstKind || g.ConstVal != want.ConstVal) {
			add(want.Kind, shape, "const-differs", fmt.Sprintf("constant %s = %s %s, converted to %s %s", n, want.ConstKind, want.ConstVal, g.ConstKind, g.ConstVal))
		}
		if g.Type != want.Type {
			what := "type-string-differs"
			if strings.Contains(want.Type, "|all:") && c30DropAll(want.Type) == c30DropAll(g.Type) {
				what = "incomplete-interface"
			}
			add(want.Kind, shape, what, fmt.Sprintf("%s %s has type %s, converted to %s", want.Kind, n, want.Type, g.Type))
		} else if printed {
			if r, ok := robjs[n]; ok && c30NormPrinted(r.Printed) != c30NormPrinted(g.Printed) {
				// the canonical structures agree (kinds, names of fields and methods, flags, tags):
				// what is left in the printed form are the names of parameters and results
				add(want.Kind, shape, "type-string-differs(parameter-names)", fmt.Sprintf("%s %s is printed %s, its conversion %s", want.Kind, n, r.Printed, g.Printed))
			}
		}
	}
	keys := make([]string, 0, len(named))
	for k := range named {
		keys = append(keys, k)
	}
	sort.Strings(keys)
	for _, k := range keys {
		want := named[k]
		shape := shapes["named "+k]
		g := got.Named[k]
		if g == nil {
			add("type", shape, "missing-object", fmt.Sprintf("named type %s is not reachable from the converted package", k))
			continue
		}
		if g.Panic != "" {
			add("type", shape, "panics", fmt.Sprintf("describing the converted %s panics: %s", k, g.Panic))
			continue
		}
		if g.Und != want.Und {
			what := "underlying-differs"
			if strings.Contains(want.Und, "|all:") && c30DropAll(want.Und) == c30DropAll(g.Und) {
				what = "incomplete-interface"
			}
			add("type", shape, what, fmt.Sprintf("%s has underlying type %s, converted to %s", k, want.Und, g.Und))
		}
		if strings.Join(g.Methods, "; ") != strings.Join(want.Methods, "; ") {
			what := "method-set-differs"
			if strings.Contains(strings.Join(want.Methods, "; "), "|all:") && c30DropAll(strings.Join(want.Methods, "; ")) == c30DropAll(strings.Join(g.Methods, "; ")) {
				what = "incomplete-interface"
				shape = "method-signature" // an interface literal inside a method signature
			}
			add("type", shape, what, fmt.Sprintf("%s declares the methods [%s], its conversion [%s]", k, strings.Join(want.Methods, "; "), strings.Join(g.Methods, "; ")))
		} else if ref != nil {
			if r := ref.Named[k]; r != nil && (strings.Join(r.MSet, ",") != strings.Join(g.MSet, ",") || strings.Join(r.PMSet, ",") != strings.Join(g.PMSet, ",")) {
				add("type", shape, "method-set-differs", fmt.Sprintf("%s has the method sets {%s} / pointer {%s}, its conversion {%s} / pointer {%s}",
					k, strings.Join(r.MSet, ","), strings.Join(r.PMSet, ","), strings.Join(g.MSet, ","), strings.Join(g.PMSet, ",")))
			}
		}
	}
	for _, k := range got.Dups {
		add("type", "named", "duplicate-named", fmt.Sprintf("named type %s exists as two distinct converted objects", k))
	}
	return diffs
}

// c30DropAll removes the flattened method lists of interfaces from a rendering: two renderings
// that differ only there differ by the completion of an interface.
func c30DropAll(s string) string {
	for {
		i := strings.Index(s, "|all:")
		if i < 0 {
			return s
		}
		j := strings.IndexByte(s[i:], '}')
		if j < 0 {
			return s[:i]
		}
		s = s[:i] + s[i+j:]
	}
}

var c30AliasRe = regexp.MustCompile(`\b(byte|rune|any)\b`)

// c30NormPrinted removes the spelling of the predeclared aliases from a printed type: the
// converter maps byte, rune and any to the types they denote (uint8, int32, interface{}).
func c30NormPrinted(s string) string {
	return c30AliasRe.ReplaceAllStringFunc(s, func(m string) string {
		switch m {
		case "byte":
			return "uint8"
		case "rune":
			return "int32"
		}
		return "interface{}"
	})
}

// c30RunWorld converts the world with one real Converter and compares after every call.
func c30RunWorld(w *c30World) (diffs []c30Diff, gateWhy string, err error) {
	return c30RunWorld2(w, w)
}

// c30RunWorld2 builds the packages of world b and compares with the expectation of world w
// (b = w except in the self-test, which checks that a wrong expectation is noticed).
func c30RunWorld2(b, w *c30World) (diffs []c30Diff, gateWhy string, err error) {
	pkgs, err := c30BuildStd(b)
	if err != nil {
		return nil, "", core.Infra("%v", err)
	}
	// gate: the standard-library side, projected, must be the model's world
	for j := range w.Calls {
		objs, named, shapes := w.expect(j)
		sp := c30ProjStd(pkgs[w.Calls[j]], nil)
		if d := c30Compare("std", objs, named, shapes, nil, c30StdAsProj(sp), false); len(d) > 0 {
			return nil, d[0].Sig + ": " + d[0].What, nil
		}
	}
	var conv gtypes.Converter
	conv.Init(gtypes.Universe)
	for j, p := range w.Calls {
		var out *gtypes.Package
		var panicked string
		warn := c30Capture(func() {
			defer func() {
				if e := recover(); e != nil {
					panicked = c28PanicText(e)
				}
			}()
			out = conv.Package(pkgs[p])
		})
		where := fmt.Sprintf("call %d Package(%s)", j+1, w.path(p))
		if panicked != "" {
			diffs = append(diffs, c30Diff{Sig: "convert(package,-):panics", What: where + ": Converter.Package panics: " + panicked})
			return diffs, "", nil
		}
		objs, named, shapes := w.expect(j)
		sp := c30ProjStd(pkgs[p], nil)
		fp := c30ProjFork(out, nil)
		d := c30Compare(where, objs, named, shapes, c30StdAsProj(sp), fp, true)
		if warn != "" {
			for i := range d {
				if strings.HasSuffix(d[i].Sig, ":missing-object") {
					d[i].Sig = strings.TrimSuffix(d[i].Sig, "missing-object") + "panics"
					d[i].What += " (the converter recovered a panic: " + strings.TrimSpace(warn) + ")"
				}
			}
		}
		diffs = append(diffs, d...)
	}
	return diffs, "", nil
}

func c30StdAsProj(p *c30Proj) *c30Proj { return p }

// ---------------------------------------------------------------------------------------

func c30Verdict(c *core.Ctx, w *c30World) error {
	diffs, gateWhy, err := c30RunWorld(w)
	if err != nil {
		return err
	}
	c.Gate(gateWhy == "")
	if gateWhy != "" {
		if n, _ := c.Extra["gate_reject_examples"].([]string); len(n) < 5 {
			c.Extra["gate_reject_examples"] = append(n, gateWhy)
		}
		return nil
	}
	c.Trace()
	for j := range w.Calls {
		objs, named, _ := w.expect(j)
		for _, o := range objs {
			c.Case(fmt.Sprintf("%v|%s|%s|%s|%s", w.Calls, o.Kind, o.Type, o.ConstVal, o.Name), !c30Trivial(o))
		}
		for _, n := range named {
			c.Case(fmt.Sprintf("%v|named|%s|%s|%v", w.Calls, n.Key, n.Und, n.Methods), true)
		}
	}
	if len(diffs) == 0 {
		return nil
	}
	// confirm with fresh converters; the real code ranges over a map it inserts into, so the
	// outcome may depend on the iteration order: several runs
	// (the specification is deterministic: methods are always attached; the real outcome is
	// not, so a disagreement seen once is re-run until it shows again, at most 64 times)
	reruns := 8
	count := map[string]int{}
	need := map[string]bool{}
	for _, d := range diffs {
		need[d.Sig] = true
	}
	for i := 0; i < 64; i++ {
		if i >= 8 {
			missing := false
			for s := range need {
				if count[s] == 0 {
					missing = true
				}
			}
			if !missing {
				break
			}
			reruns = i + 1
		}
		again, _, err := c30RunWorld(w)
		if err != nil {
			return err
		}
		seen := map[string]bool{}
		for _, d := range again {
			if !seen[d.Sig] {
				seen[d.Sig] = true
				count[d.Sig]++
			}
		}
	}
	seen := map[string]bool{}
	for _, d := range diffs {
		if seen[d.Sig] {
			continue
		}
		seen[d.Sig] = true
		n := count[d.Sig]
		if n == 0 {
			k, _ := c.Extra["worlds_unreproduced_dropped"].(int)
			c.Extra["worlds_unreproduced_dropped"] = k + 1
			continue
		}
		what := d.What
		if n < reruns {
			what += fmt.Sprintf(" (seen in %d of %d fresh conversions of the same world: depends on Go's map iteration order)", n, reruns)
		}
		rc := *w
		rc.Kind, rc.T = "world", ""
		c.Violation(d.Sig, what, &rc)
	}
	return nil
}

func c30Trivial(o c30ObjProj) bool {
	if o.Kind == "const" {
		return len(o.ConstVal) <= 2
	}
	return !strings.ContainsAny(o.Type, "*[{(.")
}

func runC30(c *core.Ctx) error {
	var firstErr error
	nworlds := 0
	handle := func(line []byte) {
		if firstErr != nil {
			return
		}
		var w c30World
		if err := json.Unmarshal(line, &w); err != nil {
			firstErr = core.Infra("bad record from TLC: %v", err)
			return
		}
		if w.T != "world" {
			firstErr = core.Infra("unknown record type %q", w.T)
			return
		}
		nworlds++
		if nworlds%499 == 1 {
			c.Sample(json.RawMessage(append([]byte(nil), line...)))
		}
		firstErr = c30Verdict(c, &w)
	}
	t0 := time.Now()
	part := os.Getenv("VERIF_C30_PART") // development switch: "corpus" or "worlds" runs one half only
	if part != "corpus" {
		_, err := c.TLC(core.TLCOpts{Spec: "Converter", CfgName: "worlds-bfs", Workers: 6,
			Cfg: c30Cfg("none", true, "bfs", c30Invs), OnLine: handle, Timeout: 45 * time.Minute})
		if err != nil {
			return err
		}
		if firstErr != nil {
			return firstErr
		}
		_, err = c.TLC(core.TLCOpts{Spec: "Converter", CfgName: "worlds-sim", Workers: 6,
			Cfg:      c30Cfg("none", true, "sim", c30Invs),
			Simulate: true, SimNum: c.Pick(60, 700), SimDepth: 400, Seed: c.Seed, OnLine: handle, Timeout: 45 * time.Minute})
		if err != nil {
			return err
		}
		if firstErr != nil {
			return firstErr
		}
		if nworlds == 0 {
			return core.Infra("TLC printed no world")
		}
	}
	c.Extra["worlds"] = nworlds
	c.Extra["worlds_s"] = time.Since(t0).Seconds()
	t1 := time.Now()
	if part != "worlds" {
		if err := c30Corpus(c); err != nil {
			return err
		}
	}
	c.Extra["corpus_s"] = time.Since(t1).Seconds()
	c.Assume("the harness module says go 1.21, so GODEBUG gotypesalias=0: the standard go/types produces no *types.Alias nodes (checked in the corpus: none met)")
	c.Assume("worlds: interfaces are completed and packages marked complete before conversion, as an importer delivers them; embedded interfaces are declared types; constants are given by kind and exact value text")
	c.Assume("generic declarations (type parameters, generic or instantiated named types, unions) are excluded as the property says: a corpus object or named type whose rendering mentions one is skipped and counted")
	return firstErr
}

func replayC30(c *core.Ctx, raw json.RawMessage) error {
	var k struct {
		Kind string `json:"kind"`
	}
	if err := json.Unmarshal(raw, &k); err != nil {
		return err
	}
	switch k.Kind {
	case "world":
		var w c30World
		if err := json.Unmarshal(raw, &w); err != nil {
			return err
		}
		seen := map[string]bool{}
		for i := 0; i < 8; i++ {
			diffs, gateWhy, err := c30RunWorld(&w)
			if err != nil {
				return err
			}
			if gateWhy != "" {
				return core.Infra("the world is rejected by the gate: %s", gateWhy)
			}
			for _, d := range diffs {
				if !seen[d.Sig] {
					seen[d.Sig] = true
					c.Violation(d.Sig, d.What, &w)
				}
			}
		}
		return nil
	case "corpus":
		return c30CorpusReplay(c, raw)
	}
	return core.Infra("unknown replay case kind %q", k.Kind)
}

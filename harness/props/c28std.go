package props

import (
	"fmt"
	"go/token"
	"go/types"
)

var c28StdKinds = map[string]types.BasicKind{
	"bool": types.Bool, "int": types.Int, "int8": types.Int8, "int16": types.Int16, "int32": types.Int32,
	"int64": types.Int64, "uint8": types.Uint8, "uint16": types.Uint16, "string": types.String,
	"float64": types.Float64,
}

// c28Std builds the same terms with the STANDARD library's go/types (the Go gate of C28):
// a copy of c28World with the import changed.
// A derived world (newC28StdDerived) shares the declarations (packages, type names) of its parent
// but creates every type object anew, with legal construction variations (method / embedded
// order, shortest tag slice, parameter names): it provides the second, pointer-distinct
// instance of every term.
type c28Std struct {
	decls   *c28Decls
	pkgs    []*types.Package
	objs    []*types.TypeName
	und     []types.Type
	named   map[[2]int]*types.Named
	pending []*types.Interface
	setup   bool
	derived bool
}

func newC28Std(d *c28Decls) (w *c28Std, err error) {
	defer func() {
		if r := recover(); r != nil {
			err = fmt.Errorf("cannot build the declarations: %v", r)
		}
	}()
	w = &c28Std{decls: d, named: map[[2]int]*types.Named{}}
	for i, path := range d.Pkgs {
		w.pkgs = append(w.pkgs, types.NewPackage(path, fmt.Sprintf("p%d", i+1)))
	}
	w.setup = true
	for i, o := range d.Objs {
		tn := types.NewTypeName(token.NoPos, w.pkg(o.Pkg), o.Name, nil)
		w.objs = append(w.objs, tn)
		w.named[[2]int{i + 1, 1}] = types.NewNamed(tn, nil, nil)
	}
	w.und = make([]types.Type, len(d.Objs))
	for i, o := range d.Objs {
		u := w.build(o.Und)
		w.und[i] = u
		w.named[[2]int{i + 1, 1}].SetUnderlying(u)
	}
	for _, it := range w.pending {
		it.Complete()
	}
	w.pending = nil
	w.setup = false
	return w, nil
}

func newC28StdDerived(p *c28Std) *c28Std {
	return &c28Std{decls: p.decls, pkgs: p.pkgs, objs: p.objs, und: p.und, named: map[[2]int]*types.Named{}, derived: true}
}

func (w *c28Std) pkg(i int) *types.Package {
	if i <= 0 {
		return nil
	}
	return w.pkgs[i-1]
}

func (w *c28Std) namedOf(obj, inst int) *types.Named {
	k := [2]int{obj, inst}
	if n := w.named[k]; n != nil {
		return n
	}
	// another *Named for the same declaration
	n := types.NewNamed(w.objs[obj-1], w.und[obj-1], nil)
	w.named[k] = n
	return n
}

// Build renders one term; a panic of a constructor means the specification generated an
// ill-formed term.
func (w *c28Std) Build(t *c28Term) (typ types.Type, err error) {
	defer func() {
		if r := recover(); r != nil {
			err = fmt.Errorf("constructor panicked on %s: %v", t, r)
		}
	}()
	return w.build(t), nil
}

func (w *c28Std) tuple(ts []*c28Term, prefix string) *types.Tuple {
	var vars []*types.Var
	for i, p := range ts {
		name := ""
		if w.derived {
			name = fmt.Sprintf("%s%d", prefix, i)
		}
		vars = append(vars, types.NewParam(token.NoPos, nil, name, w.build(p)))
	}
	return types.NewTuple(vars...)
}

func (w *c28Std) sig(t *c28Term) *types.Signature {
	return types.NewSignatureType(nil, nil, nil, w.tuple(t.Params, "a"), w.tuple(t.Results, "r"), t.Variadic)
}

func (w *c28Std) build(t *c28Term) types.Type {
	switch t.K {
	case "basic":
		kind, ok := c28StdKinds[t.Kind]
		if !ok {
			panic("unknown basic kind " + t.Kind)
		}
		if t.Alias {
			switch kind {
			case types.Uint8:
				return types.Universe.Lookup("byte").Type()
			case types.Int32:
				return types.Universe.Lookup("rune").Type()
			}
			panic("no alias for " + t.Kind)
		}
		return types.Typ[kind]
	case "named":
		return w.namedOf(t.Obj, t.Inst)
	case "ptr":
		return types.NewPointer(w.build(t.Elem))
	case "slice":
		return types.NewSlice(w.build(t.Elem))
	case "array":
		return types.NewArray(w.build(t.Elem), int64(t.Len))
	case "map":
		return types.NewMap(w.build(t.Key), w.build(t.Elem))
	case "chan":
		return types.NewChan([]types.ChanDir{types.SendRecv, types.SendOnly, types.RecvOnly}[t.Dir], w.build(t.Elem))
	case "func":
		return w.sig(t)
	case "struct":
		var fields []*types.Var
		var tags []string
		last := 0
		for i, f := range t.Fields {
			fields = append(fields, types.NewField(token.NoPos, w.pkg(f.Pkg), f.Name, w.build(f.Typ), f.Emb))
			tags = append(tags, f.Tag)
			if f.Tag != "" {
				last = i + 1
			}
		}
		if w.derived {
			tags = tags[:last] // shortest legal tag slice
			if last == 0 {
				tags = nil
			}
		}
		return types.NewStruct(fields, tags)
	case "iface":
		var ms []*types.Func
		var es []types.Type
		for _, m := range t.Methods {
			ms = append(ms, types.NewFunc(token.NoPos, w.pkg(m.Pkg), m.Name, w.sig(m.Sig)))
		}
		for _, e := range t.Embeds {
			es = append(es, w.namedOf(e, 1))
		}
		if w.derived { // the constructor sorts both lists
			for i, j := 0, len(ms)-1; i < j; i, j = i+1, j-1 {
				ms[i], ms[j] = ms[j], ms[i]
			}
			for i, j := 0, len(es)-1; i < j; i, j = i+1, j-1 {
				es[i], es[j] = es[j], es[i]
			}
		}
		it := types.NewInterfaceType(ms, es)
		if w.setup {
			w.pending = append(w.pending, it)
		} else {
			it.Complete()
		}
		return it
	}
	panic("unknown term kind " + t.K)
}

package props

import (
	"encoding/json"
	"fmt"
	"go/token"

	"github.com/cosmos72/gomacro/go/types"
)

// C28 term records as printed by spec/types/TypeId.tla, and the builder that turns a term
// into a type of gomacro's go/types fork. The builder only renders: it knows nothing about
// identity.

type c28Term struct {
	K        string      `json:"k"`
	Kind     string      `json:"kind,omitempty"`
	Alias    bool        `json:"alias,omitempty"`
	Obj      int         `json:"obj,omitempty"`
	Inst     int         `json:"inst,omitempty"`
	Elem     *c28Term    `json:"elem,omitempty"`
	Key      *c28Term    `json:"key,omitempty"`
	Len      int         `json:"len,omitempty"`
	Dir      int         `json:"dir,omitempty"`
	Params   []*c28Term  `json:"params,omitempty"`
	Results  []*c28Term  `json:"results,omitempty"`
	Variadic bool        `json:"variadic,omitempty"`
	Fields   []c28Field  `json:"fields,omitempty"`
	Methods  []c28Method `json:"methods,omitempty"`
	Embeds   []int       `json:"embeds,omitempty"`
}
type c28Field struct {
	Name string   `json:"name"`
	Pkg  int      `json:"pkg"`
	Emb  bool     `json:"emb"`
	Tag  string   `json:"tag"`
	Typ  *c28Term `json:"typ"`
}
type c28Method struct {
	Name string   `json:"name"`
	Pkg  int      `json:"pkg"`
	Sig  *c28Term `json:"sig"`
}
type c28Obj struct {
	Name string   `json:"name"`
	Pkg  int      `json:"pkg"`
	Und  *c28Term `json:"und"`
}

// c28Decls is the declaration context shared by all terms of one TLC run.
type c28Decls struct {
	Objs     []c28Obj `json:"objs"`
	Pkgs     []string `json:"pkgs"`
	Exported []string `json:"exported"`
}

// c28ObjNames holds the declaration names of the current TLC run (for messages only).
var c28ObjNames []string

func c28ObjName(o int) string {
	if o >= 1 && o <= len(c28ObjNames) {
		return c28ObjNames[o-1]
	}
	return fmt.Sprintf("T%d", o)
}

// String renders a term compactly (Go-like syntax) for messages and case keys.
func (t *c28Term) String() string {
	if t == nil {
		return "?"
	}
	switch t.K {
	case "basic":
		if t.Alias {
			return t.Kind + "(alias)"
		}
		return t.Kind
	case "named":
		if t.Inst > 1 {
			return fmt.Sprintf("%s#%d", c28ObjName(t.Obj), t.Inst)
		}
		return c28ObjName(t.Obj)
	case "ptr":
		return "*" + t.Elem.String()
	case "slice":
		return "[]" + t.Elem.String()
	case "array":
		return fmt.Sprintf("[%d]%s", t.Len, t.Elem)
	case "map":
		return fmt.Sprintf("map[%s]%s", t.Key, t.Elem)
	case "chan":
		return []string{"chan ", "chan<- ", "<-chan "}[t.Dir%3] + t.Elem.String()
	case "func":
		s := "func("
		for i, p := range t.Params {
			if i > 0 {
				s += ","
			}
			if t.Variadic && i == len(t.Params)-1 {
				s += "..."
			}
			s += p.String()
		}
		s += ")"
		if len(t.Results) > 0 {
			s += "("
			for i, p := range t.Results {
				if i > 0 {
					s += ","
				}
				s += p.String()
			}
			s += ")"
		}
		return s
	case "struct":
		s := "struct{"
		for i, f := range t.Fields {
			if i > 0 {
				s += "; "
			}
			if f.Emb {
				s += "embedded "
			}
			s += fmt.Sprintf("%s@%d %s", f.Name, f.Pkg, f.Typ)
			if f.Tag != "" {
				s += fmt.Sprintf(" %q", f.Tag)
			}
		}
		return s + "}"
	case "iface":
		s := "interface{"
		sep := ""
		for _, e := range t.Embeds {
			s += sep + c28ObjName(e)
			sep = "; "
		}
		for _, m := range t.Methods {
			s += fmt.Sprintf("%s%s@%d%s", sep, m.Name, m.Pkg, m.Sig.String()[4:])
			sep = "; "
		}
		return s + "}"
	}
	return "?" + t.K
}

// key is a canonical text of the term (used to find sub-terms in the universe).
func (t *c28Term) key() string {
	b, _ := json.Marshal(t)
	return string(b)
}

// subterms calls f on every proper sub-term (component types at any depth).
func (t *c28Term) subterms(f func(*c28Term)) {
	visit := func(s *c28Term) {
		if s != nil {
			f(s)
			s.subterms(f)
		}
	}
	visit(t.Elem)
	visit(t.Key)
	for _, p := range t.Params {
		visit(p)
	}
	for _, p := range t.Results {
		visit(p)
	}
	for _, fl := range t.Fields {
		visit(fl.Typ)
	}
	for _, m := range t.Methods {
		if m.Sig != nil {
			for _, p := range m.Sig.Params {
				visit(p)
			}
			for _, p := range m.Sig.Results {
				visit(p)
			}
		}
	}
}

// shape is the outermost constructor with its arities: two terms with equal shapes can only
// be told apart (or found identical) by looking into their components.
func (t *c28Term) shape() string {
	switch t.K {
	case "basic", "named":
		return t.K
	case "array":
		return fmt.Sprintf("array%d", t.Len)
	case "chan":
		return fmt.Sprintf("chan%d", t.Dir)
	case "func":
		return fmt.Sprintf("func%d,%d,%v", len(t.Params), len(t.Results), t.Variadic)
	case "struct":
		return fmt.Sprintf("struct%d", len(t.Fields))
	case "iface":
		return fmt.Sprintf("iface%d,%d", len(t.Methods), len(t.Embeds))
	}
	return t.K
}

var c28BasicKinds = map[string]types.BasicKind{
	"bool": types.Bool, "int": types.Int, "int8": types.Int8, "int16": types.Int16, "int32": types.Int32,
	"int64": types.Int64, "uint8": types.Uint8, "uint16": types.Uint16, "string": types.String,
	"float64": types.Float64,
}

// c28World builds terms with the real constructors of gomacro's go/types.
// A derived world (newC28Derived) shares the declarations (packages, type names) of its parent
// but creates every type object anew, with legal construction variations (method / embedded
// order, shortest tag slice, parameter names): it provides the second, pointer-distinct
// instance of every term.
type c28World struct {
	decls   *c28Decls
	pkgs    []*types.Package
	objs    []*types.TypeName
	und     []types.Type
	named   map[[2]int]*types.Named
	pending []*types.Interface
	setup   bool
	derived bool
}

func newC28World(d *c28Decls) (w *c28World, err error) {
	defer func() {
		if r := recover(); r != nil {
			err = fmt.Errorf("cannot build the declarations: %v", r)
		}
	}()
	w = &c28World{decls: d, named: map[[2]int]*types.Named{}}
	if len(c28ObjNames) != len(d.Objs) {
		names := make([]string, len(d.Objs))
		for i, o := range d.Objs {
			names[i] = o.Name
		}
		c28ObjNames = names
	}
	for i, path := range d.Pkgs {
		w.pkgs = append(w.pkgs, types.NewPackage(path, fmt.Sprintf("p%d", i+1)))
	}
	w.setup = true
	for i, o := range d.Objs {
		tn := types.NewTypeName(token.NoPos, w.pkg(o.Pkg), o.Name, nil)
		w.objs = append(w.objs, tn)
		w.named[[2]int{i + 1, 1}] = types.NewNamed(tn, nil, nil)
	}
	w.und = make([]types.Type, len(d.Objs))
	for i, o := range d.Objs {
		u := w.build(o.Und)
		w.und[i] = u
		w.named[[2]int{i + 1, 1}].SetUnderlying(u)
	}
	for _, it := range w.pending {
		it.Complete()
	}
	w.pending = nil
	w.setup = false
	return w, nil
}

func newC28Derived(p *c28World) *c28World {
	return &c28World{decls: p.decls, pkgs: p.pkgs, objs: p.objs, und: p.und, named: map[[2]int]*types.Named{}, derived: true}
}

func (w *c28World) pkg(i int) *types.Package {
	if i <= 0 {
		return nil
	}
	return w.pkgs[i-1]
}

func (w *c28World) namedOf(obj, inst int) *types.Named {
	k := [2]int{obj, inst}
	if n := w.named[k]; n != nil {
		return n
	}
	// another *Named for the same declaration
	n := types.NewNamed(w.objs[obj-1], w.und[obj-1], nil)
	w.named[k] = n
	return n
}

// Build renders one term; a panic of a constructor means the specification generated an
// ill-formed term.
func (w *c28World) Build(t *c28Term) (typ types.Type, err error) {
	defer func() {
		if r := recover(); r != nil {
			err = fmt.Errorf("constructor panicked on %s: %v", t, r)
		}
	}()
	return w.build(t), nil
}

func (w *c28World) tuple(ts []*c28Term, prefix string) *types.Tuple {
	var vars []*types.Var
	for i, p := range ts {
		name := ""
		if w.derived {
			name = fmt.Sprintf("%s%d", prefix, i)
		}
		vars = append(vars, types.NewParam(token.NoPos, nil, name, w.build(p)))
	}
	return types.NewTuple(vars...)
}

func (w *c28World) sig(t *c28Term) *types.Signature {
	return types.NewSignature(nil, w.tuple(t.Params, "a"), w.tuple(t.Results, "r"), t.Variadic)
}

func (w *c28World) build(t *c28Term) types.Type {
	switch t.K {
	case "basic":
		kind, ok := c28BasicKinds[t.Kind]
		if !ok {
			panic("unknown basic kind " + t.Kind)
		}
		if t.Alias {
			switch kind {
			case types.Uint8:
				return types.Universe.Lookup("byte").Type()
			case types.Int32:
				return types.Universe.Lookup("rune").Type()
			}
			panic("no alias for " + t.Kind)
		}
		return types.Typ[kind]
	case "named":
		return w.namedOf(t.Obj, t.Inst)
	case "ptr":
		return types.NewPointer(w.build(t.Elem))
	case "slice":
		return types.NewSlice(w.build(t.Elem))
	case "array":
		return types.NewArray(w.build(t.Elem), int64(t.Len))
	case "map":
		return types.NewMap(w.build(t.Key), w.build(t.Elem))
	case "chan":
		return types.NewChan([]types.ChanDir{types.SendRecv, types.SendOnly, types.RecvOnly}[t.Dir], w.build(t.Elem))
	case "func":
		return w.sig(t)
	case "struct":
		var fields []*types.Var
		var tags []string
		last := 0
		for i, f := range t.Fields {
			fields = append(fields, types.NewField(token.NoPos, w.pkg(f.Pkg), f.Name, w.build(f.Typ), f.Emb))
			tags = append(tags, f.Tag)
			if f.Tag != "" {
				last = i + 1
			}
		}
		if w.derived {
			tags = tags[:last] // shortest legal tag slice
			if last == 0 {
				tags = nil
			}
		}
		return types.NewStruct(fields, tags)
	case "iface":
		var ms []*types.Func
		var es []types.Type
		for _, m := range t.Methods {
			ms = append(ms, types.NewFunc(token.NoPos, w.pkg(m.Pkg), m.Name, w.sig(m.Sig)))
		}
		for _, e := range t.Embeds {
			es = append(es, w.namedOf(e, 1))
		}
		if w.derived { // the constructor sorts both lists
			for i, j := 0, len(ms)-1; i < j; i, j = i+1, j-1 {
				ms[i], ms[j] = ms[j], ms[i]
			}
			for i, j := 0, len(es)-1; i < j; i, j = i+1, j-1 {
				es[i], es[j] = es[j], es[i]
			}
		}
		it := types.NewInterfaceType(ms, es)
		if w.setup {
			w.pending = append(w.pending, it)
		} else {
			it.Complete()
		}
		return it
	}
	panic("unknown term kind " + t.K)
}

package props

// projections shared by c30fork.go (converted side) and c30std.go (original side)

type c30ObjProj struct {
	Name      string `json:"name"`
	Kind      string `json:"kind"` // const | var | func | type
	ConstKind string `json:"ckind,omitempty"`
	ConstVal  string `json:"cval,omitempty"` // constant.Value.ExactString()
	Type      string `json:"type"`           // canonical rendering, named types cut at their name
	Printed   string `json:"printed"`        // TypeString with package paths
}

type c30NamedProj struct {
	Key     string   `json:"key"` // package path + "." + name
	Und     string   `json:"und"`
	Methods []string `json:"methods"` // declared: "name recv signature", sorted
	MSet    []string `json:"mset"`    // method set of T (names)
	PMSet   []string `json:"pmset"`   // method set of *T
	Panic   string   `json:"panic,omitempty"`
	Late    bool     `json:"late,omitempty"` // (original side) reachable only through method signatures
}

type c30Proj struct {
	Objs  []c30ObjProj
	Named map[string]*c30NamedProj
	Order []string
	Dups  []string // named types present as two distinct objects
	Panic string
}

package props

import (
	"bytes"
	"encoding/json"
	"fmt"
	"hash/fnv"
	"math"
	"os"
	"runtime"
	"sort"
	"strconv"
	"strings"
	"sync"
	"sync/atomic"
	"time"

	"github.com/cosmos72/gomacro/fast"

	"verif/harness/core"
	"verif/harness/show"
)

// C02: assignments and compound assignments on every kind of place behave as in Go.
//
// Spec: spec/sem/Places.tla (+ Values, BitVec, FloatD and the value lists of Expr). TLC emits
//   - CELL records: (operator, kind, count kind) x left value a x right values b with the result
//     Go prescribes for `place op= b` when the right-hand side is a variable and when it is a
//     constant (new value | run-time panic | compile-time rejection), `place++`, `place--`;
//   - SEQUENCE records: a statement sequence over the small store of Places.tla with the final
//     store, the log of index/key operand evaluations and the panic class.
// This driver renders every cell in PLACE variants (place shape x depth / storage class; the
// specification says the result does not depend on them), runs it on the fast interpreter and
// compares the returned values, ALL globals of the kind (no stray write), the evi() log and
// the panic / rejection class. Sequences are rendered in three worlds (nested closures with
// one variable per depth, one function, file level).
// Go gate: c02native.go (real compound assignments on native places for every cell; a seeded
// sample covering every rendering shape is compiled with the Go toolchain).
//
// Files: c02.go (records, rendering, verdict), c02env.go (values, interpreter, observation),
// c02native.go (Go gate), c02natgen.go (mechanically written operator x place tables).

func init() {
	core.Register(&core.Prop{
		ID: "C02",
		Rule: "TLC (Places.tla) enumerates value cells = (assignment operator, kind [x shift-count kind], right-hand side variable / constant) over the boundary values of each kind (BFS) and seeded random bit patterns (simulation) " +
			"with the result Go prescribes; each is rendered in place variants = place shape (variable, *p, array, slice, map present / missing key, field, through pointer to array / struct, _) x depth or storage class " +
			"(local, captured at depth 1..4, file-level from nesting 0..4, boxed file-level from nesting 0..3; containers global / from nested closures / parameter / captured), 2 (quick) or 4 (thorough, over the longer value lists) variants per value pair, rotating so that every (place, storage, kind, operator, rhs shape) cell receives at least three value pairs; " +
			"plus statement sequences (BFS up to length 3 over a seed-chosen alphabet, random sequences of length 12 from all statements) replayed in three worlds; " +
			"an evaluation is one (cell, value pair, variant) or one (sequence, world); non-trivial = every one (each executes an assignment); distinct by rendered text and operand bits",
		Run:      runC02,
		Replay:   replayC02,
		SelfTest: selfTestC02,
	})
}

// ---------------------------------------------------------------------------------------
// cell records

type c02Row struct {
	B json.RawMessage              `json:"b"`
	R map[string][]json.RawMessage `json:"r"`
}

type c02CellRec struct {
	G    string            `json:"g"`
	K    string            `json:"k"`
	CK   string            `json:"ck"`
	Ks   []string          `json:"ks"`
	CKs  []string          `json:"cks"`
	A    json.RawMessage   `json:"a"`
	J    int               `json:"j"` // index of a in the value list (0 in simulation)
	Z    bool              `json:"z"` // a is the zero value: the record also specifies a missing map key
	Inc  []json.RawMessage `json:"inc"`
	Rows []c02Row          `json:"rows"`
}

// c02Res is an expected result: the new value of the place | panic | rejection.
type c02Res struct {
	T   string // "v", "p", "c", "s"
	V   c02Val
	Cls string
}

func (r c02Res) String() string {
	switch r.T {
	case "v":
		return r.V.Kind + "(" + r.V.Text() + ")"
	case "p":
		return "run-time panic(" + r.Cls + ")"
	case "c":
		return "compile-time rejection(" + r.Cls + ")"
	}
	return "not generated"
}

func c02ParseRes(raw json.RawMessage, ref *c02Res, rep, kind string) (c02Res, error) {
	if len(raw) > 0 && raw[0] == '"' {
		if ref == nil {
			return c02Res{}, fmt.Errorf("'=' without a reference result")
		}
		return *ref, nil
	}
	var parts []json.RawMessage
	if err := json.Unmarshal(raw, &parts); err != nil || len(parts) == 0 {
		return c02Res{}, fmt.Errorf("bad result %s", raw)
	}
	var tag string
	json.Unmarshal(parts[0], &tag)
	r := c02Res{T: tag}
	switch tag {
	case "v":
		if len(parts) != 3 {
			return r, fmt.Errorf("bad result %s", raw)
		}
		var ty string
		json.Unmarshal(parts[1], &ty)
		if ty != rep {
			return r, fmt.Errorf("result %s: the new value of a place of kind %s has type %s", raw, rep, ty)
		}
		v, err := c02Decode(kind, parts[2])
		if err != nil {
			return r, err
		}
		r.V = v
	case "p", "c":
		if len(parts) != 2 {
			return r, fmt.Errorf("bad result %s", raw)
		}
		json.Unmarshal(parts[1], &r.Cls)
	case "s":
	default:
		return r, fmt.Errorf("bad result tag %s", raw)
	}
	return r, nil
}

// ---------------------------------------------------------------------------------------
// cells and their rendering

type c02Variant struct{ Place, Storage string }

var c02VarStorages = []string{"l0", "c1", "c2", "c3", "c4", "g0", "g1", "g2", "g3", "g4", "b0", "b1", "b2", "b3"}
var c02ContStorages = []string{"g", "f2", "l", "c2"}
var c02ContPlaces = []string{"ptr", "arr", "sl", "map", "fld", "parr", "pfld"}

// c02Variants lists the place variants of an operator (mapmiss: only when the left value is
// the zero value; blank: only plain assignment).
func c02Variants(op string, zero bool) []c02Variant {
	var vs []c02Variant
	for _, s := range c02VarStorages {
		vs = append(vs, c02Variant{"var", s})
	}
	for _, p := range c02ContPlaces {
		for _, s := range c02ContStorages {
			vs = append(vs, c02Variant{p, s})
		}
	}
	if zero {
		for _, s := range c02ContStorages {
			vs = append(vs, c02Variant{"mapmiss", s})
		}
	}
	if op == "set" {
		vs = append(vs, c02Variant{"blank", "g"}, c02Variant{"blank", "l"})
	}
	return vs
}

var c02NVariants = len(c02Variants("add", false))

type c02Cell struct {
	Place   string `json:"place"`
	Storage string `json:"storage"`
	Kind    string `json:"kind"`
	CK      string `json:"ck,omitempty"`
	Op      string `json:"op"`                // set add sub mul quo rem and or xor andnot shl shr inc dec
	Rhs     string `json:"rhs"`               // "v" variable, "c" typed constant, "u" untyped constant, "" (inc / dec)
	IdxForm string `json:"idxform,omitempty"` // "e" evi(i), "c" the literal i
	Idx     int    `json:"idx"`
	A       c02Val `json:"a"`
	B       c02Val `json:"b"`
	Want    c02Res `json:"want"`
}

func (c *c02Cell) rk() string {
	if c.CK != "" {
		return c.CK
	}
	return c.Kind
}

func (c *c02Cell) KindName() string {
	if c.CK != "" {
		return c.Kind + "/" + c.CK
	}
	return c.Kind
}

func (c *c02Cell) rhsShape() string {
	switch c.Rhs {
	case "":
		return "-"
	case "u": // an untyped constant is a rendering of the constant right-hand side
		return "c"
	}
	return c.Rhs
}

func (c *c02Cell) Key() string {
	return fmt.Sprintf("%s|%s|%s|%s|%s|%s%d|%x.%x|%s|%x.%x|%s", c.Place, c.Storage, c.KindName(), c.Op, c.Rhs, c.IdxForm, c.Idx,
		c.A.Bits, c.A.Im, c.A.Str, c.B.Bits, c.B.Im, c.B.Str)
}

func (c *c02Cell) CellName() string {
	// (the kind of a shift count selects no specialisation of the assignment: not part of the cell)
	return fmt.Sprintf("cell(%s,%s,%s,%s,%s)", c.Place, c.Storage, c.Kind, c.Op, c.rhsShape())
}

func (c *c02Cell) indexed() bool {
	switch c.Place {
	case "arr", "sl", "map", "mapmiss", "parr":
		return true
	}
	return false
}

var c02OpSym = map[string]string{"set": "=", "add": "+=", "sub": "-=", "mul": "*=", "quo": "/=", "rem": "%=", "and": "&=", "or": "|=",
	"xor": "^=", "andnot": "&^=", "shl": "<<=", "shr": ">>=", "inc": "++", "dec": "--"}

// stmt renders the assignment on the place text with the given right-hand side variable.
func (c *c02Cell) stmt(place, rhsVar string) string {
	if c.Op == "inc" || c.Op == "dec" {
		return place + c02OpSym[c.Op]
	}
	rhs := rhsVar
	switch c.Rhs {
	case "c":
		rhs = c02Lit(c.B)
	case "u":
		rhs = c02Untyped(c.B)
	}
	return place + " " + c02OpSym[c.Op] + " " + rhs
}

func c02Nest(n int, body string) string {
	for i := 0; i < n; i++ {
		body = "func() { " + body + " }()"
	}
	return body
}

// c02NestTop: a statement placed n function levels below the file level.
func c02NestTop(n int, body string) string {
	if n == 0 {
		return body
	}
	return "(func() { " + c02Nest(n-1, body) + " })()"
}

func (c *c02Cell) idxText() string {
	if c.IdxForm == "e" {
		return fmt.Sprintf("evi(%d)", c.Idx)
	}
	return strconv.Itoa(c.Idx)
}

// retShape: what the snippet returns: "" nothing, "val" the place, "arr" the array, "st" the struct
func (c *c02Cell) retShape() string {
	local := c.Storage == "l" || c.Storage == "c2"
	switch {
	case c.Place == "var" && (c.Storage[0] == 'l' || c.Storage[0] == 'c'):
		return "val"
	case c.Place == "arr" && local:
		return "arr"
	case c.Place == "fld" && local:
		return "st"
	}
	return ""
}

// Source renders the snippet evaluated on gomacro (and compiled natively by the gate).
func (c *c02Cell) Source() string {
	k, rk := c.Kind, c.rk()
	withR := c.Rhs == "v"
	depth := func() int { return int(c.Storage[1] - '0') }
	if c.Place == "var" {
		switch c.Storage[0] {
		case 'g':
			return c02NestTop(depth(), c.stmt(c02N("x", k), c02N("r", rk)))
		case 'b':
			return c02NestTop(depth(), c.stmt(c02N("bx", k), c02N("br", rk)))
		}
		params, args := "x "+k, c02N("x", k)
		if withR {
			params += ", r " + rk
			args += ", " + c02N("r", rk)
		}
		return fmt.Sprintf("(func(%s) %s { %s; return x })(%s)", params, k, c02Nest(depth(), c.stmt("x", "r")), args)
	}
	if c.Place == "blank" {
		if c.Storage == "g" {
			return c.stmt("_", c02N("r", rk))
		}
		if withR {
			return fmt.Sprintf("(func(r %s) { _ = r })(%s)", rk, c02N("r", rk))
		}
		return fmt.Sprintf("(func() { %s })()", c.stmt("_", ""))
	}
	// container places: name of the container, its type, the place text over a name
	var cont, ctype string
	var place func(n string) string
	switch c.Place {
	case "ptr":
		cont, ctype, place = "p", "*"+k, func(n string) string { return "*" + n }
	case "arr":
		cont, ctype, place = "a", "[3]"+k, func(n string) string { return n + "[" + c.idxText() + "]" }
	case "sl":
		cont, ctype, place = "s", "[]"+k, func(n string) string { return n + "[" + c.idxText() + "]" }
	case "map", "mapmiss":
		cont, ctype, place = "m", "map[int]"+k, func(n string) string { return n + "[" + c.idxText() + "]" }
	case "fld":
		cont, ctype, place = "st", "c02T_"+k, func(n string) string { return n + ".F" }
	case "parr":
		cont, ctype, place = "pa", "*[3]"+k, func(n string) string { return n + "[" + c.idxText() + "]" }
	case "pfld":
		cont, ctype, place = "ps", "*c02T_"+k, func(n string) string { return n + ".F" }
	}
	switch c.Storage {
	case "g":
		return c.stmt(place(c02N(cont, k)), c02N("r", rk))
	case "f2":
		return c02NestTop(2, c.stmt(place(c02N(cont, k)), c02N("r", rk)))
	}
	n := 0
	if c.Storage == "c2" {
		n = 2
	}
	params, args := cont+" "+ctype, c02N(cont, k)
	if withR {
		params += ", r " + rk
		args += ", " + c02N("r", rk)
	}
	body := c02Nest(n, c.stmt(place(cont), "r"))
	switch c.retShape() {
	case "arr", "st":
		return fmt.Sprintf("(func(%s) %s { %s; return %s })(%s)", params, ctype, body, cont, args)
	}
	return fmt.Sprintf("(func(%s) { %s })(%s)", params, body, args)
}

// armed is the state of the globals before the evaluation: canaries everywhere, a in the place.
func (c *c02Cell) armed() c02State {
	k := c.Kind
	s := c02State{X: c02Canary(k, 0), BX: c02Canary(k, 1), T: c02Canary(k, 2), F: c02Canary(k, 12), H: c02Canary(k, 13), M: map[int]c02Val{}}
	for i := 0; i < 3; i++ {
		s.A[i], s.S[i], s.M[i] = c02Canary(k, 3+i), c02Canary(k, 6+i), c02Canary(k, 9+i)
	}
	s.R, s.BR = c.B, c.B
	if c.Rhs != "v" {
		s.R, s.BR = c02Canary(c.rk(), 14), c02Canary(c.rk(), 15)
	}
	switch c.Place {
	case "var":
		if c.Storage[0] == 'b' {
			s.BX = c.A
		} else {
			s.X = c.A
		}
	case "ptr":
		s.T = c.A
	case "arr", "parr":
		s.A[c.Idx] = c.A
	case "sl":
		s.S[c.Idx] = c.A
	case "map":
		s.M[c.Idx] = c.A
	case "mapmiss":
		delete(s.M, c.Idx)
	case "fld", "pfld":
		s.F = c.A
	}
	return s
}

// expected builds the observation the specification prescribes for the cell.
func (c *c02Cell) expected() c02Obs {
	st := c.armed().clone()
	o := c02Obs{T: "ok"}
	switch c.Want.T {
	case "p":
		o.T, o.Cls = "p", c.Want.Cls
	case "c":
		o.T = "c"
	}
	if c.indexed() && c.IdxForm == "e" && o.T != "c" {
		o.Events = []string{fmt.Sprintf("int:%d", c.Idx)}
	}
	if o.T == "ok" && c.Place != "blank" {
		v := c.Want.V
		switch c.retShape() {
		case "val":
			o.Ret = []c02Val{v}
		case "arr":
			o.Ret = []c02Val{st.A[0], st.A[1], st.A[2]}
			o.Ret[c.Idx] = v
		case "st":
			o.Ret = []c02Val{v, st.H}
		default:
			switch c.Place {
			case "var":
				if c.Storage[0] == 'b' {
					st.BX = v
				} else {
					st.X = v
				}
			case "ptr":
				st.T = v
			case "arr", "parr":
				st.A[c.Idx] = v
			case "sl":
				st.S[c.Idx] = v
			case "map", "mapmiss":
				st.M[c.Idx] = v
			case "fld", "pfld":
				st.F = v
			}
		}
	}
	o.State = st
	return o
}

// c02Judge compares an observation with the expectation: "" or the shape of the disagreement
// and a description.
func c02Judge(want, got c02Obs) (diff, detail string) {
	switch {
	case (want.T == "c") != (got.T == "c"):
		return "compile-differs", ""
	case want.T == "c":
		return "", ""
	case (want.T == "p") != (got.T == "p") || want.Cls != got.Cls:
		return "panic-differs", ""
	}
	if strings.Join(want.Events, ",") != strings.Join(got.Events, ",") {
		if len(want.Events) != len(got.Events) {
			return fmt.Sprintf("index-evaluated-%d-times", len(got.Events)), fmt.Sprintf("evi log: expected %v, observed %v", want.Events, got.Events)
		}
		return "index-operand-differs", fmt.Sprintf("evi log: expected %v, observed %v", want.Events, got.Events)
	}
	if want.T == "ok" {
		if len(want.Ret) != len(got.Ret) {
			return "value-differs", fmt.Sprintf("%d values returned, expected %d", len(got.Ret), len(want.Ret))
		}
		for i := range want.Ret {
			if !want.Ret[i].Equal(got.Ret[i]) {
				return "value-differs", fmt.Sprintf("returned value %d: expected %s(%s), observed %s(%s)", i, want.Ret[i].Kind, want.Ret[i].Text(), got.Ret[i].Kind, got.Ret[i].Text())
			}
		}
	}
	if d := want.State.diff(got.State); d != "" {
		return "value-differs", d
	}
	return "", ""
}

func c02ObsText(o c02Obs) string {
	switch o.T {
	case "c":
		if o.Msg != "" {
			return "compile-time rejection(" + o.Msg + ")"
		}
		return "compile-time rejection"
	case "p":
		if o.Msg != "" && o.Msg != o.Cls {
			return "run-time panic(" + o.Cls + ": " + o.Msg + ")"
		}
		return "run-time panic(" + o.Cls + ")"
	}
	var rs []string
	for _, v := range o.Ret {
		rs = append(rs, v.Text())
	}
	return fmt.Sprintf("completes; returns [%s]; evi log %v", strings.Join(rs, " "), o.Events)
}

// ---------------------------------------------------------------------------------------
// narrow predicates over the specification's cell for deviations found on the pinned tree

func c02ConstZero(v c02Val) bool {
	switch {
	case c02IsCplx(v.Kind):
		return v.Complex() == 0 && !math.Signbit(real(v.Complex())) && !math.Signbit(imag(v.Complex()))
	case c01IsFloat(v.Kind):
		return v.Float() == 0 && !math.Signbit(v.Float())
	}
	return false
}

// c02KnownSig: place shape, operator, kind, rhs shape, constant -> named signature or "".
func c02KnownSig(place, op, kind, rhs string, a, b c02Val, diff string) string {
	nonVar := place != "var" && place != "var-boxed" && place != "blank"
	isConst := rhs == "c" || rhs == "u"
	fl := c01IsFloat(kind) || c02IsCplx(kind)
	switch {
	case op == "quo" && isConst && c01IsInt(kind) && !c01IsSigned(kind) && c01Width(kind) == 64 && b.Bits == ^uint64(0) && diff == "value-differs":
		// fast/var_ops.go varQuoConst: isLiteralNumber(val, -1) is true
		// for the unsigned constant MaxUint64: x /= MaxUint64 is compiled as x = -x
		// (the same test was corrected in binary_ops.go quoPow2 for C01)
		return "SigQuoConstMaxUint64(quo,unsigned-64-bit-kind,c,constant-divisor=MaxUint64):value-differs"
	case place == "mapmiss" && op == "quo" && isConst && c01IsInt(kind) && c02IsPow2Mag(kind, b) && diff == "panic-differs":
		// fast/place_shifts.go placeQuoPow2, map arm: lhs.MapIndex(key) of a missing key is the
		// zero reflect.Value, its Int() / Uint() panics
		return "SigMapMissingKeyQuoPow2(quo,map-place-of-missing-key,c,constant=+-2^k):panic-differs"
	case place == "var-boxed" && op == "quo" && isConst && c01IsInt(kind) && c02IsPow2Mag(kind, b) && diff == "value-differs":
		// fast/var_ops.go varQuoPow2 ignores the storage class: for a boxed variable it updates
		// env.Ints[index] instead of env.Vals[index]
		return "SigVarQuoPow2Boxed(quo,boxed-integer-variable,c,constant=+-2^k):value-differs"
	case place == "mapmiss" && isConst && c02IsIdentity(op, kind, b) && diff == "value-differs":
		// fast/place_ops.go: op= with the identity constant of the operator only evaluates the
		// operands (placeForSideEffects): a missing map key is not created
		return "SigMapMissingKeyIdentityConst(op=,map-place-of-missing-key,c,constant=identity-of-op):key-not-created"
	case nonVar && op == "xor" && diff == "value-differs":
		// fast/place_ops.go setPlace dispatches token.XOR / XOR_ASSIGN to placeAndConst / placeAndExpr
		return "SigPlaceXorCompiledAsAnd(xor,non-variable-place):value-differs"
	case nonVar && (op == "shl" || op == "shr") && diff == "compile-differs":
		// fast/place_ops.go setPlace has no arm for SHL / SHR: "operator <<= is not implemented"
		return "SigPlaceShiftNotImplemented(shl|shr,non-variable-place):compile-differs"
	case fl && op == "mul" && isConst && c02ConstZero(b) && diff == "value-differs":
		return "SigFloatMulConstZero(mul,float-or-complex-kind,c,constant=0):value-differs"
	case fl && (op == "add" || op == "sub") && isConst && c02ConstZero(b) && diff == "value-differs":
		return "SigFloatAddConstZero(add|sub,float-or-complex-kind,c,constant=0,place=-0):value-differs"
	case fl && op == "quo" && isConst && c02ConstZero(b) && diff == "compile-differs":
		return "SigFloatQuoConstZero(quo,float-kind,c,constant-divisor=0):compile-differs"
	}
	return ""
}

// c02IsPow2Mag: |b| is a power of two >= 2 (b of an integer kind)
func c02IsPow2Mag(kind string, b c02Val) bool {
	u := b.Bits
	if c01IsSigned(kind) && b.Signed() < 0 {
		u = uint64(-b.Signed())
	}
	return u >= 2 && u&(u-1) == 0
}

// c02IsIdentity: x op b == x for every x
func c02IsIdentity(op, kind string, b c02Val) bool {
	switch {
	case kind == "string":
		return op == "add" && b.Str == ""
	case c01IsInt(kind) || (op == "shl" || op == "shr"):
		switch op {
		case "add", "sub", "or", "xor", "andnot", "shl", "shr":
			return b.Bits == 0
		case "mul", "quo":
			return b.Bits == 1
		case "and":
			return b.Bits == c01Mask(kind)
		}
	case c01IsFloat(kind):
		return ((op == "mul" || op == "quo") && b.Float() == 1) || ((op == "add" || op == "sub") && c02ConstZero(b))
	case c02IsCplx(kind):
		return ((op == "mul" || op == "quo") && b.Complex() == 1) || ((op == "add" || op == "sub") && c02ConstZero(b))
	}
	return false
}

func c02Sig(c *c02Cell, diff string) string {
	op := c.Op
	b := c.B
	rhs := c.Rhs
	place := c.Place
	if place == "var" && c.Storage[0] == 'b' {
		place = "var-boxed"
	}
	if op == "inc" || op == "dec" {
		// x++ is x += 1 with a constant
		op, rhs = map[string]string{"inc": "add", "dec": "sub"}[op], "c"
	}
	if s := c02KnownSig(place, op, c.Kind, rhs, c.A, b, diff); s != "" {
		return s
	}
	return c.CellName() + ":" + diff
}

// ---------------------------------------------------------------------------------------
// record -> cells

type c02Opts struct {
	all  bool // thorough: every variant for every value pair
	seed int64
}

func c02Hash(parts ...interface{}) uint64 {
	h := fnv.New64a()
	fmt.Fprint(h, parts...)
	return h.Sum64()
}

// c02Expand calls f for every (value cell, variant) of the record to evaluate.
func c02Expand(rec *c02CellRec, o c02Opts, f func(c *c02Cell, first bool)) error {
	ks := rec.Ks
	if len(ks) == 0 {
		ks = []string{rec.K}
	}
	cks := rec.CKs
	if len(cks) == 0 {
		cks = []string{""}
	}
	nb := len(rec.Rows)
	for _, kind := range ks {
		a, err := c02Decode(kind, rec.A)
		if err != nil {
			return err
		}
		// emit: one value cell; pair = position of the value pair in its class (rotation)
		emit := func(op, ck, rhs string, b c02Val, want c02Res, pair, npairs int) {
			if want.T == "s" {
				return
			}
			// a missing key under a statement that panics: compiled Go creates the element before
			// it evaluates the operation, the Go specification does not -- not generated
			vs := c02Variants(op, rec.Z && want.T == "v")
			base := c02Cell{Kind: kind, CK: ck, Op: op, Rhs: rhs, A: a, B: b, Want: want}
			salt := c02Hash(o.seed, kind, ck, op, rhs)
			pick := func(i int) {
				c := base
				c.Place, c.Storage = vs[i].Place, vs[i].Storage
				h := c02Hash(o.seed, c.Key())
				c.Idx = int(h % 3)
				c.IdxForm = "e"
				if (h>>8)%4 == 0 {
					c.IdxForm = "c"
				}
				if rhs == "c" && (h>>16)%3 == 0 && c.Place != "blank" {
					c.Rhs = "u"
				}
				f(&c, i == 0)
			}
			// quick: 2 variants per value pair, thorough: 12 (of about 44), rotating over the
			// pairs of the class; every variant receives at least three value pairs of the class
			n := 2
			if o.all {
				n = 4
			}
			if npairs > 0 && npairs*n < 3*len(vs) {
				n = (3*len(vs) + npairs - 1) / npairs
			}
			if n > len(vs) {
				n = len(vs)
			}
			if npairs == 0 { // simulation: seeded choice
				pair = int(c02Hash(o.seed, kind, ck, op, rhs, a.Bits, a.Im, a.Str, b.Bits, b.Im, b.Str) % 1000003)
			}
			for t := 0; t < n; t++ {
				pick(int((uint64(pair*n+t) + salt) % uint64(len(vs))))
			}
		}
		if len(rec.Inc) == 2 {
			for i, op := range []string{"inc", "dec"} {
				r, err := c02ParseRes(rec.Inc[i], nil, rec.K, kind)
				if err != nil {
					return err
				}
				one := c02V(kind, 1)
				if rec.J > 0 {
					emit(op, "", "", one, r, rec.J-1, nb) // the left value list has about nb entries
				} else {
					emit(op, "", "", one, r, 0, 0)
				}
			}
		}
		for _, ck := range cks {
			bkind := kind
			if ck != "" {
				bkind = ck
			}
			for ri, row := range rec.Rows {
				b, err := c02Decode(bkind, row.B)
				if err != nil {
					return err
				}
				ops := make([]string, 0, len(row.R))
				for op := range row.R {
					ops = append(ops, op)
				}
				sort.Strings(ops)
				npairs := 0
				if rec.J > 0 {
					npairs = nb * nb // the value lists are square (shifts: close enough for the rotation)
				}
				for _, op := range ops {
					rs := row.R[op]
					if len(rs) != 2 {
						return fmt.Errorf("results of %s: %d", op, len(rs))
					}
					v, err := c02ParseRes(rs[0], nil, rec.K, kind)
					if err != nil {
						return err
					}
					cst, err := c02ParseRes(rs[1], &v, rec.K, kind)
					if err != nil {
						return err
					}
					pair := (rec.J-1)*nb + ri
					emit(op, ck, "v", b, v, pair, npairs)
					emit(op, ck, "c", b, cst, pair, npairs)
				}
			}
		}
	}
	return nil
}

// ---------------------------------------------------------------------------------------
// statement sequences

type c02Place struct {
	Sh, N, F string
	I        int
}

func (p *c02Place) UnmarshalJSON(b []byte) error {
	var parts []json.RawMessage
	if err := json.Unmarshal(b, &parts); err != nil || len(parts) != 4 {
		return fmt.Errorf("bad place %s", b)
	}
	json.Unmarshal(parts[0], &p.Sh)
	json.Unmarshal(parts[1], &p.N)
	json.Unmarshal(parts[2], &p.F)
	return json.Unmarshal(parts[3], &p.I)
}

func (p c02Place) MarshalJSON() ([]byte, error) {
	return json.Marshal([]interface{}{p.Sh, p.N, p.F, p.I})
}

type c02Rhs struct {
	F string
	N int
	P c02Place
	V json.RawMessage
}

func (r *c02Rhs) UnmarshalJSON(b []byte) error {
	var parts []json.RawMessage
	if err := json.Unmarshal(b, &parts); err != nil || len(parts) != 4 {
		return fmt.Errorf("bad right-hand side %s", b)
	}
	json.Unmarshal(parts[0], &r.F)
	json.Unmarshal(parts[1], &r.N)
	if err := json.Unmarshal(parts[2], &r.P); err != nil {
		return err
	}
	r.V = append(json.RawMessage(nil), parts[3]...)
	return nil
}

func (r c02Rhs) MarshalJSON() ([]byte, error) {
	return json.Marshal([]interface{}{r.F, r.N, r.P, r.V})
}

type c02Stmt struct {
	T  string     `json:"t"`
	O  string     `json:"o"`
	Ps []c02Place `json:"ps"`
	Rs []c02Rhs   `json:"rs"`
}

type c02SeqRec struct {
	K    string            `json:"k"`
	Ks   []string          `json:"ks"`
	Prog []c02Stmt         `json:"prog"`
	I0   []json.RawMessage `json:"i0"`  // initial store, in the order of c02Locs
	Ab0  []bool            `json:"ab0"` // initially missing: m[0], m[1]
	St   []json.RawMessage `json:"st"`  // final store
	Ab   []bool            `json:"ab"`
	Ix   int               `json:"ix"`
	Log  []int             `json:"log"`
	Pan  string            `json:"pan"`
}

var c02Locs = []string{"v0", "v1", "v2", "v3", "g", "gb", "t", "a0", "a1", "s0", "s1", "m0", "m1", "f", "h"}

var c02Worlds = []string{"nest", "func", "top"}

// c02Seq is one sequence instantiated at a kind and a world.
type c02Seq struct {
	Kind  string     `json:"kind"`
	World string     `json:"world"`
	Rec   *c02SeqRec `json:"rec"`
	init  map[string]c02Val
	final map[string]c02Val
	salt  uint64
	// KeyBox: the index variable ix is a struct c02K{A int} and the map is keyed by c02K, so that
	// the key operand m[ix] is a value gomacro keeps boxed (local worlds only)
	KeyBox bool
}

func newC02Seq(rec *c02SeqRec, kind, world string, seed int64) (*c02Seq, error) {
	s := &c02Seq{Kind: kind, World: world, Rec: rec, init: map[string]c02Val{}, final: map[string]c02Val{}}
	if len(rec.I0) != len(c02Locs) || len(rec.St) != len(c02Locs) || len(rec.Ab0) != 2 || len(rec.Ab) != 2 {
		return nil, fmt.Errorf("bad sequence record: %d initial, %d final locations", len(rec.I0), len(rec.St))
	}
	for i, l := range c02Locs {
		v, err := c02Decode(kind, rec.I0[i])
		if err != nil {
			return nil, err
		}
		s.init[l] = v
		if v, err = c02Decode(kind, rec.St[i]); err != nil {
			return nil, err
		}
		s.final[l] = v
	}
	b, _ := json.Marshal(rec.Prog)
	s.salt = c02Hash(seed, kind, world, string(b))
	s.KeyBox = world != "top" && (s.salt>>40)&1 == 1
	return s, nil
}

// names of the store in a world
func (s *c02Seq) name(l string) string {
	k := s.Kind
	switch l {
	case "g":
		return c02N("g", k)
	case "gb":
		return c02N("gb", k)
	}
	if s.World != "top" {
		return l
	}
	switch l {
	case "v0", "v1", "v2", "v3":
		return c02N("w"+l[1:], k)
	case "ix":
		return "c02wix"
	}
	return c02N("w"+l, k) // t p a s m st
}

func (s *c02Seq) placeText(p c02Place) string {
	io := func() string {
		switch p.F {
		case "e":
			return fmt.Sprintf("evi(%d)", p.I)
		case "x":
			return "evi(" + s.ixInt() + ")"
		case "v":
			return s.ixInt()
		}
		return strconv.Itoa(p.I)
	}
	key := func() string {
		if !s.KeyBox {
			return io()
		}
		if p.F == "v" {
			return s.name("ix") // the variable itself is the key operand
		}
		return "c02K{" + io() + "}"
	}
	switch p.Sh {
	case "var":
		return s.name(p.N)
	case "ptr":
		return "*" + s.name("p")
	case "arr":
		return s.name("a") + "[" + io() + "]"
	case "sl":
		return s.name("s") + "[" + io() + "]"
	case "map":
		return s.name("m") + "[" + key() + "]"
	case "fld":
		return s.name("st") + "." + strings.ToUpper(p.N)
	case "ix":
		return s.ixInt() // (with KeyBox the field of the struct variable: it is changed in place)
	}
	return "_"
}

// ixInt: the int value of the index variable
func (s *c02Seq) ixInt() string {
	if s.KeyBox {
		return s.name("ix") + ".A"
	}
	return s.name("ix")
}

// untyped: is the constant right-hand side number i of statement j rendered as an untyped
// constant?  Never when it is assigned to the blank identifier: `_ = c` gives c its default type
// (int, float64, ...), in which a value of the kind need not be representable.
func (s *c02Seq) untyped(st c02Stmt, j, i int) bool {
	if i < len(st.Ps) && st.Ps[i].Sh == "blank" {
		return false
	}
	return (s.salt>>uint((j*4+i)%32))&3 == 0
}

func (s *c02Seq) rhsText(r c02Rhs, untyped bool) (string, error) {
	switch r.F {
	case "const":
		v, err := c02Decode(s.Kind, r.V)
		if err != nil {
			return "", err
		}
		if untyped {
			return c02Untyped(v), nil
		}
		return c02Lit(v), nil
	case "read":
		return s.placeText(r.P), nil
	case "int":
		return strconv.Itoa(r.N), nil
	case "ixr":
		return s.ixInt(), nil
	}
	return "", fmt.Errorf("right-hand side %q", r.F)
}

func (s *c02Seq) stmtText(st c02Stmt, j int) (string, error) {
	ps := make([]string, len(st.Ps))
	for i, p := range st.Ps {
		ps[i] = s.placeText(p)
	}
	rs := make([]string, len(st.Rs))
	for i, r := range st.Rs {
		t, err := s.rhsText(r, s.untyped(st, j, i))
		if err != nil {
			return "", err
		}
		rs[i] = t
	}
	switch st.T {
	case "asg", "multi":
		return strings.Join(ps, ", ") + " = " + strings.Join(rs, ", "), nil
	case "op":
		return ps[0] + " " + c02OpSym[st.O] + " " + rs[0], nil
	case "inc":
		if st.O == "add" {
			return ps[0] + "++", nil
		}
		return ps[0] + "--", nil
	}
	return "", fmt.Errorf("statement %q", st.T)
}

func (s *c02Seq) stateArgs() string {
	var parts []string
	for _, l := range []string{"v0", "v1", "v2", "v3", "g", "gb", "t", "a", "s", "m", "st"} {
		parts = append(parts, s.name(l))
	}
	parts = append(parts, s.ixInt())
	return strings.Join(parts, ", ")
}

// c02SeqProg is the rendered program: Arm (file-level world only), Body, and in the file-level
// world the final ev() call as a separate statement.
type c02SeqProg struct {
	Arm, Body, Final string
}

func (s *c02Seq) render() (c02SeqProg, error) {
	k := s.Kind
	var stmts []string
	for j, st := range s.Rec.Prog {
		t, err := s.stmtText(st, j)
		if err != nil {
			return c02SeqProg{}, err
		}
		stmts = append(stmts, t)
	}
	lit := func(l string) string { return c02Lit(s.init[l]) }
	mapLit := "map[int]" + k + "{"
	ix0 := "0"
	if s.KeyBox {
		mapLit = "map[c02K]" + k + "{"
		ix0 = "c02K{0}"
	}
	for i, l := range []string{"m0", "m1"} {
		if !s.Rec.Ab0[i] {
			if !strings.HasSuffix(mapLit, "{") {
				mapLit += ", "
			}
			if s.KeyBox {
				mapLit += fmt.Sprintf("c02K{%d}: %s", i, lit(l))
			} else {
				mapLit += fmt.Sprintf("%d: %s", i, lit(l))
			}
		}
	}
	mapLit += "}"
	arrLit := fmt.Sprintf("[2]%s{%s, %s}", k, lit("a0"), lit("a1"))
	slLit := fmt.Sprintf("[]%s{%s, %s}", k, lit("s0"), lit("s1"))
	stLit := fmt.Sprintf("c02T_%s{F: %s, H: %s}", k, lit("f"), lit("h"))
	final := "ev(" + s.stateArgs() + ")"
	body := strings.Join(stmts, "; ")
	switch s.World {
	case "top":
		arm := []string{}
		for _, l := range []string{"v0", "v1", "v2", "v3", "t"} {
			arm = append(arm, s.name(l)+" = "+lit(l))
		}
		arm = append(arm, s.name("p")+" = &"+s.name("t"), s.name("a")+" = "+arrLit, s.name("s")+" = "+slLit,
			s.name("m")+" = "+mapLit, s.name("st")+" = "+stLit, s.name("ix")+" = 0")
		return c02SeqProg{Arm: strings.Join(arm, "; "), Body: body, Final: final}, nil
	case "func":
		decl := ""
		for _, l := range []string{"v0", "v1", "v2", "v3", "t"} {
			decl += fmt.Sprintf("var %s %s = %s; ", l, k, lit(l))
		}
		decl += fmt.Sprintf("p := &t; a := %s; s := %s; m := %s; st := %s; ix := %s; _ = p; ", arrLit, slLit, mapLit, stLit, ix0)
		return c02SeqProg{Body: "(func() { " + decl + "defer func() { " + final + " }(); " + body + " })()"}, nil
	}
	// nest: v3 and the containers three levels above the statements, v2 two, v1 one, v0 none
	inner := fmt.Sprintf("var v0 %s = %s; defer func() { %s }(); %s", k, lit("v0"), final, body)
	l1 := fmt.Sprintf("var v1 %s = %s; func() { %s }()", k, lit("v1"), inner)
	l2 := fmt.Sprintf("var v2 %s = %s; func() { %s }()", k, lit("v2"), l1)
	l3 := fmt.Sprintf("var v3 %s = %s; var t %s = %s; p := &t; a := %s; s := %s; m := %s; st := %s; ix := %s; _ = p; func() { %s }()",
		k, lit("v3"), k, lit("t"), arrLit, slLit, mapLit, stLit, ix0, l2)
	return c02SeqProg{Body: "(func() { " + l3 + " })()"}, nil
}

// expected events: the evi log, then the final store as projected by ev()
func (s *c02Seq) expectedEvents() []string {
	var evs []string
	for _, n := range s.Rec.Log {
		evs = append(evs, fmt.Sprintf("int:%d", n))
	}
	f := func(l string) string { return c02Show(s.final[l]) }
	var m []string
	for i, l := range []string{"m0", "m1"} {
		if !s.Rec.Ab[i] {
			if s.KeyBox {
				m = append(m, fmt.Sprintf("{int:%d}=>%s", i, f(l)))
			} else {
				m = append(m, fmt.Sprintf("int:%d=>%s", i, f(l)))
			}
		}
	}
	parts := []string{f("v0"), f("v1"), f("v2"), f("v3"), f("g"), f("gb"), f("t"),
		"[" + f("a0") + " " + f("a1") + "]", "[" + f("s0") + " " + f("s1") + "]", "map[" + strings.Join(m, " ") + "]",
		"{" + f("f") + " " + f("h") + "}", fmt.Sprintf("int:%d", s.Rec.Ix)}
	return append(evs, strings.Join(parts, " "))
}

func (s *c02Seq) expectedPanic() string {
	if s.Rec.Pan == "" {
		return ""
	}
	return "error:" + s.Rec.Pan
}

// c02SeqObs: what a run of a sequence shows
type c02SeqObs struct {
	Panic  string // "" or the projected panic
	Events []string
}

func c02SeqJudge(s *c02Seq, got c02SeqObs) (diff, detail string) {
	wantP := s.expectedPanic()
	want := s.expectedEvents()
	if wantP != got.Panic {
		if strings.HasPrefix(got.Panic, "compile:") {
			return "compile-differs", "gomacro: " + got.Panic
		}
		return "panic-differs", fmt.Sprintf("expected panic %q, observed %q", wantP, got.Panic)
	}
	if len(got.Events) == 0 {
		return "store-differs", "no final store observed"
	}
	if strings.Join(want[:len(want)-1], ",") != strings.Join(got.Events[:len(got.Events)-1], ",") {
		return "log-differs", fmt.Sprintf("evi log: expected %v, observed %v", want[:len(want)-1], got.Events[:len(got.Events)-1])
	}
	if want[len(want)-1] != got.Events[len(got.Events)-1] {
		return "store-differs", fmt.Sprintf("final store (v0 v1 v2 v3 g gb t a s m st ix):\n  expected %s\n  observed %s", want[len(want)-1], got.Events[len(got.Events)-1])
	}
	return "", ""
}

func (s *c02Seq) shapeOf(st c02Stmt) string {
	var ps, rs []string
	for _, p := range st.Ps {
		t := p.Sh
		if p.Sh == "arr" || p.Sh == "sl" || p.Sh == "map" {
			t += "." + p.F
		}
		ps = append(ps, t)
	}
	for _, r := range st.Rs {
		t := r.F
		if r.F == "read" {
			t += "." + r.P.Sh
		}
		rs = append(rs, t)
	}
	return st.T + "." + st.O + "(" + strings.Join(ps, ",") + "=" + strings.Join(rs, ",") + ")"
}

// c02SeqSig: a known narrow predicate met by a statement of the sequence, else the sequence's shape.
func c02SeqSig(s *c02Seq, diff string) string {
	for _, st := range s.Rec.Prog {
		if st.T == "multi" && len(st.Ps) == 2 && (st.Ps[0].Sh == "blank" || st.Ps[1].Sh == "blank") &&
			(st.Rs[0].F != "const" || st.Rs[1].F != "const") && diff == "panic-differs" {
			// fast/assignment.go assign2 calls the nil setter of the blank identifier
			return "SigAssign2Blank(multi,two-places,one-blank,non-constant-rhs):panic-differs"
		}
		if st.T != "op" {
			continue
		}
		p := st.Ps[0]
		place := p.Sh
		if p.Sh == "var" && (p.N == "gb" || (p.N == "t" && s.World == "top")) {
			place = "var-boxed" // (in the file-level world t is declared after the integer slots were used up)
		}
		if p.Sh == "map" && len(s.Rec.Ab0) == 2 && s.Rec.Ab0[1] && (p.F == "x" || p.I == 1) {
			place = "mapmiss" // (possibly: the key may have been created by an earlier statement)
		}
		rhs := "v"
		var b c02Val
		if st.Rs[0].F == "const" {
			rhs = "c"
			b, _ = c02Decode(s.Kind, st.Rs[0].V)
		} else if st.Rs[0].F == "int" {
			rhs = "c"
		}
		// a statement that meets a named predicate makes the rest of the sequence diverge in
		// any way: the sequence is attributed to the predicate whatever the shape observed
		for _, cdiff := range []string{"value-differs", "compile-differs", "panic-differs"} {
			if sig := c02KnownSig(place, st.O, s.Kind, rhs, c02Val{}, b, cdiff); sig != "" {
				return sig
			}
		}
	}
	last := s.Rec.Prog[len(s.Rec.Prog)-1]
	return fmt.Sprintf("seq(%s,%s,len=%d,last=%s):%s", s.World, s.Kind, len(s.Rec.Prog), s.shapeOf(last), diff)
}

func (s *c02Seq) Key() string {
	p, _ := s.render()
	return s.Kind + "|" + s.World + "|" + p.Body
}

// runSeq replays a sequence on the interpreter.
func (e *c02Env) runSeq(s *c02Seq) (c02SeqObs, error) {
	p, err := s.render()
	if err != nil {
		return c02SeqObs{}, err
	}
	c02SetRV(e.at("g", s.Kind), s.init["g"])
	c02SetRV(e.at("gb", s.Kind), s.init["gb"])
	e.g.ResetEvents()
	var obs c02SeqObs
	if s.World == "top" {
		if r := e.g.Eval(p.Arm); r.Panicked {
			return obs, core.Infra("C02: arming the file-level store failed: %s: %s", p.Arm, r.Panic)
		}
		e.g.ResetEvents()
	}
	// compile and run separately: a panic of the compiler is a rejection, not a run-time panic
	var expr *fast.Expr
	func() {
		defer func() {
			if r := recover(); r != nil {
				obs.Panic = "compile:" + c01Trunc(fmt.Sprint(r))
			}
		}()
		expr = e.g.Ir.Compile(p.Body)
	}()
	if obs.Panic == "" {
		func() {
			defer func() {
				if r := recover(); r != nil {
					obs.Panic = show.ShowPanic(r)
				}
			}()
			e.g.Ir.RunExpr(expr)
		}()
	}
	if s.World == "top" {
		if r2 := e.g.Eval(p.Final); r2.Panicked {
			return obs, core.Infra("C02: reading the file-level store failed: %s", r2.Panic)
		}
	}
	for _, ev := range e.g.Events {
		obs.Events = append(obs.Events, c02NormEvent(ev))
	}
	e.g.Out.Reset()
	return obs, nil
}

// ---------------------------------------------------------------------------------------
// run

type c02Stats struct {
	mu      sync.Mutex
	cells   map[string]int // (place, storage, kind, op, rhs) -> value pairs evaluated
	byFile  map[string]map[string]bool
	byClass map[string]int64
	byPlace map[string]int64
	seqs    map[string]int64 // world -> sequences
	seqLen  map[int]int64
	seqPan  map[string]int64
}

func newC02Stats() *c02Stats {
	return &c02Stats{cells: map[string]int{}, byFile: map[string]map[string]bool{}, byClass: map[string]int64{}, byPlace: map[string]int64{},
		seqs: map[string]int64{}, seqLen: map[int]int64{}, seqPan: map[string]int64{}}
}

// c02File names the generated file whose specialisation a cell reaches.
func c02File(c *c02Cell) string {
	v := c.Place == "var"
	switch {
	case c.Place == "blank":
		return "fast/assignment.go"
	case c.Op == "set" && v:
		return "fast/var_set.go"
	case c.Op == "set":
		return "fast/place_set.go"
	case (c.Op == "shl" || c.Op == "shr") && v:
		return "fast/var_shifts.go"
	case c.Op == "shl" || c.Op == "shr":
		return "fast/place_shifts.go"
	case v:
		return "fast/var_ops.go"
	}
	return "fast/place_ops.go"
}

func (s *c02Stats) note(c *c02Cell) {
	s.cells[c.CellName()]++
	f := c02File(c)
	if s.byFile[f] == nil {
		s.byFile[f] = map[string]bool{}
	}
	s.byFile[f][c.CellName()] = true
	s.byPlace[c.Place]++
	switch c.Want.T {
	case "v":
		s.byClass["value"]++
	case "p":
		s.byClass["panic:"+c.Want.Cls]++
	case "c":
		s.byClass["compile-error:"+c.Want.Cls]++
	}
}

func (s *c02Stats) merge(o *c02Stats) {
	s.mu.Lock()
	defer s.mu.Unlock()
	for k, v := range o.cells {
		s.cells[k] += v
	}
	for f, m := range o.byFile {
		if s.byFile[f] == nil {
			s.byFile[f] = map[string]bool{}
		}
		for k := range m {
			s.byFile[f][k] = true
		}
	}
	for k, v := range o.byClass {
		s.byClass[k] += v
	}
	for k, v := range o.byPlace {
		s.byPlace[k] += v
	}
	for k, v := range o.seqs {
		s.seqs[k] += v
	}
	for k, v := range o.seqLen {
		s.seqLen[k] += v
	}
	for k, v := range o.seqPan {
		s.seqPan[k] += v
	}
}

// c02Confirm rations the re-runs in a fresh interpreter (the first two disagreements of every
// signature, at most 24 per run: a fresh interpreter costs about a second).
type c02Confirm struct {
	mu    sync.Mutex
	bySig map[string]int
	n     int
}

func (k *c02Confirm) take(sig string) bool {
	k.mu.Lock()
	defer k.mu.Unlock()
	if k.bySig[sig] >= 2 || k.n >= 24 {
		return false
	}
	k.bySig[sig]++
	k.n++
	return true
}

type c02Runner struct {
	c       *core.Ctx
	env     *c02Env
	opts    c02Opts
	stats   *c02Stats
	used    int
	gate    *c02GateSampler
	confirm *c02Confirm

	err                              error
	gateChecked, gateRejects, traces int64
}

const c02Reuse = 40000

func (r *c02Runner) interp() (*c02Env, error) {
	if r.env == nil || r.used >= c02Reuse {
		e, err := newC02Env()
		if err != nil {
			return nil, err
		}
		r.env, r.used = e, 0
	}
	return r.env, nil
}

var c02GateShown int64

func (r *c02Runner) cellRecord(rec *c02CellRec) {
	var nat c02NatRes
	var natKey string
	err := c02Expand(rec, r.opts, func(cell *c02Cell, first bool) {
		if r.err != nil {
			return
		}
		// Go gate, part 1: the real operator on a native place of the same shape
		k := cell.Place + "|" + cell.KindName() + "|" + cell.Op + "|" + cell.A.Text() + "|" + cell.B.Text() + "|" + strconv.Itoa(cell.Idx)
		if k != natKey {
			nat, natKey = c02Native(cell), k
		}
		r.gateChecked++
		if why := c02GateCheck(cell, nat); why != "" {
			r.gateRejects++
			if n := atomic.AddInt64(&c02GateShown, 1); n <= 5 {
				fmt.Printf("GATE-REJECT property=C02 (specification disagrees with native Go; cell dropped): %s %s: specification %s; %s\n",
					cell.Source(), c02Operands(cell), cell.Want, why)
			}
			return
		}
		r.evalCell(cell)
	})
	if err != nil && r.err == nil {
		r.err = core.Infra("bad record from TLC: %v", err)
	}
}

func c02Operands(c *c02Cell) string {
	if c.Op == "inc" || c.Op == "dec" {
		return fmt.Sprintf("place=%s(%s)", c.Kind, c.A.Text())
	}
	return fmt.Sprintf("place=%s(%s) rhs=%s(%s)", c.Kind, c.A.Text(), c.rk(), c.B.Text())
}

func (r *c02Runner) evalCell(cell *c02Cell) {
	if r.gate != nil {
		r.gate.offerCell(cell)
	}
	env, err := r.interp()
	if err != nil {
		r.err = err
		return
	}
	r.used++
	want := cell.expected()
	env.arm(cell.Kind, cell.rk(), cell.armed())
	got := env.run(cell.Source(), cell.Kind, cell.rk())
	r.c.Case(cell.Key(), true)
	r.traces++
	r.stats.note(cell)
	diff, detail := c02Judge(want, got)
	if diff == "" {
		return
	}
	sig := c02Sig(cell, diff)
	if r.confirm.take(sig) {

		fresh, err := newC02Env()
		if err != nil {
			r.err = err
			return
		}
		fresh.arm(cell.Kind, cell.rk(), cell.armed())
		got2 := fresh.run(cell.Source(), cell.Kind, cell.rk())
		diff2, detail2 := c02Judge(want, got2)
		if diff2 == "" {
			r.err = core.Infra("disagreement not reproducible in a fresh interpreter: %s %s: specification %s, first observed %s (%s)",
				cell.Source(), c02Operands(cell), cell.Want, c02ObsText(got), detail)
			return
		}
		got, diff, detail = got2, diff2, detail2
		sig = c02Sig(cell, diff)
	}
	what := fmt.Sprintf("%s   with %s\n  specification (= compiled Go): %s\n  gomacro: %s", cell.Source(), c02Operands(cell), cell.Want, c02ObsText(got))
	if detail != "" {
		what += "\n  " + detail
	}
	r.c.Violation(sig, what, c02Replay{Cell: cell, Source: cell.Source(), Expected: cell.Want.String(), Observed: c02ObsText(got)})
}

func (r *c02Runner) seqRecord(rec *c02SeqRec) {
	kinds := rec.Ks
	if len(kinds) == 0 {
		kinds = []string{rec.K}
	}
	body, _ := json.Marshal(rec.Prog)
	h := c02Hash(r.opts.seed, rec.K, string(body))
	worlds := c02Worlds
	// the kind a record of a 64-bit representative is instantiated at is chosen by the seed;
	// quick: one world per sequence, thorough: all three
	kinds = []string{kinds[h%uint64(len(kinds))]}
	// thorough: the random sequences of length 12 in all three worlds
	if !r.opts.all || len(rec.Prog) <= 3 {
		worlds = []string{c02Worlds[(h>>8)%uint64(len(c02Worlds))]}
	}
	for _, kind := range kinds {
		for _, w := range worlds {
			if r.err != nil {
				return
			}
			s, err := newC02Seq(rec, kind, w, r.opts.seed)
			if err != nil {
				r.err = core.Infra("bad record from TLC: %v", err)
				return
			}
			r.evalSeq(s)
		}
	}
}

func (r *c02Runner) evalSeq(s *c02Seq) {
	if r.gate != nil {
		r.gate.offerSeq(s)
	}
	env, err := r.interp()
	if err != nil {
		r.err = err
		return
	}
	r.used += 3
	got, err := env.runSeq(s)
	if err != nil {
		r.err = err
		return
	}
	r.c.Case(s.Key(), true)
	r.traces++
	r.stats.seqs[s.World]++
	r.stats.seqLen[len(s.Rec.Prog)]++
	r.stats.seqPan["panic:"+s.Rec.Pan]++
	diff, detail := c02SeqJudge(s, got)
	if diff == "" {
		return
	}
	sig := c02SeqSig(s, diff)
	if r.confirm.take(sig) {

		fresh, err := newC02Env()
		if err != nil {
			r.err = err
			return
		}
		got2, err := fresh.runSeq(s)
		if err != nil {
			r.err = err
			return
		}
		diff2, detail2 := c02SeqJudge(s, got2)
		if diff2 == "" {
			r.err = core.Infra("disagreement not reproducible in a fresh interpreter: %s (%s)", s.Key(), detail)
			return
		}
		diff, detail = diff2, detail2
		sig = c02SeqSig(s, diff)
	}
	p, _ := s.render()
	what := fmt.Sprintf("%s %s\n  %s", p.Arm, p.Body, detail)
	r.c.Violation(sig, what, c02Replay{Seq: s, Source: p.Arm + " " + p.Body, Expected: strings.Join(s.expectedEvents(), " | ") + " panic=" + s.expectedPanic(), Observed: detail})
}

type c02Replay struct {
	Cell     *c02Cell `json:"cell,omitempty"`
	Seq      *c02Seq  `json:"seq,omitempty"`
	Source   string   `json:"source"`
	Expected string   `json:"expected"`
	Observed string   `json:"observed"`
}

func c02Cfg(mode string, level int, rot int64, broken string, maxLen, alphaN int, invs string) string {
	return fmt.Sprintf("SPECIFICATION Spec\nCONSTANTS\n Mode = %q\n Level = %d\n Rot = %d\n Broken = %q\n NRows = 3\n SeqKinds <- c_SeqKinds\n MaxLen = %d\n AlphaN = %d\nINVARIANTS %s\n",
		mode, level, rot, broken, maxLen, alphaN, invs)
}

func c02KindsDef(kinds []string) string {
	q := make([]string, len(kinds))
	for i, k := range kinds {
		q[i] = strconv.Quote(k)
	}
	return "c_SeqKinds == <<" + strings.Join(q, ", ") + ">>"
}

var c02RepKinds = []string{"int8", "int16", "int32", "int64", "uint8", "uint16", "uint32", "uint64", "float32", "float64", "complex64", "complex128", "string", "bool"}

// c02QuickKinds: the kinds of the breadth-first sequences of the quick tier (by seed).
func c02QuickKinds(seed int64) []string {
	u := uint64(seed)
	other := []string{"float32", "float64", "complex64", "complex128"}
	last := []string{"string", "bool"}
	return []string{c02RepKinds[u%8], other[(u/8)%4], last[(u/32)%2]}
}

func runC02(c *core.Ctx) error {
	tStart := time.Now()
	level := c.Pick(1, 2)
	c.MaxViolations = 40
	tlcWorkers := c.Pick(3, 5)
	nw := runtime.NumCPU()
	if nw > c.Pick(8, 14) {
		nw = c.Pick(8, 14)
	}
	stats := newC02Stats()
	gate := newC02GateSampler(c)
	recs := make(chan []byte, 1<<16)
	var wg sync.WaitGroup
	var emu sync.Mutex
	var firstErr error
	setErr := func(err error) {
		emu.Lock()
		if firstErr == nil && err != nil {
			firstErr = err
		}
		emu.Unlock()
	}
	var nrec int64
	confirm := &c02Confirm{bySig: map[string]int{}}
	for w := 0; w < nw; w++ {
		wg.Add(1)
		go func() {
			defer wg.Done()
			r := &c02Runner{c: c, opts: c02Opts{all: c.Thorough(), seed: c.Seed}, stats: newC02Stats(), gate: gate, confirm: confirm}
			for line := range recs {
				if r.err != nil {
					continue
				}
				if bytes.Contains(line, []byte(`"prog":`)) {
					var rec c02SeqRec
					if err := json.Unmarshal(line, &rec); err != nil {
						r.err = core.Infra("bad sequence record from TLC: %v", err)
						continue
					}
					if n := atomic.AddInt64(&nrec, 1); n%997 == 1 {
						c.Sample(c02SeqSample(&rec, c.Seed))
					}
					r.seqRecord(&rec)
					continue
				}
				var rec c02CellRec
				if err := json.Unmarshal(line, &rec); err != nil {
					r.err = core.Infra("bad cell record from TLC: %v", err)
					continue
				}
				if n := atomic.AddInt64(&nrec, 1); n%97 == 1 {
					c.Sample(c02CellSample(&rec, r.opts))
				}
				r.cellRecord(&rec)
			}
			stats.merge(r.stats)
			emu.Lock()
			c.GateChecked += r.gateChecked
			c.GateRejects += r.gateRejects
			c.TracesVsImpl += r.traces
			emu.Unlock()
			setErr(r.err)
		}()
	}
	feed := func(line []byte) { recs <- append([]byte(nil), line...) }
	rot := c.Seed % 1000
	if rot < 0 {
		rot = -rot
	}
	seqKinds := c02RepKinds
	if !c.Thorough() {
		seqKinds = c02QuickKinds(c.Seed)
	}
	noSeq := c02KindsDef([]string{"bool"})
	// TLC is throttled by the replay (its output pipe blocks when the record queue is full):
	// the timeout bounds enumeration + replay on a machine shared with other checks
	tlcTimeout := time.Duration(c.Pick(14, 28)) * time.Minute

	var mwg sync.WaitGroup
	// VERIF_C02_PART="laws-m,cells-sim,seq-sim,seq-bfs,cells-bfs" restricts the run to some of its
	// TLC runs (development aid)
	part := os.Getenv("VERIF_C02_PART")
	bg := func(o core.TLCOpts) {
		if part != "" && !strings.Contains(","+part+",", ","+o.CfgName+",") {
			return
		}
		mwg.Add(1)
		go func() {
			defer mwg.Done()
			_, err := c.TLC(o)
			setErr(err)
		}()
	}
	// (M) the laws, on every statement of the kinds at every store reachable in MaxLen steps
	lawKinds := c02QuickKinds(c.Seed)
	simKinds := append(append([]string{}, lawKinds...), c02QuickKinds(c.Seed + 13)[:2]...)
	if c.Thorough() {
		simKinds = c02RepKinds
	} else {
		lawKinds = lawKinds[:2]
	}
	bg(core.TLCOpts{Spec: "Places", CfgName: "laws-m", MCDefs: c02KindsDef(lawKinds),
		Cfg: c02Cfg("m", level, rot, "none", c.Pick(1, 2), c.Pick(16, 4), "TypeOK LawsOK"), Workers: c.Pick(3, 4), Timeout: tlcTimeout})
	// (R) random value cells
	bg(core.TLCOpts{Spec: "Places", CfgName: "cells-sim", MCDefs: noSeq, Cfg: c02Cfg("cellsim", level, rot, "none", 1, 10, "TypeOK Emit"),
		Simulate: true, SimNum: c.Pick(1, 3), SimDepth: 80, Seed: c.Seed, Workers: c.Pick(2, 4), Timeout: tlcTimeout, OnLine: feed})
	// (R) random statement sequences of length 12 over all kinds
	bg(core.TLCOpts{Spec: "Places", CfgName: "seq-sim", MCDefs: c02KindsDef(simKinds), Cfg: c02Cfg("seqsim", level, rot, "none", 12, 10, "TypeOK Emit"),
		Simulate: true, SimNum: c.Pick(300, 1500), SimDepth: 14, Seed: c.Seed, Workers: c.Pick(2, 4), Timeout: tlcTimeout, OnLine: feed})
	// (R) statement sequences, breadth-first
	bg(core.TLCOpts{Spec: "Places", CfgName: "seq-bfs", MCDefs: c02KindsDef(seqKinds), Cfg: c02Cfg("seq", level, rot, "none", 3, c.Pick(14, 12), "TypeOK Emit"),
		Workers: tlcWorkers, Timeout: tlcTimeout, OnLine: feed})
	// (R) value cells over the boundary lists
	bg(core.TLCOpts{Spec: "Places", CfgName: "cells-bfs", MCDefs: noSeq, Cfg: c02Cfg("cells", level, rot, "none", 1, 10, "TypeOK Emit"),
		Workers: tlcWorkers, Timeout: tlcTimeout, OnLine: feed})
	mwg.Wait()
	close(recs)
	wg.Wait()
	if firstErr != nil {
		return firstErr
	}
	tReplayed := time.Since(tStart)
	if err := gate.runGate(); err != nil {
		return err
	}
	c.Extra["phase_seconds"] = map[string]float64{"tlc_and_replay": tReplayed.Seconds(), "compile_gate": (time.Since(tStart) - tReplayed).Seconds()}
	c.Exhaustive = false
	files := map[string]int{}
	for f, m := range stats.byFile {
		files[f] = len(m)
	}
	few := 0
	fewBy := map[string]int{}
	for name, n := range stats.cells {
		if n < 3 {
			few++
			parts := strings.Split(strings.TrimSuffix(strings.TrimPrefix(name, "cell("), ")"), ",")
			fewBy[parts[0]+","+parts[3]]++ // by (place shape, operator)
		}
	}
	c.Extra["cells_with_fewer_than_3_value_pairs_by_place_and_operator"] = fewBy
	c.Extra["cells_by_file"] = files
	c.Extra["cells_total"] = len(stats.cells)
	c.Extra["cells_with_fewer_than_3_value_pairs"] = few
	c.Extra["evaluations_by_place"] = stats.byPlace
	c.Extra["evaluations_by_expected_class"] = stats.byClass
	c.Extra["sequences_by_world"] = stats.seqs
	c.Extra["sequences_by_length"] = stats.seqLen
	c.Extra["sequences_by_outcome"] = stats.seqPan
	c.Extra["compile_gate"] = map[string]int{"cells": gate.cellsChecked, "sequences": gate.seqsChecked, "rendering_shapes": gate.shapes()}
	c.Assume("platform pinned to amd64 (int, uint, uintptr are 64-bit)")
	c.Assume("floating point on the exact sub-domain of FloatD.tla; complex kinds on finite values whose every partial result is exact, division only by positive real divisors; NaN payload bits not compared")
	c.Assume("index operands stay in range, maps and pointers are not nil: index-out-of-range / nil-map / nil-pointer panics inside assignments are not generated")
	c.Assume("a panic raised while gomacro compiles a snippet counts as a compile-time rejection whatever its message")
	c.Assume("places of composite element type are not generated")
	return nil
}

func c02CellSample(rec *c02CellRec, o c02Opts) interface{} {
	var out []map[string]string
	n := 0
	c02Expand(rec, o, func(c *c02Cell, first bool) {
		n++
		if len(out) < 3 && n%17 == 5 {
			out = append(out, map[string]string{"snippet": c.Source(), "operands": c02Operands(c), "cell": c.CellName(), "expected": c.Want.String()})
		}
	})
	return map[string]interface{}{"kinds": rec.Ks, "count_kinds": rec.CKs, "evaluations_from_record": n, "cells": out}
}

func c02SeqSample(rec *c02SeqRec, seed int64) interface{} {
	s, err := newC02Seq(rec, rec.K, "nest", seed)
	if err != nil {
		return err.Error()
	}
	p, _ := s.render()
	return map[string]interface{}{"kind": rec.K, "program": p.Body, "expected_events": s.expectedEvents(), "expected_panic": s.expectedPanic()}
}

func replayC02(c *core.Ctx, raw json.RawMessage) error {
	var rp c02Replay
	if err := json.Unmarshal(raw, &rp); err != nil {
		return err
	}
	env, err := newC02Env()
	if err != nil {
		return err
	}
	if rp.Seq != nil {
		s, err := newC02Seq(rp.Seq.Rec, rp.Seq.Kind, rp.Seq.World, c.Seed)
		if err != nil {
			return err
		}
		got, err := env.runSeq(s)
		if err != nil {
			return err
		}
		p, _ := s.render()
		diff, detail := c02SeqJudge(s, got)
		fmt.Printf("replay: %s %s\n  expected events %v panic %q\n  gomacro  events %v panic %q\n", p.Arm, p.Body, s.expectedEvents(), s.expectedPanic(), got.Events, got.Panic)
		if diff != "" {
			c.Violation(c02SeqSig(s, diff), "replayed sequence disagrees: "+detail, rp)
		}
		return nil
	}
	if rp.Cell == nil {
		return core.Infra("replay file has neither a cell nor a sequence")
	}
	cell := rp.Cell
	if why := c02GateCheck(cell, c02Native(cell)); why != "" {
		return core.Infra("stored expectation %s disagrees with native Go: %s", cell.Want, why)
	}
	env.arm(cell.Kind, cell.rk(), cell.armed())
	got := env.run(cell.Source(), cell.Kind, cell.rk())
	diff, detail := c02Judge(cell.expected(), got)
	fmt.Printf("replay: %s   with %s\n  specification (= compiled Go): %s\n  gomacro: %s %s\n", cell.Source(), c02Operands(cell), cell.Want, c02ObsText(got), detail)
	if diff != "" {
		c.Violation(c02Sig(cell, diff), "replayed cell disagrees", rp)
	}
	return nil
}

func selfTestC02(c *core.Ctx) error {
	// 1. broken variants of the specification must be rejected by TLC
	kinds := c02KindsDef([]string{"int8", "string"})
	for _, b := range []struct{ broken, what string }{
		{"idx2", "op= evaluating the operands of the place twice"},
		{"ltr", "multi-assignment carried out pair by pair"}} {
		r, err := c.TLC(core.TLCOpts{Spec: "Places", CfgName: "broken-" + b.broken, MCDefs: kinds,
			Cfg: c02Cfg("m", 1, 1, b.broken, 1, 20, "LawsOK"), Workers: 3, ExpectError: true})
		if err != nil {
			return err
		}
		if r.Violated != "LawsOK" {
			return fmt.Errorf("broken variant %s (%s) not detected by TLC (violated=%q)\n%s", b.broken, b.what, r.Violated, r.Output)
		}
	}
	// 2. correct cells are accepted in every variant, corrupted ones rejected (replay and gate)
	env, err := newC02Env()
	if err != nil {
		return err
	}
	i16 := func(x int) c02Val { return c02V("int16", uint64(uint16(x))) }
	for _, v := range c02Variants("rem", true) {
		if v.Place == "blank" {
			continue
		}
		a := i16(-7)
		if v.Place == "mapmiss" {
			a = i16(0)
		}
		mk := func(want int) *c02Cell {
			return &c02Cell{Place: v.Place, Storage: v.Storage, Kind: "int16", Op: "rem", Rhs: "v", IdxForm: "e", Idx: 1, A: a, B: i16(3),
				Want: c02Res{T: "v", V: i16(want)}}
		}
		good, bad := mk(-1), mk(2)
		if v.Place == "mapmiss" {
			good, bad = mk(0), mk(1)
		}
		env.arm("int16", "int16", good.armed())
		if d, det := c02Judge(good.expected(), env.run(good.Source(), "int16", "int16")); d != "" {
			return fmt.Errorf("correct cell rejected (%s/%s): %s: %s %s", v.Place, v.Storage, good.Source(), d, det)
		}
		env.arm("int16", "int16", bad.armed())
		if d, _ := c02Judge(bad.expected(), env.run(bad.Source(), "int16", "int16")); d != "value-differs" {
			return fmt.Errorf("corrupted cell accepted (%s/%s): %q", v.Place, v.Storage, d)
		}
		if c02GateCheck(good, c02Native(good)) != "" || c02GateCheck(bad, c02Native(bad)) == "" {
			return fmt.Errorf("native gate: correct cell rejected or corrupted cell accepted (%s)", v.Place)
		}
	}
	// a run-time panic keeps the place, a missing key stays missing; a corrupted class is rejected
	pc := &c02Cell{Place: "map", Storage: "f2", Kind: "uint8", Op: "quo", Rhs: "v", IdxForm: "e", Idx: 2, A: c02V("uint8", 9), B: c02V("uint8", 0),
		Want: c02Res{T: "p", Cls: "divide"}}
	env.arm("uint8", "uint8", pc.armed())
	if d, det := c02Judge(pc.expected(), env.run(pc.Source(), "uint8", "uint8")); d != "" {
		return fmt.Errorf("division of a map element by a zero variable: %s %s", d, det)
	}
	pc.Want.Cls = "shift"
	env.arm("uint8", "uint8", pc.armed())
	if d, _ := c02Judge(pc.expected(), env.run(pc.Source(), "uint8", "uint8")); d != "panic-differs" {
		return fmt.Errorf("corrupted panic class accepted (%q)", d)
	}
	// an index operand evaluated twice is noticed (the snippet is made to do it)
	ix := &c02Cell{Place: "sl", Storage: "g", Kind: "int16", Op: "add", Rhs: "v", IdxForm: "e", Idx: 1, A: i16(5), B: i16(2), Want: c02Res{T: "v", V: i16(9)}}
	env.arm("int16", "int16", ix.armed())
	twice := "c02s_int16[evi(1)] = c02s_int16[evi(1)] + c02r_int16 + c02r_int16"
	if d, _ := c02Judge(ix.expected(), env.run(twice, "int16", "int16")); d != "index-evaluated-2-times" {
		return fmt.Errorf("index operand evaluated twice not noticed (%q)", d)
	}
	// a stray write is noticed
	env.arm("int16", "int16", ix.armed())
	if d, _ := c02Judge(ix.expected(), env.run("c02s_int16[evi(1)] += 4; c02a_int16[0] = 1", "int16", "int16")); d != "value-differs" {
		return fmt.Errorf("stray write not noticed (%q)", d)
	}
	// 3. sequences: the one-statement sequences of a kind agree in the three worlds (unless the
	// statement meets a named open finding); a corrupted final store or log is rejected
	res, err := c.TLC(core.TLCOpts{Spec: "Places", CfgName: "selftest-seq", MCDefs: c02KindsDef([]string{"int16"}),
		Cfg: c02Cfg("seq", 1, 1, "none", 1, 12, "TypeOK Emit"), Workers: 2})
	if err != nil {
		return err
	}
	nseq, nbad := 0, 0
	for _, line := range res.Lines {
		var rec c02SeqRec
		if err := json.Unmarshal(line, &rec); err != nil {
			return fmt.Errorf("bad sequence record: %v", err)
		}
		for _, w := range c02Worlds {
			s, err := newC02Seq(&rec, "int16", w, 1)
			if err != nil {
				return err
			}
			got, err := env.runSeq(s)
			if err != nil {
				return err
			}
			nseq++
			if d, det := c02SeqJudge(s, got); d != "" {
				if strings.HasPrefix(c02SeqSig(s, d), "Sig") {
					continue
				}
				p, _ := s.render()
				return fmt.Errorf("correct sequence rejected (%s): %s %s: %s %s", w, p.Arm, p.Body, d, det)
			}
			bad := rec
			bad.St = append([]json.RawMessage(nil), rec.St...)
			bad.St[0], bad.St[1] = rec.St[1], rec.St[0] // v0 and v1 exchanged
			sb, err := newC02Seq(&bad, "int16", w, 1)
			if err != nil {
				return err
			}
			if d, _ := c02SeqJudge(sb, got); d != "store-differs" && string(rec.St[0]) != string(rec.St[1]) {
				return fmt.Errorf("corrupted final store accepted (%q)", d)
			}
			bad = rec
			bad.Log = append(append([]int(nil), rec.Log...), 1)
			if sb, err = newC02Seq(&bad, "int16", w, 1); err != nil {
				return err
			}
			if d, _ := c02SeqJudge(sb, got); d != "log-differs" {
				return fmt.Errorf("corrupted evi log accepted (%q)", d)
			}
			nbad += 2
		}
	}
	if nseq < 30 {
		return fmt.Errorf("only %d sequences replayed in the self-test", nseq)
	}
	return env.checkClasses()
}

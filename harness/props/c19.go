package props

import (
	"encoding/json"
	"fmt"
	"go/token"
	"io"
	"strings"
	"sync"
	"time"

	"github.com/cosmos72/gomacro/base"
	"github.com/cosmos72/gomacro/fast"
	"github.com/cosmos72/gomacro/fast/debug"

	"verif/harness/core"
	"verif/harness/gm"
)

// C19: debugger. Spec: spec/impl/Debug.tla (the stop rule on a ground trace) + programs from
// spec/sem/Defer.tla (calls, defers, panics/recover, breakpoints).
// (M) on every depth sequence up to the bound and every command script, the implementation
//     rule (DebugDepth comparison + command-to-depth mapping) stops exactly where the
//     documented step/next/finish/continue rule says; the off-by-one variant is rejected.
// (V) for each program a full single-step run records the ground trace (depth, position,
//     synthetic?, breakpoint?) from the real interpreter; TLC then computes, for EVERY command
//     script up to MaxCmds, the stops the debugger must make on that trace; each script is run
//     on the real interpreter with a scripted fast.Debugger and its stops are compared; results
//     and events with the debugger must equal those without.

func init() {
	core.Register(&core.Prop{
		ID: "C19",
		Rule: "programs = Defer.tla behaviours with calls, defers, recover and breakpoint statements; for each, TLC enumerates every command script over {step,next,finish,continue} up to MaxCmds on the recorded ground trace and gives the expected stops; " +
			"non-trivial = the script makes at least two stops at different call depths; distinct by (program, script)",
		Run:      runC19,
		Replay:   replayC19,
		SelfTest: selfTestC19,
	})
}

type c19Stmt struct {
	D   int       `json:"d"`
	S   bool      `json:"s"`
	B   bool      `json:"b"`
	Pos token.Pos `json:"pos"`
}
type c19Stop struct {
	At   int    `json:"at"`
	Kind string `json:"kind"`
}
type c19Rec struct {
	Ci    int       `json:"ci"`
	Cmds  []string  `json:"cmds"`
	Stops []c19Stop `json:"stops"`
}

type c19Call struct {
	kind  string
	depth int
	pos   token.Pos
	synth bool
}

// c19Debugger implements fast.Debugger: it records every callback and answers from a script
// (nil script = single-step everything).
type c19Debugger struct {
	script  []string
	next    int
	all     bool
	calls   []c19Call
	stopped []c19Call
	real    *debug.Debugger
}

func c19Pos(env *fast.Env) (token.Pos, bool) {
	if env.IP < 0 || env.IP >= len(env.DebugPos) {
		return token.NoPos, true
	}
	p := env.DebugPos[env.IP]
	return p, p == token.NoPos
}

func (d *c19Debugger) answer(ir *fast.Interp, env *fast.Env, kind string) fast.DebugOp {
	pos, synth := c19Pos(env)
	call := c19Call{kind: kind, depth: env.CallDepth, pos: pos, synth: synth}
	d.calls = append(d.calls, call)
	if synth && kind == "at" {
		// like the shipped debugger: synthetic statements are skipped keeping the depth
		return fast.DebugOp{Depth: env.Run.DebugDepth}
	}
	d.stopped = append(d.stopped, call)
	if d.all {
		return fast.DebugOpStep
	}
	cmd := "continue"
	if d.next < len(d.script) {
		cmd = d.script[d.next]
	}
	d.next++
	// the command is given to the shipped debugger (fast/debug: prompt, command lookup,
	// command-to-depth mapping of cmd.go) through the interpreter's Readline
	gl := &ir.Comp.Globals
	saved := gl.Readline
	gl.Readline = &c19Line{line: cmd + "\n"}
	defer func() { gl.Readline = saved }()
	if d.real == nil {
		d.real = &debug.Debugger{}
	}
	if kind == "bp" {
		return d.real.Breakpoint(ir, env)
	}
	return d.real.At(ir, env)
}

// c19Line is a base.Readline that delivers one line, then EOF.
type c19Line struct {
	line string
	used bool
}

func (l *c19Line) Read(prompt string) ([]byte, error) {
	if l.used {
		return nil, io.EOF
	}
	l.used = true
	return []byte(l.line), nil
}

func (d *c19Debugger) Breakpoint(ir *fast.Interp, env *fast.Env) fast.DebugOp {
	return d.answer(ir, env, "bp")
}
func (d *c19Debugger) At(ir *fast.Interp, env *fast.Env) fast.DebugOp {
	return d.answer(ir, env, "at")
}

func c19Interp() *gm.Interp {
	g := gm.New()
	g.Ir.Comp.Globals.Options |= base.OptDebugger
	g.Eval(`import "errors"`)
	g.Eval(c07Prelude)
	g.Eval("var c19t int")
	return g
}

// c19Debug runs entry under the debugger d; returns events and result.
func c19Debug(g *gm.Interp, entry string, d *c19Debugger) (events []string, result string) {
	g.ResetEvents()
	g.Ir.SetDebugger(d)
	res := func() (r gm.Result) {
		defer func() {
			if x := recover(); x != nil {
				r.Panicked = true
				r.Panic = gm.Show(x)
				if e, ok := x.(error); ok {
					r.Panic = "error:" + e.Error()
				}
			}
		}()
		// two more top-level statements follow the call: "finish" in the outermost function must
		// stop at the first of them (top-level code runs at depth 0 and is stepped as well)
		vs, _ := g.Ir.Debug("c19r := " + entry + "; c19t++; c19r")
		for _, v := range vs {
			r.Values = append(r.Values, gm.ShowValue(v))
		}
		return
	}()
	return append([]string(nil), g.Events...), res.String()
}

// c19Ground builds the ground trace from a single-step run.
func c19Ground(calls []c19Call) []c19Stmt {
	var t []c19Stmt
	for _, c := range calls {
		if c.kind == "bp" && len(t) > 0 && t[len(t)-1].Pos == c.pos && t[len(t)-1].D == c.depth && !t[len(t)-1].B {
			t[len(t)-1].B = true
			continue
		}
		t = append(t, c19Stmt{D: c.depth, S: c.synth, B: c.kind == "bp", Pos: c.pos})
	}
	return t
}

type c19Case struct {
	pc     *ProgCase
	ground []c19Stmt
	events []string
	result string
}

func c19MC(cases []*c19Case) string {
	var b strings.Builder
	b.WriteString("c_Cases == <<")
	for i, cs := range cases {
		if i > 0 {
			b.WriteString(",\n ")
		}
		b.WriteString("<<")
		for j, s := range cs.ground {
			if j > 0 {
				b.WriteString(",")
			}
			fmt.Fprintf(&b, "[d |-> %d, s |-> %s, b |-> %s]", s.D, strings.ToUpper(fmt.Sprint(s.S)), strings.ToUpper(fmt.Sprint(s.B)))
		}
		b.WriteString(">>")
	}
	b.WriteString(">>\n")
	return b.String()
}

func c19Cfg(genLen, maxCmds int, strict, emit bool, invs string) string {
	b := func(x bool) string { return strings.ToUpper(fmt.Sprint(x)) }
	return fmt.Sprintf("SPECIFICATION Spec\nCONSTANTS\n Cases <- c_Cases\n GenLen = %d\n GenDepth = 2\n MaxCmds = %d\n Strict = %s\n EmitOn = %s\nINVARIANTS %s\n", genLen, maxCmds, b(strict), b(emit), invs)
}

func c19Programs(c *core.Ctx) ([]*ProgCase, error) {
	ops := `c_Ops == {"L","call","defer","deferrec","panic","bp"}`
	var out []*ProgCase
	seen := map[string]bool{}
	n := 0
	handle := func(line []byte) {
		var rec c07Rec
		if json.Unmarshal(line, &rec) != nil || rec.MaxP >= 2 {
			return
		}
		n++
		calls := 0
		for _, ops := range rec.Body {
			for _, op := range ops {
				if op.K == "call" || op.K == "defer" {
					calls++
				}
			}
		}
		if calls == 0 {
			return
		}
		if (n+int(c.Seed))%c.Pick(240, 20) != 0 {
			return
		}
		pc := c07Render(&rec, line)
		if !seen[pc.Key] {
			seen[pc.Key] = true
			out = append(out, pc)
		}
	}
	_, err := c.TLC(core.TLCOpts{Spec: "Defer", MCDefs: ops, CfgName: "programs", Cfg: c07Cfg(3, 3, 5, "{1}", 0), OnLine: handle})
	return out, err
}

func c19Compare(cs *c19Case, rec *c19Rec) (sig, what string) {
	g := c19Interp()
	if r := g.Eval(cs.pc.Decls); r.Panicked {
		return "declaration-failed", r.Panic
	}
	d := &c19Debugger{script: rec.Cmds}
	events, result := c19Debug(g, cs.pc.Entry, d)
	if result != cs.result || strings.Join(stripBook(events), "|") != strings.Join(stripBook(cs.events), "|") {
		return "not-transparent", fmt.Sprintf("script %v: result %s events %v; without stepping commands: %s %v", rec.Cmds, result, events, cs.result, cs.events)
	}
	// expected stops
	if len(d.stopped) != len(rec.Stops) {
		return c19StopSig(cs, rec, d), fmt.Sprintf("script %v: the debugger stopped %d times, specification says %d times; observed stops %s, expected %s",
			rec.Cmds, len(d.stopped), len(rec.Stops), c19ShowStops(d.stopped), c19ShowWant(cs, rec))
	}
	for k, st := range rec.Stops {
		g := cs.ground[st.At-1]
		o := d.stopped[k]
		if o.kind != st.Kind || o.depth != g.D || o.pos != g.Pos {
			return c19StopSig(cs, rec, d), fmt.Sprintf("script %v: stop %d is %s at depth %d pos %d, specification says %s at depth %d pos %d; observed stops %s, expected %s",
				rec.Cmds, k+1, o.kind, o.depth, o.pos, st.Kind, g.D, g.Pos, c19ShowStops(d.stopped), c19ShowWant(cs, rec))
		}
	}
	return "", ""
}

func c19ShowStops(s []c19Call) string {
	var p []string
	for _, c := range s {
		p = append(p, fmt.Sprintf("%s@d%d:%d", c.kind, c.depth, c.pos))
	}
	return strings.Join(p, " ")
}
func c19ShowWant(cs *c19Case, rec *c19Rec) string {
	var p []string
	for _, st := range rec.Stops {
		g := cs.ground[st.At-1]
		p = append(p, fmt.Sprintf("%s@d%d:%d", st.Kind, g.D, g.Pos))
	}
	return strings.Join(p, " ")
}

// signature: the command after which the stops diverge
func c19StopSig(cs *c19Case, rec *c19Rec, d *c19Debugger) string {
	k := 0
	for k < len(rec.Stops) && k < len(d.stopped) {
		g := cs.ground[rec.Stops[k].At-1]
		if d.stopped[k].kind != rec.Stops[k].Kind || d.stopped[k].depth != g.D || d.stopped[k].pos != g.Pos {
			break
		}
		k++
	}
	cmd := "start"
	if k > 0 && k-1 < len(rec.Cmds) {
		cmd = rec.Cmds[k-1]
	}
	// predicate SigCallerEnteredRunning: the first stop that is missing lies in a frame shallower
	// than a breakpoint that was reached while running freely: that caller frame was entered by
	// the executor's fast path and only polls for debug mode every 14 statements. Frames run
	// freely after `continue`, and - when they are deeper than the frame the command was given
	// in - after `next` and `finish` (which only ask for stops at that depth or above)
	if k < len(rec.Stops) {
		miss := cs.ground[rec.Stops[k].At-1]
		for j := 1; j < k; j++ {
			if rec.Stops[j].Kind != "bp" || j-1 >= len(rec.Cmds) || miss.D >= cs.ground[rec.Stops[j].At-1].D {
				continue
			}
			prev := cs.ground[rec.Stops[j-1].At-1]
			switch rec.Cmds[j-1] {
			case "continue":
				return "SigCallerEnteredRunning:stop-in-caller-missed"
			case "next", "finish":
				if miss.D > prev.D {
					return "SigCallerEnteredRunning:stop-in-caller-missed"
				}
			}
		}
	}
	return "stop-after(" + cmd + ")-differs"
}

func runC19(c *core.Ctx) error {
	// (M) documented rule == implementation rule on all abstract traces
	if _, err := c.TLC(core.TLCOpts{Spec: "Debug", MCDefs: "c_Cases == <<>>\n", CfgName: "doc-rule-equivalence",
		Cfg: c19Cfg(c.Pick(3, 5), 3, true, false, "DocAgrees"), Timeout: 30 * time.Minute}); err != nil {
		return err
	}
	progs, err := c19Programs(c)
	if err != nil {
		return err
	}
	// ground traces from full single-step runs
	var cases []*c19Case
	var mu sync.Mutex
	var firstErr error
	core.ParDo(len(progs), 12, func(i int) {
		pc := progs[i]
		g := c19Interp()
		if r := g.Eval(pc.Decls); r.Panicked {
			return
		}
		// reference: no stepping at all (continue at once)
		ev0, res0 := c19Debug(g, pc.Entry, &c19Debugger{script: []string{"continue"}})
		// model expectation of the program itself (Defer.tla), ignoring bookkeeping suffixes
		want := pc
		if res0 != want.WantResult || strings.Join(stripBook(ev0), "|") != strings.Join(stripBook(want.WantEvents), "|") {
			mu.Lock()
			c.Violation("not-transparent", fmt.Sprintf("under the debugger (continue at the first stop) the program gives %s %v; Defer.tla says %s %v\n%s", res0, ev0, want.WantResult, want.WantEvents, pc.Decls),
				map[string]interface{}{"decls": pc.Decls, "entry": pc.Entry, "cmds": []string{"continue"}})
			mu.Unlock()
			return
		}
		// (every run starts from a fresh interpreter with the same history: source positions of
		// the top-level statements depend on what was evaluated before)
		fresh := func() *gm.Interp {
			g := c19Interp()
			g.Eval(pc.Decls)
			return g
		}
		d := &c19Debugger{all: true}
		c19Debug(fresh(), pc.Entry, d)
		ground := c19Ground(d.calls)
		if len(ground) == 0 || len(ground) > 200 {
			return
		}
		// determinism of the ground trace
		d2 := &c19Debugger{all: true}
		c19Debug(fresh(), pc.Entry, d2)
		g2 := c19Ground(d2.calls)
		if len(g2) != len(ground) {
			mu.Lock()
			firstErr = core.Infra("ground trace not deterministic for\n%s", pc.Decls)
			mu.Unlock()
			return
		}
		mu.Lock()
		cases = append(cases, &c19Case{pc: pc, ground: ground, events: ev0, result: res0})
		mu.Unlock()
	})
	if firstErr != nil {
		return firstErr
	}
	if len(cases) == 0 {
		return core.Infra("no ground traces recorded")
	}
	// TLC: every script on every ground trace
	var recs []c19Rec
	if _, err := c.TLC(core.TLCOpts{Spec: "Debug", MCDefs: c19MC(cases), CfgName: "scripts-on-ground-traces",
		Cfg: c19Cfg(0, c.Pick(3, 4), true, true, "DocAgrees Emit"), Timeout: 0,
		OnLine: func(line []byte) {
			var r c19Rec
			if json.Unmarshal(line, &r) == nil {
				recs = append(recs, r)
			}
		}}); err != nil {
		return err
	}
	c.Exhaustive = true
	core.ParDo(len(recs), 14, func(i int) {
		rec := &recs[i]
		cs := cases[rec.Ci-1]
		depths := map[int]bool{}
		for _, st := range rec.Stops {
			depths[cs.ground[st.At-1].D] = true
		}
		c.Case(fmt.Sprintf("%s|%v", cs.pc.Key, rec.Cmds), len(rec.Stops) >= 2 && len(depths) >= 2)
		c.Trace()
		sig, what := c19Compare(cs, rec)
		if sig == "" {
			return
		}
		sig2, what2 := c19Compare(cs, rec)
		if sig2 == "" {
			mu.Lock()
			firstErr = core.Infra("disagreement not reproducible: %s %s", sig, what)
			mu.Unlock()
			return
		}
		c.Violation(sig2, what2+"\nprogram:\n"+cs.pc.Decls+"entry: "+cs.pc.Entry, map[string]interface{}{"decls": cs.pc.Decls, "entry": cs.pc.Entry, "cmds": rec.Cmds, "stops": rec.Stops, "ground": cs.ground})
	})
	if len(recs) > 10 {
		r := recs[len(recs)/2]
		c.Sample(map[string]interface{}{"program": cases[r.Ci-1].pc.Decls, "ground_trace": cases[r.Ci-1].ground, "script": r.Cmds, "expected_stops": r.Stops})
	}
	c.Extra["programs"] = len(cases)
	c.Assume("the ground trace (which statements execute, at which depth, which are synthetic) is recorded from the real interpreter in a full single-step run; the model decides where each script must stop on it. Synthetic statements (no source position) are skipped keeping the depth, as the shipped debugger does")
	return firstErr
}

func replayC19(c *core.Ctx, raw json.RawMessage) error {
	var w struct {
		Decls  string    `json:"decls"`
		Entry  string    `json:"entry"`
		Cmds   []string  `json:"cmds"`
		Stops  []c19Stop `json:"stops"`
		Ground []c19Stmt `json:"ground"`
	}
	if err := json.Unmarshal(raw, &w); err != nil {
		return err
	}
	g := c19Interp()
	g.Eval(w.Decls)
	ev0, res0 := c19Debug(g, w.Entry, &c19Debugger{script: []string{"continue"}})
	cs := &c19Case{pc: &ProgCase{Decls: w.Decls, Entry: w.Entry}, ground: w.Ground, events: ev0, result: res0}
	if sig, what := c19Compare(cs, &c19Rec{Ci: 1, Cmds: w.Cmds, Stops: w.Stops}); sig != "" {
		c.Violation(sig, what, raw)
	}
	return nil
}

func selfTestC19(c *core.Ctx) error {
	r, err := c.TLC(core.TLCOpts{Spec: "Debug", MCDefs: "c_Cases == <<>>\n", CfgName: "broken-off-by-one",
		Cfg: c19Cfg(4, 3, false, false, "DocAgrees"), ExpectError: true})
	if err != nil {
		return err
	}
	if r.Violated != "DocAgrees" {
		return fmt.Errorf("off-by-one variant of the stop rule not rejected (%q)", r.Violated)
	}
	return nil
}

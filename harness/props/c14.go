package props

import (
	"encoding/json"
	"fmt"
	"math"
	"strings"
	"sync"
	"sync/atomic"

	"verif/harness/core"
	"verif/harness/gate"
	"verif/harness/gm"
)

// C14: REPL histories. Spec: spec/impl/Repl.tla — one evaluation = Compile / PrepareEnv / Run on
// the global slot array with the code's real constants (first capacity 1024, doubling), blocks
// of variables of 1- and 2-slot and boxed kinds, pointers to globals, assignments directly and
// through pointers.
// (M) with the protocol as it should be (limit recorded before the next compilation, two-slot
//     kinds counted) TLC proves AliasPreserved / NoInternalError / Fits on all histories of the
//     bound; the two variants that describe the code before its repair are rejected.
// (R) every history (those taking an address; a seeded sample of the others; simulated longer
//     ones) is replayed one evaluation per step on a fresh interpreter, the final values of the
//     probe variables and of every pointer are compared with the model; a seeded sample is
//     gated as one native Go program.

func init() {
	core.Register(&core.Prop{
		ID: "C14",
		Rule: "TLC enumerates REPL histories over {declare a block of n in {1,1023,1100} variables of kind int/complex128/string, p := &v, v = x, *p = x} with the real slot-array constants (BFS to 4 steps, simulation to 8); each step is one Eval; " +
			"non-trivial = the history takes the address of a global and declares further variables afterwards; distinct by history",
		Run:      runC14,
		Replay:   replayC14,
		SelfTest: selfTestC14,
	})
}

type c14Op struct {
	Op   string `json:"op"`
	N    int    `json:"n"`
	Kind string `json:"kind"`
	Nint int    `json:"nint"`
	B    int    `json:"b"`
	I    int    `json:"i"`
	X    int    `json:"x"`
	Via  int    `json:"via"`
	How  string `json:"how"`
	Err  string `json:"err"`
}
type c14Rec struct {
	Hist  []c14Op `json:"hist"`
	Err   string  `json:"err"`
	Final []struct {
		B int `json:"b"`
		I int `json:"i"`
		V int `json:"v"`
	} `json:"final"`
}

func c14Cfg(maxSteps int, sizes string, early, slot bool, invs string) string {
	b := func(x bool) string { return strings.ToUpper(fmt.Sprint(x)) }
	return fmt.Sprintf("SPECIFICATION Spec\nCONSTANTS\n Chunk = 1024\n MaxSteps = %d\n MaxBlocks = 4\n DeclSizes = %s\n Kinds = {\"int\",\"c128\",\"str\"}\n RecordEarly = %s\n SlotAware = %s\n EmitOn = TRUE\n EmitAt = %d\nINVARIANTS %s\n",
		maxSteps, sizes, b(early), b(slot), maxSteps, invs)
}

var c14Serial int64

func c14TypeName(k string) string {
	switch k {
	case "c128":
		return "complex128"
	case "str":
		return "string"
	}
	return "int"
}
func c14Lit(k string, v int) string {
	switch k {
	case "c128":
		return fmt.Sprintf("complex(%d, 0)", v)
	case "str":
		return fmt.Sprintf("\"%d\"", v)
	}
	return fmt.Sprint(v)
}
func c14Show(k string, v int) string {
	switch k {
	case "c128":
		return fmt.Sprintf("complex128:%016x,%016x", f64bits(float64(v)), f64bits(0))
	case "str":
		return fmt.Sprintf("string:\"%d\"", v)
	}
	return fmt.Sprintf("int:%d", v)
}

// c14Steps renders the history: one source text per evaluation, plus the final reads.
func c14Steps(rec *c14Rec) (steps []string, reads []string, want []string, sfx string) {
	sfx = fmt.Sprintf("_%d", atomic.AddInt64(&c14Serial, 1))
	name := func(b, i int) string { return fmt.Sprintf("v%s_%d_%d", sfx, b, i) }
	kinds := map[int]string{}
	nb, np := 0, 0
	pkind := map[int]string{}
	for _, op := range rec.Hist {
		switch op.Op {
		case "decl":
			nb++
			kinds[nb] = op.Kind
			var names, vals []string
			for i := 1; i <= op.N; i++ {
				names = append(names, name(nb, i))
				vals = append(vals, c14Lit(op.Kind, (7*nb+i)%100))
			}
			steps = append(steps, fmt.Sprintf("var %s %s = %s", strings.Join(names, ", "), c14TypeName(op.Kind), strings.Join(vals, ", ")))
		case "addr":
			np++
			pkind[np] = kinds[op.B]
			switch op.How {
			case "func":
				steps = append(steps, fmt.Sprintf("func ap%s_%d() *%s { return &%s }; p%s_%d := ap%s_%d()", sfx, np, c14TypeName(kinds[op.B]), name(op.B, op.I), sfx, np, sfx, np))
			case "block":
				steps = append(steps, fmt.Sprintf("func ap%s_%d() *%s { { y := 1; _ = y; { z := y + 1; _ = z; return &%s } }; panic(\"unreachable\") }; p%s_%d := ap%s_%d()", sfx, np, c14TypeName(kinds[op.B]), name(op.B, op.I), sfx, np, sfx, np))
			default:
				steps = append(steps, fmt.Sprintf("p%s_%d := &%s", sfx, np, name(op.B, op.I)))
			}
		case "set":
			if op.Via == 0 {
				steps = append(steps, fmt.Sprintf("%s = %s", name(op.B, op.I), c14Lit(kinds[op.B], op.X)))
			} else {
				steps = append(steps, fmt.Sprintf("*p%s_%d = %s", sfx, op.Via, c14Lit(kinds[op.B], op.X)))
			}
		}
	}
	val := map[[2]int]int{}
	for _, f := range rec.Final {
		val[[2]int{f.B, f.I}] = f.V
		reads = append(reads, name(f.B, f.I))
		want = append(want, c14Show(kinds[f.B], f.V))
	}
	np = 0
	for _, op := range rec.Hist {
		if op.Op == "addr" {
			np++
			reads = append(reads, fmt.Sprintf("*p%s_%d", sfx, np))
			want = append(want, c14Show(pkind[np], val[[2]int{op.B, op.I}]))
		}
	}
	return
}

func f64bits(f float64) uint64 { return math.Float64bits(f) }

// c14Run replays one history on a fresh interpreter.
func c14Run(rec *c14Rec) (sig, what string) {
	steps, reads, want, _ := c14Steps(rec)
	g := gm.New()
	for i, s := range steps {
		if r := g.Eval(s); r.Panicked {
			short := s
			if len(short) > 120 {
				short = short[:120] + " ..."
			}
			cause := "evaluation-fails"
			if strings.Contains(r.Panic, "reallocate") {
				cause = "internal-error-reallocate-after-address-taken"
			}
			return cause, fmt.Sprintf("step %d of %d (%s) failed: %s", i+1, len(steps), short, r.Panic)
		}
	}
	for i, rd := range reads {
		r := g.Eval(rd)
		got := r.String()
		if got != "["+want[i]+"]" {
			return "value-differs", fmt.Sprintf("after the history, %s = %s, specification says %s", rd, got, want[i])
		}
	}
	return "", ""
}

func c14Interesting(rec *c14Rec) bool {
	addr := false
	for _, op := range rec.Hist {
		if op.Op == "addr" {
			addr = true
		} else if op.Op == "decl" && addr {
			return true
		}
	}
	return false
}

func c14Key(rec *c14Rec) string {
	var b strings.Builder
	for _, op := range rec.Hist {
		fmt.Fprintf(&b, "%s.%d.%s.%d.%d.%d.%s;", op.Op, op.N, op.Kind, op.B, op.I, op.Via, op.How)
	}
	return b.String()
}

func c14Gate(c *core.Ctx, recs []*c14Rec) error {
	var progs []gate.Prog
	var wants [][]string
	for _, rec := range recs {
		steps, reads, want, _ := c14Steps(rec)
		var decls, body strings.Builder
		for _, s := range steps {
			switch {
			case strings.HasPrefix(s, "var "):
				decls.WriteString(s + "\n")
			case strings.HasPrefix(s, "func ap"):
				k := strings.LastIndex(s, "; p")
				decls.WriteString(s[:k] + "\nvar " + strings.Replace(s[k+2:], ":=", "=", 1) + "\n")
			case strings.Contains(s, ":= &"):
				decls.WriteString("var " + strings.Replace(s, ":=", "=", 1) + "\n")
			default:
				body.WriteString("\t" + s + "\n")
			}
		}
		for _, rd := range reads {
			fmt.Fprintf(&body, "\tev(%s)\n", rd)
		}
		progs = append(progs, gate.Prog{Decls: decls.String(), Stmt: body.String()})
		wants = append(wants, want)
	}
	outs, err := gate.Run(c.Verif, progs)
	if err != nil {
		return core.Infra("go gate: %v", err)
	}
	for i, o := range outs {
		ok := o.CompileError == "" && len(o.Events) == len(wants[i])
		if ok {
			for j := range o.Events {
				if o.Events[j] != wants[i][j] {
					ok = false
				}
			}
		}
		c.Gate(ok)
		if !ok {
			fmt.Printf("GATE-REJECT property=C14: %s %v vs %v\n", o.CompileError, o.Events, wants[i])
		}
	}
	return nil
}

func runC14(c *core.Ctx) error {
	var recs []*c14Rec
	seen := map[string]bool{}
	n := 0
	handle := func(line []byte) {
		var r c14Rec
		if json.Unmarshal(line, &r) != nil {
			return
		}
		n++
		if !c14Interesting(&r) && (n+int(c.Seed))%c.Pick(40, 8) != 0 {
			return
		}
		k := c14Key(&r)
		if seen[k] {
			return
		}
		seen[k] = true
		recs = append(recs, &r)
	}
	invs := "AliasPreserved NoInternalError Fits LimitRecorded Emit"
	if _, err := c.TLC(core.TLCOpts{Spec: "Repl", CfgName: "histories-bfs", Cfg: c14Cfg(4, "{1,1023,1100}", true, true, invs), OnLine: handle}); err != nil {
		return err
	}
	c.Exhaustive = false
	if _, err := c.TLC(core.TLCOpts{Spec: "Repl", CfgName: "histories-sim", Cfg: c14Cfg(c.Pick(7, 9), "{1,2,511,1022,1023,1024,1100}", true, true, invs),
		Simulate: true, SimNum: c.Pick(30, 300), SimDepth: 12, Seed: c.Seed, OnLine: handle}); err != nil {
		return err
	}
	if c.Quick() && len(recs) > 2500 {
		// keep the interesting ones first, thin the rest deterministically
		var keep []*c14Rec
		stride := len(recs)/2500 + 1
		for i, r := range recs {
			if (i+int(c.Seed))%stride == 0 {
				keep = append(keep, r)
			}
		}
		recs = keep
	}
	// gate a seeded sample
	var gs []*c14Rec
	for i, r := range recs {
		if (i+int(c.Seed))%c.Pick(150, 25) == 0 {
			gs = append(gs, r)
		}
	}
	if err := c14Gate(c, gs); err != nil {
		return err
	}
	var mu sync.Mutex
	var firstErr error
	core.ParDo(len(recs), 14, func(i int) {
		rec := recs[i]
		sig, what := c14Run(rec)
		c.Case(c14Key(rec), c14Interesting(rec))
		c.Trace()
		if sig == "" {
			return
		}
		sig2, what2 := c14Run(rec)
		if sig2 == "" {
			mu.Lock()
			firstErr = core.Infra("disagreement not reproducible: %s %s", sig, what)
			mu.Unlock()
			return
		}
		c.Violation(c14Sig(rec, sig2), what2, rec)
	})
	if len(recs) > 2 {
		for _, r := range []*c14Rec{recs[len(recs)/3], recs[2*len(recs)/3]} {
			steps, reads, want, _ := c14Steps(r)
			for i := range steps {
				if len(steps[i]) > 100 {
					steps[i] = steps[i][:100] + " ..."
				}
			}
			c.Sample(map[string]interface{}{"evaluations": steps, "final_reads": reads, "expected": want})
		}
	}
	c.Assume("each step is one Interp.Eval on a fresh interpreter; values are read only after the last step so that no extra evaluation perturbs the Compile/PrepareEnv/Run sequence the model describes")
	return firstErr
}

// c14Sig: which part of the protocol the failing history exercises (spec-level predicates).
func c14Sig(rec *c14Rec, shape string) string {
	// predicate 1: a declaration is the evaluation immediately after the one that took the
	// first address of an integer-slot variable
	// predicate 2: a two-slot kind is declared after an address was taken
	pred := "other"
	firstAddr := -1
	for i, op := range rec.Hist {
		if op.Op == "addr" && firstAddr < 0 {
			firstAddr = i
		}
	}
	if firstAddr >= 0 {
		for i := firstAddr + 1; i < len(rec.Hist); i++ {
			op := rec.Hist[i]
			if op.Op != "decl" {
				continue
			}
			if i == firstAddr+1 {
				pred = "SigDeclRightAfterFirstAddress"
				break
			}
			if op.Kind == "c128" {
				pred = "SigTwoSlotKindAfterAddress"
				break
			}
		}
	}
	return pred + ":" + shape
}

func replayC14(c *core.Ctx, raw json.RawMessage) error {
	var rec c14Rec
	if err := json.Unmarshal(raw, &rec); err != nil {
		return err
	}
	if sig, what := c14Run(&rec); sig != "" {
		c.Violation(c14Sig(&rec, sig), what, &rec)
	}
	return nil
}

func selfTestC14(c *core.Ctx) error {
	for _, v := range []struct {
		name        string
		early, slot bool
	}{{"limit-recorded-only-by-prepareEnv", false, false}, {"limit-ignores-two-slot-kinds", true, false}} {
		r, err := c.TLC(core.TLCOpts{Spec: "Repl", CfgName: "broken-" + v.name,
			Cfg: strings.Replace(c14Cfg(5, "{1,1023,1100}", v.early, v.slot, "NoInternalError"), "EmitOn = TRUE", "EmitOn = FALSE", 1), ExpectError: true})
		if err != nil {
			return err
		}
		if r.Violated != "NoInternalError" {
			return fmt.Errorf("variant %s not rejected by TLC (%q)", v.name, r.Violated)
		}
	}
	// corrupted expectation must be rejected
	rec := c14Rec{Hist: []c14Op{{Op: "decl", N: 1, Kind: "int"}}}
	rec.Final = append(rec.Final, struct {
		B int `json:"b"`
		I int `json:"i"`
		V int `json:"v"`
	}{1, 1, 8})
	if sig, _ := c14Run(&rec); sig != "" {
		return fmt.Errorf("correct record rejected: %s", sig)
	}
	rec.Final[0].V = 9
	if sig, _ := c14Run(&rec); sig == "" {
		return fmt.Errorf("corrupted record accepted")
	}
	return nil
}

package props

// C03: conversions between basic, string and byte/rune slice types.
// Spec: spec/sem/Conv.tla (+ spec/lib/Utf8.tla, spec/lib/ConvBits.tla).
// (M) TLC checks the convertibility-table laws, int->int against the "congruent modulo 2^n"
//     definition, round trips, agreement of constant and run-time conversion, the byte/bit limb
//     code and both UTF-8 decoders against integer definitions; broken variants must fail.
// (R) every cell [src type, dst type, shape const|var, value] printed by TLC with its expected
//     outcome is rendered as Go source (several rendering shapes), evaluated by the fast
//     interpreter and compared: value bits, static type, compile error, run-time panic.
// Gate: go/types on the same rendered source (accept/reject, static type, constant value) and
//     natively compiled generic conversions (c03native.go) for every run-time conversion.

import (
	"encoding/json"
	"fmt"
	"go/ast"
	"go/constant"
	"go/parser"
	"go/token"
	"go/types"
	"math"
	"math/big"
	"reflect"
	"sort"
	"strings"
	"sync"
	"time"

	"verif/harness/core"
	"verif/harness/gm"
)

func init() {
	core.Register(&core.Prop{
		ID: "C03",
		Rule: "TLC enumerates cells [source type, destination type, shape const|var, value] of Conv.tla: every ordered pair of 40 types " +
			"(17 basic kinds, their named variants, []byte, []rune, named slices, slices of named elements) in the var shape and every " +
			"(typed or untyped constant kind, type) pair in the const shape, with boundary values chosen per pair (BFS) and seeded random " +
			"bit patterns (simulation); a case is one cell in one rendering shape evaluated by the interpreter; non-trivial = Go rejects " +
			"the conversion or the underlying kinds of source and destination differ",
		Run:      runC03,
		Replay:   replayC03,
		SelfTest: selfTestC03,
	})
}

// ---------------------------------------------------------------------------------------
// records

type c03Type struct {
	U string `json:"u"`
	N int    `json:"n"`
}

type c03Exp struct {
	R   string          `json:"r"`
	Why string          `json:"why,omitempty"`
	V   json.RawMessage `json:"v,omitempty"`
	Ty  *c03Type        `json:"ty,omitempty"`
}

type c03Cell struct {
	Src   c03Type         `json:"src"`
	Dst   c03Type         `json:"dst"`
	Shape string          `json:"shape"`
	Val   json.RawMessage `json:"val"`
	Exp   c03Exp          `json:"exp"`
}

type c03Replay struct {
	Cell   c03Cell `json:"cell"`
	Render string  `json:"render"`
	Source string  `json:"source"`
}

var c03BasicKinds = []string{"bool", "int", "int8", "int16", "int32", "int64", "uint", "uint8", "uint16", "uint32", "uint64",
	"uintptr", "float32", "float64", "complex64", "complex128", "string"}

func c03Class(u string) string {
	switch u {
	case "int", "int8", "int16", "int32", "int64", "uint", "uint8", "uint16", "uint32", "uint64", "uintptr", "k_int", "k_rune":
		return "int"
	case "float32", "float64", "k_float":
		return "float"
	case "complex64", "complex128", "k_complex":
		return "complex"
	case "bool", "k_bool":
		return "bool"
	case "string", "k_string":
		return "string"
	case "bytes", "nbytes":
		return "bytes"
	case "runes", "nrunes":
		return "runes"
	}
	return "?"
}

func c03Untyped(u string) bool { return strings.HasPrefix(u, "k_") }

func c03Width(u string) int {
	switch u {
	case "int8", "uint8":
		return 1
	case "int16", "uint16":
		return 2
	case "int32", "uint32":
		return 4
	}
	return 8
}

func c03Signed(u string) bool { return strings.HasPrefix(u, "int") }

// Src is the type as written in Go source; Canon the name used for comparison and signatures.
func (t c03Type) Src() string {
	switch t.U {
	case "bytes":
		if t.N == 1 {
			return "Mybytes"
		}
		return "[]byte"
	case "runes":
		if t.N == 1 {
			return "Myrunes"
		}
		return "[]rune"
	case "nbytes":
		return "[]Myuint8"
	case "nrunes":
		return "[]Myint32"
	}
	if c03Untyped(t.U) {
		return "untyped-" + t.U[2:]
	}
	if t.N == 1 {
		return "My" + t.U
	}
	return t.U
}

func (t c03Type) Canon() string {
	switch s := t.Src(); s {
	case "[]byte":
		return "[]uint8"
	case "[]rune":
		return "[]int32"
	default:
		return s
	}
}

// c03CanonName normalises a type printed by gomacro, go/types or reflect.
func c03CanonName(s string) string {
	for _, p := range []string{"main.", "props.c03", "p."} {
		s = strings.ReplaceAll(s, p, "")
	}
	switch s {
	case "[]byte":
		return "[]uint8"
	case "[]rune":
		return "[]int32"
	case "byte":
		return "uint8"
	case "rune":
		return "int32"
	}
	return s
}

func c03TypeDecls() string {
	var b strings.Builder
	for _, k := range c03BasicKinds {
		fmt.Fprintf(&b, "type My%s %s\n", k, k)
	}
	b.WriteString("type Mybytes []byte\ntype Myrunes []rune\n")
	return b.String()
}

// ---------------------------------------------------------------------------------------
// values

type c03F struct {
	S  int    `json:"s"`
	M  []int  `json:"m"`
	H  int    `json:"h"`
	Sp string `json:"sp"`
}

type c03Val struct {
	Class  string
	Bytes  []int // integer (little endian, width of the kind), string, []byte
	Runes  []int64
	F      c03F
	Re, Im c03F
	B      bool
}

func c03ParseVal(class string, untypedNum bool, raw json.RawMessage) (c03Val, error) {
	v := c03Val{Class: class}
	var err error
	switch class {
	case "int":
		if untypedNum {
			v.Class = "num"
			err = json.Unmarshal(raw, &v.F)
		} else {
			err = json.Unmarshal(raw, &v.Bytes)
		}
	case "string", "bytes":
		err = json.Unmarshal(raw, &v.Bytes)
	case "runes":
		err = json.Unmarshal(raw, &v.Runes)
	case "float":
		err = json.Unmarshal(raw, &v.F)
	case "complex":
		var c struct{ Re, Im c03F }
		err = json.Unmarshal(raw, &c)
		v.Re, v.Im = c.Re, c.Im
	case "bool":
		err = json.Unmarshal(raw, &v.B)
	default:
		err = fmt.Errorf("unknown class %q", class)
	}
	return v, err
}

func (f c03F) mag() *big.Int {
	x := new(big.Int)
	for i := len(f.M) - 1; i >= 0; i-- {
		x.Lsh(x, 8)
		x.Or(x, big.NewInt(int64(f.M[i])))
	}
	return x
}

func (f c03F) key() string {
	switch {
	case f.Sp == "nan":
		return "nan"
	case f.Sp != "":
		return fmt.Sprintf("%s%s", map[int]string{0: "+", 1: "-"}[f.S], f.Sp)
	}
	s := f.mag().String()
	if f.H == 1 {
		s += ".5"
	}
	if f.S == 1 {
		s = "-" + s
	}
	return s
}

// literal of a finite value: decimal digits with an explicit fraction
func (f c03F) lit(intLit bool) string {
	s := f.mag().String()
	if !intLit {
		if f.H == 1 {
			s += ".5"
		} else {
			s += ".0"
		}
	}
	if f.S == 1 {
		s = "-" + s
	}
	return s
}

func c03BytesKey(bs []int) string {
	var b strings.Builder
	for _, x := range bs {
		fmt.Fprintf(&b, "%02x", x)
	}
	return b.String()
}

// Key is the canonical comparable form of a value.
func (v c03Val) Key() string {
	switch v.Class {
	case "int":
		return "i:" + c03BytesKey(v.Bytes)
	case "num":
		return "n:" + v.F.key()
	case "string":
		return "s:" + c03BytesKey(v.Bytes)
	case "bytes":
		return "B:" + c03BytesKey(v.Bytes)
	case "runes":
		return fmt.Sprintf("R:%v", v.Runes)
	case "float":
		return "f:" + v.F.key()
	case "complex":
		return "c:" + v.Re.key() + "," + v.Im.key()
	case "bool":
		return fmt.Sprintf("b:%v", v.B)
	}
	return "?"
}

func c03IntBig(bs []int, signed bool) *big.Int {
	x := new(big.Int)
	for i := len(bs) - 1; i >= 0; i-- {
		x.Lsh(x, 8)
		x.Or(x, big.NewInt(int64(bs[i])))
	}
	if signed && len(bs) > 0 && bs[len(bs)-1] >= 128 {
		x.Sub(x, new(big.Int).Lsh(big.NewInt(1), uint(8*len(bs))))
	}
	return x
}

func c03BigBytes(x *big.Int, w int) []int {
	m := new(big.Int).Lsh(big.NewInt(1), uint(8*w))
	y := new(big.Int).Mod(x, m) // Euclidean: non-negative
	out := make([]int, w)
	for i := 0; i < w; i++ {
		out[i] = int(new(big.Int).And(new(big.Int).Rsh(y, uint(8*i)), big.NewInt(255)).Int64())
	}
	return out
}

// c03Float returns the float64 denoted by f; ok=false if f is not exactly a float of `bits` bits.
func c03Float(f c03F, bits int) (float64, bool) {
	var x float64
	switch f.Sp {
	case "nan":
		return math.NaN(), true
	case "inf":
		x = math.Inf(1)
	case "":
		n := new(big.Int).Lsh(f.mag(), 1)
		n.Add(n, big.NewInt(int64(f.H)))
		bf := new(big.Float).SetPrec(4096).SetInt(n)
		bf.Quo(bf, big.NewFloat(2))
		y, acc := bf.Float64()
		if acc != big.Exact {
			return 0, false
		}
		if bits == 32 && float64(float32(y)) != y {
			return 0, false
		}
		x = y
	default:
		return 0, false
	}
	if f.S == 1 {
		x = math.Copysign(x, -1)
	}
	return x, true
}

// c03Unfloat is the inverse projection; values outside the modelled sub-domain become "other:<bits>".
func c03Unfloat(x float64) c03F {
	s := 0
	if math.Signbit(x) {
		s = 1
	}
	switch {
	case math.IsNaN(x):
		return c03F{Sp: "nan"}
	case math.IsInf(x, 0):
		return c03F{S: s, Sp: "inf"}
	}
	a := math.Abs(x)
	if a2 := a * 2; a2 == math.Trunc(a2) && !math.IsInf(a2, 0) {
		n, _ := new(big.Float).SetFloat64(a2).Int(nil)
		h := int(n.Bit(0))
		n.Rsh(n, 1)
		var m []int
		for n.Sign() > 0 {
			m = append(m, int(new(big.Int).And(n, big.NewInt(255)).Int64()))
			n.Rsh(n, 8)
		}
		return c03F{S: s, M: m, H: h}
	}
	return c03F{S: s, Sp: fmt.Sprintf("other:%016x", math.Float64bits(x))}
}

// c03Project turns a Go value (native or produced by the interpreter) into a c03Val.
func c03Project(rv reflect.Value) c03Val {
	switch rv.Kind() {
	case reflect.Bool:
		return c03Val{Class: "bool", B: rv.Bool()}
	case reflect.Int, reflect.Int8, reflect.Int16, reflect.Int32, reflect.Int64:
		return c03Val{Class: "int", Bytes: c03BigBytes(big.NewInt(rv.Int()), int(rv.Type().Size()))}
	case reflect.Uint, reflect.Uint8, reflect.Uint16, reflect.Uint32, reflect.Uint64, reflect.Uintptr:
		return c03Val{Class: "int", Bytes: c03BigBytes(new(big.Int).SetUint64(rv.Uint()), int(rv.Type().Size()))}
	case reflect.Float32, reflect.Float64:
		return c03Val{Class: "float", F: c03Unfloat(rv.Float())}
	case reflect.Complex64, reflect.Complex128:
		c := rv.Complex()
		return c03Val{Class: "complex", Re: c03Unfloat(real(c)), Im: c03Unfloat(imag(c))}
	case reflect.String:
		s := rv.String()
		bs := make([]int, len(s))
		for i := 0; i < len(s); i++ {
			bs[i] = int(s[i])
		}
		return c03Val{Class: "string", Bytes: bs}
	case reflect.Slice:
		switch rv.Type().Elem().Kind() {
		case reflect.Uint8:
			bs := make([]int, rv.Len())
			for i := range bs {
				bs[i] = int(rv.Index(i).Uint())
			}
			return c03Val{Class: "bytes", Bytes: bs}
		case reflect.Int32:
			rs := make([]int64, rv.Len())
			for i := range rs {
				rs[i] = rv.Index(i).Int()
			}
			return c03Val{Class: "runes", Runes: rs}
		}
	}
	return c03Val{Class: "?" + rv.Kind().String()}
}

// c03Native builds the harness's own Go value of type t holding v.
func c03Native(t c03Type, v c03Val) (interface{}, error) {
	rt, ok := c03NativeTypes[t.Canon()]
	if !ok {
		return nil, fmt.Errorf("no native type %s", t.Canon())
	}
	rv := reflect.New(rt).Elem()
	switch c03Class(t.U) {
	case "int":
		x := c03IntBig(v.Bytes, c03Signed(t.U))
		if c03Signed(t.U) {
			rv.SetInt(x.Int64())
		} else {
			rv.SetUint(x.Uint64())
		}
	case "float":
		bits := 64
		if t.U == "float32" {
			bits = 32
		}
		x, ok := c03Float(v.F, bits)
		if !ok {
			return nil, fmt.Errorf("value %s is not an exact %s", v.Key(), t.U)
		}
		rv.SetFloat(x)
	case "complex":
		bits := 64
		if t.U == "complex64" {
			bits = 32
		}
		re, ok1 := c03Float(v.Re, bits)
		im, ok2 := c03Float(v.Im, bits)
		if !ok1 || !ok2 {
			return nil, fmt.Errorf("value %s is not an exact %s", v.Key(), t.U)
		}
		rv.SetComplex(complex(re, im))
	case "bool":
		rv.SetBool(v.B)
	case "string":
		bs := make([]byte, len(v.Bytes))
		for i, x := range v.Bytes {
			bs[i] = byte(x)
		}
		rv.SetString(string(bs))
	case "bytes":
		s := reflect.MakeSlice(rt, len(v.Bytes), len(v.Bytes))
		for i, x := range v.Bytes {
			s.Index(i).SetUint(uint64(x))
		}
		rv.Set(s)
	case "runes":
		s := reflect.MakeSlice(rt, len(v.Runes), len(v.Runes))
		for i, x := range v.Runes {
			s.Index(i).SetInt(x)
		}
		rv.Set(s)
	}
	return rv.Interface(), nil
}

// ---------------------------------------------------------------------------------------
// rendering

func c03StrLit(bs []int) string {
	var b strings.Builder
	b.WriteByte('"')
	for _, x := range bs {
		fmt.Fprintf(&b, "\\x%02x", x)
	}
	b.WriteByte('"')
	return b.String()
}

// c03Lit renders a finite value as a Go constant expression / composite literal of type t.
func c03Lit(t c03Type, v c03Val) string {
	switch t.U {
	case "k_int":
		return v.F.lit(true)
	case "k_rune":
		return fmt.Sprintf("'\\U%08x'", v.F.mag().Int64())
	case "k_float":
		return v.F.lit(false)
	}
	switch c03Class(t.U) {
	case "int":
		return c03IntBig(v.Bytes, c03Signed(t.U)).String()
	case "float":
		return v.F.lit(false)
	case "complex":
		return "(" + v.Re.lit(false) + " + " + v.Im.lit(false) + "i)"
	case "bool":
		return fmt.Sprint(v.B)
	case "string":
		return c03StrLit(v.Bytes)
	case "bytes":
		parts := make([]string, len(v.Bytes))
		for i, x := range v.Bytes {
			parts[i] = fmt.Sprintf("0x%02x", x)
		}
		return t.Src() + "{" + strings.Join(parts, ", ") + "}"
	case "runes":
		parts := make([]string, len(v.Runes))
		for i, x := range v.Runes {
			parts[i] = fmt.Sprint(x)
		}
		return t.Src() + "{" + strings.Join(parts, ", ") + "}"
	}
	return "?"
}

func c03Special(v c03Val) bool {
	sp := func(f c03F) bool { return f.Sp != "" || (f.S == 1 && len(f.M) == 0 && f.H == 0) }
	switch v.Class {
	case "float":
		return sp(v.F)
	case "complex":
		return sp(v.Re) || sp(v.Im)
	}
	return false
}

// expression denoting the float f built from the zero-valued variable z of the same float type
func c03SpecialExpr(f c03F, z string) string {
	switch {
	case f.Sp == "nan":
		return z + "/" + z
	case f.Sp == "inf" && f.S == 0:
		return "1/" + z
	case f.Sp == "inf":
		return "-1/" + z
	case len(f.M) == 0 && f.H == 0 && f.S == 1:
		return "-" + z
	case len(f.M) == 0 && f.H == 0:
		return z
	}
	return f.lit(false)
}

// c03Program is one rendering of a cell: declarations, then the expression whose value and
// static type are observed. operand is the name of the variable holding the operand ("" if none).
type c03Program struct {
	Render  string
	Decls   []string
	Expr    string
	Operand string
	// GoFile is the same program as a Go file body for go/types (types are declared by the gate)
	GoDecls []string
}

var c03Renders = map[string][]string{"const": {"global", "func"}, "var": {"global", "param"}}

func c03Render(cell *c03Cell, val c03Val, render string, id int) c03Program {
	S, T := cell.Src.Src(), cell.Dst.Src()
	p := c03Program{Render: render}
	n := fmt.Sprint(id)
	if cell.Shape == "const" {
		lit := c03Lit(cell.Src, val)
		typed := " " + S
		if c03Untyped(cell.Src.U) {
			typed = ""
		}
		switch render {
		case "global":
			if typed == "" {
				// an untyped constant is converted where it stands
				p.Expr = T + "(" + lit + ")"
			} else {
				p.Decls = []string{"const c" + n + typed + " = " + lit}
				p.Expr = T + "(c" + n + ")"
			}
		case "func":
			if typed == "" {
				p.Decls = []string{"const c" + n + " = " + lit}
				p.Expr = T + "(c" + n + ")"
			} else {
				p.Decls = []string{"func f" + n + "() " + T + " { const c" + typed + " = " + lit + "; return " + T + "(c) }"}
				p.Expr = "f" + n + "()"
			}
		}
		p.GoDecls = p.Decls
		return p
	}
	// variable operand
	v := "v" + n
	p.Operand = v
	if c03Special(val) {
		switch val.Class {
		case "float":
			p.Decls = []string{"var z" + n + " " + S, "var " + v + " " + S + " = " + c03SpecialExpr(val.F, "z"+n)}
		case "complex":
			part := "float64"
			if cell.Src.U == "complex64" {
				part = "float32"
			}
			p.Decls = []string{"var z" + n + " " + part,
				"var " + v + " " + S + " = complex(" + c03SpecialExpr(val.Re, "z"+n) + ", " + c03SpecialExpr(val.Im, "z"+n) + ")"}
		}
	} else {
		p.Decls = []string{"var " + v + " " + S + " = " + c03Lit(cell.Src, val)}
	}
	switch render {
	case "global":
		p.Expr = T + "(" + v + ")"
	case "param":
		p.Decls = append(p.Decls, "func g"+n+"(p "+S+") "+T+" { return "+T+"(p) }")
		p.Expr = "g" + n + "(" + v + ")"
	}
	p.GoDecls = p.Decls
	return p
}

func (p c03Program) Source() string {
	return strings.Join(append(append([]string{}, p.Decls...), p.Expr), "\n")
}

// ---------------------------------------------------------------------------------------
// outcomes

type c03Outcome struct {
	Kind string // "value" | "compile-error" | "panics" | "setup"
	Key  string
	Type string
	Msg  string
}

func (o c03Outcome) String() string {
	switch o.Kind {
	case "value":
		return fmt.Sprintf("value %s of type %s", o.Key, o.Type)
	default:
		return o.Kind + " (" + o.Msg + ")"
	}
}

// c03Expected turns the model's expectation into an outcome.
func c03Expected(cell *c03Cell) (c03Outcome, error) {
	if cell.Exp.R == "compile-error" {
		return c03Outcome{Kind: "compile-error", Msg: cell.Exp.Why}, nil
	}
	if cell.Exp.R != "value" || cell.Exp.Ty == nil {
		return c03Outcome{}, fmt.Errorf("bad expectation %q", cell.Exp.R)
	}
	v, err := c03ParseVal(c03Class(cell.Exp.Ty.U), false, cell.Exp.V)
	if err != nil {
		return c03Outcome{}, err
	}
	return c03Outcome{Kind: "value", Key: v.Key(), Type: cell.Exp.Ty.Canon()}, nil
}

// c03Diff classifies a disagreement ("" = agree).
func c03Diff(want, got c03Outcome) string {
	switch {
	case got.Kind == "panics":
		return "panics"
	case want.Kind == "compile-error" && got.Kind == "compile-error":
		return ""
	case want.Kind == "compile-error":
		return "accepted-but-go-rejects"
	case got.Kind == "compile-error":
		return "rejected-but-go-accepts"
	case want.Key != got.Key:
		return "value-differs"
	case want.Type != got.Type:
		return "type-differs"
	}
	return ""
}

// ---------------------------------------------------------------------------------------
// gate: go/types + native conversions

var c03GoPrelude = "package p\n" + c03TypeDecls()

// c03GoTypes type-checks the rendered program. It reports whether the conversion is accepted,
// the static type and (for constant results) the constant value of the observed expression.
func c03GoTypes(p c03Program) (accepted bool, typ string, cv constant.Value, msg string, err error) {
	var src strings.Builder
	src.WriteString(c03GoPrelude)
	for _, d := range p.GoDecls {
		src.WriteString(d + "\n")
	}
	src.WriteString("var result = " + p.Expr + "\n")
	fset := token.NewFileSet()
	file, perr := parser.ParseFile(fset, "cell.go", src.String(), 0)
	if perr != nil {
		return false, "", nil, "", fmt.Errorf("rendered program does not parse: %v\n%s", perr, src.String())
	}
	var errs []types.Error
	conf := types.Config{Error: func(e error) {
		if te, ok := e.(types.Error); ok && !te.Soft {
			errs = append(errs, te)
		}
	}}
	info := &types.Info{Types: map[ast.Expr]types.TypeAndValue{}}
	conf.Check("p", fset, []*ast.File{file}, info)
	// the conversion is the only call expression of the form T(x) with T one of our types
	var conv *ast.CallExpr
	ast.Inspect(file, func(n ast.Node) bool {
		if ce, ok := n.(*ast.CallExpr); ok && conv == nil && len(ce.Args) == 1 {
			if tv, ok := info.Types[ce.Fun]; ok && tv.IsType() {
				conv = ce
				return false
			}
			if _, isArr := ce.Fun.(*ast.ArrayType); isArr {
				conv = ce
				return false
			}
		}
		return true
	})
	if conv == nil {
		return false, "", nil, "", fmt.Errorf("no conversion found in\n%s", src.String())
	}
	if len(errs) > 0 {
		for _, e := range errs {
			if e.Pos < conv.Pos() || e.Pos > conv.End() {
				return false, "", nil, "", fmt.Errorf("go/types rejects the set-up, not the conversion: %v\n%s", e, src.String())
			}
		}
		return false, "", nil, errs[0].Msg, nil
	}
	tv := info.Types[conv]
	return true, c03CanonName(types.TypeString(tv.Type, func(*types.Package) string { return "" })), tv.Value, "", nil
}

// c03ConstVal projects a go/constant value of a destination type.
func c03ConstVal(dst c03Type, cv constant.Value) c03Val {
	fl := func(x constant.Value) c03F {
		f, _ := constant.Float64Val(constant.ToFloat(x))
		r := c03Unfloat(f)
		if len(r.M) == 0 && r.H == 0 && r.Sp == "" {
			r.S = 0
		}
		return r
	}
	switch c03Class(dst.U) {
	case "int":
		x := constant.ToInt(cv)
		if x.Kind() != constant.Int {
			return c03Val{Class: "?notint"}
		}
		b, ok := new(big.Int).SetString(x.ExactString(), 10)
		if !ok {
			return c03Val{Class: "?notint"}
		}
		return c03Val{Class: "int", Bytes: c03BigBytes(b, c03Width(dst.U))}
	case "float":
		return c03Val{Class: "float", F: fl(cv)}
	case "complex":
		return c03Val{Class: "complex", Re: fl(constant.Real(cv)), Im: fl(constant.Imag(cv))}
	case "bool":
		return c03Val{Class: "bool", B: constant.BoolVal(cv)}
	case "string":
		s := constant.StringVal(cv)
		bs := make([]int, len(s))
		for i := 0; i < len(s); i++ {
			bs[i] = int(s[i])
		}
		return c03Val{Class: "string", Bytes: bs}
	}
	return c03Val{Class: "?"}
}

// c03GateCell checks the model's expectation for one cell against Go itself. "" = agrees.
func c03GateCell(cell *c03Cell, val c03Val, want c03Outcome) (string, error) {
	accepted, typ, cv, msg, err := c03GoTypes(c03Render(cell, val, "global", 0))
	if err != nil {
		return "", err
	}
	if !accepted {
		if want.Kind != "compile-error" {
			return fmt.Sprintf("go/types rejects (%s), specification expects %v", msg, want), nil
		}
		return "", nil
	}
	if want.Kind == "compile-error" {
		return fmt.Sprintf("go/types accepts (type %s), specification expects compile error (%s)", typ, want.Msg), nil
	}
	if typ != want.Type {
		return fmt.Sprintf("go/types gives static type %s, specification %s", typ, want.Type), nil
	}
	var got c03Val
	if cv != nil {
		got = c03ConstVal(cell.Dst, cv)
	} else {
		src := cell.Src
		if src.U == "k_string" {
			src = c03Type{U: "string"}
		}
		if c03Untyped(src.U) {
			return "", fmt.Errorf("non-constant result from untyped %s", src.U)
		}
		conv := c03NativeTab[src.Canon()+"->"+cell.Dst.Canon()]
		if conv == nil {
			return fmt.Sprintf("go/types accepts %s -> %s but the harness has no native conversion", src.Canon(), cell.Dst.Canon()), nil
		}
		x, err := c03Native(src, val)
		if err != nil {
			return "", err
		}
		y := conv(x)
		got = c03Project(reflect.ValueOf(y))
		if nt := c03CanonRT(reflect.TypeOf(y)); nt != want.Type {
			return fmt.Sprintf("native static type %s, specification %s", nt, want.Type), nil
		}
	}
	if got.Key() != want.Key {
		return fmt.Sprintf("Go gives %s, specification %s", got.Key(), want.Key), nil
	}
	return "", nil
}

// ---------------------------------------------------------------------------------------
// the interpreter side

type c03Interp struct {
	g     *gm.Interp
	n     int
	cells int
}

func newC03Interp() (*c03Interp, error) {
	it := &c03Interp{g: gm.New()}
	for _, d := range strings.Split(strings.TrimSpace(c03TypeDecls()), "\n") {
		if o := it.eval(d); o.Kind != "value" {
			return nil, core.Infra("interpreter rejects the type declaration %q: %v", d, o)
		}
	}
	return it, nil
}

// eval compiles and runs one input, separating compile-time rejection from run-time panic.
func (it *c03Interp) eval(src string) (out c03Outcome) { return it.evalFresh(src, false) }

// evalFresh: with fresh, a slice result must be a new slice at every evaluation (conversions
// from strings)
func (it *c03Interp) evalFresh(src string, fresh bool) (out c03Outcome) {
	phase := "compile-error"
	defer func() {
		if r := recover(); r != nil {
			out = c03Outcome{Kind: phase, Msg: strings.TrimSpace(fmt.Sprint(r))}
		}
	}()
	e := it.g.Ir.Compile(src)
	phase = "panics"
	vs, ts := it.g.Ir.RunExpr(e)
	out.Kind = "value"
	if len(vs) >= 1 && vs[0].IsValid() && len(ts) >= 1 && ts[0] != nil {
		rv := vs[0].ReflectValue()
		for rv.Kind() == reflect.Interface && !rv.IsNil() {
			rv = rv.Elem()
		}
		out.Key = c03Project(rv).Key()
		out.Type = c03CanonName(ts[0].String())
		// a conversion to a slice type yields a NEW slice at every evaluation: change the result
		// and evaluate the same compiled expression again
		if fresh && rv.Kind() == reflect.Slice && rv.Len() > 0 && rv.Index(0).CanSet() {
			el := rv.Index(0)
			switch el.Kind() {
			case reflect.Uint8, reflect.Uint16, reflect.Uint32, reflect.Uint64, reflect.Uint:
				el.SetUint(el.Uint() ^ 1)
			case reflect.Int8, reflect.Int16, reflect.Int32, reflect.Int64, reflect.Int:
				el.SetInt(el.Int() ^ 1)
			default:
				return out
			}
			vs2, _ := it.g.Ir.RunExpr(e)
			if len(vs2) >= 1 && vs2[0].IsValid() {
				rv2 := vs2[0].ReflectValue()
				for rv2.Kind() == reflect.Interface && !rv2.IsNil() {
					rv2 = rv2.Elem()
				}
				if k2 := c03Project(rv2).Key(); k2 != out.Key {
					out.Key = k2 + " (second evaluation, after the first result was modified: the slice is shared)"
				}
			}
		}
	}
	return out
}

// run evaluates one rendering of a cell.
func (it *c03Interp) run(cell *c03Cell, val c03Val, render string) (c03Outcome, c03Program) {
	it.n++
	p := c03Render(cell, val, render, it.n)
	for i, d := range p.Decls {
		o := it.eval(d)
		if o.Kind == "value" {
			continue
		}
		// a declaration may only fail where it contains the conversion itself
		if cell.Shape == "const" && i == len(p.Decls)-1 && render == "func" && !c03Untyped(cell.Src.U) {
			return o, p
		}
		if cell.Shape == "var" && render == "param" && i == len(p.Decls)-1 {
			return o, p
		}
		return c03Outcome{Kind: "setup", Msg: fmt.Sprintf("declaration %q: %v", d, o)}, p
	}
	if p.Operand != "" {
		// the operand must hold the intended value before the conversion is judged
		o := it.eval(p.Operand)
		want := val.Key()
		if o.Kind != "value" || o.Key != want || o.Type != cell.Src.Canon() {
			return c03Outcome{Kind: "setup", Msg: fmt.Sprintf("operand %s holds %v, intended %s of type %s", p.Operand, o, want, cell.Src.Canon())}, p
		}
	}
	return it.evalFresh(p.Expr, c03Class(cell.Src.U) == "string"), p
}

// ---------------------------------------------------------------------------------------
// driver

type c03Runner struct {
	c            *core.Ctx
	mu           sync.Mutex
	err          error
	gateMsgs     []string
	confirms     map[string]int
	classes      map[string]int
	pairs        map[string]bool
	setup        int
	fresh        int
	classEx      map[string]string
	families     map[string]int
	unclassified []string
	sampled      int
}

func newC03Runner(c *core.Ctx) *c03Runner {
	return &c03Runner{c: c, confirms: map[string]int{}, classes: map[string]int{}, classEx: map[string]string{}, families: map[string]int{}, pairs: map[string]bool{}}
}

func (r *c03Runner) fail(err error) {
	r.mu.Lock()
	if r.err == nil {
		r.err = err
	}
	r.mu.Unlock()
}

func c03Sig(cell *c03Cell, diff string) string {
	return fmt.Sprintf("conv(%s->%s,%s):%s", cell.Src.Src(), cell.Dst.Src(), cell.Shape, diff)
}

// c03Family names the defect family of a disagreement by a predicate over the cell (reporting aid
// for the evidence file; the verdict does not depend on it). "" = outside every family seen so far.
func c03Family(cell *c03Cell, val c03Val, diff string) string {
	cs, cd := c03Class(cell.Src.U), c03Class(cell.Dst.U)
	switch {
	case cell.Shape == "const" && !c03Untyped(cell.Src.U) && (diff == "accepted-but-go-rejects" || diff == "rejected-but-go-accepts"):
		return "F1 typed constant operand converted by the run-time rules (no representability check; int/float<->complex refused)"
	case cell.Shape == "const" && cell.Src.U == "k_int" && (cd == "float" || cd == "complex") && !c03Fits64(val.F) &&
		(diff == "value-differs" || diff == "accepted-but-go-rejects"):
		return "F2 untyped integer constant outside the int64/uint64 range converted to a float/complex type through 64 bits"
	case cell.Shape == "const" && cd == "int" && diff == "rejected-but-go-accepts" &&
		((cell.Src.U == "k_float" && val.F.mag().BitLen() > 53) || (cell.Src.U == "k_complex" && val.Re.mag().BitLen() > 53)):
		return "F3 integral untyped float/complex constant with more than 53 significant bits refused by an integer type that can represent it"
	case cell.Shape == "var" && cs == cd && (cs == "bytes" || cs == "runes") && cell.Src.U != cell.Dst.U && diff == "accepted-but-go-rejects":
		return "F4 slice types whose element types differ only by name are convertible"
	}
	return ""
}

// c03Fits64: is the integer f representable in int64 (negative) or uint64 (non-negative)?
func c03Fits64(f c03F) bool {
	m := f.mag()
	if f.S == 1 {
		return m.Cmp(new(big.Int).Lsh(big.NewInt(1), 63)) <= 0
	}
	return m.BitLen() <= 64
}

// check processes one record. gate=false skips the Go gate (self-test only).
// It returns the mismatch descriptions found (after confirmation).
func (r *c03Runner) check(it **c03Interp, line []byte, gate bool, onlyRender string) []string {
	c := r.c
	var cell c03Cell
	if err := json.Unmarshal(line, &cell); err != nil {
		r.fail(core.Infra("bad record from TLC: %v: %.200s", err, line))
		return nil
	}
	val, err := c03ParseVal(c03Class(cell.Src.U), c03Untyped(cell.Src.U), cell.Val)
	if err != nil {
		r.fail(core.Infra("bad value in record: %v: %.200s", err, line))
		return nil
	}
	want, err := c03Expected(&cell)
	if err != nil {
		r.fail(core.Infra("bad expectation in record: %v: %.200s", err, line))
		return nil
	}
	if gate {
		msg, err := c03GateCell(&cell, val, want)
		if err != nil {
			r.fail(core.Infra("gate: %v", err))
			return nil
		}
		c.Gate(msg == "")
		if msg != "" {
			r.mu.Lock()
			if len(r.gateMsgs) < 20 {
				r.gateMsgs = append(r.gateMsgs, fmt.Sprintf("%s -> %s %s %s: %s", cell.Src.Src(), cell.Dst.Src(), cell.Shape, val.Key(), msg))
			}
			r.mu.Unlock()
			return []string{"gate: " + msg}
		}
	}
	r.mu.Lock()
	r.pairs[cell.Src.Src()+"->"+cell.Dst.Src()+","+cell.Shape] = true
	if r.sampled < 4 && want.Kind == "value" && cell.Src.U != cell.Dst.U && len(line) < 600 {
		r.sampled++
		c.Sample(json.RawMessage(append([]byte(nil), line...)))
	}
	r.mu.Unlock()
	nontrivial := want.Kind == "compile-error" || cell.Src.U != cell.Dst.U
	var out []string
	for _, render := range c03Renders[cell.Shape] {
		if onlyRender != "" && render != onlyRender {
			continue
		}
		if *it == nil || (*it).cells > 1500 {
			ni, err := newC03Interp()
			if err != nil {
				r.fail(err)
				return out
			}
			*it = ni
		}
		(*it).cells++
		got, prog := (*it).run(&cell, val, render)
		c.Case(string(line)+"|"+render, nontrivial)
		c.Trace()
		if got.Kind == "setup" {
			r.mu.Lock()
			r.setup++
			r.mu.Unlock()
			r.fail(core.Infra("cannot set up the operand (outside C03): %s\n%s", got.Msg, prog.Source()))
			continue
		}
		diff := c03Diff(want, got)
		if diff == "" {
			continue
		}
		sig := c03Sig(&cell, diff)
		r.mu.Lock()
		r.confirms[sig]++
		nth := r.confirms[sig]
		r.mu.Unlock()
		cls := fmt.Sprintf("%s->%s,%s:%s", c03Class(cell.Src.U), c03Class(cell.Dst.U), cell.Shape, diff)
		r.mu.Lock()
		r.classes[cls]++
		freshConfirm := nth == 1 && (r.classes[cls] <= 2 || r.fresh < 48)
		if freshConfirm {
			r.fresh++
		}
		r.mu.Unlock()
		// confirmation: the first disagreements of every class and signature are re-run in a fresh
		// interpreter (expensive: fast.New), the others a second time under new names
		var again c03Outcome
		if freshConfirm {
			fi, err := newC03Interp()
			if err != nil {
				r.fail(err)
				return out
			}
			again, _ = fi.run(&cell, val, render)
		} else {
			again, _ = (*it).run(&cell, val, render)
		}
		if d2 := c03Diff(want, again); d2 != diff {
			r.fail(core.Infra("mismatch not reproducible: %s: first %v, then %v\n%s", sig, got, again, prog.Source()))
			continue
		}
		fam := c03Family(&cell, val, diff)
		if fam == "" {
			fam = "UNCLASSIFIED " + cls
			r.mu.Lock()
			if len(r.unclassified) < 12 {
				r.unclassified = append(r.unclassified, strings.ReplaceAll(prog.Source(), "\n", "; ")+"  => Go: "+want.String()+" | gomacro: "+got.String())
			}
			r.mu.Unlock()
		}
		r.mu.Lock()
		r.families[fam]++
		r.mu.Unlock()
		if r.classEx[cls] == "" {
			r.mu.Lock()
			r.classEx[cls] = strings.ReplaceAll(prog.Source(), "\n", "; ") + "  => Go: " + want.String() + " | gomacro: " + got.String()
			r.mu.Unlock()
		}
		what := fmt.Sprintf("%s\n-- Go (specification Conv.tla, gated): %v\n-- gomacro: %v", prog.Source(), want, got)
		out = append(out, sig+": "+what)
		// a disagreement inside one of the named defect families is reported under the family's
		// predicate + disagreement shape (one known-findings entry per root cause and shape);
		// anything else keeps its exact per-pair signature
		ksig := sig
		if len(fam) > 3 && fam[0] == 'F' && fam[2] == ' ' {
			ksig = "SigConvFamily" + fam[:2] + ":" + sig[strings.LastIndex(sig, ":")+1:]
		}
		c.Violation(ksig, what, c03Replay{Cell: cell, Render: render, Source: prog.Source()})
	}
	return out
}

// consume runs the given TLC configurations concurrently and feeds their records to `workers`
// interpreter workers.
func (r *c03Runner) consume(workers int, runs []core.TLCOpts) error {
	ch := make(chan []byte, 8192)
	var wg sync.WaitGroup
	for w := 0; w < workers; w++ {
		wg.Add(1)
		go func() {
			defer wg.Done()
			var it *c03Interp
			for line := range ch {
				func() {
					defer func() {
						if p := recover(); p != nil {
							r.fail(core.Infra("harness panic on %.300s: %v", line, p))
						}
					}()
					r.check(&it, line, true, "")
				}()
			}
		}()
	}
	var tw sync.WaitGroup
	for _, o := range runs {
		o := o
		o.OnLine = func(line []byte) { ch <- append([]byte(nil), line...) }
		tw.Add(1)
		go func() {
			defer tw.Done()
			if _, err := r.c.TLC(o); err != nil {
				r.fail(err)
			}
		}()
	}
	tw.Wait()
	close(ch)
	wg.Wait()
	return r.err
}

func c03Cfg(tier string, lib, cells bool, simK int, broken, utf8Broken string, emit bool, invs string) string {
	b := func(x bool) string { return strings.ToUpper(fmt.Sprint(x)) }
	return fmt.Sprintf("SPECIFICATION Spec\nCONSTANTS\n Tier = %q\n DoLib = %s\n DoCells = %s\n SimK = %d\n Broken = %q\n EmitOn = %s\n Utf8Broken = %q\nINVARIANTS %s\n",
		tier, b(lib), b(cells), simK, broken, b(emit), utf8Broken, invs)
}

const c03Invs = "TableLaws IntDef RoundTrips WellFormed ConstLaws LibOK Emit"

func runC03(c *core.Ctx) error {
	r := newC03Runner(c)
	tier := "quick"
	if c.Thorough() {
		tier = "thorough"
	}
	// (M) + (R): library checks, table laws and every boundary-value cell, breadth first;
	// (R): seeded random bit patterns by simulation. Both TLC runs feed the same workers.
	err := r.consume(6, []core.TLCOpts{
		{Spec: "Conv", CfgName: "cells-bfs-" + tier,
			Cfg: c03Cfg(tier, true, true, 0, "none", "none", true, c03Invs), Workers: 6, Timeout: 40 * time.Minute},
		{Spec: "Conv", CfgName: "cells-sim-" + tier,
			Cfg:      c03Cfg(tier, false, false, 8, "none", "none", true, "WellFormed RoundTrips ConstLaws Emit"),
			Simulate: true, SimNum: c.Pick(500, 12000), SimDepth: 3, Seed: c.Seed, Workers: 2, Timeout: 40 * time.Minute},
	})
	if err != nil {
		return err
	}
	c.Exhaustive = true // the BFS run enumerated every cell of the bounded value sets
	c.Extra["ordered_pairs_with_shape_covered"] = len(r.pairs)
	c.Extra["gate_mismatch_examples"] = r.gateMsgs
	cls := map[string]int{}
	for k, v := range r.classes {
		cls[k] = v
	}
	c.Extra["disagreement_classes"] = cls
	c.Extra["disagreement_examples"] = r.classEx
	c.Extra["disagreement_families"] = r.families
	c.Extra["unclassified_examples"] = r.unclassified
	for _, u := range r.unclassified {
		fmt.Printf("  unclassified: %.300s\n", u)
	}
	for k, v := range r.families {
		fmt.Printf("  family: %6d  %s\n", v, k)
	}
	if len(r.gateMsgs) > 0 {
		fmt.Printf("  gate mismatches (specification bugs), first %d:\n", len(r.gateMsgs))
		for _, m := range r.gateMsgs {
			fmt.Println("    " + m)
		}
	}
	if len(cls) > 0 {
		var ks []string
		for k := range cls {
			ks = append(ks, k)
		}
		sort.Strings(ks)
		fmt.Println("  disagreements by class (source class->destination class,shape:kind):")
		for _, k := range ks {
			fmt.Printf("    %-50s %d   e.g. %.300s\n", k, cls[k], r.classEx[k])
		}
	}
	c.Assume("amd64: int, uint and uintptr are 64 bits wide")
	c.Assume("floating-point values are restricted to the exact sub-domain of Conv.tla (integers and half-integers with at most 24/53 significant bits, magnitude < 2^66, +-Inf, NaN, -0); float -> integer only where the truncated value is representable")
	c.Assume("conversions from/to unsafe.Pointer are documented as unsupported by gomacro and are not generated")
	c.Assume("a variable holding -0, an infinity or a NaN is set up by arithmetic on a zero-valued variable (-z, 1/z, z/z) and verified before the conversion is judged")
	return r.err
}

func replayC03(c *core.Ctx, raw json.RawMessage) error {
	var rp c03Replay
	if err := json.Unmarshal(raw, &rp); err != nil {
		return err
	}
	line, _ := json.Marshal(rp.Cell)
	r := newC03Runner(c)
	var it *c03Interp
	r.check(&it, line, true, rp.Render)
	if c.GateRejects > 0 {
		return core.Infra("the stored expectation disagrees with Go: %v", r.gateMsgs)
	}
	return r.err
}

func selfTestC03(c *core.Ctx) error {
	// broken variants of the specification must be caught by TLC
	for _, bv := range []struct {
		broken, utf8, invs string
		lib, cells         bool
	}{
		{"zeroext", "none", "IntDef", false, true},
		{"constwrap", "none", "ConstLaws", false, true},
		{"roundup", "none", "LibOK", true, false},
		{"boolnum", "none", "TableLaws", false, false},
		{"none", "surrogates", "LibOK", true, false},
	} {
		res, err := c.TLC(core.TLCOpts{Spec: "Conv", CfgName: "broken-" + bv.broken + "-" + bv.utf8,
			Cfg: c03Cfg("quick", bv.lib, bv.cells, 0, bv.broken, bv.utf8, false, bv.invs), Workers: 6, ExpectError: true})
		if err != nil {
			return err
		}
		if res.Violated != bv.invs {
			return fmt.Errorf("broken variant Broken=%s Utf8Broken=%s not detected by TLC (violated=%q)", bv.broken, bv.utf8, res.Violated)
		}
	}
	// a correct record is accepted; corrupted records are rejected by the gate and, with the gate
	// bypassed, by the comparison with the interpreter
	good := `{"src":{"u":"int16","n":0},"dst":{"u":"int8","n":1},"shape":"var","val":[44,1],"exp":{"r":"value","v":[44],"ty":{"u":"int8","n":1}}}`
	bad := []string{
		strings.Replace(good, `"v":[44]`, `"v":[45]`, 1),
		strings.Replace(good, `"ty":{"u":"int8","n":1}`, `"ty":{"u":"int8","n":0}`, 1),
		strings.Replace(good, `"exp":{"r":"value","v":[44],"ty":{"u":"int8","n":1}}`, `"exp":{"r":"compile-error","why":"overflow"}`, 1),
		`{"src":{"u":"string","n":0},"dst":{"u":"runes","n":0},"shape":"var","val":[237,160,128],"exp":{"r":"value","v":[55296],"ty":{"u":"runes","n":0}}}`,
	}
	mk := func() (*core.Ctx, *c03Runner) {
		c2 := core.NewCtx("C03", "selftest")
		c2.Verif = c.Verif
		c2.MaxViolations = -1
		return c2, newC03Runner(c2)
	}
	var it *c03Interp
	c2, r := mk()
	if m := r.check(&it, []byte(good), true, ""); len(m) != 0 || r.err != nil || c2.GateRejects != 0 {
		return fmt.Errorf("correct record rejected: %v %v", m, r.err)
	}
	for _, b := range bad {
		c2, r = mk()
		if m := r.check(&it, []byte(b), true, ""); len(m) == 0 || c2.GateRejects != 1 {
			return fmt.Errorf("corrupted record accepted by the gate: %s", b)
		}
		c2, r = mk()
		if m := r.check(&it, []byte(b), false, ""); len(m) == 0 || c2.Violations() == 0 {
			return fmt.Errorf("corrupted record accepted by the comparison with the interpreter: %s", b)
		}
	}
	return nil
}

package props

import (
	"crypto/sha1"
	"encoding/hex"
	"encoding/json"
	"fmt"
	"runtime"
	"sort"
	"strconv"
	"strings"
	"sync"
	"time"

	"github.com/cosmos72/gomacro/fast"
	"github.com/cosmos72/gomacro/go/etoken"
	gotypes "github.com/cosmos72/gomacro/go/types"
	xr "github.com/cosmos72/gomacro/xreflect"

	"verif/harness/core"
	"verif/harness/gate"
	"verif/harness/gm"
	"verif/harness/show"
)

// C35: generic instantiation behaves like textual specialisation and is memoised.
//
// Spec: spec/sem/Generic.tla - type expressions (aliases, local aliases, defined types,
// different spellings), their normal form = the instantiation key, SameInstance, the templates'
// meaning on opaque value tokens, behaviours = sequences of uses from different scopes with the
// expected outputs and the expected identity relation between the instances.
//
// Every behaviour is rendered (a) as the hand-specialised, generics-free copy: run on gomacro
// AND compiled natively (RunProgCases, gate fraction 1) - this pins the model's expected
// values to compiled Go; (b) in gomacro's generics syntax, flavour V1 "C++ style"
// (template[T] func ...) and flavour V2 "CTI" (func F#[T](...)): values compared with the
// model, instances compared with the model's identity relation through the interpreter's own
// instance tables (fast.GenericFunc.Instances / GenericType.Instances: pointer sets after each
// use), through the go/types object of the instantiated named type, xreflect.Type.IdenticalTo
// and assignability of values of two identical instantiations.
//
// The generics switch etoken.GENERICS is process-wide: the phases (specialised, V1, V2) run one
// after the other and the previous value is restored when Run returns.

func init() {
	core.Register(&core.Prop{
		ID: "C35",
		Rule: "TLC (Generic.tla) enumerates behaviours = (template in {Id, Swap, MapSl, Rep, Last, Pair+MkP/Fst/Snd}, sequence of 2-3 uses); " +
			"a use = (type argument list spelled through aliases / local aliases / defined types / parentheses / composite types, scope in {top level, function body, nested closure, block}, value tokens); " +
			"BFS takes every sequence of argument lists of the menus (scope and values derived from the position and the seed), simulation draws random uses that often re-spell an earlier argument list; " +
			"an evaluation is one behaviour in one generics rendering (V1 | V2), or one program of 24 behaviours' hand-specialised copies (gomacro + compiled natively); " +
			"non-trivial = every one (each instantiates and runs a generic or its copy, and compares instance identity); distinct by (rendering, behaviour | group)",
		Run:      runC35,
		Replay:   replayC35,
		SelfTest: selfTestC35,
	})
}

// ---------------------------------------------------------------------------------------
// records

// c35Type is a type expression tree of Generic.tla.
type c35Type struct {
	Op   string // b al lo nm pa sl pt st mp
	Name string
	Args []*c35Type
}

func (t *c35Type) UnmarshalJSON(b []byte) error {
	var parts []json.RawMessage
	if err := json.Unmarshal(b, &parts); err != nil || len(parts) < 2 {
		return fmt.Errorf("type expression %s", b)
	}
	if err := json.Unmarshal(parts[0], &t.Op); err != nil {
		return err
	}
	rest := parts[1:]
	switch t.Op {
	case "b", "nm", "al", "lo":
		if err := json.Unmarshal(rest[0], &t.Name); err != nil {
			return err
		}
		rest = rest[1:]
	}
	for _, r := range rest {
		a := &c35Type{}
		if err := json.Unmarshal(r, a); err != nil {
			return err
		}
		t.Args = append(t.Args, a)
	}
	return nil
}

func (t *c35Type) MarshalJSON() ([]byte, error) {
	parts := []interface{}{t.Op}
	if t.Name != "" {
		parts = append(parts, t.Name)
	}
	for _, a := range t.Args {
		parts = append(parts, a)
	}
	return json.Marshal(parts)
}

// Spell renders the type expression; local aliases by name (inside the declaring function) or,
// with unfold, by their target (anywhere else).
func (t *c35Type) Spell(unfold bool) string {
	switch t.Op {
	case "b", "nm", "al":
		return t.Name
	case "lo":
		if unfold {
			return t.Args[0].Spell(true)
		}
		return t.Name
	case "pa":
		return "(" + t.Args[0].Spell(unfold) + ")"
	case "sl":
		return "[]" + t.Args[0].Spell(unfold)
	case "pt":
		return "*" + t.Args[0].Spell(unfold)
	case "st":
		return "struct{ A " + t.Args[0].Spell(unfold) + " }"
	case "mp":
		return "map[" + t.Args[0].Spell(unfold) + "]" + t.Args[1].Spell(unfold)
	}
	return "?"
}

// locals collects the declarations of the local aliases the expression mentions.
func (t *c35Type) locals(into map[string]string) {
	if t.Op == "lo" {
		into[t.Name] = "type " + t.Name + " = " + t.Args[0].Spell(true)
	}
	for _, a := range t.Args {
		a.locals(into)
	}
}

type c35Out struct {
	K   string  `json:"k"` // tok seq pair int
	Ty  string  `json:"ty"`
	I   int     `json:"i"`
	Is  []int   `json:"is"`
	Nil bool    `json:"nil"`
	A   *c35Out `json:"a"`
	B   *c35Out `json:"b"`
	N   int     `json:"n"`
}

type c35Use struct {
	Args   []*c35Type `json:"args"`
	Canon  []string   `json:"canon"`
	Key    []string   `json:"key"`
	Scope  string     `json:"scope"`
	V      []int      `json:"v"`
	N      int        `json:"n"`
	Op     string     `json:"op"`
	Out    []c35Out   `json:"out"`
	SameAs int        `json:"sameas"`
}

type c35Beh struct {
	T     string   `json:"t"`
	Uses  []c35Use `json:"uses"`
	NInst int      `json:"ninst"`
	id    string   // stable suffix of the generated names
	raw   json.RawMessage
}

func (b *c35Beh) prepare(raw []byte) {
	h := sha1.Sum(raw)
	b.id = hex.EncodeToString(h[:4])
	b.raw = append(json.RawMessage(nil), raw...)
}

// the Go declarations every rendering starts from (Generic.tla: AI, AS, AAI, AStr, NI, NS)
const c35Prelude = "type AI = int\ntype AS = []int\ntype AAI = AI\ntype AStr = string\ntype NI int\ntype NS struct{ A int }\nvar c35p1, c35p2 = 11, 21\n"

// ---------------------------------------------------------------------------------------
// value tokens: <<normal form of the type, i>> -> Go expression and projection

func c35SplitMap(ty string) (k, v string) {
	// "map[K]V": K has no brackets of its own in the generated menus except slices; find the
	// bracket that closes the first one
	depth := 0
	for i := 3; i < len(ty); i++ {
		switch ty[i] {
		case '[':
			depth++
		case ']':
			depth--
			if depth == 0 {
				return ty[4:i], ty[i+1:]
			}
		}
	}
	return "?", "?"
}

// c35Tok returns the Go expression and the show.Show projection of token i of type ty.
func c35Tok(ty string, i int) (lit, shw string) {
	switch {
	case ty == "int" || ty == "NI":
		n := 0
		if i > 0 {
			n = 10*i + 1
		}
		if ty == "NI" {
			return fmt.Sprintf("NI(%d)", n), show.Show(n)
		}
		return strconv.Itoa(n), show.Show(n)
	case ty == "string":
		s := []string{"", "a", "b"}[i]
		return strconv.Quote(s), show.Show(s)
	case ty == "bool":
		return strconv.FormatBool(i == 1), show.Show(i == 1)
	case ty == "float64":
		f := 0.0
		if i > 0 {
			f = float64(i) + 0.5
		}
		return strconv.FormatFloat(f, 'f', 1, 64), show.Show(f)
	case ty == "uint8":
		n := uint8(0)
		if i > 0 {
			n = uint8(96 + i)
		}
		return fmt.Sprintf("uint8(%d)", n), show.Show(n)
	case ty == "int32":
		n := int32(0)
		if i > 0 {
			n = int32(64 + i)
		}
		return fmt.Sprintf("int32(%d)", n), show.Show(n)
	case ty == "NS":
		l, s := c35Tok("int", i)
		return "NS{" + l + "}", "{" + s + "}"
	case strings.HasPrefix(ty, "[]"):
		e := ty[2:]
		switch i {
		case 0:
			return "(" + ty + ")(nil)", "slice:nil"
		case 1:
			l1, s1 := c35Tok(e, 1)
			return ty + "{" + l1 + "}", "[" + s1 + "]"
		}
		l1, s1 := c35Tok(e, 1)
		l2, s2 := c35Tok(e, 2)
		return ty + "{" + l2 + ", " + l1 + "}", "[" + s2 + " " + s1 + "]"
	case strings.HasPrefix(ty, "*"):
		switch i {
		case 0:
			return "(" + ty + ")(nil)", "ptr:nil"
		case 1:
			return "&c35p1", "&int:11"
		}
		return "&c35p2", "&int:21"
	case strings.HasPrefix(ty, "map["):
		k, v := c35SplitMap(ty)
		if i == 0 {
			return "(" + ty + ")(nil)", "map:nil"
		}
		k1, sk1 := c35Tok(k, 1)
		v1, sv1 := c35Tok(v, 1)
		if i == 1 {
			return ty + "{" + k1 + ": " + v1 + "}", "map[" + sk1 + "=>" + sv1 + "]"
		}
		k2, sk2 := c35Tok(k, 2)
		v2, sv2 := c35Tok(v, 2)
		ps := []string{sk1 + "=>" + sv2, sk2 + "=>" + sv1}
		c34SortStrings(ps)
		return ty + "{" + k1 + ": " + v2 + ", " + k2 + ": " + v1 + "}", "map[" + strings.Join(ps, " ") + "]"
	case strings.HasPrefix(ty, "struct{A "):
		e := strings.TrimSuffix(strings.TrimPrefix(ty, "struct{A "), "}")
		l, s := c35Tok(e, i)
		return "struct{ A " + e + " }{" + l + "}", "{" + s + "}"
	}
	panic("c35: no tokens for type " + ty)
}

// c35IsTok1 renders the test "x is token 1 of type ty" (equality where the type is comparable,
// the length where it is a slice or a map: token 1 has one element, token 2 two).
func c35IsTok1(ty, x string) string {
	if strings.HasPrefix(ty, "[]") || strings.HasPrefix(ty, "map[") {
		return "len(" + x + ") == 1"
	}
	l, _ := c35Tok(ty, 1)
	return x + " == (" + l + ")" // parentheses: a composite literal in an if header

}

func c35ShowOut(o *c35Out) string {
	switch o.K {
	case "tok":
		_, s := c35Tok(o.Ty, o.I)
		return s
	case "int":
		return show.Show(o.N)
	case "seq":
		if o.Nil {
			return "slice:nil"
		}
		parts := make([]string, len(o.Is))
		for i, x := range o.Is {
			_, parts[i] = c35Tok(o.Ty, x)
		}
		return "[" + strings.Join(parts, " ") + "]"
	case "pair":
		return "{" + c35ShowOut(o.A) + " " + c35ShowOut(o.B) + "}"
	}
	return "?"
}

func (u *c35Use) want() []string {
	out := make([]string, len(u.Out))
	for i := range u.Out {
		out[i] = c35ShowOut(&u.Out[i])
	}
	return out
}

// ---------------------------------------------------------------------------------------
// templates: one text, rendered generic (V1 / V2) or specialised by textual substitution

type c35Decl struct {
	Kind   string // "func" | "type"
	Name   string // base name; the behaviour's id is appended
	Params string // "T" | "T,U"
	Text   string // signature + body (func) or the type (type); $T $U parameters, $P the Pair instance
}

var c35Templates = map[string][]c35Decl{
	"Id":   {{"func", "Id", "T", "(x $T) $T { return x }"}},
	"Swap": {{"func", "Swap", "T,U", "(a $T, b $U) ($U, $T) { return b, a }"}},
	"MapSl": {{"func", "MapSl", "T,U",
		"(s []$T, f func($T) $U) []$U { r := make([]$U, len(s)); for i := range s { r[i] = f(s[i]) }; return r }"}},
	"Rep": {{"func", "Rep", "T",
		"(x $T, n int) ([]$T, int) { var r []$T; for i := 0; i < n; i++ { r = append(r, x) }; return r, len(r) }"}},
	"Last": {{"func", "Last", "T",
		"(xs []$T, d $T) $T { if len(xs) == 0 { return d }; return xs[len(xs)-1] }"}},
	"Pair": {
		{"type", "Pair", "T,U", "struct { First $T; Second $U }"},
		{"func", "MkP", "T,U", "(a $T, b $U) $P { return $P{a, b} }"},
		{"func", "Fst", "T,U", "(p $P) $T { return p.First }"},
		{"func", "Snd", "T,U", "(p $P) $U { return p.Second }"},
	},
}

// the generic symbols a use instantiates
func c35SymbolsOf(t string, u *c35Use) []string {
	if t != "Pair" {
		return []string{t}
	}
	switch u.Op {
	case "mk":
		return []string{"Pair", "MkP"}
	case "fst":
		return []string{"Pair", "MkP", "Fst"}
	case "snd":
		return []string{"Pair", "MkP", "Snd"}
	}
	return []string{"Pair"}
}

type c35Flavour int

const (
	c35Spec c35Flavour = iota // hand-specialised, generics-free
	c35V1                     // template[T] func Name (...)
	c35V2                     // func Name#[T](...)
)

func (f c35Flavour) String() string {
	return [...]string{"specialised", "generics-v1", "generics-v2"}[f]
}

func c35Subst(text, t, u, p string) string {
	return strings.NewReplacer("$T", t, "$U", u, "$P", p).Replace(text)
}

// c35GenericDecls renders the template's declarations in a generics flavour.
func c35GenericDecls(b *c35Beh, fl c35Flavour) string {
	var sb strings.Builder
	for _, d := range c35Templates[b.T] {
		name := d.Name + "_" + b.id
		text := c35Subst(d.Text, "T", "U", "Pair_"+b.id+"#[T,U]")
		switch {
		case fl == c35V1 && d.Kind == "func":
			fmt.Fprintf(&sb, "template[%s] func %s %s\n", d.Params, name, text)
		case fl == c35V1:
			fmt.Fprintf(&sb, "template[%s] type %s %s\n", d.Params, name, text)
		case d.Kind == "func":
			fmt.Fprintf(&sb, "func %s#[%s]%s\n", name, d.Params, text)
		default:
			fmt.Fprintf(&sb, "type %s#[%s] %s\n", name, d.Params, text)
		}
	}
	return sb.String()
}

func (u *c35Use) spelled(i int, unfold bool) string {
	if i >= len(u.Args) {
		return ""
	}
	return u.Args[i].Spell(unfold)
}

// c35SpecDecls renders the hand-specialised copy for use j: the template text with the type
// parameters replaced by the argument types as spelled (local aliases by their targets: the
// copy is declared at top level).
func c35SpecDecls(b *c35Beh, j int) string {
	u := &b.Uses[j]
	var sb strings.Builder
	suffix := fmt.Sprintf("_%s_s%d", b.id, j+1)
	for _, d := range c35Templates[b.T] {
		text := c35Subst(d.Text, u.spelled(0, true), u.spelled(1, true), "Pair"+suffix)
		if d.Kind == "func" {
			fmt.Fprintf(&sb, "func %s%s%s\n", d.Name, suffix, text)
		} else {
			fmt.Fprintf(&sb, "type %s%s %s\n", d.Name, suffix, text)
		}
	}
	return sb.String()
}

// inst renders the reference to symbol sym for use j: Name_id#[A,B] or the specialised name.
func c35Inst(b *c35Beh, j int, sym string, fl c35Flavour, unfold bool) string {
	if fl == c35Spec {
		return fmt.Sprintf("%s_%s_s%d", sym, b.id, j+1)
	}
	u := &b.Uses[j]
	as := make([]string, len(u.Args))
	for i := range u.Args {
		as[i] = u.spelled(i, unfold)
	}
	return fmt.Sprintf("%s_%s#[%s]", sym, b.id, strings.Join(as, ","))
}

// c35UseExpr renders the expression of use j and its result types.
func c35UseExpr(b *c35Beh, j int, fl c35Flavour) (expr string, results []string) {
	u := &b.Uses[j]
	c1 := u.Canon[0]
	c2 := ""
	if len(u.Canon) > 1 {
		c2 = u.Canon[1]
	}
	tok := func(ty string, i int) string { l, _ := c35Tok(ty, i); return l }
	a, bb := u.spelled(0, false), u.spelled(1, false)
	ra, rb := u.spelled(0, true), u.spelled(1, true) // result types: outside the scope of local aliases
	f := func(sym string) string { return c35Inst(b, j, sym, fl, false) }
	switch b.T {
	case "Id":
		return fmt.Sprintf("%s(%s)", f("Id"), tok(c1, u.V[0])), []string{ra}
	case "Swap":
		return fmt.Sprintf("%s(%s, %s)", f("Swap"), tok(c1, u.V[0]), tok(c2, u.V[1])), []string{rb, ra}
	case "MapSl":
		elems := make([]string, u.N)
		for i := 0; i < u.N; i++ {
			elems[i] = tok(c1, u.V[i])
		}
		fn := fmt.Sprintf("func(x %s) %s { if %s { return %s }; return %s }", a, bb, c35IsTok1(c1, "x"), tok(c2, 2), tok(c2, 1))
		return fmt.Sprintf("%s([]%s{%s}, %s)", f("MapSl"), a, strings.Join(elems, ", "), fn), []string{"[]" + rb}
	case "Rep":
		return fmt.Sprintf("%s(%s, %d)", f("Rep"), tok(c1, u.V[0]), u.N), []string{"[]" + ra, "int"}
	case "Last":
		elems := make([]string, u.N)
		for i := 0; i < u.N; i++ {
			elems[i] = tok(c1, u.V[i])
		}
		return fmt.Sprintf("%s([]%s{%s}, %s)", f("Last"), a, strings.Join(elems, ", "), tok(c1, u.V[1])), []string{ra}
	case "Pair":
		pr := c35Inst(b, j, "Pair", fl, true) // the instance spelled without the local aliases
		mk := fmt.Sprintf("%s(%s, %s)", f("MkP"), tok(c1, u.V[0]), tok(c2, u.V[1]))
		switch u.Op {
		case "mk":
			return mk, []string{pr}
		case "fst":
			return fmt.Sprintf("%s(%s)", f("Fst"), mk), []string{ra}
		case "snd":
			return fmt.Sprintf("%s(%s)", f("Snd"), mk), []string{rb}
		case "zero":
			p := f("Pair")
			return fmt.Sprintf("(func() %s { var p %s; p.Second = %s; return p })()", p, p, tok(c2, u.V[1])), []string{pr}
		}
	}
	panic("c35: template " + b.T)
}

// c35UseCode renders use j in its scope: the declarations to evaluate first (a function for
// every scope but the top level) and the expression that yields the use's values.
func c35UseCode(b *c35Beh, j int, fl c35Flavour) (decl, call string) {
	u := &b.Uses[j]
	expr, results := c35UseExpr(b, j, fl)
	if u.Scope == "top" {
		return "", expr
	}
	locals := map[string]string{}
	for _, a := range u.Args {
		a.locals(locals)
	}
	var names []string
	for n := range locals {
		names = append(names, n)
	}
	sort.Strings(names)
	ldecl := ""
	for _, n := range names {
		ldecl += locals[n] + "; "
	}
	fname := fmt.Sprintf("c35u_%s_%d_%d", b.id, j+1, fl)
	res := strings.Join(results, ", ")
	switch u.Scope {
	case "fn":
		decl = fmt.Sprintf("func %s() (%s) { %sreturn %s }", fname, res, ldecl, expr)
	case "cl":
		decl = fmt.Sprintf("func %s() (%s) { %sreturn (func() (%s) { return %s })() }", fname, res, ldecl, res, expr)
	case "blk":
		named := make([]string, len(results))
		lhs := make([]string, len(results))
		for i, r := range results {
			lhs[i] = fmt.Sprintf("r%d", i)
			named[i] = lhs[i] + " " + r
		}
		decl = fmt.Sprintf("func %s() (%s) { %sif len(\"%s\") > 0 { %s = %s }; return }", fname, strings.Join(named, ", "), ldecl, b.id,
			strings.Join(lhs, ", "), expr)
	default:
		panic("c35: scope " + u.Scope)
	}
	return decl, fname + "()"
}

// ---------------------------------------------------------------------------------------
// the hand-specialised copy as a ProgCase (gomacro + native gate)

// c35SpecText renders the hand-specialised copy of one behaviour: declarations, a function
// c35main_<id> that runs the uses and reports every use's values through ev("<id>.u<j>", ...),
// and the events the model expects.
func c35SpecText(b *c35Beh) (decls string, want []string) {
	var sb strings.Builder
	var body strings.Builder
	for j := range b.Uses {
		sb.WriteString(c35SpecDecls(b, j))
		decl, call := c35UseCode(b, j, c35Spec)
		if decl != "" {
			sb.WriteString(decl + "\n")
		}
		w := b.Uses[j].want()
		vars := make([]string, len(w))
		for i := range w {
			vars[i] = fmt.Sprintf("v%d_%d", j+1, i)
		}
		tag := fmt.Sprintf("%s.u%d", b.id, j+1)
		fmt.Fprintf(&body, "\t%s := %s\n\tev(%q, %s)\n", strings.Join(vars, ", "), call, tag, strings.Join(vars, ", "))
		want = append(want, show.Show(tag)+" "+strings.Join(w, " "))
	}
	fmt.Fprintf(&sb, "func c35main_%s() int {\n%s\treturn %d\n}\n", b.id, body.String(), len(b.Uses))
	return sb.String(), want
}

// c35SpecCase is the ProgCase of a group of behaviours (one native package per group keeps
// the cost of the Go gate down; names are unique through the behaviours' ids).
func c35SpecCase(group []*c35Beh) *ProgCase {
	var sb, body strings.Builder
	var want []string
	ids := make([]string, len(group))
	total := 0
	for i, b := range group {
		d, w := c35SpecText(b)
		sb.WriteString(d)
		want = append(want, w...)
		fmt.Fprintf(&body, "\tn += c35main_%s()\n", b.id)
		ids[i] = b.id
		total += len(b.Uses)
	}
	h := sha1.Sum([]byte(strings.Join(ids, ",")))
	gid := hex.EncodeToString(h[:4])
	fmt.Fprintf(&sb, "func c35group_%s() int {\n\tn := 0\n%s\treturn n\n}\n", gid, body.String())
	raw, _ := json.Marshal(ids)
	return &ProgCase{Key: "specialised|" + gid, Nontrivial: true, Decls: sb.String(), Entry: "c35group_" + gid + "()",
		WantEvents: want, WantResult: "[" + show.Show(total) + "]", Raw: raw}
}

// ---------------------------------------------------------------------------------------
// the generic renderings on gomacro

type c35Mismatch struct {
	Sig  string
	What string
}

func c35Args(u *c35Use) string { return strings.Join(u.Key, ",") }

func c35SigOf(b *c35Beh, j int, shape string) string {
	return fmt.Sprintf("generic(%s,[%s]):%s", b.T, c35Args(&b.Uses[j]), shape)
}

// c35Instances returns the identities of the instances the interpreter holds for a generic
// symbol: pointers of the function instances, go/types objects of the type instances.
func c35Instances(g *gm.Interp, name string) (map[interface{}]bool, error) {
	sym := g.Ir.Comp.TryResolve(name)
	if sym == nil {
		return nil, fmt.Errorf("%s is not declared", name)
	}
	out := map[interface{}]bool{}
	switch v := sym.Value.(type) {
	case *fast.GenericFunc:
		for _, inst := range v.Instances {
			out[inst] = true
		}
	case *fast.GenericType:
		for _, t := range v.Instances {
			out[c35TypeIdentity(t)] = true
		}
	default:
		return nil, fmt.Errorf("%s is not a generic function or type (%T)", name, sym.Value)
	}
	return out, nil
}

// c35TypeIdentity: the go/types object behind an xreflect.Type (xreflect.Type values
// themselves cannot be compared); identical instances share it.
func c35TypeIdentity(t xr.Type) gotypes.Type {
	if t == nil {
		return nil
	}
	return t.GoType()
}

func c35EvalTyped(g *gm.Interp, src string) (vals []string, types []xr.Type, panicked string) {
	defer func() {
		if r := recover(); r != nil {
			panicked = show.ShowPanic(r)
			if panicked == "" {
				panicked = "panic"
			}
		}
		g.Out.Reset()
	}()
	vs, ts := g.Ir.Eval(src)
	for _, v := range vs {
		vals = append(vals, gm.ShowValue(v))
	}
	return vals, ts, ""
}

// c35Eval compiles and runs an expression: its projected values, or why it was rejected at
// compile time (instantiation happens then), or the panic it raised when run.
func c35Eval(g *gm.Interp, src string) (vals []string, rejected, panicked string) {
	compiled := false
	defer func() {
		if r := recover(); r != nil {
			if compiled {
				panicked = show.ShowPanic(r)
			} else {
				rejected = c01Trunc(fmt.Sprint(r))
			}
		}
		g.Out.Reset()
	}()
	expr := g.Ir.Compile(src)
	compiled = true
	vs, _ := g.Ir.RunExpr(expr)
	for _, v := range vs {
		vals = append(vals, gm.ShowValue(v))
	}
	return vals, "", ""
}

// c35Replay runs one behaviour in a generics flavour and returns the disagreements with the model.
func c35Replay(g *gm.Interp, b *c35Beh, fl c35Flavour) (out []c35Mismatch) {
	add := func(j int, shape, format string, a ...interface{}) {
		out = append(out, c35Mismatch{c35SigOf(b, j, shape), fmt.Sprintf("[%s] use %d: ", fl, j+1) + fmt.Sprintf(format, a...)})
	}
	decls := c35GenericDecls(b, fl)
	if r := g.Eval(decls); r.Panicked {
		add(0, "differs-from-specialised", "the generic declaration is rejected: %s\n%s", r.Panic, decls)
		return out
	}
	symKeys := map[string]map[string]bool{} // symbol -> keys instantiated so far (model)
	prev := map[string]map[interface{}]bool{}
	for _, d := range c35Templates[b.T] {
		symKeys[d.Name] = map[string]bool{}
		set, err := c35Instances(g, d.Name+"_"+b.id)
		if err != nil {
			add(0, "differs-from-specialised", "%v", err)
			return out
		}
		if len(set) != 0 {
			add(0, "instances-shared", "%s has %d instances before its first use", d.Name, len(set))
		}
		prev[d.Name] = set
	}
	for j := range b.Uses {
		u := &b.Uses[j]
		decl, call := c35UseCode(b, j, fl)
		if decl != "" {
			if r := g.Eval(decl); r.Panicked {
				add(j, "differs-from-specialised", "rejected: %s\n  %s", r.Panic, decl)
				continue
			}
		}
		vals, rejected, panicked := c35Eval(g, call)
		want := u.want()
		switch {
		case rejected != "":
			add(j, "differs-from-specialised", "rejected: %s\n  %s", rejected, call)
			continue
		case panicked != "":
			add(j, "panics", "%s panics: %s\n  %s", call, panicked, decl)
			continue
		case strings.Join(vals, ", ") != strings.Join(want, ", "):
			add(j, "differs-from-specialised", "%s %s\n  specification (= hand-specialised copy): [%s]\n  gomacro: [%s]", decl, call, strings.Join(want, ", "), strings.Join(vals, ", "))
		}
		// instance tables after the use
		mine := map[string]bool{}
		for _, s := range c35SymbolsOf(b.T, u) {
			mine[s] = true
			symKeys[s][c35Args(u)] = true
		}
		for _, d := range c35Templates[b.T] {
			set, err := c35Instances(g, d.Name+"_"+b.id)
			if err != nil {
				add(j, "differs-from-specialised", "%v", err)
				continue
			}
			for id := range prev[d.Name] {
				if !set[id] {
					add(j, "instances-not-identical", "an instance of %s present before the use is gone (re-instantiated?)", d.Name)
					break
				}
			}
			wantN := len(symKeys[d.Name])
			switch {
			case len(set) > wantN:
				add(j, "instances-not-identical", "%s has %d instances after the use, the model has %d distinct argument lists %v (identical arguments instantiated again: %s)",
					d.Name, len(set), wantN, c35KeysOf(symKeys[d.Name]), call)
			case len(set) < wantN:
				add(j, "instances-shared", "%s has %d instances after the use, the model has %d distinct argument lists %v (different arguments share an instance)",
					d.Name, len(set), wantN, c35KeysOf(symKeys[d.Name]))
			}
			prev[d.Name] = set
		}
	}
	if len(out) > 0 {
		return out
	}
	// identity of the instances denoted from the top level (local aliases unfolded), pairwise
	main := c35Templates[b.T][0]
	probe := make([]xr.Type, len(b.Uses))
	for j := range b.Uses {
		src := c35Inst(b, j, main.Name, fl, true)
		if main.Kind == "type" {
			src += "{}"
		}
		_, ts, p := c35EvalTyped(g, src)
		if p != "" || len(ts) != 1 || ts[0] == nil {
			add(j, "differs-from-specialised", "probe %s: %s", src, p)
			return out
		}
		probe[j] = ts[0]
	}
	for j := range b.Uses {
		for i := 0; i < j; i++ {
			same := c35Args(&b.Uses[i]) == c35Args(&b.Uses[j])
			ident := probe[i].IdenticalTo(probe[j])
			if main.Kind == "type" {
				obj := c35TypeIdentity(probe[i]) == c35TypeIdentity(probe[j])
				key := xr.MakeKey(probe[i]) == xr.MakeKey(probe[j])
				if same && !(obj && ident && key) {
					add(j, "instances-not-identical", "%s and %s denote the same instance in the model; gomacro: same go/types object %v, IdenticalTo %v, same key %v",
						c35Inst(b, i, main.Name, fl, true), c35Inst(b, j, main.Name, fl, true), obj, ident, key)
				}
				if !same && (obj || ident || key) {
					add(j, "instances-shared", "%s and %s are different instances in the model; gomacro: same go/types object %v, IdenticalTo %v, same key %v",
						c35Inst(b, i, main.Name, fl, true), c35Inst(b, j, main.Name, fl, true), obj, ident, key)
				}
			} else if same && !ident {
				add(j, "instances-not-identical", "%s and %s have different types %v / %v", c35Inst(b, i, main.Name, fl, true), c35Inst(b, j, main.Name, fl, true), probe[i], probe[j])
			}
			if same {
				// values of two identical instantiations are mutually assignable
				li, lj := c35Inst(b, i, main.Name, fl, true), c35Inst(b, j, main.Name, fl, true)
				var src string
				if main.Kind == "type" {
					src = fmt.Sprintf("var c35a_%s_%d_%d_%d %s = %s{}; var c35b_%s_%d_%d_%d %s = c35a_%s_%d_%d_%d", b.id, i, j, fl, li, lj, b.id, i, j, fl, lj, b.id, i, j, fl)
				} else {
					src = fmt.Sprintf("var c35a_%s_%d_%d_%d = %s; c35a_%s_%d_%d_%d = %s", b.id, i, j, fl, li, b.id, i, j, fl, lj)
				}
				if r := g.Eval(src); r.Panicked {
					add(j, "instances-not-identical", "values of the identical instantiations are not mutually assignable: %s: %s", src, r.Panic)
				}
			}
		}
	}
	return out
}

func c35KeysOf(m map[string]bool) []string {
	var ks []string
	for k := range m {
		ks = append(ks, "["+k+"]")
	}
	sort.Strings(ks)
	return ks
}

func c35NewInterp() (*gm.Interp, error) {
	g := gm.New()
	if r := g.Eval(c35Prelude); r.Panicked {
		return nil, core.Infra("C35 prelude: %s", r.Panic)
	}
	g.Out.Reset()
	return g, nil
}

// c35WithGenerics runs f with the process-wide switch set.
func c35WithGenerics(fl c35Flavour, f func() error) error {
	old := etoken.GENERICS
	switch fl {
	case c35V1:
		etoken.GENERICS = etoken.GENERICS_V1_CXX
	case c35V2:
		etoken.GENERICS = etoken.GENERICS_V2_CTI
	default:
		etoken.GENERICS = etoken.GENERICS_NONE
	}
	defer func() { etoken.GENERICS = old }()
	return f()
}

type c35ReplayCase struct {
	Flavour  int             `json:"flavour"`
	Record   json.RawMessage `json:"record"`
	Program  string          `json:"program"`
	Observed string          `json:"observed"`
}

func c35Program(b *c35Beh, fl c35Flavour) string {
	var sb strings.Builder
	sb.WriteString(c35GenericDecls(b, fl))
	for j := range b.Uses {
		decl, call := c35UseCode(b, j, fl)
		if decl != "" {
			sb.WriteString(decl + "\n")
		}
		sb.WriteString(call + "\n")
	}
	return sb.String()
}

// c35RunFlavour replays every behaviour in one generics flavour.
func c35RunFlavour(c *core.Ctx, behs []*c35Beh, fl c35Flavour, workers int) error {
	return c35WithGenerics(fl, func() error {
		// build the process-wide lazily initialised tables once before going parallel
		if _, err := c35NewInterp(); err != nil {
			return err
		}
		var mu sync.Mutex
		var firstErr error
		chunk := 25
		njobs := (len(behs) + chunk - 1) / chunk
		core.ParDo(njobs, workers, func(job int) {
			g, err := c35NewInterp()
			if err != nil {
				mu.Lock()
				if firstErr == nil {
					firstErr = err
				}
				mu.Unlock()
				return
			}
			for i := job * chunk; i < (job+1)*chunk && i < len(behs); i++ {
				b := behs[i]
				ms := c35Replay(g, b, fl)
				c.Case(fmt.Sprintf("%s|%s", fl, b.id), true)
				c.Trace()
				if len(ms) == 0 {
					continue
				}
				// confirm in a fresh interpreter
				fresh, err := c35NewInterp()
				if err == nil {
					ms2 := c35Replay(fresh, b, fl)
					if len(ms2) == 0 {
						err = core.Infra("disagreement not reproducible in a fresh interpreter: %s %s", ms[0].Sig, ms[0].What)
					} else {
						ms = ms2
					}
				}
				if err != nil {
					mu.Lock()
					if firstErr == nil {
						firstErr = err
					}
					mu.Unlock()
					continue
				}
				g, _ = c35NewInterp() // the failed behaviour may have left half-made instances behind
				seen := map[string]bool{}
				for _, m := range ms {
					if seen[m.Sig] {
						continue
					}
					seen[m.Sig] = true
					c.Violation(m.Sig, m.What+"\nprogram:\n"+c35Program(b, fl), c35ReplayCase{Flavour: int(fl), Record: b.raw, Program: c35Program(b, fl), Observed: m.What})
				}
			}
		})
		return firstErr
	})
}

func c35Cfg(mode string, level, nuses int, salt int64, broken bool, invs string) string {
	return fmt.Sprintf("SPECIFICATION GSpec\nCONSTANTS\n GMode = %q\n GLevel = %d\n NUses = %d\n GSalt = %d\n KeyBroken = %s\nINVARIANTS %s\n",
		mode, level, nuses, salt%1000, strings.ToUpper(strconv.FormatBool(broken)), invs)
}

// c35SpecSigFn: signature of a disagreement between gomacro and the model on a group of
// hand-specialised copies (no generics involved): the behaviour of the first deviating event.
func c35SpecSigFn(byID map[string]*c35Beh) func(pc *ProgCase, events []string, result string) string {
	return func(pc *ProgCase, events []string, result string) string {
		shape := "value-differs"
		if strings.HasPrefix(result, "panic(") || strings.HasPrefix(result, "declpanic(") {
			shape = "rejected-or-panics"
		}
		k := 0
		for k < len(events) && k < len(pc.WantEvents) && events[k] == pc.WantEvents[k] {
			k++
		}
		if k < len(pc.WantEvents) {
			// the event is  string:"<id>.u<j>" values...
			w := pc.WantEvents[k]
			if i := strings.Index(w, `"`); i >= 0 {
				if j := strings.Index(w[i+1:], "."); j >= 0 {
					if b := byID[w[i+1:i+1+j]]; b != nil {
						var uj int
						fmt.Sscanf(w[i+1+j:], ".u%d", &uj)
						if uj >= 1 && uj <= len(b.Uses) {
							return fmt.Sprintf("specialised(%s,[%s]):%s", b.T, c35Args(&b.Uses[uj-1]), shape)
						}
					}
				}
			}
		}
		return "specialised(group):" + shape
	}
}

const c35GroupSize = 24

// c35DropRejected asks the gate again (its results are cached by program hash) which groups it
// rejected and returns the behaviours of the accepted ones.
func c35DropRejected(c *core.Ctx, groups [][]*c35Beh, cases []*ProgCase) (kept []*c35Beh, dropped int, err error) {
	progs := make([]gate.Prog, len(cases))
	for i, pc := range cases {
		progs[i] = gate.Prog{Imports: []string{"errors", "fmt"}, Decls: "var _ = errors.New\nvar _ = fmt.Sprint\n" + c35Prelude + "\n" + pc.Decls, Entry: pc.Entry}
	}
	outs, err := gate.Run(c.Verif, progs)
	if err != nil {
		return nil, 0, core.Infra("go gate: %v", err)
	}
	for i, g := range groups {
		if outs[i].CompileError == "" && progConforms(cases[i], outs[i].Events, outs[i].Result) {
			kept = append(kept, g...)
		} else {
			dropped += len(g)
		}
	}
	return kept, dropped, nil
}

func runC35(c *core.Ctx) error {
	old := etoken.GENERICS
	defer func() { etoken.GENERICS = old }()
	level := c.Pick(1, 2)
	workers := runtime.NumCPU()
	if workers > c.Pick(6, 12) {
		workers = c.Pick(6, 12)
	}
	var mu sync.Mutex
	seen := map[string]bool{}
	var behs []*c35Beh
	var decodeErr error
	feed := func(line []byte) {
		b := &c35Beh{}
		if err := json.Unmarshal(line, b); err != nil {
			mu.Lock()
			if decodeErr == nil {
				decodeErr = core.Infra("bad record from TLC: %v: %.300s", err, line)
			}
			mu.Unlock()
			return
		}
		b.prepare(line)
		mu.Lock()
		if !seen[b.id] {
			seen[b.id] = true
			behs = append(behs, b)
		}
		mu.Unlock()
	}
	var twg sync.WaitGroup
	var terr [3]error
	twg.Add(3)
	// (M) the key is injective modulo type identity
	go func() {
		defer twg.Done()
		_, terr[0] = c.TLC(core.TLCOpts{Spec: "Generic", CfgName: "key-injective-m", Cfg: c35Cfg("m", 2, 2, 0, false, "GTypeOK KeyInjective KeyNonVacuous"),
			Workers: 2, Timeout: 8 * time.Minute})
	}()
	// (R) bounded-exhaustive: every pair of argument lists of the menus
	go func() {
		defer twg.Done()
		_, terr[1] = c.TLC(core.TLCOpts{Spec: "Generic", CfgName: "behaviours-bfs", Cfg: c35Cfg("bfs", level, 2, c.Seed, false, "GTypeOK GEmit"),
			Workers: c.Pick(3, 5), Timeout: 12 * time.Minute, OnLine: feed})
	}()
	// (R) seeded random behaviours of three uses over the large menus
	go func() {
		defer twg.Done()
		_, terr[2] = c.TLC(core.TLCOpts{Spec: "Generic", CfgName: "behaviours-sim", Cfg: c35Cfg("sim", level, 3, c.Seed, false, "GTypeOK GEmit"),
			Simulate: true, SimNum: c.Pick(12, 40), SimDepth: 4*12 + 1, Seed: c.Seed, Workers: c.Pick(1, 2),
			Timeout: 8 * time.Minute, OnLine: feed})
	}()
	twg.Wait()
	for _, err := range terr {
		if err != nil {
			return err
		}
	}
	if decodeErr != nil {
		return decodeErr
	}
	sort.Slice(behs, func(i, j int) bool { return behs[i].id < behs[j].id })
	byID := map[string]*c35Beh{}
	for i, b := range behs {
		byID[b.id] = b
		if i%211 == 7 {
			spec, _ := c35SpecText(b)
			c.Sample(map[string]interface{}{"template": b.T, "generics_v1": c35Program(b, c35V1), "generics_v2": c35Program(b, c35V2),
				"hand_specialised": spec, "expected_instances": b.NInst})
		}
	}
	// phase 1: the hand-specialised copies - compiled natively (gate: every one) and on gomacro
	var cases []*ProgCase
	var groups [][]*c35Beh
	for lo := 0; lo < len(behs); lo += c35GroupSize {
		hi := lo + c35GroupSize
		if hi > len(behs) {
			hi = len(behs)
		}
		groups = append(groups, behs[lo:hi])
		cases = append(cases, c35SpecCase(behs[lo:hi]))
	}
	rejectsBefore := c.GateRejects
	err := c35WithGenerics(c35Spec, func() error {
		return RunProgCases(c, cases, ProgOpts{GateFraction: 1, Reuse: 8, Prelude: c35Prelude, Workers: workers, Sig: c35SpecSigFn(byID)})
	})
	if err != nil {
		return err
	}
	if c.GateRejects > rejectsBefore {
		// the behaviours of a group the native gate rejected are not replayed in the generic
		// renderings either (their expectations are not pinned to compiled Go)
		kept, dropped, err := c35DropRejected(c, groups, cases)
		if err != nil {
			return err
		}
		c.Extra["behaviours_dropped_by_the_gate"] = dropped
		if dropped*20 > len(behs) {
			return core.Infra("the native gate rejected the hand-specialised copies of %d of %d behaviours: the specification or its renderer is wrong", dropped, len(behs))
		}
		behs = kept
	}
	// phases 2 and 3: the generic renderings, one flavour after the other (process-wide switch)
	for _, fl := range []c35Flavour{c35V1, c35V2} {
		if err := c35RunFlavour(c, behs, fl, workers); err != nil {
			return err
		}
	}
	nsame, ndiff := 0, 0
	byT := map[string]int{}
	for _, b := range behs {
		byT[b.T]++
		for _, u := range b.Uses {
			if u.SameAs > 0 {
				nsame++
			} else {
				ndiff++
			}
		}
	}
	c.Extra["behaviours"] = len(behs)
	c.Extra["behaviours_by_template"] = byT
	c.Extra["uses_reusing_an_instance"] = nsame
	c.Extra["uses_creating_an_instance"] = ndiff
	c.Exhaustive = false
	c.Assume("documented limitations of the generics prototypes are not generated: type arguments are always explicit (no inference), no generic methods (accessor functions instead), no contracts / constraints on type parameters, no partial or full specialisations (V1 only feature; CTI documents them as unsupported)")
	c.Assume("distinctness of instances is observed through the interpreter's instance tables, the go/types object and IdenticalTo - not through assignability, which gomacro also grants between distinct named types with identical reflect types (xreflect AssignableTo, 'fix #119')")
	c.Assume("value tokens of the type arguments are fixed per normal form of the type (two non-zero values each); function-typed and interface-typed arguments are not generated")
	return nil
}

func replayC35(c *core.Ctx, raw json.RawMessage) error {
	var rp struct {
		Flavour int             `json:"flavour"`
		Record  json.RawMessage `json:"record"`
	}
	if err := json.Unmarshal(raw, &rp); err != nil {
		return err
	}
	if len(rp.Record) == 0 { // a case written by RunProgCases (specialised copy)
		return core.Infra("replay of a hand-specialised copy: evaluate the stored program by hand (decls + entry are in the replay file)")
	}
	b := &c35Beh{}
	if err := json.Unmarshal(rp.Record, b); err != nil {
		return err
	}
	b.prepare(rp.Record)
	fl := c35Flavour(rp.Flavour)
	return c35WithGenerics(fl, func() error {
		g, err := c35NewInterp()
		if err != nil {
			return err
		}
		fmt.Printf("replay [%s]:\n%s", fl, c35Program(b, fl))
		for _, m := range c35Replay(g, b, fl) {
			fmt.Printf("  %s\n  %s\n", m.Sig, m.What)
			c.Violation(m.Sig, m.What, c35ReplayCase{Flavour: int(fl), Record: b.raw, Program: c35Program(b, fl), Observed: m.What})
		}
		return nil
	})
}

func selfTestC35(c *core.Ctx) error {
	old := etoken.GENERICS
	defer func() { etoken.GENERICS = old }()
	// 1. the broken variant (key ignoring the second argument) is rejected by the (M) law
	r, err := c.TLC(core.TLCOpts{Spec: "Generic", CfgName: "broken-key-drops-second-argument", Cfg: c35Cfg("m", 2, 2, 0, true, "KeyInjective"),
		Workers: 3, ExpectError: true})
	if err != nil {
		return err
	}
	if r.Violated != "KeyInjective" {
		return fmt.Errorf("broken variant KeyBroken=TRUE not detected by TLC (violated=%q)\n%s", r.Violated, r.Output)
	}
	// 2. a correct behaviour is accepted in both flavours; corrupted expectations are rejected:
	// a wrong value, an identity the model claims but the arguments differ, a distinctness the
	// model claims for identical arguments
	good := `{"t":"Swap","uses":[{"args":[["al","AI",["b","int"]],["b","string"]],"canon":["int","string"],"key":["int","string"],"scope":"fn","v":[1,2],"n":0,"op":"-","out":[{"k":"tok","ty":"string","i":2},{"k":"tok","ty":"int","i":1}],"sameas":0},` +
		`{"args":[["lo","LI",["b","int"]],["al","AStr",["b","string"]]],"canon":["int","string"],"key":["int","string"],"scope":"cl","v":[2,1],"n":0,"op":"-","out":[{"k":"tok","ty":"string","i":1},{"k":"tok","ty":"int","i":2}],"sameas":1},` +
		`{"args":[["nm","NI"],["b","string"]],"canon":["NI","string"],"key":["NI","string"],"scope":"top","v":[1,1],"n":0,"op":"-","out":[{"k":"tok","ty":"string","i":1},{"k":"tok","ty":"NI","i":1}],"sameas":0}],"ninst":2}`
	pairGood := `{"t":"Pair","uses":[{"args":[["b","int"],["b","string"]],"canon":["int","string"],"key":["int","string"],"scope":"top","v":[1,2],"n":0,"op":"mk","out":[{"k":"pair","a":{"k":"tok","ty":"int","i":1},"b":{"k":"tok","ty":"string","i":2}}],"sameas":0},` +
		`{"args":[["al","AI",["b","int"]],["al","AStr",["b","string"]]],"canon":["int","string"],"key":["int","string"],"scope":"blk","v":[2,1],"n":0,"op":"fst","out":[{"k":"tok","ty":"int","i":2}],"sameas":1},` +
		`{"args":[["nm","NI"],["b","string"]],"canon":["NI","string"],"key":["NI","string"],"scope":"fn","v":[1,1],"n":0,"op":"zero","out":[{"k":"pair","a":{"k":"tok","ty":"NI","i":0},"b":{"k":"tok","ty":"string","i":1}}],"sameas":0}],"ninst":2}`
	mk := func(src string, edit func(b *c35Beh)) *c35Beh {
		b := &c35Beh{}
		if err := json.Unmarshal([]byte(src), b); err != nil {
			panic(err)
		}
		b.prepare([]byte(src))
		if edit != nil {
			edit(b)
		}
		return b
	}
	for _, fl := range []c35Flavour{c35V1, c35V2} {
		err := c35WithGenerics(fl, func() error {
			for _, src := range []string{good, pairGood} {
				g, err := c35NewInterp()
				if err != nil {
					return err
				}
				if ms := c35Replay(g, mk(src, nil), fl); len(ms) != 0 {
					return fmt.Errorf("[%s] correct behaviour rejected: %s %s", fl, ms[0].Sig, ms[0].What)
				}
				for name, edit := range map[string]func(b *c35Beh){
					"wrong value":               func(b *c35Beh) { b.id += "w"; b.Uses[0].V[0] = 2 },
					"claims shared instance":    func(b *c35Beh) { b.id += "s"; b.Uses[2].Key = b.Uses[0].Key },
					"claims distinct instances": func(b *c35Beh) { b.id += "d"; b.Uses[1].Key = []string{"int", "string2"} },
				} {
					g, _ := c35NewInterp()
					bad := mk(src, edit) // "wrong value": the rendering follows V, the expectation (Out) stays
					if ms := c35Replay(g, bad, fl); len(ms) == 0 {
						return fmt.Errorf("[%s] corrupted behaviour accepted (%s)", fl, name)
					}
				}
			}
			return nil
		})
		if err != nil {
			return err
		}
	}
	// 3. the hand-specialised copy of the correct behaviour passes the native gate and gomacro;
	// a corrupted expectation is rejected by the gate
	groups := [][]*c35Beh{{mk(good, nil), mk(pairGood, nil)}, {mk(good, func(b *c35Beh) { b.id += "x"; b.Uses[0].Out[0].I = 1 })}}
	cases := []*ProgCase{c35SpecCase(groups[0]), c35SpecCase(groups[1])}
	sc := core.NewCtx("C35", "selftest")
	sc.Verif = c.Verif
	if err := RunProgCases(sc, cases, ProgOpts{GateFraction: 1, Prelude: c35Prelude, Workers: 2, Sig: c35SpecSigFn(map[string]*c35Beh{})}); err != nil {
		return err
	}
	if sc.GateChecked != 2 || sc.GateRejects != 1 {
		return fmt.Errorf("native gate: checked %d rejected %d, expected 2 checked and exactly the corrupted one rejected", sc.GateChecked, sc.GateRejects)
	}
	if sc.Violations() != 0 {
		return fmt.Errorf("hand-specialised copies of correct behaviours disagree with gomacro")
	}
	kept, dropped, err := c35DropRejected(sc, groups, cases)
	if err != nil {
		return err
	}
	if len(kept) != 2 || dropped != 1 {
		return fmt.Errorf("behaviours of the rejected group not dropped: kept %d dropped %d", len(kept), dropped)
	}
	return nil
}

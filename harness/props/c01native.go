package props

import (
	"fmt"
	"hash/fnv"
	"math"
	"math/big"
	"os"
	"reflect"
	"strconv"
	"strings"
	"sync"

	"verif/harness/core"
	"verif/harness/gate"
	"verif/harness/show"
)

// The Go gate of C01. It never reads /repo.
//
// Part 1 (every cell): the run-time meaning is obtained by applying the REAL Go operator to
// the operand values inside this process (generic functions instantiated at every kind, and
// at every (kind, count kind) pair for shifts); the compile-time rules for constant operands
// (constant division by zero, constant overflow, negative constant shift count) come from a
// small table written from the Go specification with math/big.
// Part 2 (seeded sample): the rendered snippets are really compiled and run with the Go
// toolchain through harness/gate.

type c01Integer interface {
	~int8 | ~int16 | ~int32 | ~int64 | ~int | ~uint8 | ~uint16 | ~uint32 | ~uint64 | ~uint | ~uintptr
}
type c01Floating interface{ ~float32 | ~float64 }

func c01Recover(res *c01Res) {
	if r := recover(); r != nil {
		msg := fmt.Sprint(r)
		if err, ok := r.(error); ok {
			msg = err.Error()
		}
		*res = c01Res{T: "p", Cls: show.PanicClass(msg), Msg: msg}
	}
}

func c01ValOf(x interface{}) c01Res {
	rv := reflect.ValueOf(x)
	return c01Res{T: "v", Ty: rv.Type().String(), V: c01FromReflect(rv)}
}

func c01NatInt[T c01Integer](op string, a, b T) (res c01Res) {
	defer c01Recover(&res)
	switch op {
	case "add":
		return c01ValOf(a + b)
	case "sub":
		return c01ValOf(a - b)
	case "mul":
		return c01ValOf(a * b)
	case "quo":
		return c01ValOf(a / b)
	case "rem":
		return c01ValOf(a % b)
	case "and":
		return c01ValOf(a & b)
	case "or":
		return c01ValOf(a | b)
	case "xor":
		return c01ValOf(a ^ b)
	case "andnot":
		return c01ValOf(a &^ b)
	case "eql":
		return c01ValOf(a == b)
	case "neq":
		return c01ValOf(a != b)
	case "lss":
		return c01ValOf(a < b)
	case "leq":
		return c01ValOf(a <= b)
	case "gtr":
		return c01ValOf(a > b)
	case "geq":
		return c01ValOf(a >= b)
	case "pos":
		return c01ValOf(+a)
	case "neg":
		return c01ValOf(-a)
	case "cpl":
		return c01ValOf(^a)
	}
	return c01Res{T: "?"}
}

func c01NatShift[T, C c01Integer](op string, a T, n C) (res c01Res) {
	defer c01Recover(&res)
	if op == "shl" {
		return c01ValOf(a << n)
	}
	return c01ValOf(a >> n)
}

func c01NatShiftC[T c01Integer](op string, a T, ck string, n uint64) c01Res {
	switch ck {
	case "int8":
		return c01NatShift(op, a, int8(n))
	case "int16":
		return c01NatShift(op, a, int16(n))
	case "int32":
		return c01NatShift(op, a, int32(n))
	case "int64":
		return c01NatShift(op, a, int64(n))
	case "int":
		return c01NatShift(op, a, int(n))
	case "uint8":
		return c01NatShift(op, a, uint8(n))
	case "uint16":
		return c01NatShift(op, a, uint16(n))
	case "uint32":
		return c01NatShift(op, a, uint32(n))
	case "uint64":
		return c01NatShift(op, a, uint64(n))
	case "uint":
		return c01NatShift(op, a, uint(n))
	case "uintptr":
		return c01NatShift(op, a, uintptr(n))
	}
	return c01Res{T: "?"}
}

func c01NatFloat[T c01Floating](op string, a, b T) c01Res {
	switch op {
	case "add":
		return c01ValOf(a + b)
	case "sub":
		return c01ValOf(a - b)
	case "mul":
		return c01ValOf(a * b)
	case "quo":
		return c01ValOf(a / b)
	case "eql":
		return c01ValOf(a == b)
	case "neq":
		return c01ValOf(a != b)
	case "lss":
		return c01ValOf(a < b)
	case "leq":
		return c01ValOf(a <= b)
	case "gtr":
		return c01ValOf(a > b)
	case "geq":
		return c01ValOf(a >= b)
	case "pos":
		return c01ValOf(+a)
	case "neg":
		return c01ValOf(-a)
	}
	return c01Res{T: "?"}
}

func c01NatIntK[T c01Integer](c *c01Cell) c01Res {
	a := T(c.A.Bits)
	if c.CK != "" {
		return c01NatShiftC(c.Op, a, c.CK, c.B.Bits)
	}
	return c01NatInt(c.Op, a, T(c.B.Bits))
}

// c01Native applies the real Go operator to the operand values (run-time meaning).
func c01Native(c *c01Cell) c01Res {
	switch c.Kind {
	case "int8":
		return c01NatIntK[int8](c)
	case "int16":
		return c01NatIntK[int16](c)
	case "int32":
		return c01NatIntK[int32](c)
	case "int64":
		return c01NatIntK[int64](c)
	case "int":
		return c01NatIntK[int](c)
	case "uint8":
		return c01NatIntK[uint8](c)
	case "uint16":
		return c01NatIntK[uint16](c)
	case "uint32":
		return c01NatIntK[uint32](c)
	case "uint64":
		return c01NatIntK[uint64](c)
	case "uint":
		return c01NatIntK[uint](c)
	case "uintptr":
		return c01NatIntK[uintptr](c)
	case "float32":
		return c01NatFloat(c.Op, math.Float32frombits(uint32(c.A.Bits)), math.Float32frombits(uint32(c.B.Bits)))
	case "float64":
		return c01NatFloat(c.Op, math.Float64frombits(c.A.Bits), math.Float64frombits(c.B.Bits))
	case "string":
		a, b := c.A.Str, c.B.Str
		switch c.Op {
		case "add":
			return c01ValOf(a + b)
		case "eql":
			return c01ValOf(a == b)
		case "neq":
			return c01ValOf(a != b)
		case "lss":
			return c01ValOf(a < b)
		case "leq":
			return c01ValOf(a <= b)
		case "gtr":
			return c01ValOf(a > b)
		case "geq":
			return c01ValOf(a >= b)
		}
	case "bool":
		a, b := c.A.Bits != 0, c.B.Bits != 0
		switch c.Op {
		case "eql":
			return c01ValOf(a == b)
		case "neq":
			return c01ValOf(a != b)
		case "land":
			return c01ValOf(a && b)
		case "lor":
			return c01ValOf(a || b)
		case "not":
			return c01ValOf(!a)
		}
	}
	return c01Res{T: "?"}
}

// --- the table of compile-time rules (Go specification, "Constant expressions",
// "Arithmetic operators", "Operators" on shifts) -----------------------------------------

func c01Big(v c01Val) *big.Int {
	if c01IsSigned(v.Kind) {
		return big.NewInt(v.Signed())
	}
	return new(big.Int).SetUint64(v.Bits)
}

func c01Representable(kind string, x *big.Int) bool {
	w := uint(c01Width(kind))
	if c01IsSigned(kind) {
		lo := new(big.Int).Neg(new(big.Int).Lsh(big.NewInt(1), w-1))
		hi := new(big.Int).Sub(new(big.Int).Lsh(big.NewInt(1), w-1), big.NewInt(1))
		return x.Cmp(lo) >= 0 && x.Cmp(hi) <= 0
	}
	return x.Sign() >= 0 && x.BitLen() <= int(w)
}

func c01FloatConstable(v c01Val) bool {
	f := v.Float()
	return !math.IsNaN(f) && !math.IsInf(f, 0) && !(f == 0 && math.Signbit(f))
}

// c01GoExpect: what Go prescribes for the cell in its shape, given the native run-time
// result rt of the operator on the operand values.
func c01GoExpect(c *c01Cell, rt c01Res) c01Res {
	cerr := func(why string) c01Res { return c01Res{T: "c", Cls: why} }
	skip := c01Res{T: "s"}
	unary := c01IsUnary(c.Op)
	ca, cb := c.constA(), c.constB() && !unary
	if c.Shape == "vv" {
		return rt
	}
	isInt, isFloat := c01IsInt(c.Kind), c01IsFloat(c.Kind)
	if isFloat && ((ca && !c01FloatConstable(c.A)) || (cb && !c01FloatConstable(c.B))) {
		return skip // NaN, infinities and -0 cannot be written as constants
	}
	isDiv := c.Op == "quo" || c.Op == "rem"
	bZero := (isInt && c.B.Bits == 0) || (isFloat && c.B.Float() == 0)
	if c.CK != "" {
		// shifts: a constant count must not be negative
		if cb && c01IsSigned(c.CK) && c.B.Signed() < 0 {
			return cerr("negshift")
		}
		if c.Shape == "cc" && c.B.Bits >= 512 {
			return skip // beyond the count a compiler must accept for a constant shift
		}
		if c.Shape == "cc" && c.Op == "shl" {
			n := c.B.Bits
			a := c01Big(c.A)
			if a.Sign() != 0 && (n >= 128 || !c01Representable(c.Kind, new(big.Int).Lsh(a, uint(n)))) {
				return cerr("overflow")
			}
		}
		return rt
	}
	if c.Shape == "cR" {
		if isDiv && bZero && isInt {
			return cerr("divzero") // "if the divisor is a constant it must not be zero" (integer operands)
		}
		return rt
	}
	if c.Shape == "cL" {
		return rt
	}
	// cc: a constant expression, evaluated exactly
	if isDiv && bZero {
		return cerr("divzero")
	}
	if isInt {
		a, b := c01Big(c.A), c01Big(c.B)
		if c.Op == "quo" && c01Width(c.Kind) == 64 && c01IsSigned(c.Kind) && c.A.Signed() == math.MinInt64 && c.B.Signed() == -1 {
			return skip // the toolchain accepts this overflowing constant (go/constant int64 fast path): not generated
		}
		var x *big.Int
		switch c.Op {
		case "add":
			x = new(big.Int).Add(a, b)
		case "sub":
			x = new(big.Int).Sub(a, b)
		case "mul":
			x = new(big.Int).Mul(a, b)
		case "quo":
			x = new(big.Int).Quo(a, b) // truncated, as Go
		case "neg":
			x = new(big.Int).Neg(a)
		}
		if x != nil && !c01Representable(c.Kind, x) {
			return cerr("overflow")
		}
		return rt
	}
	if isFloat && rt.T == "v" && c01IsFloat(rt.Ty) {
		// exact rational arithmetic, then one rounding to the type
		a, b := new(big.Rat), new(big.Rat)
		a.SetFloat64(c.A.Float())
		b.SetFloat64(c.B.Float())
		x := new(big.Rat)
		switch c.Op {
		case "add":
			x.Add(a, b)
		case "sub":
			x.Sub(a, b)
		case "mul":
			x.Mul(a, b)
		case "quo":
			x.Quo(a, b)
		case "pos":
			x.Set(a)
		case "neg":
			x.Neg(a)
		}
		var v c01Val
		if c.Kind == "float32" {
			f, _ := x.Float32()
			if math.IsInf(float64(f), 0) {
				return cerr("overflow")
			}
			v = c01Val{Kind: "float32", Bits: uint64(math.Float32bits(f))}
		} else {
			f, _ := x.Float64()
			if math.IsInf(f, 0) {
				return cerr("overflow")
			}
			v = c01Val{Kind: "float64", Bits: math.Float64bits(f)}
		}
		return c01Res{T: "v", Ty: c.Kind, V: v}
	}
	return rt
}

// --- part 2: compile a seeded sample with the Go toolchain -------------------------------

type c01GateSampler struct {
	c       *core.Ctx
	mu      sync.Mutex
	maxRun  int // cells expected to compile
	maxErr  int // cells expected to be rejected by the compiler
	run     []*c01Cell
	rej     []*c01Cell
	seenRun int64
	seenRej int64
	checked int
	modRun  uint64
	modErr  uint64
}

func newC01GateSampler(c *core.Ctx, maxRun, maxErr int) *c01GateSampler {
	s := &c01GateSampler{c: c, maxRun: maxRun, maxErr: maxErr, modRun: uint64(c.Pick(128, 1000)), modErr: uint64(c.Pick(50, 500))}
	// VERIF_C01_GATE="modRun,modErr,maxRun,maxErr" widens the compiled sample (development aid)
	if v := os.Getenv("VERIF_C01_GATE"); v != "" {
		var a, b uint64
		var m, n int
		if k, _ := fmt.Sscanf(v, "%d,%d,%d,%d", &a, &b, &m, &n); k == 4 && a > 0 && b > 0 {
			s.modRun, s.modErr, s.maxRun, s.maxErr = a, b, m, n
		}
	}
	return s
}

// offer keeps a seeded pseudo-random sample (by hash of seed and cell) of bounded size.
func (s *c01GateSampler) offer(c *c01Cell) {
	h := fnv.New64a()
	fmt.Fprintf(h, "gate|%d|%s", s.c.Seed, c.Key())
	hv := h.Sum64()
	rejected := c.Want.T == "c"
	// a seeded fraction (quick: 1/128 of the running and 1/50 of the rejected evaluations;
	// thorough: 1/1000 and 1/500 of a nine times larger stream), bounded
	if (rejected && hv%s.modErr != 0) || (!rejected && hv%s.modRun != 0) {
		return
	}
	cp := *c
	s.mu.Lock()
	if rejected {
		s.seenRej++
		if len(s.rej) < s.maxErr {
			s.rej = append(s.rej, &cp)
		}
	} else {
		s.seenRun++
		if len(s.run) < s.maxRun {
			s.run = append(s.run, &cp)
		}
	}
	s.mu.Unlock()
}

const c01GateDecls = `
func c01show(x interface{}) string {
	switch f := x.(type) {
	case float32:
		if f != f {
			return "float32:NaN"
		}
	case float64:
		if f != f {
			return "float64:NaN"
		}
	}
	return show.Show(x)
}
var _ = math.Float32frombits
`

// c01NativeVar renders "var a T = value" for compiled Go.
func c01NativeVar(name string, v c01Val) string {
	switch {
	case v.Kind == "float32":
		return fmt.Sprintf("var %s float32 = math.Float32frombits(0x%x)", name, uint32(v.Bits))
	case v.Kind == "float64":
		return fmt.Sprintf("var %s float64 = math.Float64frombits(0x%x)", name, v.Bits)
	case v.Kind == "string":
		return fmt.Sprintf("var %s string = %s", name, strconv.Quote(v.Str))
	}
	return fmt.Sprintf("var %s %s = %s", name, v.Kind, v.Text())
}

// c01NativeFunc renders the cell as a compiled-Go function returning the projected result.
func c01NativeFunc(name string, c *c01Cell) string {
	var b strings.Builder
	fmt.Fprintf(&b, "func %s() (r string) {\n\tdefer func() {\n\t\tif e := recover(); e != nil {\n\t\t\tr = \"panic(\" + show.ShowPanic(e) + \")\"\n\t\t}\n\t}()\n", name)
	x, y := "a", "b"
	if c.constA() {
		x = c01Lit(c.A)
	} else {
		b.WriteString("\t" + c01NativeVar("a", c.A) + "\n")
	}
	if !c01IsUnary(c.Op) {
		if c.constB() {
			y = c01Lit(c.B)
		} else {
			b.WriteString("\t" + c01NativeVar("b", c.B) + "\n")
		}
	}
	fmt.Fprintf(&b, "\treturn c01show(%s)\n}\n", c.exprText(x, y))
	return b.String()
}

func c01ShowWant(r c01Res) string {
	switch r.T {
	case "p":
		return "panic(error:" + r.Cls + ")"
	case "v":
		if r.V.IsNaN() {
			return r.Ty + ":NaN"
		}
		switch {
		case r.Ty == "string":
			return fmt.Sprintf("string:%q", r.V.Str)
		case r.Ty == "bool":
			return fmt.Sprintf("bool:%v", r.V.Bits != 0)
		case r.Ty == "float32":
			return fmt.Sprintf("float32:%08x", uint32(r.V.Bits))
		case r.Ty == "float64":
			return fmt.Sprintf("float64:%016x", r.V.Bits)
		}
		return r.Ty + ":" + r.V.Text()
	}
	return "?"
}

// run compiles the sample: cells expected to run are batched 40 per package, cells expected
// to be rejected get a package each (its compilation must fail).
func (s *c01GateSampler) runGate() error {
	const per = 40
	var progs []gate.Prog
	var groups [][]*c01Cell
	for lo := 0; lo < len(s.run); lo += per {
		hi := lo + per
		if hi > len(s.run) {
			hi = len(s.run)
		}
		var decls strings.Builder
		decls.WriteString(c01GateDecls)
		var calls []string
		for i, c := range s.run[lo:hi] {
			name := fmt.Sprintf("c01f%d", i)
			decls.WriteString(c01NativeFunc(name, c))
			calls = append(calls, name+"()")
		}
		progs = append(progs, gate.Prog{Imports: []string{"math"}, Decls: decls.String(),
			Entry: "strings.Join([]string{" + strings.Join(calls, ", ") + "}, \"\\x1f\")"})
		groups = append(groups, s.run[lo:hi])
	}
	nrun := len(progs)
	for _, c := range s.rej {
		progs = append(progs, gate.Prog{Imports: []string{"math"}, Decls: c01GateDecls + c01NativeFunc("c01f0", c), Entry: "c01f0()"})
	}
	if len(progs) == 0 {
		return nil
	}
	outs, err := gate.Run(s.c.Verif, progs)
	if err != nil {
		return core.Infra("go gate: %v", err)
	}
	shown := 0
	reject := func(c *c01Cell, got string) {
		s.c.Gate(false)
		if shown < 5 {
			shown++
			fmt.Printf("GATE-REJECT property=C01 (specification disagrees with COMPILED Go): %s %s: specification %s, compiled Go %s\n",
				c01NativeFunc("f", c), c01Operands(c), c.Want, got)
		}
	}
	for gi, cells := range groups {
		o := outs[gi]
		if o.CompileError != "" {
			for _, c := range cells {
				reject(c, "compile error in the batch: "+o.CompileError)
			}
			continue
		}
		res := o.Result // [string:"...\x1f..."]
		res = strings.TrimSuffix(strings.TrimPrefix(res, "[string:"), "]")
		joined, err := strconv.Unquote(res)
		if err != nil {
			return core.Infra("go gate: cannot parse result %q", o.Result)
		}
		parts := strings.Split(joined, "\x1f")
		if len(parts) != len(cells) {
			return core.Infra("go gate: %d results for %d cells", len(parts), len(cells))
		}
		for i, c := range cells {
			s.checked++
			if parts[i] == c01ShowWant(c.Want) {
				s.c.Gate(true)
			} else {
				reject(c, parts[i])
			}
		}
	}
	for i, c := range s.rej {
		o := outs[nrun+i]
		s.checked++
		if o.CompileError != "" {
			s.c.Gate(true)
		} else {
			reject(c, "compiles; result "+o.Result)
		}
	}
	return nil
}

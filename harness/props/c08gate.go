package props

import (
	"fmt"
	"strconv"
	"strings"

	"verif/harness/core"
	"verif/harness/gate"
)

// Native gate for C08, packed: compiling one Go package per history is what dominates the cost of
// the gate, so several histories (their function names are unique) are compiled into one package
// and run one after the other, each under its own recover; the event stream is split at
// "##begin" markers. A history whose native observation differs from the specification's is a
// specification defect: it is counted as a gate reject and not judged on the interpreter.

const c08PackDriver = `
func c08one(k int, f func() int) {
	ev("##begin", k)
	defer func() {
		if r := recover(); r != nil {
			ev("##panic", show.ShowPanic(r))
		} else {
			ev("##ok")
		}
	}()
	f()
}
`

func c08GatePacked(c *core.Ctx, cases []*ProgCase, pack int) (kept []*ProgCase, err error) {
	if len(cases) == 0 {
		return nil, nil
	}
	var progs []gate.Prog
	var members [][]int
	for lo := 0; lo < len(cases); lo += pack {
		hi := lo + pack
		if hi > len(cases) {
			hi = len(cases)
		}
		var d strings.Builder
		d.WriteString(c08Prelude)
		d.WriteString(c08PackDriver)
		var body strings.Builder
		var mem []int
		for i := lo; i < hi; i++ {
			d.WriteString(cases[i].Decls)
			fmt.Fprintf(&body, "\tc08one(%d, %s)\n", i, strings.TrimSuffix(cases[i].Entry, "()"))
			mem = append(mem, i)
		}
		fmt.Fprintf(&d, "func c08pack() int {\n%s\treturn 0\n}\n", body.String())
		progs = append(progs, gate.Prog{Decls: d.String(), Entry: "c08pack()"})
		members = append(members, mem)
	}
	outs, err := gate.Run(c.Verif, progs)
	if err != nil {
		return nil, core.Infra("go gate: %v", err)
	}
	type obs struct {
		events []string
		result string
		cerr   string
		seen   bool
	}
	got := make([]obs, len(cases))
	var retry []int
	for p, o := range outs {
		if o.CompileError != "" {
			// one member does not compile: gate the members one by one to find it
			retry = append(retry, members[p]...)
			continue
		}
		cur := -1
		for _, e := range o.Events {
			switch {
			case strings.HasPrefix(e, `string:"##begin" int:`):
				cur, _ = strconv.Atoi(strings.TrimPrefix(e, `string:"##begin" int:`))
				if cur < 0 || cur >= len(cases) {
					return nil, core.Infra("go gate: bad marker %s", e)
				}
				got[cur].seen = true
			case e == `string:"##ok"` && cur >= 0:
				got[cur].result = "[int:0]"
				cur = -1
			case strings.HasPrefix(e, `string:"##panic" string:`) && cur >= 0:
				s, uerr := strconv.Unquote(strings.TrimPrefix(e, `string:"##panic" string:`))
				if uerr != nil {
					return nil, core.Infra("go gate: bad panic marker %s", e)
				}
				got[cur].result = "panic(" + s + ")"
				cur = -1
			default:
				if cur >= 0 {
					got[cur].events = append(got[cur].events, e)
				}
			}
		}
	}
	if len(retry) > 0 {
		var single []gate.Prog
		for _, i := range retry {
			single = append(single, gate.Prog{Decls: c08Prelude + cases[i].Decls, Entry: cases[i].Entry})
		}
		souts, err := gate.Run(c.Verif, single)
		if err != nil {
			return nil, core.Infra("go gate: %v", err)
		}
		for k, i := range retry {
			got[i] = obs{events: souts[k].Events, result: souts[k].Result, cerr: souts[k].CompileError, seen: true}
		}
	}
	shown := 0
	for i, pc := range cases {
		g := got[i]
		ok := g.seen && g.cerr == "" && pc.Admissible(g.events, g.result)
		c.Gate(ok)
		if ok {
			kept = append(kept, pc)
			continue
		}
		if shown < 3 {
			shown++
			fmt.Printf("GATE-REJECT property=%s (specification disagrees with compiled Go; behaviour dropped): %s %s\n  program: %s\n",
				c.ID, g.cerr, describeDiff(pc.WantEvents, g.events, pc.WantResult, c08Class(g.result)), strings.ReplaceAll(pc.Decls, "\n", "\n    "))
		}
	}
	return kept, nil
}

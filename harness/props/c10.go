package props

import (
	"encoding/json"
	"fmt"
	"os"
	"path/filepath"
	"sort"
	"strconv"
	"strings"
	"sync"
	"time"

	"verif/harness/core"
	"verif/harness/gate"
)

// C10: interpreted goroutines and channels behave as Go permits on every schedule.
// Spec: spec/sem/Chan.tla.  The program set is the model's Init (template instances); for each
// program TLC explores EVERY interleaving and prints, at every state without successor, the
// outcome (log, shared variables, panic class of the entry) or "deadlock", and "race" at every
// state where two goroutines stand at conflicting plain accesses.  The harness
//   - keeps the programs all of whose records are "ok" and unions their outcomes: the admissible set;
//   - renders each program as Go source (c10render.go) and runs it natively (gate): a native
//     outcome outside the set is a specification bug and drops the program;
//   - runs it N times on the interpreter in child processes under GOMAXPROCS 1, 2, 16 with seeded
//     yields and sleeps injected at every statement: every observed outcome must be a member of
//     the admissible set (equal to it when the set is a singleton);
//   - asserts at every frame allocation that the run belongs to the allocating goroutine.
// The verdict is only ever "observed outcome not in the TLC-computed admissible set" (or a
// reproducible hang / crash of a program the model proves deadlock- and panic-free).

func init() {
	core.Register(&core.Prop{
		ID: "C10",
		Rule: "TLC enumerates the program set (template instances: pipeline, fan-in, close+range, select polling, select with several ready cases, producer/consumer, mutex counter, WaitGroup join, panics on closed/nil channels, nil channels in select, goroutines blocked for ever, semaphore channel, mutex hand-off, ping-pong, go-statement arguments) and, for each program, every schedule; " +
			"a case is one run of one program on the interpreter (GOMAXPROCS 1/2/16, seeded yields), non-trivial when the program has at least two goroutines or a select or a run-time panic; distinct by (program, observed outcome)",
		Run:      runC10,
		Replay:   replayC10,
		SelfTest: selfTestC10,
		Sub:      c10Sub,
	})
}

func c10Cfg(size int, broken string, emit bool) string {
	return fmt.Sprintf("SPECIFICATION Spec\nCONSTANTS\n Size = %d\n Broken = %q\n EmitOn = %s\nINVARIANTS BufBound Fifo ClosedZero MutexExcl Emit\n",
		size, broken, strings.ToUpper(fmt.Sprint(emit)))
}

type c10Rec struct {
	Key struct {
		Tpl string `json:"tpl"`
		Par []int  `json:"par"`
	} `json:"key"`
	Kind string   `json:"kind"`
	Prog *c10Prog `json:"prog"`
	Log  []int    `json:"log"`
	Xs   []int    `json:"xs"`
	Pan  int      `json:"pan"`
}

// c10Entry is one program with what the model says about it.
type c10Entry struct {
	Prog       *c10Prog        `json:"prog"`
	Kinds      map[string]bool `json:"-"`
	Admissible map[string]bool `json:"-"`
	Adm        []string        `json:"admissible"`
	idx        int
	name       string
	src        string
	shapes     map[string]bool
	nontrivial bool
}

func (e *c10Entry) key() string { return e.Prog.Key() }

// c10Model runs TLC and returns the programs in the model's order.
func c10Model(c *core.Ctx, size int) ([]*c10Entry, *core.TLCResult, error) {
	byKey := map[string]*c10Entry{}
	var order []*c10Entry
	var perr error
	get := func(tpl string, par []int) *c10Entry {
		k := fmt.Sprintf("%s%v", tpl, par)
		e := byKey[k]
		if e == nil {
			e = &c10Entry{Kinds: map[string]bool{}, Admissible: map[string]bool{}}
			byKey[k] = e
			order = append(order, e)
		}
		return e
	}
	res, err := c.TLC(core.TLCOpts{Spec: "Chan", CfgName: fmt.Sprintf("all-schedules-size%d", size), Cfg: c10Cfg(size, "none", true),
		Workers: 6, Timeout: 25 * time.Minute,
		OnLine: func(line []byte) {
			var r c10Rec
			if e := json.Unmarshal(line, &r); e != nil {
				perr = fmt.Errorf("unparsable record: %v: %.200s", e, line)
				return
			}
			en := get(r.Key.Tpl, r.Key.Par)
			switch r.Kind {
			case "prog":
				en.Prog = r.Prog
			case "ok":
				en.Kinds["ok"] = true
				en.Admissible[c10Canon(r.Pan, r.Xs, r.Log)] = true
			default:
				en.Kinds[r.Kind] = true
			}
		}})
	if err != nil {
		return nil, res, err
	}
	if perr != nil {
		return nil, res, core.Infra("Chan.tla output: %v", perr)
	}
	sort.SliceStable(order, func(i, j int) bool { return false })
	for i, e := range order {
		if e.Prog == nil {
			return nil, res, core.Infra("Chan.tla printed outcomes without the program record")
		}
		e.idx = i
		for k := range e.Admissible {
			e.Adm = append(e.Adm, k)
		}
		sort.Strings(e.Adm)
	}
	return order, res, nil
}

func (e *c10Entry) accepted() bool {
	return len(e.Kinds) == 1 && e.Kinds["ok"] && len(e.Admissible) > 0
}

func (e *c10Entry) render() error {
	e.name = fmt.Sprintf("c10e_%d", e.idx)
	src, shapes, err := c10Render(e.Prog, e.name)
	if err != nil {
		return err
	}
	e.src, e.shapes = src, shapes
	e.nontrivial = len(e.Prog.Procs) > 1 || shapes["op:select"] || strings.Contains(e.Prog.Tpl, "panic")
	return nil
}

// ---- child protocol --------------------------------------------------------------------------

type c10JobProg struct {
	Idx  int    `json:"idx"`
	Name string `json:"name"`
	Src  string `json:"src"`
}

type c10Job struct {
	Seed       int64        `json:"seed"`
	Runs       int          `json:"runs"`
	DeadlineMs int          `json:"deadline_ms"`
	Progs      []c10JobProg `json:"progs"`
}

type c10ChildRes struct {
	Idx       int            `json:"idx"`
	Outcomes  map[string]int `json:"outcomes"`
	DeclPanic string         `json:"decl_panic"`
	Allocs    int64          `json:"allocs"`
	Foreign   int64          `json:"foreign"`
	BadAlloc  int64          `json:"bad_alloc"`
	FirstBad  string         `json:"first_bad"`
}

// c10Trouble: the child did not finish the program.
type c10Trouble struct {
	Kind   string // "hang" | "crash"
	Stderr string
}

var c10JobSeq int64
var c10JobMu sync.Mutex

// c10RunChildren runs the programs in child processes (one after the other inside a child,
// continuing in a new child after a hang or crash) and returns per program index its result or
// its trouble.
func c10RunChildren(c *core.Ctx, progs []*c10Entry, runs int, seed int64, scratch string) (map[int]*c10ChildRes, map[int]*c10Trouble, error) {
	results := map[int]*c10ChildRes{}
	troubles := map[int]*c10Trouble{}
	todo := progs
	for len(todo) > 0 {
		job := c10Job{Seed: seed, Runs: runs, DeadlineMs: 30000}
		for _, e := range todo {
			job.Progs = append(job.Progs, c10JobProg{Idx: e.idx, Name: e.name, Src: e.src})
		}
		c10JobMu.Lock()
		c10JobSeq++
		path := filepath.Join(scratch, fmt.Sprintf("job%d.json", c10JobSeq))
		c10JobMu.Unlock()
		b, _ := json.Marshal(job)
		if err := os.WriteFile(path, b, 0o644); err != nil {
			return nil, nil, core.Infra("cannot write job file: %v", err)
		}
		timeout := 3*time.Minute + time.Duration(len(todo)*runs)*50*time.Millisecond
		out, serr, code := core.RunSub("C10", timeout, path)
		started, hang := -1, -1
		seen := 0
		for _, line := range strings.Split(out, "\n") {
			switch {
			case strings.HasPrefix(line, "C10START "):
				started, _ = strconv.Atoi(strings.TrimSpace(line[9:]))
			case strings.HasPrefix(line, "C10HANG "):
				hang, _ = strconv.Atoi(strings.TrimSpace(line[8:]))
			case strings.HasPrefix(line, "C10RES "):
				var r c10ChildRes
				if json.Unmarshal([]byte(line[7:]), &r) == nil {
					rr := r
					results[r.Idx] = &rr
					seen++
				}
			}
		}
		if strings.Contains(serr, "WARNING: DATA RACE") {
			// only with a harness built by VERIF_RACE=1: key -1 = the race detector reported
			troubles[-1] = &c10Trouble{Kind: "race", Stderr: serr}
		}
		if seen == len(todo) {
			break
		}
		// the child stopped early: the program it had started is in trouble
		if started < 0 || results[started] != nil {
			return nil, nil, core.Infra("child process ended (code %d) outside any program: %s", code, serr)
		}
		kind := "crash"
		if hang == started || code == -1 {
			kind = "hang"
		}
		troubles[started] = &c10Trouble{Kind: kind, Stderr: serr}
		var rest []*c10Entry
		for _, e := range todo {
			if results[e.idx] == nil && troubles[e.idx] == nil {
				rest = append(rest, e)
			}
		}
		todo = rest
	}
	return results, troubles, nil
}

// c10Judge compares one child result with the model; returns signature suffix and description
// ("" = conforms).
func c10Judge(e *c10Entry, r *c10ChildRes) (sig, what string) {
	if r.DeclPanic != "" {
		return "panic-differs", fmt.Sprintf("program %s: the interpreter fails on the declaration of a program that Go compiles and runs: %s", e.key(), r.DeclPanic)
	}
	if r.BadAlloc > 0 {
		return "ownership", fmt.Sprintf("program %s: %d frame allocations used a run owned by another goroutine; first: %s", e.key(), r.BadAlloc, r.FirstBad)
	}
	var bad []string
	for o := range r.Outcomes {
		if !e.Admissible[o] {
			bad = append(bad, o)
		}
	}
	if len(bad) == 0 {
		return "", ""
	}
	sort.Strings(bad)
	sig = "outcome-not-admissible"
	// panic class of the entry differs from every admissible outcome's
	pans := map[string]bool{}
	for a := range e.Admissible {
		pans[strings.SplitN(a, ",", 2)[0]] = true
	}
	for _, o := range bad {
		if strings.HasPrefix(o, "P:") || !pans[strings.SplitN(o, ",", 2)[0]] {
			sig = "panic-differs"
		}
	}
	return sig, fmt.Sprintf("program %s: observed outcome(s) %s (%d of %d runs) not among the %d outcome(s) Go admits on any schedule: %s\n(outcome = panic class of the entry, number of shared variables, their values, log)",
		e.key(), c10List(bad, 4), c10Count(r.Outcomes, bad), c10Total(r.Outcomes), len(e.Adm), c10List(e.Adm, 6))
}

func c10List(ss []string, max int) string {
	if len(ss) > max {
		return "{" + strings.Join(ss[:max], " | ") + " | ...}"
	}
	return "{" + strings.Join(ss, " | ") + "}"
}

func c10Count(m map[string]int, keys []string) int {
	n := 0
	for _, k := range keys {
		n += m[k]
	}
	return n
}

func c10Total(m map[string]int) int {
	n := 0
	for _, v := range m {
		n += v
	}
	return n
}

type c10Replay struct {
	Entry  *c10Entry `json:"entry"`
	Runs   int       `json:"runs"`
	Source string    `json:"source"`
}

// c10Confirm re-runs the candidate programs in fresh child processes (all candidates of a round
// in one child); a disagreement is confirmed when it shows again (a hang: in every attempt, the
// machine may be overloaded).  Returns per program index the confirmed signature and description.
func c10Confirm(c *core.Ctx, cands []*c10Entry, runs int, scratch string, attempts int) (map[int][2]string, error) {
	confirmed := map[int][2]string{}
	hangs := map[int]int{}
	todo := cands
	for k := 0; k < attempts && len(todo) > 0; k++ {
		// up to 4 children side by side: every hanging program costs a deadline and a restart
		res, tr := map[int]*c10ChildRes{}, map[int]*c10Trouble{}
		var cmu sync.Mutex
		var cerr error
		groups := 4
		if groups > len(todo) {
			groups = len(todo)
		}
		core.ParDo(groups, groups, func(gi int) {
			var part []*c10Entry
			for i := gi; i < len(todo); i += groups {
				part = append(part, todo[i])
			}
			r1, t1, err := c10RunChildren(c, part, runs, c.Seed+int64(1000*(k+1)), scratch)
			cmu.Lock()
			defer cmu.Unlock()
			if err != nil {
				cerr = err
				return
			}
			for i, v := range r1 {
				res[i] = v
			}
			for i, v := range t1 {
				tr[i] = v
			}
		})
		if cerr != nil {
			return nil, cerr
		}
		var rest []*c10Entry
		for _, e := range todo {
			if t := tr[e.idx]; t != nil {
				if t.Kind == "hang" {
					hangs[e.idx]++
					if hangs[e.idx] == attempts {
						confirmed[e.idx] = [2]string{"hang", fmt.Sprintf("program %s, which the model proves free of deadlock on every schedule, repeatedly does not finish within 30 s", e.key())}
					} else {
						rest = append(rest, e)
					}
					continue
				}
				confirmed[e.idx] = [2]string{"panic-differs", fmt.Sprintf("program %s repeatedly crashes the process:\n%s", e.key(), t.Stderr)}
				continue
			}
			if r := res[e.idx]; r != nil {
				if s, w := c10Judge(e, r); s != "" {
					confirmed[e.idx] = [2]string{s, w}
					continue
				}
			}
			rest = append(rest, e)
		}
		todo = rest
	}
	return confirmed, nil
}

func c10Gate(c *core.Ctx, progs []*c10Entry) ([]*c10Entry, error) {
	gp := make([]gate.Prog, len(progs))
	for i, e := range progs {
		gp[i] = gate.Prog{Imports: []string{"fmt", "runtime", "strconv", "sync"},
			Decls: c10NativeHelpers + "\n" + e.src, Entry: fmt.Sprintf("c10many(%s, 24)", e.name)}
	}
	outs, err := gate.Run(c.Verif, gp)
	if err != nil {
		return nil, core.Infra("gate: %v", err)
	}
	var kept []*c10Entry
	shapes := map[string]bool{}
	for i, e := range progs {
		o := outs[i]
		ok := o.CompileError == ""
		if ok {
			s := o.Result
			a, b := strings.Index(s, `"`), strings.LastIndex(s, `"`)
			if a < 0 || b <= a {
				ok = false
			} else {
				n := 0
				for _, oc := range strings.Split(s[a+1:b], "|") {
					if oc == "" {
						continue
					}
					n++
					if !e.Admissible[oc] {
						ok = false
						fmt.Printf("GATE-REJECT C10 %s: compiled Go produced %s, the model admits %s\n", e.key(), oc, c10List(e.Adm, 6))
						break
					}
				}
				if n == 0 {
					ok = false
				}
			}
		} else {
			fmt.Printf("GATE-REJECT C10 %s: rendering does not compile: %s\n", e.key(), o.CompileError)
		}
		c.Gate(ok)
		if ok {
			kept = append(kept, e)
			for s := range e.shapes {
				shapes[s] = true
			}
		}
	}
	// soundness: every rendering shape of every kept program was run natively (each kept
	// program is itself gated), recorded for the evidence
	c.Extra["rendering_shapes_gated"] = len(shapes)
	return kept, nil
}

func runC10(c *core.Ctx) error {
	size := c.Pick(1, 2)
	runs := c.Pick(21, 201)
	t0 := time.Now()
	all, _, err := c10Model(c, size)
	if err != nil {
		return err
	}
	tModel := time.Now()
	var accepted []*c10Entry
	rejected := map[string]int{}
	admTotal, setValued := 0, 0
	for _, e := range all {
		if !e.accepted() {
			for k := range e.Kinds {
				if k != "ok" {
					rejected[k]++
				}
			}
			continue
		}
		if err := e.render(); err != nil {
			return core.Infra("program %s cannot be rendered: %v", e.key(), err)
		}
		accepted = append(accepted, e)
		admTotal += len(e.Adm)
		if len(e.Adm) > 1 {
			setValued++
		}
	}
	c.Extra["programs_in_model"] = len(all)
	c.Extra["programs_rejected_by_model"] = rejected
	c.Extra["admissible_outcomes"] = admTotal
	c.Extra["programs_with_several_admissible_outcomes"] = setValued
	if rejected["race"] == 0 || rejected["deadlock"] == 0 {
		return core.Infra("the model rejected no racy / no deadlocking program (vacuous rejection rule): %v", rejected)
	}
	kept, err := c10Gate(c, accepted)
	if err != nil {
		return err
	}
	tGate := time.Now()
	scratch, err := os.MkdirTemp("", "verif-c10-")
	if err != nil {
		return core.Infra("mktemp: %v", err)
	}
	defer os.RemoveAll(scratch)

	// few, large children: under load the start-up of an interpreter dominates
	nchunks := c.Pick(4, 8)
	if nchunks > len(kept) {
		nchunks = len(kept)
	}
	if nchunks == 0 {
		return core.Infra("no program left after the gate")
	}
	chunk := (len(kept) + nchunks - 1) / nchunks
	var mu sync.Mutex
	var firstErr error
	observed := 0
	var allocs, foreign int64
	type cand struct {
		e    *c10Entry
		sig  string
		what string
	}
	var cands []cand
	core.ParDo(nchunks, 4, func(j int) {
		lo, hi := j*chunk, (j+1)*chunk
		if hi > len(kept) {
			hi = len(kept)
		}
		if lo >= hi {
			return
		}
		part := kept[lo:hi]
		res, tr, err := c10RunChildren(c, part, runs, c.Seed, scratch)
		mu.Lock()
		defer mu.Unlock()
		if err != nil {
			if firstErr == nil {
				firstErr = err
			}
			return
		}
		if t := tr[-1]; t != nil {
			// confirm by a second run of the same programs
			_, tr2, err2 := c10RunChildren(c, part, runs, c.Seed+77, scratch)
			if err2 == nil && tr2[-1] != nil {
				c.Violation("chan(*):race-report", fmt.Sprintf("the race detector reports a data race while running programs %s .. %s, which the model proves race-free, in two separate processes:\n%s",
					part[0].key(), part[len(part)-1].key(), t.Stderr), map[string]string{"first": part[0].key(), "last": part[len(part)-1].key()})
			} else if firstErr == nil {
				firstErr = core.Infra("race report did not show again: %s", t.Stderr)
			}
		}
		for _, e := range part {
			if t := tr[e.idx]; t != nil {
				cands = append(cands, cand{e, t.Kind, t.Stderr})
				continue
			}
			r := res[e.idx]
			if r == nil {
				if firstErr == nil {
					firstErr = core.Infra("no result for program %s", e.key())
				}
				continue
			}
			allocs += r.Allocs
			foreign += r.Foreign
			observed += len(r.Outcomes)
			for o, n := range r.Outcomes {
				for k := 0; k < n; k++ {
					c.Case(e.key()+"|"+o, e.nontrivial)
					c.Trace()
				}
			}
			if sig, what := c10Judge(e, r); sig != "" {
				cands = append(cands, cand{e, sig, what})
			}
		}
	})
	if firstErr != nil {
		return firstErr
	}
	c.Extra["distinct_outcomes_observed"] = observed
	c.Extra["frame_allocations_checked"] = allocs
	c.Extra["allocations_on_non_creator_goroutines"] = foreign
	if foreign == 0 {
		return core.Infra("no frame was allocated outside the creator goroutine (vacuous ownership check)")
	}
	tRuns := time.Now()
	sort.Slice(cands, func(i, j int) bool { return cands[i].e.idx < cands[j].e.idx })
	var ces []*c10Entry
	for _, cd := range cands {
		ces = append(ces, cd.e)
	}
	confirmed, err := c10Confirm(c, ces, runs, scratch, 2)
	if err != nil {
		return err
	}
	for _, cd := range cands {
		cf, ok := confirmed[cd.e.idx]
		if !ok {
			return core.Infra("disagreement on program %s (%s: %s) did not show again in 2 further batches of %d runs", cd.e.key(), cd.sig, cd.what, runs)
		}
		c.Violation(fmt.Sprintf("chan(%s):%s", cd.e.Prog.Tpl, cf[0]), cf[1]+"\n"+cd.e.src, c10Replay{Entry: cd.e, Runs: runs, Source: cd.e.src})
	}
	c.Extra["wall_s_phases"] = map[string]float64{"model": tModel.Sub(t0).Seconds(), "gate": tGate.Sub(tModel).Seconds(),
		"runs": tRuns.Sub(tGate).Seconds(), "confirm": time.Since(tRuns).Seconds()}
	for i, e := range kept {
		if i%(len(kept)/4+1) == 0 {
			c.Sample(map[string]interface{}{"program": e.key(), "admissible": e.Adm, "source_lines": strings.Count(e.src, "\n")})
		}
	}
	c.Assume("channel operations, select, Lock/Unlock and WaitGroup operations are linearisable (one atomic step each, an unbuffered send and its receive one combined step); whether a rendezvous partner has already parked is unobservable without timing, so a select with default admits both the rendezvous and the default when the partner stands at its operation")
	c.Assume("race freedom of a program = no reachable state with two goroutines at conflicting plain accesses of one variable (Boehm-Adve characterisation over sequentially consistent executions); racy and deadlocking programs are discarded by the model, all remaining shared accesses are ordered by channels, mutexes or WaitGroups")
	c.Assume("the rendered entry waits (hidden WaitGroup) for every goroutine not declared blocked-for-ever, so the model lets goroutines continue after the entry function's body ended; real runs sample schedules (GOMAXPROCS 1/2/16, seeded Gosched/sleep at every statement): a wrong outcome on a schedule the runs never take is missed, never misreported")
	c.Assume("panic messages are compared by class (send on closed channel / close of closed channel / close of nil channel)")
	return nil
}

func replayC10(c *core.Ctx, raw json.RawMessage) error {
	var w c10Replay
	if err := json.Unmarshal(raw, &w); err != nil || w.Entry == nil || w.Entry.Prog == nil {
		return core.Infra("bad replay case: %v", err)
	}
	e := w.Entry
	e.Admissible = map[string]bool{}
	for _, a := range e.Adm {
		e.Admissible[a] = true
	}
	if err := e.render(); err != nil {
		return core.Infra("render: %v", err)
	}
	scratch, err := os.MkdirTemp("", "verif-c10-")
	if err != nil {
		return core.Infra("mktemp: %v", err)
	}
	defer os.RemoveAll(scratch)
	if w.Runs == 0 {
		w.Runs = 21
	}
	confirmed, err := c10Confirm(c, []*c10Entry{e}, w.Runs, scratch, 2)
	if err != nil {
		return err
	}
	if cf, ok := confirmed[e.idx]; ok {
		c.Violation(fmt.Sprintf("chan(%s):%s", e.Prog.Tpl, cf[0]), cf[1]+"\n"+e.src, raw)
	}
	return nil
}

func selfTestC10(c *core.Ctx) error {
	for _, v := range []struct{ broken, want string }{
		{"select-nonready", "Fifo"}, {"range-no-end", "Fifo"}, {"lock-shared", "MutexExcl"}, {"closed-ok", "ClosedZero"}} {
		r, err := c.TLC(core.TLCOpts{Spec: "Chan", CfgName: "broken-" + v.broken, Cfg: c10Cfg(1, v.broken, false), ExpectError: true, Workers: 4})
		if err != nil {
			return err
		}
		if r.Violated != v.want {
			return fmt.Errorf("broken variant %s: TLC reported %q, expected a violation of %s", v.broken, r.Violated, v.want)
		}
	}
	// the membership test must reject an outcome the model does not admit and a foreign panic
	e := &c10Entry{Prog: &c10Prog{Tpl: "t", Par: []int{1}}, Admissible: map[string]bool{"0,0,1,2": true, "0,0,2,1": true}, Adm: []string{"0,0,1,2", "0,0,2,1"}}
	if s, _ := c10Judge(e, &c10ChildRes{Outcomes: map[string]int{"0,0,1,2": 3, "0,0,2,1": 1}}); s != "" {
		return fmt.Errorf("admissible outcomes judged %q", s)
	}
	if s, _ := c10Judge(e, &c10ChildRes{Outcomes: map[string]int{"0,0,1,2": 3, "0,0,1,1": 1}}); s != "outcome-not-admissible" {
		return fmt.Errorf("inadmissible outcome judged %q", s)
	}
	if s, _ := c10Judge(e, &c10ChildRes{Outcomes: map[string]int{"1,0,1": 1}}); s != "panic-differs" {
		return fmt.Errorf("wrong panic class judged %q", s)
	}
	if s, _ := c10Judge(e, &c10ChildRes{Outcomes: map[string]int{"0,0,1,2": 1}, BadAlloc: 1}); s != "ownership" {
		return fmt.Errorf("foreign allocation judged %q", s)
	}
	return nil
}

package props

import (
	"encoding/json"
	"fmt"
	"hash/fnv"
	"strings"
	"sync/atomic"

	"verif/harness/core"
)

// C07: defer / panic / recover. Spec: spec/sem/Defer.tla (Go-level semantics with lazily
// revealed programs). Every emitted (program, event log, outcome) is rendered as Go source,
// gated against compiled Go and replayed on the fast interpreter event by event.

func init() {
	core.Register(&core.Prop{
		ID: "C07",
		Rule: "TLC enumerates programs over functions f0..f(NF-1) built from {log, call, defer, defer-in-loop, deferred closure calling one level deeper, deferred closure with direct recover and named-result update, direct recover, panic(int|string|error|struct), res=, return, spin} " +
			"together with the event log and outcome Go prescribes (BFS bounded-exhaustive + seeded simulation); each is run on the interpreter and compared event by event; " +
			"non-trivial = the program defers or panics at least once; distinct by program text",
		Run:      runC07,
		Replay:   replayC07,
		SelfTest: selfTestC07,
	})
}

type c07Op struct {
	K string `json:"k"`
	G int    `json:"g"`
	V int    `json:"v"`
}
type c07Rec struct {
	Body    map[string][]c07Op `json:"body"`
	Log     [][]interface{}    `json:"log"`
	Outcome []interface{}      `json:"outcome"`
	MaxP    int                `json:"maxp"`
	Fault   int                `json:"fault"`
	Nev     int                `json:"nev"`
}

const c07Prelude = "type T4 struct{ V int }\nvar sink int\nfunc evT(tag string, f int, pc int, x T4) { ev(tag, f, pc, x.V) }\n"

func c07PanicExpr(v int) string {
	switch v {
	case 1:
		return "1"
	case 2:
		return `"two"`
	case 3:
		return `errors.New("three")`
	case 4:
		return "T4{4}"
	}
	return fmt.Sprint(v)
}

// value as logged by ev(..., r) after r := recover()
func c07ShowRecovered(v int) string {
	switch v {
	case 0:
		return "nil"
	case 1:
		return "int:1"
	case 2:
		return `string:"two"`
	case 3:
		return `&{string:"three"}`
	case 4:
		return "{int:4}"
	case 9:
		return `string:"fault"`
	}
	return fmt.Sprintf("int:%d", v)
}

// value as projected by show.ShowPanic when it escapes
func c07ShowEscaped(v int) string {
	switch v {
	case 3:
		return "error:three"
	}
	return c07ShowRecovered(v)
}

var c07Serial int64

// c07Book renders the bookkeeping observation carried by a model event: ExecFlags.IsDefer and
// the call depth (the model counts frames from 1 = entry function, like Env.CallDepth).
func c07Book(e []interface{}, at int) string {
	if len(e) < at+2 {
		return ""
	}
	isd, _ := e[at].(bool)
	return fmt.Sprintf(" |isdef:%v depth:%d", isd, num(e[at+1]))
}

func num(x interface{}) int {
	switch x := x.(type) {
	case float64:
		return int(x)
	case int:
		return x
	}
	return -1
}

func c07Render(rec *c07Rec, raw []byte) *ProgCase {
	sfx := fmt.Sprintf("_%d", atomic.AddInt64(&c07Serial, 1))
	nf := len(rec.Body)
	fn := func(i int) string { return fmt.Sprintf("f%d%s", i, sfx) }
	var b strings.Builder
	nontrivial := false
	var shape strings.Builder
	for i := nf - 1; i >= 0; i-- {
		ops := rec.Body[fmt.Sprint(i)]
		fmt.Fprintf(&b, "func %s() (res int) {\n", fn(i))
		for _, op := range ops {
			if op.K == "mut" || op.K == "deferval" {
				b.WriteString("\tvar sv T4\n\t_ = sv\n")
				break
			}
		}
		terminated := false
		fmt.Fprintf(&shape, "|f%d:", i)
		for pc0, op := range ops {
			pc := pc0 + 1
			fmt.Fprintf(&shape, "%s%d.%d;", op.K, op.G, op.V)
			switch op.K {
			case "L":
				fmt.Fprintf(&b, "\tev(\"L\", %d, %d)\n", i, pc)
			case "call":
				fmt.Fprintf(&b, "\tev(\"ret\", %d, %s())\n", op.G, fn(op.G))
			case "defer":
				nontrivial = true
				fmt.Fprintf(&b, "\tdefer %s()\n", fn(op.G))
			case "deferloop":
				nontrivial = true
				fmt.Fprintf(&b, "\tfor i := 0; i < 2; i++ {\n\t\tdefer %s()\n\t}\n", fn(op.G))
			case "deferclo":
				nontrivial = true
				fmt.Fprintf(&b, "\tdefer func() { res += 10 * %s() }()\n", fn(op.G))
			case "deferrec":
				nontrivial = true
				fmt.Fprintf(&b, "\tdefer func() {\n\t\tr := recover()\n\t\tev(\"R\", %d, %d, r)\n\t\tif r != nil {\n\t\t\tres = %d\n\t\t}\n\t}()\n", i, pc, op.V)
			case "deferev":
				nontrivial = true
				fmt.Fprintf(&b, "\tdefer ev(\"D\", %d, %d)\n", i, pc)
			case "rec":
				fmt.Fprintf(&b, "\tev(\"R\", %d, %d, recover())\n", i, pc)
			case "panic":
				nontrivial = true
				fmt.Fprintf(&b, "\tpanic(%s)\n", c07PanicExpr(op.V))
				terminated = pc == len(ops)
			case "set":
				fmt.Fprintf(&b, "\tres = %d\n", op.V)
			case "ret":
				fmt.Fprintf(&b, "\treturn %d\n", op.V)
				terminated = pc == len(ops)
			case "mut":
				fmt.Fprintf(&b, "\tsv.V++\n")
			case "deferval":
				nontrivial = true
				fmt.Fprintf(&b, "\tdefer evT(\"V\", %d, %d, sv)\n", i, pc)
			case "bp":
				fmt.Fprintf(&b, "\t_ = \"break\"\n")
			case "spin":
				fmt.Fprintf(&b, "\tfor k := 0; k < 100; k++ {\n\t\tsink++\n\t}\n")
			}
		}
		if !terminated {
			b.WriteString("\treturn\n")
		}
		b.WriteString("}\n")
	}
	pc := &ProgCase{Decls: b.String(), Entry: fn(0) + "()", Nontrivial: nontrivial, Raw: append([]byte(nil), raw...)}
	h := fnv.New64a()
	h.Write([]byte(shape.String()))
	pc.Key = fmt.Sprintf("%x", h.Sum64())
	for _, e := range rec.Log {
		if len(e) == 0 {
			continue
		}
		switch e[0] {
		case "V":
			pc.WantEvents = append(pc.WantEvents, fmt.Sprintf(`string:"V" int:%d int:%d int:%d`, num(e[1]), num(e[2]), num(e[3]))+c07Book(e, 4))
		case "D":
			pc.WantEvents = append(pc.WantEvents, fmt.Sprintf(`string:"D" int:%d int:%d`, num(e[1]), num(e[2]))+c07Book(e, 3))
		case "L":
			pc.WantEvents = append(pc.WantEvents, fmt.Sprintf(`string:"L" int:%d int:%d`, num(e[1]), num(e[2]))+c07Book(e, 3))
		case "R":
			pc.WantEvents = append(pc.WantEvents, fmt.Sprintf(`string:"R" int:%d int:%d %s`, num(e[1]), num(e[2]), c07ShowRecovered(num(e[3])))+c07Book(e, 4))
		case "ret":
			pc.WantEvents = append(pc.WantEvents, fmt.Sprintf(`string:"ret" int:%d int:%d`, num(e[1]), num(e[2]))+c07Book(e, 3))
		}
	}
	if len(rec.Outcome) == 2 && rec.Outcome[0] == "done" {
		pc.WantResult = fmt.Sprintf("[int:%d]", num(rec.Outcome[1]))
	} else if len(rec.Outcome) == 2 {
		pc.WantResult = "panic(" + c07ShowEscaped(num(rec.Outcome[1])) + ")"
	}
	return pc
}

// c07Sig names the disagreement: (predicate over the behaviour, shape of the disagreement).
func c07Sig(pc *ProgCase, events []string, result string) string {
	var rec c07Rec
	json.Unmarshal(pc.Raw, &rec)
	// shape of the disagreement
	shape := "events-differ"
	same := len(events) == len(pc.WantEvents)
	if same {
		for i := range events {
			if !eventEq(pc.WantEvents[i], events[i]) {
				same = false
			}
		}
	}
	wantPanic := strings.HasPrefix(pc.WantResult, "panic(")
	gotPanic := strings.HasPrefix(result, "panic(")
	switch {
	case same && wantPanic && !gotPanic:
		shape = "panic-expected-to-escape-but-returned-normally"
	case same && !wantPanic && gotPanic:
		shape = "unexpected-panic-escapes"
	case same && wantPanic && gotPanic:
		shape = "different-panic-escapes"
	case same:
		shape = "result-differs"
	case len(events) < len(pc.WantEvents):
		shape = "events-missing"
	case len(events) > len(pc.WantEvents):
		shape = "events-extra"
	}
	// predicate over the behaviour, computed by the specification (history variable maxp):
	// a panic is raised while an earlier panic is still in flight
	pred := "single-panic-in-flight"
	if rec.MaxP >= 2 {
		pred = "SigNestedPanic(maxp>=2)"
	}
	return pred + ":" + shape
}

func c07Cfg(nf, maxOps, maxTotal int, pvals string, maxFault int) string {
	return fmt.Sprintf("SPECIFICATION Spec\nCONSTANTS\n NF = %d\n MaxOps = %d\n MaxTotal = %d\n PanicVals = %s\n OpKinds <- c_Ops\n MaxFault = %d\n ImplChecksDeferOf = TRUE\n EmitOn = TRUE\nINVARIANTS TypeOK PanicModeHasPanic RunnerValid DoneClean ImplAgrees FaultOnce Emit\n",
		nf, maxOps, maxTotal, pvals, maxFault)
}

func c07Collect(c *core.Ctx, o core.TLCOpts, keep func(n int) bool) ([]*ProgCase, error) {
	var cases []*ProgCase
	seen := map[string]bool{}
	var perr error
	n := 0
	o.OnLine = func(line []byte) {
		n++
		if keep != nil && !keep(n) {
			return
		}
		var rec c07Rec
		if err := json.Unmarshal(line, &rec); err != nil {
			perr = core.Infra("bad record: %v", err)
			return
		}
		pc := c07Render(&rec, line)
		if seen[pc.Key] {
			return
		}
		seen[pc.Key] = true
		cases = append(cases, pc)
	}
	_, err := c.TLC(o)
	if err != nil {
		return nil, err
	}
	return cases, perr
}

func runC07(c *core.Ctx) error {
	// (M)+(R) bounded-exhaustive: every program with <= MaxTotal operations
	allOps := `c_Ops == {"L","call","defer","rec","panic","deferrec","deferclo","deferloop","set","ret","spin","deferev","mut","deferval"}`
	coreOps := `c_Ops == {"L","call","defer","rec","panic","deferrec","deferev"}`
	stride := uint64(c.Pick(4, 1))
	seed := uint64(c.Seed)
	keep := func(n int) bool { return stride == 1 || (uint64(n)*2654435761+seed)%stride == 0 }
	cases, err := c07Collect(c, core.TLCOpts{Spec: "Defer", MCDefs: coreOps, CfgName: "bfs-core-ops",
		Cfg: c07Cfg(3, 3, c.Pick(5, 6), "{1,2}", 0), Timeout: 0}, keep)
	if err != nil {
		return err
	}
	c.Exhaustive = stride == 1
	// (M)+(R) bounded-exhaustive: deferred calls whose arguments are evaluated at the defer statement
	argOps := `c_Ops == {"L","mut","deferval","deferev","panic","deferrec","call"}`
	args, err := c07Collect(c, core.TLCOpts{Spec: "Defer", MCDefs: argOps, CfgName: "bfs-defer-arguments",
		Cfg: c07Cfg(2, 4, c.Pick(4, 5), "{1}", 0)}, nil)
	if err != nil {
		return err
	}
	cases = append(cases, args...)
	// (R) simulation over the full operation alphabet, deeper programs
	sim, err := c07Collect(c, core.TLCOpts{Spec: "Defer", MCDefs: allOps, CfgName: "sim-all-ops",
		Cfg:      c07Cfg(4, 4, 10, "{1,2,3,4}", 0),
		Simulate: true, SimNum: c.Pick(250, 6000), SimDepth: 120, Seed: c.Seed}, nil)
	if err != nil {
		return err
	}
	cases = append(cases, sim...)
	for i, pc := range cases {
		if i%(len(cases)/4+1) == 0 {
			c.Sample(map[string]interface{}{"program": pc.Decls, "entry": pc.Entry, "expected_events": pc.WantEvents, "expected_result": pc.WantResult})
		}
	}
	gf := 0.02
	if c.Thorough() {
		// (every program was gated here at first: hours of native compilation under load; a tenth
		// of them, and every program a verdict is taken on - see RunProgCases - is what is needed)
		gf = 0.1
		if n := len(cases); n > 30000 {
			gf = 3000.0 / float64(n) // native compilation costs about half a second per program
		}
	}
	c.Assume("calls and defers only target higher-numbered functions (termination); recover across compiled/interpreted frames excluded (documented limitation)")
	return RunProgCases(c, cases, ProgOpts{GateFraction: gf, Sig: c07Sig, Prelude: c07Prelude, Book: true})
}

func replayC07(c *core.Ctx, raw json.RawMessage) error {
	var w struct {
		Record json.RawMessage `json:"record"`
	}
	if err := json.Unmarshal(raw, &w); err != nil {
		return err
	}
	var rec c07Rec
	if err := json.Unmarshal(w.Record, &rec); err != nil {
		return err
	}
	pc := c07Render(&rec, w.Record)
	return RunProgCases(c, []*ProgCase{pc}, ProgOpts{GateFraction: 1, Sig: c07Sig, Prelude: c07Prelude, Book: true})
}

func selfTestC07(c *core.Ctx) error {
	// a corrupted expectation must be rejected by the replay and by the gate
	raw := []byte(`{"body":{"0":[{"k":"deferrec","v":7},{"k":"panic","v":1}],"1":[]},"log":[["R",0,1,1,true,2]],"outcome":["done",7]}`)
	var rec c07Rec
	json.Unmarshal(raw, &rec)
	good := c07Render(&rec, raw)
	g := newProgInterp(&ProgOpts{Prelude: c07Prelude, Book: true})
	ev, res := runOnGomacro(g, good)
	if !progConforms(good, ev, res) {
		return fmt.Errorf("correct record rejected: %v %s", ev, res)
	}
	bad := c07Render(&rec, raw)
	bad.WantResult = "[int:0]"
	ev, res = runOnGomacro(g, bad)
	if progConforms(bad, ev, res) {
		return fmt.Errorf("corrupted record accepted")
	}
	return nil
}

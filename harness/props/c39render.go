package props

import (
	"encoding/json"
	"fmt"
	"go/ast"
	"go/parser"
	"go/token"
	"reflect"
	"strings"
)

// C39 rendering and projection: abstract nodes of spec/shell/Collect.tla -> gomacro source
// text; written Go file -> (package, import list, declaration list, statement list) with every
// declaration projected to a position-free dump of its syntax tree (standard go/parser).

type c39Node struct {
	K string `json:"k"`
	V int    `json:"v"`
}

type c39Item struct {
	F  int    `json:"f"`
	I  int    `json:"i"`
	As string `json:"as"`
}

type c39File struct {
	Pkg     int       `json:"pkg"`
	Imports []c39Item `json:"imports"`
	Decls   []c39Item `json:"decls"`
	Stmts   []c39Item `json:"stmts"`
}

type c39Rec struct {
	Profile string      `json:"profile"`
	Files   [][]c39Node `json:"files"`
	Mode    string      `json:"mode"`
	Opts    struct {
		D bool `json:"d"`
		S bool `json:"s"`
	} `json:"opts"`
	Expect              []c39File `json:"expect"`
	Executed            int       `json:"executed"`
	LaterDirFile        bool      `json:"laterDirFile"`
	ForcedWithOptionOff bool      `json:"forcedWithOptionOff"`
}

func (r *c39Rec) key() string {
	b, _ := json.Marshal([]interface{}{r.Files, r.Mode, r.Opts})
	return string(b)
}

// nontrivial = the run contains something besides plain declarations: a node that is
// transformed, dropped, wrapped, expanded or evaluated, or a second file
func (r *c39Rec) nontrivial() bool {
	if len(r.Files) > 1 {
		return true
	}
	for _, n := range r.Files[0] {
		switch n.K {
		case "pkg", "const", "constiota", "type", "var", "func":
		default:
			return true
		}
	}
	return false
}

var c39PkgNames = map[int]string{1: "main", 2: "other"}

// c39Form is the Go text of one written item of a node: what = "decl" | "stmt" | "import".
type c39Form struct {
	what string
	text string
}

// c39RenderNode returns the source chunk of node n (file f, index i; sfx makes every name of
// the run unique inside a reused interpreter) and the forms under which it may be written.
func c39RenderNode(n c39Node, f, i int, sfx string) (chunk string, forms map[string]c39Form) {
	N := fmt.Sprintf("_%d_%d_%s", f, i, sfx)
	id := f*100 + i
	forms = map[string]c39Form{}
	decl := func(as, text string) { forms[as] = c39Form{"decl", text} }
	stmt := func(as, text string) { forms[as] = c39Form{"stmt", text} }
	switch n.K {
	case "pkg":
		chunk = "package " + c39PkgNames[n.V]
	case "import1":
		if n.V == 1 {
			chunk = `import "fmt"`
		} else {
			chunk = `import str "strings"`
		}
		forms["same"] = c39Form{"import", chunk}
	case "importN":
		chunk = "import (\n\t\"os\"\n\te \"errors\"\n\t_ \"embed\"\n\t. \"math\"\n)"
		forms["same"] = c39Form{"import", chunk}
	case "const":
		chunk = fmt.Sprintf("const c%s = 7", N)
		decl("same", chunk)
	case "constiota":
		chunk = fmt.Sprintf("const (\n\tka%s = iota\n\tkb%s\n\t_\n\tkc%s uint8 = 1 << iota\n)", N, N, N)
		decl("same", chunk)
	case "type":
		if n.V == 1 {
			chunk = fmt.Sprintf("type T%s struct {\n\tA int `json:\"a\"`\n\tB, C string\n\t*os.File\n}", N)
		} else {
			chunk = fmt.Sprintf("type (\n\tU%s int\n\tW%s = []U%s\n\tI%s interface {\n\t\tfmt.Stringer\n\t\tM(int) (string, error)\n\t}\n)", N, N, N, N)
		}
		decl("same", chunk)
	case "var":
		switch n.V {
		case 1:
			chunk = fmt.Sprintf("var v%s = map[string][]int{\"a\": {1, 2},\n\t\"b\": nil}", N)
		case 2:
			chunk = fmt.Sprintf("var (\n\tva%s, vb%s int = 1, 2\n\tvc%s     = `raw\nstring`\n)", N, N, N)
		default:
			chunk = fmt.Sprintf("var v%s = evNow(%d)", N, id)
		}
		decl("same", chunk)
	case "func":
		chunk = fmt.Sprintf("func f%s(a int, b ...string) (r int, err error) {\n\tdefer func() { r += evNow(%d) }()\nL:\n\tfor i := range b {\n\t\tswitch {\n\t\tcase i > a:\n\t\t\tbreak L\n\t\tdefault:\n\t\t\tr += i\n\t\t}\n\t}\n\treturn a, nil\n}", N, id)
		decl("same", chunk)
	case "funcparen":
		// parentheses the Go grammar requires (they are not redundant)
		if n.V == 1 {
			chunk = fmt.Sprintf("func fp%s() <-chan int {\n\treturn (<-chan int)(nil)\n}", N)
		} else {
			chunk = fmt.Sprintf("func fp%s(a T%s) bool {\n\tif (a == T%s{}) {\n\t\treturn true\n\t}\n\treturn false\n}", N, N, N)
		}
		decl("same", chunk)
	case "funcdiv":
		// gofmt's spelling of a division by a parenthesised operand in a nested expression
		chunk = fmt.Sprintf("func fd%s(a, b int) int {\n\treturn 1 + a/(b+1)\n}", N)
		decl("same", chunk)
	case "method":
		chunk = fmt.Sprintf("func (t *T%s) m%s(x interface{}) int {\n\tif v, ok := x.(int); ok && v > 0 {\n\t\treturn v\n\t}\n\treturn evNow(%d)\n}", N, N, id)
		decl("same", chunk)
	case "macrodecl":
		chunk = fmt.Sprintf("macro mc%s(a ast.Node) ast.Node { return a }", N)
	case "define":
		if n.V == 1 {
			chunk = fmt.Sprintf("d%s := 5", N)
			decl("var", fmt.Sprintf("var d%s = 5", N))
		} else {
			chunk = fmt.Sprintf("da%s, db%s := 6, evNow(%d)", N, N, id)
			decl("var", fmt.Sprintf("var da%s, db%s = 6, evNow(%d)", N, N, id))
		}
	case "assign":
		chunk = fmt.Sprintf("s%s = 3", N)
		stmt("same", chunk)
	case "forstmt":
		chunk = fmt.Sprintf("for i := 0; i < 3; i++ {\n\ts%s += i\n}", N)
		stmt("same", chunk)
	case "expr":
		if n.V == 1 {
			chunk = fmt.Sprintf("evNow(%d)", id)
		} else {
			chunk = fmt.Sprintf("1 + x%s", N)
		}
		stmt("same", chunk)
	case "chunk2":
		a, b := fmt.Sprintf("var ca%s = 1", N), fmt.Sprintf("func cb%s() {}", N)
		chunk = a + "; " + b
		decl("arg1", a)
		decl("arg2", b)
	case "fimport":
		chunk = fmt.Sprintf(":import ast_%s \"go/ast\"", sfx)
	case "fvar":
		chunk = fmt.Sprintf(":var h%s = evNow(%d)", N, id)
	case "ffunc":
		chunk = fmt.Sprintf(":func g%s() int { return evNow(%d) }", N, id)
	case "mdef":
		if n.V == 1 {
			chunk = fmt.Sprintf(":macro ident_%s(a ast_%s.Node) ast_%s.Node { return a }", sfx, sfx, sfx)
		} else {
			chunk = fmt.Sprintf(":macro two_%s(a, b ast_%s.Node) ast_%s.Node { return ~\"{ ~,a; ~,b } }", sfx, sfx, sfx)
		}
	case "inv1":
		a := fmt.Sprintf("var i%s = 3", N)
		if n.V == 2 {
			a = fmt.Sprintf("func i%s() int { return 3 }", N)
		}
		chunk = fmt.Sprintf("ident_%s; %s", sfx, a)
		decl("arg1", a)
		stmt("name", "ident_"+sfx)
	case "inv2":
		a, b := fmt.Sprintf("var ta%s = 1", N), fmt.Sprintf("func tb%s() {}", N)
		chunk = fmt.Sprintf("two_%s; %s; %s", sfx, a, b)
		decl("arg1", a)
		decl("arg2", b)
		stmt("name", "two_"+sfx)
	default:
		panic("c39: unknown node kind " + n.K)
	}
	return chunk + "\n", forms
}

// c39RenderFile renders one source file.
func c39RenderFile(nodes []c39Node, f int, sfx string) string {
	var b strings.Builder
	for i, n := range nodes {
		chunk, _ := c39RenderNode(n, f, i+1, sfx)
		b.WriteString(chunk)
		b.WriteString("\n")
	}
	return b.String()
}

// ---------------------------------------------------------------- projection

var c39SkipFields = map[string]bool{"Obj": true, "Scope": true, "Unresolved": true, "Comments": true, "Doc": true, "Comment": true,
	"Imports": true, "FileStart": true, "FileEnd": true, "GoVersion": true}

var c39PosType = reflect.TypeOf(token.NoPos)
var c39ParenType = reflect.TypeOf(ast.ParenExpr{})

// c39Dump prints a syntax tree without positions (only whether each position is set, which
// is how go/ast encodes parentheses, `...`, alias declarations and the like).
func c39Dump(x interface{}) string {
	var b strings.Builder
	c39DumpRV(&b, reflect.ValueOf(x))
	return b.String()
}

func c39DumpRV(b *strings.Builder, v reflect.Value) {
	if !v.IsValid() {
		b.WriteString("nil")
		return
	}
	switch v.Kind() {
	case reflect.Interface, reflect.Ptr:
		if v.IsNil() {
			b.WriteString("nil")
			return
		}
		c39DumpRV(b, v.Elem())
	case reflect.Struct:
		t := v.Type()
		if t == c39ParenType {
			// parentheses are transparent: grouping is already in the shape of the tree, and the
			// preprocessor may drop redundant ones; dropping REQUIRED ones changes the reparsed tree
			c39DumpRV(b, v.FieldByName("X"))
			return
		}
		b.WriteString(t.Name())
		b.WriteByte('{')
		for k := 0; k < t.NumField(); k++ {
			name := t.Field(k).Name
			if c39SkipFields[name] || !t.Field(k).IsExported() {
				continue
			}
			fv := v.Field(k)
			if fv.Type() == c39PosType {
				if fv.Int() != 0 {
					b.WriteString(name + "+ ")
				}
				continue
			}
			b.WriteString(name + ":")
			c39DumpRV(b, fv)
			b.WriteByte(' ')
		}
		b.WriteByte('}')
	case reflect.Slice:
		b.WriteByte('[')
		for k := 0; k < v.Len(); k++ {
			c39DumpRV(b, v.Index(k))
			b.WriteByte(',')
		}
		b.WriteByte(']')
	case reflect.String:
		fmt.Fprintf(b, "%q", v.String())
	case reflect.Bool:
		fmt.Fprint(b, v.Bool())
	case reflect.Int, reflect.Int8, reflect.Int16, reflect.Int32, reflect.Int64:
		if tok, ok := v.Interface().(token.Token); ok {
			b.WriteString(tok.String())
		} else {
			fmt.Fprint(b, v.Int())
		}
	default:
		fmt.Fprintf(b, "<%s>", v.Kind())
	}
}

// c39Obs is the projection of one written file.
type c39Obs struct {
	Err     string // the file does not parse as Go
	Pkg     string
	Imports []string
	Decls   []string
	Stmts   []string
	// declared names, parallel to the lists above ("" for statements)
	ImportNames, DeclNames, StmtNames []string
	HasInit                           bool
	Text    string
}

func c39Project(text string) *c39Obs {
	o := &c39Obs{Text: text}
	fset := token.NewFileSet()
	file, err := parser.ParseFile(fset, "written.go", text, parser.SkipObjectResolution)
	if err != nil {
		o.Err = err.Error()
		return o
	}
	o.Pkg = file.Name.Name
	for _, d := range file.Decls {
		switch d := d.(type) {
		case *ast.GenDecl:
			if d.Tok == token.IMPORT {
				o.Imports = append(o.Imports, c39Dump(d))
				o.ImportNames = append(o.ImportNames, c39NameOf(d))
				continue
			}
		case *ast.FuncDecl:
			if d.Recv == nil && d.Name.Name == "init" && d.Body != nil {
				// the wrapper WriteDeclsToStream puts around collected statements (no rendered
				// node declares init)
				o.HasInit = true
				for _, s := range d.Body.List {
					o.Stmts = append(o.Stmts, c39Dump(s))
					o.StmtNames = append(o.StmtNames, "")
				}
				continue
			}
		}
		o.Decls = append(o.Decls, c39Dump(d))
		o.DeclNames = append(o.DeclNames, c39NameOf(d))
	}
	return o
}

// c39NameOf returns the (first) name a declaration declares.
func c39NameOf(d ast.Decl) string {
	switch d := d.(type) {
	case *ast.FuncDecl:
		return d.Name.Name
	case *ast.GenDecl:
		if len(d.Specs) > 0 {
			switch s := d.Specs[0].(type) {
			case *ast.ValueSpec:
				if len(s.Names) > 0 {
					return s.Names[0].Name
				}
			case *ast.TypeSpec:
				return s.Name.Name
			case *ast.ImportSpec:
				return s.Path.Value
			}
		}
	}
	return ""
}

// c39DumpForm parses the Go text of an expected item with the standard parser.
func c39DumpForm(fm c39Form) (dump, name string, err error) {
	fset := token.NewFileSet()
	switch fm.what {
	case "decl", "import":
		file, err := parser.ParseFile(fset, "form.go", "package p\n"+fm.text+"\n", parser.SkipObjectResolution)
		if err != nil || len(file.Decls) != 1 {
			return "", "", fmt.Errorf("rendered declaration does not parse: %v\n%s", err, fm.text)
		}
		return c39Dump(file.Decls[0]), c39NameOf(file.Decls[0]), nil
	default:
		file, err := parser.ParseFile(fset, "form.go", "package p\nfunc _() {\n"+fm.text+"\n}\n", parser.SkipObjectResolution)
		if err != nil {
			return "", "", fmt.Errorf("rendered statement does not parse: %v\n%s", err, fm.text)
		}
		body := file.Decls[0].(*ast.FuncDecl).Body.List
		if len(body) != 1 {
			return "", "", fmt.Errorf("rendered statement is not one statement: %s", fm.text)
		}
		return c39Dump(body[0]), "", nil
	}
}

package props

import (
	"encoding/json"
	"fmt"
	"go/token"
	"strings"

	"github.com/cosmos72/gomacro/go/etoken"

	"verif/harness/core"
)

// Self-tests of C24 / C25: broken variants of the grammar must be caught by TLC's invariants and
// by the go/parser gate; corrupted records must be rejected; a broken printer must be caught.

// c24Collect runs TLC and returns the decoded records.
func c24Collect(c *core.Ctx, name string, starts []c24Start, o c24CfgOpts, expectError bool) ([]*c24Rec, *core.TLCResult, error) {
	var recs []*c24Rec
	var names []string
	var derr error
	res, err := c.TLC(core.TLCOpts{Spec: "GoSyntax", MCDefs: c24MCDefs(starts), CfgName: name, Cfg: c24Cfg(o), Workers: 4, ExpectError: expectError,
		OnLine: func(l []byte) {
			if len(l) > 0 && l[0] == '{' {
				var h struct{ Names []string }
				json.Unmarshal(l, &h)
				names = h.Names
				return
			}
			flat, e := c24ParseFlat(l)
			if e != nil {
				derr = e
				return
			}
			r := &c24Rec{Names: names, Flat: flat, Seed: 1}
			if e := r.decode(); e != nil {
				derr = e
				return
			}
			recs = append(recs, r)
		}})
	if err == nil {
		err = derr
	}
	return recs, res, err
}

func c24SelfBroken(c *core.Ctx) error {
	// 1. broken variants of the grammar / of the derivation machine violate TLC's invariants
	// (two nested operator nodes need a budget of 4 nodes: Top, ExprStmt, operator, operator)
	for _, b := range []struct {
		variant, inv string
		budget       int
	}{{"precminus", "PrecAgree", 4}, {"unaryloose", "PrecAgree", 4}, {"noend", "TreeOK", 3}} {
		_, res, err := c24Collect(c, "broken-"+b.variant, []c24Start{{"TopExpr", b.budget}}, c24CfgOpts{Canon: true, Broken: b.variant, Invs: b.inv}, true)
		if err != nil {
			return err
		}
		if res.Violated != b.inv {
			return fmt.Errorf("broken variant %s not detected by invariant %s (violated=%q)\n%s", b.variant, b.inv, res.Violated, res.Output)
		}
	}
	// 2. with the invariant out of the way, the go/parser gate rejects the broken grammar
	recs, _, err := c24Collect(c, "broken-precminus-gate", []c24Start{{"TopExpr", 4}}, c24CfgOpts{Canon: true, Broken: "precminus", Emit: true, Invs: "Emit1"}, false)
	if err != nil {
		return err
	}
	bad := 0
	for _, r := range recs {
		cs, err := c24Prepare(r, c24Spell(), 1)
		if err != nil {
			return err
		}
		if !c24Judge(cs).GateOK {
			bad++
		}
	}
	if bad == 0 || len(recs) == 0 {
		return fmt.Errorf("broken grammar precminus not rejected by the go/parser gate (%d of %d)", bad, len(recs))
	}
	return nil
}

// c24ModelOnly compares gomacro's parser with the derivation alone (no gate, no go/parser oracle).
func c24ModelOnly(cs *c24Case) []string {
	var out []string
	fork := c24ParseFork(cs.Tx.Src, false)
	if fork.Failed() {
		return []string{"fails"}
	}
	if len(fork.Nodes) != len(cs.FItems) {
		return []string{"count"}
	}
	var ds []c24Diff
	for i, n := range fork.Nodes {
		got := c24FromAst(n, fork.Base, true)
		if got == nil {
			return []string{"nil"}
		}
		c24Compare(cs.FItems[i], got, "", &ds)
	}
	for _, d := range ds {
		out = append(out, d.Key)
	}
	return out
}

// c24Corrupt damages the decoded tree of r in one of three ways; false if not applicable.
func c24Corrupt(r *c24Rec, variant int) bool {
	var nodes []*c24MNode
	var walk func(n *c24MNode)
	walk = func(n *c24MNode) {
		nodes = append(nodes, n)
		for i := range n.F {
			if n.F[i].Node != nil {
				walk(n.F[i].Node)
			}
		}
	}
	walk(r.root)
	for _, n := range nodes[1:] { // (the root only holds the list of top-level nodes)
		switch variant {
		case 0: // the two operands of a binary expression exchanged
			if n.K == "BinaryExpr" {
				var kids []int
				for i, f := range n.F {
					if f.Tag == 4 {
						kids = append(kids, i)
					}
				}
				if len(kids) == 2 {
					n.F[kids[0]].Node, n.F[kids[1]].Node = n.F[kids[1]].Node, n.F[kids[0]].Node
					return true
				}
			}
		case 1: // a position attribute taken from the neighbouring token
			for i, f := range n.F {
				if f.Tag == 0 && f.V > 1 {
					n.F[i].V--
					return true
				}
			}
		case 2: // the node ends one token early
			// (a top-level ExprStmt / DeclStmt is unwrapped by gomacro's parser: its extent is not observed)
			if n.Le > n.Ti && n.Side == 1 && n.K != "ExprStmt" && n.K != "DeclStmt" {
				n.Le--
				return true
			}
		}
	}
	return false
}

func c24SelfRecords(c *core.Ctx) error {
	recs, _, err := c24Collect(c, "selftest-records", []c24Start{{"TopExpr", 3}, {"TopStmt", 2}}, c24CfgOpts{Canon: true, Emit: true}, false)
	if err != nil {
		return err
	}
	checked := [3]int{}
	for _, r := range recs {
		if r.ext {
			continue
		}
		cs, err := c24Prepare(r, c24Spell(), 1)
		if err != nil {
			return err
		}
		v := c24Judge(cs)
		if !v.GateOK {
			return fmt.Errorf("correct record rejected by the gate on %q: %s", cs.Tx.Src, v.GateWhat)
		}
		if d := c24ModelOnly(cs); len(d) > 0 && !(len(d) == 1 && strings.HasPrefix(d[0], "RangeStmt.Range")) && d[0] != "fails" {
			return fmt.Errorf("correct record rejected on %q: %v", cs.Tx.Src, d)
		}
		for variant := 0; variant < 3; variant++ {
			bad := &c24Rec{Names: r.Names, Flat: r.Flat, Seed: 1}
			if err := bad.decode(); err != nil {
				return err
			}
			if !c24Corrupt(bad, variant) {
				continue
			}
			bcs, err := c24Prepare(bad, c24Spell(), 1)
			if err != nil {
				continue // the damaged record does not even render: rejected
			}
			if c24Judge(bcs).GateOK {
				if variant == 0 && string(bcs.Tx.Src) == string(cs.Tx.Src) && c24SameOperands(bad) {
					continue
				}
				return fmt.Errorf("corrupted record (variant %d) passed the gate on %q", variant, cs.Tx.Src)
			}
			if d := c24ModelOnly(bcs); len(d) == 0 {
				return fmt.Errorf("corrupted record (variant %d) accepted on %q", variant, cs.Tx.Src)
			}
			checked[variant]++
		}
	}
	for v, n := range checked {
		if n < 5 {
			return fmt.Errorf("self-test examined only %d corrupted records of variant %d", n, v)
		}
	}
	return nil
}

// c24SameOperands: exchanging the operands changed nothing observable (never the case: operands
// carry their positions) - kept as a guard against a vacuous corruption.
func c24SameOperands(r *c24Rec) bool { return false }

func c24SelfTest(c *core.Ctx) error {
	if err := c24SelfBroken(c); err != nil {
		return err
	}
	return c24SelfRecords(c)
}

// ---------------------------------------------------------------- C25

func c25SelfTest(c *core.Ctx) error {
	// 1. a broken grammar is caught by TLC (the derivations are shared with C24)
	_, res, err := c24Collect(c, "broken-noend", []c24Start{{"TopExpr", 3}}, c24CfgOpts{Canon: true, Broken: "noend", Invs: "TreeOK"}, true)
	if err != nil {
		return err
	}
	if res.Violated != "TreeOK" {
		return fmt.Errorf("broken variant noend not detected (violated=%q)", res.Violated)
	}
	recs, _, err := c24Collect(c, "selftest-records", []c24Start{{"TopExpr", 4}}, c24CfgOpts{Canon: true, Emit: true}, false)
	if err != nil {
		return err
	}
	// a printer that forgets parentheses, and one that joins statements
	noParens := c25Printer{Name: "broken-no-parens", Fork: true, F: func(fs *token.FileSet, efs *etoken.FileSet, node interface{}) (string, error) {
		s, err := c25Printers[0].F(fs, efs, node)
		return strings.NewReplacer("(", "", ")", "").Replace(s), err
	}}
	caught, applicable, okCorrect, corruptRejected := 0, 0, 0, 0
	for _, r := range recs {
		if r.ext {
			continue
		}
		cs, err := c24Prepare(r, c24Spell(), 1)
		if err != nil {
			return err
		}
		for _, u := range c25Units(cs) {
			// 2. the real printer on a correct record: no violation except those of gomacro's parser
			v := &c25Verdict{GateOK: true, Sigs: map[string]string{}, Info: map[string]string{}}
			c25JudgeUnit(cs, u, false, v)
			if !v.GateOK {
				continue
			}
			for sig := range v.Sigs {
				if !strings.HasSuffix(sig, "@gomacro-parser") {
					return fmt.Errorf("correct record rejected on %q: %s %s", cs.Tx.Src, sig, v.Sigs[sig])
				}
			}
			okCorrect++
			// 3. the broken printer on trees where parentheses matter
			if strings.Contains(string(cs.Tx.Src), "(") {
				vb := &c25Verdict{GateOK: true, Sigs: map[string]string{}, Info: map[string]string{}}
				c25JudgeUnitWith([]c25Printer{noParens}, cs, u, false, vb)
				if vb.GateOK {
					applicable++
					for sig := range vb.Sigs {
						if !strings.HasSuffix(sig, "@gomacro-parser") {
							caught++
							break
						}
					}
				}
			}
			// 4. a corrupted expectation (operands of a binary expression exchanged) is rejected by the gate
			bad := &c24Rec{Names: r.Names, Flat: r.Flat, Seed: 1}
			if err := bad.decode(); err != nil {
				return err
			}
			if c24Corrupt(bad, 0) {
				if bcs, err := c24Prepare(bad, c24Spell(), 1); err == nil {
					if bus := c25Units(bcs); len(bus) > 0 && bus[0].Kind == u.Kind {
						// the printed tree is the correct one, the expectation the damaged one
						u2 := u
						u2.Expect = bus[0].Model
						// (not "a/a", and not "(a)/a": the placement of redundant parentheses is not part of the normal form)
						if same, _ := c25SameNodes(c25NormAll(c25Expected(u), false), c25NormAll(c25Expected(u2), false), false); !same {
							vc := &c25Verdict{GateOK: true, Sigs: map[string]string{}, Info: map[string]string{}}
							c25JudgeUnit(cs, u2, false, vc)
							if vc.GateOK {
								return fmt.Errorf("corrupted record passed the gate on %q", cs.Tx.Src)
							}
							corruptRejected++
						}
					}
				}
			}
		}
	}
	if okCorrect < 50 {
		return fmt.Errorf("self-test examined only %d units", okCorrect)
	}
	if applicable < 20 || caught*10 < applicable*6 {
		return fmt.Errorf("a printer that drops parentheses was caught on %d of %d units only", caught, applicable)
	}
	if corruptRejected < 5 {
		return fmt.Errorf("corrupted expectations were told apart in %d cases only", corruptRejected)
	}
	return nil
}
